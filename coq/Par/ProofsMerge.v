(** C17 — the k-way merge of Par/Merge.v: sorted output, every run is emitted in its own order
    (hence a permutation of the concatenation), and = the stable sort unless two different runs
    contain rows with equal keys. *)
From Coq Require Import List Arith Bool Lia Permutation Sorted.
From GV Require Import Par.Merge Par.ProofsHeap.
Import ListNotations.

Section MergeProofs.
  Context {A : Type}.
  Variable cmp : A -> A -> comparison.
  Variable P : A -> Prop.
  Hypothesis leb_total : forall a b, P a -> P b -> leb cmp a b = true \/ leb cmp b a = true.
  Hypothesis leb_trans : forall a b c, P a -> P b -> P c ->
      leb cmp a b = true -> leb cmp b c = true -> leb cmp a c = true.

  Notation leb := (leb cmp).
  Notation entry := (@entry A).
  Definition le (a b : A) : Prop := leb a b = true.
  Notation sorted := (StronglySorted le).

  Definition tagb (i : nat) (e : entry) : bool := snd e =? i.
  Definition of_run (i : nat) (l : list entry) : list A := map fst (filter (tagb i) l).

  Lemma of_run_app : forall i l1 l2, of_run i (l1 ++ l2) = of_run i l1 ++ of_run i l2.
  Proof. intros. unfold of_run. rewrite filter_app, map_app. reflexivity. Qed.

  Lemma of_run_snoc : forall j l x i, of_run j (l ++ [(x, i)]) = of_run j l ++ (if i =? j then [x] else []).
  Proof.
    intros. rewrite of_run_app. f_equal. unfold of_run, tagb. cbn. destruct (i =? j); reflexivity.
  Qed.

  (** heads of the current runs, tagged with the run index *)
  Fixpoint heads_from (i : nat) (cur : list (list A)) : list entry :=
    match cur with
    | [] => []
    | [] :: cs => heads_from (S i) cs
    | (x :: _) :: cs => (x, i) :: heads_from (S i) cs
    end.

  Lemma init_heap_perm : forall runs h i,
    Permutation (init_heap cmp h i runs) (h ++ heads_from i runs).
  Proof.
    induction runs as [|r rs IH]; intros h i; cbn [init_heap heads_from].
    - rewrite app_nil_r. reflexivity.
    - destruct r as [|x r'].
      + apply IH.
      + eapply perm_trans; [apply IH|].
        eapply perm_trans; [apply Permutation_app_tail, heap_push_perm|].
        cbn. apply Permutation_middle.
  Qed.

  Lemma init_heap_ok : forall runs h i,
    Forall P (concat runs) -> allP P h -> hp_ok cmp h ->
    hp_ok cmp (init_heap cmp h i runs) /\ allP P (init_heap cmp h i runs).
  Proof.
    induction runs as [|r rs IH]; intros h i HP Hh Hok; cbn [init_heap]; auto.
    cbn [concat] in HP. apply Forall_app in HP. destruct HP as [HPr HPrs].
    destruct r as [|x r']; [apply IH; auto|].
    inversion HPr; subst.
    apply IH; auto.
    - eapply allP_perm; [apply Permutation_sym, heap_push_perm|]. constructor; auto.
    - apply heap_push_ok with (P := P); auto.
  Qed.

  Lemma heads_in : forall cur i0 x i, In (x, i) (heads_from i0 cur) ->
    i0 <= i /\ exists tl, nth (i - i0) cur [] = x :: tl.
  Proof.
    induction cur as [|c cs IH]; intros i0 x i H; cbn in H; [tauto|].
    destruct c as [|y c'].
    - apply IH in H. destruct H as [Hle [tl Ht]]. split; [lia|].
      exists tl. replace (i - i0) with (S (i - S i0)) by lia. exact Ht.
    - destruct H as [H|H].
      + injection H as -> ->. split; [lia|]. exists c'. rewrite Nat.sub_diag. reflexivity.
      + apply IH in H. destruct H as [Hle [tl Ht]]. split; [lia|].
        exists tl. replace (i - i0) with (S (i - S i0)) by lia. exact Ht.
  Qed.

  Lemma heads_nil : forall cur i0, heads_from i0 cur = [] -> forall j, nth j cur [] = [].
  Proof.
    induction cur as [|c cs IH]; intros i0 H j; [destruct j; reflexivity|].
    cbn in H. destruct c as [|y c']; [|discriminate].
    destruct j; [reflexivity|]. cbn. eapply IH; eauto.
  Qed.

  Lemma set_tail_len : forall (cur : list (list A)) i l, length (set_tail cur i l) = length cur.
  Proof. induction cur as [|c cs IH]; intros [|i] l; cbn; auto. Qed.

  Lemma set_tail_nth_eq : forall (cur : list (list A)) i l, i < length cur -> nth i (set_tail cur i l) [] = l.
  Proof.
    induction cur as [|c cs IH]; intros [|i] l Hi; cbn in *; try lia; auto. apply IH. lia.
  Qed.

  Lemma set_tail_nth_neq : forall (cur : list (list A)) i j l, i <> j -> nth j (set_tail cur i l) [] = nth j cur [].
  Proof.
    induction cur as [|c cs IH]; intros [|i] [|j] l Hij; cbn; auto; try congruence.
    all: try (apply IH; congruence).
  Qed.

  Lemma map_tl_set_tail : forall (cur : list (list A)) i l,
    map (@tl A) (set_tail cur i l) = set_tail (map (@tl A) cur) i (tl l).
  Proof. induction cur as [|c cs IH]; intros [|i] l; cbn; auto. rewrite IH. reflexivity. Qed.

  Lemma nth_map_tl : forall (cur : list (list A)) i, nth i (map (@tl A) cur) [] = tl (nth i cur []).
  Proof. intros cur i. exact (map_nth (@tl A) cur [] i). Qed.

  Lemma set_tail_same : forall (cur : list (list A)) i, set_tail cur i (nth i cur []) = cur.
  Proof.
    induction cur as [|c cs IH]; intros [|i]; cbn; auto. rewrite IH. reflexivity.
  Qed.

  Lemma heads_set_tail : forall cur i0 i x tl new,
    nth i cur [] = x :: tl ->
    Permutation (heads_from i0 cur) ((x, i0 + i) :: heads_from i0 (set_tail cur i [])) /\
    Permutation (heads_from i0 (set_tail cur i new))
                (match new with [] => [] | y :: _ => [(y, i0 + i)] end ++ heads_from i0 (set_tail cur i [])).
  Proof.
    induction cur as [|c cs IH]; intros i0 i x tl new H.
    - destruct i; discriminate.
    - destruct i as [|i].
      + cbn in H. subst c. cbn. rewrite Nat.add_0_r. split; [reflexivity|].
        destruct new; reflexivity.
      + cbn in H. specialize (IH (S i0) i x tl new H). destruct IH as [I1 I2].
        replace (i0 + S i) with (S i0 + i) by lia.
        cbn [set_tail heads_from]. destruct c as [|y c'].
        * split; assumption.
        * split.
          -- eapply perm_trans; [apply perm_skip; exact I1|]. apply perm_swap.
          -- eapply perm_trans; [apply perm_skip; exact I2|].
             apply Permutation_middle.
  Qed.

  Lemma concat_set_tail_len : forall (cur : list (list A)) i x tl,
    nth i cur [] = x :: tl -> length (concat cur) = S (length (concat (set_tail cur i tl))).
  Proof.
    induction cur as [|c cs IH]; intros [|i] x tl H; cbn in *; try discriminate.
    - subst c. cbn. reflexivity.
    - rewrite !app_length. rewrite (IH i x tl H). lia.
  Qed.

  Lemma sorted_snoc : forall l x, sorted l -> Forall (fun a => le a x) l -> sorted (l ++ [x]).
  Proof.
    induction l as [|a l IH]; intros x Hs Hf; cbn.
    - constructor; constructor.
    - inversion Hs; subst. inversion Hf; subst. constructor.
      + apply IH; auto.
      + apply Forall_app. split; auto.
  Qed.

  Lemma sorted_app_r : forall l1 l2, sorted (l1 ++ l2) -> sorted l2.
  Proof.
    induction l1 as [|a l1 IH]; intros l2 H; cbn in *; auto. inversion H; subst. auto.
  Qed.

  Lemma nth_in_concat : forall (runs : list (list A)) i x, In x (nth i runs []) -> In x (concat runs).
  Proof.
    intros runs i x H. destruct (Nat.lt_ge_cases i (length runs)) as [Hi|Hi].
    - apply in_concat. exists (nth i runs []). split; [apply nth_In; exact Hi|exact H].
    - rewrite nth_overflow in H by exact Hi. destruct H.
  Qed.

  (** the loop invariant; [out] = the entries emitted so far, [cur] = ghost state: the remaining
      part of every run including the row that sits in the heap *)
  Record inv (runs : list (list A)) (out heap : list entry) (tails cur : list (list A)) : Prop := {
    i_ok : hp_ok cmp heap;
    i_P : allP P heap;
    i_tails : tails = map (@tl A) cur;
    i_len : length cur = length runs;
    i_heap : Permutation heap (heads_from 0 cur);
    i_run : forall i, of_run i out ++ nth i cur [] = nth i runs [];
    i_tag : forall e, In e out -> snd e < length runs;
    i_sorted : sorted (map fst out);
    i_bound : forall a e, In a (map fst out) -> In e heap -> le a (fst e) }.

  Record post (runs : list (list A)) (out : list entry) : Prop := {
    p_sorted : sorted (map fst out);
    p_run : forall i, of_run i out = nth i runs [];
    p_tag : forall e, In e out -> snd e < length runs }.

  Lemma loop_spec : forall runs, Forall P (concat runs) -> Forall sorted runs ->
    forall fuel heap tails acc cur,
      inv runs (rev acc) heap tails cur -> length (concat cur) < fuel ->
      post runs (kmerge_loop cmp fuel heap tails acc).
  Proof.
    intros runs HPr Hsr. induction fuel as [|f IH]; intros heap tails acc cur Hinv Hfuel; [lia|].
    cbn [kmerge_loop].
    destruct (heap_pop cmp heap) as [[e heap']|] eqn:Epop.
    2:{ (* heap empty: done *)
      apply heap_pop_none in Epop. subst heap. destruct Hinv.
      apply Permutation_nil in i_heap0.
      constructor; auto.
      intro i. rewrite <- (i_run0 i). rewrite (heads_nil _ _ i_heap0 i). rewrite app_nil_r. reflexivity. }
    destruct Hinv as [Hok HP Htl Hlen Hheap Hrun Htag Hsort Hbound].
    pose proof (heap_pop_perm cmp heap e heap' Epop) as Hperm.
    pose proof (heap_pop_ok cmp P leb_total leb_trans heap e heap' HP Hok Epop) as Hok'.
    pose proof (heap_pop_min cmp P leb_total leb_trans heap e heap' HP Hok Epop) as Hmin.
    assert (HP' : allP P (e :: heap')) by (eapply allP_perm; eauto).
    assert (Pe : P (fst e)) by (inversion HP'; auto).
    assert (HPh' : allP P heap') by (inversion HP'; auto).
    assert (Hin : In e (heads_from 0 cur)).
    { eapply Permutation_in; [exact Hheap|]. eapply Permutation_in; [apply Permutation_sym; exact Hperm|]. left. reflexivity. }
    destruct e as [x i]. cbn [fst snd] in *.
    apply heads_in in Hin. destruct Hin as [_ [tl Hcur]]. rewrite Nat.sub_0_r in Hcur.
    assert (Hi : i < length cur).
    { destruct (Nat.lt_ge_cases i (length cur)); auto. rewrite nth_overflow in Hcur by assumption. discriminate. }
    assert (Hnt : nth i tails [] = tl).
    { subst tails. rewrite nth_map_tl, Hcur. reflexivity. }
    rewrite Hnt.
    destruct (heads_set_tail cur 0 i x tl tl Hcur) as [Hh1 Hh2]. cbn [Nat.add] in Hh1, Hh2.
    assert (Hheap' : Permutation heap' (heads_from 0 (set_tail cur i []))).
    { apply Permutation_cons_inv with (a := (x, i)).
      eapply perm_trans; [apply Permutation_sym; exact Hperm|].
      eapply perm_trans; [exact Hheap|exact Hh1]. }
    (* facts shared by both branches *)
    assert (Hsort' : sorted (map fst (rev ((x, i) :: acc)))).
    { cbn [rev]. rewrite map_app. cbn. apply sorted_snoc; auto.
      apply Forall_forall. intros a Ha. apply (Hbound a (x, i)); auto.
      eapply Permutation_in; [apply Permutation_sym; exact Hperm|]. left; reflexivity. }
    assert (Htag' : forall e, In e (rev ((x, i) :: acc)) -> snd e < length runs).
    { intros e He. cbn [rev] in He. apply in_app_or in He. destruct He as [He|[<-|[]]]; auto. cbn. lia. }
    assert (Hrun' : forall l j, of_run j (rev ((x, i) :: acc)) ++ nth j (set_tail cur i l) [] =
                     if j =? i then of_run j (rev acc) ++ x :: l else nth j runs []).
    { intros l j. cbn [rev]. rewrite of_run_snoc.
      destruct (Nat.eqb_spec i j) as [<-|Hne].
      - rewrite Nat.eqb_refl. rewrite set_tail_nth_eq by assumption. rewrite <- app_assoc. reflexivity.
      - destruct (Nat.eqb_spec j i); [congruence|]. rewrite app_nil_r.
        rewrite set_tail_nth_neq by assumption. apply Hrun. }
    assert (Hruni : of_run i (rev acc) ++ x :: tl = nth i runs []) by (rewrite <- Hcur; apply Hrun).
    destruct tl as [|x' tl'].
    - (* the run is exhausted *)
      apply (IH heap' tails ((x, i) :: acc) (set_tail cur i [])).
      + constructor; auto.
        * try subst tails. rewrite map_tl_set_tail. cbn [List.tl].
          pose proof (set_tail_same (map (@List.tl A) cur) i) as E.
          rewrite nth_map_tl, Hcur in E. cbn [List.tl] in E. symmetry. exact E.
        * rewrite set_tail_len. exact Hlen.
        * intro j. rewrite Hrun'. destruct (Nat.eqb_spec j i) as [->|]; auto.
        * intros a e Ha He. cbn [rev] in Ha. rewrite map_app in Ha. apply in_app_or in Ha.
          destruct Ha as [Ha|[<-|[]]].
          -- apply (Hbound a e Ha). eapply Permutation_in; [apply Permutation_sym; exact Hperm|]. right; exact He.
          -- apply (Hmin e). eapply Permutation_in; [apply Permutation_sym; exact Hperm|]. right; exact He.
      + rewrite (concat_set_tail_len cur i x [] Hcur) in Hfuel. lia.
    - (* push the next row of run i *)
      assert (Hxx' : le x x' /\ P x').
      { assert (Hs : sorted (nth i runs [])).
        { rewrite Forall_forall in Hsr. apply Hsr. apply nth_In. lia. }
        rewrite <- Hruni in Hs. apply sorted_app_r in Hs. inversion Hs; subst.
        inversion H2; subst. split; auto.
        rewrite Forall_forall in HPr. apply HPr. apply (nth_in_concat runs i).
        rewrite <- Hruni. apply in_or_app. right. right. left. reflexivity. }
      destruct Hxx' as [Hxx' Px'].
      apply (IH (heap_push cmp heap' (x', i)) (set_tail tails i tl') ((x, i) :: acc) (set_tail cur i (x' :: tl'))).
      + constructor; auto.
        * apply heap_push_ok with (P := P); auto.
        * eapply allP_perm; [apply Permutation_sym, heap_push_perm|]. constructor; auto.
        * try subst tails. rewrite map_tl_set_tail. reflexivity.
        * rewrite set_tail_len. exact Hlen.
        * eapply perm_trans; [apply heap_push_perm|].
          eapply perm_trans; [apply perm_skip; exact Hheap'|].
          apply Permutation_sym. exact Hh2.
        * intro j. rewrite Hrun'. destruct (Nat.eqb_spec j i) as [->|]; auto.
        * intros a e Ha He.
          assert (He' : In e ((x', i) :: heap')) by (eapply Permutation_in; [apply heap_push_perm|exact He]).
          cbn [rev] in Ha. rewrite map_app in Ha. apply in_app_or in Ha.
          assert (Hxe : le x (fst e)).
          { destruct He' as [<-|He']; [exact Hxx'|].
            apply (Hmin e). eapply Permutation_in; [apply Permutation_sym; exact Hperm|]. right; exact He'. }
          destruct Ha as [Ha|[<-|[]]]; [|exact Hxe].
          assert (Pa : P a).
          { rewrite Forall_forall in HPr. apply HPr. apply in_map_iff in Ha. destruct Ha as [[a' j] [<- Ha]].
            apply (nth_in_concat runs j). rewrite <- (Hrun j). apply in_or_app. left.
            unfold of_run. apply in_map_iff. exists (a', j). split; auto.
            apply filter_In. split; auto. unfold tagb. cbn. apply Nat.eqb_refl. }
          assert (Pfe : P (fst e)).
          { destruct He' as [<-|He']; [exact Px'|]. unfold allP in HPh'. rewrite Forall_forall in HPh'. auto. }
          apply (leb_trans a x (fst e)); auto.
          apply (Hbound a (x, i)); auto.
          eapply Permutation_in; [apply Permutation_sym; exact Hperm|]. left; reflexivity.
      + rewrite (concat_set_tail_len cur i x (x' :: tl') Hcur) in Hfuel. lia.
  Qed.

  Lemma kmerge_tagged_post : forall runs, Forall P (concat runs) -> Forall sorted runs ->
    post runs (kmerge_tagged cmp runs).
  Proof.
    intros runs HP Hs. unfold kmerge_tagged.
    apply (loop_spec runs HP Hs _ _ _ [] runs); [|lia].
    destruct (init_heap_ok runs [] 0 HP) as [Hok HPh].
    { constructor. } { apply hp_ok_nil. }
    constructor; auto.
    - apply (init_heap_perm runs [] 0).
    - intros e [].
    - cbn. constructor.
    - intros a e [].
  Qed.

  (** *** every run comes out in its own order  =>  permutation of the concatenation *)
  Lemma filter_split_perm : forall (f : entry -> bool) l,
    Permutation l (filter (fun e => negb (f e)) l ++ filter f l).
  Proof.
    induction l as [|a l IH]; cbn; auto. destruct (f a); cbn.
    - eapply perm_trans; [apply perm_skip; exact IH|]. apply Permutation_middle.
    - apply perm_skip. exact IH.
  Qed.

  Lemma filter_filter_tag : forall i k (out : list entry), i <> k ->
    filter (tagb i) (filter (fun e => negb (tagb k e)) out) = filter (tagb i) out.
  Proof.
    intros i k out Hik. induction out as [|e out IH]; cbn [filter]; auto.
    destruct (tagb k e) eqn:E1; cbn [negb filter].
    - destruct (tagb i e) eqn:E2; [|exact IH].
      unfold tagb in *. apply Nat.eqb_eq in E1. apply Nat.eqb_eq in E2. congruence.
    - destruct (tagb i e); [f_equal|]; exact IH.
  Qed.

  Lemma interleave_perm : forall k (out : list entry), (forall e, In e out -> snd e < k) ->
    Permutation (map fst out) (concat (map (fun i => of_run i out) (seq 0 k))).
  Proof.
    induction k as [|k IH]; intros out Htag.
    - destruct out as [|e out]; [reflexivity|]. specialize (Htag e (or_introl eq_refl)). lia.
    - rewrite seq_S, map_app, concat_app. cbn [map concat Nat.add]. rewrite app_nil_r.
      eapply perm_trans; [apply Permutation_map, (filter_split_perm (tagb k))|].
      rewrite map_app. apply Permutation_app; [|reflexivity].
      eapply perm_trans; [apply IH|].
      + intros e He. apply filter_In in He. destruct He as [He Hn]. specialize (Htag e He).
        unfold tagb in Hn. destruct (Nat.eqb_spec (snd e) k); [discriminate|lia].
      + assert (E : map (fun i => of_run i (filter (fun e => negb (tagb k e)) out)) (seq 0 k)
                  = map (fun i => of_run i out) (seq 0 k)).
        { apply map_ext_in. intros i Hi. apply in_seq in Hi. unfold of_run. f_equal.
          apply filter_filter_tag. lia. }
        rewrite E. reflexivity.
  Qed.

  Lemma map_nth_seq : forall (runs : list (list A)), map (fun i => nth i runs []) (seq 0 (length runs)) = runs.
  Proof.
    intro runs. apply nth_ext with (d := []) (d' := []).
    - rewrite map_length, seq_length. reflexivity.
    - intros n Hn. rewrite map_length, seq_length in Hn.
      rewrite (nth_indep _ [] (nth (length runs) runs [])) by (rewrite map_length, seq_length; exact Hn).
      rewrite (map_nth (fun i => nth i runs [])). rewrite seq_nth by exact Hn. reflexivity.
  Qed.

  Lemma post_perm : forall runs out, post runs out -> Permutation (map fst out) (concat runs).
  Proof.
    intros runs out [_ Hrun Htag].
    eapply perm_trans; [apply (interleave_perm (length runs)); exact Htag|].
    rewrite (map_ext _ (fun i => nth i runs []) Hrun). rewrite map_nth_seq. reflexivity.
  Qed.

  (** *** stable sort *)
  Notation isort := (isort cmp).
  Notation insert := (insert cmp).
  Notation eqvb := (eqvb cmp).

  Lemma insert_perm : forall x l, Permutation (insert x l) (x :: l).
  Proof.
    induction l as [|y t IH]; cbn; auto. destruct (leb x y); auto.
    eapply perm_trans; [apply perm_skip; exact IH|]. apply perm_swap.
  Qed.

  Lemma isort_perm : forall l, Permutation (isort l) l.
  Proof.
    induction l as [|x t IH]; cbn; auto.
    eapply perm_trans; [apply insert_perm|]. apply perm_skip. exact IH.
  Qed.

  Lemma insert_sorted : forall x l, P x -> Forall P l -> sorted l -> sorted (insert x l).
  Proof.
    induction l as [|y t IH]; intros Px HP Hs; cbn.
    - constructor; constructor.
    - inversion HP as [|? ? Py HPt]; subst. inversion Hs as [|? ? Hst Hft]; subst.
      destruct (leb x y) eqn:Hxy.
      + constructor; auto. constructor; auto.
        rewrite Forall_forall in *. intros z Hz. apply (leb_trans x y z); auto. apply Hft; auto.
      + constructor; auto.
        assert (Hyx : le y x) by (destruct (leb_total y x); auto; congruence).
        eapply Permutation_Forall; [apply Permutation_sym, insert_perm|]. constructor; auto.
  Qed.

  Lemma isort_sorted : forall l, Forall P l -> sorted (isort l).
  Proof.
    induction l as [|x t IH]; intro HP; cbn; [constructor|].
    inversion HP as [|? ? Px HPt]; subst. apply insert_sorted; auto.
    eapply Permutation_Forall; [apply Permutation_sym, isort_perm|]; auto.
  Qed.

  (** the stable sort does not reorder rows with equivalent keys *)
  Lemma filter_insert : forall k x l, P k -> P x -> Forall P l -> sorted l ->
    filter (eqvb k) (insert x l) = if eqvb k x then x :: filter (eqvb k) l else filter (eqvb k) l.
  Proof.
    induction l as [|y t IH]; intros Pk Px HP Hs; cbn.
    - destruct (eqvb k x); reflexivity.
    - inversion HP as [|? ? Py HPt]; subst. inversion Hs as [|? ? Hst Hft]; subst.
      destruct (leb x y) eqn:Hxy; cbn.
      + destruct (eqvb k x); reflexivity.
      + rewrite IH by auto.
        assert (Hyx : le y x) by (destruct (leb_total y x); auto; congruence).
        destruct (eqvb k x) eqn:Ekx; [|reflexivity].
        (* y < x ~ k, hence y is not equivalent to k *)
        assert (Eky : eqvb k y = false).
        { unfold Merge.eqvb in *. apply andb_true_iff in Ekx. destruct Ekx as [Hkx Hxk].
          destruct (leb k y) eqn:Hky; [|reflexivity]. cbn.
          destruct (leb y k) eqn:Hyk; [|reflexivity].
          assert (le x y) by (apply (leb_trans x k y); auto). unfold le in *. congruence. }
        rewrite Eky. reflexivity.
  Qed.

  Lemma filter_isort : forall k l, P k -> Forall P l -> filter (eqvb k) (isort l) = filter (eqvb k) l.
  Proof.
    induction l as [|x t IH]; intros Pk HP; cbn; auto. inversion HP as [|? ? Px HPt]; subst.
    rewrite filter_insert; auto.
    - rewrite IH by auto. reflexivity.
    - eapply Permutation_Forall; [apply Permutation_sym, isort_perm|]; auto.
    - apply isort_sorted; auto.
  Qed.

  (** two sorted lists with the same rows per key class, in the same order, are equal *)
  Lemma eqvb_refl : forall a, P a -> eqvb a a = true.
  Proof. intros a Pa. unfold Merge.eqvb. rewrite (leb_refl cmp P leb_total a Pa). reflexivity. Qed.

  Lemma sorted_unique : forall l1 l2, Forall P l1 -> Forall P l2 -> sorted l1 -> sorted l2 ->
    (forall k, P k -> filter (eqvb k) l1 = filter (eqvb k) l2) -> l1 = l2.
  Proof.
    induction l1 as [|a l1 IH]; intros l2 HP1 HP2 Hs1 Hs2 Hf.
    - destruct l2 as [|b l2]; auto. inversion HP2 as [|? ? Pb HPt]; subst.
      specialize (Hf b Pb). cbn in Hf. rewrite eqvb_refl in Hf by auto. discriminate.
    - inversion HP1 as [|? ? Pa HP1t]; subst. inversion Hs1 as [|? ? Hs1t Hf1]; subst.
      destruct l2 as [|b l2].
      { specialize (Hf a Pa). cbn in Hf. rewrite eqvb_refl in Hf by auto. discriminate. }
      inversion HP2 as [|? ? Pb HP2t]; subst. inversion Hs2 as [|? ? Hs2t Hf2]; subst.
      pose proof (eqvb_refl a Pa) as Haa. pose proof (eqvb_refl b Pb) as Hbb.
      (* a occurs in b :: l2 and b occurs in a :: l1 *)
      assert (Hina : In a (b :: l2)).
      { pose proof (Hf a Pa) as E. cbn [filter] in E. rewrite Haa in E.
        assert (I : In a (filter (eqvb a) (b :: l2))) by (cbn [filter]; rewrite <- E; left; reflexivity).
        apply filter_In in I. tauto. }
      assert (Hinb : In b (a :: l1)).
      { pose proof (Hf b Pb) as E. cbn [filter] in E. rewrite Hbb in E.
        assert (I : In b (filter (eqvb b) (a :: l1))) by (cbn [filter]; rewrite E; left; reflexivity).
        apply filter_In in I. tauto. }
      assert (Hab : le a b).
      { destruct Hinb as [->|Hin]; [apply (leb_refl cmp P leb_total); auto|]. rewrite Forall_forall in Hf1. auto. }
      assert (Hba : le b a).
      { destruct Hina as [->|Hin]; [apply (leb_refl cmp P leb_total); auto|]. rewrite Forall_forall in Hf2. auto. }
      assert (Eab : eqvb a b = true) by (unfold Merge.eqvb, le in *; rewrite Hab, Hba; reflexivity).
      assert (a = b).
      { pose proof (Hf a Pa) as E. cbn [filter] in E. rewrite Haa, Eab in E. congruence. }
      subst b. f_equal. apply IH; auto.
      intros k Pk. specialize (Hf k Pk). cbn [filter] in Hf. destruct (eqvb k a); congruence.
  Qed.

  (** no two different runs contain rows with equivalent keys *)
  Definition no_cross_ties (runs : list (list A)) : Prop :=
    forall i j x y, i <> j -> In x (nth i runs []) -> In y (nth j runs []) -> eqvb x y = false.

  Lemma filter_concat : forall (f : A -> bool) (ls : list (list A)),
    filter f (concat ls) = concat (map (filter f) ls).
  Proof. induction ls as [|l ls IH]; cbn; auto. rewrite filter_app, IH. reflexivity. Qed.

  Lemma eqvb_trans_l : forall k x y, P k -> P x -> P y -> eqvb k x = true -> eqvb k y = true -> eqvb x y = true.
  Proof.
    intros k x y Pk Px Py H1 H2. unfold Merge.eqvb in *.
    apply andb_true_iff in H1. apply andb_true_iff in H2. destruct H1, H2.
    apply andb_true_iff. split; [apply (leb_trans x k y)|apply (leb_trans y k x)]; auto.
  Qed.

  (** rows of key class [k] all come from one run [i] (if any) *)
  Lemma class_filter_concat : forall runs k, Forall P (concat runs) -> P k -> no_cross_ties runs ->
    forall i x, In x (nth i runs []) -> eqvb k x = true ->
    filter (eqvb k) (concat runs) = filter (eqvb k) (nth i runs []).
  Proof.
    intros runs k HP Pk Hn i x Hx Hkx.
    rewrite <- (map_nth_seq runs) at 1.
    rewrite filter_concat, map_map.
    assert (Hi : i < length runs).
    { destruct (Nat.lt_ge_cases i (length runs)); auto. rewrite nth_overflow in Hx by assumption. destruct Hx. }
    assert (E : forall n m, m <= i < m + n ->
              concat (map (fun j => filter (eqvb k) (nth j runs [])) (seq m n)) = filter (eqvb k) (nth i runs [])).
    { induction n as [|n IHn]; intros m Hm; [lia|]. cbn [seq map concat].
      assert (Z : forall j, j <> i -> filter (eqvb k) (nth j runs []) = []).
      { intros j Hj. destruct (filter (eqvb k) (nth j runs [])) as [|y l] eqn:F; auto.
        assert (Iy : In y (filter (eqvb k) (nth j runs []))) by (rewrite F; left; reflexivity).
        apply filter_In in Iy. destruct Iy as [Iy Eky].
        rewrite Forall_forall in HP.
        assert (eqvb x y = true).
        { apply (eqvb_trans_l k); auto; apply HP; eapply nth_in_concat; eauto. }
        rewrite (Hn i j x y) in H; auto. discriminate. }
      destruct (Nat.eq_dec m i) as [->|Hmi].
      - clear IHn. assert (R : forall n' m', i < m' -> concat (map (fun j => filter (eqvb k) (nth j runs [])) (seq m' n')) = []).
        { induction n' as [|n' IH']; intros m' Hm'; cbn; auto. rewrite Z by lia. rewrite IH' by lia. reflexivity. }
        rewrite R by lia. rewrite app_nil_r. reflexivity.
      - rewrite Z by auto. cbn. apply IHn. lia. }
    apply E. lia.
  Qed.

  Lemma class_filter_none : forall (l : list A) k, (forall x, In x l -> eqvb k x = false) -> filter (eqvb k) l = [].
  Proof.
    induction l as [|a l IH]; intros k H; cbn; auto. rewrite (H a) by (left; reflexivity). apply IH.
    intros x Hx. apply H. right. exact Hx.
  Qed.

  Lemma class_filter_tag : forall (out : list entry) k i,
    (forall e, In e out -> eqvb k (fst e) = true -> snd e = i) ->
    filter (eqvb k) (map fst out) = filter (eqvb k) (map fst (filter (tagb i) out)).
  Proof.
    induction out as [|e out IH]; intros k i G; [reflexivity|].
    assert (G' : forall e0, In e0 out -> eqvb k (fst e0) = true -> snd e0 = i) by (intros; apply G; auto; right; auto).
    specialize (IH k i G'). cbn [map filter].
    destruct (eqvb k (fst e)) eqn:Ee.
    - assert (T : tagb i e = true) by (unfold tagb; rewrite (G e (or_introl eq_refl) Ee); apply Nat.eqb_refl).
      rewrite T. cbn [map filter]. rewrite Ee. f_equal. exact IH.
    - destruct (tagb i e); cbn [map filter]; [rewrite Ee|]; exact IH.
  Qed.

  Lemma post_stable : forall runs out, Forall P (concat runs) -> post runs out -> no_cross_ties runs ->
    map fst out = isort (concat runs).
  Proof.
    intros runs out HP Hpost Hn.
    pose proof (post_perm runs out Hpost) as Hperm.
    destruct Hpost as [Hs Hrun Htag].
    assert (HPo : Forall P (map fst out)) by (eapply Permutation_Forall; [apply Permutation_sym; exact Hperm|exact HP]).
    apply sorted_unique; auto.
    - eapply Permutation_Forall; [apply Permutation_sym, isort_perm|exact HP].
    - apply isort_sorted; exact HP.
    - intros k Pk. rewrite filter_isort by auto.
      (* is there a row of class k at all? *)
      destruct (filter (eqvb k) (concat runs)) as [|x0 l0] eqn:F.
      + apply class_filter_none. intros x Hx.
        destruct (eqvb k x) eqn:E; auto.
        assert (I : In x (filter (eqvb k) (concat runs))).
        { apply filter_In. split; auto. eapply Permutation_in; eauto. }
        rewrite F in I. destruct I.
      + rewrite <- F.
        assert (I0 : In x0 (filter (eqvb k) (concat runs))) by (rewrite F; left; reflexivity).
        apply filter_In in I0. destruct I0 as [I0 E0].
        apply in_concat in I0. destruct I0 as [r [Hr Hx0]].
        apply In_nth with (d := []) in Hr. destruct Hr as [i [Hi <-]].
        rewrite (class_filter_concat runs k HP Pk Hn i x0 Hx0 E0).
        rewrite <- (Hrun i). unfold of_run.
        (* every class-k entry of out carries tag i *)
        clear F l0 Hperm Hs HPo.
        assert (G : forall e, In e out -> eqvb k (fst e) = true -> snd e = i).
        { intros [y j] He Ey. cbn in *. destruct (Nat.eq_dec j i) as [|Hji]; auto. exfalso.
          assert (Iy : In y (nth j runs [])).
          { rewrite <- (Hrun j). unfold of_run. apply in_map_iff. exists (y, j). split; auto.
            apply filter_In. split; auto. unfold tagb. cbn. apply Nat.eqb_refl. }
          rewrite Forall_forall in HP.
          assert (eqvb x0 y = true).
          { apply (eqvb_trans_l k); auto; apply HP; eapply nth_in_concat; eauto. }
          rewrite (Hn i j x0 y) in H; auto. discriminate. }
        apply class_filter_tag. exact G.
  Qed.

  (** *** the statements about [kmerge] / [merge_sorted_runs_pre] / [merge_all_pre] *)
  Theorem kmerge_sorted_perm : forall runs, Forall P (concat runs) -> Forall sorted runs ->
    sorted (kmerge cmp runs) /\ Permutation (kmerge cmp runs) (concat runs).
  Proof.
    intros runs HP Hs. pose proof (kmerge_tagged_post runs HP Hs) as Hp. unfold kmerge. split.
    - apply Hp.
    - apply post_perm. exact Hp.
  Qed.

  Theorem kmerge_run_order : forall runs i, Forall P (concat runs) -> Forall sorted runs ->
    of_run i (kmerge_tagged cmp runs) = nth i runs [].
  Proof. intros runs i HP Hs. apply (kmerge_tagged_post runs HP Hs). Qed.

  Theorem kmerge_stable : forall runs, Forall P (concat runs) -> Forall sorted runs -> no_cross_ties runs ->
    kmerge cmp runs = isort (concat runs).
  Proof. intros runs HP Hs Hn. unfold kmerge. apply post_stable; auto. apply kmerge_tagged_post; auto. Qed.

  Lemma sortedb_strong : forall l, Forall P l -> sortedb cmp l = true -> sorted l.
  Proof.
    induction l as [|x t IH]; intros HP Hs; [constructor|].
    inversion HP as [|? ? Px HPt]; subst. cbn [sortedb] in Hs.
    destruct t as [|y t'].
    - constructor; constructor.
    - apply andb_true_iff in Hs. destruct Hs as [Hxy Hs].
      specialize (IH HPt Hs). constructor; auto.
      inversion IH as [|? ? Hst Hft]; subst. inversion HPt as [|? ? Py HPt']; subst.
      constructor; auto.
      rewrite Forall_forall in *. intros z Hz. apply (leb_trans x y z); auto. apply Hft; auto.
  Qed.

  Lemma strong_sortedb : forall l, sorted l -> sortedb cmp l = true.
  Proof.
    induction l as [|x t IH]; intro Hs; [reflexivity|]. inversion Hs as [|? ? Hst Hft]; subst.
    cbn [sortedb]. destruct t as [|y t']; auto. inversion Hft; subst. apply andb_true_iff. split; auto.
  Qed.

  Lemma isort_sorted_id : forall l, sorted l -> isort l = l.
  Proof.
    induction l as [|x t IH]; intro Hs; [reflexivity|]. inversion Hs as [|? ? Hst Hft]; subst.
    cbn [Merge.isort]. rewrite IH by auto. destruct t as [|y t']; [reflexivity|].
    inversion Hft as [|? ? Hxy _]; subst. cbn [Merge.insert]. unfold le in Hxy. rewrite Hxy. reflexivity.
  Qed.

  Lemma runs_sorted : forall runs, Forall P (concat runs) -> Forall (fun r => sortedb cmp r = true) runs ->
    Forall sorted runs.
  Proof.
    induction runs as [|r rs IH]; intros HP Hb; constructor.
    - cbn [concat] in HP. apply Forall_app in HP. inversion Hb; subst. apply sortedb_strong; tauto.
    - cbn [concat] in HP. apply Forall_app in HP. inversion Hb; subst. apply IH; tauto.
  Qed.

  (** merge_sorted_runs_pre, all three branches *)
  Theorem merge_sorted_runs_spec : forall runs, Forall P (concat runs) -> Forall (fun r => sortedb cmp r = true) runs ->
    sorted (merge_sorted_runs_pre cmp runs) /\ Permutation (merge_sorted_runs_pre cmp runs) (concat runs).
  Proof.
    intros runs HP Hb.
    pose proof (runs_sorted runs HP Hb) as Hs.
    destruct runs as [|r [|r2 rs]].
    - cbn. split; constructor.
    - cbn. rewrite app_nil_r. split; auto. inversion Hs; auto.
    - apply kmerge_sorted_perm; auto.
  Qed.

  Theorem merge_sorted_runs_stable : forall runs, Forall P (concat runs) -> Forall (fun r => sortedb cmp r = true) runs ->
    no_cross_ties runs -> merge_sorted_runs_pre cmp runs = isort (concat runs).
  Proof.
    intros runs HP Hb Hn.
    pose proof (runs_sorted runs HP Hb) as Hs.
    destruct runs as [|r [|r2 rs]].
    - reflexivity.
    - cbn. rewrite app_nil_r. symmetry. apply isort_sorted_id. inversion Hs; auto.
    - apply kmerge_stable; auto.
  Qed.

  (** the boolean class predicate decides [no_cross_ties] *)
  Lemma k_cross_ties_false : forall runs, k_cross_ties cmp runs = false -> no_cross_ties runs.
  Proof.
    assert (SYM : forall x y, eqvb x y = eqvb y x) by (intros; unfold Merge.eqvb; apply andb_comm).
    assert (CT : forall r1 r2 x y, cross_tie_b cmp r1 r2 = false -> In x r1 -> In y r2 -> eqvb x y = false).
    { intros r1 r2 x y H Hx Hy. unfold cross_tie_b in H.
      destruct (eqvb x y) eqn:E; auto.
      assert (existsb (fun x => existsb (fun y => eqvb x y) r2) r1 = true).
      { apply existsb_exists. exists x. split; auto. apply existsb_exists. exists y. auto. }
      congruence. }
    induction runs as [|r rs IH]; intros H i j x y Hij Hx Hy.
    - destruct i; destruct Hx.
    - cbn [k_cross_ties] in H. apply orb_false_iff in H. destruct H as [H1 H2].
      assert (H1' : forall r', In r' rs -> cross_tie_b cmp r r' = false).
      { intros r' Hr'. destruct (cross_tie_b cmp r r') eqn:E; auto.
        assert (existsb (cross_tie_b cmp r) rs = true) by (apply existsb_exists; eauto). congruence. }
      destruct i as [|i], j as [|j]; cbn [nth] in *.
      + congruence.
      + destruct (Nat.lt_ge_cases j (length rs)) as [Hj|Hj].
        * apply (CT r (nth j rs [])); auto. apply H1'. apply nth_In. exact Hj.
        * rewrite nth_overflow in Hy by exact Hj. destruct Hy.
      + destruct (Nat.lt_ge_cases i (length rs)) as [Hi|Hi].
        * rewrite SYM. apply (CT r (nth i rs [])); auto. apply H1'. apply nth_In. exact Hi.
        * rewrite nth_overflow in Hx by exact Hi. destruct Hx.
      + apply (IH H2 i j); auto.
  Qed.
End MergeProofs.
