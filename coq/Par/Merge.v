(** C17 — model of crates/grafeo-core/src/execution/parallel/merge.rs (k-way merge part) and of the
    k-way merge of spill/external_sort.rs.  No proofs in this file.

    [merge_sorted_runs] pushes the head of every non-empty run into a
    [std::collections::BinaryHeap<MergeEntry>], then repeatedly pops the top and pushes the next
    row of the run the popped entry came from.  Since 2824ade the [Ord] of the heap entries is the
    *reversed* row comparison followed by the *reversed* comparison of the run indices (rows with
    equal keys come from the earlier run first); before, it was the row comparison alone, and which
    of several equal-key heads was popped first was decided by the array layout of the heap (the
    [_pre] definitions, finding C17-K1).  The generic [kmerge] below takes the comparison of the
    heap entries as a parameter; the heap algorithm of the standard library
    (library/alloc/src/collections/binary_heap/mod.rs: push = sift_up(0, old_len),
    pop = swap-remove the root, sift_down_to_bottom(0), sift_up) is transcribed literally. *)
From Coq Require Import List Arith Bool ZArith.
Import ListNotations.

Section KMerge.
  Context {A : Type}.
  (** [cmp a b]: the row comparison ([MergeEntry::compare_to], [compare_rows]); [Lt] = a sorts first *)
  Variable cmp : A -> A -> comparison.

  Definition leb (a b : A) : bool := match cmp a b with Gt => false | _ => true end.
  Definition eqvb (a b : A) : bool := leb a b && leb b a.

  (** heap entry = (row, run_index) *)
  Definition entry := (A * nat)%type.

  (** Rust [a <= b] on entries: [a.cmp(b) != Greater] with [a.cmp(b) = b.compare_to(a)] *)
  Definition ent_le (a b : entry) : bool := leb (fst b) (fst a).

  Definition get (h : list entry) (i : nat) : option entry := nth_error h i.
  Fixpoint set (h : list entry) (i : nat) (x : entry) : list entry :=
    match h, i with
    | [], _ => []
    | _ :: t, 0 => x :: t
    | y :: t, S j => y :: set t j x
    end.
  Definition swap (h : list entry) (i j : nat) : list entry :=
    match get h i, get h j with
    | Some a, Some b => set (set h i b) j a
    | _, _ => h
    end.
  (** [hole.element() <= hole.get(j)] / [hole.get(i) <= hole.get(j)] *)
  Definition le_at (h : list entry) (i j : nat) : bool :=
    match get h i, get h j with
    | Some a, Some b => ent_le a b
    | _, _ => true
    end.

  (** sift_up(start = 0, pos): the element at [pos] moves up while it is not [<=] its parent *)
  Fixpoint sift_up (fuel : nat) (h : list entry) (pos : nat) : list entry :=
    match fuel with
    | 0 => h
    | S f =>
        if pos =? 0 then h
        else let parent := (pos - 1) / 2 in
             if le_at h pos parent then h
             else sift_up f (swap h pos parent) parent
    end.

  (** sift_down_to_bottom(pos) without its final sift_up: the element at [pos] moves down to a leaf,
      always below the greater child ([child += (get(child) <= get(child+1))]); returns the leaf position.
      [length h - 2] is [end.saturating_sub(2)] (nat subtraction saturates). *)
  Fixpoint sift_down (fuel : nat) (h : list entry) (pos : nat) : list entry * nat :=
    match fuel with
    | 0 => (h, pos)
    | S f =>
        let child := 2 * pos + 1 in
        if child <=? length h - 2 then
          let c := if le_at h child (child + 1) then child + 1 else child in
          sift_down f (swap h pos c) c
        else if child =? length h - 1 then (swap h pos child, child)
        else (h, pos)
    end.

  (** BinaryHeap::push *)
  Definition heap_push (h : list entry) (x : entry) : list entry :=
    sift_up (S (length h)) (h ++ [x]) (length h).

  (** BinaryHeap::pop: [data.pop()], and if the heap is still non-empty swap the popped item with
      the root, sift_down_to_bottom(0) (which ends with sift_up(0, pos)) *)
  Definition heap_pop (h : list entry) : option (entry * list entry) :=
    match h with
    | [] => None
    | top :: t =>
        match t with
        | [] => Some (top, [])
        | _ :: _ =>
            let h1 := last t top :: removelast t in
            let '(h2, pos) := sift_down (length h1) h1 0 in
            Some (top, sift_up (S (length h1)) h2 pos)
        end
    end.

  Fixpoint set_tail (tails : list (list A)) (i : nat) (tl : list A) : list (list A) :=
    match tails, i with
    | [], _ => []
    | _ :: t, 0 => tl :: t
    | y :: t, S j => y :: set_tail t j tl
    end.

  (** the merge loop; [tails] = the not yet consumed part of every run behind its heap entry
      ([runs[i][positions[i]..]]); the output is accumulated in reverse, tagged with the run index *)
  Fixpoint kmerge_loop (fuel : nat) (heap : list entry) (tails : list (list A)) (acc : list entry)
    : list entry :=
    match fuel with
    | 0 => rev acc
    | S f =>
        match heap_pop heap with
        | None => rev acc
        | Some (e, heap') =>
            match nth (snd e) tails [] with
            | [] => kmerge_loop f heap' tails (e :: acc)
            | x :: tl => kmerge_loop f (heap_push heap' (x, snd e)) (set_tail tails (snd e) tl) (e :: acc)
            end
        end
    end.

  (** "Initialize heap with first row from each non-empty run" *)
  Fixpoint init_heap (h : list entry) (i : nat) (runs : list (list A)) : list entry :=
    match runs with
    | [] => h
    | [] :: rs => init_heap h (S i) rs
    | (x :: _) :: rs => init_heap (heap_push h (x, i)) (S i) rs
    end.

  Definition kmerge_tagged (runs : list (list A)) : list entry :=
    kmerge_loop (S (length (concat runs))) (init_heap [] 0 runs) (map (@tl A) runs) [].

  (** the general path of merge_sorted_runs and ExternalSort::k_way_merge *)
  Definition kmerge (runs : list (list A)) : list A := map fst (kmerge_tagged runs).

  (** merge_sorted_runs before 2824ade (no run-index tie-break): 0 runs => empty, 1 run => that run
      unchanged, otherwise the heap merge on the row comparison alone *)
  Definition merge_sorted_runs_pre (runs : list (list A)) : list A :=
    match runs with
    | [] => []
    | [r] => r
    | _ => kmerge runs
    end.

  (** the stable sort ([slice::sort_by] for a total preorder): insertion sort *)
  Fixpoint insert (x : A) (l : list A) : list A :=
    match l with
    | [] => [x]
    | y :: t => if leb x y then x :: y :: t else y :: insert x t
    end.
  Fixpoint isort (l : list A) : list A :=
    match l with
    | [] => []
    | x :: t => insert x (isort t)
    end.

  Fixpoint sortedb (l : list A) : bool :=
    match l with
    | [] => true
    | x :: t => match t with [] => true | y :: _ => leb x y && sortedb t end
    end.

  (** ExternalSort::merge_all before 2824ade *)
  Definition merge_all_pre (runs : list (list A)) (mem : list A) : list A :=
    match runs, mem with
    | [], [] => []
    | [], _ => isort mem
    | [r], [] => r
    | _, _ => kmerge (runs ++ [isort mem])
    end.

  (** finding class C17-K1: two rows of different runs have equal sort keys *)
  Definition cross_tie_b (r1 r2 : list A) : bool := existsb (fun x => existsb (fun y => eqvb x y) r2) r1.
  Fixpoint k_cross_ties (runs : list (list A)) : bool :=
    match runs with
    | [] => false
    | r :: rs => existsb (cross_tie_b r) rs || k_cross_ties rs
    end.
End KMerge.

(** ** the merges of the current code: heap entries ordered by (row comparison, run index) *)
(** [MergeEntry::cmp] / [HeapEntry::cmp] = reversed [cmp_tag] on (row, run index) *)
Definition cmp_tag {A} (cmp : A -> A -> comparison) (a b : A * nat) : comparison :=
  match cmp (fst a) (fst b) with
  | Eq => Nat.compare (snd a) (snd b)
  | c => c
  end.
(** every row together with the index of its run *)
Fixpoint tag_runs {A} (i : nat) (runs : list (list A)) : list (list (A * nat)) :=
  match runs with
  | [] => []
  | r :: rs => map (fun x => (x, i)) r :: tag_runs (S i) rs
  end.
Definition kmerge_st {A} (cmp : A -> A -> comparison) (runs : list (list A)) : list A :=
  map fst (kmerge (cmp_tag cmp) (tag_runs 0 runs)).

(** merge_sorted_runs: 0 runs => empty, 1 run => that run unchanged, otherwise the heap merge *)
Definition merge_sorted_runs {A} (cmp : A -> A -> comparison) (runs : list (list A)) : list A :=
  match runs with
  | [] => []
  | [r] => r
  | _ => kmerge_st cmp runs
  end.

(** ExternalSort::merge_all(runs on disk (non-empty, sorted), in-memory buffer (unsorted)); the
    in-memory buffer is the last run *)
Definition merge_all {A} (cmp : A -> A -> comparison) (runs : list (list A)) (mem : list A) : list A :=
  match runs, mem with
  | [], [] => []
  | [], _ => isort cmp mem
  | [r], [] => r
  | _, _ => kmerge_st cmp (runs ++ [isort cmp mem])
  end.

(** ** chunks (row-major: a chunk = list of rows) *)
Section Chunks.
  Context {A : Type}.

  Fixpoint chunks_fuel (fuel n : nat) (l : list A) : list (list A) :=
    match fuel with
    | 0 => []
    | S f => match l with
             | [] => []
             | _ => firstn n l :: chunks_fuel f n (skipn n l)
             end
    end.
  (** [rows.chunks(n)] for n > 0 *)
  Definition chunks_of (n : nat) (l : list A) : list (list A) := chunks_fuel (length l) n l.

  (** rows_to_chunks: [None] = panic (division by zero / chunks(0)) when chunk_size = 0 on non-empty input *)
  Definition rows_to_chunks (rows : list A) (chunk_size : nat) : option (list (list A)) :=
    match rows with
    | [] => Some []
    | _ => if chunk_size =? 0 then None else Some (chunks_of chunk_size rows)
    end.

  Definition chunks_to_rows (chunks : list (list A)) : list A := concat chunks.

  Definition concat_parallel_results (results : list (list (list A))) : list (list A) := concat results.

  (** merge_distinct_results: rows arrive with their 64-bit [hash_row] value (supplied by the
      harness: [hash_row] is SipHash-1-3 with zero keys over the row, not modelled); a row is kept iff
      its hash value has not been seen before ([seen.insert(hash)]); re-chunked at 2048 *)
  Fixpoint dedup_h (seen : list Z) (rows : list (Z * A)) : list A :=
    match rows with
    | [] => []
    | (h, r) :: t => if existsb (Z.eqb h) seen then dedup_h seen t else r :: dedup_h (h :: seen) t
    end.
  Definition merge_distinct_results (results : list (list (list (Z * A)))) : option (list (list A)) :=
    rows_to_chunks (dedup_h [] (concat (concat results))) 2048.
End Chunks.

(** merge_sorted_chunks = chunks_to_rows per run, merge_sorted_runs, rows_to_chunks *)
Definition merge_sorted_chunks {A} (cmp : A -> A -> comparison) (runs : list (list (list A))) (chunk_size : nat)
  : option (list (list A)) :=
  rows_to_chunks (merge_sorted_runs cmp (map chunks_to_rows runs)) chunk_size.
