(** C17 — operator chains of ANY length run by Pipeline::execute (push_through / finalize_all):
    when no operator before the last one is a LIMIT, the concatenated output over any chunking is
    the list specification of the chain (operator after operator on the whole input).  Inner sorts
    (pipeline breakers whose output flows on in finalize_all), inner filters, projections and
    DISTINCTs, and any last operator — including a LIMIT that stops the run early. *)
From Coq Require Import List Arith Bool Lia.
From GV Require Import Par.Merge Par.Push Par.ProofsPush.
Import ListNotations.
Local Open Scope nat_scope.

Section ChainProofs.
  Context {R K : Type}.
  Variable keq : K -> K -> bool.
  Notation opk := (@opk R K).
  Notation opst := (@opst R K).
  Notation push := (push keq).
  Notation drive := (drive keq).
  Notation spec := (spec keq).
  Notation outs1 := (outs1 keq).
  Notation drive_chain := (drive_chain keq).
  Notation push_through := (push_through keq).
  Notation finalize_all := (finalize_all keq).
  Notation run_chain := (run_chain keq).
  Notation chain_spec := (chain_spec keq).

  Notation is_limit := (@is_limit R K).
  Notation no_inner_limit := (@no_inner_limit R K).

  Lemma not_limit_cases : forall k, is_limit k = false -> streaming k = true \/ exists cmp, k = OSort cmp.
  Proof. intros k H. destruct k; try discriminate; eauto. Qed.

  (** *** a single operator as a chain *)
  Lemma drive_chain_single : forall (k : opk) cs s,
    drive_chain [k] [s] cs = ([fst (drive k s cs)], snd (drive k s cs)).
  Proof.
    intros k. induction cs as [|c r IH]; intro s; [reflexivity|].
    cbn [Push.drive_chain Push.push_through Push.drive hd_st].
    destruct (push k s c) as [[s' out] cont]. destruct cont.
    - rewrite IH. destruct (drive k s' r) as [s'' o2]. reflexivity.
    - reflexivity.
  Qed.

  Lemma run_chain_single : forall (k : opk) cs, run_chain [k] cs = run1 keq k cs.
  Proof.
    intros k cs. unfold Push.run_chain, run1. cbn [init_chain map]. rewrite drive_chain_single.
    destruct (drive k st0 cs) as [s o]. reflexivity.
  Qed.

  Lemma run_chain_nil : forall cs : list (list R), concat (run_chain [] cs) = concat cs.
  Proof.
    intro cs. unfold Push.run_chain. cbn [init_chain map].
    assert (G : forall ss, drive_chain [] ss cs = ([], concat (map (@keep R) cs)) \/ cs = []).
    { induction cs as [|c r IH]; intro ss; [right; reflexivity|]. left.
      cbn [Push.drive_chain Push.push_through map concat].
      destruct (IH []) as [E|E]; [rewrite E; reflexivity|subst r; cbn; rewrite app_nil_r; reflexivity]. }
    destruct (G []) as [E|E].
    - rewrite E. cbn [Push.finalize_all]. rewrite app_nil_r.
      clear. induction cs as [|c r IH]; [reflexivity|]. cbn [map concat]. rewrite concat_app, concat_keep, IH. reflexivity.
    - subst cs. reflexivity.
  Qed.

  (** *** a streaming operator in front of a non-empty rest *)
  Lemma drive_chain_stream : forall (k1 k2 : opk) (ks : list opk), streaming k1 = true ->
    forall cs s1 srest, exists s1',
      drive_chain (k1 :: k2 :: ks) (s1 :: srest) cs =
      (s1' :: fst (drive_chain (k2 :: ks) srest (outs1 k1 s1 cs)), snd (drive_chain (k2 :: ks) srest (outs1 k1 s1 cs))).
  Proof.
    intros k1 k2 ks H. induction cs as [|c r IH]; intros s1 srest.
    - exists s1. reflexivity.
    - cbn [Push.drive_chain ProofsPush.outs1].
      change (Push.push_through keq (k1 :: k2 :: ks) (s1 :: srest) c) with
        (let '(s', out, cont) := push k1 (hd_st (s1 :: srest)) c in
         if negb cont || (match out with [] => true | _ => false end) then (s' :: tl (s1 :: srest), [], cont)
         else let '(ss', o, c') := push_through (k2 :: ks) (tl (s1 :: srest)) (concat out) in (s' :: ss', o, c')).
      cbn [hd_st tl].
      destruct (streaming_push keq k1 s1 c H) as [s1' [x E]]. rewrite E.
      destruct x as [|x0 xt]; cbn [keep negb orb app].
      + destruct (IH s1' srest) as [s1'' E2]. rewrite E2. eexists. reflexivity.
      + cbn [concat]. rewrite app_nil_r. cbn [Push.drive_chain].
        destruct (push_through (k2 :: ks) srest (x0 :: xt)) as [[ss' o] c'] eqn:E2.
        destruct c'.
        * destruct (IH s1' ss') as [s1'' E3]. rewrite E3.
          destruct (drive_chain (k2 :: ks) ss' (outs1 k1 s1' r)) as [ss'' o2]. cbn [fst snd]. eexists. reflexivity.
        * cbn [fst snd]. eexists. reflexivity.
  Qed.

  Lemma outs1_stream_concat : forall (k1 : opk), streaming k1 = true -> forall cs,
    concat (outs1 k1 st0 cs) = spec k1 (concat cs).
  Proof.
    intros k1 H cs. rewrite <- (drive_stream keq k1 cs st0 H).
    pose proof (push_equals_pull_l keq k1 cs) as P. unfold run1 in P.
    destruct (drive k1 st0 cs) as [s o]. cbn [snd]. rewrite (streaming_finish k1 s H), app_nil_r in P. exact P.
  Qed.

  Lemma run_chain_stream : forall (k1 k2 : opk) (ks : list opk), streaming k1 = true -> forall cs,
    run_chain (k1 :: k2 :: ks) cs = run_chain (k2 :: ks) (outs1 k1 st0 cs).
  Proof.
    intros k1 k2 ks H cs. unfold Push.run_chain. cbn [init_chain map].
    destruct (drive_chain_stream k1 k2 ks H cs st0 (st0 :: map (fun _ => st0) ks)) as [s1' E]. rewrite E.
    destruct (drive_chain (k2 :: ks) (st0 :: map (fun _ => st0) ks) (outs1 k1 st0 cs)) as [ss o]. cbn [fst snd].
    cbn [Push.finalize_all hd_st tl]. rewrite (streaming_finish k1 s1' H). cbn [push_all app]. reflexivity.
  Qed.

  (** *** a sort in front of a non-empty rest: nothing flows before finalize_all *)
  Lemma drive_chain_sort : forall cmp (k2 : opk) (ks : list opk) cs s1 srest,
    drive_chain (OSort cmp :: k2 :: ks) (s1 :: srest) cs =
    ({| s_passed := s_passed s1; s_seen := s_seen s1; s_buf := s_buf s1 ++ concat cs |} :: srest, []).
  Proof.
    intros cmp k2 ks. induction cs as [|c r IH]; intros s1 srest.
    - cbn. rewrite app_nil_r. destruct s1; reflexivity.
    - cbn [Push.drive_chain].
      change (Push.push_through keq (OSort cmp :: k2 :: ks) (s1 :: srest) c) with
        (let '(s', out, cont) := push (OSort cmp) (hd_st (s1 :: srest)) c in
         if negb cont || (match out with [] => true | _ => false end) then (s' :: tl (s1 :: srest), [], cont)
         else let '(ss', o, c') := push_through (k2 :: ks) (tl (s1 :: srest)) (concat out) in (s' :: ss', o, c')).
      cbn [Push.push hd_st tl negb orb]. rewrite IH. cbn [s_passed s_seen s_buf concat app].
      rewrite <- app_assoc. reflexivity.
  Qed.

  (** pushing at most one chunk: stopping at the first "stop" and ignoring it are the same *)
  Lemma push_all_keep : forall (ks : list opk) ss (c : list R),
    push_all keq ks ss (keep c) = drive_chain ks ss (keep c).
  Proof.
    intros ks ss [|x t]; [reflexivity|]. cbn [keep push_all Push.drive_chain].
    destruct (push_through ks ss (x :: t)) as [[ss' o] cont]. destruct cont; rewrite ?app_nil_r; reflexivity.
  Qed.

  Lemma run_chain_sort : forall cmp (k2 : opk) (ks : list opk) cs,
    run_chain (OSort cmp :: k2 :: ks) cs = run_chain (k2 :: ks) (keep (isort cmp (concat cs))).
  Proof.
    intros cmp k2 ks cs. unfold Push.run_chain. cbn [init_chain map]. rewrite drive_chain_sort.
    cbn [app Push.finalize_all hd_st tl Push.finish s_buf st0].
    rewrite push_all_keep.
    destruct (drive_chain (k2 :: ks) (st0 :: map (fun _ => st0) ks) (keep (isort cmp (concat cs)))) as [ss o].
    reflexivity.
  Qed.

  (** *** the theorem: no LIMIT before the last operator *)
  Theorem chain_no_inner_limit_l : forall (ks : list opk), no_inner_limit ks = true ->
    forall cs, concat (run_chain ks cs) = chain_spec ks (concat cs).
  Proof.
    induction ks as [|k1 ks IH]; intros H cs.
    - apply run_chain_nil.
    - destruct ks as [|k2 ks'].
      + rewrite run_chain_single. apply (push_equals_pull_l keq).
      + assert (H' : is_limit k1 = false /\ no_inner_limit (k2 :: ks') = true).
        { change (Push.no_inner_limit (k1 :: k2 :: ks')) with (negb (is_limit k1) && no_inner_limit (k2 :: ks')) in H.
          apply andb_true_iff in H. destruct H as [H1 H2]. apply negb_true_iff in H1. auto. }
        destruct H' as [H1 H2].
        change (chain_spec (k1 :: k2 :: ks') (concat cs)) with (chain_spec (k2 :: ks') (spec k1 (concat cs))).
        destruct (not_limit_cases k1 H1) as [Hs|[cmp ->]].
        * rewrite (run_chain_stream k1 k2 ks' Hs). rewrite (IH H2). rewrite (outs1_stream_concat k1 Hs). reflexivity.
        * rewrite run_chain_sort. rewrite (IH H2). rewrite concat_keep. reflexivity.
  Qed.
End ChainProofs.
