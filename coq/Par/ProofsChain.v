(** C17 — operator chains of ANY length and shape (filters, projections, DISTINCTs, sorts, LIMITs
    anywhere) run by the current chain driver (push_through / finalize_all, /repo b341ff4):

    1. ignoring the "stop" answers (what a parallel worker does), the concatenated output over any
       chunking is the list specification of the chain, operator after operator on the whole input;
    2. stopping at the first "stop" (what Pipeline::execute does) gives the very same chunks, because a
       "stop" means that some LIMIT in the chain is exhausted, and an exhausted LIMIT lets nothing
       through, neither later chunks nor what the operators before it emit when they are finalized. *)
From Coq Require Import List Arith Bool Lia.
From GV Require Import Par.Merge Par.Push Par.ProofsPush.
Import ListNotations.
Local Open Scope nat_scope.

Section ChainProofs.
  Context {R K : Type}.
  Variable keq : K -> K -> bool.
  Notation opk := (@opk R K).
  Notation opst := (@opst R K).
  Notation push := (push keq).
  Notation spec := (spec keq).
  Notation outs1 := (outs1 keq).
  Notation drive_chain := (drive_chain keq).
  Notation push_through := (push_through keq).
  Notation push_all := (push_all keq).
  Notation finalize_all := (finalize_all keq).
  Notation run_chain := (run_chain keq).
  Notation chain_spec := (chain_spec keq).

  (** *** one operator, every chunk pushed whatever it answers *)
  Fixpoint st_after (k : opk) (s : opst) (cs : list (list R)) : opst :=
    match cs with
    | [] => s
    | c :: r => st_after k (fst (fst (push k s c))) r
    end.

  Lemma push_out_keep : forall (k : opk) s c, exists x, snd (fst (push k s c)) = keep x.
  Proof.
    intros k s c. destruct k as [p|n|key|cmp|f]; cbn [Push.push].
    - eexists. reflexivity.
    - destruct (n <=? s_passed s); [exists []; reflexivity|].
      destruct (length c <=? n - s_passed s); eexists; reflexivity.
    - destruct (fresh keq key (s_seen s) c). eexists. reflexivity.
    - exists []. reflexivity.
    - eexists. reflexivity.
  Qed.

  Lemma outs_filter : forall (p : R -> bool) (cs : list (list R)) (s : opst), concat (outs1 (OFilter p) s cs) = filter p (concat cs).
  Proof.
    intros p. induction cs as [|c r IH]; intro s; cbn [ProofsPush.outs1 Push.push concat]; [reflexivity|].
    rewrite concat_app, concat_keep, filter_app, IH. reflexivity.
  Qed.
  Lemma outs_project : forall (f : R -> R) (cs : list (list R)) (s : opst), concat (outs1 (OProject f) s cs) = map f (concat cs).
  Proof.
    intros f. induction cs as [|c r IH]; intro s; cbn [ProofsPush.outs1 Push.push concat]; [reflexivity|].
    rewrite concat_app, concat_keep, map_app, IH. reflexivity.
  Qed.
  Lemma outs_distinct : forall (key : R -> K) (cs : list (list R)) (s : opst),
    concat (outs1 (ODistinct key) s cs) = dedup keq key (s_seen s) (concat cs).
  Proof.
    intros key. induction cs as [|c r IH]; intro s; cbn [ProofsPush.outs1 Push.push concat]; [reflexivity|].
    pose proof (fresh_dedup keq key c (s_seen s)) as F.
    destruct (fresh keq key (s_seen s) c) as [seen' o] eqn:E. cbn [snd] in F.
    rewrite concat_app, concat_keep, IH. cbn [s_seen]. rewrite (dedup_app keq), E. cbn [fst]. rewrite F. reflexivity.
  Qed.
  Lemma outs_limit : forall (n : nat) (cs : list (list R)) (s : opst),
    concat (outs1 (OLimit n) s cs) = firstn (n - s_passed s) (concat cs).
  Proof.
    intros n. induction cs as [|c r IH]; intro s; cbn [ProofsPush.outs1 Push.push concat].
    - rewrite firstn_nil. reflexivity.
    - destruct (Nat.leb_spec n (s_passed s)) as [Hle|Hlt].
      + cbn [app]. rewrite IH. replace (n - s_passed s) with 0 by lia. reflexivity.
      + destruct (Nat.leb_spec (length c) (n - s_passed s)) as [Hc|Hc].
        * rewrite concat_app, concat_keep, IH. cbn [s_passed]. rewrite firstn_app.
          rewrite (@firstn_all2 _ (n - s_passed s) c) by lia. f_equal. f_equal. lia.
        * rewrite concat_app, concat_keep, IH. cbn [s_passed].
          replace (n - (s_passed s + (n - s_passed s))) with 0 by lia. cbn [firstn]. rewrite app_nil_r.
          rewrite firstn_app. replace (n - s_passed s - length c) with 0 by lia. cbn [firstn]. rewrite app_nil_r.
          reflexivity.
  Qed.
  Lemma outs_sort : forall (cmp : R -> R -> comparison) (cs : list (list R)) (s : opst),
    outs1 (OSort cmp) s cs = [] /\ s_buf (st_after (OSort cmp) s cs) = s_buf s ++ concat cs.
  Proof.
    intros cmp. induction cs as [|c r IH]; intro s; cbn [ProofsPush.outs1 st_after Push.push concat fst snd].
    - rewrite app_nil_r. auto.
    - destruct (IH {| s_passed := s_passed s; s_seen := s_seen s; s_buf := s_buf s ++ c |}) as [I1 I2].
      split; [exact I1|]. rewrite I2. cbn [s_buf]. rewrite app_assoc. reflexivity.
  Qed.

  (** every chunk pushed, then finalize: the operator's specification *)
  Lemma total_op : forall (k : opk) cs,
    concat (outs1 k st0 cs ++ finish k (st_after k st0 cs)) = spec k (concat cs).
  Proof.
    intros k cs. rewrite concat_app. destruct k as [p|n|key|cmp|f]; cbn [Push.finish Push.spec concat].
    - rewrite app_nil_r. apply outs_filter.
    - rewrite app_nil_r, outs_limit. cbn. f_equal. lia.
    - rewrite app_nil_r. apply outs_distinct.
    - destruct (outs_sort cmp cs st0) as [E1 E2]. rewrite E1, E2. cbn [concat app st0 s_buf].
      apply chunks_of_concat. lia.
    - rewrite app_nil_r. apply outs_project.
  Qed.

  (** *** chains, every chunk pushed whatever the chain answers: [push_all] + [finalize_all] *)
  Definition total_run (ks : list opk) (ss : list opst) (cs : list (list R)) : list (list R) :=
    snd (push_all ks ss cs) ++ finalize_all ks (fst (push_all ks ss cs)).

  Lemma push_all_app : forall (ks : list opk) a b ss,
    push_all ks ss (a ++ b) =
    (fst (push_all ks (fst (push_all ks ss a)) b), snd (push_all ks ss a) ++ snd (push_all ks (fst (push_all ks ss a)) b)).
  Proof.
    intros ks. induction a as [|c r IH]; intros b ss; cbn [app Push.push_all].
    - cbn [fst snd app]. destruct (push_all ks ss b). reflexivity.
    - destruct (push_through ks ss c) as [[ss' o] cont]. rewrite IH.
      destruct (push_all ks ss' r) as [s1 o1]. cbn [fst snd].
      destruct (push_all ks s1 b) as [s2 o2]. cbn [fst snd]. rewrite app_assoc. reflexivity.
  Qed.

  Lemma push_all_nil_chain : forall cs (ss : list opst), concat (snd (push_all [] ss cs)) = concat cs.
  Proof.
    induction cs as [|c r IH]; intro ss; cbn [Push.push_all Push.push_through]; [reflexivity|].
    specialize (IH []). destruct (push_all [] [] r) as [s o]. cbn [snd concat] in *.
    rewrite concat_app, concat_keep, IH. reflexivity.
  Qed.

  Lemma push_all_single : forall (k : opk) cs s,
    push_all [k] [s] cs = ([st_after k s cs], outs1 k s cs).
  Proof.
    intros k. induction cs as [|c r IH]; intro s; cbn [Push.push_all Push.push_through ProofsPush.outs1 st_after hd_st]; [reflexivity|].
    destruct (push k s c) as [[s' out] cont]. cbn [fst]. rewrite IH. reflexivity.
  Qed.

  Lemma push_all_cons : forall (k k2 : opk) (ks : list opk) cs s srest,
    push_all (k :: k2 :: ks) (s :: srest) cs =
    (st_after k s cs :: fst (push_all (k2 :: ks) srest (outs1 k s cs)), snd (push_all (k2 :: ks) srest (outs1 k s cs))).
  Proof.
    intros k k2 ks. induction cs as [|c r IH]; intros s srest.
    - reflexivity.
    - cbn [Push.push_all ProofsPush.outs1 st_after].
      change (Push.push_through keq (k :: k2 :: ks) (s :: srest) c) with
        (let '(s', out, cont) := push k (hd_st (s :: srest)) c in
         match out with
         | [] => (s' :: tl (s :: srest), [], cont)
         | _ :: _ => let '(ss', o, c') := push_through (k2 :: ks) (tl (s :: srest)) (concat out) in (s' :: ss', o, cont && c')
         end).
      cbn [hd_st tl]. destruct (push_out_keep k s c) as [x Ex].
      destruct (push k s c) as [[s' out] cont]. cbn [fst snd] in *. subst out.
      destruct x as [|x0 xt]; cbn [keep app].
      + rewrite IH. reflexivity.
      + cbn [concat]. rewrite app_nil_r. cbn [Push.push_all].
        destruct (push_through (k2 :: ks) srest (x0 :: xt)) as [[ss' o] c'].
        rewrite IH. destruct (push_all (k2 :: ks) ss' (outs1 k s' r)) as [s2 o2]. reflexivity.
  Qed.

  Theorem total_run_spec : forall (ks : list opk) cs,
    concat (total_run ks (init_chain ks) cs) = chain_spec ks (concat cs).
  Proof.
    induction ks as [|k ks IH]; intro cs; unfold total_run.
    - cbn [Push.finalize_all]. rewrite app_nil_r. apply push_all_nil_chain.
    - destruct ks as [|k2 ks'].
      + cbn [init_chain map]. rewrite push_all_single. cbn [fst snd Push.finalize_all hd_st].
        apply total_op.
      + change (init_chain (k :: k2 :: ks')) with (st0 :: init_chain (k2 :: ks')).
        rewrite push_all_cons. cbn [fst snd].
        change (finalize_all (k :: k2 :: ks') (st_after k st0 cs :: fst (push_all (k2 :: ks') (init_chain (k2 :: ks')) (outs1 k st0 cs))))
          with (let '(ss', o) := push_all (k2 :: ks') (fst (push_all (k2 :: ks') (init_chain (k2 :: ks')) (outs1 k st0 cs)))
                                          (finish k (st_after k st0 cs)) in o ++ finalize_all (k2 :: ks') ss').
        specialize (IH (outs1 k st0 cs ++ finish k (st_after k st0 cs))). unfold total_run in IH.
        rewrite push_all_app in IH. cbn [fst snd] in IH.
        destruct (push_all (k2 :: ks') (fst (push_all (k2 :: ks') (init_chain (k2 :: ks')) (outs1 k st0 cs)))
                           (finish k (st_after k st0 cs))) as [ss' o].
        cbn [fst snd] in IH. rewrite <- app_assoc in IH. rewrite IH.
        change (chain_spec (k :: k2 :: ks') (concat cs)) with (chain_spec (k2 :: ks') (spec k (concat cs))).
        rewrite total_op. reflexivity.
  Qed.

  (** *** stopping at the first "stop" loses nothing *)
  Fixpoint dead (ks : list opk) (ss : list opst) : Prop :=
    match ks with
    | [] => False
    | k :: krest => (match k with OLimit n => n <= s_passed (hd_st ss) | _ => False end) \/ dead krest (tl ss)
    end.

  Lemma push_false : forall (k : opk) s c s' out, push k s c = (s', out, false) ->
    match k with OLimit n => n <= s_passed s' | _ => False end.
  Proof.
    intros k s c s' out H. destruct k as [p|n|key|cmp|f]; cbn [Push.push] in H; try (inversion H; fail).
    - destruct (Nat.leb_spec n (s_passed s)) as [Hle|Hlt]; [inversion H; subst; exact Hle|].
      destruct (Nat.leb_spec (length c) (n - s_passed s)) as [Hc|Hc]; inversion H; subst; cbn [s_passed].
      + match goal with E : (_ <? _) = false |- _ => apply Nat.ltb_ge in E; exact E end.
      + lia.
    - destruct (fresh keq key (s_seen s) c). inversion H.
  Qed.

  Lemma push_dead : forall (n : nat) (s : opst) (c : list R), n <= s_passed s -> push (OLimit n) s c = (s, [], false).
  Proof. intros n s c H. cbn [Push.push]. destruct (Nat.leb_spec n (s_passed s)); [reflexivity|lia]. Qed.

  (** a "stop" answer means that some LIMIT of the chain is exhausted *)
  Lemma push_through_false : forall (ks : list opk) ss c ss' o, push_through ks ss c = (ss', o, false) -> dead ks ss'.
  Proof.
    induction ks as [|k ks IH]; intros ss c ss' o H; [cbn in H; inversion H|].
    cbn [Push.push_through] in H. destruct (push k (hd_st ss) c) as [[s' out] cont] eqn:E.
    destruct ks as [|k2 ks'].
    - inversion H; subst. left. cbn [hd_st]. apply (push_false k (hd_st ss) c s' o E).
    - destruct out as [|o1 ot].
      + inversion H; subst. left. cbn [hd_st]. apply (push_false k (hd_st ss) c s' [] E).
      + destruct (push_through (k2 :: ks') (tl ss) (concat (o1 :: ot))) as [[ss2 o2] c2] eqn:E2.
        inversion H; subst. destruct cont.
        * cbn [andb] in *. right. cbn [tl]. eapply IH. rewrite E2. match goal with Hc : c2 = false |- _ => rewrite Hc end. reflexivity.
        * left. cbn [hd_st]. apply (push_false k (hd_st ss) c s' (o1 :: ot) E).
  Qed.

  Lemma finalize_all_cons : forall (k k2 : opk) (ks : list opk) ss,
    finalize_all (k :: k2 :: ks) ss =
    snd (push_all (k2 :: ks) (tl ss) (finish k (hd_st ss)))
    ++ finalize_all (k2 :: ks) (fst (push_all (k2 :: ks) (tl ss) (finish k (hd_st ss)))).
  Proof.
    intros. change (finalize_all (k :: k2 :: ks) ss) with
      (let '(ss', o) := push_all (k2 :: ks) (tl ss) (finish k (hd_st ss)) in o ++ finalize_all (k2 :: ks) ss').
    destruct (push_all (k2 :: ks) (tl ss) (finish k (hd_st ss))). reflexivity.
  Qed.

  (** with an exhausted LIMIT in the chain nothing comes out any more, whatever is pushed, and what
      finalize_all will emit does not change *)
  Lemma dead_blocks : forall (ks : list opk) ss, dead ks ss -> forall r,
    snd (push_all ks ss r) = [] /\ dead ks (fst (push_all ks ss r))
    /\ finalize_all ks (fst (push_all ks ss r)) = finalize_all ks ss.
  Proof.
    induction ks as [|k ks IHks]; intros ss Hd; [destruct Hd|].
    (* one chunk *)
    assert (Step : forall ss0, dead (k :: ks) ss0 -> forall c, exists ss' b,
              push_through (k :: ks) ss0 c = (ss', [], b) /\ dead (k :: ks) ss'
              /\ finalize_all (k :: ks) ss' = finalize_all (k :: ks) ss0).
    { intros ss0 Hd0 c. cbn [Push.push_through]. destruct ks as [|k2 ks'].
      - destruct Hd0 as [Hh|[]]. destruct k as [p|n|key|cmp|f]; try (exfalso; exact Hh).
        rewrite (push_dead n (hd_st ss0) c Hh). exists [hd_st ss0], false.
        split; [reflexivity|]. split; [left; exact Hh|reflexivity].
      - destruct Hd0 as [Hh|Ht].
        + destruct k as [p|n|key|cmp|f]; try (exfalso; exact Hh).
          rewrite (push_dead n (hd_st ss0) c Hh). exists (hd_st ss0 :: tl ss0), false.
          split; [reflexivity|]. split; [left; exact Hh|reflexivity].
        + destruct (push k (hd_st ss0) c) as [[s' out] cont] eqn:E.
          destruct out as [|o1 ot].
          * exists (s' :: tl ss0), cont. split; [reflexivity|]. split; [right; exact Ht|].
            rewrite !finalize_all_cons. cbn [hd_st tl].
            destruct (IHks (tl ss0) Ht (finish k s')) as [A1 [_ A3]].
            destruct (IHks (tl ss0) Ht (finish k (hd_st ss0))) as [B1 [_ B3]].
            rewrite A1, A3, B1, B3. reflexivity.
          * destruct (IHks (tl ss0) Ht [concat (o1 :: ot)]) as [A1 [A2 A3]].
            cbn [Push.push_all] in A1, A2, A3.
            destruct (push_through (k2 :: ks') (tl ss0) (concat (o1 :: ot))) as [[ss2 o2] c2].
            cbn [fst snd] in *. rewrite app_nil_r in A1. subst o2.
            exists (s' :: ss2), (cont && c2). split; [reflexivity|]. split; [right; exact A2|].
            rewrite !finalize_all_cons. cbn [hd_st tl].
            destruct (IHks ss2 A2 (finish k s')) as [C1 [_ C3]].
            destruct (IHks (tl ss0) Ht (finish k (hd_st ss0))) as [B1 [_ B3]].
            rewrite C1, C3, B1, B3, A3. reflexivity. }
    intro r. revert ss Hd. induction r as [|c r IHr]; intros ss Hd.
    - cbn. auto.
    - cbn [Push.push_all]. destruct (Step ss Hd c) as [ss' [b [E [Hd' F]]]]. rewrite E.
      destruct (IHr ss' Hd') as [A1 [A2 A3]]. destruct (push_all (k :: ks) ss' r) as [s2 o2]. cbn [fst snd] in *.
      subst o2. split; [reflexivity|]. split; [exact A2|]. rewrite A3. exact F.
  Qed.

  Theorem stop_loses_nothing : forall (ks : list opk) cs ss,
    snd (drive_chain ks ss cs) ++ finalize_all ks (fst (drive_chain ks ss cs)) = total_run ks ss cs.
  Proof.
    intros ks. unfold total_run. induction cs as [|c r IH]; intro ss; [reflexivity|].
    cbn [Push.drive_chain Push.push_all].
    destruct (push_through ks ss c) as [[ss' o] cont] eqn:E. destruct cont.
    - specialize (IH ss'). destruct (drive_chain ks ss' r) as [s1 o1]. destruct (push_all ks ss' r) as [s2 o2].
      cbn [fst snd] in *. rewrite <- !app_assoc. f_equal. exact IH.
    - pose proof (push_through_false ks ss c ss' o E) as Hd.
      destruct (dead_blocks ks ss' Hd r) as [A1 [_ A3]].
      destruct (push_all ks ss' r) as [s2 o2]. cbn [fst snd] in *. subst o2. rewrite app_nil_r, A3. reflexivity.
  Qed.

  (** *** the theorems *)
  Theorem run_chain_total : forall (ks : list opk) cs, run_chain ks cs = total_run ks (init_chain ks) cs.
  Proof.
    intros ks cs. unfold Push.run_chain. rewrite <- stop_loses_nothing.
    destruct (drive_chain ks (init_chain ks) cs). reflexivity.
  Qed.

  Theorem chain_correct_l : forall (ks : list opk) cs, concat (run_chain ks cs) = chain_spec ks (concat cs).
  Proof. intros ks cs. rewrite run_chain_total. apply total_run_spec. Qed.

  Theorem pipeline_correct_l : forall (ks : list opk) (rows : list R),
    exists out, pipeline_run keq ks rows = PRows out /\ concat out = chain_spec ks rows.
  Proof.
    intros ks rows. unfold pipeline_run. eexists. split; [reflexivity|].
    rewrite chain_correct_l. rewrite chunks_of_concat by lia. reflexivity.
  Qed.
End ChainProofs.
