(** C17 — DISTINCT: merging the workers' partial distinct sets equals the sequential DISTINCT;
    merge_distinct_results (de-duplication by 64-bit row hashes) equals de-duplication by row
    equality when the supplied hash is injective on the rows of the run. *)
From Coq Require Import List Arith Bool Lia Permutation ZArith.
From GV Require Import Par.Merge Par.Push.
Import ListNotations.
Local Open Scope nat_scope.

Section Distinct.
  Context {A : Type}.
  Variable req : A -> A -> bool.
  Hypothesis req_spec : forall a b, req a b = true <-> a = b.

  (** first-occurrence de-duplication by row equality = the specification of DISTINCT (Push.dedup) *)
  Notation dd := (dedup req (fun r : A => r)).

  Lemma mem_iff : forall x seen, existsb (req x) seen = true <-> In x seen.
  Proof.
    intros x seen. rewrite existsb_exists. split.
    - intros [y [Hy E]]. apply req_spec in E. subst. exact Hy.
    - intro H. exists x. split; [exact H|apply req_spec; reflexivity].
  Qed.

  Lemma mem_ext : forall x s1 s2, (forall y, In y s1 <-> In y s2) -> existsb (req x) s1 = existsb (req x) s2.
  Proof.
    intros x s1 s2 H. destruct (existsb (req x) s1) eqn:E1, (existsb (req x) s2) eqn:E2; auto.
    - apply mem_iff in E1. apply H in E1. apply mem_iff in E1. congruence.
    - apply mem_iff in E2. apply H in E2. apply mem_iff in E2. congruence.
  Qed.

  Lemma dd_ext : forall l s1 s2, (forall x, In x s1 <-> In x s2) -> dd s1 l = dd s2 l.
  Proof.
    induction l as [|a t IH]; intros s1 s2 H; cbn [dedup]; [reflexivity|].
    rewrite (mem_ext a s1 s2 H). destruct (existsb (req a) s2); [apply IH; exact H|].
    f_equal. apply IH. intro x. cbn [In]. rewrite (H x). tauto.
  Qed.

  Lemma dd_in : forall l seen x, In x (dd seen l) <-> In x l /\ ~ In x seen.
  Proof.
    induction l as [|a t IH]; intros seen x; cbn [dedup In]; [tauto|].
    destruct (existsb (req a) seen) eqn:E.
    - apply mem_iff in E. rewrite IH. split; [tauto|]. intros [[->|H] Hn]; tauto.
    - assert (Hn : ~ In a seen) by (intro H; apply mem_iff in H; congruence).
      cbn [In]. rewrite IH. cbn [In]. split.
      + intros [->|[H1 H2]]; [tauto|]. tauto.
      + intros [[->|H1] H2]; [tauto|]. destruct (req a x) eqn:Ex.
        * apply req_spec in Ex. tauto.
        * right. split; auto. intros [->|H3]; [|tauto].
          assert (req x x = true) by (apply req_spec; reflexivity). congruence.
  Qed.

  Lemma dd_nodup : forall l seen, NoDup (dd seen l).
  Proof.
    induction l as [|a t IH]; intro seen; cbn [dedup]; [constructor|].
    destruct (existsb (req a) seen); [apply IH|]. constructor; [|apply IH].
    intro H. apply dd_in in H. cbn [In] in H. tauto.
  Qed.

  Lemma dd_app : forall a b seen, dd seen (a ++ b) = dd seen a ++ dd (a ++ seen) b.
  Proof.
    induction a as [|x t IH]; intros b seen; cbn [app dedup]; [reflexivity|].
    destruct (existsb (req x) seen) eqn:E.
    - rewrite IH. f_equal. apply dd_ext. intro y. cbn [In]. rewrite !in_app_iff.
      apply mem_iff in E. split; [tauto|]. intros [->|H]; tauto.
    - rewrite IH. cbn [app]. f_equal. f_equal. apply dd_ext. intro y. cbn [In]. rewrite !in_app_iff. cbn [In]. tauto.
  Qed.

  (** de-duplicating an already de-duplicated piece again (with at least the same seen set) changes nothing *)
  Lemma dd_dd : forall p seen0 seen, (forall x, In x seen0 -> In x seen) -> dd seen (dd seen0 p) = dd seen p.
  Proof.
    induction p as [|r t IH]; intros seen0 seen H; cbn [dedup]; [reflexivity|].
    destruct (existsb (req r) seen0) eqn:E0.
    - apply mem_iff in E0. assert (E : existsb (req r) seen = true) by (apply mem_iff; auto).
      rewrite E. apply IH. exact H.
    - cbn [dedup]. destruct (existsb (req r) seen) eqn:E.
      + apply IH. intros x [->|Hx]; [apply mem_iff; exact E|auto].
      + f_equal. apply IH. intros x [->|Hx]; [left; reflexivity|right; auto].
  Qed.

  (** the merge of the workers' partial distinct sets = DISTINCT over the concatenated inputs *)
  Theorem distinct_merge_parts : forall parts seen,
    dd seen (concat (map (dd []) parts)) = dd seen (concat parts).
  Proof.
    induction parts as [|p ps IH]; intro seen; cbn [map concat]; [reflexivity|].
    rewrite !dd_app. rewrite (dd_dd p [] seen) by (intros x []). f_equal.
    rewrite IH. apply dd_ext. intro x. rewrite !in_app_iff. rewrite (dd_in p [] x). cbn [In]. tauto.
  Qed.

  (** ... and does not depend on the order in which rows reached the workers, as a set *)
  Theorem distinct_perm : forall l l', Permutation l l' -> Permutation (dd [] l) (dd [] l').
  Proof.
    intros l l' H. apply NoDup_Permutation; try apply dd_nodup.
    intro x. rewrite !dd_in. split; intros [H1 H2]; split; auto.
    - eapply Permutation_in; eauto.
    - eapply Permutation_in; [apply Permutation_sym|]; eauto.
  Qed.

  Theorem distinct_schedule_independent_l : forall parts rows, Permutation (concat parts) rows ->
    Permutation (dd [] (concat (map (dd []) parts))) (dd [] rows).
  Proof. intros parts rows H. rewrite distinct_merge_parts. apply distinct_perm. exact H. Qed.

  (** *** de-duplication by hash values *)
  Definition hash_injective (rows : list (Z * A)) : Prop :=
    forall x y, In x rows -> In y rows -> (fst x = fst y <-> snd x = snd y).

  Lemma hmem : forall (S : list (Z * A)) h r, hash_injective ((h, r) :: S) ->
    existsb (Z.eqb h) (map fst S) = existsb (req r) (map snd S).
  Proof.
    intros S h r Hi.
    destruct (existsb (Z.eqb h) (map fst S)) eqn:E1, (existsb (req r) (map snd S)) eqn:E2; auto.
    - apply existsb_exists in E1. destruct E1 as [h' [Hin Eh]]. apply Z.eqb_eq in Eh. subst h'.
      apply in_map_iff in Hin. destruct Hin as [[h' r'] [Eh Hin]]. cbn in Eh. subst h'.
      assert (r = r') by (apply (Hi (h, r) (h, r')); [left; reflexivity|right; exact Hin|reflexivity]).
      subst r'. assert (In r (map snd S)) by (apply in_map_iff; exists (h, r); auto).
      apply mem_iff in H. congruence.
    - apply mem_iff in E2. apply in_map_iff in E2. destruct E2 as [[h' r'] [Er Hin]]. cbn in Er. subst r'.
      assert (h = h') by (apply (Hi (h, r) (h', r)); [left; reflexivity|right; exact Hin|reflexivity]).
      subst h'. assert (existsb (Z.eqb h) (map fst S) = true).
      { apply existsb_exists. exists h. split; [apply in_map_iff; exists (h, r); auto|apply Z.eqb_refl]. }
      congruence.
  Qed.

  Lemma dedup_h_spec : forall rows S, hash_injective (S ++ rows) ->
    dedup_h (map fst S) rows = dd (map snd S) (map snd rows).
  Proof.
    induction rows as [|[h r] t IH]; intros S Hi; cbn [dedup_h map dedup]; [reflexivity|].
    assert (Hi1 : hash_injective ((h, r) :: S)).
    { intros x y Hx Hy. apply Hi; apply in_or_app; cbn [In] in *; (destruct Hx, Hy; tauto) || idtac.
      all: match goal with H : _ \/ _ |- _ => destruct H; tauto end. }
    rewrite (hmem S h r Hi1). cbn [fst snd].
    destruct (existsb (req r) (map snd S)).
    - apply IH. intros x y Hx Hy. apply Hi; apply in_app_iff; apply in_app_iff in Hx; apply in_app_iff in Hy; cbn [In]; tauto.
    - f_equal. apply (IH ((h, r) :: S)).
      intros x y Hx Hy. apply Hi; apply in_app_iff; cbn [app In] in *;
        [destruct Hx as [Hx|Hx]; [subst; tauto|apply in_app_iff in Hx; tauto]
        |destruct Hy as [Hy|Hy]; [subst; tauto|apply in_app_iff in Hy; tauto]].
  Qed.

  (** merge_distinct_results = first-occurrence DISTINCT of all rows in worker order, re-chunked at 2048 *)
  Theorem merge_distinct_spec_l : forall (results : list (list (list (Z * A)))),
    hash_injective (concat (concat results)) ->
    merge_distinct_results results = rows_to_chunks (dd [] (map snd (concat (concat results)))) 2048.
  Proof.
    intros results Hi. unfold merge_distinct_results. f_equal.
    apply (dedup_h_spec (concat (concat results)) []). exact Hi.
  Qed.
End Distinct.
