(** C17 — model of spill/external_sort.rs (ExternalSort), of SpillableSortPushOperator
    (operators/push/sort.rs l.211-417), of the spill-file bookkeeping of spill/{manager,file}.rs and of
    the hash partitioning of spill/partition.rs.  No proofs.  The disk hop (serializer.rs) is the
    identity on the modelled values (checked by the run, proved for the serializer in C16). *)
From Coq Require Import List Arith Bool ZArith.
From GV Require Import Par.Merge.
Import ListNotations.

Section ExtSort.
  Context {A : Type}.
  Variable cmp : A -> A -> comparison.

  (** ExternalSort: [spill_sorted_run] stores a non-empty sorted run; [merge_all] = Merge.merge_all *)
  Definition spill_sorted_run (runs : list (list A)) (rows : list A) : list (list A) :=
    match rows with [] => runs | _ => runs ++ [rows] end.

  (** SpillableSortPushOperator with a spill manager: the buffer is sorted and spilled as one run
      whenever it holds at least [threshold] rows after a push *)
  Record sst := { ss_buf : list A; ss_runs : list (list A); ss_ext : bool }.
  Definition sst0 : sst := {| ss_buf := []; ss_runs := []; ss_ext := false |}.

  Definition spush (threshold : nat) (s : sst) (c : list A) : sst :=
    match c with
    | [] => s
    | _ =>
        let buf := ss_buf s ++ c in
        if length buf <? threshold then {| ss_buf := buf; ss_runs := ss_runs s; ss_ext := ss_ext s |}
        else {| ss_buf := []; ss_runs := spill_sorted_run (ss_runs s) (isort cmp buf); ss_ext := true |}
    end.
  Definition sfinish (s : sst) : list A :=
    if ss_ext s then merge_all cmp (ss_runs s) (ss_buf s) else isort cmp (ss_buf s).

  Definition spill_sort (threshold : nat) (cs : list (list A)) : list A :=
    sfinish (fold_left (spush threshold) cs sst0).
  (** before 2824ade (unstable merge) *)
  Definition sfinish_pre (s : sst) : list A :=
    if ss_ext s then merge_all_pre cmp (ss_runs s) (ss_buf s) else isort cmp (ss_buf s).
  Definition spill_sort_pre (threshold : nat) (cs : list (list A)) : list A :=
    sfinish_pre (fold_left (spush threshold) cs sst0).

  (** the runs an execution produces (for the finding class) *)
  Definition spill_runs (threshold : nat) (cs : list (list A)) : list (list A) :=
    let s := fold_left (spush threshold) cs sst0 in ss_runs s ++ [isort cmp (ss_buf s)].
End ExtSort.

(** ** spill files: SpillManager keeps [active_files]; SpillFile::delete removes the file from disk
    but nobody calls [unregister_file]; SpillManager::cleanup removes every file still listed *)
Record mgr := { g_next : nat; g_active : list nat; g_disk : list nat }.
Definition mgr0 : mgr := {| g_next := 0; g_active := []; g_disk := [] |}.
Definition remove_id (i : nat) (l : list nat) : list nat := filter (fun j => negb (j =? i)) l.

Definition create_file (g : mgr) : mgr * nat :=
  ({| g_next := S (g_next g); g_active := g_active g ++ [g_next g]; g_disk := g_disk g ++ [g_next g] |}, g_next g).
Definition delete_file (g : mgr) (i : nat) : mgr :=
  {| g_next := g_next g; g_active := g_active g; g_disk := remove_id i (g_disk g) |}.
Definition mgr_cleanup (g : mgr) : mgr :=
  {| g_next := g_next g; g_active := []; g_disk := filter (fun j => negb (existsb (Nat.eqb j) (g_active g))) (g_disk g) |}.

Inductive fop :=
| FSpillRun            (* ExternalSort::spill_sorted_run of a non-empty run: create_file *)
| FSortDrop            (* ExternalSort::cleanup / drop: delete every run file *)
| FPartSpill           (* PartitionedState::spill_partition of a non-empty partition: create_file *)
| FPartReload          (* get_partition_mut on a spilled partition: load, then delete its file *)
| FPartDrain           (* drain_all: reload everything, delete remaining files *)
| FPartCleanup         (* PartitionedState::cleanup or drop: deletes the files of its spilled partitions (5457c98) *)
| FMgrCleanup.         (* SpillManager::cleanup / drop *)

(** state: manager, files owned by the external sort, files owned by the partitioned state *)
Record fstate := { f_mgr : mgr; f_sort : list nat; f_part : list nat }.
Definition fstate0 : fstate := {| f_mgr := mgr0; f_sort := []; f_part := [] |}.

Definition fstep (s : fstate) (o : fop) : fstate :=
  match o with
  | FSpillRun => let '(g, i) := create_file (f_mgr s) in {| f_mgr := g; f_sort := f_sort s ++ [i]; f_part := f_part s |}
  | FSortDrop => {| f_mgr := fold_left delete_file (f_sort s) (f_mgr s); f_sort := []; f_part := f_part s |}
  | FPartSpill => let '(g, i) := create_file (f_mgr s) in {| f_mgr := g; f_sort := f_sort s; f_part := f_part s ++ [i] |}
  | FPartReload => match f_part s with
                   | [] => s
                   | i :: r => {| f_mgr := delete_file (f_mgr s) i; f_sort := f_sort s; f_part := r |}
                   end
  | FPartDrain => {| f_mgr := fold_left delete_file (f_part s) (f_mgr s); f_sort := f_sort s; f_part := [] |}
  | FPartCleanup => {| f_mgr := fold_left delete_file (f_part s) (f_mgr s); f_sort := f_sort s; f_part := [] |}
  | FMgrCleanup => {| f_mgr := mgr_cleanup (f_mgr s); f_sort := f_sort s; f_part := f_part s |}
  end.
Definition frun (ops : list fop) : fstate := fold_left fstep ops fstate0.
(** before 5457c98 PartitionedState::cleanup / drop forgot its files WITHOUT deleting them (finding C17-K6) *)
Definition fstep_pre (s : fstate) (o : fop) : fstate :=
  match o with
  | FPartCleanup => {| f_mgr := f_mgr s; f_sort := f_sort s; f_part := [] |}
  | _ => fstep s o
  end.
Definition frun_pre (ops : list fop) : fstate := fold_left fstep_pre ops fstate0.
Definition disk_count (s : fstate) : nat := length (g_disk (f_mgr s)).
Definition active_count (s : fstate) : nat := length (g_active (f_mgr s)).
(** finding class C17-K6 (before 5457c98): a PartitionedState is cleaned up / dropped while partitions are on disk *)
Fixpoint k_part_cleanup_leaves (s : fstate) (ops : list fop) : bool :=
  match ops with
  | [] => false
  | o :: r => (match o with FPartCleanup => negb (match f_part s with [] => true | _ => false end) | _ => false end)
              || k_part_cleanup_leaves (fstep_pre s o) r
  end.

(** ** hash partitioning (PartitionedState): the partition of a key is [hash_key(key) % n]; the hash
    function is SipHash over a type tag and the value, supplied by the harness per key *)
Section Partition.
  Context {Key V : Type}.
  Variable keq : Key -> Key -> bool.
  Variable hash : Key -> Z.        (* hash_key(key): the 64-bit SipHash value, 0 <= hash k < 2^64 *)

  (** partition_for: [hash as usize % num_partitions] (n > 0) *)
  Definition part_of (n : nat) (k : Key) : nat := Z.to_nat (hash k mod Z.of_nat n).

  (** rows distributed over n partitions (bag semantics) *)
  Definition partition_rows (n : nat) (rows : list (Key * V)) : list (list (Key * V)) :=
    map (fun p => filter (fun kv => part_of n (fst kv) =? p) rows) (seq 0 n).

  (** one partition = association list, insert replaces *)
  Fixpoint upsert (m : list (Key * V)) (k : Key) (v : V) : list (Key * V) :=
    match m with
    | [] => [(k, v)]
    | (k', v') :: t => if keq k' k then (k, v) :: t else (k', v') :: upsert t k v
    end.
  Fixpoint set_part (ps : list (list (Key * V))) (i : nat) (m : list (Key * V)) :=
    match ps, i with
    | [], _ => []
    | _ :: t, 0 => m :: t
    | y :: t, S j => y :: set_part t j m
    end.
  Definition pinsert (n : nat) (ps : list (list (Key * V))) (kv : Key * V) :=
    let i := part_of n (fst kv) in set_part ps i (upsert (nth i ps []) (fst kv) (snd kv)).
  (** spilling and reloading a partition do not change its content *)
  Definition pstate0 (n : nat) : list (list (Key * V)) := repeat [] n.
  Definition pdrain (n : nat) (kvs : list (Key * V)) : list (Key * V) :=
    concat (fold_left (pinsert n) kvs (pstate0 n)).
  Definition lookup (m : list (Key * V)) (k : Key) : option V :=
    match find (fun kv => keq (fst kv) k) m with Some kv => Some (snd kv) | None => None end.
End Partition.
