(** C17 — the remaining lemmas in exactly the form Props_C17 states them (hypotheses expressed with
    the model's own boolean predicates only). *)
From Coq Require Import List Arith Bool Lia Permutation Sorted ZArith.
From GV Require Import Par.Rows Par.Merge Par.Accum Par.ExtSort Par.ProofsHeap Par.ProofsMerge Par.ProofsAccum
     Par.ProofsExt Par.Proofs.
Import ListNotations.
Local Open Scope nat_scope.

(** ** external sort *)
Section Ext.
  Context {A : Type}.
  Variable cmp : A -> A -> comparison.
  Variable P : A -> Prop.
  Hypothesis leb_total : forall a b, P a -> P b -> leb cmp a b = true \/ leb cmp b a = true.
  Hypothesis leb_trans : forall a b c, P a -> P b -> P c ->
      leb cmp a b = true -> leb cmp b c = true -> leb cmp a c = true.

  Lemma merge_all_spec_b : forall runs mem, Forall P (concat runs ++ mem) ->
    Forall (fun r => sortedb cmp r = true) runs ->
    StronglySorted (fun a b => leb cmp a b = true) (merge_all_pre cmp runs mem)
    /\ Permutation (merge_all_pre cmp runs mem) (concat runs ++ mem)
    /\ (k_cross_ties cmp (runs ++ [mem]) = false -> merge_all_pre cmp runs mem = isort cmp (concat runs ++ mem)).
  Proof.
    intros runs mem HP Hb.
    assert (HPr : Forall P (concat runs)) by (apply Forall_app in HP; tauto).
    pose proof (runs_sorted cmp P leb_trans runs HPr Hb) as Hs.
    destruct (merge_all_spec cmp P leb_total leb_trans runs mem HP Hs) as [M1 [M2 M3]].
    split; [exact M1|]. split; [exact M2|].
    intro Hk. apply M3. apply (k_cross_ties_false cmp). exact Hk.
  Qed.

  Lemma external_sort_spec_b : forall pieces mem, Forall P (concat pieces ++ mem) ->
    StronglySorted (fun a b => leb cmp a b = true) (merge_all_pre cmp (map (isort cmp) pieces) mem)
    /\ Permutation (merge_all_pre cmp (map (isort cmp) pieces) mem) (concat pieces ++ mem)
    /\ (k_cross_ties cmp (map (isort cmp) pieces ++ [mem]) = false ->
        merge_all_pre cmp (map (isort cmp) pieces) mem = isort cmp (concat pieces ++ mem)).
  Proof.
    intros pieces mem HP.
    destruct (external_sort_pieces cmp P leb_total leb_trans pieces mem HP) as [M1 [M2 M3]].
    split; [exact M1|]. split; [exact M2|].
    intro Hk. apply M3. apply (k_cross_ties_false cmp). exact Hk.
  Qed.

  Lemma spill_sort_spec_b : forall threshold cs, Forall P (concat cs) ->
    StronglySorted (fun a b => leb cmp a b = true) (spill_sort_pre cmp threshold cs)
    /\ Permutation (spill_sort_pre cmp threshold cs) (concat cs)
    /\ (k_cross_ties cmp (spill_runs cmp threshold cs) = false -> spill_sort_pre cmp threshold cs = isort cmp (concat cs)).
  Proof.
    intros threshold cs HP.
    destruct (spill_sort_spec cmp P leb_total leb_trans threshold cs HP) as [M1 [M2 M3]].
    split; [exact M1|]. split; [exact M2|].
    intro Hk. apply M3. apply (k_cross_ties_false cmp). exact Hk.
  Qed.
End Ext.

(** the witness of C17-K1 for the external sort: four one-row runs with equal keys *)
Lemma external_sort_refuted_l : exists (threshold : nat) (cs : list (list (Z * Z))),
  spill_sort_pre zcmp1 threshold cs <> isort zcmp1 (concat cs)
  /\ sortedb zcmp1 (spill_sort_pre zcmp1 threshold cs) = true
  /\ k_cross_ties zcmp1 (spill_runs zcmp1 threshold cs) = true.
Proof.
  exists 1%nat, [[(1, 0)]; [(1, 1)]; [(1, 2)]; [(1, 3)]]%Z. split; [|split].
  - vm_compute. discriminate.
  - vm_compute. reflexivity.
  - vm_compute. reflexivity.
Qed.

(** ** chunks *)
Lemma chunks_fuel_concat' : forall {X} n fuel (l : list X), 0 < n -> length l <= fuel ->
  concat (chunks_fuel fuel n l) = l.
Proof.
  intros X n. induction fuel as [|f IH]; intros l Hn Hl.
  - destruct l; [reflexivity|cbn in Hl; lia].
  - cbn [chunks_fuel]. destruct l as [|x t]; [reflexivity|].
    cbn [concat]. rewrite IH; auto.
    + apply firstn_skipn.
    + rewrite skipn_length. cbn [length] in *. lia.
Qed.

Lemma chunks_fuel_sizes : forall {X} n fuel (l : list X), 0 < n ->
  Forall (fun c => c <> [] /\ length c <= n) (chunks_fuel fuel n l).
Proof.
  intros X n. induction fuel as [|f IH]; intros l Hn; [constructor|].
  cbn [chunks_fuel]. destruct l as [|x t]; [constructor|].
  constructor; [|apply IH; exact Hn]. split.
  - destruct n; [lia|]. cbn. discriminate.
  - rewrite firstn_length. lia.
Qed.

(** rows_to_chunks followed by chunks_to_rows is the identity; every chunk is non-empty and holds
    at most [chunk_size] rows; chunk size 0 panics exactly on non-empty input *)
Lemma chunks_rows_inverse_l : forall {X} (rows : list X) (csize : nat),
  (0 < csize -> exists cs, rows_to_chunks rows csize = Some cs /\ chunks_to_rows cs = rows
                           /\ Forall (fun c => c <> [] /\ length c <= csize) cs)
  /\ (csize = 0 -> rows <> [] -> rows_to_chunks rows csize = None)
  /\ rows_to_chunks (@nil X) csize = Some [].
Proof.
  intros X rows csize. split; [|split].
  - intro Hc. unfold rows_to_chunks. destruct rows as [|x t].
    + exists []. repeat split; constructor.
    + destruct (Nat.eqb_spec csize 0); [lia|]. eexists. split; [reflexivity|]. split.
      * unfold chunks_to_rows, chunks_of. apply chunks_fuel_concat'; auto.
      * unfold chunks_of. apply chunks_fuel_sizes. exact Hc.
  - intros -> Hr. unfold rows_to_chunks. destruct rows; [congruence|reflexivity].
  - reflexivity.
Qed.

(** ** accumulators: merging in either order (worker completion order) *)
Lemma accum_merge_comm_b : forall xs ys, uniformb_kind (xs ++ ys) = true ->
  (forall v, In v (xs ++ ys) -> kind v <> 1%nat) ->
  let a := fold_add xs acc0 in let b := fold_add ys acc0 in
  a_count (merge a b) = a_count (merge b a) /\ a_sum (merge a b) = a_sum (merge b a)
  /\ a_min (merge a b) = a_min (merge b a) /\ a_max (merge a b) = a_max (merge b a).
Proof.
  intros xs ys H Hnb. cbn zeta.
  destruct (uniformb_kind_kinded _ H) as [k Hk].
  assert (Kx : kindedk k xs) by (intros v Hv; apply Hk; apply in_or_app; auto).
  assert (Ky : kindedk k ys) by (intros v Hv; apply Hk; apply in_or_app; auto).
  destruct (Nat.le_gt_cases 2 k) as [H2|H2].
  - apply (accum_merge_comm_l k); auto; apply acc_okk_fold; auto; apply acc_okk_acc0.
  - (* k = 0 or 1: every value is NULL (Bool is excluded), both folds are acc0 *)
    assert (N : forall vs, (forall v, In v vs -> In v (xs ++ ys)) -> fold_add vs acc0 = acc0).
    { intros vs Hin. unfold fold_add.
      assert (G : forall a, fold_left add vs a = a).
      { induction vs as [|v t IH]; intro a; [reflexivity|]. cbn [fold_left].
        assert (Hv : In v (xs ++ ys)) by (apply Hin; left; reflexivity).
        pose proof (Hk v Hv) as Kv. pose proof (Hnb v Hv) as Nv.
        assert (kind v = 0%nat) by lia.
        destruct v; try discriminate. cbn [add]. apply IH. intros w Hw. apply Hin. right. exact Hw. }
      apply G. }
    rewrite (N xs) by (intros v Hv; apply in_or_app; auto).
    rewrite (N ys) by (intros v Hv; apply in_or_app; auto).
    repeat split.
Qed.
