(** C17 — the binary heap of Par/Merge.v (transcribed from std BinaryHeap) keeps the heap order and
    its elements; the root is a minimum row.  Everything is relative to a domain [P] of rows on which
    the comparison is a total preorder (same-typed sort keys). *)
From Coq Require Import List Arith Bool Lia Permutation.
From GV Require Import Par.Merge.
Import ListNotations.

Section Heap.
  Context {A : Type}.
  Variable cmp : A -> A -> comparison.
  Variable P : A -> Prop.
  Hypothesis leb_total : forall a b, P a -> P b -> leb cmp a b = true \/ leb cmp b a = true.
  Hypothesis leb_trans : forall a b c, P a -> P b -> P c ->
      leb cmp a b = true -> leb cmp b c = true -> leb cmp a c = true.

  Notation leb := (leb cmp).
  Notation entry := (@entry A).
  Notation swap := (@swap A).
  Notation get := (@get A).
  Notation set := (@set A).

  Definition allP (h : list entry) : Prop := Forall (fun e => P (fst e)) h.

  Lemma leb_refl : forall a, P a -> leb a a = true.
  Proof. intros a Ha. destruct (leb_total a a Ha Ha); assumption. Qed.

  (** *** get / set / swap *)
  Lemma length_set : forall h i x, length (set h i x) = length h.
  Proof. induction h as [|y t IH]; intros [|i] x; cbn; auto. Qed.

  Lemma get_set_eq : forall h i x, i < length h -> get (set h i x) i = Some x.
  Proof.
    induction h as [|y t IH]; intros [|i] x Hi; cbn in *; try lia; auto.
    apply IH. lia.
  Qed.

  Lemma get_set_neq : forall h i j x, i <> j -> get (set h i x) j = get h j.
  Proof.
    induction h as [|y t IH]; intros [|i] [|j] x Hij; cbn; auto; try congruence.
    apply IH. congruence.
  Qed.

  Lemma get_lt : forall (h : list entry) i x, get h i = Some x -> i < length h.
  Proof. intros h i x H. apply nth_error_Some. unfold Merge.get in H. congruence. Qed.

  Lemma get_some : forall (h : list entry) i, i < length h -> exists x, get h i = Some x.
  Proof.
    intros h i Hi. unfold Merge.get. destruct (nth_error h i) eqn:E; eauto.
    apply nth_error_None in E. lia.
  Qed.

  Lemma get_none : forall (h : list entry) i, length h <= i -> get h i = None.
  Proof. intros. apply nth_error_None. assumption. Qed.

  Lemma length_swap : forall h i j, length (swap h i j) = length h.
  Proof.
    intros h i j. unfold Merge.swap. destruct (get h i); auto. destruct (get h j); auto.
    rewrite !length_set. reflexivity.
  Qed.

  Lemma get_swap : forall h i j k a b, get h i = Some a -> get h j = Some b ->
    get (swap h i j) k = if k =? j then Some a else if k =? i then Some b else get h k.
  Proof.
    intros h i j k a b Ha Hb. unfold Merge.swap. rewrite Ha, Hb.
    pose proof (get_lt _ _ _ Ha) as Hi. pose proof (get_lt _ _ _ Hb) as Hj.
    destruct (Nat.eqb_spec k j) as [->|Hkj].
    - apply get_set_eq. rewrite length_set. assumption.
    - rewrite get_set_neq by congruence.
      destruct (Nat.eqb_spec k i) as [->|Hki].
      + apply get_set_eq. assumption.
      + apply get_set_neq. congruence.
  Qed.

  Lemma set_perm : forall h i x a, get h i = Some a -> Permutation (x :: h) (a :: set h i x).
  Proof.
    induction h as [|y t IH]; intros [|i] x a H; cbn in *; try discriminate.
    - injection H as ->. apply perm_swap.
    - specialize (IH i x a H).
      eapply perm_trans; [apply perm_swap|]. eapply perm_trans; [|apply perm_swap].
      apply perm_skip. exact IH.
  Qed.

  Lemma swap_perm : forall h i j, Permutation (swap h i j) h.
  Proof.
    intros h i j. unfold Merge.swap.
    destruct (get h i) as [a|] eqn:Ha; [|reflexivity].
    destruct (get h j) as [b|] eqn:Hb; [|reflexivity].
    pose proof (set_perm h i b a Ha) as H1.
    assert (Hj : get (set h i b) j = Some b).
    { destruct (Nat.eq_dec i j) as [->|Hne].
      - apply get_set_eq. eapply get_lt; eauto.
      - rewrite get_set_neq by assumption. assumption. }
    pose proof (set_perm (set h i b) j a b Hj) as H2.
    apply Permutation_cons_inv with (a := b).
    eapply perm_trans; [|apply Permutation_sym; exact H1].
    eapply perm_trans; [apply Permutation_sym; exact H2|]. reflexivity.
  Qed.

  Lemma allP_perm : forall h h', Permutation h h' -> allP h -> allP h'.
  Proof. intros h h' Hp Ha. unfold allP in *. eapply Permutation_Forall; eauto. Qed.

  Lemma allP_get : forall h i x, allP h -> get h i = Some x -> P (fst x).
  Proof.
    intros h i x Ha Hg. unfold allP in Ha. rewrite Forall_forall in Ha.
    apply Ha. eapply nth_error_In. exact Hg.
  Qed.

  (** *** heap order *)
  Definition edge (c p : nat) : Prop := c = 2 * p + 1 \/ c = 2 * p + 2.

  Lemma parent_edge : forall pos, 0 < pos -> edge pos ((pos - 1) / 2).
  Proof.
    intros pos Hp. unfold edge.
    pose proof (Nat.div_mod (pos - 1) 2 ltac:(lia)) as H.
    pose proof (Nat.mod_upper_bound (pos - 1) 2 ltac:(lia)) as Hm.
    destruct ((pos - 1) mod 2) as [|[|m]] eqn:E; lia.
  Qed.

  Lemma edge_fun : forall c p p', edge c p -> edge c p' -> p = p'.
  Proof. unfold edge. intros. lia. Qed.

  Definition ok (h : list entry) (c p : nat) : Prop :=
    forall x y, get h c = Some x -> get h p = Some y -> leb (fst y) (fst x) = true.

  Definition hp_ok (h : list entry) : Prop := forall c p, edge c p -> ok h c p.

  Record up_inv (h : list entry) (pos : nat) : Prop := {
    ui1 : forall c p, edge c p -> c <> pos -> p <> pos -> ok h c p;
    ui2 : forall c, edge c pos -> ok h c pos;
    ui3 : forall c pp, edge c pos -> edge pos pp -> ok h c pp }.

  Record down_inv (h : list entry) (pos : nat) : Prop := {
    di1 : forall c p, edge c p -> c <> pos -> p <> pos -> ok h c p;
    di3 : forall c pp, edge c pos -> edge pos pp -> ok h c pp }.

  Lemma sift_up_len : forall fuel h pos, length (sift_up cmp fuel h pos) = length h.
  Proof.
    induction fuel as [|f IH]; intros h pos; cbn [sift_up]; auto.
    destruct (pos =? 0); auto. destruct (le_at cmp h pos ((pos - 1) / 2)); auto.
    rewrite IH. apply length_swap.
  Qed.

  Lemma sift_up_perm : forall fuel h pos, Permutation (sift_up cmp fuel h pos) h.
  Proof.
    induction fuel as [|f IH]; intros h pos; cbn [sift_up]; auto.
    destruct (pos =? 0); auto. destruct (le_at cmp h pos ((pos - 1) / 2)); auto.
    eapply perm_trans; [apply IH|apply swap_perm].
  Qed.

  Lemma sift_up_ok : forall fuel h pos,
    pos < fuel -> pos < length h -> allP h -> up_inv h pos -> hp_ok (sift_up cmp fuel h pos).
  Proof.
    induction fuel as [|f IH]; intros h pos Hf Hlen HP [U1 U2 U3]; [lia|].
    cbn [sift_up].
    destruct (Nat.eqb_spec pos 0) as [->|Hpos].
    - intros c p He. destruct (Nat.eq_dec p 0) as [->|Hp0].
      + apply U2. exact He.
      + apply U1; auto. unfold edge in He. lia.
    - assert (Hpe : edge pos ((pos - 1) / 2)) by (apply parent_edge; lia).
      set (parent := (pos - 1) / 2) in *.
      assert (Hpar : parent < pos) by (unfold edge in Hpe; lia).
      destruct (get_some h pos Hlen) as [x Hx].
      destruct (get_some h parent ltac:(lia)) as [y Hy].
      pose proof (allP_get _ _ _ HP Hx) as Px. pose proof (allP_get _ _ _ HP Hy) as Py.
      unfold le_at. rewrite Hx, Hy. unfold ent_le.
      destruct (leb (fst y) (fst x)) eqn:Hle.
      + (* stop *)
        intros c p He.
        destruct (Nat.eq_dec c pos) as [->|Hc].
        * assert (p = parent) by (eapply edge_fun; eauto). subst p.
          intros x' y' Hx' Hy'. rewrite Hx in Hx'. rewrite Hy in Hy'.
          injection Hx' as <-. injection Hy' as <-. exact Hle.
        * destruct (Nat.eq_dec p pos) as [->|Hp].
          -- apply U2. exact He.
          -- apply U1; auto.
      + (* swap and continue *)
        assert (Hxy : leb (fst x) (fst y) = true).
        { destruct (leb_total (fst x) (fst y) Px Py) as [H|H]; [exact H|congruence]. }
        apply IH.
        * lia.
        * rewrite length_swap. lia.
        * eapply allP_perm; [apply Permutation_sym, swap_perm|exact HP].
        * assert (G : forall k, get (swap h pos parent) k =
                      if k =? parent then Some x else if k =? pos then Some y else get h k)
            by (intro k; apply get_swap; assumption).
          constructor.
          -- (* E1 *)
             intros c p He Hc Hp x' y'. rewrite !G.
             destruct (Nat.eqb_spec c parent) as [->|_]; [congruence|].
             destruct (Nat.eqb_spec p parent) as [->|_]; [congruence|].
             destruct (Nat.eqb_spec c pos) as [->|Hcp].
             { exfalso. apply Hp. eapply edge_fun; eauto. }
             destruct (Nat.eqb_spec p pos) as [->|Hpp].
             { intros Hx' Hy'. injection Hy' as <-. eapply (U3 c parent); eauto. }
             apply U1; auto.
          -- (* E2 *)
             intros c He x' y'. rewrite !G. rewrite Nat.eqb_refl.
             destruct (Nat.eqb_spec c parent) as [->|_]; [unfold edge in He; lia|].
             destruct (Nat.eqb_spec c pos) as [->|Hcp].
             { intros Hx' Hy'. injection Hx' as <-. injection Hy' as <-. exact Hxy. }
             intros Hx' Hy'. injection Hy' as <-.
             assert (Pc : P (fst x')) by (eapply allP_get; eauto).
             eapply leb_trans with (b := fst y); auto.
             eapply (U1 c parent); eauto. lia.
          -- (* E3 *)
             intros c pp He1 He2 x' y'. rewrite !G.
             assert (Hpp : pp < parent) by (unfold edge in He2; lia).
             destruct (Nat.eqb_spec pp parent) as [->|_]; [lia|].
             destruct (Nat.eqb_spec pp pos) as [->|_]; [lia|].
             destruct (Nat.eqb_spec c parent) as [->|_]; [unfold edge in He1; lia|].
             destruct (Nat.eqb_spec c pos) as [->|Hcp].
             { intros Hx' Hy'. injection Hx' as <-. eapply (U1 parent pp); eauto; lia. }
             intros Hx' Hy'.
             assert (Pc : P (fst x')) by (eapply allP_get; eauto).
             assert (Ppp : P (fst y')) by (eapply allP_get; eauto).
             eapply leb_trans with (b := fst y); auto.
             ++ eapply (U1 parent pp); eauto; lia.
             ++ eapply (U1 c parent); eauto. lia.
  Qed.

  Lemma sift_down_len : forall fuel h pos, length (fst (sift_down cmp fuel h pos)) = length h.
  Proof.
    induction fuel as [|f IH]; intros h pos; cbn [sift_down]; auto.
    destruct (2 * pos + 1 <=? length h - 2).
    - rewrite IH. apply length_swap.
    - destruct (2 * pos + 1 =? length h - 1); cbn; auto. apply length_swap.
  Qed.

  Lemma sift_down_perm : forall fuel h pos, Permutation (fst (sift_down cmp fuel h pos)) h.
  Proof.
    induction fuel as [|f IH]; intros h pos; cbn [sift_down]; auto.
    destruct (2 * pos + 1 <=? length h - 2).
    - eapply perm_trans; [apply IH|apply swap_perm].
    - destruct (2 * pos + 1 =? length h - 1); cbn; auto. apply swap_perm.
  Qed.

  (** one step down: the hole element goes below the chosen child [c]; [sib] = the other child, if any *)
  Lemma down_step : forall h pos c,
    allP h -> down_inv h pos -> edge c pos -> c < length h ->
    (forall s, edge s pos -> s <> c -> ok h s c) ->
    down_inv (swap h pos c) c.
  Proof.
    intros h pos c HP [D1 D3] Hec Hc Hsib.
    assert (Hpc : pos < c) by (unfold edge in Hec; lia).
    destruct (get_some h pos ltac:(lia)) as [x Hx].
    destruct (get_some h c Hc) as [y Hy].
    assert (G : forall k, get (swap h pos c) k =
                if k =? c then Some x else if k =? pos then Some y else get h k)
      by (intro k; apply get_swap; assumption).
    constructor.
    - intros c' p He Hc' Hp x' y'. rewrite !G.
      destruct (Nat.eqb_spec c' c) as [->|_]; [congruence|].
      destruct (Nat.eqb_spec p c) as [->|_]; [congruence|].
      destruct (Nat.eqb_spec c' pos) as [->|Hc'p].
      + (* edge (pos, parent pos): the old child value against the grandparent *)
        destruct (Nat.eqb_spec p pos) as [->|_]; [unfold edge in He; lia|].
        intros Hx' Hy'. injection Hx' as <-. eapply (D3 c p); eauto.
      + destruct (Nat.eqb_spec p pos) as [->|Hpp].
        * (* sibling of c against the value that moved up *)
          intros Hx' Hy'. injection Hy' as <-. eapply (Hsib c'); eauto.
        * apply D1; auto.
    - intros d pp He1 He2 x' y'. rewrite !G.
      assert (pp = pos) by (eapply edge_fun; eauto). subst pp.
      assert (Hd : c < d) by (unfold edge in He1; lia).
      destruct (Nat.eqb_spec d c) as [->|_]; [lia|].
      destruct (Nat.eqb_spec d pos) as [->|_]; [lia|].
      destruct (Nat.eqb_spec pos c) as [->|_]; [lia|].
      rewrite Nat.eqb_refl.
      intros Hx' Hy'. injection Hy' as <-. eapply (D1 d c); eauto; lia.
  Qed.

  Lemma sift_down_inv : forall fuel h pos,
    length h - pos <= fuel -> pos < length h -> allP h -> down_inv h pos ->
    up_inv (fst (sift_down cmp fuel h pos)) (snd (sift_down cmp fuel h pos))
    /\ snd (sift_down cmp fuel h pos) < length h.
  Proof.
    induction fuel as [|f IH]; intros h pos Hf Hlen HP HD; [lia|].
    cbn [sift_down].
    destruct (Nat.leb_spec (2 * pos + 1) (length h - 2)) as [Hle|Hgt].
    - (* two children *)
      assert (H2 : 2 * pos + 2 < length h) by lia.
      destruct (get_some h (2 * pos + 1) ltac:(lia)) as [a Ha].
      destruct (get_some h (2 * pos + 1 + 1) ltac:(lia)) as [b Hb].
      pose proof (allP_get _ _ _ HP Ha) as Pa. pose proof (allP_get _ _ _ HP Hb) as Pb.
      unfold le_at. rewrite Ha, Hb. unfold ent_le.
      assert (Hstep : forall c, (c = 2 * pos + 1 \/ c = 2 * pos + 2) ->
                (forall s, edge s pos -> s <> c -> ok h s c) ->
                up_inv (fst (sift_down cmp f (swap h pos c) c)) (snd (sift_down cmp f (swap h pos c) c))
                /\ snd (sift_down cmp f (swap h pos c) c) < length h).
      { intros c Hc Hs.
        assert (Hdi : down_inv (swap h pos c) c).
        { apply down_step; auto; unfold edge; lia. }
        destruct (IH (swap h pos c) c) as [I1 I2].
        - rewrite length_swap. lia.
        - rewrite length_swap. lia.
        - eapply allP_perm; [apply Permutation_sym, swap_perm|exact HP].
        - exact Hdi.
        - split; [exact I1|]. rewrite length_swap in I2. exact I2. }
      destruct (leb (fst b) (fst a)) eqn:Hba.
      + (* get(child) <= get(child+1): child+1 chosen; sibling = child: need b <= a *)
        apply Hstep; [lia|].
        intros s Hes Hne x' y' Hx' Hy'.
        assert (s = 2 * pos + 1) by (unfold edge in Hes; lia). subst s.
        rewrite Ha in Hx'. rewrite Hb in Hy'. injection Hx' as <-. injection Hy' as <-. exact Hba.
      + apply Hstep; [lia|].
        intros s Hes Hne x' y' Hx' Hy'.
        assert (s = 2 * pos + 1 + 1) by (unfold edge in Hes; lia). subst s.
        rewrite Hb in Hx'. rewrite Ha in Hy'. injection Hx' as <-. injection Hy' as <-.
        destruct (leb_total (fst a) (fst b) Pa Pb) as [H|H]; [exact H|congruence].
    - destruct (Nat.eqb_spec (2 * pos + 1) (length h - 1)) as [Heq|Hne]; cbn [fst snd].
      + (* a single child, the last element *)
        assert (Hdi : down_inv (swap h pos (2 * pos + 1)) (2 * pos + 1)).
        { apply down_step; auto; [unfold edge; lia|lia|].
          intros s Hes Hn. intros x' y' Hx'. apply get_lt in Hx'. unfold edge in Hes. lia. }
        destruct Hdi as [D1 D3]. split; [|lia].
        constructor; auto.
        intros c He x' y' Hx'. apply get_lt in Hx'. rewrite length_swap in Hx'. unfold edge in He. lia.
      + (* leaf *)
        destruct HD as [D1 D3]. split; [|lia].
        constructor; auto.
        intros c He x' y' Hx'. apply get_lt in Hx'. unfold edge in He. lia.
  Qed.

  (** *** push / pop *)
  Lemma heap_push_perm : forall h x, Permutation (heap_push cmp h x) (x :: h).
  Proof.
    intros h x. unfold heap_push. eapply perm_trans; [apply sift_up_perm|].
    apply Permutation_sym, Permutation_cons_append.
  Qed.

  Lemma heap_push_ok : forall h x, allP h -> P (fst x) -> hp_ok h -> hp_ok (heap_push cmp h x).
  Proof.
    intros h x HP Px Hok. unfold heap_push. apply sift_up_ok.
    - lia.
    - rewrite app_length. cbn. lia.
    - unfold allP. apply Forall_app. split; [exact HP|]. constructor; auto.
    - assert (G : forall k, k < length h -> get (h ++ [x]) k = get h k)
        by (intros k Hk; unfold Merge.get; apply nth_error_app1; exact Hk).
      assert (N : forall k, length h < k -> get (h ++ [x]) k = None).
      { intros k Hk. apply get_none. rewrite app_length. cbn. lia. }
      constructor.
      + intros c p He Hc Hp x' y' Hx' Hy'.
        assert (c < length h).
        { apply get_lt in Hx'. rewrite app_length in Hx'. cbn in Hx'. lia. }
        assert (p < length h) by (unfold edge in He; lia).
        rewrite G in Hx', Hy' by assumption. eapply Hok; eauto.
      + intros c He x' y' Hx'. rewrite N in Hx'; [discriminate|unfold edge in He; lia].
      + intros c pp He _ x' y' Hx'. rewrite N in Hx'; [discriminate|unfold edge in He; lia].
  Qed.

  Lemma removelast_get : forall (t : list entry) i, i < length t - 1 -> get (removelast t) i = get t i.
  Proof.
    induction t as [|y t IH]; intros i Hi; cbn in *; [lia|].
    destruct t as [|z t']; [cbn in Hi; lia|].
    destruct i as [|i]; cbn; auto. apply IH. cbn in *. lia.
  Qed.

  Lemma removelast_len : forall (t : list entry), length (removelast t) = length t - 1.
  Proof.
    induction t as [|y t IH]; cbn; auto. destruct t as [|z t']; cbn in *; auto. rewrite IH. lia.
  Qed.

  Lemma removelast_last_perm : forall (t : list entry) d, t <> [] -> Permutation (last t d :: removelast t) t.
  Proof.
    intros t d Ht. rewrite (app_removelast_last d Ht) at 3.
    apply Permutation_cons_append.
  Qed.

  Definition pop_h1 (top : entry) (t : list entry) : list entry := last t top :: removelast t.

  Lemma heap_pop_cons2 : forall top z t',
    heap_pop cmp (top :: z :: t') =
    Some (top, sift_up cmp (S (length (pop_h1 top (z :: t'))))
                 (fst (sift_down cmp (length (pop_h1 top (z :: t'))) (pop_h1 top (z :: t')) 0))
                 (snd (sift_down cmp (length (pop_h1 top (z :: t'))) (pop_h1 top (z :: t')) 0))).
  Proof.
    intros. unfold heap_pop, pop_h1.
    destruct (sift_down cmp (length (last (z :: t') top :: removelast (z :: t'))) (last (z :: t') top :: removelast (z :: t')) 0).
    reflexivity.
  Qed.

  Lemma heap_pop_perm : forall h e h', heap_pop cmp h = Some (e, h') -> Permutation h (e :: h').
  Proof.
    intros h e h' H. destruct h as [|top t]; [discriminate|].
    destruct t as [|z t'].
    - cbn in H. injection H as <- <-. reflexivity.
    - rewrite heap_pop_cons2 in H.
      remember (pop_h1 top (z :: t')) as h1 eqn:Eh1.
      remember (sift_up cmp (S (length h1)) (fst (sift_down cmp (length h1) h1 0)) (snd (sift_down cmp (length h1) h1 0))) as r eqn:Er.
      assert (e = top) by congruence. assert (h' = r) by congruence. subst e h' r.
      apply perm_skip.
      eapply perm_trans; [|apply Permutation_sym, sift_up_perm].
      eapply perm_trans; [|apply Permutation_sym, sift_down_perm].
      subst h1. apply Permutation_sym, removelast_last_perm. discriminate.
  Qed.

  Lemma heap_pop_ok : forall h e h', allP h -> hp_ok h -> heap_pop cmp h = Some (e, h') -> hp_ok h'.
  Proof.
    intros h e h' HP Hok H. destruct h as [|top t]; [discriminate|].
    destruct t as [|z t'].
    - cbn in H. injection H as <- <-. intros c p He x y Hx. destruct c; discriminate.
    - rewrite heap_pop_cons2 in H.
      set (t := z :: t') in *.
      assert (Hperm1 : Permutation (pop_h1 top t) t) by (apply removelast_last_perm; discriminate).
      assert (Hl1 : length (pop_h1 top t) = length t).
      { unfold pop_h1. cbn [length]. rewrite removelast_len. unfold t. cbn. lia. }
      assert (Hdi : down_inv (pop_h1 top t) 0).
      { constructor.
        - intros c p He Hc Hp x y Hx Hy.
          assert (Hcl : c < length (pop_h1 top t)) by (eapply get_lt; eauto).
          assert (Hpl : p < c) by (unfold edge in He; lia).
          destruct c as [|c]; [lia|]. destruct p as [|p]; [lia|].
          unfold pop_h1 in Hx, Hy. cbn [Merge.get nth_error] in Hx, Hy.
          fold (get (removelast t) c) in Hx. fold (get (removelast t) p) in Hy.
          rewrite removelast_get in Hx by lia. rewrite removelast_get in Hy by lia.
          apply (Hok (S c) (S p) He); cbn; assumption.
        - intros c pp _ He. unfold edge in He. lia. }
      remember (pop_h1 top t) as h1 eqn:Eh1.
      assert (HP1 : allP h1).
      { eapply allP_perm; [apply Permutation_sym; exact Hperm1|]. inversion HP; assumption. }
      pose proof (sift_down_inv (length h1) h1 0 ltac:(lia) ltac:(rewrite Hl1; unfold t; cbn; lia) HP1 Hdi) as [Hu Hpos].
      pose proof (sift_down_len (length h1) h1 0) as Hlen2.
      pose proof (sift_down_perm (length h1) h1 0) as Hperm2.
      remember (sift_down cmp (length h1) h1 0) as sd eqn:Esd.
      remember (sift_up cmp (S (length h1)) (fst sd) (snd sd)) as r eqn:Er.
      assert (h' = r) by congruence. subst h' r.
      apply sift_up_ok.
      + lia.
      + rewrite Hlen2. exact Hpos.
      + eapply allP_perm; [apply Permutation_sym; exact Hperm2|exact HP1].
      + exact Hu.
  Qed.

  (** the root is a minimum *)
  Lemma hp_root_min : forall h, allP h -> hp_ok h ->
    forall i x t, get h i = Some x -> get h 0 = Some t -> leb (fst t) (fst x) = true.
  Proof.
    intros h HP Hok i. induction i as [i IH] using lt_wf_ind. intros x t Hx Ht.
    destruct i as [|i].
    - rewrite Hx in Ht. injection Ht as <-. apply leb_refl. eapply allP_get; eauto.
    - pose proof (parent_edge (S i) ltac:(lia)) as He.
      set (p := (S i - 1) / 2) in *.
      assert (Hp : p < S i) by (unfold edge in He; lia).
      destruct (get_some h p) as [y Hy]; [apply get_lt in Hx; lia|].
      eapply leb_trans with (b := fst y); try (eapply allP_get; eauto).
      + eapply IH; eauto.
      + eapply Hok; eauto.
  Qed.

  Lemma heap_pop_min : forall h e h', allP h -> hp_ok h -> heap_pop cmp h = Some (e, h') ->
    forall x, In x h -> leb (fst e) (fst x) = true.
  Proof.
    intros h e h' HP Hok H x Hin.
    assert (Ht : get h 0 = Some e).
    { destruct h as [|top t]; [discriminate|]. destruct t.
      - cbn in H. injection H as <- _. reflexivity.
      - rewrite heap_pop_cons2 in H. assert (e = top) by congruence. subst e. reflexivity. }
    apply In_nth_error in Hin. destruct Hin as [i Hi].
    eapply hp_root_min; eauto.
  Qed.

  Lemma heap_pop_none : forall h, heap_pop cmp h = None -> h = [].
  Proof.
    intros h H. destruct h as [|top t]; auto. destruct t; [discriminate|].
    rewrite heap_pop_cons2 in H. discriminate.
  Qed.

  Lemma hp_ok_nil : hp_ok [].
  Proof. intros c p He x y Hx. destruct c; discriminate. Qed.
End Heap.
