(** C17 — model of the push operators (operators/push/{filter,limit,distinct,sort,project}.rs) and of
    the push pipeline driver (execution/pipeline.rs, the same loop is in parallel/pipeline.rs).
    No proofs.

    A chunk is the list of its rows.  An operator's [push] returns the new state, the chunks it
    handed to its sink that the sink kept (CollectorSink / ChunkCollector drop empty chunks and
    always answer "continue") and its own continue flag; [finish] is [finalize].  Chunks are
    assumed flat (no selection vector) with at most 65535 rows — above that the [u16] indices of
    SelectionVector wrap (finding C17-K3, exercised by the harness, not modelled). *)
From Coq Require Import List Arith Bool.
From GV Require Import Par.Merge.
Import ListNotations.

Section Push.
  Context {R K : Type}.
  Variable keq : K -> K -> bool.

  Inductive opk :=
  | OFilter (p : R -> bool)
  | OLimit (n : nat)
  | ODistinct (key : R -> K)          (* key = the per-column 64-bit hashes of the row (RowKey) *)
  | OSort (cmp : R -> R -> comparison)
  | OProject (f : R -> R).

  (** universal operator state: rows passed (limit), keys seen (distinct), buffer (sort) *)
  Record opst := { s_passed : nat; s_seen : list K; s_buf : list R }.
  Definition st0 : opst := {| s_passed := 0; s_seen := []; s_buf := [] |}.

  Definition keep (c : list R) : list (list R) := match c with [] => [] | _ => [c] end.

  (** rows whose key has not been seen, inserting as we go ([seen.insert(key)]) *)
  Fixpoint fresh (key : R -> K) (seen : list K) (rows : list R) : list K * list R :=
    match rows with
    | [] => (seen, [])
    | r :: t => if existsb (keq (key r)) seen then fresh key seen t
                else let '(s', o) := fresh key (key r :: seen) t in (s', r :: o)
    end.

  Definition push (k : opk) (s : opst) (c : list R) : opst * list (list R) * bool :=
    match k with
    | OFilter p => (s, keep (filter p c), true)
    | OLimit n =>
        if n <=? s_passed s then (s, [], false)
        else let remaining := n - s_passed s in
             if length c <=? remaining
             then ({| s_passed := s_passed s + length c; s_seen := s_seen s; s_buf := s_buf s |},
                   keep c, s_passed s + length c <? n)
             else ({| s_passed := s_passed s + remaining; s_seen := s_seen s; s_buf := s_buf s |},
                   keep (firstn remaining c), false)
    | ODistinct key =>
        let '(seen', o) := fresh key (s_seen s) c in
        ({| s_passed := s_passed s; s_seen := seen'; s_buf := s_buf s |}, keep o, true)
    | OSort _ => ({| s_passed := s_passed s; s_seen := s_seen s; s_buf := s_buf s ++ c |}, [], true)
    | OProject f => (s, keep (map f c), true)
    end.

  (** *** input chunks that carry a selection vector (what the pull operators hand over through
      OperatorSource): [phys] = the physical rows, [sel] = the selected physical indices (ascending,
      in range).  Before c37ad07 ([push_sel_pre], finding C17-K9)
      FilterPushOperator and DistinctPushOperator built their output selection with
      [SelectionVector::from_predicate(chunk.len(), ..)], LimitPushOperator with
      [SelectionVector::new_all(remaining)]: the positions 0..len-1, where len is the number of
      SELECTED rows, are taken for PHYSICAL row indices and then intersected with the input
      selection by [DataChunk::filter].  Sort and project iterate [selected_indices()]. *)
  Definition sel_rows (phys : list R) (sel : list nat) : list R :=
    flat_map (fun i => match nth_error phys i with Some r => [r] | None => [] end) sel.
  Definition memb (i : nat) (l : list nat) : bool := existsb (Nat.eqb i) l.
  (** the rows at the physical positions i < n (ascending) with i selected and [q i row] *)
  Definition pick (phys : list R) (sel : list nat) (n : nat) (q : nat -> R -> bool) : list R :=
    flat_map (fun i => match nth_error phys i with
                       | Some r => if memb i sel && q i r then [r] else []
                       | None => []
                       end) (seq 0 n).
  (** DISTINCT walks the selected rows in order and collects the physical indices of the new keys *)
  Fixpoint fresh_idx (key : R -> K) (seen : list K) (phys : list R) (sel : list nat) : list K * list nat :=
    match sel with
    | [] => (seen, [])
    | i :: t =>
        match nth_error phys i with
        | None => fresh_idx key seen phys t
        | Some r => if existsb (keq (key r)) seen then fresh_idx key seen phys t
                    else let '(s', o) := fresh_idx key (key r :: seen) phys t in (s', i :: o)
        end
    end.

  Definition push_sel_pre (k : opk) (s : opst) (phys : list R) (sel : list nat) : opst * list (list R) * bool :=
    let n := length sel in
    match k with
    | OFilter p => (s, keep (pick phys sel n (fun _ r => p r)), true)
    | OLimit lim =>
        if lim <=? s_passed s then (s, [], false)
        else let remaining := lim - s_passed s in
             if n <=? remaining
             then ({| s_passed := s_passed s + n; s_seen := s_seen s; s_buf := s_buf s |},
                   keep (sel_rows phys sel), s_passed s + n <? lim)
             else ({| s_passed := s_passed s + remaining; s_seen := s_seen s; s_buf := s_buf s |},
                   keep (pick phys sel remaining (fun _ _ => true)), false)
    | ODistinct key =>
        let '(seen', idx) := fresh_idx key (s_seen s) phys sel in
        ({| s_passed := s_passed s; s_seen := seen'; s_buf := s_buf s |},
         keep (pick phys sel n (fun i _ => memb i idx)), true)
    | OSort _ => ({| s_passed := s_passed s; s_seen := s_seen s; s_buf := s_buf s ++ sel_rows phys sel |}, [], true)
    | OProject f => (s, keep (map f (sel_rows phys sel)), true)
    end.

  (** since c37ad07 the operators work on the selected rows: filter keeps the qualifying selected rows,
      DISTINCT builds its output selection over the physical rows, LIMIT slices the first selected rows *)
  Definition push_sel (k : opk) (s : opst) (phys : list R) (sel : list nat) : opst * list (list R) * bool :=
    push k s (sel_rows phys sel).

  (** finding class C17-K9 (before c37ad07): an input chunk whose selection is not the prefix 0..len-1 *)
  Definition sel_is_prefix (sel : list nat) : bool :=
    (fix go (i : nat) (l : list nat) : bool :=
       match l with [] => true | j :: t => (j =? i) && go (S i) t end) 0 sel.
  Definition k_sel_not_prefix (sels : list (list nat)) : bool := existsb (fun sel => negb (sel_is_prefix sel)) sels.

  (** SortPushOperator::finalize emits the sorted rows in chunks of DEFAULT_CHUNK_SIZE = 2048 rows
      (6cf03c8; one chunk with everything before) *)
  Definition finish (k : opk) (s : opst) : list (list R) :=
    match k with
    | OSort cmp => chunks_of 2048 (isort cmp (s_buf s))
    | _ => []
    end.

  (** the specification of each operator on the whole input *)
  Fixpoint dedup (key : R -> K) (seen : list K) (rows : list R) : list R :=
    match rows with
    | [] => []
    | r :: t => if existsb (keq (key r)) seen then dedup key seen t else r :: dedup key (key r :: seen) t
    end.
  Definition spec (k : opk) (rows : list R) : list R :=
    match k with
    | OFilter p => filter p rows
    | OLimit n => firstn n rows
    | ODistinct key => dedup key [] rows
    | OSort cmp => isort cmp rows
    | OProject f => map f rows
    end.

  (** the list specification of a chain: operator after operator on the whole input *)
  Definition chain_spec (ks : list opk) (rows : list R) : list R := fold_left (fun rs k => spec k rs) ks rows.

  (** operators that never stop and have nothing to finalize / operators without any state *)
  Definition streaming (k : opk) : bool :=
    match k with OFilter _ | ODistinct _ | OProject _ => true | _ => false end.
  Definition stateless_op (k : opk) : bool :=
    match k with OFilter _ | OProject _ => true | _ => false end.

  (** chains in which no operator before the last one is a LIMIT *)
  Definition is_limit (k : opk) : bool := match k with OLimit _ => true | _ => false end.
  Fixpoint no_inner_limit (ks : list opk) : bool :=
    match ks with
    | [] | [_] => true
    | k :: rest => negb (is_limit k) && no_inner_limit rest
    end.

  (** *** one operator driven by Pipeline::execute: push every chunk until a push answers false,
      then finalize *)
  Fixpoint drive (k : opk) (s : opst) (cs : list (list R)) : opst * list (list R) :=
    match cs with
    | [] => (s, [])
    | c :: r =>
        let '(s', out, cont) := push k s c in
        if cont then let '(s'', o2) := drive k s' r in (s'', out ++ o2) else (s', out)
    end.
  Definition run1 (k : opk) (cs : list (list R)) : list (list R) :=
    let '(s, out) := drive k st0 cs in out ++ finish k s.

  (** *** operator chains: Pipeline::push_through / finalize_all / push_through_from.
      The chain is the list of operator descriptions [ks] plus the list of their states [ss]
      (same length). *)
  Definition hd_st (ss : list opst) : opst := match ss with s :: _ => s | [] => st0 end.

  (** Pipeline::push_through / ParallelPipeline::push_through_chain since b341ff4: what an operator emitted
      together with its stop signal still travels down the chain; the stop is reported afterwards *)
  Fixpoint push_through (ks : list opk) (ss : list opst) (c : list R) : list opst * list (list R) * bool :=
    match ks with
    | [] => ([], keep c, true)
    | k :: krest =>
        let '(s', out, cont) := push k (hd_st ss) c in
        match krest with
        | [] => ([s'], out, cont)
        | _ :: _ =>
            match out with
            | [] => (s' :: tl ss, [], cont)                       (* "if collector.is_empty() { return Ok(keep_going) }" *)
            | _ :: _ => let '(ss', o, c') := push_through krest (tl ss) (concat out) in (s' :: ss', o, cont && c')
            end
        end
    end.

  Fixpoint push_all (ks : list opk) (ss : list opst) (cs : list (list R)) : list opst * list (list R) :=
    match cs with
    | [] => (ss, [])
    | c :: r => let '(ss', o, _) := push_through ks ss c in
                let '(ss'', o2) := push_all ks ss' r in (ss'', o ++ o2)
    end.

  Fixpoint finalize_all (ks : list opk) (ss : list opst) : list (list R) :=
    match ks with
    | [] => []
    | k :: krest =>
        match krest with
        | [] => finish k (hd_st ss)
        | _ :: _ => let '(ss', o) := push_all krest (tl ss) (finish k (hd_st ss)) in o ++ finalize_all krest ss'
        end
    end.

  Fixpoint drive_chain (ks : list opk) (ss : list opst) (cs : list (list R)) : list opst * list (list R) :=
    match cs with
    | [] => (ss, [])
    | c :: r =>
        let '(ss', out, cont) := push_through ks ss c in
        if cont then let '(ss'', o2) := drive_chain ks ss' r in (ss'', out ++ o2) else (ss', out)
    end.
  Definition init_chain (ks : list opk) : list opst := map (fun _ => st0) ks.
  Definition run_chain (ks : list opk) (cs : list (list R)) : list (list R) :=
    let '(ss, out) := drive_chain ks (init_chain ks) cs in out ++ finalize_all ks ss.

  (** *** LimitingSink (execution/sink.rs): keeps the first [lim] rows; the chunk that crosses the limit
      is truncated with [chunk.slice(0, rows_needed)] (e002bb7; kept whole before: finding C17-K10) *)
  Definition lsink_consume (lim collected : nat) (c : list R) : nat * list (list R) * bool :=
    if lim <=? collected then (collected, [], false)
    else let need := lim - collected in
         if length c <=? need then (collected + length c, keep c, collected + length c <? lim)
         else (collected + need, keep (firstn need c), false).
  (** every chunk is offered (the caller may ignore the answer); returns the kept chunks and the answers *)
  Fixpoint lsink_run (lim collected : nat) (cs : list (list R)) : list (list R) * list bool :=
    match cs with
    | [] => ([], [])
    | c :: r => let '(col', out, b) := lsink_consume lim collected c in
                let '(o2, b2) := lsink_run lim col' r in (out ++ o2, b :: b2)
    end.
  (** finding class C17-K10 (before e002bb7): a chunk crosses the limit *)
  Fixpoint k_lsink_overshoot (lim collected : nat) (cs : list (list R)) : bool :=
    match cs with
    | [] => false
    | c :: r => ((collected <? lim) && (lim - collected <? length c)) || k_lsink_overshoot lim (Nat.min lim (collected + length c)) r
    end.

  (** *** the chain driver before b341ff4 (finding C17-K5): whatever an operator emitted together with
      its stop signal was dropped *)
  Fixpoint push_through_pre (ks : list opk) (ss : list opst) (c : list R) : list opst * list (list R) * bool :=
    match ks with
    | [] => ([], keep c, true)
    | k :: krest =>
        let '(s', out, cont) := push k (hd_st ss) c in
        match krest with
        | [] => ([s'], out, cont)
        | _ :: _ =>
            (* "if !continue_processing || collector.is_empty() { return Ok(continue_processing) }":
               whatever the operator emitted together with its stop signal is dropped *)
            if negb cont || (match out with [] => true | _ => false end) then (s' :: tl ss, [], cont)
            else let '(ss', o, c') := push_through_pre krest (tl ss) (concat out) in (s' :: ss', o, c')
        end
    end.

  Fixpoint push_all_pre (ks : list opk) (ss : list opst) (cs : list (list R)) : list opst * list (list R) :=
    match cs with
    | [] => (ss, [])
    | c :: r => let '(ss', o, _) := push_through_pre ks ss c in
                let '(ss'', o2) := push_all_pre ks ss' r in (ss'', o ++ o2)
    end.
  Fixpoint finalize_all_pre (ks : list opk) (ss : list opst) : list (list R) :=
    match ks with
    | [] => []
    | k :: krest =>
        match krest with
        | [] => finish k (hd_st ss)
        | _ :: _ => let '(ss', o) := push_all_pre krest (tl ss) (finish k (hd_st ss)) in o ++ finalize_all_pre krest ss'
        end
    end.
  Fixpoint drive_chain_pre (ks : list opk) (ss : list opst) (cs : list (list R)) : list opst * list (list R) :=
    match cs with
    | [] => (ss, [])
    | c :: r =>
        let '(ss', out, cont) := push_through_pre ks ss c in
        if cont then let '(ss'', o2) := drive_chain_pre ks ss' r in (ss'', out ++ o2) else (ss', out)
    end.
  Definition run_chain_pre (ks : list opk) (cs : list (list R)) : list (list R) :=
    let '(ss, out) := drive_chain_pre ks (map (fun _ => st0) ks) cs in out ++ finalize_all_pre ks ss.

  (** *** Pipeline::compute_chunk_size and the VectorSource *)
  Definition DEFAULT_CHUNK_SIZE := 2048.
  Definition SMALL_CHUNK_SIZE := 512.
  Definition hint_size (size : nat) (k : opk) : nat :=
    match k with
    | OLimit n => if n <? 256 then Nat.min size n else if n <? 1000 then Nat.min size SMALL_CHUNK_SIZE else size
    | _ => size
    end.
  Definition compute_chunk_size (ks : list opk) : nat := fold_left hint_size ks DEFAULT_CHUNK_SIZE.

  Inductive presult := PDiverge | PRows (out : list (list R)).

  (** Pipeline::execute over a VectorSource: the chunk size is [compute_chunk_size().max(1)] (3d7a126) *)
  Definition pipeline_run (ks : list opk) (rows : list R) : presult :=
    PRows (run_chain ks (chunks_of (Nat.max 1 (compute_chunk_size ks)) rows)).

  (** before 3d7a126 / b341ff4: with chunk size 0 (a LIMIT 0 somewhere in the chain) the source yields
      empty chunks for ever; pushing an empty chunk changes no state, so the run ends iff that push
      answers false (finding C17-K7) *)
  Definition pipeline_run_pre (ks : list opk) (rows : list R) : presult :=
    let size := compute_chunk_size ks in
    if (size =? 0) && negb (match rows with [] => true | _ => false end) then
      let '(ss, out, cont) := push_through_pre ks (map (fun _ => st0) ks) [] in
      if cont then PDiverge else PRows (out ++ finalize_all_pre ks ss)
    else PRows (run_chain_pre ks (chunks_of size rows)).

  (** finding class C17-K5 (before b341ff4): an operator that is not the last one of the chain is a LIMIT that the
      input exhausts (its last output is dropped together with the stop signal) *)
  Fixpoint k_inner_limit_hit (ks : list opk) (nrows : nat) : bool :=
    match ks with
    | [] | [_] => false
    | OLimit n :: rest => ((0 <? n) && (n <=? nrows)) || k_inner_limit_hit rest (Nat.min n nrows)
    | _ :: rest => k_inner_limit_hit rest nrows
    end.
  (** finding class C17-K7 (before 3d7a126): chunk size hint 0 and the first operator is not the LIMIT 0 *)
  Definition k_zero_chunk_hang (ks : list opk) (nrows : nat) : bool :=
    (compute_chunk_size ks =? 0) && (0 <? nrows)
    && match ks with OLimit 0 :: _ => false | _ => true end.
End Push.
