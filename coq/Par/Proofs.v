(** C17 — the lemmas exactly as Props_C17 states them. *)
From Coq Require Import List Arith Bool Lia Permutation Sorted ZArith.
From GV Require Import Par.Rows Par.Merge Par.ProofsHeap Par.ProofsMerge.
Import ListNotations.

Definition total_on {A} (cmp : A -> A -> comparison) (P : A -> Prop) : Prop :=
  forall a b, P a -> P b -> leb cmp a b = true \/ leb cmp b a = true.
Definition trans_on {A} (cmp : A -> A -> comparison) (P : A -> Prop) : Prop :=
  forall a b c, P a -> P b -> P c -> leb cmp a b = true -> leb cmp b c = true -> leb cmp a c = true.

Lemma kway_merge_spec_l : forall (A : Type) (cmp : A -> A -> comparison) (P : A -> Prop),
  total_on cmp P -> trans_on cmp P ->
  forall runs, Forall P (concat runs) -> Forall (fun r => sortedb cmp r = true) runs ->
  StronglySorted (fun a b => leb cmp a b = true) (merge_sorted_runs_pre cmp runs)
  /\ Permutation (merge_sorted_runs_pre cmp runs) (concat runs).
Proof. intros A cmp P Ht Hr runs HP Hs. exact (merge_sorted_runs_spec cmp P Ht Hr runs HP Hs). Qed.

Lemma kway_merge_single_l : forall (A : Type) (cmp : A -> A -> comparison) (r : list A),
  merge_sorted_runs_pre cmp (r :: nil) = r /\ merge_sorted_runs_pre cmp nil = nil.
Proof. intros. split; reflexivity. Qed.

Lemma kway_merge_run_order_l : forall (A : Type) (cmp : A -> A -> comparison) (P : A -> Prop),
  total_on cmp P -> trans_on cmp P ->
  forall runs i, Forall P (concat runs) -> Forall (fun r => sortedb cmp r = true) runs ->
  map fst (filter (fun e => Nat.eqb (snd e) i) (kmerge_tagged cmp runs)) = nth i runs nil.
Proof.
  intros A cmp P Ht Hr runs i HP Hs.
  apply (kmerge_run_order cmp P Ht Hr runs i HP). apply (runs_sorted cmp P Hr); assumption.
Qed.

Lemma kway_merge_stable_l : forall (A : Type) (cmp : A -> A -> comparison) (P : A -> Prop),
  total_on cmp P -> trans_on cmp P ->
  forall runs, Forall P (concat runs) -> Forall (fun r => sortedb cmp r = true) runs ->
  k_cross_ties cmp runs = false ->
  merge_sorted_runs_pre cmp runs = isort cmp (concat runs).
Proof.
  intros A cmp P Ht Hr runs HP Hs Hk.
  apply (merge_sorted_runs_stable cmp P Ht Hr); auto. apply k_cross_ties_false. exact Hk.
Qed.

Definition zcmp1 (a b : Z * Z) : comparison := Z.compare (fst a) (fst b).
Definition k1_witness : list (list (Z * Z)) :=
  map (fun j => [(1%Z, j); (1%Z, (j + 10)%Z)]) [0%Z; 1%Z; 2%Z; 3%Z; 4%Z].

Lemma kway_merge_pre_refuted_l : exists runs : list (list (Z * Z)),
  Forall (fun r => sortedb zcmp1 r = true) runs /\
  sortedb zcmp1 (merge_sorted_runs_pre zcmp1 runs) = true /\
  merge_sorted_runs_pre zcmp1 runs <> isort zcmp1 (concat runs) /\
  merge_sorted_runs zcmp1 runs = isort zcmp1 (concat runs).
Proof.
  exists k1_witness. split; [|split; [|split]].
  - repeat constructor.
  - vm_compute. reflexivity.
  - vm_compute. discriminate.
  - vm_compute. reflexivity.
Qed.

Lemma zcmp1_total : total_on zcmp1 (fun _ => True).
Proof.
  intros a b _ _. unfold leb, zcmp1. destruct (Z.compare_spec (fst a) (fst b)); auto.
  right. destruct (Z.compare_spec (fst b) (fst a)); auto. lia.
Qed.
Lemma zcmp1_trans : trans_on zcmp1 (fun _ => True).
Proof.
  intros a b c _ _ _. unfold leb, zcmp1.
  destruct (Z.compare_spec (fst a) (fst b)); destruct (Z.compare_spec (fst b) (fst c));
    destruct (Z.compare_spec (fst a) (fst c)); auto; try discriminate; lia.
Qed.
