(** C17 — model of ParallelPipeline::execute (parallel/pipeline.rs) and of the morsel scheduler as
    seen by the result (parallel/scheduler.rs): every morsel of the global queue is taken by exactly
    one worker; a worker pushes the chunks of its morsels, in the order it took them, through its
    own fresh operator chain (ignoring the chain's continue flag), finalizes the chain and then
    appends its chunks to the shared result under a lock.  No proofs.

    A schedule lists, in the order in which the workers publish, the morsel indices each worker
    processed in processing order.  Which schedule happens is decided by the OS (runtime, not
    modelled); the theorems quantify over all of them. *)
From Coq Require Import List Arith Bool ZArith Permutation.
From GV Require Import Par.Merge Par.Morsel Par.Push.
Import ListNotations.

Definition schedule := list (list nat).

(** every morsel 0..nm-1 is processed exactly once *)
Definition valid_schedule (nm : nat) (sch : schedule) : Prop := Permutation (concat sch) (seq 0 nm).
Definition valid_scheduleb (nm : nat) (sch : schedule) : bool :=
  (length (concat sch) =? nm)%nat && forallb (fun i => existsb (Nat.eqb i) (concat sch)) (seq 0 nm).

Section Sched.
  Context {R K : Type}.
  Variable keq : K -> K -> bool.

  Definition dummy_morsel : morsel := {| m_id := 0; m_src := 0; m_start := 0; m_end := 0 |}.

  (** PartitionedVectorSource::next_chunk(chunk_size) over a morsel, chunk_size > 0 *)
  Definition morsel_chunks (chunk_size : nat) (rows : list R) (m : morsel) : list (list R) :=
    chunks_of chunk_size (slice rows m).

  (** worker_loop *)
  Definition worker_run (ks : list (@opk R K)) (chunk_size : nat) (rows : list R) (ms : list morsel)
             (mine : list nat) : list (list R) :=
    let cs := concat (map (fun i => morsel_chunks chunk_size rows (nth i ms dummy_morsel)) mine) in
    let '(ss, out) := push_all keq ks (init_chain ks) cs in
    out ++ finalize_all keq ks ss.

  (** ParallelPipeline::execute: the chunks of all workers in publication order *)
  Definition parallel_run (ks : list (@opk R K)) (chunk_size : nat) (rows : list R) (ms : list morsel)
             (sch : schedule) : list (list R) :=
    concat (map (worker_run ks chunk_size rows ms) sch).

  (** the single-threaded baseline: one worker takes all morsels in order *)
  Definition sequential_run (ks : list (@opk R K)) (chunk_size : nat) (rows : list R) (ms : list morsel)
    : list (list R) :=
    worker_run ks chunk_size rows ms (seq 0 (length ms)).
End Sched.
