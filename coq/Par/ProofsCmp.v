(** C17 — the row comparators of the code ([MergeEntry::compare_to] of merge.rs, [compare_rows] of
    push/sort.rs and spill/external_sort.rs) are total preorders on rows whose key columns exist and
    hold NULL or values of one kind per column: they are the lexicographic order of an integer key
    vector.  This discharges the [total]/[trans] premises of the merge and sort theorems for the
    comparators that are actually used. *)
From Coq Require Import List Arith Bool Lia ZArith.
From GV Require Import Par.Rows Par.Merge.
Import ListNotations.
Local Open Scope Z_scope.

Fixpoint lex (l1 l2 : list Z) : comparison :=
  match l1, l2 with
  | x :: t1, y :: t2 => match x ?= y with Eq => lex t1 t2 | c => c end
  | _, _ => Eq
  end.

Lemma lex_antisym : forall l1 l2, lex l2 l1 = CompOpp (lex l1 l2).
Proof.
  induction l1 as [|x t IH]; intros [|y t2]; cbn [lex CompOpp]; auto.
  rewrite (Z.compare_antisym x y). destruct (x ?= y); cbn [CompOpp]; auto.
Qed.

Lemma lex_le_trans : forall l1 l2 l3, length l1 = length l2 -> length l2 = length l3 ->
  lex l1 l2 <> Gt -> lex l2 l3 <> Gt -> lex l1 l3 <> Gt.
Proof.
  induction l1 as [|x t IH]; intros [|y t2] [|z t3] H1 H2; cbn [lex length] in *; try congruence; try discriminate.
  destruct (Z.compare_spec x y), (Z.compare_spec y z), (Z.compare_spec x z); try lia; try congruence;
    intros A B; try congruence.
  apply (IH t2 t3); auto.
Qed.

Lemma lex_app : forall l1 l2 r1 r2, length l1 = length l2 ->
  lex (l1 ++ r1) (l2 ++ r2) = match lex l1 l2 with Eq => lex r1 r2 | c => c end.
Proof.
  induction l1 as [|x t IH]; intros [|y t2] r1 r2 H; cbn [lex app length] in *; try discriminate; auto.
  destruct (x ?= y); auto.
Qed.

Definition b2z (b : bool) : Z := if b then 1 else 0.
Definition vk (nf : bool) (v : val) : Z * Z :=
  match v with
  | VNull => ((if nf then 0 else 2), 0)
  | VBool b => (1, b2z b)
  | VInt z | VFlt z | VStr z => (1, z)
  end.
Definition dk (asc : bool) (p : Z * Z) : list Z := if asc then [fst p; snd p] else [- fst p; - snd p].
Definition okey (nf : bool) (o : option val) : Z * Z := match o with Some v => vk nf v | None => vk nf VNull end.
Fixpoint rowkey (keys : list skey) (r : row) : list Z :=
  match keys with
  | [] => []
  | k :: ks => dk (k_asc k) (okey (k_nf k) (nth_error r (k_col k))) ++ rowkey ks r
  end.

Lemma rowkey_length : forall keys a b, length (rowkey keys a) = length (rowkey keys b).
Proof.
  induction keys as [|k ks IH]; intros a b; cbn [rowkey]; auto.
  rewrite !app_length, (IH a b). unfold dk. destruct (k_asc k); reflexivity.
Qed.

Definition compat (x y : val) : Prop := kind x = 0%nat \/ kind y = 0%nat \/ kind x = kind y.

Lemma cmp_for_sort_vk : forall x y nf, compat x y ->
  cmp_for_sort (Some x) (Some y) nf = lex [fst (vk nf x); snd (vk nf x)] [fst (vk nf y); snd (vk nf y)].
Proof.
  intros x y nf H.
  destruct x as [|bx|zx|zx|zx], y as [|by_|zy|zy|zy], nf; cbn in *;
    try reflexivity; try (exfalso; destruct H as [H|[H|H]]; discriminate);
    try (destruct bx, by_; reflexivity); try (destruct (zx ?= zy); reflexivity).
Qed.

Lemma compare_opp' : forall x y, (- x ?= - y) = CompOpp (x ?= y).
Proof. intros. rewrite Z.compare_opp. apply Z.compare_antisym. Qed.

Lemma dir_dk : forall asc p q, dir asc (lex [fst p; snd p] [fst q; snd q]) = lex (dk asc p) (dk asc q).
Proof.
  intros asc [p1 p2] [q1 q2]. destruct asc; cbn [dir dk fst snd lex]; [reflexivity|].
  rewrite !compare_opp'. destruct (p1 ?= q1), (p2 ?= q2); reflexivity.
Qed.

Lemma typed_val_compat : forall kd x y, typed_val kd x = true -> typed_val kd y = true -> compat x y.
Proof.
  intros kd x y Hx Hy. unfold typed_val, compat in *.
  apply orb_true_iff in Hx. apply orb_true_iff in Hy.
  destruct Hx as [Hx|Hx]; [left; apply Nat.eqb_eq; exact Hx|].
  destruct Hy as [Hy|Hy]; [right; left; apply Nat.eqb_eq; exact Hy|].
  right. right. apply Nat.eqb_eq in Hx. apply Nat.eqb_eq in Hy. congruence.
Qed.

Lemma typed_row_cons : forall k ks kinds r, typed_row (k :: ks) kinds r = true ->
  (exists v, nth_error r (k_col k) = Some v /\ typed_val (nth (k_col k) kinds 0%nat) v = true)
  /\ typed_row ks kinds r = true.
Proof.
  intros k ks kinds r H. unfold typed_row in *. cbn [forallb] in H. apply andb_true_iff in H.
  destruct H as [H1 H2]. split; [|exact H2].
  destruct (nth_error r (k_col k)) as [v|]; [|discriminate]. exists v. auto.
Qed.

(** the comparator of merge.rs is the lexicographic order of the key vectors *)
Lemma cmp_rows_m_lex : forall keys kinds a b, typed_row keys kinds a = true -> typed_row keys kinds b = true ->
  cmp_rows_m keys a b = lex (rowkey keys a) (rowkey keys b).
Proof.
  induction keys as [|k ks IH]; intros kinds a b Ha Hb; [reflexivity|].
  apply typed_row_cons in Ha. apply typed_row_cons in Hb.
  destruct Ha as [[x [Ex Tx]] Ha]. destruct Hb as [[y [Ey Ty]] Hb].
  cbn [cmp_rows_m rowkey]. rewrite Ex, Ey. cbn [okey].
  rewrite (cmp_for_sort_vk x y (k_nf k) (typed_val_compat _ x y Tx Ty)).
  rewrite dir_dk. rewrite lex_app by (unfold dk; destruct (k_asc k); reflexivity).
  rewrite (IH kinds a b Ha Hb). reflexivity.
Qed.

(** the comparator of push/sort.rs and spill/external_sort.rs agrees with it when the key columns exist *)
Lemma cmp_rows_s_m : forall keys kinds a b, typed_row keys kinds a = true -> typed_row keys kinds b = true ->
  cmp_rows_s keys a b = cmp_rows_m keys a b.
Proof.
  induction keys as [|k ks IH]; intros kinds a b Ha Hb; [reflexivity|].
  apply typed_row_cons in Ha. apply typed_row_cons in Hb.
  destruct Ha as [[x [Ex Tx]] Ha]. destruct Hb as [[y [Ey Ty]] Hb].
  cbn [cmp_rows_m cmp_rows_s]. rewrite Ex, Ey. rewrite (IH kinds a b Ha Hb).
  assert (E : cmp_key_s (Some x) (Some y) (k_nf k) = cmp_for_sort (Some x) (Some y) (k_nf k))
    by (destruct x, y, (k_nf k); reflexivity).
  rewrite E. reflexivity.
Qed.

Lemma leb_lex_total : forall l1 l2,
  (match lex l1 l2 with Gt => false | _ => true end) = true \/ (match lex l2 l1 with Gt => false | _ => true end) = true.
Proof. intros l1 l2. rewrite (lex_antisym l1 l2). destruct (lex l1 l2); cbn; auto. Qed.

Theorem cmp_rows_m_total_l : forall keys kinds a b, typed_row keys kinds a = true -> typed_row keys kinds b = true ->
  leb (cmp_rows_m keys) a b = true \/ leb (cmp_rows_m keys) b a = true.
Proof.
  intros keys kinds a b Ha Hb. unfold leb.
  rewrite (cmp_rows_m_lex keys kinds a b Ha Hb), (cmp_rows_m_lex keys kinds b a Hb Ha). apply leb_lex_total.
Qed.

Theorem cmp_rows_m_trans_l : forall keys kinds a b c,
  typed_row keys kinds a = true -> typed_row keys kinds b = true -> typed_row keys kinds c = true ->
  leb (cmp_rows_m keys) a b = true -> leb (cmp_rows_m keys) b c = true -> leb (cmp_rows_m keys) a c = true.
Proof.
  intros keys kinds a b c Ha Hb Hc. unfold leb.
  rewrite (cmp_rows_m_lex keys kinds a b Ha Hb), (cmp_rows_m_lex keys kinds b c Hb Hc), (cmp_rows_m_lex keys kinds a c Ha Hc).
  intros H1 H2.
  pose proof (lex_le_trans (rowkey keys a) (rowkey keys b) (rowkey keys c) (rowkey_length keys a b) (rowkey_length keys b c)) as T.
  destruct (lex (rowkey keys a) (rowkey keys c)); auto.
  exfalso. apply T; [destruct (lex (rowkey keys a) (rowkey keys b))|destruct (lex (rowkey keys b) (rowkey keys c))|]; congruence.
Qed.

Theorem cmp_rows_s_total_l : forall keys kinds a b, typed_row keys kinds a = true -> typed_row keys kinds b = true ->
  leb (cmp_rows_s keys) a b = true \/ leb (cmp_rows_s keys) b a = true.
Proof.
  intros keys kinds a b Ha Hb. unfold leb.
  rewrite (cmp_rows_s_m keys kinds a b Ha Hb), (cmp_rows_s_m keys kinds b a Hb Ha).
  apply (cmp_rows_m_total_l keys kinds a b Ha Hb).
Qed.

Theorem cmp_rows_s_trans_l : forall keys kinds a b c,
  typed_row keys kinds a = true -> typed_row keys kinds b = true -> typed_row keys kinds c = true ->
  leb (cmp_rows_s keys) a b = true -> leb (cmp_rows_s keys) b c = true -> leb (cmp_rows_s keys) a c = true.
Proof.
  intros keys kinds a b c Ha Hb Hc. unfold leb.
  rewrite (cmp_rows_s_m keys kinds a b Ha Hb), (cmp_rows_s_m keys kinds b c Hb Hc), (cmp_rows_s_m keys kinds a c Ha Hc).
  apply (cmp_rows_m_trans_l keys kinds a b c Ha Hb Hc).
Qed.

Theorem cmp_rows_m_antisym_l : forall keys kinds a b, typed_row keys kinds a = true -> typed_row keys kinds b = true ->
  cmp_rows_m keys b a = CompOpp (cmp_rows_m keys a b).
Proof.
  intros keys kinds a b Ha Hb.
  rewrite (cmp_rows_m_lex keys kinds a b Ha Hb), (cmp_rows_m_lex keys kinds b a Hb Ha). apply lex_antisym.
Qed.
Theorem cmp_rows_s_antisym_l : forall keys kinds a b, typed_row keys kinds a = true -> typed_row keys kinds b = true ->
  cmp_rows_s keys b a = CompOpp (cmp_rows_s keys a b).
Proof.
  intros keys kinds a b Ha Hb.
  rewrite (cmp_rows_s_m keys kinds a b Ha Hb), (cmp_rows_s_m keys kinds b a Hb Ha).
  apply (cmp_rows_m_antisym_l keys kinds a b Ha Hb).
Qed.

(** across kinds the comparators answer Equal and are NOT transitive: Int 2 ~ Str 0 ~ Int 1 but Int 2 > Int 1 *)
Lemma cmp_mixed_not_transitive_l :
  let keys := [{| k_col := 0; k_asc := true; k_nf := false |}] in
  let a := [VInt 2] in let b := [VStr 0] in let c := [VInt 1] in
  leb (cmp_rows_m keys) a b = true /\ leb (cmp_rows_m keys) b c = true /\ leb (cmp_rows_m keys) a c = false.
Proof. cbn. auto. Qed.
