(** C17 — GROUP BY: grouping the rows of every hash partition separately (what the spilling
    aggregate does with its PartitionedState) gives, as a bag, the groups of the in-memory GROUP BY. *)
From Coq Require Import List Arith Bool Lia Permutation ZArith.
From GV Require Import Par.Rows Par.Accum Par.ProofsExt.
Import ListNotations.
Local Open Scope nat_scope.

Section AggProofs.
  Context {K : Type}.
  Variable keq : K -> K -> bool.
  Variable aggs : list aggexpr.
  Variable pf : K -> nat.                       (* partition_for *)
  Hypothesis keq_pf : forall a b, keq a b = true -> pf a = pf b.

  Notation gstate := (@gstate K).
  Notation gadd := (gadd keq aggs).
  Notation group_fold := (group_fold keq aggs).

  Definition inp (p : nat) (g : K * row * list acc) : bool := pf (fst (fst g)) =? p.
  Definition inr (p : nat) (x : K * row * row) : bool := pf (fst (fst x)) =? p.

  Lemma inp_eq : forall p k kv (a : list acc), inp p (k, kv, a) = (pf k =? p).
  Proof. reflexivity. Qed.
  Lemma inr_eq : forall p k kv (r : row), inr p (k, kv, r) = (pf k =? p).
  Proof. reflexivity. Qed.

  Lemma filter_gadd : forall p (gs : gstate) k kv r,
    filter (inp p) (gadd gs k kv r) = if pf k =? p then gadd (filter (inp p) gs) k kv r else filter (inp p) gs.
  Proof.
    intros p. induction gs as [|[[k' kv'] accs] t IH]; intros k kv r.
    - cbn [Accum.gadd filter]. rewrite inp_eq. destruct (pf k =? p); reflexivity.
    - cbn [Accum.gadd]. destruct (keq k' k) eqn:E.
      + pose proof (keq_pf k' k E) as Hp. cbn [filter]. rewrite !inp_eq, Hp.
        destruct (pf k =? p); [|reflexivity]. cbn [Accum.gadd]. rewrite E. reflexivity.
      + cbn [filter]. rewrite IH, !inp_eq.
        destruct (pf k' =? p), (pf k =? p); try reflexivity. cbn [Accum.gadd]. rewrite E. reflexivity.
  Qed.

  Lemma filter_group_fold : forall p rows (gs : gstate),
    filter (inp p) (group_fold rows gs) = group_fold (filter (inr p) rows) (filter (inp p) gs).
  Proof.
    intros p. induction rows as [|[[k kv] r] t IH]; intro gs; [reflexivity|].
    unfold Accum.group_fold in *. cbn [fold_left filter fst snd]. rewrite IH, filter_gadd, inr_eq.
    destruct (pf k =? p); reflexivity.
  Qed.

  Theorem group_by_partitioned_l : forall n, (forall k, pf k < n) -> forall rows,
    Permutation (concat (map (fun p => group_by keq aggs (filter (inr p) rows)) (seq 0 n)))
                (group_by keq aggs rows).
  Proof.
    intros n Hn rows.
    assert (E : forall p, group_by keq aggs (filter (inr p) rows) = group_rows aggs (filter (inp p) (group_fold rows []))).
    { intro p. unfold group_by. rewrite filter_group_fold. reflexivity. }
    rewrite (map_ext _ _ E). unfold group_by. set (G := group_fold rows []). unfold group_rows.
    rewrite <- (map_map (fun p => filter (inp p) G) (map (fun g : K * row * list acc => snd (fst g) ++ concat (zipw agg_fin aggs (snd g))))).
    rewrite <- concat_map. apply Permutation_map.
    apply (bucket_perm n (fun g : K * row * list acc => pf (fst (fst g))) G). intros x _. apply Hn.
  Qed.
End AggProofs.

(** chunking is irrelevant: the operator folds row by row *)
Lemma group_fold_app : forall {K} (keq : K -> K -> bool) aggs a b gs,
  group_fold keq aggs (a ++ b) gs = group_fold keq aggs b (group_fold keq aggs a gs).
Proof. intros. unfold group_fold. apply fold_left_app. Qed.
