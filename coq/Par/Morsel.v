(** C17 — model of crates/grafeo-core/src/execution/parallel/morsel.rs.  No proofs.
    [usize] arithmetic is the debug profile's: an overflowing [+] panics ([None]). *)
From Coq Require Import List ZArith Bool.
Import ListNotations.
Open Scope Z_scope.

Record morsel := { m_id : Z; m_src : Z; m_start : Z; m_end : Z }.

Definition U64 : Z := 2 ^ 64.

Definition DEFAULT_MORSEL_SIZE := 65536.
Definition MIN_MORSEL_SIZE := 1024.
Definition MODERATE_PRESSURE_MORSEL_SIZE := 32768.
Definition HIGH_PRESSURE_MORSEL_SIZE := 16384.
Definition CRITICAL_PRESSURE_MORSEL_SIZE := MIN_MORSEL_SIZE.

Inductive pressure := PNormal | PModerate | PHigh | PCritical.

Definition compute_morsel_size (p : pressure) : Z :=
  match p with
  | PNormal => DEFAULT_MORSEL_SIZE
  | PModerate => MODERATE_PRESSURE_MORSEL_SIZE
  | PHigh => HIGH_PRESSURE_MORSEL_SIZE
  | PCritical => CRITICAL_PRESSURE_MORSEL_SIZE
  end.

(** compute_morsel_size_with_base for base < 2^52 (the f64 products are then exact or, for Critical,
    within one unit below 1024, which the final [max] absorbs) *)
Definition compute_morsel_size_with_base (base : Z) (p : pressure) : Z :=
  Z.max MIN_MORSEL_SIZE
        match p with
        | PNormal => base
        | PModerate => base / 2
        | PHigh => base / 4
        | PCritical => MIN_MORSEL_SIZE
        end.

(** ParallelPipelineConfig::effective_morsel_size: the configured [morsel_size] field is ignored *)
Definition effective_morsel_size (configured : Z) (p : pressure) : Z := compute_morsel_size p.

(** generate_morsels(total_rows, morsel_size, source_id): [(0..total).step_by(size)], each morsel
    [start, min(start+size, total)); [None] = panic of [total_rows + morsel_size - 1] *)
Definition generate_morsels (total size src : Z) : option (list morsel) :=
  if (total =? 0) || (size =? 0) then Some []
  else if U64 <=? total + size then None
  else Some (map (fun k => let start := Z.of_nat k * size in
                           {| m_id := Z.of_nat k; m_src := src; m_start := start;
                              m_end := Z.min (start + size) total |})
                 (seq 0 (Z.to_nat ((total + size - 1) / size)))).

Definition row_count (m : morsel) : Z := Z.max 0 (m_end m - m_start m).

(** the rows of a morsel (PartitionedVectorSource: [columns[start..end]]) *)
Definition slice {A} (xs : list A) (m : morsel) : list A :=
  firstn (Z.to_nat (m_end m - m_start m)) (skipn (Z.to_nat (m_start m)) xs).

(** contiguous, non-empty pieces of at most [size] rows leading from [lo] to [hi] *)
Fixpoint chain (size : Z) (ms : list morsel) (lo hi : Z) : Prop :=
  match ms with
  | [] => lo = hi
  | m :: r => m_start m = lo /\ lo < m_end m /\ m_end m - lo <= size /\ chain size r (m_end m) hi
  end.

Definition morsel_eqb (a b : morsel) : bool :=
  (m_id a =? m_id b) && (m_src a =? m_src b) && (m_start a =? m_start b) && (m_end a =? m_end b).
