(** C17 — generate_morsels covers [0, total) exactly once with contiguous non-empty pieces of at
    most [size] rows. *)
From Coq Require Import List ZArith Bool Lia Arith.
From GV Require Import Par.Morsel.
Import ListNotations.
Open Scope Z_scope.

Definition mk_morsel (size total src : Z) (k : nat) : morsel :=
  let start := Z.of_nat k * size in
  {| m_id := Z.of_nat k; m_src := src; m_start := start; m_end := Z.min (start + size) total |}.

Lemma chain_seq : forall size total src, 0 < size ->
  forall c k0, (forall k, (k0 <= k <= k0 + c)%nat -> Z.of_nat k * size < total) ->
  chain size (map (mk_morsel size total src) (seq k0 (S c))) (Z.of_nat k0 * size)
        (Z.min (Z.of_nat (k0 + S c) * size) total).
Proof.
  intros size total src Hs. induction c as [|c IH]; intros k0 H.
  - cbn [seq map chain mk_morsel m_start m_end].
    pose proof (H k0 ltac:(lia)). repeat split; try lia.
    all: try (replace (Z.of_nat (k0 + 1)) with (Z.of_nat k0 + 1) by lia; lia).
  - change (seq k0 (S (S c))) with (k0 :: seq (S k0) (S c)). rewrite map_cons.
    remember (map (mk_morsel size total src) (seq (S k0) (S c))) as rest.
    cbn [chain mk_morsel m_start m_end].
    pose proof (H k0 ltac:(lia)) as H0. pose proof (H (S k0) ltac:(lia)) as H1.
    repeat split; try lia. subst rest.
    assert (E : Z.min (Z.of_nat k0 * size + size) total = Z.of_nat (S k0) * size) by lia.
    rewrite E. specialize (IH (S k0)).
    replace (k0 + S (S c))%nat with (S k0 + S c)%nat by lia.
    apply IH. intros k Hk. apply H. lia.
Qed.

Lemma generate_morsels_some : forall total size src, 0 < total -> 0 < size -> total + size < U64 ->
  generate_morsels total size src =
  Some (map (mk_morsel size total src) (seq 0 (Z.to_nat ((total + size - 1) / size)))).
Proof.
  intros total size src Ht Hs Ho. unfold generate_morsels.
  destruct (Z.eqb_spec total 0); [lia|]. destruct (Z.eqb_spec size 0); [lia|]. cbn [orb].
  destruct (Z.leb_spec U64 (total + size)); [lia|]. reflexivity.
Qed.

Theorem morsels_partition_l : forall total size src, 0 < total -> 0 < size -> total + size < 2 ^ 64 ->
  exists ms, generate_morsels total size src = Some ms
    /\ chain size ms 0 total
    /\ ms <> nil
    /\ map m_id ms = map Z.of_nat (seq 0 (length ms))
    /\ Forall (fun m => m_src m = src) ms.
Proof.
  intros total size src Ht Hs Ho.
  rewrite generate_morsels_some by (auto; unfold U64; lia).
  set (cnt := (total + size - 1) / size).
  assert (Hc : 1 <= cnt /\ (cnt - 1) * size < total /\ total <= cnt * size).
  { unfold cnt. pose proof (Z.div_mod (total + size - 1) size ltac:(lia)) as D.
    pose proof (Z.mod_pos_bound (total + size - 1) size ltac:(lia)) as M. nia. }
  destruct Hc as [C1 [C2 C3]].
  eexists. split; [reflexivity|].
  destruct (Z.to_nat cnt) as [|c] eqn:E; [lia|].
  split; [|split; [|split]].
  - pose proof (chain_seq size total src Hs c 0%nat) as H. cbn [Z.of_nat Z.mul] in H.
    replace (Z.min (Z.of_nat (0 + S c) * size) total) with total in H.
    + apply H. intros k Hk. assert (Z.of_nat k <= cnt - 1) by lia. nia.
    + assert (Z.of_nat (0 + S c) = cnt) by lia. lia.
  - cbn. discriminate.
  - rewrite map_length, seq_length. rewrite map_map. reflexivity.
  - apply Forall_forall. intros m Hm. apply in_map_iff in Hm. destruct Hm as [k [<- _]]. reflexivity.
Qed.

Theorem morsels_degenerate_l : forall total size src,
  generate_morsels 0 size src = Some nil /\ generate_morsels total 0 src = Some nil
  /\ (0 < total -> 0 < size -> 2 ^ 64 <= total + size -> generate_morsels total size src = None).
Proof.
  intros total size src. split; [|split].
  - reflexivity.
  - unfold generate_morsels. rewrite Z.eqb_refl, orb_true_r. reflexivity.
  - intros Ht Hs Ho. unfold generate_morsels.
    destruct (Z.eqb_spec total 0); [lia|]. destruct (Z.eqb_spec size 0); [lia|]. cbn [orb].
    destruct (Z.leb_spec U64 (total + size)); [reflexivity|unfold U64 in *; lia].
Qed.

Lemma firstn_add : forall {A} a b (ys : list A), firstn (a + b) ys = firstn a ys ++ firstn b (skipn a ys).
Proof.
  intros A. induction a as [|a IH]; intros b ys; cbn; [reflexivity|].
  destruct ys as [|y ys]; cbn; [rewrite firstn_nil; reflexivity|]. f_equal. apply IH.
Qed.
Lemma skipn_add : forall {A} a b (xs : list A), skipn (a + b) xs = skipn a (skipn b xs).
Proof.
  intros A a b. revert a. induction b as [|b IH]; intros a xs.
  - rewrite Nat.add_0_r. reflexivity.
  - rewrite Nat.add_succ_r. destruct xs as [|x xs]; cbn; [rewrite skipn_nil; reflexivity|]. apply IH.
Qed.

(** the morsels' row ranges, concatenated, are the rows *)
Lemma chain_slices : forall {A} (xs : list A) size ms lo hi,
  chain size ms lo hi -> 0 <= lo -> hi <= Z.of_nat (length xs) ->
  concat (map (slice xs) ms) = firstn (Z.to_nat (hi - lo)) (skipn (Z.to_nat lo) xs).
Proof.
  intros A xs size. induction ms as [|m r IH]; intros lo hi H Hlo Hhi; cbn [chain] in H.
  - subst. rewrite Z.sub_diag. reflexivity.
  - destruct H as [E1 [E2 [E3 H]]]. cbn [map concat].
    assert (Hle : m_end m <= hi).
    { clear -H. revert H. generalize (m_end m). induction r as [|m' r IH]; intros e H; cbn [chain] in H; [lia|].
      destruct H as [? [? [? H]]]. specialize (IH _ H). lia. }
    rewrite (IH (m_end m) hi H ltac:(lia) Hhi).
    unfold slice. rewrite E1.
    replace (Z.to_nat (hi - lo)) with (Z.to_nat (m_end m - lo) + Z.to_nat (hi - m_end m))%nat by lia.
    replace (Z.to_nat (m_end m)) with (Z.to_nat (m_end m - lo) + Z.to_nat lo)%nat by lia.
    rewrite skipn_add, firstn_add. reflexivity.
Qed.

Theorem morsels_cover_rows_l : forall {A} (xs : list A) size src,
  0 < size -> Z.of_nat (length xs) + size < 2 ^ 64 ->
  exists ms, generate_morsels (Z.of_nat (length xs)) size src = Some ms /\ concat (map (slice xs) ms) = xs.
Proof.
  intros A xs size src Hs Ho. destruct xs as [|x xs'] eqn:Ex.
  - exists nil. split; reflexivity.
  - rewrite <- Ex in *. assert (Hl : 0 < Z.of_nat (length xs)) by (subst xs; cbn; lia).
    destruct (morsels_partition_l (Z.of_nat (length xs)) size src Hl Hs Ho) as [ms [E [Hc _]]].
    exists ms. split; [exact E|].
    rewrite (chain_slices xs size ms 0 (Z.of_nat (length xs)) Hc ltac:(lia) ltac:(lia)).
    rewrite Z.sub_0_r, Nat2Z.id. cbn [Z.to_nat skipn]. apply firstn_all.
Qed.
