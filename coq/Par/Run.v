(** C17 — comparison of implementation observations with the model (run by the check), finding-class
    predicates, and the concrete instantiation of the generic models (rows = lists of values that
    carry the 64-bit hashes the code computes for DISTINCT). *)
From Coq Require Import List ZArith Bool Arith.
From GV Require Export Par.Rows Par.Merge Par.Morsel Par.Accum Par.Push Par.ExtSort Par.Sched.
Import ListNotations.
Open Scope Z_scope.

Definition zlist_eqb : list Z -> list Z -> bool := list_eqb Z.eqb.
Definition opt_eqb {A} (e : A -> A -> bool) (a b : option A) : bool :=
  match a, b with None, None => true | Some x, Some y => e x y | _, _ => false end.
Definition n (z : Z) : nat := Z.to_nat z.

(** ** merge.rs *)
Definition chk_merge_runs (keys : list skey) (runs : list (list row)) (impl : list row) : bool :=
  rows_eqb (merge_sorted_runs (cmp_rows_m keys) runs) impl.
Definition show_merge_runs (keys : list skey) (runs : list (list row)) := merge_sorted_runs (cmp_rows_m keys) runs.
(** class C17-K1 on the runs of a merge *)
Definition k_merge_ties (keys : list skey) (runs : list (list row)) : bool := k_cross_ties (cmp_rows_m keys) runs.
(** what the oracle expects: the stable sort of the concatenation *)
Definition stable_m (keys : list skey) (runs : list (list row)) : list row := isort (cmp_rows_m keys) (concat runs).
Definition sorted_perm_m (keys : list skey) (runs : list (list row)) (out : list row) : bool :=
  sortedb (cmp_rows_m keys) out
  && rows_eqb (isort (cmp_rows_m keys) out) (isort (cmp_rows_m keys) (concat runs)) || rows_eqb out (stable_m keys runs).

Definition chk_merge_chunks (keys : list skey) (runs : list (list (list row))) (csize : Z)
           (impl : option (list (list row))) : bool :=
  opt_eqb chunks_eqb (merge_sorted_chunks (cmp_rows_m keys) runs (n csize)) impl.
Definition chk_rows_to_chunks (rows : list row) (csize : Z) (impl : option (list (list row))) : bool :=
  opt_eqb chunks_eqb (rows_to_chunks rows (n csize)) impl.
Definition chk_concat (results : list (list (list row))) (impl : list (list row)) : bool :=
  chunks_eqb (concat_parallel_results results) impl.
Definition chk_merge_distinct (results : list (list (list (Z * row)))) (impl : option (list (list row))) : bool :=
  opt_eqb chunks_eqb (merge_distinct_results results) impl.

(** compact tables: row i = [VInt i; VInt ((a*i+b) mod m)] (id column + key column), i = 0..cnt-1 *)
Definition gen_row (a b m i : Z) : row := [VInt i; VInt ((a * i + b) mod m)].
Fixpoint gen_from (fuel : nat) (a b m i : Z) : list row :=
  match fuel with O => [] | S f => gen_row a b m i :: gen_from f a b m (i + 1) end.
Definition gen_rows (cnt a b m : Z) : list row := gen_from (n cnt) a b m 0.
Definition row_id (r : row) : Z := match r with VInt i :: _ => i | _ => -1 end.
(** rows_to_chunks on a compact table: chunk lengths and ids *)
Definition chk_rows_to_chunks_gen (cnt a b m csize : Z) (lens ids : list Z) : bool :=
  match rows_to_chunks (gen_rows cnt a b m) (n csize) with
  | Some cs => zlist_eqb (map (fun c => Z.of_nat (length c)) cs) lens && zlist_eqb (map row_id (concat cs)) ids
  | None => false
  end.

(** ** morsel.rs *)
Definition chk_morsels (total size src : Z) (impl : option (list morsel)) : bool :=
  opt_eqb (list_eqb morsel_eqb) (generate_morsels total size src) impl.
Definition pressure_of (z : Z) : pressure :=
  if z =? 0 then PNormal else if z =? 1 then PModerate else if z =? 2 then PHigh else PCritical.
Definition chk_morsel_size (p base : Z) (impl_size impl_with_base impl_effective : Z) : bool :=
  (compute_morsel_size (pressure_of p) =? impl_size)
  && (compute_morsel_size_with_base base (pressure_of p) =? impl_with_base)
  && (effective_morsel_size base (pressure_of p) =? impl_effective).
(** the morsels cover [0,total) exactly once: checked on the implementation's own output *)
Fixpoint chainb (size : Z) (ms : list morsel) (lo hi : Z) : bool :=
  match ms with
  | [] => lo =? hi
  | m :: r => (m_start m =? lo) && (lo <? m_end m) && (m_end m - lo <=? size) && chainb size r (m_end m) hi
  end.

(** ** MergeableAccumulator *)
Definition chk_accum_seq (vs : list val) (impl : acc) : bool := acc_eqb (fold_add vs acc0) impl.
Definition chk_accum_tree (t : mtree) (impl : acc) : bool := acc_eqb (eval t) impl.
Definition chk_finalize (a : acc) (cnt sm mn mx fst_ : val) (avg : option (Z * Z)) : bool :=
  val_eqb (finalize_count a) cnt && val_eqb (finalize_sum a) sm && val_eqb (finalize_min a) mn
  && val_eqb (finalize_max a) mx && val_eqb (finalize_first a) fst_
  && opt_eqb (fun x y => (fst x =? fst y) && (snd x =? snd y)) (finalize_avg a) avg.
(** one case = sequential fold, a merge tree over a partition of the same values, and the finalizers *)
Definition chk_accum (t : mtree) (impl_seq impl_tree : acc) (cnt sm mn mx fst_ : val) (avg : option (Z * Z)) : bool :=
  chk_accum_seq (flatten t) impl_seq && chk_accum_tree t impl_tree
  && chk_finalize (eval t) cnt sm mn mx fst_ avg.
Definition k_accum_mixed (t : mtree) : bool := k_mixed_kinds (flatten t).

(** ** push operators over rows that carry their per-column hashes *)
Definition hrow := (list Z * row)%type.

Inductive cmpop := CEq | CNe | CLt | CLe | CGt | CGe.
Inductive pred := PCmp (col : nat) (op : cmpop) (v : val) | PNotNull (col : nat)
                | PAnd (a b : pred) | POr (a b : pred).
(** operators/push/filter.rs compare_values: None for different kinds and for NULL *)
Definition filter_cmp (a b : val) : option comparison :=
  match a, b with
  | VInt x, VInt y | VFlt x, VFlt y | VStr x, VStr y => Some (x ?= y)
  | VBool x, VBool y => Some (bool_cmp x y)
  | _, _ => None
  end.
Fixpoint eval_pred (p : pred) (r : row) : bool :=
  match p with
  | PCmp col op v =>
      match nth_error r col with
      | None => false
      | Some x =>
          match op with
          | CEq => val_eqb x v
          | CNe => negb (val_eqb x v)
          | CLt => match filter_cmp x v with Some Lt => true | _ => false end
          | CLe => match filter_cmp x v with Some Lt | Some Eq => true | _ => false end
          | CGt => match filter_cmp x v with Some Gt => true | _ => false end
          | CGe => match filter_cmp x v with Some Gt | Some Eq => true | _ => false end
          end
      end
  | PNotNull col => match nth_error r col with Some VNull | None => false | Some _ => true end
  | PAnd a b => eval_pred a r && eval_pred b r
  | POr a b => eval_pred a r || eval_pred b r
  end.

Inductive kspec :=
| KFilter (p : pred)
| KLimit (lim : Z)
| KDistinct (cols : option (list nat))
| KSort (keys : list skey)
| KProject (cols : list nat) (hnull : Z).

Definition sel {A} (d : A) (cols : list nat) (l : list A) : list A := map (fun c => nth c l d) cols.
Definition to_opk (k : kspec) : @opk hrow (list Z) :=
  match k with
  | KFilter p => OFilter (fun hr => eval_pred p (snd hr))
  | KLimit lim => OLimit (n lim)
  | KDistinct None => ODistinct (fun hr => fst hr)
  | KDistinct (Some cols) => ODistinct (fun hr => sel 0 cols (fst hr))
  | KSort keys => OSort (fun a b => cmp_rows_s keys (snd a) (snd b))
  | KProject cols hnull => OProject (fun hr => (sel hnull cols (fst hr), sel VNull cols (snd hr)))
  end.
Definition strip (cs : list (list hrow)) : list (list row) := map (map snd) cs.

(** one operator, pushed chunk by chunk (every chunk, also after a push answered false) *)
Fixpoint chk_steps (k : @opk hrow (list Z)) (s : @opst hrow (list Z)) (cs : list (list hrow))
         (obs : list (list (list row) * bool)) : option (@opst hrow (list Z)) :=
  match cs, obs with
  | [], [] => Some s
  | c :: cr, (o, b) :: orr =>
      let '(s', out, cont) := push zlist_eqb k s c in
      if chunks_eqb (strip out) o && Bool.eqb cont b then chk_steps k s' cr orr else None
  | _, _ => None
  end.
Definition chk_push (k : kspec) (cs : list (list hrow)) (obs : list (list (list row) * bool))
           (fin : list (list row)) : bool :=
  match chk_steps (to_opk k) st0 cs obs with
  | Some s => chunks_eqb (strip (finish (to_opk k) s)) fin
  | None => false
  end.
Definition show_push (k : kspec) (cs : list (list hrow)) := strip (run1 zlist_eqb (to_opk k) cs).
(** the simple list specification of the operator on the concatenated input *)
Definition spec_rows (k : kspec) (rows : list hrow) : list row := map snd (spec zlist_eqb (to_opk k) rows).
Definition chk_spec (k : kspec) (cs : list (list hrow)) (expect : list row) : bool :=
  rows_eqb (spec_rows k (concat cs)) expect.

(** input chunks with a selection vector: (physical rows, selected indices) *)
Fixpoint chk_steps_sel (k : @opk hrow (list Z)) (s : @opst hrow (list Z)) (cs : list (list hrow * list Z))
         (obs : list (list (list row) * bool)) : option (@opst hrow (list Z)) :=
  match cs, obs with
  | [], [] => Some s
  | (phys, sel) :: cr, (o, b) :: orr =>
      let '(s', out, cont) := push_sel zlist_eqb k s phys (map n sel) in
      if chunks_eqb (strip out) o && Bool.eqb cont b then chk_steps_sel k s' cr orr else None
  | _, _ => None
  end.
Definition chk_push_sel (k : kspec) (cs : list (list hrow * list Z)) (obs : list (list (list row) * bool))
           (fin : list (list row)) : bool :=
  match chk_steps_sel (to_opk k) st0 cs obs with
  | Some s => chunks_eqb (strip (finish (to_opk k) s)) fin
  | None => false
  end.
Definition sel_input (cs : list (list hrow * list Z)) : list hrow :=
  concat (map (fun c => sel_rows (fst c) (map n (snd c))) cs).
(** the list specification on the SELECTED rows *)
Definition chk_spec_sel (k : kspec) (cs : list (list hrow * list Z)) (expect : list row) : bool :=
  rows_eqb (spec_rows k (sel_input cs)) expect.
Definition k_push_sel_not_prefix (cs : list (list hrow * list Z)) : bool :=
  k_sel_not_prefix (map (fun c => map n (snd c)) cs).

(** LimitingSink: kept chunks and the continue answers *)
Definition chk_lsink (lim : Z) (cs : list (list row)) (kept : list (list row)) (answers : list bool) : bool :=
  let '(o, b) := lsink_run (n lim) 0%nat cs in chunks_eqb o kept && list_eqb Bool.eqb b answers.
Definition k_lsink (lim : Z) (cs : list (list row)) : bool := k_lsink_overshoot (n lim) 0%nat cs.

(** Pipeline::execute over a VectorSource *)
Inductive pobs := ODiverge | ORows (out : list (list row)).
Definition chk_pipeline (ks : list kspec) (rows : list hrow) (impl : pobs) : bool :=
  match pipeline_run zlist_eqb (map to_opk ks) rows, impl with
  | PDiverge, ODiverge => true
  | PRows out, ORows o => chunks_eqb (strip out) o
  | _, _ => false
  end.
Definition show_pipeline (ks : list kspec) (rows : list hrow) :=
  match pipeline_run zlist_eqb (map to_opk ks) rows with PDiverge => None | PRows out => Some (strip out) end.
Definition spec_chain (ks : list kspec) (rows : list hrow) : list hrow :=
  fold_left (fun rs k => spec zlist_eqb (to_opk k) rs) ks rows.
Definition is_klimit (k : kspec) : bool := match k with KLimit _ => true | _ => false end.
Definition k_pipeline_inner_limit (ks : list kspec) (nrows : Z) : bool :=
  k_inner_limit_hit (map to_opk ks) (n nrows).
Definition k_pipeline_zero_chunk (ks : list kspec) (nrows : Z) : bool :=
  k_zero_chunk_hang (map to_opk ks) (n nrows).

(** ** schedules: the harness plays the workers itself (real operators, real sources, real merge
    functions) under a schedule it chose; the model runs the same schedule *)
Definition chk_sched (ks : list kspec) (csize : Z) (rows : list hrow) (ms : list morsel) (sch : list (list Z))
           (impl : list (list row)) : bool :=
  chunks_eqb (strip (parallel_run zlist_eqb (map to_opk ks) (n csize) rows ms (map (map n) sch))) impl.
Definition show_sched (ks : list kspec) (csize : Z) (rows : list hrow) (ms : list morsel) (sch : list (list Z)) :=
  strip (parallel_run zlist_eqb (map to_opk ks) (n csize) rows ms (map (map n) sch)).
(** per-worker sorted chunks merged by merge_sorted_chunks (one run per worker chunk) *)
Definition chk_sched_sort (keys : list skey) (csize : Z) (rows : list hrow) (ms : list morsel) (sch : list (list Z))
           (out_csize : Z) (impl : option (list (list row))) : bool :=
  let parts := strip (parallel_run zlist_eqb [to_opk (KSort keys)] (n csize) rows ms (map (map n) sch)) in
  opt_eqb chunks_eqb (merge_sorted_chunks (cmp_rows_m keys) (map (fun c => [c]) parts) (n out_csize)) impl.
Definition k_sched_sort_ties (keys : list skey) (csize : Z) (rows : list hrow) (ms : list morsel) (sch : list (list Z)) : bool :=
  k_cross_ties (cmp_rows_m keys) (strip (parallel_run zlist_eqb [to_opk (KSort keys)] (n csize) rows ms (map (map n) sch))).

(** the real ParallelPipeline (OS-chosen schedule) on a compact table with a stateless chain:
    the ids of the output rows, sorted by the harness, are those of the specification *)
Definition mk_hrows (rows : list row) : list hrow := map (fun r => ([], r)) rows.
Definition chk_par_ids (ks : list kspec) (cnt a b m : Z) (impl_ids : list Z) : bool :=
  zlist_eqb (map (fun hr => row_id (snd hr)) (spec_chain ks (mk_hrows (gen_rows cnt a b m)))) impl_ids.

(** ** external sort *)
Definition chk_merge_all (keys : list skey) (runs : list (list row)) (mem : list row) (impl : list row) : bool :=
  rows_eqb (merge_all (cmp_rows_s keys) runs mem) impl.
Definition chk_spill_sort (keys : list skey) (threshold : Z) (cs : list (list row)) (impl : list row) : bool :=
  rows_eqb (spill_sort (cmp_rows_s keys) (n threshold) cs) impl.
Definition show_spill_sort (keys : list skey) (threshold : Z) (cs : list (list row)) :=
  spill_sort (cmp_rows_s keys) (n threshold) cs.
Definition k_merge_all_ties (keys : list skey) (runs : list (list row)) (mem : list row) : bool :=
  k_cross_ties (cmp_rows_s keys) (runs ++ [mem]).
Definition k_spill_sort_ties (keys : list skey) (threshold : Z) (cs : list (list row)) : bool :=
  k_cross_ties (cmp_rows_s keys) (spill_runs (cmp_rows_s keys) (n threshold) cs).
Definition stable_s (keys : list skey) (rows : list row) : list row := isort (cmp_rows_s keys) rows.

(** spill files: (files on disk, manager's active_file_count) after each operation *)
Fixpoint ftrace (s : fstate) (ops : list fop) : list (Z * Z) :=
  match ops with
  | [] => []
  | o :: r => let s' := fstep s o in (Z.of_nat (disk_count s'), Z.of_nat (active_count s')) :: ftrace s' r
  end.
Definition chk_files (ops : list fop) (impl : list (Z * Z)) : bool :=
  list_eqb (fun x y => (fst x =? fst y) && (snd x =? snd y)) (ftrace fstate0 ops) impl.
Definition k_files_part_cleanup (ops : list fop) : bool := k_part_cleanup_leaves fstate0 ops.

(** ** hash partitions: keys are rows, values integers; the harness supplies hash_key per key *)
Definition hkey := (Z * row)%type.
Definition hkey_eqb (a b : hkey) : bool := row_eqb (snd a) (snd b).
Definition kv_eqb (a b : hkey * Z) : bool := hkey_eqb (fst a) (fst b) && (snd a =? snd b).
(** canonical order of drained entries: the harness sorts by insertion rank of the key; the model
    output is compared as "same length and every model entry occurs" *)
Definition subset_kv (l1 l2 : list (hkey * Z)) : bool := forallb (fun x => existsb (kv_eqb x) l2) l1.
Definition chk_partition (nparts : Z) (kvs : list (hkey * Z)) (sizes : list Z) (drained : list (hkey * Z)) : bool :=
  let ps := fold_left (pinsert hkey_eqb (@fst Z row) (n nparts)) kvs (pstate0 (n nparts)) in
  zlist_eqb (map (fun p => Z.of_nat (length p)) ps) sizes
  && (length (concat ps) =? length drained)%nat && subset_kv (concat ps) drained.

(** ** GROUP BY: the in-memory operator (groups identified by the hashes of the key values) and the
    spilling one (groups identified by the key values); outputs are bags *)
Definition count_row (r : row) (l : list row) : nat := length (filter (row_eqb r) l).
Definition bag_eqb (l1 l2 : list row) : bool :=
  (length l1 =? length l2)%nat && forallb (fun r => (count_row r l1 =? count_row r l2)%nat) l1.
Definition mkagg (f : aggf) (col : Z) : aggexpr := {| ag_fn := f; ag_col := if col <? 0 then None else Some (n col) |}.
Definition agg_input_h (cols : list nat) (rows : list hrow) : list (list Z * row * row) :=
  map (fun hr => (sel 0 cols (fst hr), sel VNull cols (snd hr), snd hr)) rows.
Definition agg_input_v (cols : list nat) (rows : list hrow) : list (row * row * row) :=
  map (fun hr => (sel VNull cols (snd hr), sel VNull cols (snd hr), snd hr)) rows.
Definition model_agg_mem (cols : list Z) (aggs : list aggexpr) (rows : list hrow) : list row :=
  match cols with
  | [] => global_agg aggs (map snd rows)
  | _ => group_by zlist_eqb aggs (agg_input_h (map n cols) rows)
  end.
Definition model_agg_spill (cols : list Z) (aggs : list aggexpr) (rows : list hrow) : list row :=
  match cols with
  | [] => global_agg aggs (map snd rows)
  | _ => group_by row_eqb aggs (agg_input_v (map n cols) rows)
  end.
Definition chk_agg (cols : list Z) (aggs : list aggexpr) (rows : list hrow) (impl_mem impl_spill : list row) : bool :=
  bag_eqb (model_agg_mem cols aggs rows) impl_mem && bag_eqb (model_agg_spill cols aggs rows) impl_spill.
Definition show_agg (cols : list Z) (aggs : list aggexpr) (rows : list hrow) :=
  (model_agg_mem cols aggs rows, model_agg_spill cols aggs rows).

(** ** constructors taking Z arguments (the harness prints no nat literals) *)
Definition sk (c : Z) (asc nf : bool) : skey := {| k_col := n c; k_asc := asc; k_nf := nf |}.
Definition pcmp (c : Z) (op : cmpop) (v : val) : pred := PCmp (n c) op v.
Definition pnotnull (c : Z) : pred := PNotNull (n c).
Definition kdistinct_all : kspec := KDistinct None.
Definition kdistinct_on (cols : list Z) : kspec := KDistinct (Some (map n cols)).
Definition kproject (cols : list Z) (hnull : Z) : kspec := KProject (map n cols) hnull.
Definition mkm (id src st en : Z) : morsel := {| m_id := id; m_src := src; m_start := st; m_end := en |}.
Definition mkacc (c s q : Z) (mn mx f : option val) : acc :=
  {| a_count := c; a_sum := s; a_sumsq := q; a_min := mn; a_max := mx; a_first := f |}.

(** finding classes decided on sizes only (the inputs are too large to ship) *)
(** C17-K3: a chunk with more than 65535 rows reaches filter/distinct/limit (SelectionVector is u16) *)
Definition k_chunk_over_u16 (chunk_rows : Z) : bool := 65535 <? chunk_rows.
(** C17-K4: the pull DistinctOperator gets an input chunk with more than 2048 new unique rows *)
Definition k_pull_distinct_over_2048 (uniques_in_chunk : Z) : bool := 2048 <? uniques_in_chunk.
(** C17-K8: the 64-bit hashes used by DISTINCT / GROUP BY / merge_distinct_results hash NULL and
    FALSE alike ([0u8.hash] and [false.hash] both write the byte 0): the input contains both *)
Definition k_null_and_false (rows : list row) : bool :=
  existsb (fun v => val_eqb v VNull) (concat rows) && existsb (fun v => val_eqb v (VBool false)) (concat rows).
(** C17-K11: ParallelPipelineConfig::preserve_order is never read: with at least two workers and two
    morsels the output order is the workers' publication order *)
Definition k_preserve_order_ignored (workers morsels : Z) : bool := (2 <=? workers) && (2 <=? morsels).
(** the same for large tables: count, sum and sum of squares of the output ids *)
Definition chk_par_sig (ks : list kspec) (cnt a b m : Z) (count sum sumsq : Z) : bool :=
  let ids := map (fun hr => row_id (snd hr)) (spec_chain ks (mk_hrows (gen_rows cnt a b m))) in
  (Z.of_nat (length ids) =? count) && (fold_left Z.add ids 0 =? sum)
  && (fold_left (fun s i => s + i * i) ids 0 =? sumsq).
