(** C17 — push operators: over ANY chunking the concatenated output of push/finish is the simple
    list specification; two-operator chains whose first operator streams; the chain defects. *)
From Coq Require Import List Arith Bool Lia.
From GV Require Import Par.Merge Par.Push.
Import ListNotations.

Lemma chunks_fuel_concat : forall {X} n fuel (l : list X), 0 < n -> length l <= fuel ->
  concat (chunks_fuel fuel n l) = l.
Proof.
  intros X n. induction fuel as [|f IH]; intros l Hn Hl.
  - destruct l; [reflexivity|cbn in Hl; lia].
  - cbn [chunks_fuel]. destruct l as [|x t]; [reflexivity|].
    cbn [concat]. rewrite IH; auto.
    + apply firstn_skipn.
    + rewrite skipn_length. cbn [length] in *. lia.
Qed.
Lemma chunks_of_concat : forall {X} n (l : list X), 0 < n -> concat (chunks_of n l) = l.
Proof. intros. unfold chunks_of. apply chunks_fuel_concat; auto. Qed.

Section PushProofs.
  Context {R K : Type}.
  Variable keq : K -> K -> bool.
  Notation opk := (@opk R K).
  Notation opst := (@opst R K).
  Notation push := (push keq).
  Notation drive := (drive keq).
  Notation spec := (spec keq).
  Notation streaming := (@streaming R K).

  Lemma concat_keep : forall (c : list R), concat (keep c) = c.
  Proof. intros [|x c]; cbn; [reflexivity|]. rewrite app_nil_r. reflexivity. Qed.

  (** *** filter / project: stateless *)
  Lemma drive_filter : forall (p : R -> bool) (cs : list (list R)) (s : opst), concat (snd (drive (OFilter p) s cs)) = filter p (concat cs).
  Proof.
    intros p. induction cs as [|c r IH]; intro s; cbn [Push.drive Push.push]; [reflexivity|].
    specialize (IH s). destruct (drive (OFilter p) s r) as [s'' o2] eqn:E. cbn [snd] in *.
    cbn [concat]. rewrite concat_app, concat_keep, filter_app, IH. reflexivity.
  Qed.
  Lemma drive_project : forall (f : R -> R) (cs : list (list R)) (s : opst), concat (snd (drive (OProject f) s cs)) = map f (concat cs).
  Proof.
    intros f. induction cs as [|c r IH]; intro s; cbn [Push.drive Push.push]; [reflexivity|].
    specialize (IH s). destruct (drive (OProject f) s r) as [s'' o2] eqn:E. cbn [snd] in *.
    cbn [concat]. rewrite concat_app, concat_keep, map_app, IH. reflexivity.
  Qed.

  (** *** limit *)
  Lemma firstn_app_le : forall (a b : list R) m, m <= length a -> firstn m (a ++ b) = firstn m a.
  Proof.
    intros a b m H. rewrite firstn_app. replace (m - length a) with 0 by lia. cbn. apply app_nil_r.
  Qed.
  Lemma drive_limit : forall (n : nat) (cs : list (list R)) (s : opst),
    concat (snd (drive (OLimit n) s cs)) = firstn (n - s_passed s) (concat cs).
  Proof.
    intros n. induction cs as [|c r IH]; intro s; cbn [Push.drive Push.push].
    - rewrite firstn_nil. reflexivity.
    - destruct (Nat.leb_spec n (s_passed s)) as [Hle|Hlt]; cbn [snd concat].
      + replace (n - s_passed s) with 0 by lia. reflexivity.
      + destruct (Nat.leb_spec (length c) (n - s_passed s)) as [Hc|Hc].
        * destruct (Nat.ltb_spec (s_passed s + length c) n) as [Hn|Hn].
          -- set (s' := {| s_passed := s_passed s + length c; s_seen := s_seen s; s_buf := s_buf s |}).
             specialize (IH s'). destruct (drive (OLimit n) s' r) as [s'' o2]. cbn [snd] in *.
             rewrite concat_app, concat_keep, IH. cbn [s_passed s'].
             rewrite firstn_app.
             rewrite (@firstn_all2 _ (n - s_passed s) c) by lia. f_equal. f_equal. lia.
          -- cbn [snd]. rewrite concat_keep. rewrite firstn_app_le by lia.
             symmetry. apply firstn_all2. lia.
        * cbn [snd]. rewrite concat_keep. rewrite firstn_app_le by lia. reflexivity.
  Qed.

  (** *** distinct *)
  Lemma fresh_dedup : forall (key : R -> K) (rows : list R) (seen : list K), snd (fresh keq key seen rows) = dedup keq key seen rows.
  Proof.
    intros key. induction rows as [|r t IH]; intro seen; cbn; [reflexivity|].
    destruct (existsb (keq (key r)) seen); [apply IH|].
    specialize (IH (key r :: seen)). destruct (fresh keq key (key r :: seen) t). cbn in *. f_equal. exact IH.
  Qed.
  Lemma dedup_app : forall (key : R -> K) (a b : list R) (seen : list K),
    dedup keq key seen (a ++ b) = dedup keq key seen a ++ dedup keq key (fst (fresh keq key seen a)) b.
  Proof.
    intros key. induction a as [|r t IH]; intros b seen; cbn; [reflexivity|].
    destruct (existsb (keq (key r)) seen); [apply IH|].
    rewrite (IH b (key r :: seen)). destruct (fresh keq key (key r :: seen) t). reflexivity.
  Qed.
  Lemma drive_distinct : forall (key : R -> K) (cs : list (list R)) (s : opst),
    concat (snd (drive (ODistinct key) s cs)) = dedup keq key (s_seen s) (concat cs).
  Proof.
    intros key. induction cs as [|c r IH]; intro s; cbn [Push.drive Push.push]; [reflexivity|].
    pose proof (fresh_dedup key c (s_seen s)) as F.
    destruct (fresh keq key (s_seen s) c) as [seen' o] eqn:E. cbn [snd] in F.
    set (s' := {| s_passed := s_passed s; s_seen := seen'; s_buf := s_buf s |}).
    specialize (IH s'). destruct (drive (ODistinct key) s' r) as [s'' o2]. cbn [snd] in *.
    cbn [concat]. rewrite concat_app, concat_keep, dedup_app, E. cbn [fst]. rewrite IH, F. reflexivity.
  Qed.

  (** *** sort *)
  Lemma drive_sort : forall (cmp : R -> R -> comparison) (cs : list (list R)) (s : opst),
    snd (drive (OSort cmp) s cs) = [] /\ s_buf (fst (drive (OSort cmp) s cs)) = s_buf s ++ concat cs.
  Proof.
    intros cmp. induction cs as [|c r IH]; intro s; cbn [Push.drive Push.push].
    - cbn. rewrite app_nil_r. auto.
    - set (s' := {| s_passed := s_passed s; s_seen := s_seen s; s_buf := s_buf s ++ c |}).
      specialize (IH s'). destruct (drive (OSort cmp) s' r) as [s'' o2]. cbn [fst snd] in *.
      destruct IH as [I1 I2]. split; [exact I1|]. rewrite I2. cbn. rewrite app_assoc. reflexivity.
  Qed.

  Theorem push_equals_pull_l : forall (k : opk) (cs : list (list R)),
    concat (run1 keq k cs) = spec k (concat cs).
  Proof.
    intros k cs. unfold run1.
    destruct k as [p|n|key|cmp|f]; cbn [Push.spec].
    - pose proof (drive_filter p cs st0) as H. destruct (drive (OFilter p) st0 cs). cbn in *.
      rewrite app_nil_r. exact H.
    - pose proof (drive_limit n cs st0) as H. destruct (drive (OLimit n) st0 cs). cbn in *.
      rewrite app_nil_r, H. f_equal. lia.
    - pose proof (drive_distinct key cs st0) as H. destruct (drive (ODistinct key) st0 cs). cbn in *.
      rewrite app_nil_r. exact H.
    - pose proof (drive_sort cmp cs st0) as [H1 H2]. destruct (drive (OSort cmp) st0 cs) as [s o]. cbn in *.
      subst o. rewrite H2. cbn. apply chunks_of_concat. lia.
    - pose proof (drive_project f cs st0) as H. destruct (drive (OProject f) st0 cs). cbn in *.
      rewrite app_nil_r. exact H.
  Qed.

  Fixpoint outs1 (k : opk) (s : opst) (cs : list (list R)) : list (list R) :=
    match cs with
    | [] => []
    | c :: r => let '(s', out, _) := push k s c in out ++ outs1 k s' r
    end.

  Lemma streaming_push : forall k s c, streaming k = true ->
    exists s' x, push k s c = (s', keep x, true).
  Proof.
    intros k s c H. destruct k; try discriminate; cbn [Push.push].
    - eauto.
    - destruct (fresh keq key (s_seen s) c) as [seen' o]. eauto.
    - eauto.
  Qed.

  Lemma streaming_finish : forall k s, streaming k = true -> finish k s = [].
  Proof. intros k s H. destruct k; try discriminate; reflexivity. Qed.

  Lemma drive_stream : forall k cs s, streaming k = true -> snd (drive k s cs) = outs1 k s cs.
  Proof.
    intros k. induction cs as [|c r IH]; intros s H; cbn [Push.drive outs1]; [reflexivity|].
    destruct (streaming_push k s c H) as [s' [x E]]. rewrite E.
    specialize (IH s' H). destruct (drive k s' r). cbn [snd] in *. rewrite IH. reflexivity.
  Qed.

  (** before 3d7a126: a LIMIT 0 behind a filter: the chunk size hint is 0 and the run never ends *)
  Theorem pipeline_limit0_diverges_l : forall (p : R -> bool) (r0 : R) (rows : list R),
    pipeline_run_pre keq [OFilter p; OLimit 0] (r0 :: rows) = PDiverge.
  Proof. intros. reflexivity. Qed.
End PushProofs.

(** the chain defect C17-K5 (before b341ff4) on a concrete table *)
Definition tt_eq (a b : unit) : bool := true.
Theorem pipeline_chain_refuted_l :
  exists (ks : list (@opk nat unit)) (rows : list nat),
    k_inner_limit_hit ks (length rows) = true /\
    exists out, pipeline_run_pre tt_eq ks rows = PRows out /\
                concat out <> fold_left (fun rs k => spec tt_eq k rs) ks rows.
Proof.
  exists [OLimit 5; OFilter (fun _ => true)], (seq 0 10). split; [reflexivity|].
  eexists. split; [vm_compute; reflexivity|]. vm_compute. discriminate.
Qed.
