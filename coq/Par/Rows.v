(** C17 — self-contained values, rows and the row comparators of the anchored code.  No proofs.

    [VFlt z] stands for the binary64 value z (an integer with |z| < 2^53, so that IEEE comparison and
    the sums of the accumulators are exact); [VStr z] for a string from an order-preserving family
    (the harness uses fixed-width decimal strings, z >= 0).  NaN, infinities, -0.0 and the remaining
    value kinds (Bytes, List, ...) are not modelled. *)
From Coq Require Import List ZArith Bool.
Import ListNotations.
Open Scope Z_scope.

Inductive val := VNull | VBool (b : bool) | VInt (z : Z) | VFlt (z : Z) | VStr (z : Z).
Definition row := list val.

Definition val_eqb (a b : val) : bool :=
  match a, b with
  | VNull, VNull => true
  | VBool x, VBool y => Bool.eqb x y
  | VInt x, VInt y | VFlt x, VFlt y | VStr x, VStr y => x =? y
  | _, _ => false
  end.
Fixpoint list_eqb {A} (e : A -> A -> bool) (l1 l2 : list A) : bool :=
  match l1, l2 with
  | [], [] => true
  | a :: t1, b :: t2 => e a b && list_eqb e t1 t2
  | _, _ => false
  end.
Definition row_eqb : row -> row -> bool := list_eqb val_eqb.
Definition rows_eqb : list row -> list row -> bool := list_eqb row_eqb.
Definition chunks_eqb : list (list row) -> list (list row) -> bool := list_eqb rows_eqb.

(** 0 = null, otherwise the comparability class of the value *)
Definition kind (v : val) : nat :=
  match v with VNull => 0 | VBool _ => 1 | VInt _ => 2 | VFlt _ => 3 | VStr _ => 4 end%nat.

Definition bool_cmp (a b : bool) : comparison :=
  match a, b with false, true => Lt | true, false => Gt | _, _ => Eq end.

(** compare_values of merge.rs / push/sort.rs / spill/external_sort.rs (identical):
    same kind => the natural order, different kinds => Equal *)
Definition cmp_values (a b : val) : comparison :=
  match a, b with
  | VBool x, VBool y => bool_cmp x y
  | VInt x, VInt y | VFlt x, VFlt y | VStr x, VStr y => x ?= y
  | _, _ => Eq
  end.

Record skey := { k_col : nat; k_asc : bool; k_nf : bool }.

Definition is_nullo (o : option val) : bool := match o with None | Some VNull => true | _ => false end.

(** merge.rs compare_values_for_sort (a missing column counts as NULL) *)
Definition cmp_for_sort (a b : option val) (nf : bool) : comparison :=
  match a, b with
  | None, None => Eq
  | Some VNull, Some VNull => Eq
  | _, _ =>
      if is_nullo a then (if nf then Lt else Gt)
      else if is_nullo b then (if nf then Gt else Lt)
      else match a, b with Some x, Some y => cmp_values x y | _, _ => Eq end
  end.

Definition dir (asc : bool) (c : comparison) : comparison := if asc then c else CompOpp c.

(** MergeEntry::compare_to *)
Fixpoint cmp_rows_m (keys : list skey) (a b : row) : comparison :=
  match keys with
  | [] => Eq
  | k :: ks =>
      match dir (k_asc k) (cmp_for_sort (nth_error a (k_col k)) (nth_error b (k_col k)) (k_nf k)) with
      | Eq => cmp_rows_m ks a b
      | c => c
      end
  end.

(** compare_rows of push/sort.rs and spill/external_sort.rs *)
Definition cmp_key_s (a b : option val) (nf : bool) : comparison :=
  match a, b with
  | Some VNull, Some VNull => Eq
  | Some VNull, _ => if nf then Lt else Gt
  | _, Some VNull => if nf then Gt else Lt
  | Some x, Some y => cmp_values x y
  | _, _ => Eq
  end.
Fixpoint cmp_rows_s (keys : list skey) (a b : row) : comparison :=
  match keys with
  | [] => Eq
  | k :: ks =>
      match dir (k_asc k) (cmp_key_s (nth_error a (k_col k)) (nth_error b (k_col k)) (k_nf k)) with
      | Eq => cmp_rows_s ks a b
      | c => c
      end
  end.

(** the domain on which the comparators are total preorders: every key column exists and holds
    NULL or a value of the kind fixed for that column *)
Definition typed_val (kd : nat) (v : val) : bool := (kind v =? 0)%nat || (kind v =? kd)%nat.
Definition typed_row (keys : list skey) (kinds : list nat) (r : row) : bool :=
  forallb (fun k => match nth_error r (k_col k) with
                    | Some v => typed_val (nth (k_col k) kinds 0%nat) v
                    | None => false
                    end) keys.
