(** C17 — MergeableAccumulator: on a column whose non-null values are of one kind, (acc, merge, acc0)
    is a monoid and the sequential fold is a homomorphism from (lists, ++); hence every partition
    into morsels and every merge tree finalizes like the sequential fold. *)
From Coq Require Import List ZArith Bool Lia Arith.
From GV Require Import Par.Rows Par.Accum.
Import ListNotations.
Open Scope Z_scope.

Definition mmin (x y : option val) : option val :=
  match y with Some oy => if lt_min x oy then Some oy else x | None => x end.
Definition mmax (x y : option val) : option val :=
  match y with Some oy => if gt_max x oy then Some oy else x | None => x end.
Definition mfirst (x y : option val) : option val := if is_none x then y else x.

Lemma acc_ext : forall a b, a_count a = a_count b -> a_sum a = a_sum b -> a_sumsq a = a_sumsq b ->
  a_min a = a_min b -> a_max a = a_max b -> a_first a = a_first b -> a = b.
Proof. intros [] []; cbn; intros; subst; reflexivity. Qed.

Definition ok_opt (k : nat) (o : option val) : Prop :=
  match o with None => True | Some v => cls v = k end.
Definition acc_ok (k : nat) (a : acc) : Prop :=
  ok_opt k (a_min a) /\ ok_opt k (a_max a) /\ ok_opt k (a_first a).

Ltac zcases :=
  repeat (match goal with
          | |- context [(?a <? ?b)%Z] => destruct (Z.ltb_spec a b)
          end; cbn); try reflexivity; try lia; try discriminate.

Lemma mmin_assoc : forall k x y z, ok_opt k x -> ok_opt k y -> ok_opt k z ->
  mmin (mmin x y) z = mmin x (mmin y z).
Proof.
  intros k x y z Hx Hy Hz.
  destruct x as [[]|], y as [[]|], z as [[]|]; cbn in *; try reflexivity; try congruence; zcases.
Qed.
Lemma mmax_assoc : forall k x y z, ok_opt k x -> ok_opt k y -> ok_opt k z ->
  mmax (mmax x y) z = mmax x (mmax y z).
Proof.
  intros k x y z Hx Hy Hz.
  destruct x as [[]|], y as [[]|], z as [[]|]; cbn in *; try reflexivity; try congruence; zcases.
Qed.
Lemma mfirst_assoc : forall x y z, mfirst (mfirst x y) z = mfirst x (mfirst y z).
Proof. intros [x|] [y|] [z|]; reflexivity. Qed.

Lemma merge_assoc : forall k a b c, acc_ok k a -> acc_ok k b -> acc_ok k c ->
  merge (merge a b) c = merge a (merge b c).
Proof.
  intros k a b c [A1 [A2 A3]] [B1 [B2 B3]] [C1 [C2 C3]]. apply acc_ext; cbn [merge a_count a_sum a_sumsq a_min a_max a_first]; try lia.
  - exact (mmin_assoc k _ _ _ A1 B1 C1).
  - exact (mmax_assoc k _ _ _ A2 B2 C2).
  - exact (mfirst_assoc _ _ _).
Qed.

Lemma merge_acc0_r : forall a, merge a acc0 = a.
Proof. intro a. apply acc_ext; cbn; try lia; try reflexivity. destruct (a_first a); reflexivity. Qed.
Lemma merge_acc0_l : forall a, merge acc0 a = a.
Proof.
  intro a. apply acc_ext; cbn; try lia; try reflexivity.
  - destruct (a_min a); reflexivity.
  - destruct (a_max a); reflexivity.
Qed.

Lemma add_as_merge : forall a v, add a v = merge a (add acc0 v).
Proof.
  intros a v. destruct v; cbn [add]; try (symmetry; apply merge_acc0_r);
    apply acc_ext; cbn; try lia; try reflexivity;
    try (destruct (a_min a) as [[]|]; reflexivity); try (destruct (a_max a) as [[]|]; reflexivity).
Qed.

Lemma acc_ok_acc0 : forall k, acc_ok k acc0.
Proof. intro k. repeat split. Qed.

Lemma acc_ok_add : forall k a v, acc_ok k a -> (cls v = 0%nat \/ cls v = k) -> acc_ok k (add a v).
Proof.
  intros k a v [A1 [A2 A3]] Hv. destruct v; cbn [add]; try (repeat split; assumption);
    (destruct Hv as [Hv|Hv]; [cbn in Hv; discriminate|]);
    repeat split; cbn;
    match goal with |- ok_opt _ (if ?c then _ else _) => destruct c; cbn; auto end.
Qed.

Definition kinded (k : nat) (vs : list val) : Prop := forall v, In v vs -> cls v = 0%nat \/ cls v = k.

Lemma acc_ok_fold : forall k vs a, kinded k vs -> acc_ok k a -> acc_ok k (fold_add vs a).
Proof.
  intros k. induction vs as [|v t IH]; intros a Hk Ha; cbn; auto.
  apply IH; [intros w Hw; apply Hk; right; exact Hw|].
  apply acc_ok_add; auto. apply Hk. left. reflexivity.
Qed.

Lemma merge_ok : forall k a b, acc_ok k a -> acc_ok k b -> acc_ok k (merge a b).
Proof.
  intros k a b [A1 [A2 A3]] [B1 [B2 B3]]. repeat split; cbn.
  - destruct (a_min b); auto. destruct (lt_min (a_min a) v); auto.
  - destruct (a_max b); auto. destruct (gt_max (a_max a) v); auto.
  - destruct (a_first a); auto.
Qed.

Lemma fold_add_merge : forall k vs a, kinded k vs -> acc_ok k a ->
  fold_add vs a = merge a (fold_add vs acc0).
Proof.
  intro k. induction vs as [|v t IH]; intros a Hk Ha.
  - cbn. symmetry. apply merge_acc0_r.
  - assert (Hkt : kinded k t) by (intros w Hw; apply Hk; right; exact Hw).
    assert (Hv : cls v = 0%nat \/ cls v = k) by (apply Hk; left; reflexivity).
    cbn [fold_add fold_left]. fold (fold_add t (add a v)). fold (fold_add t (add acc0 v)).
    rewrite (IH (add a v) Hkt (acc_ok_add k a v Ha Hv)).
    rewrite (IH (add acc0 v) Hkt (acc_ok_add k acc0 v (acc_ok_acc0 k) Hv)).
    rewrite <- (merge_assoc k).
    + rewrite <- add_as_merge. reflexivity.
    + exact Ha.
    + apply acc_ok_add; auto. apply acc_ok_acc0.
    + apply acc_ok_fold; auto. apply acc_ok_acc0.
Qed.

Lemma uniformb_kinded : forall vs, uniformb vs = true -> exists k, kinded k vs.
Proof.
  intros vs H. unfold uniformb in H.
  destruct (filter (fun v => negb (cls v =? 0)%nat) vs) as [|v0 t] eqn:F.
  - exists 1%nat. intros v Hv. left.
    destruct (Nat.eq_dec (cls v) 0) as [E|E]; auto.
    assert (I : In v (filter (fun v => negb (cls v =? 0)%nat) vs)).
    { apply filter_In. split; auto. apply negb_true_iff. apply Nat.eqb_neq. exact E. }
    rewrite F in I. destruct I.
  - exists (cls v0). intros v Hv.
    destruct (Nat.eq_dec (cls v) 0) as [E|E]; auto. right.
    assert (I : In v (v0 :: t)).
    { rewrite <- F. apply filter_In. split; auto. apply negb_true_iff. apply Nat.eqb_neq. exact E. }
    destruct I as [<-|I]; auto.
    rewrite forallb_forall in H. apply Nat.eqb_eq. apply H. exact I.
Qed.

Theorem accum_homomorphism_l : forall xs ys, uniformb (xs ++ ys) = true ->
  fold_add (xs ++ ys) acc0 = merge (fold_add xs acc0) (fold_add ys acc0).
Proof.
  intros xs ys H. destruct (uniformb_kinded _ H) as [k Hk].
  unfold fold_add at 1. rewrite fold_left_app. fold (fold_add xs acc0). fold (fold_add ys (fold_add xs acc0)).
  apply (fold_add_merge k).
  - intros v Hv. apply Hk. apply in_or_app. right. exact Hv.
  - apply acc_ok_fold; [|apply acc_ok_acc0]. intros v Hv. apply Hk. apply in_or_app. left. exact Hv.
Qed.

Lemma eval_tree_k : forall k t, kinded k (flatten t) -> eval t = fold_add (flatten t) acc0 /\ acc_ok k (eval t).
Proof.
  intro k. induction t as [vs|l IHl r IHr]; intro Hk; cbn [eval flatten] in *.
  - split; [reflexivity|]. apply acc_ok_fold; auto. apply acc_ok_acc0.
  - assert (Hl : kinded k (flatten l)) by (intros v Hv; apply Hk; apply in_or_app; left; exact Hv).
    assert (Hr : kinded k (flatten r)) by (intros v Hv; apply Hk; apply in_or_app; right; exact Hv).
    destruct (IHl Hl) as [El Ol]. destruct (IHr Hr) as [Er Or_].
    split; [|apply merge_ok; assumption].
    rewrite El, Er.
    unfold fold_add at 3. rewrite fold_left_app. fold (fold_add (flatten l) acc0).
    fold (fold_add (flatten r) (fold_add (flatten l) acc0)).
    symmetry. apply (fold_add_merge k); auto. rewrite <- El. exact Ol.
Qed.

Theorem accum_merge_tree_l : forall t, uniformb (flatten t) = true ->
  eval t = fold_add (flatten t) acc0.
Proof.
  intros t H. destruct (uniformb_kinded _ H) as [k Hk]. apply (eval_tree_k k t Hk).
Qed.

Theorem accum_refuted_l : exists xs ys,
  finalize_min (fold_add (xs ++ ys) acc0) <> finalize_min (merge (fold_add xs acc0) (fold_add ys acc0)).
Proof. exists [VInt 1], [VStr 0; VInt 0]. vm_compute. discriminate. Qed.

(** before e7fe7cd a numeric column mixing integers and floats was enough (C17-K2) *)
Theorem accum_pre_refuted_l : exists xs ys,
  uniformb (xs ++ ys) = true /\ min_fold_pre (xs ++ ys) <> min_merge_pre (min_fold_pre xs) (min_fold_pre ys).
Proof. exists [VInt 1], [VFlt 0; VInt 0]. split; [reflexivity|]. vm_compute. discriminate. Qed.


(** *** the kind-based invariants (integers and floats apart), for commutativity *)
Definition ok_optk (k : nat) (o : option val) : Prop :=
  match o with None => True | Some v => kind v = k end.
Definition acc_okk (k : nat) (a : acc) : Prop :=
  ok_optk k (a_min a) /\ ok_optk k (a_max a) /\ ok_optk k (a_first a).
Lemma acc_okk_acc0 : forall k, acc_okk k acc0.
Proof. intro k. repeat split. Qed.
Lemma acc_okk_add : forall k a v, acc_okk k a -> (kind v = 0%nat \/ kind v = k) -> acc_okk k (add a v).
Proof.
  intros k a v [A1 [A2 A3]] Hv. destruct v; cbn [add]; try (repeat split; assumption);
    (destruct Hv as [Hv|Hv]; [cbn in Hv; discriminate|]);
    repeat split; cbn;
    match goal with |- ok_optk _ (if ?c then _ else _) => destruct c; cbn; auto end.
Qed.
Definition kindedk (k : nat) (vs : list val) : Prop := forall v, In v vs -> kind v = 0%nat \/ kind v = k.
Lemma acc_okk_fold : forall k vs a, kindedk k vs -> acc_okk k a -> acc_okk k (fold_add vs a).
Proof.
  intros k. induction vs as [|v t IH]; intros a Hk Ha; cbn; auto.
  apply IH; [intros w Hw; apply Hk; right; exact Hw|].
  apply acc_okk_add; auto. apply Hk. left. reflexivity.
Qed.
Lemma uniformb_kind_kinded : forall vs, uniformb_kind vs = true -> exists k, kindedk k vs.
Proof.
  intros vs H. unfold uniformb_kind in H.
  destruct (filter (fun v => negb (kind v =? 0)%nat) vs) as [|v0 t] eqn:F.
  - exists 1%nat. intros v Hv. left.
    destruct (Nat.eq_dec (kind v) 0) as [E|E]; auto.
    assert (I : In v (filter (fun v => negb (kind v =? 0)%nat) vs)).
    { apply filter_In. split; auto. apply negb_true_iff. apply Nat.eqb_neq. exact E. }
    rewrite F in I. destruct I.
  - exists (kind v0). intros v Hv.
    destruct (Nat.eq_dec (kind v) 0) as [E|E]; auto. right.
    assert (I : In v (v0 :: t)).
    { rewrite <- F. apply filter_In. split; auto. apply negb_true_iff. apply Nat.eqb_neq. exact E. }
    destruct I as [<-|I]; auto.
    rewrite forallb_forall in H. apply Nat.eqb_eq. apply H. exact I.
Qed.

(** merging in any order (worker completion order): COUNT and SUM always, MIN and MAX for ordered kinds *)
Lemma mmin_comm : forall k x y, (2 <= k)%nat -> ok_optk k x -> ok_optk k y ->
  mmin x y = mmin y x.
Proof.
  intros k x y Hk Hx Hy.
  destruct x as [[]|], y as [[]|]; cbn in *; try reflexivity; try congruence; try lia; zcases;
    repeat f_equal; lia.
Qed.
Lemma mmax_comm : forall k x y, (2 <= k)%nat -> ok_optk k x -> ok_optk k y ->
  mmax x y = mmax y x.
Proof.
  intros k x y Hk Hx Hy.
  destruct x as [[]|], y as [[]|]; cbn in *; try reflexivity; try congruence; try lia; zcases;
    repeat f_equal; lia.
Qed.

Theorem accum_merge_comm_l : forall k a b, (2 <= k)%nat -> acc_okk k a -> acc_okk k b ->
  a_count (merge a b) = a_count (merge b a) /\ a_sum (merge a b) = a_sum (merge b a)
  /\ a_min (merge a b) = a_min (merge b a) /\ a_max (merge a b) = a_max (merge b a).
Proof.
  intros k a b Hk [A1 [A2 _]] [B1 [B2 _]]. cbn [merge a_count a_sum a_min a_max].
  repeat split; try lia.
  - exact (mmin_comm k _ _ Hk A1 B1).
  - exact (mmax_comm k _ _ Hk A2 B2).
Qed.
