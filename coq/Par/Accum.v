(** C17 — model of MergeableAccumulator (parallel/merge.rs l.32-194) and of the global aggregate of
    operators/push/aggregate.rs.  No proofs.

    [sum]/[sum_squared] are f64 in the code; the model keeps them in Z, which is exact as long as
    every numeric input is an integer and every partial sum stays below 2^53 in magnitude
    (the harness generates such inputs).  Float sums in general are out of scope (re-association
    changes rounding). *)
From Coq Require Import List ZArith Bool.
From GV Require Import Par.Rows.
Import ListNotations.
Open Scope Z_scope.

Record acc := { a_count : Z; a_sum : Z; a_sumsq : Z;
                a_min : option val; a_max : option val; a_first : option val }.

Definition acc0 : acc := {| a_count := 0; a_sum := 0; a_sumsq := 0; a_min := None; a_max := None; a_first := None |}.

Definition value_to_num (v : val) : option Z :=
  match v with VInt z | VFlt z => Some z | _ => None end.

(** compare_for_min(current, new): does [new] replace [current]?  Since e7fe7cd integers and floats
    are compared as numbers ([a as f64]; exact on the modelled values). *)
Definition lt_min (cur : option val) (new : val) : bool :=
  match cur, new with
  | None, _ => true
  | Some (VInt a), VInt b | Some (VFlt a), VFlt b | Some (VStr a), VStr b
  | Some (VInt a), VFlt b | Some (VFlt a), VInt b => b <? a
  | _, _ => false
  end.
Definition gt_max (cur : option val) (new : val) : bool :=
  match cur, new with
  | None, _ => true
  | Some (VInt a), VInt b | Some (VFlt a), VFlt b | Some (VStr a), VStr b
  | Some (VInt a), VFlt b | Some (VFlt a), VInt b => a <? b
  | _, _ => false
  end.
(** before e7fe7cd: values of different kinds never replace each other *)
Definition lt_min_pre (cur : option val) (new : val) : bool :=
  match cur, new with
  | None, _ => true
  | Some (VInt a), VInt b | Some (VFlt a), VFlt b | Some (VStr a), VStr b => b <? a
  | _, _ => false
  end.

Definition is_none {A} (o : option A) : bool := match o with None => true | _ => false end.

Definition add (a : acc) (v : val) : acc :=
  match v with
  | VNull => a
  | _ =>
      let n := match value_to_num v with Some n => n | None => 0 end in
      {| a_count := a_count a + 1;
         a_sum := a_sum a + n;
         a_sumsq := a_sumsq a + n * n;
         a_min := if is_none (a_min a) || lt_min (a_min a) v then Some v else a_min a;
         a_max := if is_none (a_max a) || gt_max (a_max a) v then Some v else a_max a;
         a_first := if is_none (a_first a) then Some v else a_first a |}
  end.

Definition merge (a b : acc) : acc :=
  {| a_count := a_count a + a_count b;
     a_sum := a_sum a + a_sum b;
     a_sumsq := a_sumsq a + a_sumsq b;
     a_min := match a_min b with
              | Some om => if lt_min (a_min a) om then Some om else a_min a
              | None => a_min a
              end;
     a_max := match a_max b with
              | Some om => if gt_max (a_max a) om then Some om else a_max a
              | None => a_max a
              end;
     a_first := if is_none (a_first a) then a_first b else a_first a |}.

Definition dflt (o : option val) : val := match o with Some v => v | None => VNull end.

Definition finalize_count (a : acc) : val := VInt (a_count a).
Definition finalize_sum (a : acc) : val := if a_count a =? 0 then VNull else VFlt (a_sum a).
Definition finalize_min (a : acc) : val := dflt (a_min a).
Definition finalize_max (a : acc) : val := dflt (a_max a).
Definition finalize_first (a : acc) : val := dflt (a_first a).
(** AVG = sum / count as f64: kept as the exact fraction *)
Definition finalize_avg (a : acc) : option (Z * Z) := if a_count a =? 0 then None else Some (a_sum a, a_count a).

Definition fold_add (vs : list val) (a : acc) : acc := fold_left add vs a.

(** a merge tree over a partition of the input into morsels *)
Inductive mtree := Leaf (vs : list val) | Node (l r : mtree).
Fixpoint flatten (t : mtree) : list val :=
  match t with Leaf vs => vs | Node l r => flatten l ++ flatten r end.
Fixpoint eval (t : mtree) : acc :=
  match t with Leaf vs => fold_add vs acc0 | Node l r => merge (eval l) (eval r) end.

(** MIN before e7fe7cd, as a fold and as a merge of two folds *)
Definition min_step_pre (m : option val) (v : val) : option val :=
  match v with VNull => m | _ => if is_none m || lt_min_pre m v then Some v else m end.
Definition min_fold_pre (vs : list val) : option val := fold_left min_step_pre vs None.
Definition min_merge_pre (a b : option val) : option val :=
  match b with Some om => if lt_min_pre a om then Some om else a | None => a end.

(** comparability class: 0 = NULL, Int64 and Float64 are one class (numbers) *)
Definition cls (v : val) : nat := match v with VFlt _ => 2%nat | _ => kind v end.
(** all non-null values are of one comparability class *)
Definition uniformb (vs : list val) : bool :=
  match filter (fun v => negb (cls v =? 0)%nat) vs with
  | [] => true
  | v :: t => forallb (fun w => (cls w =? cls v)%nat) t
  end.
(** all non-null values are of one kind (integers and floats apart) *)
Definition uniformb_kind (vs : list val) : bool :=
  match filter (fun v => negb (kind v =? 0)%nat) vs with
  | [] => true
  | v :: t => forallb (fun w => (kind w =? kind v)%nat) t
  end.
(** finding class C17-K12 (what is left of C17-K2): the column mixes comparability classes *)
Definition k_mixed_kinds (vs : list val) : bool := negb (uniformb vs).

Definition oval_eqb (a b : option val) : bool :=
  match a, b with None, None => true | Some x, Some y => val_eqb x y | _, _ => false end.
Definition acc_eqb (a b : acc) : bool :=
  (a_count a =? a_count b) && (a_sum a =? a_sum b) && (a_sumsq a =? a_sumsq b)
  && oval_eqb (a_min a) (a_min b) && oval_eqb (a_max a) (a_max b) && oval_eqb (a_first a) (a_first b).

(** ** AggregatePushOperator / SpillableAggregatePushOperator (operators/push/aggregate.rs): GROUP BY
    with one accumulator per aggregate expression and group.  The operator's [Accumulator] is the
    accumulator above without the sum of squares (on the modelled values its add/min/max/first are
    the same functions).  The in-memory operator identifies a group by the 64-bit hashes of its key
    values, the spilling one by the (serialized) key values themselves: the key type is a parameter. *)
Inductive aggf := ACount | ASum | AMin | AMax | AAvg | AFirst.
Record aggexpr := { ag_fn : aggf; ag_col : option nat }.

Definition agg_add (r : row) (e : aggexpr) (a : acc) : acc :=
  match ag_col e with
  | None => {| a_count := a_count a + 1; a_sum := a_sum a; a_sumsq := a_sumsq a;
               a_min := a_min a; a_max := a_max a; a_first := a_first a |}       (* COUNT( * ) *)
  | Some c => match nth_error r c with Some v => add a v | None => a end
  end.
(** AVG = sum / count in binary64: kept as the exact fraction (two cells) *)
Definition agg_fin (e : aggexpr) (a : acc) : list val :=
  match ag_fn e with
  | ACount => [finalize_count a]
  | ASum => [finalize_sum a]
  | AMin => [finalize_min a]
  | AMax => [finalize_max a]
  | AFirst => [finalize_first a]
  | AAvg => if a_count a =? 0 then [VNull] else [VFlt (a_sum a); VInt (a_count a)]
  end.

Fixpoint zipw {A B C} (f : A -> B -> C) (l1 : list A) (l2 : list B) : list C :=
  match l1, l2 with
  | a :: t1, b :: t2 => f a b :: zipw f t1 t2
  | _, _ => []
  end.

Section Group.
  Context {K : Type}.
  Variable keq : K -> K -> bool.
  Variable aggs : list aggexpr.

  (** groups in first-occurrence order: key, key values of the first row of the group, accumulators *)
  Definition gstate := list (K * row * list acc).
  Definition accs0 : list acc := map (fun _ => acc0) aggs.
  Definition step_accs (r : row) (accs : list acc) : list acc := zipw (agg_add r) aggs accs.

  Fixpoint gadd (gs : gstate) (k : K) (kv : row) (r : row) : gstate :=
    match gs with
    | [] => [(k, kv, step_accs r accs0)]
    | (k', kv', accs) :: t =>
        if keq k' k then (k', kv', step_accs r accs) :: t else (k', kv', accs) :: gadd t k kv r
    end.

  (** rows arrive as (group key, key values, row) *)
  Definition group_fold (rows : list (K * row * row)) (gs : gstate) : gstate :=
    fold_left (fun g x => gadd g (fst (fst x)) (snd (fst x)) (snd x)) rows gs.
  Definition group_rows (gs : gstate) : list row :=
    map (fun g => snd (fst g) ++ concat (zipw agg_fin aggs (snd g))) gs.
  (** GROUP BY: one output row per group; global aggregate (no GROUP BY): exactly one row *)
  Definition group_by (rows : list (K * row * row)) : list row := group_rows (group_fold rows []).
  Definition global_agg (rows : list row) : list row :=
    [concat (zipw agg_fin aggs (fold_left (fun accs r => step_accs r accs) rows accs0))].
End Group.
