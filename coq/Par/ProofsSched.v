(** C17 — the result of a parallel run does not depend on the schedule: for ANY assignment of the
    morsels to any number of workers, any processing order and any publication order, the bag of
    output rows of a stateless chain is the sequential result, and per-worker sorted runs merge to
    the sorted input. *)
From Coq Require Import List Arith Bool Lia Permutation Sorted ZArith.
From GV Require Import Par.Merge Par.Morsel Par.Push Par.Sched Par.ProofsHeap Par.ProofsMerge Par.ProofsPush Par.ProofsChain Par.ProofsDistinct.
Import ListNotations.
Local Open Scope nat_scope.

Lemma concat_map_concat : forall {X Y} (f : X -> list Y) (ls : list (list X)),
  concat (map (fun w => concat (map f w)) ls) = concat (map f (concat ls)).
Proof.
  intros X Y f. induction ls as [|l ls IH]; cbn; [reflexivity|].
  rewrite map_app, concat_app, IH. reflexivity.
Qed.

Lemma concat_concat' : forall {X} (ls : list (list (list X))), concat (concat ls) = concat (map (@concat X) ls).
Proof. intros X. induction ls as [|l ls IH]; cbn; [reflexivity|]. rewrite concat_app, IH. reflexivity. Qed.

Lemma perm_concat_map : forall {X Y} (f : X -> list Y) l l', Permutation l l' ->
  Permutation (concat (map f l)) (concat (map f l')).
Proof.
  intros X Y f l l' H. induction H; cbn.
  - reflexivity.
  - apply Permutation_app_head. exact IHPermutation.
  - rewrite !app_assoc. apply Permutation_app_tail. apply Permutation_app_comm.
  - eapply perm_trans; eauto.
Qed.

(** the generic statement: per-morsel processing is a function [f] of the morsel index *)
Theorem schedule_perm_l : forall {Y} (f : nat -> list Y) (nm : nat) (sch : schedule),
  valid_schedule nm sch ->
  Permutation (concat (map (fun w => concat (map f w)) sch)) (concat (map f (seq 0 nm))).
Proof.
  intros Y f nm sch H. rewrite concat_map_concat. apply perm_concat_map. exact H.
Qed.

Lemma chunks_fuel_concat : forall {X} n fuel (l : list X), 0 < n -> length l <= fuel ->
  concat (chunks_fuel fuel n l) = l.
Proof.
  intros X n. induction fuel as [|f IH]; intros l Hn Hl.
  - destruct l; [reflexivity|cbn in Hl; lia].
  - cbn [chunks_fuel]. destruct l as [|x t]; [reflexivity|].
    cbn [concat]. rewrite IH; auto.
    + apply firstn_skipn.
    + rewrite skipn_length. cbn [length] in *. lia.
Qed.
Lemma chunks_of_concat : forall {X} n (l : list X), 0 < n -> concat (chunks_of n l) = l.
Proof. intros. unfold chunks_of. apply chunks_fuel_concat; auto. Qed.

Lemma in_firstn : forall {X} n (l : list X) x, In x (firstn n l) -> In x l.
Proof. intros X. induction n as [|n IH]; intros [|y l] x H; cbn in *; try tauto. destruct H; auto. Qed.
Lemma in_skipn : forall {X} n (l : list X) x, In x (skipn n l) -> In x l.
Proof. intros X. induction n as [|n IH]; intros [|y l] x H; cbn in *; try tauto. right. auto. Qed.
Lemma slice_in : forall {X} (xs : list X) m x, In x (slice xs m) -> In x xs.
Proof. intros X xs m x H. unfold slice in H. apply in_firstn in H. apply in_skipn in H. exact H. Qed.

Section SchedProofs.
  Context {R K : Type}.
  Variable keq : K -> K -> bool.
  Notation opk := (@opk R K).

  (** chains without state: any number of filters and projections *)
  Definition stateless (ks : list opk) : Prop := forallb (@stateless_op R K) ks = true.
  Notation chain_spec := (chain_spec keq).

  Lemma stateless_cons : forall (k : opk) (ks : list opk), stateless (k :: ks) -> stateless_op k = true /\ stateless ks.
  Proof. intros k ks H. unfold stateless in *. cbn in H. apply andb_true_iff in H. exact H. Qed.

  Lemma chain_spec_cons : forall (k : opk) (ks : list opk) (rows : list R), chain_spec (k :: ks) rows = chain_spec ks (spec keq k rows).
  Proof. reflexivity. Qed.

  Lemma stateless_spec_app : forall (k : opk), stateless_op k = true -> forall (a b : list R), spec keq k (a ++ b) = spec keq k a ++ spec keq k b.
  Proof. intros k H a b. destruct k; try discriminate; cbn; [apply filter_app|apply map_app]. Qed.
  Lemma stateless_spec_nil : forall (k : opk), stateless_op k = true -> spec keq k [] = [].
  Proof. intros k H. destruct k; try discriminate; reflexivity. Qed.

  Lemma stateless_app : forall ks, stateless ks -> forall a b, chain_spec ks (a ++ b) = chain_spec ks a ++ chain_spec ks b.
  Proof.
    induction ks as [|k ks IH]; intros H a b; [reflexivity|].
    apply stateless_cons in H. destruct H as [Hk Hks].
    rewrite !chain_spec_cons, stateless_spec_app by exact Hk. apply IH. exact Hks.
  Qed.
  Lemma stateless_nil : forall ks, stateless ks -> chain_spec ks [] = [].
  Proof.
    induction ks as [|k ks IH]; intro H; [reflexivity|].
    apply stateless_cons in H. destruct H as [Hk Hks].
    rewrite chain_spec_cons, stateless_spec_nil by exact Hk. apply IH. exact Hks.
  Qed.
  Lemma stateless_concat : forall ks, stateless ks -> forall ls, chain_spec ks (concat ls) = concat (map (chain_spec ks) ls).
  Proof.
    intros ks H. induction ls as [|l ls IH]; cbn [concat map]; [apply stateless_nil; exact H|].
    rewrite (stateless_app ks H), IH. reflexivity.
  Qed.

  Lemma stateless_push : forall (k : opk) s c, stateless_op k = true -> push keq k s c = (s, keep (spec keq k c), true).
  Proof. intros k s c H. destruct k; try discriminate; reflexivity. Qed.

  Lemma keep_nil_iff : forall (c : list R), keep c = [] -> c = [].
  Proof. intros [|x c] H; [reflexivity|discriminate]. Qed.

  (** one chunk through a stateless chain: the chunk of the specification (dropped when empty), continue *)
  Lemma push_through_stateless : forall ks, stateless ks -> forall ss c,
    exists ss', push_through keq ks ss c = (ss', keep (chain_spec ks c), true).
  Proof.
    induction ks as [|k ks IH]; intros H ss c.
    - exists []. reflexivity.
    - apply stateless_cons in H. destruct H as [Hk Hks].
      cbn [push_through]. rewrite (stateless_push k (hd_st ss) c Hk). rewrite chain_spec_cons.
      destruct ks as [|k2 ks'].
      + eexists. reflexivity.
      + cbn [negb orb].
        destruct (spec keq k c) as [|x t] eqn:E.
        * cbn [keep]. rewrite (stateless_nil (k2 :: ks') Hks). eexists. reflexivity.
        * cbn [keep concat]. rewrite app_nil_r.
          destruct (IH Hks (tl ss) (x :: t)) as [ss' E2]. rewrite E2. eexists. reflexivity.
  Qed.

  Lemma push_all_stateless_out : forall ks, stateless ks -> forall cs ss,
    concat (snd (push_all keq ks ss cs)) = chain_spec ks (concat cs).
  Proof.
    intros ks H. induction cs as [|c r IH]; intro ss.
    - cbn. symmetry. apply stateless_nil. exact H.
    - cbn [push_all concat]. rewrite (stateless_app ks H).
      destruct (push_through_stateless ks H ss c) as [ss' E]. rewrite E.
      specialize (IH ss'). destruct (push_all keq ks ss' r) as [ss'' o2]. cbn [snd] in *.
      rewrite concat_app, concat_keep, IH. reflexivity.
  Qed.

  Lemma push_all_nil : forall (ks : list opk) ss, push_all keq ks ss [] = (ss, []).
  Proof. reflexivity. Qed.

  Lemma finalize_all_stateless : forall ks, stateless ks -> forall ss, finalize_all keq ks ss = [].
  Proof.
    induction ks as [|k ks IH]; intros H ss; [reflexivity|].
    apply stateless_cons in H. destruct H as [Hk Hks].
    cbn [finalize_all].
    assert (F : finish k (hd_st ss) = []) by (destruct k; try discriminate; reflexivity).
    rewrite F. destruct ks as [|k2 ks']; [reflexivity|].
    rewrite push_all_nil. cbn [app]. apply IH. exact Hks.
  Qed.

  Lemma push_all_stateless : forall ks, stateless ks -> forall cs ss,
    concat (snd (push_all keq ks ss cs)) = chain_spec ks (concat cs)
    /\ finalize_all keq ks (fst (push_all keq ks ss cs)) = [].
  Proof.
    intros ks H cs ss. split; [apply push_all_stateless_out; exact H|apply finalize_all_stateless; exact H].
  Qed.

  Lemma worker_rows : forall csize (rows : list R) ms mine, 0 < csize ->
    concat (concat (map (fun i => morsel_chunks csize rows (nth i ms dummy_morsel)) mine))
    = concat (map (fun i => slice rows (nth i ms dummy_morsel)) mine).
  Proof.
    intros csize rows ms mine Hc. induction mine as [|i t IH]; cbn; [reflexivity|].
    rewrite concat_app, IH. unfold morsel_chunks. rewrite chunks_of_concat by exact Hc. reflexivity.
  Qed.

  Lemma worker_stateless : forall ks, stateless ks -> forall csize rows ms mine, 0 < csize ->
    concat (worker_run keq ks csize rows ms mine)
    = concat (map (fun i => chain_spec ks (slice rows (nth i ms dummy_morsel))) mine).
  Proof.
    intros ks H csize rows ms mine Hc. unfold worker_run.
    set (cs := concat (map (fun i => morsel_chunks csize rows (nth i ms dummy_morsel)) mine)).
    destruct (push_all_stateless ks H cs (init_chain ks)) as [I1 I2].
    destruct (push_all keq ks (init_chain ks) cs) as [ss o]. cbn [fst snd] in *.
    rewrite I2, app_nil_r, I1. unfold cs. rewrite worker_rows by exact Hc.
    rewrite (stateless_concat ks H), map_map. reflexivity.
  Qed.

  Lemma map_nth_seq_m : forall (ms : list morsel), map (fun i => nth i ms dummy_morsel) (seq 0 (length ms)) = ms.
  Proof.
    intro ms. apply nth_ext with (d := dummy_morsel) (d' := dummy_morsel).
    - rewrite map_length, seq_length. reflexivity.
    - intros n Hn. rewrite map_length, seq_length in Hn.
      rewrite (nth_indep _ dummy_morsel (nth (length ms) ms dummy_morsel)) by (rewrite map_length, seq_length; exact Hn).
      rewrite (map_nth (fun i => nth i ms dummy_morsel)). rewrite seq_nth by exact Hn. reflexivity.
  Qed.

  (** any schedule, any number of workers: the output bag of a stateless chain is the sequential result *)
  Theorem schedule_independent_l : forall ks, forallb (@stateless_op R K) ks = true ->
    forall csize (rows : list R) ms sch, 0 < csize ->
    concat (map (slice rows) ms) = rows ->            (* the morsels cover the rows: morsels_cover_rows *)
    valid_schedule (length ms) sch ->
    Permutation (concat (parallel_run keq ks csize rows ms sch)) (chain_spec ks rows).
  Proof.
    intros ks H csize rows ms sch Hc Hcov Hv. unfold parallel_run.
    rewrite concat_concat', map_map.
    rewrite (map_ext _ (fun w => concat (map (fun i => chain_spec ks (slice rows (nth i ms dummy_morsel))) w)))
      by (intro w; apply worker_stateless; auto).
    eapply perm_trans; [apply (schedule_perm_l (fun i => chain_spec ks (slice rows (nth i ms dummy_morsel))) (length ms) sch Hv)|].
    rewrite <- (map_map (fun i => slice rows (nth i ms dummy_morsel)) (chain_spec ks)).
    rewrite <- (map_map (fun i => nth i ms dummy_morsel) (slice rows)).
    rewrite map_nth_seq_m.
    rewrite <- (stateless_concat ks H), Hcov. reflexivity.
  Qed.

  (** the sequential run (one worker, morsels in order) gives the specification exactly, in order *)
  Theorem sequential_run_spec_l : forall ks, forallb (@stateless_op R K) ks = true ->
    forall csize (rows : list R) ms, 0 < csize -> concat (map (slice rows) ms) = rows ->
    concat (sequential_run keq ks csize rows ms) = chain_spec ks rows.
  Proof.
    intros ks H csize rows ms Hc Hcov. unfold sequential_run.
    rewrite (worker_stateless ks H) by exact Hc.
    rewrite <- (map_map (fun i => slice rows (nth i ms dummy_morsel)) (chain_spec ks)).
    rewrite <- (map_map (fun i => nth i ms dummy_morsel) (slice rows)).
    rewrite map_nth_seq_m.
    rewrite <- (stateless_concat ks H), Hcov. reflexivity.
  Qed.

  (** *** chains without any LIMIT (filters, projections, DISTINCTs, sorts in any order): a worker
      computes the sequential chain on the rows of its own morsels, whatever the chunk size *)
  Definition no_limit (ks : list opk) : bool := forallb (fun k => negb (is_limit k)) ks.

  Lemma push_no_limit_true : forall (k : opk) s c, is_limit k = false -> snd (push keq k s c) = true.
  Proof.
    intros k s c H. destruct k; try discriminate; cbn [Push.push snd]; try reflexivity.
    destruct (fresh keq key (s_seen s) c). reflexivity.
  Qed.

  Lemma push_through_no_limit : forall (ks : list opk), no_limit ks = true -> forall ss c,
    snd (push_through keq ks ss c) = true.
  Proof.
    induction ks as [|k ks IH]; intros H ss c; [reflexivity|].
    unfold no_limit in H. cbn [forallb] in H. apply andb_true_iff in H. destruct H as [H1 H2].
    apply negb_true_iff in H1. cbn [push_through].
    pose proof (push_no_limit_true k (hd_st ss) c H1) as P.
    destruct (push keq k (hd_st ss) c) as [[s' out] cont]. cbn [snd] in P. subst cont.
    destruct ks as [|k2 ks']; [reflexivity|]. cbn [negb orb].
    destruct out as [|o1 ot]; [reflexivity|].
    specialize (IH H2 (tl ss) (concat (o1 :: ot))).
    destruct (push_through keq (k2 :: ks') (tl ss) (concat (o1 :: ot))) as [[ss' o] c']. cbn [snd] in *. exact IH.
  Qed.

  Lemma push_all_drive_chain : forall (ks : list opk), no_limit ks = true -> forall cs ss,
    push_all keq ks ss cs = drive_chain keq ks ss cs.
  Proof.
    intros ks H. induction cs as [|c r IH]; intro ss; [reflexivity|].
    cbn [push_all drive_chain]. pose proof (push_through_no_limit ks H ss c) as P.
    destruct (push_through keq ks ss c) as [[ss' o] cont]. cbn [snd] in P. subst cont. rewrite IH. reflexivity.
  Qed.

  Lemma no_limit_inner : forall (ks : list opk), no_limit ks = true -> no_inner_limit ks = true.
  Proof.
    induction ks as [|k ks IH]; intro H; [reflexivity|].
    unfold no_limit in H. cbn [forallb] in H. apply andb_true_iff in H. destruct H as [H1 H2].
    destruct ks as [|k2 ks']; [reflexivity|].
    change (Push.no_inner_limit (k :: k2 :: ks')) with (negb (is_limit k) && Push.no_inner_limit (k2 :: ks')).
    rewrite H1. apply IH. exact H2.
  Qed.

  Theorem worker_run_spec_l : forall (ks : list opk), forallb (fun k => negb (is_limit k)) ks = true ->
    forall csize (rows : list R) ms mine, 0 < csize ->
    concat (worker_run keq ks csize rows ms mine)
    = Push.chain_spec keq ks (concat (map (fun i => slice rows (nth i ms dummy_morsel)) mine)).
  Proof.
    intros ks H csize rows ms mine Hc. unfold worker_run.
    set (cs := concat (map (fun i => morsel_chunks csize rows (nth i ms dummy_morsel)) mine)).
    rewrite (push_all_drive_chain ks H).
    pose proof (chain_no_inner_limit_l keq ks (no_limit_inner ks H) cs) as P. unfold run_chain in P.
    destruct (drive_chain keq ks (init_chain ks) cs) as [ss o]. rewrite P. unfold cs.
    rewrite worker_rows by exact Hc. reflexivity.
  Qed.

  (** *** per-worker sort, then the k-way merge of the workers' runs *)
  Variable cmp : R -> R -> comparison.
  Variable P : R -> Prop.
  Hypothesis leb_total : forall a b, P a -> P b -> leb cmp a b = true \/ leb cmp b a = true.
  Hypothesis leb_trans : forall a b c, P a -> P b -> P c ->
      leb cmp a b = true -> leb cmp b c = true -> leb cmp a c = true.

  Lemma push_all_sort : forall cs s,
    snd (push_all keq [OSort cmp] [s] cs) = []
    /\ exists s', fst (push_all keq [OSort cmp] [s] cs) = [s'] /\ s_buf s' = s_buf s ++ concat cs.
  Proof.
    induction cs as [|c r IH]; intro s.
    - cbn. split; auto. exists s. rewrite app_nil_r. auto.
    - cbn [push_all push_through Push.push hd_st].
      set (s1 := {| s_passed := s_passed s; s_seen := s_seen s; s_buf := s_buf s ++ c |}).
      destruct (IH s1) as [I1 [s' [I2 I3]]]. destruct (push_all keq [OSort cmp] [s1] r) as [ss o]. cbn [fst snd] in *.
      subst o. split; [reflexivity|]. exists s'. split; auto. rewrite I3. cbn. rewrite app_assoc. reflexivity.
  Qed.

  Lemma worker_sort : forall csize rows ms mine, 0 < csize ->
    worker_run keq [OSort cmp] csize rows ms mine
    = keep (isort cmp (concat (map (fun i => slice rows (nth i ms dummy_morsel)) mine))).
  Proof.
    intros csize rows ms mine Hc. unfold worker_run.
    set (cs := concat (map (fun i => morsel_chunks csize rows (nth i ms dummy_morsel)) mine)).
    cbn [init_chain map].
    destruct (push_all_sort cs st0) as [I1 [s' [I2 I3]]].
    destruct (push_all keq [OSort cmp] [st0] cs) as [ss o]. cbn [fst snd] in *. subst o ss.
    cbn [app finalize_all hd_st finish]. rewrite I3. cbn [st0 s_buf app]. unfold cs.
    rewrite worker_rows by exact Hc. reflexivity.
  Qed.

  Theorem schedule_sort_l : forall csize (rows : list R) ms sch, 0 < csize -> Forall P rows ->
    concat (map (slice rows) ms) = rows -> valid_schedule (length ms) sch ->
    let parts := parallel_run keq [OSort cmp] csize rows ms sch in
    StronglySorted (fun a b => leb cmp a b = true) (merge_sorted_runs cmp parts)
    /\ Permutation (merge_sorted_runs cmp parts) rows.
  Proof.
    intros csize rows ms sch Hc HP Hcov Hv. cbn zeta.
    set (parts := parallel_run keq [OSort cmp] csize rows ms sch).
    assert (Hperm : Permutation (concat parts) rows).
    { unfold parts, parallel_run. rewrite concat_concat', map_map.
      rewrite (map_ext _ (fun w => isort cmp (concat (map (fun i => slice rows (nth i ms dummy_morsel)) w)))).
      2:{ intro w. rewrite worker_sort by exact Hc. apply concat_keep. }
      eapply perm_trans.
      { instantiate (1 := concat (map (fun w => concat (map (fun i => slice rows (nth i ms dummy_morsel)) w)) sch)).
        clear. induction sch as [|w t IH]; cbn; auto. apply Permutation_app; auto. apply isort_perm. }
      eapply perm_trans; [apply (schedule_perm_l (fun i => slice rows (nth i ms dummy_morsel)) (length ms) sch Hv)|].
      rewrite <- (map_map (fun i => nth i ms dummy_morsel) (slice rows)).
      rewrite map_nth_seq_m, Hcov. reflexivity. }
    assert (HPp : Forall P (concat parts)) by (eapply Permutation_Forall; [apply Permutation_sym; exact Hperm|exact HP]).
    assert (Hs : Forall (fun r => sortedb cmp r = true) parts).
    { apply Forall_forall. intros r Hr. unfold parts, parallel_run in Hr.
      apply in_concat in Hr. destruct Hr as [w [Hw Hr]]. apply in_map_iff in Hw. destruct Hw as [mine [<- _]].
      rewrite worker_sort in Hr by exact Hc.
      set (l := concat (map (fun i => slice rows (nth i ms dummy_morsel)) mine)) in *.
      assert (Pl : Forall P l).
      { unfold l. apply Forall_forall. intros y Hy. apply in_concat in Hy. destruct Hy as [sl [Hsl Hy]].
        apply in_map_iff in Hsl. destruct Hsl as [i [<- _]]. rewrite Forall_forall in HP. apply HP.
        eapply slice_in; eauto. }
      destruct (isort cmp l) as [|x t] eqn:E; [destruct Hr|]. destruct Hr as [<-|[]].
      rewrite <- E. apply (strong_sortedb cmp). apply (isort_sorted cmp P leb_total leb_trans). exact Pl. }
    destruct (merge_sorted_runs_spec cmp P leb_total leb_trans parts HPp Hs) as [S1 S2].
    split; [exact S1|]. eapply perm_trans; eauto.
  Qed.
End SchedProofs.

(** *** per-worker DISTINCT, then the distinct merge: the sequential DISTINCT as a set, for any schedule *)
Theorem schedule_distinct_l : forall {R : Type} (req : R -> R -> bool),
  (forall a b, req a b = true <-> a = b) ->
  forall csize (rows : list R) ms sch, 0 < csize ->
  concat (map (slice rows) ms) = rows -> valid_schedule (length ms) sch ->
  Permutation (dedup req (fun r => r) [] (concat (parallel_run req [ODistinct (fun r : R => r)] csize rows ms sch)))
              (dedup req (fun r => r) [] rows).
Proof.
  intros R req Hreq csize rows ms sch Hc Hcov Hv. unfold parallel_run.
  rewrite concat_concat', map_map.
  rewrite (map_ext _ (fun w => dedup req (fun r => r) [] (concat (map (fun i => slice rows (nth i ms dummy_morsel)) w)))).
  2:{ intro w. rewrite (worker_run_spec_l req [ODistinct (fun r : R => r)] eq_refl csize rows ms w Hc). reflexivity. }
  rewrite <- (map_map (fun w => concat (map (fun i => slice rows (nth i ms dummy_morsel)) w)) (dedup req (fun r => r) [])).
  apply (distinct_schedule_independent_l req Hreq).
  eapply perm_trans; [apply (schedule_perm_l (fun i => slice rows (nth i ms dummy_morsel)) (length ms) sch Hv)|].
  rewrite <- (map_map (fun i => nth i ms dummy_morsel) (slice rows)).
  rewrite map_nth_seq_m, Hcov. reflexivity.
Qed.
