(** C17 — the result of a parallel run does not depend on the schedule: for ANY assignment of the
    morsels to any number of workers, any processing order and any publication order, the bag of
    output rows of a stateless chain is the sequential result, and per-worker sorted runs merge to
    the sorted input. *)
From Coq Require Import List Arith Bool Lia Permutation Sorted ZArith.
From GV Require Import Par.Merge Par.Morsel Par.Push Par.Sched Par.ProofsHeap Par.ProofsMerge Par.ProofsPush Par.ProofsChain Par.ProofsDistinct
     Par.ProofsExt Par.ProofsStable.
Import ListNotations.
Local Open Scope nat_scope.

Lemma concat_map_concat : forall {X Y} (f : X -> list Y) (ls : list (list X)),
  concat (map (fun w => concat (map f w)) ls) = concat (map f (concat ls)).
Proof.
  intros X Y f. induction ls as [|l ls IH]; cbn; [reflexivity|].
  rewrite map_app, concat_app, IH. reflexivity.
Qed.

Lemma concat_concat' : forall {X} (ls : list (list (list X))), concat (concat ls) = concat (map (@concat X) ls).
Proof. intros X. induction ls as [|l ls IH]; cbn; [reflexivity|]. rewrite concat_app, IH. reflexivity. Qed.

Lemma perm_concat_map : forall {X Y} (f : X -> list Y) l l', Permutation l l' ->
  Permutation (concat (map f l)) (concat (map f l')).
Proof.
  intros X Y f l l' H. induction H; cbn.
  - reflexivity.
  - apply Permutation_app_head. exact IHPermutation.
  - rewrite !app_assoc. apply Permutation_app_tail. apply Permutation_app_comm.
  - eapply perm_trans; eauto.
Qed.

(** the generic statement: per-morsel processing is a function [f] of the morsel index *)
Theorem schedule_perm_l : forall {Y} (f : nat -> list Y) (nm : nat) (sch : schedule),
  valid_schedule nm sch ->
  Permutation (concat (map (fun w => concat (map f w)) sch)) (concat (map f (seq 0 nm))).
Proof.
  intros Y f nm sch H. rewrite concat_map_concat. apply perm_concat_map. exact H.
Qed.

Lemma in_firstn : forall {X} n (l : list X) x, In x (firstn n l) -> In x l.
Proof. intros X. induction n as [|n IH]; intros [|y l] x H; cbn in *; try tauto. destruct H; auto. Qed.
Lemma in_skipn : forall {X} n (l : list X) x, In x (skipn n l) -> In x l.
Proof. intros X. induction n as [|n IH]; intros [|y l] x H; cbn in *; try tauto. right. auto. Qed.
Lemma slice_in : forall {X} (xs : list X) m x, In x (slice xs m) -> In x xs.
Proof. intros X xs m x H. unfold slice in H. apply in_firstn in H. apply in_skipn in H. exact H. Qed.

Section SchedProofs.
  Context {R K : Type}.
  Variable keq : K -> K -> bool.
  Notation opk := (@opk R K).

  (** chains without state: any number of filters and projections *)
  Definition stateless (ks : list opk) : Prop := forallb (@stateless_op R K) ks = true.
  Notation chain_spec := (chain_spec keq).

  Lemma stateless_cons : forall (k : opk) (ks : list opk), stateless (k :: ks) -> stateless_op k = true /\ stateless ks.
  Proof. intros k ks H. unfold stateless in *. cbn in H. apply andb_true_iff in H. exact H. Qed.

  Lemma chain_spec_cons : forall (k : opk) (ks : list opk) (rows : list R), chain_spec (k :: ks) rows = chain_spec ks (spec keq k rows).
  Proof. reflexivity. Qed.

  Lemma stateless_spec_app : forall (k : opk), stateless_op k = true -> forall (a b : list R), spec keq k (a ++ b) = spec keq k a ++ spec keq k b.
  Proof. intros k H a b. destruct k; try discriminate; cbn; [apply filter_app|apply map_app]. Qed.
  Lemma stateless_spec_nil : forall (k : opk), stateless_op k = true -> spec keq k [] = [].
  Proof. intros k H. destruct k; try discriminate; reflexivity. Qed.

  Lemma stateless_app : forall ks, stateless ks -> forall a b, chain_spec ks (a ++ b) = chain_spec ks a ++ chain_spec ks b.
  Proof.
    induction ks as [|k ks IH]; intros H a b; [reflexivity|].
    apply stateless_cons in H. destruct H as [Hk Hks].
    rewrite !chain_spec_cons, stateless_spec_app by exact Hk. apply IH. exact Hks.
  Qed.
  Lemma stateless_nil : forall ks, stateless ks -> chain_spec ks [] = [].
  Proof.
    induction ks as [|k ks IH]; intro H; [reflexivity|].
    apply stateless_cons in H. destruct H as [Hk Hks].
    rewrite chain_spec_cons, stateless_spec_nil by exact Hk. apply IH. exact Hks.
  Qed.
  Lemma stateless_concat : forall ks, stateless ks -> forall ls, chain_spec ks (concat ls) = concat (map (chain_spec ks) ls).
  Proof.
    intros ks H. induction ls as [|l ls IH]; cbn [concat map]; [apply stateless_nil; exact H|].
    rewrite (stateless_app ks H), IH. reflexivity.
  Qed.

  Lemma worker_rows : forall csize (rows : list R) ms mine, 0 < csize ->
    concat (concat (map (fun i => morsel_chunks csize rows (nth i ms dummy_morsel)) mine))
    = concat (map (fun i => slice rows (nth i ms dummy_morsel)) mine).
  Proof.
    intros csize rows ms mine Hc. induction mine as [|i t IH]; cbn; [reflexivity|].
    rewrite concat_app, IH. unfold morsel_chunks. rewrite chunks_of_concat by exact Hc. reflexivity.
  Qed.


  (** *** ANY chain (filters, projections, DISTINCTs, sorts, LIMITs): a worker pushes every chunk of its
      morsels whatever the chain answers, then finalizes: it computes the sequential chain on the rows
      of its own morsels, whatever the chunk size *)
  Theorem worker_run_spec_l : forall (ks : list opk) csize (rows : list R) ms mine, 0 < csize ->
    concat (worker_run keq ks csize rows ms mine)
    = chain_spec ks (concat (map (fun i => slice rows (nth i ms dummy_morsel)) mine)).
  Proof.
    intros ks csize rows ms mine Hc. unfold worker_run.
    set (cs := concat (map (fun i => morsel_chunks csize rows (nth i ms dummy_morsel)) mine)).
    pose proof (total_run_spec keq ks cs) as T. unfold total_run in T.
    destruct (push_all keq ks (init_chain ks) cs) as [ss o]. cbn [fst snd] in T. rewrite T. unfold cs.
    rewrite worker_rows by exact Hc. reflexivity.
  Qed.

  Lemma worker_stateless : forall ks, stateless ks -> forall csize rows ms mine, 0 < csize ->
    concat (worker_run keq ks csize rows ms mine)
    = concat (map (fun i => chain_spec ks (slice rows (nth i ms dummy_morsel))) mine).
  Proof.
    intros ks H csize rows ms mine Hc. rewrite worker_run_spec_l by exact Hc.
    rewrite (stateless_concat ks H), map_map. reflexivity.
  Qed.

  Lemma map_nth_seq_m : forall (ms : list morsel), map (fun i => nth i ms dummy_morsel) (seq 0 (length ms)) = ms.
  Proof.
    intro ms. apply nth_ext with (d := dummy_morsel) (d' := dummy_morsel).
    - rewrite map_length, seq_length. reflexivity.
    - intros n Hn. rewrite map_length, seq_length in Hn.
      rewrite (nth_indep _ dummy_morsel (nth (length ms) ms dummy_morsel)) by (rewrite map_length, seq_length; exact Hn).
      rewrite (map_nth (fun i => nth i ms dummy_morsel)). rewrite seq_nth by exact Hn. reflexivity.
  Qed.

  (** any schedule, any number of workers: the output bag of a stateless chain is the sequential result *)
  Theorem schedule_independent_l : forall ks, forallb (@stateless_op R K) ks = true ->
    forall csize (rows : list R) ms sch, 0 < csize ->
    concat (map (slice rows) ms) = rows ->            (* the morsels cover the rows: morsels_cover_rows *)
    valid_schedule (length ms) sch ->
    Permutation (concat (parallel_run keq ks csize rows ms sch)) (chain_spec ks rows).
  Proof.
    intros ks H csize rows ms sch Hc Hcov Hv. unfold parallel_run.
    rewrite concat_concat', map_map.
    rewrite (map_ext _ (fun w => concat (map (fun i => chain_spec ks (slice rows (nth i ms dummy_morsel))) w)))
      by (intro w; apply worker_stateless; auto).
    eapply perm_trans; [apply (schedule_perm_l (fun i => chain_spec ks (slice rows (nth i ms dummy_morsel))) (length ms) sch Hv)|].
    rewrite <- (map_map (fun i => slice rows (nth i ms dummy_morsel)) (chain_spec ks)).
    rewrite <- (map_map (fun i => nth i ms dummy_morsel) (slice rows)).
    rewrite map_nth_seq_m.
    rewrite <- (stateless_concat ks H), Hcov. reflexivity.
  Qed.

  (** the sequential run (one worker, morsels in order) gives the specification exactly, in order *)
  Theorem sequential_run_spec_l : forall ks, forallb (@stateless_op R K) ks = true ->
    forall csize (rows : list R) ms, 0 < csize -> concat (map (slice rows) ms) = rows ->
    concat (sequential_run keq ks csize rows ms) = chain_spec ks rows.
  Proof.
    intros ks H csize rows ms Hc Hcov. unfold sequential_run.
    rewrite (worker_stateless ks H) by exact Hc.
    rewrite <- (map_map (fun i => slice rows (nth i ms dummy_morsel)) (chain_spec ks)).
    rewrite <- (map_map (fun i => nth i ms dummy_morsel) (slice rows)).
    rewrite map_nth_seq_m.
    rewrite <- (stateless_concat ks H), Hcov. reflexivity.
  Qed.

  (** *** per-worker sort, then the k-way merge of the workers' sorted chunks *)
  Variable cmp : R -> R -> comparison.
  Variable P : R -> Prop.
  Hypothesis cmp_antisym : forall a b, P a -> P b -> cmp b a = CompOpp (cmp a b).
  Hypothesis leb_trans : forall a b c, P a -> P b -> P c ->
      leb cmp a b = true -> leb cmp b c = true -> leb cmp a c = true.
  Notation sorted := (StronglySorted (le cmp)).

  Lemma sorted_firstn : forall n (l : list R), sorted l -> sorted (firstn n l).
  Proof.
    induction n as [|n IH]; intros l H; [constructor|]. destruct l as [|x t]; [constructor|].
    inversion H as [|? ? Hs Hf]; subst. cbn [firstn]. constructor; [apply IH; exact Hs|].
    rewrite Forall_forall in *. intros y Hy. apply Hf. eapply in_firstn. exact Hy.
  Qed.
  Lemma sorted_skipn : forall n (l : list R), sorted l -> sorted (skipn n l).
  Proof.
    induction n as [|n IH]; intros l H; [exact H|]. destruct l as [|x t]; [constructor|].
    inversion H; subst. cbn [skipn]. apply IH. assumption.
  Qed.
  Lemma chunks_fuel_sorted : forall fuel n (l : list R), sorted l -> Forall sorted (chunks_fuel fuel n l).
  Proof.
    induction fuel as [|f IH]; intros n l H; [constructor|]. cbn [chunks_fuel].
    destruct l as [|x t]; [constructor|]. constructor; [apply sorted_firstn; exact H|].
    apply IH. apply sorted_skipn. exact H.
  Qed.

  Theorem schedule_sort_l : forall csize (rows : list R) ms sch, 0 < csize -> Forall P rows ->
    concat (map (slice rows) ms) = rows -> valid_schedule (length ms) sch ->
    let parts := parallel_run keq [OSort cmp] csize rows ms sch in
    merge_sorted_runs cmp parts = isort cmp (concat parts)
    /\ StronglySorted (fun a b => leb cmp a b = true) (merge_sorted_runs cmp parts)
    /\ Permutation (merge_sorted_runs cmp parts) rows.
  Proof.
    intros csize rows ms sch Hc HP Hcov Hv. cbn zeta.
    set (parts := parallel_run keq [OSort cmp] csize rows ms sch).
    assert (Hperm : Permutation (concat parts) rows).
    { unfold parts, parallel_run. rewrite concat_concat', map_map.
      rewrite (map_ext _ (fun w => isort cmp (concat (map (fun i => slice rows (nth i ms dummy_morsel)) w)))).
      2:{ intro w. rewrite worker_run_spec_l by exact Hc. reflexivity. }
      eapply perm_trans.
      { instantiate (1 := concat (map (fun w => concat (map (fun i => slice rows (nth i ms dummy_morsel)) w)) sch)).
        clear. induction sch as [|w t IH]; cbn; auto. apply Permutation_app; auto. apply isort_perm. }
      eapply perm_trans; [apply (schedule_perm_l (fun i => slice rows (nth i ms dummy_morsel)) (length ms) sch Hv)|].
      rewrite <- (map_map (fun i => nth i ms dummy_morsel) (slice rows)).
      rewrite map_nth_seq_m, Hcov. reflexivity. }
    assert (HPp : Forall P (concat parts)) by (eapply Permutation_Forall; [apply Permutation_sym; exact Hperm|exact HP]).
    assert (Hs : Forall (fun r => sortedb cmp r = true) parts).
    { apply Forall_forall. intros r Hr. unfold parts, parallel_run in Hr.
      apply in_concat in Hr. destruct Hr as [w [Hw Hr]]. apply in_map_iff in Hw. destruct Hw as [mine [<- _]].
      unfold worker_run in Hr. cbn [init_chain map] in Hr.
      set (cs := concat (map (fun i => morsel_chunks csize rows (nth i ms dummy_morsel)) mine)) in *.
      rewrite push_all_single in Hr. destruct (outs_sort keq cmp cs st0) as [E1 E2]. rewrite E1 in Hr.
      cbn [app Push.finalize_all hd_st Push.finish] in Hr. rewrite E2 in Hr. cbn [st0 s_buf app] in Hr.
      set (l := concat cs) in *.
      assert (Pl : Forall P l).
      { unfold l, cs. rewrite worker_rows by exact Hc. apply Forall_forall. intros y Hy. apply in_concat in Hy.
        destruct Hy as [sl [Hsl Hy]]. apply in_map_iff in Hsl. destruct Hsl as [i [<- _]].
        rewrite Forall_forall in HP. apply HP. eapply slice_in; eauto. }
      assert (Sl : sorted (isort cmp l))
        by (apply (isort_sorted cmp P (leb_total_of_antisym cmp P cmp_antisym) leb_trans); exact Pl).
      pose proof (chunks_fuel_sorted (length (isort cmp l)) 2048 (isort cmp l) Sl) as F.
      rewrite Forall_forall in F. apply (strong_sortedb cmp). apply F. exact Hr. }
    pose proof (merge_sorted_runs_stable_l cmp P cmp_antisym leb_trans parts HPp Hs) as E.
    split; [exact E|]. rewrite E. split.
    - apply (isort_sorted cmp P (leb_total_of_antisym cmp P cmp_antisym) leb_trans). exact HPp.
    - eapply perm_trans; [apply isort_perm|exact Hperm].
  Qed.
End SchedProofs.

(** *** per-worker DISTINCT, then the distinct merge: the sequential DISTINCT as a set, for any schedule *)
Theorem schedule_distinct_l : forall {R : Type} (req : R -> R -> bool),
  (forall a b, req a b = true <-> a = b) ->
  forall csize (rows : list R) ms sch, 0 < csize ->
  concat (map (slice rows) ms) = rows -> valid_schedule (length ms) sch ->
  Permutation (dedup req (fun r => r) [] (concat (parallel_run req [ODistinct (fun r : R => r)] csize rows ms sch)))
              (dedup req (fun r => r) [] rows).
Proof.
  intros R req Hreq csize rows ms sch Hc Hcov Hv. unfold parallel_run.
  rewrite concat_concat', map_map.
  rewrite (map_ext _ (fun w => dedup req (fun r => r) [] (concat (map (fun i => slice rows (nth i ms dummy_morsel)) w)))).
  2:{ intro w. rewrite (worker_run_spec_l req [ODistinct (fun r : R => r)] csize rows ms w Hc). reflexivity. }
  rewrite <- (map_map (fun w => concat (map (fun i => slice rows (nth i ms dummy_morsel)) w)) (dedup req (fun r => r) [])).
  apply (distinct_schedule_independent_l req Hreq).
  eapply perm_trans; [apply (schedule_perm_l (fun i => slice rows (nth i ms dummy_morsel)) (length ms) sch Hv)|].
  rewrite <- (map_map (fun i => nth i ms dummy_morsel) (slice rows)).
  rewrite map_nth_seq_m, Hcov. reflexivity.
Qed.
