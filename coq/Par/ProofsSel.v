(** C17 — input chunks with a selection vector: when every physical row is selected (the selection
    is 0..len-1, or there is none) [push_sel_pre] is [push]; so the flat-chunk theorems apply to exactly
    those inputs, and finding C17-K9 concerns the others. *)
From Coq Require Import List Arith Bool Lia.
From GV Require Import Par.Merge Par.Push.
Import ListNotations.
Local Open Scope nat_scope.

Section SelProofs.
  Context {R K : Type}.
  Variable keq : K -> K -> bool.
  Notation opk := (@opk R K).
  Notation opst := (@opst R K).

  Fixpoint imap_from {Y} (a : nat) (g : nat -> R -> list Y) (l : list R) : list Y :=
    match l with [] => [] | r :: t => g a r ++ imap_from (S a) g t end.

  Lemma flat_map_seq_nth : forall {Y} (g : nat -> R -> list Y) l pre post,
    flat_map (fun i => match nth_error (pre ++ l ++ post) i with Some r => g i r | None => [] end)
             (seq (length pre) (length l))
    = imap_from (length pre) g l.
  Proof.
    intros Y g. induction l as [|r t IH]; intros pre post; [reflexivity|].
    cbn [length seq flat_map imap_from].
    rewrite nth_error_app2 by lia. rewrite Nat.sub_diag. cbn [app nth_error].
    f_equal.
    specialize (IH (pre ++ [r]) post). rewrite app_length in IH. cbn [length] in IH. rewrite Nat.add_1_r in IH.
    rewrite <- app_assoc in IH. cbn [app] in IH. exact IH.
  Qed.

  Lemma imap_ext : forall {Y} (g h : nat -> R -> list Y) l a,
    (forall i r, a <= i < a + length l -> g i r = h i r) -> imap_from a g l = imap_from a h l.
  Proof.
    intros Y g h. induction l as [|r t IH]; intros a H; [reflexivity|]. cbn [imap_from length] in *.
    rewrite (H a r) by lia. f_equal. apply IH. intros i r' Hi. apply H. lia.
  Qed.

  Lemma imap_all : forall l a, imap_from a (fun _ r => [r]) l = l.
  Proof. induction l as [|r t IH]; intro a; cbn [imap_from app]; [reflexivity|]. rewrite IH. reflexivity. Qed.

  Lemma imap_filter : forall (p : R -> bool) l a, imap_from a (fun _ r => if p r then [r] else []) l = filter p l.
  Proof.
    intros p. induction l as [|r t IH]; intro a; cbn [imap_from filter]; [reflexivity|].
    rewrite IH. destruct (p r); reflexivity.
  Qed.

  Lemma memb_seq : forall n a i, memb i (seq a n) = (a <=? i) && (i <? a + n).
  Proof.
    unfold memb. induction n as [|n IH]; intros a i; cbn [seq existsb].
    - destruct (Nat.leb_spec a i), (Nat.ltb_spec i (a + 0)); try reflexivity; lia.
    - rewrite IH. destruct (Nat.eqb_spec i a), (Nat.leb_spec a i), (Nat.leb_spec (S a) i), (Nat.ltb_spec i (S a + n)),
        (Nat.ltb_spec i (a + S n)); try reflexivity; lia.
  Qed.

  Lemma sel_rows_prefix : forall (phys : list R) n, n <= length phys -> sel_rows phys (seq 0 n) = firstn n phys.
  Proof.
    intros phys n Hn. unfold sel_rows.
    pose proof (flat_map_seq_nth (fun _ r => [r]) (firstn n phys) [] (skipn n phys)) as H. cbn [app length] in H.
    rewrite firstn_skipn, firstn_length_le in H by exact Hn. rewrite H. apply imap_all.
  Qed.

  (** [pick] with the first n rows selected: the qualifying rows among the first m <= n *)
  Lemma pick_prefix : forall (phys : list R) n m (q : nat -> R -> bool), m <= n -> n <= length phys ->
    pick phys (seq 0 n) m q = imap_from 0 (fun i r => if q i r then [r] else []) (firstn m phys).
  Proof.
    intros phys n m q Hm Hn. unfold pick.
    pose proof (flat_map_seq_nth (fun i r => if memb i (seq 0 n) && q i r then [r] else [])
                                 (firstn m phys) [] (skipn m phys)) as H.
    cbn [app length] in H. rewrite firstn_skipn, firstn_length_le in H by lia. rewrite H.
    apply imap_ext. intros i r Hi. rewrite firstn_length_le in Hi by lia.
    rewrite memb_seq. destruct (Nat.leb_spec 0 i), (Nat.ltb_spec i (0 + n)); try reflexivity; lia.
  Qed.

  (** DISTINCT: the indices collected over the full selection are those of the fresh rows *)
  Lemma fresh_idx_spec : forall (key : R -> K) l pre post seen,
    fst (fresh_idx keq key seen (pre ++ l ++ post) (seq (length pre) (length l))) = fst (fresh keq key seen l)
    /\ (forall i, In i (snd (fresh_idx keq key seen (pre ++ l ++ post) (seq (length pre) (length l)))) ->
                  length pre <= i < length pre + length l)
    /\ imap_from (length pre)
         (fun i r => if memb i (snd (fresh_idx keq key seen (pre ++ l ++ post) (seq (length pre) (length l)))) then [r] else []) l
       = snd (fresh keq key seen l).
  Proof.
    intros key. induction l as [|r t IH]; intros pre post seen.
    - cbn. split; [reflexivity|]. split; [intros i []|reflexivity].
    - cbn [length seq fresh_idx fresh].
      rewrite nth_error_app2 by lia. rewrite Nat.sub_diag. cbn [app nth_error].
      assert (E : pre ++ r :: t ++ post = (pre ++ [r]) ++ t ++ post) by (rewrite <- app_assoc; reflexivity).
      assert (L : S (length pre) = length (pre ++ [r])) by (rewrite app_length; cbn; lia).
      destruct (existsb (keq (key r)) seen).
      + rewrite E, L. destruct (IH (pre ++ [r]) post seen) as [I1 [I2 I3]].
        split; [exact I1|]. split.
        * intros i Hi. apply I2 in Hi. rewrite <- L in Hi. cbn [length]. lia.
        * cbn [imap_from]. rewrite <- L in *.
          set (idx := snd (fresh_idx keq key seen ((pre ++ [r]) ++ t ++ post) (seq (S (length pre)) (length t)))) in *.
          assert (M : memb (length pre) idx = false).
          { unfold memb. destruct (existsb (Nat.eqb (length pre)) idx) eqn:Ex; [|reflexivity].
            apply existsb_exists in Ex. destruct Ex as [j [Hj Ej]]. apply Nat.eqb_eq in Ej. subst j.
            apply I2 in Hj. lia. }
          rewrite M. cbn [app]. exact I3.
      + rewrite E, L. destruct (IH (pre ++ [r]) post (key r :: seen)) as [I1 [I2 I3]].
        rewrite <- L in *.
        destruct (fresh_idx keq key (key r :: seen) ((pre ++ [r]) ++ t ++ post) (seq (S (length pre)) (length t))) as [s' o] eqn:Ef.
        destruct (fresh keq key (key r :: seen) t) as [s'' o'] eqn:Eg.
        cbn [fst snd] in *. split; [exact I1|]. split.
        * intros i [<-|Hi]; [cbn [length]; lia|]. apply I2 in Hi. cbn [length]. lia.
        * cbn [imap_from]. unfold memb at 1. cbn [existsb]. rewrite Nat.eqb_refl. cbn [orb app]. f_equal.
          rewrite <- I3. apply imap_ext. intros i r' Hi. unfold memb. cbn [existsb].
          destruct (Nat.eqb_spec i (length pre)); [lia|]. reflexivity.
  Qed.

  Lemma imap_limit : forall (l : list R) a, imap_from a (fun _ r => if true then [r] else []) l = l.
  Proof. induction l as [|r t IH]; intro a; cbn [imap_from app]; [reflexivity|]. rewrite IH. reflexivity. Qed.

  (** outside the class of C17-K9 (the selection is a prefix 0..n-1): [push_sel_pre] is [push] on those rows *)
  Theorem push_sel_prefix_l : forall (k : opk) (s : opst) (phys : list R) n, n <= length phys ->
    push_sel_pre keq k s phys (seq 0 n) = push keq k s (firstn n phys).
  Proof.
    intros k s phys n Hn. unfold push_sel_pre. rewrite seq_length.
    assert (Ln : length (firstn n phys) = n) by (apply firstn_length_le; exact Hn).
    destruct k as [p|lim|key|cmp|f]; cbn [Push.push]; rewrite ?Ln.
    - rewrite pick_prefix by lia. rewrite (imap_filter p (firstn n phys) 0). reflexivity.
    - destruct (lim <=? s_passed s); [reflexivity|].
      destruct (Nat.leb_spec n (lim - s_passed s)) as [Hl|Hl].
      + rewrite sel_rows_prefix by exact Hn. reflexivity.
      + rewrite pick_prefix by lia. rewrite imap_limit. rewrite firstn_firstn. rewrite Nat.min_l by lia. reflexivity.
    - pose proof (fresh_idx_spec key (firstn n phys) [] (skipn n phys) (s_seen s)) as H. cbn [app length] in H.
      rewrite firstn_skipn, Ln in H. destruct H as [H1 [H2 H3]].
      destruct (fresh_idx keq key (s_seen s) phys (seq 0 n)) as [seen' idx] eqn:Ef.
      destruct (fresh keq key (s_seen s) (firstn n phys)) as [seen'' o] eqn:Eg. cbn [fst snd] in *. subst seen''.
      rewrite pick_prefix by lia. rewrite H3. reflexivity.
    - rewrite sel_rows_prefix by exact Hn. reflexivity.
    - rewrite sel_rows_prefix by exact Hn. reflexivity.
  Qed.

  Lemma sel_is_prefix_seq : forall sel, sel_is_prefix sel = true -> sel = seq 0 (length sel).
  Proof.
    unfold sel_is_prefix. generalize 0. intros a sel. revert a.
    induction sel as [|j t IH]; intros a H; [reflexivity|].
    apply andb_true_iff in H. destruct H as [H1 H2]. apply Nat.eqb_eq in H1. subst j.
    cbn [length seq]. f_equal. apply IH. exact H2.
  Qed.

  Theorem push_sel_not_k9_l : forall (k : opk) (s : opst) (phys : list R) sel,
    sel_is_prefix sel = true -> length sel <= length phys ->
    push_sel_pre keq k s phys sel = push keq k s (firstn (length sel) phys).
  Proof.
    intros k s phys sel H Hl. rewrite (sel_is_prefix_seq sel H) at 1. apply push_sel_prefix_l. exact Hl.
  Qed.
End SelProofs.

(** the witness of C17-K9 *)
Lemma push_sel_refuted_l : exists (phys : list nat) (sel : list nat),
  k_sel_not_prefix [sel] = true /\
  let k := @OFilter nat unit (fun _ => true) in
  concat (snd (fst (push_sel_pre (fun _ _ : unit => true) k st0 phys sel))) <> spec (fun _ _ : unit => true) k (sel_rows phys sel).
Proof. exists (seq 0 10), (seq 5 5). split; [reflexivity|]. vm_compute. discriminate. Qed.

(** since c37ad07: the operators see the selected rows *)
Lemma push_sel_spec_l : forall {R K} (keq : K -> K -> bool) (k : @opk R K) s phys sel,
  push_sel keq k s phys sel = push keq k s (sel_rows phys sel).
Proof. reflexivity. Qed.

Lemma push_sel_pre_prefix_l : forall {R K} (keq : K -> K -> bool) (k : @opk R K) s (phys : list R) sel,
  sel_is_prefix sel = true -> length sel <= length phys ->
  push_sel_pre keq k s phys sel = push_sel keq k s phys sel.
Proof.
  intros R K keq k s phys sel H Hl. rewrite (push_sel_not_k9_l keq k s phys sel H Hl).
  unfold push_sel. rewrite (sel_is_prefix_seq sel H) at 2. rewrite sel_rows_prefix by exact Hl. reflexivity.
Qed.
