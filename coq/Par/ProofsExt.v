(** C17 — external sort (every way of cutting the input into runs), hash partitions, spill files. *)
From Coq Require Import List Arith Bool Lia Permutation Sorted ZArith.
From GV Require Import Par.Merge Par.ExtSort Par.ProofsHeap Par.ProofsMerge.
Import ListNotations.

Section ExtProofs.
  Context {A : Type}.
  Variable cmp : A -> A -> comparison.
  Variable P : A -> Prop.
  Hypothesis leb_total : forall a b, P a -> P b -> leb cmp a b = true \/ leb cmp b a = true.
  Hypothesis leb_trans : forall a b c, P a -> P b -> P c ->
      leb cmp a b = true -> leb cmp b c = true -> leb cmp a c = true.
  Notation sorted := (StronglySorted (le cmp)).
  Notation isort := (isort cmp).
  Notation eqvb := (eqvb cmp).

  Lemma isort_P : forall l, Forall P l -> Forall P (isort l).
  Proof. intros l H. eapply Permutation_Forall; [apply Permutation_sym, isort_perm|exact H]. Qed.

  (** sorting a suffix first does not change the stable sort *)
  Lemma isort_app_isort : forall a b, Forall P a -> Forall P b -> isort (a ++ isort b) = isort (a ++ b).
  Proof.
    intros a b Pa Pb.
    assert (P1 : Forall P (a ++ isort b)) by (apply Forall_app; split; auto; apply isort_P; auto).
    assert (P2 : Forall P (a ++ b)) by (apply Forall_app; split; auto).
    apply (sorted_unique cmp P leb_total).
    - apply isort_P; auto.
    - apply isort_P; auto.
    - apply (isort_sorted cmp P leb_total leb_trans); auto.
    - apply (isort_sorted cmp P leb_total leb_trans); auto.
    - intros k Pk. rewrite !(filter_isort cmp P leb_total leb_trans) by auto.
      rewrite !filter_app. rewrite (filter_isort cmp P leb_total leb_trans) by auto. reflexivity.
  Qed.

  Lemma isort_concat_isort : forall pieces b, Forall P (concat pieces) -> Forall P b ->
    isort (concat (map isort pieces) ++ b) = isort (concat pieces ++ b).
  Proof.
    intros pieces b Pp Pb.
    assert (P1 : Forall P (concat (map isort pieces))).
    { clear -Pp. induction pieces as [|p ps IH]; cbn in *; auto. apply Forall_app in Pp. destruct Pp.
      apply Forall_app. split; auto. apply isort_P; auto. }
    apply (sorted_unique cmp P leb_total).
    - apply isort_P. apply Forall_app; auto.
    - apply isort_P. apply Forall_app; auto.
    - apply (isort_sorted cmp P leb_total leb_trans). apply Forall_app; auto.
    - apply (isort_sorted cmp P leb_total leb_trans). apply Forall_app; auto.
    - intros k Pk. rewrite !(filter_isort cmp P leb_total leb_trans) by (auto; apply Forall_app; auto).
      rewrite !filter_app. f_equal.
      clear -Pp Pk leb_total leb_trans. induction pieces as [|p ps IH]; cbn in *; auto.
      apply Forall_app in Pp. destruct Pp as [Pp Pps].
      rewrite !filter_app, IH by auto. rewrite (filter_isort cmp P leb_total leb_trans) by auto. reflexivity.
  Qed.

  Lemma concat_snoc : forall (ls : list (list A)) l, concat (ls ++ [l]) = concat ls ++ l.
  Proof. intros. rewrite concat_app. cbn. rewrite app_nil_r. reflexivity. Qed.

  Lemma no_cross_ties_perm_last : forall runs m m', (forall x, In x m' -> In x m) ->
    no_cross_ties cmp (runs ++ [m]) -> no_cross_ties cmp (runs ++ [m']).
  Proof.
    intros runs m m' Hin Hn i j x y Hij Hx Hy.
    assert (T : forall i0 z, In z (nth i0 (runs ++ [m']) []) -> In z (nth i0 (runs ++ [m]) [])).
    { intros i0 z Hz. destruct (Nat.lt_ge_cases i0 (length runs)) as [H|H].
      - rewrite app_nth1 in * by exact H. exact Hz.
      - rewrite app_nth2 in * by exact H. destruct (i0 - length runs) as [|d]; cbn in *; auto.
        all: try (destruct d; destruct Hz). }
    apply (Hn i j); auto.
  Qed.

  (** ExternalSort::merge_all_pre on sorted runs and an arbitrary memory buffer *)
  Theorem merge_all_spec : forall runs mem, Forall P (concat runs ++ mem) -> Forall sorted runs ->
    sorted (merge_all_pre cmp runs mem) /\ Permutation (merge_all_pre cmp runs mem) (concat runs ++ mem)
    /\ (no_cross_ties cmp (runs ++ [mem]) -> merge_all_pre cmp runs mem = isort (concat runs ++ mem)).
  Proof.
    intros runs mem HP Hs. apply Forall_app in HP. destruct HP as [HPr HPm].
    assert (Gen : sorted (kmerge cmp (runs ++ [isort mem]))
                  /\ Permutation (kmerge cmp (runs ++ [isort mem])) (concat runs ++ mem)
                  /\ (no_cross_ties cmp (runs ++ [mem]) -> kmerge cmp (runs ++ [isort mem]) = isort (concat runs ++ mem))).
    { assert (HP' : Forall P (concat (runs ++ [isort mem]))).
      { rewrite concat_snoc. apply Forall_app. split; auto. apply isort_P; auto. }
      assert (Hs' : Forall sorted (runs ++ [isort mem])).
      { apply Forall_app. split; auto. constructor; [|constructor].
        apply (isort_sorted cmp P leb_total leb_trans); auto. }
      destruct (kmerge_sorted_perm cmp P leb_total leb_trans _ HP' Hs') as [S1 S2].
      split; [exact S1|]. split.
      - eapply perm_trans; [exact S2|]. rewrite concat_snoc. apply Permutation_app_head. apply isort_perm.
      - intro Hn. rewrite (kmerge_stable cmp P leb_total leb_trans _ HP' Hs').
        + rewrite concat_snoc. apply isort_app_isort; auto.
        + apply (no_cross_ties_perm_last runs mem); auto.
          intros x Hx. eapply Permutation_in; [apply isort_perm|exact Hx]. }
    destruct runs as [|r [|r2 rs]]; destruct mem as [|m ms]; cbn [merge_all_pre]; try exact Gen.
    - cbn [concat app]. split; [apply (isort_sorted cmp P leb_total leb_trans); auto|].
      split; [apply isort_perm|reflexivity].
    - inversion Hs; subst. cbn [concat]. rewrite !app_nil_r. split; [assumption|]. split; [reflexivity|].
      intros _. symmetry. apply (isort_sorted_id cmp). assumption.
  Qed.

  (** every way of cutting the input into runs (every memory budget) *)
  Theorem external_sort_pieces : forall pieces mem, Forall P (concat pieces ++ mem) ->
    let out := merge_all_pre cmp (map isort pieces) mem in
    sorted out /\ Permutation out (concat pieces ++ mem)
    /\ (no_cross_ties cmp (map isort pieces ++ [mem]) -> out = isort (concat pieces ++ mem)).
  Proof.
    intros pieces mem HP. apply Forall_app in HP. destruct HP as [HPp HPm].
    assert (P1 : Forall P (concat (map isort pieces))).
    { clear -HPp. induction pieces as [|p ps IH]; cbn in *; auto. apply Forall_app in HPp. destruct HPp.
      apply Forall_app. split; auto. apply isort_P; auto. }
    assert (S1 : Forall sorted (map isort pieces)).
    { clear -HPp leb_total leb_trans. induction pieces as [|p ps IH]; cbn in *; constructor.
      - apply Forall_app in HPp. apply (isort_sorted cmp P leb_total leb_trans). tauto.
      - apply Forall_app in HPp. apply IH. tauto. }
    destruct (merge_all_spec (map isort pieces) mem) as [M1 [M2 M3]]; auto.
    { apply Forall_app; auto. }
    cbn zeta. split; [exact M1|]. split.
    - eapply perm_trans; [exact M2|]. apply Permutation_app_tail.
      clear. induction pieces as [|p ps IH]; cbn; auto. apply Permutation_app; auto. apply isort_perm.
    - intro Hn. rewrite (M3 Hn). apply isort_concat_isort; auto.
  Qed.

  (** SpillableSortPushOperator: whatever the chunking and the threshold, the run is an external
      sort of some cutting of the input *)
  Lemma isort_nonnil : forall l, l <> [] -> isort l <> [].
  Proof.
    intros l H E. destruct l as [|x t]; [congruence|]. cbn in E.
    destruct (isort t) as [|y t']; cbn in E; [discriminate|]. destruct (leb cmp x y); discriminate.
  Qed.

  Lemma fold_spush : forall threshold cs s pieces,
    ss_runs s = map isort pieces -> (ss_ext s = false -> pieces = []) ->
    exists pieces', ss_runs (fold_left (spush cmp threshold) cs s) = map isort pieces'
      /\ (ss_ext (fold_left (spush cmp threshold) cs s) = false -> pieces' = [])
      /\ concat pieces' ++ ss_buf (fold_left (spush cmp threshold) cs s) = concat pieces ++ ss_buf s ++ concat cs.
  Proof.
    intros threshold. induction cs as [|c r IH]; intros s pieces Hr He.
    - exists pieces. cbn. rewrite app_nil_r. auto.
    - cbn [fold_left]. destruct c as [|c0 ct].
      + cbn [spush]. destruct (IH s pieces Hr He) as [p' [E1 [E2 E3]]]. exists p'. cbn [concat app]. auto.
      + cbn [spush]. set (buf := ss_buf s ++ c0 :: ct).
        destruct (length buf <? threshold).
        * destruct (IH {| ss_buf := buf; ss_runs := ss_runs s; ss_ext := ss_ext s |} pieces Hr He) as [p' [E1 [E2 E3]]].
          exists p'. split; [exact E1|]. split; [exact E2|]. rewrite E3. cbn [ss_buf concat]. unfold buf.
          rewrite <- !app_assoc. reflexivity.
        * assert (Hb : buf <> []) by (unfold buf; destruct (ss_buf s); discriminate).
          assert (Hsp : spill_sorted_run (ss_runs s) (isort buf) = map isort (pieces ++ [buf])).
          { unfold spill_sorted_run. pose proof (isort_nonnil buf Hb) as Hn.
            destruct (isort buf) eqn:Eb; [congruence|]. rewrite map_app, Hr. cbn. rewrite Eb. reflexivity. }
          rewrite Hsp.
          destruct (IH {| ss_buf := []; ss_runs := map isort (pieces ++ [buf]); ss_ext := true |} (pieces ++ [buf]) eq_refl)
            as [p' [E1 [E2 E3]]]; [cbn; discriminate|].
          exists p'. split; [exact E1|]. split; [exact E2|]. rewrite E3. cbn [ss_buf concat app].
          rewrite concat_snoc. unfold buf. rewrite <- !app_assoc. reflexivity.
  Qed.

  Theorem spill_sort_spec : forall threshold cs, Forall P (concat cs) ->
    let out := spill_sort_pre cmp threshold cs in
    sorted out /\ Permutation out (concat cs)
    /\ (no_cross_ties cmp (spill_runs cmp threshold cs) -> out = isort (concat cs)).
  Proof.
    intros threshold cs HP. cbn zeta. unfold spill_sort_pre, spill_runs, sfinish_pre.
    destruct (fold_spush threshold cs sst0 [] eq_refl (fun _ => eq_refl)) as [pieces [E1 [E2 E3]]].
    cbn [sst0 ss_buf concat app] in E3.
    set (s := fold_left (spush cmp threshold) cs sst0) in *.
    assert (HP' : Forall P (concat pieces ++ ss_buf s)) by (rewrite E3; exact HP).
    assert (Out : (if ss_ext s then merge_all_pre cmp (ss_runs s) (ss_buf s) else isort (ss_buf s))
                  = merge_all_pre cmp (map isort pieces) (ss_buf s)).
    { rewrite E1. destruct (ss_ext s); [reflexivity|]. rewrite (E2 eq_refl). cbn.
      destruct (ss_buf s); reflexivity. }
    rewrite Out. destruct (external_sort_pieces pieces (ss_buf s) HP') as [M1 [M2 M3]].
    rewrite <- E3. split; [exact M1|]. split; [exact M2|].
    intro Hn. apply M3. rewrite E1 in Hn.
    apply (no_cross_ties_perm_last (map isort pieces) (isort (ss_buf s))); auto.
    intros x Hx. eapply Permutation_in; [apply Permutation_sym, isort_perm|exact Hx].
  Qed.
End ExtProofs.

(** ** hash partitions *)
Section PartitionProofs.
  Context {X : Type}.

  Lemma filter_split_perm' : forall (f : X -> bool) l,
    Permutation l (filter (fun e => negb (f e)) l ++ filter f l).
  Proof.
    induction l as [|a l IH]; cbn; auto. destruct (f a); cbn.
    - eapply perm_trans; [apply perm_skip; exact IH|]. apply Permutation_middle.
    - apply perm_skip. exact IH.
  Qed.

  Lemma bucket_perm : forall n (g : X -> nat) l, (forall x, In x l -> g x < n) ->
    Permutation (concat (map (fun p => filter (fun x => g x =? p) l) (seq 0 n))) l.
  Proof.
    induction n as [|n IH]; intros g l H.
    - destruct l as [|x l]; [reflexivity|]. specialize (H x (or_introl eq_refl)). lia.
    - rewrite seq_S, map_app, concat_app. cbn [map concat Nat.add]. rewrite app_nil_r.
      eapply perm_trans; [|apply Permutation_sym, (filter_split_perm' (fun x => g x =? n))].
      apply Permutation_app; [|reflexivity].
      eapply perm_trans; [|apply (IH g (filter (fun e => negb (g e =? n)) l))].
      + assert (E : map (fun p => filter (fun x => g x =? p) l) (seq 0 n)
                  = map (fun p => filter (fun x => g x =? p) (filter (fun e => negb (g e =? n)) l)) (seq 0 n)).
        { apply map_ext_in. intros p Hp. apply in_seq in Hp. clear -Hp.
          induction l as [|e l IHl]; cbn; auto.
          destruct (Nat.eqb_spec (g e) n) as [Hk|Hk]; cbn.
          - destruct (Nat.eqb_spec (g e) p); [lia|]. exact IHl.
          - destruct (g e =? p); [f_equal|]; exact IHl. }
        rewrite E. reflexivity.
      + intros x Hx. apply filter_In in Hx. destruct Hx as [Hx Hn]. specialize (H x Hx).
        destruct (Nat.eqb_spec (g x) n); [discriminate|lia].
  Qed.
End PartitionProofs.

Theorem partition_union_l : forall (Key V : Type) (hash : Key -> Z) (n : nat) (rows : list (Key * V)),
  (0 < n)%nat ->
  Permutation (concat (partition_rows hash n rows)) rows
  /\ (forall k1 k2, hash k1 = hash k2 -> part_of hash n k1 = part_of hash n k2)
  /\ (forall k, (part_of hash n k < n)%nat).
Proof.
  intros Key V hash n rows Hn.
  assert (B : forall k, (part_of hash n k < n)%nat).
  { intro k. unfold part_of. pose proof (Z.mod_pos_bound (hash k) (Z.of_nat n) ltac:(lia)). lia. }
  split; [|split; auto].
  - unfold partition_rows. apply (bucket_perm n (fun kv => part_of hash n (fst kv)) rows).
    intros x _. apply B.
  - intros k1 k2 E. unfold part_of. rewrite E. reflexivity.
Qed.

(** ** spill files *)
Lemma remove_id_not_in : forall i l, ~ In i (remove_id i l).
Proof.
  intros i l H. unfold remove_id in H. apply filter_In in H. destruct H as [_ H].
  rewrite Nat.eqb_refl in H. discriminate.
Qed.
Lemma remove_id_subset : forall i j l, In j (remove_id i l) -> In j l.
Proof. intros i j l H. unfold remove_id in H. apply filter_In in H. tauto. Qed.

Lemma delete_all_disk : forall ids g i, In i (g_disk (fold_left delete_file ids g)) -> In i (g_disk g) /\ ~ In i ids.
Proof.
  induction ids as [|j ids IH]; intros g i H; cbn in *; [tauto|].
  apply IH in H. destruct H as [H1 H2]. cbn in H1. split.
  - eapply remove_id_subset; eauto.
  - intros [->|H3]; [|tauto]. eapply remove_id_not_in; eauto.
Qed.

Theorem spill_files_sort_l : forall s i, In i (f_sort s) -> ~ In i (g_disk (f_mgr (fstep s FSortDrop))).
Proof. intros s i Hi H. cbn in H. apply delete_all_disk in H. tauto. Qed.

Theorem spill_files_drain_l : forall s i, In i (f_part s) -> ~ In i (g_disk (f_mgr (fstep s FPartDrain))).
Proof. intros s i Hi H. cbn in H. apply delete_all_disk in H. tauto. Qed.

Lemma delete_all_active : forall ids g, g_active (fold_left delete_file ids g) = g_active g.
Proof. induction ids as [|j ids IH]; intro g; cbn; auto. rewrite IH. reflexivity. Qed.

Definition disk_in_active (s : fstate) : Prop := forall i, In i (g_disk (f_mgr s)) -> In i (g_active (f_mgr s)).

Lemma fstep_inv : forall s o, disk_in_active s -> disk_in_active (fstep s o).
Proof.
  intros s o H i. destruct o; cbn.
  - intro Hi. apply in_app_or in Hi. apply in_or_app. destruct Hi; [left; apply H|right]; auto.
  - intro Hi. rewrite delete_all_active. apply delete_all_disk in Hi. apply H. tauto.
  - intro Hi. apply in_app_or in Hi. apply in_or_app. destruct Hi; [left; apply H|right]; auto.
  - destruct (f_part s); cbn; [apply H|]. intro Hi. apply remove_id_subset in Hi. apply H. exact Hi.
  - intro Hi. rewrite delete_all_active. apply delete_all_disk in Hi. apply H. tauto.
  - intro Hi. rewrite delete_all_active. apply delete_all_disk in Hi. apply H. tauto.
  - intro Hi. apply filter_In in Hi. destruct Hi as [Hi Hn]. apply H in Hi.
    assert (existsb (Nat.eqb i) (g_active (f_mgr s)) = true) by (apply existsb_exists; exists i; split; auto; apply Nat.eqb_refl).
    rewrite H0 in Hn. discriminate.
Qed.

Lemma frun_inv : forall ops s, disk_in_active s -> disk_in_active (fold_left fstep ops s).
Proof. induction ops as [|o r IH]; intros s H; cbn; auto. apply IH. apply fstep_inv. exact H. Qed.

Theorem spill_files_manager_l : forall ops, g_disk (f_mgr (frun (ops ++ [FMgrCleanup]))) = [].
Proof.
  intros ops. unfold frun. rewrite fold_left_app. cbn [fold_left fstep mgr_cleanup f_mgr g_disk].
  set (s := fold_left fstep ops fstate0).
  assert (H : disk_in_active s) by (apply frun_inv; intros i []).
  destruct (filter (fun j => negb (existsb (Nat.eqb j) (g_active (f_mgr s)))) (g_disk (f_mgr s))) as [|x l] eqn:F; auto.
  assert (I : In x (x :: l)) by (left; reflexivity). rewrite <- F in I. apply filter_In in I. destruct I as [I1 I2].
  apply H in I1.
  assert (existsb (Nat.eqb x) (g_active (f_mgr s)) = true) by (apply existsb_exists; exists x; split; auto; apply Nat.eqb_refl).
  rewrite H0 in I2. discriminate.
Qed.

(** PartitionedState::cleanup / drop removes the files of its spilled partitions (5457c98) *)
Theorem spill_files_partition_l : forall s i, In i (f_part s) -> ~ In i (g_disk (f_mgr (fstep s FPartCleanup))).
Proof. intros s i Hi H. cbn in H. apply delete_all_disk in H. tauto. Qed.

(** every file on disk belongs to the external sort or to the partitioned state: once both are
    cleaned up or dropped nothing is left, without waiting for the manager *)
Definition disk_owned (s : fstate) : Prop := forall i, In i (g_disk (f_mgr s)) -> In i (f_sort s) \/ In i (f_part s).

Lemma fstep_owned : forall s o, disk_owned s -> disk_owned (fstep s o).
Proof.
  intros s o H i. destruct o; cbn.
  - rewrite !in_app_iff. cbn [In]. intros [Hi|[Hi|[]]]; [destruct (H i Hi); auto|auto].
  - intro Hi. apply delete_all_disk in Hi. destruct Hi as [Hi Hn]. destruct (H i Hi); tauto.
  - rewrite !in_app_iff. cbn [In]. intros [Hi|[Hi|[]]]; [destruct (H i Hi); auto|auto].
  - destruct (f_part s) as [|j r] eqn:E; cbn.
    + intro Hi. destruct (H i Hi) as [F|F]; [auto|rewrite E in F; destruct F].
    + intro Hi. pose proof (remove_id_not_in j (g_disk (f_mgr s))) as N.
      assert (Hij : i <> j) by (intro; subst; tauto). apply remove_id_subset in Hi.
      destruct (H i Hi) as [F|F]; [auto|]. rewrite E in F. destruct F as [F|F]; [congruence|auto].
  - intro Hi. apply delete_all_disk in Hi. destruct Hi as [Hi Hn]. destruct (H i Hi); tauto.
  - intro Hi. apply delete_all_disk in Hi. destruct Hi as [Hi Hn]. destruct (H i Hi); tauto.
  - intro Hi. apply filter_In in Hi. destruct Hi as [Hi _]. apply H. exact Hi.
Qed.

Theorem spill_files_all_removed_l : forall ops,
  g_disk (f_mgr (frun (ops ++ [FPartCleanup; FSortDrop]))) = [].
Proof.
  intros ops. unfold frun. rewrite fold_left_app.
  set (s := fold_left fstep ops fstate0).
  assert (H : disk_owned s).
  { unfold s. clear. assert (G : forall l s0, disk_owned s0 -> disk_owned (fold_left fstep l s0)).
    { induction l as [|o r IH]; intros s0 H0; cbn; auto. apply IH. apply fstep_owned. exact H0. }
    apply G. intros i []. }
  cbn [fold_left].
  pose proof (fstep_owned _ FSortDrop (fstep_owned s FPartCleanup H)) as H2.
  destruct (g_disk (f_mgr (fstep (fstep s FPartCleanup) FSortDrop))) as [|x l] eqn:E; [reflexivity|].
  exfalso. destruct (H2 x) as [F|F]; [rewrite E; left; reflexivity| |]; cbn in F; exact F.
Qed.

(** before 5457c98 (C17-K6) *)
Theorem spill_files_pre_refuted_l : exists ops,
  k_part_cleanup_leaves fstate0 ops = true /\ f_sort (frun_pre ops) = [] /\ f_part (frun_pre ops) = []
  /\ disk_count (frun_pre ops) = 1%nat.
Proof. exists [FPartSpill; FPartCleanup]. vm_compute. auto. Qed.
