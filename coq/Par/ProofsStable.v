(** C17 — the merges of the current code (heap entries ordered by row comparison, then run index;
    /repo 2824ade) ARE the stable sort of the concatenated runs, for all sorted runs: the tagged
    comparison has no ties across runs, so the generic theorem [kmerge_stable] applies, and sorting
    (row, run index) pairs whose indices ascend along the list is the stable sort of the rows. *)
From Coq Require Import List Arith Bool Lia Permutation Sorted.
From GV Require Import Par.Merge Par.ExtSort Par.ProofsHeap Par.ProofsMerge Par.ProofsExt.
Import ListNotations.
Local Open Scope nat_scope.

Section Stable.
  Context {A : Type}.
  Variable cmp : A -> A -> comparison.
  Variable P : A -> Prop.
  Hypothesis cmp_antisym : forall a b, P a -> P b -> cmp b a = CompOpp (cmp a b).
  Hypothesis leb_trans : forall a b c, P a -> P b -> P c ->
      leb cmp a b = true -> leb cmp b c = true -> leb cmp a c = true.

  Notation ct := (cmp_tag cmp).
  Notation sorted := (StronglySorted (le cmp)).
  Definition PT (e : A * nat) : Prop := P (fst e).

  Lemma leb_total_of_antisym : forall a b, P a -> P b -> leb cmp a b = true \/ leb cmp b a = true.
  Proof. intros a b Pa Pb. unfold leb. rewrite (cmp_antisym a b Pa Pb). destruct (cmp a b); cbn; auto. Qed.

  Lemma leb_tag : forall x i y j,
    leb ct (x, i) (y, j) = match cmp x y with Lt => true | Eq => i <=? j | Gt => false end.
  Proof.
    intros. unfold leb, cmp_tag. cbn [fst snd]. destruct (cmp x y); auto.
    destruct (Nat.compare_spec i j), (Nat.leb_spec i j); auto; lia.
  Qed.

  Lemma leb_tag_le : forall x i y j, i <= j -> leb ct (x, i) (y, j) = leb cmp x y.
  Proof.
    intros x i y j H. rewrite leb_tag. unfold leb. destruct (cmp x y); auto. apply Nat.leb_le. exact H.
  Qed.

  Lemma ct_total : forall a b, PT a -> PT b -> leb ct a b = true \/ leb ct b a = true.
  Proof.
    intros [x i] [y j] Pa Pb. unfold PT in *. cbn [fst] in *. rewrite !leb_tag, (cmp_antisym x y Pa Pb).
    destruct (cmp x y); cbn; auto. destruct (Nat.leb_spec i j), (Nat.leb_spec j i); auto; lia.
  Qed.

  Lemma ct_trans : forall a b c, PT a -> PT b -> PT c ->
    leb ct a b = true -> leb ct b c = true -> leb ct a c = true.
  Proof.
    intros [x i] [y j] [z k] Pa Pb Pc. unfold PT in *. cbn [fst] in *. rewrite !leb_tag. intros H1 H2.
    pose proof (leb_trans x y z Pa Pb Pc) as T1.
    pose proof (leb_trans z x y Pc Pa Pb) as T2.
    pose proof (leb_trans y z x Pb Pc Pa) as T3.
    unfold leb in T1, T2, T3.
    rewrite (cmp_antisym x z Pa Pc), (cmp_antisym y z Pb Pc) in T2.
    rewrite (cmp_antisym x z Pa Pc), (cmp_antisym x y Pa Pb) in T3.
    destruct (cmp x y), (cmp y z), (cmp x z); cbn in *; try reflexivity; try discriminate;
      try (apply Nat.leb_le in H1; apply Nat.leb_le in H2; apply Nat.leb_le; lia);
      try (specialize (T1 eq_refl eq_refl); discriminate);
      try (specialize (T2 eq_refl eq_refl); discriminate);
      try (specialize (T3 eq_refl eq_refl); discriminate).
  Qed.

  (** *** the tagged runs *)
  Lemma tag_run_sorted : forall i r, sorted r -> StronglySorted (le ct) (map (fun x => (x, i)) r).
  Proof.
    intros i. induction r as [|x t IH]; intro H; cbn [map]; [constructor|].
    inversion H as [|? ? Hs Hf]; subst. constructor; [apply IH; exact Hs|].
    rewrite Forall_forall in *. intros e He. apply in_map_iff in He. destruct He as [y [<- Hy]].
    unfold le. rewrite leb_tag_le by lia. apply Hf. exact Hy.
  Qed.

  Lemma tag_runs_sorted : forall runs i, Forall sorted runs -> Forall (StronglySorted (le ct)) (tag_runs i runs).
  Proof.
    induction runs as [|r rs IH]; intros i H; cbn [tag_runs]; [constructor|].
    inversion H; subst. constructor; [apply tag_run_sorted; assumption|apply IH; assumption].
  Qed.

  Lemma map_fst_tag : forall (i : nat) (r : list A), map fst (map (fun x => (x, i)) r) = r.
  Proof. intros i r. rewrite map_map. cbn. apply map_id. Qed.

  Lemma map_fst_tag_runs : forall (runs : list (list A)) i, map fst (concat (tag_runs i runs)) = concat runs.
  Proof.
    induction runs as [|r rs IH]; intro i; cbn [tag_runs concat]; [reflexivity|].
    rewrite map_app, map_fst_tag, IH. reflexivity.
  Qed.

  Lemma tag_runs_P : forall runs i, Forall P (concat runs) -> Forall PT (concat (tag_runs i runs)).
  Proof.
    intros runs i H. rewrite Forall_forall in *. intros e He. unfold PT. apply H.
    rewrite <- (map_fst_tag_runs runs i). apply in_map. exact He.
  Qed.

  Lemma tag_runs_nth : forall (runs : list (list A)) i a e, In e (nth a (tag_runs i runs) []) -> snd e = i + a.
  Proof.
    induction runs as [|r rs IH]; intros i a e H.
    - destruct a; destruct H.
    - cbn [tag_runs] in H. destruct a as [|a]; cbn [nth] in H.
      + apply in_map_iff in H. destruct H as [x [<- _]]. cbn. lia.
      + apply IH in H. lia.
  Qed.

  Lemma tag_runs_no_ties : forall runs, Forall P (concat runs) -> no_cross_ties ct (tag_runs 0 runs).
  Proof.
    intros runs HP a b [x i] [y j] Hab Hx Hy.
    pose proof (tag_runs_nth runs 0 a _ Hx) as Ex. pose proof (tag_runs_nth runs 0 b _ Hy) as Ey. cbn [snd] in Ex, Ey.
    pose proof (tag_runs_P runs 0 HP) as HPT. rewrite Forall_forall in HPT.
    assert (Px : P x) by (apply (HPT (x, i)); eapply nth_in_concat; eauto).
    assert (Py : P y) by (apply (HPT (y, j)); eapply nth_in_concat; eauto).
    unfold eqvb. rewrite !leb_tag, (cmp_antisym x y Px Py).
    destruct (cmp x y); cbn; auto.
    destruct (Nat.leb_spec i j), (Nat.leb_spec j i); auto; lia.
  Qed.

  (** the run indices ascend along the concatenation of the tagged runs *)
  Notation tag_le := (fun a b : A * nat => snd a <= snd b).

  Lemma ss_app : forall (l1 l2 : list (A * nat)), StronglySorted tag_le l1 -> StronglySorted tag_le l2 ->
    (forall a b, In a l1 -> In b l2 -> snd a <= snd b) -> StronglySorted tag_le (l1 ++ l2).
  Proof.
    induction l1 as [|x t IH]; intros l2 H1 H2 H; cbn [app]; [exact H2|].
    inversion H1 as [|? ? Hs Hf]; subst. constructor.
    - apply IH; auto. intros a b Ha Hb. apply H; [right; exact Ha|exact Hb].
    - apply Forall_app. split; [exact Hf|]. apply Forall_forall. intros b Hb. apply H; [left; reflexivity|exact Hb].
  Qed.

  Lemma tag_runs_mono : forall (runs : list (list A)) i,
    StronglySorted tag_le (concat (tag_runs i runs)) /\ Forall (fun e => i <= snd e) (concat (tag_runs i runs)).
  Proof.
    induction runs as [|r rs IH]; intro i; cbn [tag_runs concat]; [split; constructor|].
    destruct (IH (S i)) as [I1 I2].
    assert (R1 : StronglySorted tag_le (map (fun x : A => (x, i)) r)).
    { clear. induction r as [|x t IHr]; cbn [map]; constructor; auto.
      apply Forall_forall. intros e He. apply in_map_iff in He. destruct He as [y [<- _]]. cbn. lia. }
    assert (R2 : Forall (fun e => snd e = i) (map (fun x : A => (x, i)) r)).
    { apply Forall_forall. intros e He. apply in_map_iff in He. destruct He as [y [<- _]]. reflexivity. }
    rewrite Forall_forall in R2, I2. split.
    - apply ss_app; auto. intros a b Ha Hb. rewrite (R2 a Ha). specialize (I2 b Hb). cbn in I2. lia.
    - apply Forall_app. split; apply Forall_forall; intros e He.
      + rewrite (R2 e He). lia.
      + specialize (I2 e He). cbn in I2. lia.
  Qed.

  (** sorting (row, index) pairs whose indices ascend = the stable sort of the rows (no hypothesis on cmp) *)
  Lemma map_fst_insert : forall (e : A * nat) (S : list (A * nat)), Forall (fun y => snd e <= snd y) S ->
    map fst (insert ct e S) = insert cmp (fst e) (map fst S).
  Proof.
    intros [x i]. induction S as [|[y j] S' IH]; intro H; cbn [insert map fst]; [reflexivity|].
    inversion H as [|? ? Hy Hs]; subst. cbn [snd] in Hy. rewrite (leb_tag_le x i y j Hy).
    destruct (leb cmp x y); cbn [map fst]; [reflexivity|]. f_equal. apply IH. exact Hs.
  Qed.

  Lemma map_fst_isort : forall (L : list (A * nat)), StronglySorted tag_le L ->
    map fst (isort ct L) = isort cmp (map fst L).
  Proof.
    induction L as [|e t IH]; intro H; cbn [isort map]; [reflexivity|].
    inversion H as [|? ? Hs Hf]; subst. rewrite map_fst_insert.
    - rewrite IH by exact Hs. reflexivity.
    - eapply Permutation_Forall; [apply Permutation_sym, (isort_perm ct)|exact Hf].
  Qed.

  (** *** the theorems *)
  Theorem kmerge_st_stable : forall runs, Forall P (concat runs) -> Forall sorted runs ->
    kmerge_st cmp runs = isort cmp (concat runs).
  Proof.
    intros runs HP Hs. unfold kmerge_st.
    rewrite (kmerge_stable ct PT ct_total ct_trans (tag_runs 0 runs) (tag_runs_P runs 0 HP)
                           (tag_runs_sorted runs 0 Hs) (tag_runs_no_ties runs HP)).
    rewrite map_fst_isort by (apply tag_runs_mono). rewrite map_fst_tag_runs. reflexivity.
  Qed.

  Theorem merge_sorted_runs_stable_l : forall runs, Forall P (concat runs) ->
    Forall (fun r => sortedb cmp r = true) runs ->
    merge_sorted_runs cmp runs = isort cmp (concat runs).
  Proof.
    intros runs HP Hb. pose proof (runs_sorted cmp P leb_trans runs HP Hb) as Hs.
    destruct runs as [|r [|r2 rs]].
    - reflexivity.
    - cbn. rewrite app_nil_r. symmetry. apply isort_sorted_id. inversion Hs; auto.
    - apply kmerge_st_stable; auto.
  Qed.

  Theorem merge_sorted_runs_spec_new_l : forall runs, Forall P (concat runs) ->
    Forall (fun r => sortedb cmp r = true) runs ->
    StronglySorted (fun a b => leb cmp a b = true) (merge_sorted_runs cmp runs)
    /\ Permutation (merge_sorted_runs cmp runs) (concat runs).
  Proof.
    intros runs HP Hb. rewrite (merge_sorted_runs_stable_l runs HP Hb). split.
    - apply (isort_sorted cmp P leb_total_of_antisym leb_trans). exact HP.
    - apply isort_perm.
  Qed.

  Theorem merge_all_stable_l : forall runs mem, Forall P (concat runs ++ mem) ->
    Forall (fun r => sortedb cmp r = true) runs ->
    merge_all cmp runs mem = isort cmp (concat runs ++ mem).
  Proof.
    intros runs mem HP Hb. apply Forall_app in HP. destruct HP as [HPr HPm].
    pose proof (runs_sorted cmp P leb_trans runs HPr Hb) as Hs.
    assert (Gen : kmerge_st cmp (runs ++ [isort cmp mem]) = isort cmp (concat runs ++ mem)).
    { rewrite kmerge_st_stable.
      - rewrite concat_snoc. apply (isort_app_isort cmp P leb_total_of_antisym leb_trans); auto.
      - rewrite concat_snoc. apply Forall_app. split; auto. apply isort_P. exact HPm.
      - apply Forall_app. split; auto. constructor; [|constructor].
        apply (isort_sorted cmp P leb_total_of_antisym leb_trans). exact HPm. }
    destruct runs as [|r [|r2 rs]].
    - destruct mem as [|m ms]; reflexivity.
    - destruct mem as [|m ms]; [|exact Gen].
      cbn. rewrite !app_nil_r. symmetry. apply isort_sorted_id. inversion Hs; auto.
    - destruct mem as [|m ms]; exact Gen.
  Qed.

  (** every way of cutting the input into sorted runs + an in-memory rest *)
  Theorem external_sort_stable_l : forall pieces mem, Forall P (concat pieces ++ mem) ->
    merge_all cmp (map (isort cmp) pieces) mem = isort cmp (concat pieces ++ mem).
  Proof.
    intros pieces mem HP. pose proof HP as HP0. apply Forall_app in HP. destruct HP as [HPp HPm].
    assert (P1 : Forall P (concat (map (isort cmp) pieces))).
    { clear -HPp. induction pieces as [|p ps IH]; cbn in *; auto. apply Forall_app in HPp. destruct HPp.
      apply Forall_app. split; auto. apply isort_P; auto. }
    assert (S1 : Forall (fun r => sortedb cmp r = true) (map (isort cmp) pieces)).
    { clear -HPp cmp_antisym leb_trans. induction pieces as [|p ps IH]; cbn in *; constructor.
      - apply Forall_app in HPp. apply strong_sortedb. apply (isort_sorted cmp P leb_total_of_antisym leb_trans). tauto.
      - apply Forall_app in HPp. apply IH. tauto. }
    rewrite merge_all_stable_l; auto.
    - apply (isort_concat_isort cmp P leb_total_of_antisym leb_trans); auto.
    - apply Forall_app. split; auto.
  Qed.

  (** SpillableSortPushOperator: any chunking, any spill threshold *)
  Theorem spill_sort_stable_l : forall threshold cs, Forall P (concat cs) ->
    spill_sort cmp threshold cs = isort cmp (concat cs).
  Proof.
    intros threshold cs HP. unfold spill_sort, sfinish.
    destruct (fold_spush cmp threshold cs sst0 [] eq_refl (fun _ => eq_refl)) as [pieces [E1 [E2 E3]]].
    cbn [sst0 ss_buf concat app] in E3.
    set (s := fold_left (spush cmp threshold) cs sst0) in *.
    assert (HP' : Forall P (concat pieces ++ ss_buf s)) by (rewrite E3; exact HP).
    rewrite <- E3. destruct (ss_ext s) eqn:Ex.
    - rewrite E1. apply external_sort_stable_l. exact HP'.
    - rewrite (E2 eq_refl). reflexivity.
  Qed.
End Stable.
