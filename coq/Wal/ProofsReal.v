(** C05/C06/C07 — the abstract theorems instantiated with CRC-32 and the bincode codecs. *)
From GV Require Import Wal.Spec Wal.ProofsFrame Wal.ProofsRecover Wal.ProofsDb Wal.ProofsSnap Wal.ProofsCodec Wal.ProofsCrash Wal.ProofsReach.
From Coq Require Import Lia ZArith List Bool.
Import ListNotations.
Open Scope Z_scope.

Lemma fits_ok rs : Forall rec_fits rs -> Forall (rec_ok enc_record dec_record_slice) rs.
Proof. intros H. eapply Forall_impl; [|exact H]. intros r (W & L & B). apply rec_wf_ok; assumption. Qed.

Lemma clean_cycle_real_l cfg ss :
  no_crash ss = true -> forallb kclean (real_flags cfg ss) = true -> Forall rec_fits (real_logs cfg ss) ->
  Forall cycle_exact (fst (real_sessions cfg ss)).
Proof.
  intros Hc Hk Hf. apply (clean_cycle_l crc32 enc_record dec_record_slice crc32_range cfg ss Hc Hk).
  apply fits_ok, Hf.
Qed.

Lemma crash_recovers_last_close_real_l cfg ss st os d' :
  no_crash ss = true -> forallb kclean (real_flags cfg ss) = true ->
  snd (real_sessions cfg ss) = ROk st ->
  Forall rec_fits (real_logs cfg ss ++ ops_logs crc32 enc_record cfg st os) ->
  forallb (fun o => negb (is_cp_op o)) os = true ->
  w_seq (db_w (fst (real_ops cfg st os))) = w_seq (db_w st) ->
  crash (wdrop (db_w (fst (real_ops cfg st os)))) d' ->
  exists st2, real_open d' = ROk st2 /\ db_store st2 = db_store st.
Proof.
  intros Hc Hk Hr Hf. apply (crash_recovers_last_close_l crc32 enc_record dec_record_slice crc32_range cfg ss st os d' Hc Hk Hr).
  apply fits_ok, Hf.
Qed.

Lemma import_export_real_l s :
  snap_wf (snapshot_of s) -> store_wf s -> epoch_clean s = true ->
  exists c, import dec_snapshot (export enc_snapshot s) = IOk c /\ dump c latest = dump s latest
            /\ dump c (s_epoch c) = dump s latest.
Proof. intros W. apply import_export_l, snap_wf_carried, W. Qed.

(** every store built through the API, outside class C07-K1: import of the export and
    to_memory dump exactly as the source *)
Lemma api_store_copies_l os :
  let s := fst (run_store os) in
  k07_1 s = false -> snap_wf (snapshot_of s) ->
  (exists c, import dec_snapshot (export enc_snapshot s) = IOk c /\ dump c latest = dump s latest
             /\ dump c (s_epoch c) = dump s latest)
  /\ dump (to_memory s) latest = dump s latest.
Proof.
  cbv zeta. intros K W. pose proof (api_store_wf os) as WF. pose proof (api_store_clean os K) as C. split.
  - apply import_export_real_l; assumption.
  - apply to_memory_l; assumption.
Qed.
