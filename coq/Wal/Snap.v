(** C07 — model of [export_snapshot] / [import_snapshot] / [to_memory] / [save]
    (grafeo-engine/src/database.rs l.1536-1760).  Definitions only.

    All four enumerate the source with [all_nodes()] / [all_edges()], i.e. what is visible
    at the store's own epoch counter, and rebuild with [create_*_with_id] + [set_*_property].
    The snapshot byte codec (bincode of the private [Snapshot] struct) is a Section variable. *)
From GV Require Export Wal.Db.
Open Scope Z_scope.

Record snapshot := mkSnap { sn_version : Z; sn_nodes : list dnode; sn_edges : list dedge }.

(** [Snapshot { version: 1, nodes: all_nodes().., edges: all_edges().. }] *)
Definition snapshot_of (s : store) : snapshot :=
  mkSnap 1 (dump_nodes s (s_epoch s)) (dump_edges s (s_epoch s)).

(** the two rebuilding loops shared by import, to_memory and save *)
Definition build_node (s : store) (n : dnode) : store :=
  let '(id, labels, ps) := n in set_props_node (st_create_node_with_id s id labels) id ps.
Definition build_edge (s : store) (e : dedge) : store :=
  let '(id, src, dst, ty, ps) := e in set_props_edge (st_create_edge_with_id s id src dst ty) id ps.
Definition build (sn : snapshot) : store :=
  fold_left build_edge (sn_edges sn) (fold_left build_node (sn_nodes sn) empty_store).

(** [to_memory()] *)
Definition to_memory (s : store) : store := build (snapshot_of s).

(** the records [save()] appends to the target's log, in order *)
Definition node_records (n : dnode) : list record :=
  let '(id, labels, ps) := n in CreateNode id labels :: map (fun kv => SetNodeProperty id (fst kv) (snd kv)) ps.
Definition edge_records (e : dedge) : list record :=
  let '(id, src, dst, ty, ps) := e in CreateEdge id src dst ty :: map (fun kv => SetEdgeProperty id (fst kv) (snd kv)) ps.
Definition save_records (s : store) : list record :=
  flat_map node_records (sn_nodes (snapshot_of s)) ++ flat_map edge_records (sn_edges (snapshot_of s)).

Inductive ires := IOk (s : store) | IErr | IPanic.

(** before commit 1b18953 [create_node_with_id] / [create_edge_with_id] computed [id + 1] for the
    id counter: the largest id overflowed (a panic in the overflow-checked build profiles) *)
Definition names_max_id (sn : snapshot) : bool :=
  existsb (fun n : dnode => fst (fst n) =? id_max) (sn_nodes sn)
  || existsb (fun e : dedge => fst (fst (fst (fst e))) =? id_max) (sn_edges sn).

Section Snap.
  Variable enc_snap : snapshot -> bytes.
  (** [bincode::serde::decode_from_slice]: the value and the number of bytes consumed *)
  Variable dec_snap : bytes -> option (snapshot * nat).

  Definition export (s : store) : bytes := enc_snap (snapshot_of s).

  (** [import_snapshot]: decoding completes (or fails) before the first insert; bytes behind the
      snapshot are an error (commit 0d0a061); only version 1 is accepted.  (The decoder's
      allocation limit of 2^30 bytes, commit 1800c6f, is not modelled: the model decoder never
      reads beyond its input.) *)
  Definition import (bs : bytes) : ires :=
    match dec_snap bs with
    | None => IErr
    | Some (sn, n) =>
        if (n <? length bs)%nat then IErr
        else if sn_version sn =? 1 then IOk (build sn) else IErr
    end.
  (** before the repairs 0d0a061 and 1b18953: the number of consumed bytes was ignored and the
      largest identifier made the id counter overflow *)
  Definition import_pre (bs : bytes) : ires :=
    match dec_snap bs with
    | None => IErr
    | Some (sn, _) =>
        if sn_version sn =? 1 then (if names_max_id sn then IPanic else IOk (build sn)) else IErr
    end.
End Snap.

(** the snapshot codec carries [sn]: decoding its encoding returns it and its length, whatever
    follows (the premise of the C07 theorems; Wal/Codec.v satisfies it on well-formed snapshots) *)
Definition snap_carried (enc_snap : snapshot -> bytes) (dec_snap : bytes -> option (snapshot * nat)) (sn : snapshot) : Prop :=
  forall rest, dec_snap (enc_snap sn ++ rest) = Some (sn, length (enc_snap sn)).

Section Save.
  Variable crc : bytes -> Z.
  Variable enc : record -> bytes.
  Variable dec : bytes -> option record.
  (** [save(path)] into an empty directory, then [open(path)] *)
  Definition save_disk (cfg : wcfg) (s : store) : disk :=
    let st0 := db_fresh in
    let st1 := mkDb (build (snapshot_of s)) (db_tm st0) (wlog_all crc enc cfg (db_w st0) (save_records s)) in
    wdrop (db_w (db_close crc enc cfg st1)).
  Definition save_open (cfg : wcfg) (s : store) : rres store :=
    match db_open crc dec (save_disk cfg s) with
    | RErr => RErr
    | ROk st => ROk (db_store st)
    end.
End Save.

(** every live entity is visible at the store's own epoch (nothing was created by a
    transaction that started after the first commit) and every deletion happened at or before it *)
Definition epoch_ok (ep created : Z) (deleted : option Z) : bool :=
  match deleted with None => created <=? ep | Some d => d <=? ep end.
Definition epoch_clean (s : store) : bool :=
  (s_epoch s <=? latest)
  && forallb (fun '(_, n) => epoch_ok (s_epoch s) (n_created n) (n_deleted n)) (s_nodes s)
  && forallb (fun '(_, x) => epoch_ok (s_epoch s) (e_created x) (e_deleted x)) (s_edges s).

(** distinct keys everywhere: ids in the node and edge maps, labels of a node, property keys of
    an entity (every store built through the API is so: Wal/ProofsReach.v) *)
Definition props_ok (ps : props) : Prop := NoDup (map fst ps).
Definition store_wf (s : store) : Prop :=
  NoDup (map fst (s_nodes s)) /\ NoDup (map fst (s_edges s))
  /\ (forall kv, In kv (s_nodes s) -> NoDup (n_labels (snd kv)))
  /\ (forall id, props_ok (props_of id (s_nprops s))) /\ (forall id, props_ok (props_of id (s_eprops s))).
