(** C05/C06 — model of [WalRecovery::recover] / [recover_internal]
    (grafeo-adapters/src/storage/wal/recovery.rs l.77-178).  Definitions only. *)
From GV Require Export Wal.Disk.
Open Scope Z_scope.

(** state of the commit-marker machine: ([current_tx_records], [committed_records]) *)
Definition smstate := (list record * list record)%type.

(** the [match &record] of the replay loop *)
Definition sm_step (st : smstate) (r : record) : smstate :=
  let (pend, comm) := st in
  match r with
  | TxCommit _ => ([], comm ++ pend ++ [r])     (* publish the pending records, then the marker *)
  | TxAbort _ => ([], comm)                      (* discard *)
  | Checkpoint _ => ([], comm ++ [r])            (* "clear uncommitted, keep committed" *)
  | _ => (pend ++ [r], comm)
  end.
Definition sm_run (st : smstate) (rs : list record) : smstate := fold_left sm_step rs st.

(** a record the codec carries faithfully: it decodes to itself and fits the 32-bit length field
    of a frame (the premise of the theorems about files the writer produced; the concrete codec
    of Wal/Codec.v satisfies it on well-formed records shorter than 4 GiB) *)
Definition id_max : Z := 2 ^ 64 - 1.
(** the record does not create the entity with the largest identifier (after which the id counter,
    which saturates, could only hand that identifier out again) *)
Definition rec_ids_below (r : record) : Prop :=
  match r with CreateNode id _ | CreateEdge id _ _ _ => id < id_max | _ => True end.
Definition rec_ok (enc : record -> bytes) (dec : bytes -> option record) (r : record) : Prop :=
  dec (enc r) = Some r /\ lenZ (enc r) < two32 /\ rec_ids_below r.

Inductive rres (A : Type) := ROk (a : A) | RErr.
Arguments ROk {A} _.
Arguments RErr {A}.

Section Recover.
  Variable crc : bytes -> Z.
  Variable dec : bytes -> option record.

  (** records of one file up to its first EOF/error *)
  Definition file_records (f : file) : list record := fst (parse crc record dec (f_bytes f)).

  (** [min_sequence]: files with a smaller sequence number are skipped *)
  Definition min_seq (m : metafile) : Z :=
    match m with MetaOk c => m_seq c | _ => 0 end.

  (** the [for log_file in log_files] loop: the machine state is carried from file to file;
      a file that ends in an error is abandoned and the next one is read all the same *)
  Fixpoint replay_files (minseq : Z) (fs : list (Z * file)) (st : smstate) : smstate :=
    match fs with
    | [] => st
    | (s, f) :: r =>
        if s <? minseq then replay_files minseq r st
        else replay_files minseq r (sm_run st (file_records f))
    end.

  (** [recover()]: an undecodable checkpoint.meta is the only error; whatever is still
      pending at the end is dropped *)
  Definition recover (d : disk) : rres (list record) :=
    match d_meta d with
    | MetaBad => RErr
    | m => ROk (snd (replay_files (min_seq m) (d_files d) ([], [])))
    end.

  (** the records recovery reads, in order (all files in range, each up to its first error) *)
  Fixpoint disk_records (minseq : Z) (fs : list (Z * file)) : list record :=
    match fs with
    | [] => []
    | (s, f) :: r => if s <? minseq then disk_records minseq r
                     else file_records f ++ disk_records minseq r
    end.
  (** what is left pending (and silently dropped) at the end of recovery *)
  Definition leftover (d : disk) : list record :=
    fst (replay_files (min_seq (d_meta d)) (d_files d) ([], [])).
End Recover.
