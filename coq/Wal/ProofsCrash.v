(** C06 — a crash of a database whose log is a single file: whatever the session did (logged
    or unlogged operations, explicit checkpoints, syncs), reopening any crash image that keeps
    at least what the last close left on disk yields exactly the store of the last close.
    (That is the prefix guarantee — the empty prefix of the session — and, read the other way,
    finding C06-K1: nothing of a session survives a crash, fsynced or not.) *)
From GV Require Import Wal.Frame Wal.Disk Wal.Recover Wal.Db Wal.Snap Wal.Classes Wal.Spec
     Wal.ProofsFrame Wal.ProofsRecover Wal.ProofsDb.
From Coq Require Import Lia ZArith List Bool.
Import ListNotations.
Open Scope Z_scope.

(** every record an API call logs is a data record *)
Lemma op_effect_data s t o s1 t1 rs res : op_effect s t o = (s1, t1, rs, res) -> forallb is_data rs = true.
Proof.
  destruct o; cbn [op_effect]; intros E.
  - unfold st_create_node in E. injection E as <- <- <- <-. reflexivity.
  - unfold st_create_node in E. injection E as <- <- <- <-. cbn. apply data_setnode.
  - assert (C : forallb is_data (snd (if node_visible s id then delete_edges s (incident_edges s id) else (s, []))) = true).
    { destruct (node_visible s id); [apply delete_edges_apply|reflexivity]. }
    destruct (if node_visible s id then delete_edges s (incident_edges s id) else (s, [])) as [s0 ers]. cbn [snd] in C.
    destruct (st_delete_node s0 id) as [s' b]. injection E as <- <- <- <-.
    rewrite forallb_app, C. destruct b; reflexivity.
  - injection E as <- <- <- <-. reflexivity.
  - destruct (st_add_label s id l) as [s' b]. injection E as <- <- <- <-. destruct b; reflexivity.
  - destruct (st_remove_label s id l) as [s' b]. injection E as <- <- <- <-. destruct b; reflexivity.
  - unfold st_create_edge in E. injection E as <- <- <- <-. reflexivity.
  - unfold st_create_edge in E. injection E as <- <- <- <-. cbn. apply data_setedge.
  - destruct (st_delete_edge s id) as [s' b]. injection E as <- <- <- <-. destruct b; reflexivity.
  - injection E as <- <- <- <-. reflexivity.
  - destruct (st_remove_node_prop s id k) as [s' b]. injection E as <- <- <- <-. reflexivity.
  - destruct (st_remove_edge_prop s id k) as [s' b]. injection E as <- <- <- <-. reflexivity.
  - unfold st_create_node in E. injection E as <- <- <- <-. reflexivity.
  - unfold st_create_node in E. injection E as <- <- <- <-. reflexivity.
  - injection E as <- <- <- <-. reflexivity.
  - injection E as <- <- <- <-. reflexivity.
  - injection E as <- <- <- <-. reflexivity.
Qed.

Definition no_commit (rs : list record) : bool := forallb (fun r => negb (is_commit r)) rs.
Lemma data_no_commit rs : forallb is_data rs = true -> no_commit rs = true.
Proof.
  unfold no_commit. induction rs as [|r rs IH]; cbn; intros H; [reflexivity|].
  apply andb_prop in H as [H1 H2]. rewrite (IH H2). destruct r; try discriminate; reflexivity.
Qed.
Lemma no_commit_app a b : no_commit (a ++ b) = no_commit a && no_commit b.
Proof. apply forallb_app. Qed.

(** without a commit marker the machine publishes no data record *)
Lemma sm_run_no_commit rs : forall p c,
  no_commit rs = true -> datas (snd (sm_run (p, c) rs)) = datas c.
Proof.
  induction rs as [|r rs IH]; intros p c H; [reflexivity|].
  cbn [no_commit forallb] in H. apply andb_prop in H as [H1 H2]. cbn [sm_run fold_left].
  destruct r; try discriminate H1; cbn [sm_step];
    match goal with |- context [fold_left sm_step rs ?st] => change (fold_left sm_step rs st) with (sm_run st rs) end;
    rewrite (IH _ _ H2); try reflexivity.
  rewrite datas_app. cbn. apply app_nil_r.
Qed.

Lemma firstn_no_commit k rs : no_commit rs = true -> no_commit (firstn k rs) = true.
Proof.
  revert k. induction rs as [|r rs IH]; intros [|k] H; try reflexivity.
  cbn [firstn no_commit forallb] in *. apply andb_prop in H as [H1 H2]. rewrite H1. apply IH, H2.
Qed.

(** frames of a prefix that lie inside the cut *)
Lemma frames_within_app (a b : list bytes) m :
  frames_within (length (concat (map (fun p => le32 (lenZ p) ++ p ++ le32 0) a)) + m) (a ++ b)
  = (length a + frames_within m b)%nat.
Proof.
  induction a as [|p a IH]; [reflexivity|].
  cbn [map concat app length].
  set (L := length (concat (map (fun p0 => le32 (lenZ p0) ++ p0 ++ le32 0) a))) in *.
  assert (E : length ((le32 (lenZ p) ++ p ++ le32 0) ++ concat (map (fun p0 => le32 (lenZ p0) ++ p0 ++ le32 0) a))
              = (length p + 8 + L)%nat) by (rewrite !app_length, !le32_length; subst L; lia).
  rewrite E. cbn [frames_within].
  replace (length p + 8 <=? length p + 8 + L + m)%nat with true by (symmetry; apply Nat.leb_le; lia).
  replace (length p + 8 + L + m - (length p + 8))%nat with (L + m)%nat by lia.
  rewrite IH. reflexivity.
Qed.

Section CrashProofs.
  Variable crc : bytes -> Z.
  Variable enc : record -> bytes.
  Variable dec : bytes -> option record.
  Hypothesis crc_range : forall p, 0 <= crc p < two32.
  Notation ok := (rec_ok enc dec).
  Notation frames := (frames crc enc).

  (** the length of a file of frames does not depend on the checksum values *)
  Lemma frames_length rs :
    length (frames rs) = length (concat (map (fun p => le32 (lenZ p) ++ p ++ le32 0) (map enc rs))).
  Proof.
    unfold ProofsRecover.frames. induction rs as [|r rs IH]; [reflexivity|].
    cbn [map concat]. rewrite !app_length, IH. unfold frame. rewrite !app_length. reflexivity.
  Qed.

  Lemma frames_within_log log rs n :
    (length (frames log) <= n)%nat -> (length log <= frames_within n (map enc (log ++ rs)))%nat.
  Proof.
    intros H. rewrite map_app. replace n with (length (frames log) + (n - length (frames log)))%nat by lia.
    rewrite frames_length, frames_within_app, map_length. lia.
  Qed.

  (** * the log while a session runs *)
  Definition WInv (st : dbstate) (log : list record) : Prop :=
    single crc enc (db_w st) log /\ meta0 (d_meta (w_disk (db_w st))) /\ Forall ok log.

  Lemma db_step_seq_mono cfg st o : w_seq (db_w st) <= w_seq (db_w (fst (db_step crc enc cfg st o))).
  Proof.
    destruct (is_wal_op o) eqn:W.
    - destruct o; try discriminate W; cbn [db_step].
      + destruct (last_or_begin (db_tm st)) as [tx t1]. cbn [fst db_w]. rewrite wsync_seq.
        pose proof (wlog_seq_mono crc enc cfg (db_w st) (TxCommit tx)).
        pose proof (wlog_cp_seq_mono crc enc cfg (wlog crc enc cfg (db_w st) (TxCommit tx)) tx (s_epoch (db_store st))). lia.
      + cbn. lia.
      + cbn. lia.
    - rewrite (db_step_generic crc enc cfg st o W).
      destruct (op_effect (db_store st) (db_tm st) o) as [[[s1 t1] rs] res]. cbn [fst db_w]. apply wlog_all_seq_mono.
  Qed.

  Lemma run_ops_seq_mono cfg os : forall st, w_seq (db_w st) <= w_seq (db_w (fst (run_ops crc enc cfg st os))).
  Proof.
    induction os as [|o r IH]; intros st; cbn [run_ops]; [cbn; lia|].
    pose proof (db_step_seq_mono cfg st o) as M. destruct (db_step crc enc cfg st o) as [st1 x]. cbn [fst] in M.
    specialize (IH st1). destruct (run_ops crc enc cfg st1 r) as [st2 xs]. cbn [fst] in *. lia.
  Qed.

  Definition no_cp (os : list op) : bool := forallb (fun o => negb (is_cp_op o)) os.

  Lemma db_step_winv cfg st log o :
    is_cp_op o = false ->
    WInv st log -> w_seq (db_w (fst (db_step crc enc cfg st o))) = 0 -> Forall ok (step_logs st o) ->
    WInv (fst (db_step crc enc cfg st o)) (log ++ step_logs st o) /\ no_commit (step_logs st o) = true.
  Proof.
    intros Hcp (S & M & OK) Hseq Hok.
    destruct (is_wal_op o) eqn:W.
    - destruct o; try discriminate W; cbn [db_step Classes.step_logs] in *.
      + discriminate Hcp.
      + cbn [fst db_w] in Hseq. rewrite wrotate_seq, (single_seq crc enc _ _ S) in Hseq. lia.
      + cbn [fst db_w]. destruct (wsync_single crc enc _ _ S) as [S1 M1]. rewrite app_nil_r.
        split; [|reflexivity]. split; [exact S1|]. split; [cbn [db_w]; rewrite M1; exact M|exact OK].
    - rewrite (db_step_generic crc enc cfg st o W) in *.
      assert (SL : step_logs st o = match op_effect (db_store st) (db_tm st) o with (_, _, rs, _) => rs end)
        by (destruct o; try discriminate W; reflexivity).
      destruct (op_effect (db_store st) (db_tm st) o) as [[[s1 t1] rs] res] eqn:OE. rewrite SL in *. cbn [fst db_w] in *.
      destruct (wlog_all_single crc enc cfg rs (db_w st) log S Hseq) as [S1 M1].
      split; [|apply data_no_commit, (op_effect_data _ _ _ _ _ _ _ OE)].
      split; [exact S1|]. split; [cbn [db_w]; rewrite M1; exact M|apply Forall_app; split; assumption].
  Qed.

  Lemma run_ops_winv cfg os : forall st log,
    no_cp os = true ->
    WInv st log -> w_seq (db_w (fst (run_ops crc enc cfg st os))) = 0 -> Forall ok (ops_logs crc enc cfg st os) ->
    WInv (fst (run_ops crc enc cfg st os)) (log ++ ops_logs crc enc cfg st os)
    /\ no_commit (ops_logs crc enc cfg st os) = true.
  Proof.
    induction os as [|o r IH]; intros st log Hncp I Hseq Hok.
    - cbn. rewrite app_nil_r. auto.
    - cbn [run_ops Classes.ops_logs no_cp forallb] in *. apply andb_prop in Hncp as [Hcp Hncp]. apply negb_true_iff in Hcp.
      apply Forall_app in Hok as [Hok1 Hok2].
      pose proof (db_step_winv cfg st log o Hcp I) as SW.
      pose proof (run_ops_seq_mono cfg r (fst (db_step crc enc cfg st o))) as MM.
      pose proof (db_step_seq_mono cfg st o) as M0.
      destruct (db_step crc enc cfg st o) as [st1 x]. cbn [fst] in *.
      destruct (run_ops crc enc cfg st1 r) as [st2 xs] eqn:RO. cbn [fst] in *.
      assert (H1 : w_seq (db_w st1) = 0).
      { destruct I as (S & _). pose proof (single_seq crc enc _ _ S). lia. }
      destruct (SW H1 Hok1) as [I1 N1].
      specialize (IH st1 (log ++ step_logs st o) Hncp I1). rewrite RO in IH. cbn [fst] in IH.
      destruct (IH Hseq Hok2) as [I2 N2]. rewrite <- app_assoc in I2. split; [exact I2|].
      rewrite no_commit_app, N1, N2. reflexivity.
  Qed.


  (** * what was fsynced stays fsynced: the synced length of the single log file never shrinks
      and never exceeds the file *)
  Definition syn_ok (w : wstate) (lo : Z) : Prop :=
    exists f, d_files (w_disk w) = [(0, f)] /\ w_seq w = 0 /\ lo <= f_synced f <= lenZ (f_bytes f).

  Lemma syn_ok_weaken w lo lo' : lo' <= lo -> syn_ok w lo -> syn_ok w lo'.
  Proof. intros H (f & A & B & C). exists f. repeat split; try assumption; lia. Qed.

  Lemma bufw_synced f c : f_synced (bufw_write f c) = f_synced f.
  Proof. reflexivity. Qed.
  Lemma bufw_len f c : lenZ (f_bytes f) <= lenZ (f_bytes (bufw_write f c)).
  Proof. rewrite bufw_bytes, lenZ_app. pose proof (lenZ_nonneg c). lia. Qed.

  Lemma wlog_syn cfg w r lo : syn_ok w lo -> w_seq (wlog crc enc cfg w r) = 0 -> syn_ok (wlog crc enc cfg w r) lo.
  Proof.
    intros (f & Hf & Hs & Hb) Hseq. unfold wlog in *.
    rewrite (active_single w [] f Hf Hs) in *.
    set (f3 := bufw_write (bufw_write (bufw_write f (le32 (lenZ (enc r)))) (enc r)) (le32 (crc (enc r)))) in *.
    assert (S3 : f_synced f3 = f_synced f) by reflexivity.
    assert (L3 : lenZ (f_bytes f) <= lenZ (f_bytes f3)).
    { unfold f3. pose proof (bufw_len f (le32 (lenZ (enc r)))).
      pose proof (bufw_len (bufw_write f (le32 (lenZ (enc r)))) (enc r)).
      pose proof (bufw_len (bufw_write (bufw_write f (le32 (lenZ (enc r)))) (enc r)) (le32 (crc (enc r)))). lia. }
    set (pr := match c_mode cfg with
               | MSync => if is_commit r then (file_sync f3, 0) else (f3, w_since w + 1)
               | MBatch maxr elapsed => if (maxr <=? w_since w + 1) || elapsed then (file_sync f3, 0) else (f3, w_since w + 1)
               | MAdaptive => (file_flush f3, w_since w + 1)
               | MNoSync => (file_flush f3, w_since w + 1)
               end) in *.
    assert (B4 : lo <= f_synced (fst pr) <= lenZ (f_bytes (fst pr))).
    { unfold pr. destruct (c_mode cfg); [destruct (is_commit r)|destruct (_ || _)| |]; cbn [fst file_sync file_flush f_synced f_bytes]; lia. }
    destruct pr as [f4 since'] eqn:Epr. cbn [fst] in B4.
    destruct (set_active_single w f f4 Hf Hs) as (A1 & A2 & A3).
    destruct (c_max cfg <=? lenZ (f_bytes f3)).
    - rewrite wrotate_seq in Hseq. cbn [w_seq] in Hseq. rewrite A2 in Hseq. discriminate.
    - exists f4. cbn [w_disk w_seq]. auto.
  Qed.

  Lemma wlog_all_syn cfg rs : forall w lo, syn_ok w lo -> w_seq (wlog_all crc enc cfg w rs) = 0 -> syn_ok (wlog_all crc enc cfg w rs) lo.
  Proof.
    induction rs as [|r rs IH]; intros w lo H Hseq; [exact H|].
    cbn [wlog_all fold_left] in *. fold (wlog_all crc enc cfg (wlog crc enc cfg w r) rs) in *.
    assert (H0 : w_seq (wlog crc enc cfg w r) = 0).
    { pose proof (wlog_all_seq_mono crc enc cfg rs (wlog crc enc cfg w r)). pose proof (wlog_seq_mono crc enc cfg w r).
      destruct H as (f & _ & Hs & _). lia. }
    apply IH; [apply wlog_syn; assumption|exact Hseq].
  Qed.

  (** the single log file is fsynced to its end *)
  Definition syn_full (w : wstate) : Prop :=
    exists f, d_files (w_disk w) = [(0, f)] /\ w_seq w = 0 /\ f_synced f = lenZ (f_bytes f).
  Lemma syn_full_ok w : syn_full w -> exists f, d_files (w_disk w) = [(0, f)] /\ syn_ok w (lenZ (f_bytes f)).
  Proof. intros (f & A & B & C). exists f. split; [exact A|]. exists f. repeat split; try assumption; lia. Qed.

  Lemma wsync_syn w lo : syn_ok w lo -> syn_ok (wsync w) lo /\ syn_full (wsync w).
  Proof.
    intros (f & Hf & Hs & Hb). unfold wsync.
    destruct (set_active_single w f (file_sync f) Hf Hs) as (A1 & A2 & A3).
    rewrite (active_single w [] f Hf Hs).
    split; exists (file_sync f); cbn [w_disk w_seq file_sync f_synced f_bytes]; repeat split; try assumption; lia.
  Qed.

  Lemma wcheckpoint_syn cfg w tx ep lo :
    syn_ok w lo -> w_seq (wcheckpoint crc enc cfg w tx ep) = 0 -> syn_ok (wcheckpoint crc enc cfg w tx ep) lo.
  Proof.
    intros H Hseq. unfold wcheckpoint, wtruncate, cp_rename, cp_tmp, cp_log in *.
    cbn [w_cp w_seq w_disk w_since d_files d_meta] in *.
    assert (H0 : w_seq (wlog crc enc cfg w (Checkpoint tx)) = 0) by exact Hseq.
    destruct (wsync_syn _ lo (wlog_syn cfg w (Checkpoint tx) lo H H0)) as [(f & Hf & Hq & Hb) _].
    exists f. cbn [w_disk w_seq d_files set_files]. rewrite Hf. cbn [filter fst].
    change (w_seq (wsync (wlog crc enc cfg w (Checkpoint tx)))) with (w_seq (wlog crc enc cfg w (Checkpoint tx))).
    rewrite H0. cbn. auto.
  Qed.

  Lemma db_step_syn cfg st o lo :
    syn_ok (db_w st) lo -> w_seq (db_w (fst (db_step crc enc cfg st o))) = 0 -> syn_ok (db_w (fst (db_step crc enc cfg st o))) lo.
  Proof.
    intros H Hseq. destruct (is_wal_op o) eqn:W.
    - destruct o; try discriminate W; cbn [db_step] in *.
      + destruct (last_or_begin (db_tm st)) as [tx t1]. cbn [fst db_w] in *. rewrite wsync_seq in Hseq.
        assert (H1 : w_seq (wlog crc enc cfg (db_w st) (TxCommit tx)) = 0).
        { pose proof (wlog_seq_mono crc enc cfg (db_w st) (TxCommit tx)).
          pose proof (wlog_cp_seq_mono crc enc cfg (wlog crc enc cfg (db_w st) (TxCommit tx)) tx (s_epoch (db_store st))).
          destruct H as (f & _ & Hs & _). lia. }
        apply wsync_syn, wcheckpoint_syn; [apply wlog_syn; assumption|exact Hseq].
      + cbn [fst db_w] in Hseq. rewrite wrotate_seq in Hseq. destruct H as (f & _ & Hs & _). lia.
      + cbn [fst db_w]. apply wsync_syn, H.
    - rewrite (db_step_generic crc enc cfg st o W) in *.
      destruct (op_effect (db_store st) (db_tm st) o) as [[[s1 t1] rs] res]. cbn [fst db_w] in *.
      apply wlog_all_syn; assumption.
  Qed.

  Lemma run_ops_syn cfg os : forall st lo,
    syn_ok (db_w st) lo -> w_seq (db_w (fst (run_ops crc enc cfg st os))) = 0 -> syn_ok (db_w (fst (run_ops crc enc cfg st os))) lo.
  Proof.
    induction os as [|o r IH]; intros st lo H Hseq; [exact H|].
    cbn [run_ops] in *.
    pose proof (db_step_syn cfg st o lo H) as SW.
    pose proof (run_ops_seq_mono cfg r (fst (db_step crc enc cfg st o))) as MM.
    pose proof (db_step_seq_mono cfg st o) as M0.
    destruct (db_step crc enc cfg st o) as [st1 x]. cbn [fst] in *.
    specialize (IH st1 lo). destruct (run_ops crc enc cfg st1 r) as [st2 xs]. cbn [fst] in *.
    apply IH; [apply SW|exact Hseq]. destruct H as (f & _ & Hs & _). lia.
  Qed.

  (** cutting a torn tail leaves the file fsynced to its (new) end *)
  Lemma cut_torn_synced f : f_synced f = lenZ (f_bytes f) -> f_synced (cut_torn crc f) = lenZ (f_bytes (cut_torn crc f)).
  Proof.
    intros H. unfold cut_torn. destruct (intact_len crc (f_bytes f) <? length (f_bytes f))%nat eqn:E; [|exact H].
    apply Nat.ltb_lt in E. cbn [f_synced f_bytes]. unfold lenZ. rewrite firstn_length. lia.
  Qed.

  Lemma close_reopen_full cfg st1 lo st2 :
    syn_ok (db_w st1) lo -> w_seq (db_w (db_close crc enc cfg st1)) = 0 ->
    db_open crc dec (end_disk crc enc cfg st1 EClose) = ROk st2 -> syn_full (db_w st2).
  Proof.
    intros H Hseq DO. unfold end_disk, db_close in *.
    destruct (last_or_begin (db_tm st1)) as [tx t1]. cbn [db_w db_store] in *. rewrite wsync_seq in Hseq.
    set (w1 := wlog crc enc cfg (db_w st1) (TxCommit tx)) in *.
    assert (H1 : w_seq w1 = 0).
    { pose proof (wlog_cp_seq_mono crc enc cfg w1 tx (s_epoch (db_store st1))).
      pose proof (wlog_seq_mono crc enc cfg (db_w st1) (TxCommit tx)). fold w1 in H1. destruct H as (f & _ & Hs & _). lia. }
    pose proof (wlog_syn cfg (db_w st1) (TxCommit tx) lo H H1) as S1. fold w1 in S1.
    pose proof (wcheckpoint_syn cfg w1 tx (s_epoch (db_store st1)) lo S1 Hseq) as S2.
    destruct (wsync_syn _ lo S2) as [_ (f & Hf & Hs & Hb)].
    set (ws := wsync (wcheckpoint crc enc cfg w1 tx (s_epoch (db_store st1)))) in *.
    unfold db_open in DO. destruct (recover crc dec (wdrop ws)); [|discriminate]. injection DO as <-. cbn [db_w].
    destruct (set_active_single ws f (file_flush (active ws)) Hf Hs) as (A1 & A2 & A3).
    rewrite (active_single ws [] f Hf Hs) in A1.
    unfold wdrop. rewrite (active_single ws [] f Hf Hs). unfold wopen. rewrite !A1. cbn [max_seq fold_right fst]. rewrite Z.max_id, get_single, put_single.
    exists (cut_torn crc (file_flush f)). cbn [w_disk w_seq set_files d_files]. split; [reflexivity|]. split; [reflexivity|].
    apply cut_torn_synced. cbn [file_flush f_synced f_bytes]. exact Hb.
  Qed.

  (** * the crash image: file 0 cut to its first [n] bytes *)
  Lemma cut_disk_single d f n :
    d_files d = [(0, f)] ->
    d_files (cut_disk [(0, Z.of_nat n)] d) = [(0, cut_file n f)] /\ d_meta (cut_disk [(0, Z.of_nat n)] d) = d_meta d.
  Proof. intros H. unfold cut_disk, set_files. cbn [d_files d_meta]. rewrite H. cbn. rewrite Nat2Z.id. auto. Qed.

  (** opening a directory whose single file holds the first [n] bytes of the frames of
      [log ++ rs], where [log] is fully committed and [rs] has no commit marker *)
  Lemma open_cut d' f' n log rs s0 :
    d_files d' = [(0, f')] -> f_bytes f' = firstn n (frames (log ++ rs)) -> meta0 (d_meta d') ->
    Forall ok (log ++ rs) -> no_commit rs = true -> pend log = [] ->
    s0 = apply_all empty_store (datas (snd (sm_run ([], []) log)) ++ pend log) ->
    (length (frames log) <= n)%nat ->
    exists st2, db_open crc dec d' = ROk st2 /\ db_store st2 = s0.
  Proof.
    intros Cf Hb' Md OK1 NC P ES Hn.
    assert (Hms : min_seq (d_meta d') = 0) by (destruct Md as [->|(c & -> & Hc)]; [reflexivity|exact Hc]).
    assert (Hnb : d_meta d' <> MetaBad) by (destruct Md as [->|(c & -> & _)]; discriminate).
    unfold db_open. rewrite (recover_spec crc dec d' Hnb), Hms, Cf. cbn [disk_records Z.ltb Z.compare].
    assert (FR : file_records crc dec f' = firstn (frames_within n (map enc (log ++ rs))) (log ++ rs)).
    { pose proof (file_records_cut crc enc dec crc_range (mkFile (frames (log ++ rs)) 0 0) (log ++ rs) n OK1 eq_refl) as H.
      unfold file_records, cut_file in *. cbn [f_bytes] in H. rewrite Hb'. exact H. }
    rewrite FR, app_nil_r.
    eexists. split; [reflexivity|]. cbn [db_store].
    set (k := frames_within n (map enc (log ++ rs))).
    assert (Hk : (length log <= k)%nat) by (apply frames_within_log, Hn).
    rewrite firstn_app. rewrite (firstn_all2 log) by exact Hk.
    rewrite sm_run_app. unfold pend in *. destruct (sm_run ([], []) log) as [p c] eqn:R. cbn [fst snd] in *. subst p.
    rewrite apply_all_datas, (sm_run_no_commit _ [] c) by (apply firstn_no_commit, NC).
    rewrite ES, app_nil_r. reflexivity.
  Qed.

  Lemma frames_nil log : length (frames log) = 0%nat -> log = [].
  Proof.
    destruct log as [|r log]; [reflexivity|]. unfold ProofsRecover.frames. cbn [map concat].
    rewrite app_length. unfold frame. rewrite !app_length, !le32_length. lia.
  Qed.

  (** T crash_recovers_last_close, from any state that satisfies the invariant: EVERY crash image
      of the directory (each file keeps a prefix that contains its fsynced bytes, a never-fsynced
      file may vanish) opens to the store of the last close *)
  Lemma crash_gen cfg st log os d' :
    Inv crc enc dec st log -> pend log = [] -> syn_full (db_w st) -> no_cp os = true ->
    w_seq (db_w (fst (run_ops crc enc cfg st os))) = 0 ->
    Forall ok (ops_logs crc enc cfg st os) ->
    crash (wdrop (db_w (fst (run_ops crc enc cfg st os)))) d' ->
    exists st2, db_open crc dec d' = ROk st2 /\ db_store st2 = db_store st.
  Proof.
    intros (S & M & ES & OK) P SF Hncp Hseq Hok [CF CM].
    destruct (run_ops_winv cfg os st log Hncp (conj S (conj M OK)) Hseq Hok) as [(S1 & M1 & OK1) NC].
    set (st1 := fst (run_ops crc enc cfg st os)) in *. set (rs := ops_logs crc enc cfg st os) in *.
    (* the synced length of the file at crash time covers the frames of [log] *)
    destruct (syn_full_ok _ SF) as (f0 & Hf0 & SO).
    assert (L0 : lenZ (f_bytes f0) = lenZ (frames log)).
    { destruct S as (f0' & Hf0' & Hb0' & _). rewrite Hf0 in Hf0'. injection Hf0' as <-. rewrite Hb0'. reflexivity. }
    pose proof (run_ops_syn cfg os st _ SO Hseq) as (f1 & Hf1 & Hs1 & Hb1). fold st1 in Hf1, Hs1.
    destruct (set_active_single (db_w st1) f1 (file_flush (active (db_w st1))) Hf1 Hs1) as (A1 & A2 & A3).
    rewrite (active_single (db_w st1) [] f1 Hf1 Hs1) in A1.
    destruct S1 as (f1' & Hf1' & Hbytes & _). rewrite Hf1 in Hf1'. injection Hf1' as <-.
    assert (Hd : d_files (wdrop (db_w st1)) = [(0, file_flush f1)]).
    { unfold wdrop. rewrite (active_single (db_w st1) [] f1 Hf1 Hs1). exact A1. }
    assert (Hm : d_meta (wdrop (db_w st1)) = d_meta (w_disk (db_w st1))).
    { unfold wdrop. rewrite (active_single (db_w st1) [] f1 Hf1 Hs1).
      destruct (set_active_single (db_w st1) f1 (file_flush f1) Hf1 Hs1) as (_ & _ & X). exact X. }
    assert (Md : meta0 (d_meta d')) by (rewrite CM, Hm; exact M1).
    rewrite Hd in CF. remember (d_files d') as fs' eqn:Efs.
    inversion CF as [| s f f' l l' Hcut Hrest | s f l l' Hz Hrest]; subst.
    - (* the file survives, cut to some length that keeps the fsynced bytes *)
      inversion Hrest; subst. destruct Hcut as (n & Hn & Hbn). cbn [file_flush f_synced f_bytes] in Hn, Hbn.
      apply (open_cut d' f' n log rs (db_store st)); try assumption.
      + symmetry. assumption.
      + rewrite Hbn, Hbytes. reflexivity.
      + unfold lenZ in *. lia.
    - (* the file vanished: nothing of it was ever fsynced, so nothing was ever closed *)
      inversion Hrest; subst. cbn [file_flush f_synced] in Hz.
      assert (LN : log = []) by (apply frames_nil; unfold lenZ in *; lia).
      subst log.
      assert (Hms : min_seq (d_meta d') = 0) by (destruct Md as [->|(c & -> & Hc)]; [reflexivity|exact Hc]).
      assert (Hnb : d_meta d' <> MetaBad) by (destruct Md as [->|(c & -> & _)]; discriminate).
      unfold db_open. rewrite (recover_spec crc dec d' Hnb), Hms.
      match goal with HN : [] = d_files d' |- _ => rewrite <- HN end. cbn [disk_records sm_run fold_left snd].
      eexists. split; [reflexivity|]. cbn [db_store]. rewrite ES. reflexivity.
  Qed.

  (** the state a clean history leaves satisfies the invariant again, and its log file is
      fsynced to its end (close syncs last) *)
  Lemma clean_history_inv cfg ss : forall st log,
    Inv crc enc dec st log -> pend log = [] -> syn_full (db_w st) ->
    no_crash ss = true -> forallb kclean (hist_flags crc enc dec cfg st ss) = true ->
    Forall ok (hist_logs crc enc dec cfg st ss) ->
    exists st' log', snd (run_sessions crc enc dec cfg st ss) = ROk st' /\ Inv crc enc dec st' log' /\ pend log' = []
                     /\ syn_full (db_w st').
  Proof.
    induction ss as [|[os e] r IH]; intros st log I P SF Hc Hk Hok; [exists st, log; auto|].
    cbn [no_crash forallb snd] in Hc. apply andb_prop in Hc as [He Hc]. destruct e; [|discriminate].
    cbn [Classes.hist_flags run_sessions Classes.hist_logs] in *.
    unfold Classes.sess_flags in Hk.
    pose proof I as (S & M & ES & OK).
    destruct S as (f & Hf & Hb & Hs0).
    destruct (recover_single crc enc dec crc_range (w_disk (db_w st)) f log OK Hf Hb M) as [_ L]. rewrite L in Hk.
    fold (pend log) in Hk. rewrite P in Hk. cbn [existsb] in Hk.
    pose proof (scan_state crc enc cfg os st false k0) as SS.
    destruct (scan crc enc cfg st false os k0) as [fl st1] eqn:SC. cbn [snd] in SS.
    pose proof (run_ops_syn cfg os st) as RS1.
    pose proof (run_ops_seq_mono cfg os st) as MONO.
    destruct (run_ops crc enc cfg st os) as [st1' outs] eqn:RO. cbn [fst] in SS, Hok, RS1, MONO. subst st1'.
    apply Forall_app in Hok as [Hok1 Hok2]. apply Forall_app in Hok2 as [Hok2 Hok3].
    assert (Kall : kclean fl = true /\ w_seq (db_w (db_close crc enc cfg st1)) = w_seq (db_w st1)).
    { destruct (db_open crc dec (end_disk crc enc cfg st1 EClose)); cbn [forallb] in Hk; apply andb_prop in Hk as [Hk1 _];
        apply kclean_false in Hk1 as (K2 & K3 & K4); cbn [k_cp k_rm k_sess k_rot] in *;
        apply orb_false_elim in K4 as [K4 K5]; apply negb_false_iff, Z.eqb_eq in K5;
        (split; [unfold kclean; rewrite K2, K3, K4; reflexivity|exact K5]). }
    destruct Kall as [Kfl K5].
    destruct (scan_inv crc enc dec cfg os st false k0 log I (fun _ => P)) as [_ (log1 & I1)]; [rewrite SC; exact Kfl|exact Hok1|].
    rewrite SC in I1. cbn [snd] in I1.
    destruct (close_reopen_inv crc enc dec crc_range cfg st1 log1 I1 K5 Hok2) as (st2 & log2 & DO & ST & I2 & P2).
    assert (SF2 : syn_full (db_w st2)).
    { pose proof I1 as (S1 & _). pose proof (single_seq crc enc _ _ S1) as Z1.
      destruct (syn_full_ok _ SF) as (f0 & _ & SO).
      apply (close_reopen_full cfg st1 _ st2 (RS1 _ SO Z1)); [rewrite K5; exact Z1|exact DO]. }
    rewrite DO in *. cbn [forallb] in Hk. apply andb_prop in Hk as [_ Hk2].
    destruct (IH st2 log2 I2 P2 SF2 Hc Hk2 Hok3) as (st' & log' & R' & I' & P' & SF').
    destruct (run_sessions crc enc dec cfg st2 r) as [obs fin] eqn:RS. cbn [snd] in *.
    exists st', log'. auto.
  Qed.

  Lemma syn_full_fresh : syn_full (db_w db_fresh).
  Proof. exists empty_file. repeat split. Qed.

  (** T crash_recovers_last_close: a session without an explicit checkpoint *)
  Lemma crash_recovers_last_close_l cfg ss st os d' :
    no_crash ss = true -> forallb kclean (hist_flags crc enc dec cfg db_fresh ss) = true ->
    snd (run_sessions crc enc dec cfg db_fresh ss) = ROk st ->
    Forall ok (hist_logs crc enc dec cfg db_fresh ss ++ ops_logs crc enc cfg st os) ->
    no_cp os = true ->
    w_seq (db_w (fst (run_ops crc enc cfg st os))) = w_seq (db_w st) ->
    crash (wdrop (db_w (fst (run_ops crc enc cfg st os)))) d' ->
    exists st2, db_open crc dec d' = ROk st2 /\ db_store st2 = db_store st.
  Proof.
    intros Hc Hk Hr Hok Hncp Hseq Hcr. apply Forall_app in Hok as [Hok1 Hok2].
    destruct (inv_fresh crc enc dec) as [I0 P0].
    destruct (clean_history_inv cfg ss db_fresh [] I0 P0 syn_full_fresh Hc Hk Hok1) as (st' & log' & R' & I' & P' & SF').
    rewrite Hr in R'. injection R' as <-.
    pose proof I' as (S' & _). pose proof (single_seq crc enc _ _ S') as Z'.
    apply (crash_gen cfg st log' os d' I' P' SF' Hncp); [rewrite Hseq; exact Z'|exact Hok2|exact Hcr].
  Qed.

  (** T crash_recovers_last_checkpoint: the session ran clean operations [os1], took an explicit
      checkpoint, then did anything but another checkpoint: every crash image opens to the store
      as it was at the checkpoint *)
  Lemma crash_recovers_last_checkpoint_l cfg ss st os1 os2 d' :
    no_crash ss = true -> forallb kclean (hist_flags crc enc dec cfg db_fresh ss) = true ->
    snd (run_sessions crc enc dec cfg db_fresh ss) = ROk st ->
    let sta := fst (run_ops crc enc cfg st os1) in
    let st1 := fst (db_step crc enc cfg sta OCheckpoint) in
    kclean (fst (scan crc enc cfg st false os1 k0)) = true ->
    Forall ok (hist_logs crc enc dec cfg db_fresh ss ++ ops_logs crc enc cfg st os1 ++ step_logs sta OCheckpoint
               ++ ops_logs crc enc cfg st1 os2) ->
    no_cp os2 = true ->
    w_seq (db_w (fst (run_ops crc enc cfg st1 os2))) = w_seq (db_w st) ->
    crash (wdrop (db_w (fst (run_ops crc enc cfg st1 os2)))) d' ->
    exists st2, db_open crc dec d' = ROk st2 /\ db_store st2 = db_store st1.
  Proof.
    intros Hc Hk Hr sta st1 Hk1 Hok Hncp Hseq Hcr.
    apply Forall_app in Hok as [Hok0 Hok]. apply Forall_app in Hok as [Hok1 Hok]. apply Forall_app in Hok as [Hokc Hok2].
    destruct (inv_fresh crc enc dec) as [I0 P0].
    destruct (clean_history_inv cfg ss db_fresh [] I0 P0 syn_full_fresh Hc Hk Hok0) as (st' & log' & R' & I' & P' & SF').
    rewrite Hr in R'. injection R' as <-.
    pose proof I' as (S' & _). pose proof (single_seq crc enc _ _ S') as Z'.
    (* the sequence number never moved *)
    pose proof (run_ops_seq_mono cfg os1 st) as M1. fold sta in M1.
    pose proof (db_step_seq_mono cfg sta OCheckpoint) as M2. fold st1 in M2.
    pose proof (run_ops_seq_mono cfg os2 st1) as M3.
    assert (Za : w_seq (db_w sta) = 0) by lia. assert (Z1 : w_seq (db_w st1) = 0) by lia.
    (* the invariant after os1, then after the checkpoint *)
    destruct (scan_inv crc enc dec cfg os1 st false k0 log' I' (fun _ => P') Hk1 Hok1) as [_ (loga & Ia)].
    rewrite (scan_state crc enc cfg os1 st false k0) in Ia. fold sta in Ia.
    destruct (db_step crc enc cfg sta OCheckpoint) as [st1' res] eqn:E. cbn [fst] in st1. subst st1.
    assert (HS : (w_seq (db_w st1') =? w_seq (db_w sta)) = true) by (apply Z.eqb_eq; lia).
    destruct (db_step_inv crc enc dec cfg sta loga OCheckpoint st1' res true Ia (fun H => False_ind _ (Bool.diff_true_false H)) E
                eq_refl eq_refl HS Hokc) as (log1 & I1 & P1).
    specialize (P1 eq_refl).
    (* fsynced to the end: the checkpoint syncs last *)
    assert (SF1 : syn_full (db_w st1')).
    { destruct (syn_full_ok _ SF') as (f0 & _ & SO). pose proof (run_ops_syn cfg os1 st _ SO Za) as SOa. fold sta in SOa.
      cbn [db_step] in E. destruct (last_or_begin (db_tm sta)) as [tx t1]. injection E as <- <-. cbn [db_w] in *.
      rewrite wsync_seq in Z1.
      assert (H1 : w_seq (wlog crc enc cfg (db_w sta) (TxCommit tx)) = 0).
      { pose proof (wlog_seq_mono crc enc cfg (db_w sta) (TxCommit tx)).
        pose proof (wlog_cp_seq_mono crc enc cfg (wlog crc enc cfg (db_w sta) (TxCommit tx)) tx (s_epoch (db_store sta))). lia. }
      apply (wsync_syn _ _ (wcheckpoint_syn cfg _ tx _ _ (wlog_syn cfg _ _ _ SOa H1) Z1)). }
    apply (crash_gen cfg st1' log1 os2 d' I1 P1 SF1 Hncp); [lia|exact Hok2|exact Hcr].
  Qed.
End CrashProofs.

(** cutting the single log file to a length that keeps its fsynced bytes is a crash image *)
Lemma crash_cut_single d f n :
  d_files d = [(0, f)] -> f_synced f <= Z.of_nat n -> crash d (cut_disk [(0, Z.of_nat n)] d).
Proof.
  intros Hf Hn. split; [|reflexivity]. unfold cut_disk, set_files. cbn [d_files]. rewrite Hf. cbn. rewrite Nat2Z.id.
  apply cf_keep; [exists n; split; [exact Hn|reflexivity]|constructor].
Qed.

