(** C05/C06/C07 — the persistence glue of [GrafeoDB] (grafeo-engine/src/database.rs): which
    API call appends which log records, what [close] writes, how [open] replays, over a small
    model of the LPG store (grafeo-core/src/graph/lpg/store.rs, non-tiered build) that keeps
    exactly what a graph dump can observe: ids, creation/deletion epochs, labels, endpoints,
    types, properties and the two id counters.  Definitions only. *)
From GV Require Export Wal.Recover.
Open Scope Z_scope.

(** * Association lists (hash maps of the store; iteration order is never compared) *)
Section Assoc.
  Context {K V : Type}.
  Variable keqb : K -> K -> bool.
  Fixpoint aget (k : K) (l : list (K * V)) : option V :=
    match l with
    | [] => None
    | (k', v) :: r => if keqb k' k then Some v else aget k r
    end.
  (** insert: replaces an existing entry in place, otherwise appends *)
  Fixpoint aset (k : K) (v : V) (l : list (K * V)) : list (K * V) :=
    match l with
    | [] => [(k, v)]
    | (k', v') :: r => if keqb k' k then (k', v) :: r else (k', v') :: aset k v r
    end.
  Fixpoint adel (k : K) (l : list (K * V)) : list (K * V) :=
    match l with
    | [] => []
    | (k', v') :: r => if keqb k' k then r else (k', v') :: adel k r
    end.
End Assoc.

Definition props := list (str * value).

(** a node / an edge: one version with its creation epoch and deletion epoch *)
Record nrec := mkN { n_created : Z; n_deleted : option Z; n_labels : list str }.
Record erec := mkE { e_created : Z; e_deleted : option Z; e_src : Z; e_dst : Z; e_type : str }.

Record store := mkStore {
  s_nodes : list (Z * nrec);
  s_nprops : list (Z * props);      (* node_properties: keyed by id, independent of the node map *)
  s_edges : list (Z * erec);
  s_eprops : list (Z * props);
  s_nn : Z;                          (* next_node_id *)
  s_ne : Z;                          (* next_edge_id *)
  s_epoch : Z                        (* LpgStore.current_epoch (nothing in the engine advances it) *)
}.
Definition empty_store : store := mkStore [] [] [] [] 0 0 0.

(** [VersionInfo::is_visible_at] *)
Definition visible (created : Z) (deleted : option Z) (e : Z) : bool :=
  (created <=? e) && match deleted with None => true | Some d => e <? d end.

Fixpoint dedup (l : list str) : list str :=
  match l with
  | [] => []
  | x :: r => if existsb (str_eqb x) r then dedup r else x :: dedup r
  end.

Definition props_of (id : Z) (m : list (Z * props)) : props :=
  match aget Z.eqb id m with Some p => p | None => [] end.
Definition set_prop (id : Z) (k : str) (v : value) (m : list (Z * props)) : list (Z * props) :=
  aset Z.eqb id (aset str_eqb k v (props_of id m)) m.

(** [create_node_versioned(labels, epoch, _)]: a fresh id *)
Definition st_create_node (s : store) (labels : list str) (epoch : Z) : store * Z :=
  let id := s_nn s in
  (mkStore (aset Z.eqb id (mkN epoch None (dedup labels)) (s_nodes s)) (s_nprops s) (s_edges s) (s_eprops s)
           (id + 1) (s_ne s) (s_epoch s), id).
(** the largest identifier; [id_val.saturating_add(1)] (since commit 1b18953; [id + 1] before,
    which overflowed — a panic in the overflow-checked profiles — on this identifier) *)
Definition sat_succ (id : Z) : Z := if id =? id_max then id_max else id + 1.
(** [create_node_with_id(id, labels)]: replaces whatever the node map holds for [id] *)
Definition st_create_node_with_id (s : store) (id : Z) (labels : list str) : store :=
  mkStore (aset Z.eqb id (mkN (s_epoch s) None (dedup labels)) (s_nodes s)) (s_nprops s) (s_edges s) (s_eprops s)
          (if s_nn s <=? id then sat_succ id else s_nn s) (s_ne s) (s_epoch s).
(** [delete_node(id)] at the store's epoch: no cascade to edges; labels and properties go *)
Definition st_delete_node (s : store) (id : Z) : store * bool :=
  match aget Z.eqb id (s_nodes s) with
  | Some n =>
      if visible (n_created n) (n_deleted n) (s_epoch s) then
        let del := match n_deleted n with None => Some (s_epoch s) | d => d end in
        (mkStore (aset Z.eqb id (mkN (n_created n) del []) (s_nodes s)) (adel Z.eqb id (s_nprops s))
                 (s_edges s) (s_eprops s) (s_nn s) (s_ne s) (s_epoch s), true)
      else (s, false)
  | None => (s, false)
  end.
(** [set_node_property]: unconditional (the node need not exist) *)
Definition st_set_node_prop (s : store) (id : Z) (k : str) (v : value) : store :=
  mkStore (s_nodes s) (set_prop id k v (s_nprops s)) (s_edges s) (s_eprops s) (s_nn s) (s_ne s) (s_epoch s).
Definition st_remove_node_prop (s : store) (id : Z) (k : str) : store * bool :=
  match aget str_eqb k (props_of id (s_nprops s)) with
  | Some _ => (mkStore (s_nodes s) (aset Z.eqb id (adel str_eqb k (props_of id (s_nprops s))) (s_nprops s))
                       (s_edges s) (s_eprops s) (s_nn s) (s_ne s) (s_epoch s), true)
  | None => (s, false)
  end.
Definition st_add_label (s : store) (id : Z) (l : str) : store * bool :=
  match aget Z.eqb id (s_nodes s) with
  | Some n =>
      if visible (n_created n) (n_deleted n) (s_epoch s) then
        if existsb (str_eqb l) (n_labels n) then (s, false)
        else (mkStore (aset Z.eqb id (mkN (n_created n) (n_deleted n) (n_labels n ++ [l])) (s_nodes s)) (s_nprops s)
                      (s_edges s) (s_eprops s) (s_nn s) (s_ne s) (s_epoch s), true)
      else (s, false)
  | None => (s, false)
  end.
Definition st_remove_label (s : store) (id : Z) (l : str) : store * bool :=
  match aget Z.eqb id (s_nodes s) with
  | Some n =>
      if visible (n_created n) (n_deleted n) (s_epoch s) then
        if existsb (str_eqb l) (n_labels n) then
          (mkStore (aset Z.eqb id (mkN (n_created n) (n_deleted n) (filter (fun x => negb (str_eqb l x)) (n_labels n))) (s_nodes s))
                   (s_nprops s) (s_edges s) (s_eprops s) (s_nn s) (s_ne s) (s_epoch s), true)
        else (s, false)
      else (s, false)
  | None => (s, false)
  end.
Definition st_create_edge (s : store) (src dst : Z) (ty : str) (epoch : Z) : store * Z :=
  let id := s_ne s in
  (mkStore (s_nodes s) (s_nprops s) (aset Z.eqb id (mkE epoch None src dst ty) (s_edges s)) (s_eprops s)
           (s_nn s) (id + 1) (s_epoch s), id).
Definition st_create_edge_with_id (s : store) (id src dst : Z) (ty : str) : store :=
  mkStore (s_nodes s) (s_nprops s) (aset Z.eqb id (mkE (s_epoch s) None src dst ty) (s_edges s)) (s_eprops s)
          (s_nn s) (if s_ne s <=? id then sat_succ id else s_ne s) (s_epoch s).
Definition st_delete_edge (s : store) (id : Z) : store * bool :=
  match aget Z.eqb id (s_edges s) with
  | Some e =>
      if visible (e_created e) (e_deleted e) (s_epoch s) then
        let del := match e_deleted e with None => Some (s_epoch s) | d => d end in
        (mkStore (s_nodes s) (s_nprops s) (aset Z.eqb id (mkE (e_created e) del (e_src e) (e_dst e) (e_type e)) (s_edges s))
                 (adel Z.eqb id (s_eprops s)) (s_nn s) (s_ne s) (s_epoch s), true)
      else (s, false)
  | None => (s, false)
  end.
Definition st_set_edge_prop (s : store) (id : Z) (k : str) (v : value) : store :=
  mkStore (s_nodes s) (s_nprops s) (s_edges s) (set_prop id k v (s_eprops s)) (s_nn s) (s_ne s) (s_epoch s).
Definition st_remove_edge_prop (s : store) (id : Z) (k : str) : store * bool :=
  match aget str_eqb k (props_of id (s_eprops s)) with
  | Some _ => (mkStore (s_nodes s) (s_nprops s) (s_edges s)
                       (aset Z.eqb id (adel str_eqb k (props_of id (s_eprops s))) (s_eprops s)) (s_nn s) (s_ne s) (s_epoch s), true)
  | None => (s, false)
  end.

(** * Graph dump at a viewing epoch ([get_node_at_epoch] / [get_edge_at_epoch] over all ids) *)
Definition dnode := (Z * list str * props)%type.
Definition dedge := (Z * Z * Z * str * props)%type.
Definition dump_nodes (s : store) (e : Z) : list dnode :=
  flat_map (fun '(id, n) => if visible (n_created n) (n_deleted n) e
                            then [(id, n_labels n, props_of id (s_nprops s))] else []) (s_nodes s).
Definition dump_edges (s : store) (e : Z) : list dedge :=
  flat_map (fun '(id, x) => if visible (e_created x) (e_deleted x) e
                            then [(id, e_src x, e_dst x, e_type x, props_of id (s_eprops s))] else []) (s_edges s).
Definition dump (s : store) (e : Z) : list dnode * list dedge := (dump_nodes s e, dump_edges s e).
(** "latest" = the largest epoch (u64::MAX): everything created and not deleted *)
Definition latest : Z := 2 ^ 64 - 1.

(** * Replay ([apply_wal_records]) *)
Definition apply_record (s : store) (r : record) : store :=
  match r with
  | CreateNode id labels => st_create_node_with_id s id labels
  | DeleteNode id => fst (st_delete_node s id)
  | CreateEdge id src dst ty => st_create_edge_with_id s id src dst ty
  | DeleteEdge id => fst (st_delete_edge s id)
  | SetNodeProperty id k v => st_set_node_prop s id k v
  | SetEdgeProperty id k v => st_set_edge_prop s id k v
  | AddNodeLabel id l => fst (st_add_label s id l)
  | RemoveNodeLabel id l => fst (st_remove_label s id l)
  | TxCommit _ | TxAbort _ | Checkpoint _ => s
  end.
Definition apply_all (s : store) (rs : list record) : store := fold_left apply_record rs s.

(** * API operations *)
Inductive op :=
| OCreateNode (labels : list str)
| OCreateNodeProps (labels : list str) (ps : props)
| ODeleteNode (id : Z)
| OSetNodeProp (id : Z) (k : str) (v : value)
| OAddLabel (id : Z) (l : str)
| ORemoveLabel (id : Z) (l : str)
| OCreateEdge (src dst : Z) (ty : str)
| OCreateEdgeProps (src dst : Z) (ty : str) (ps : props)
| ODeleteEdge (id : Z)
| OSetEdgeProp (id : Z) (k : str) (v : value)
| ORemoveNodeProp (id : Z) (k : str)           (* not logged *)
| ORemoveEdgeProp (id : Z) (k : str)           (* not logged *)
| OSessNode (labels : list str) (ps : props)   (* session.create_node[_with_props] / INSERT through a query: not logged *)
| OSessTxNode (labels : list str)              (* begin_tx; create_node; commit: not logged *)
| OCheckpoint                                  (* wal_checkpoint() *)
| ORotate                                      (* wal().rotate() *)
| OSync.                                       (* wal().sync() *)

(** what an API call returns *)
Inductive out := OutId (id : Z) | OutBool (b : bool) | OutUnit.
Definition out_eqb (a b : out) : bool :=
  match a, b with
  | OutId i, OutId j => i =? j
  | OutBool x, OutBool y => Bool.eqb x y
  | OutUnit, OutUnit => true
  | _, _ => false
  end.

(** transaction manager: current epoch and next transaction id *)
Record tm := mkTm { tm_epoch : Z; tm_next : Z }.
Definition tm0 : tm := mkTm 0 2.   (* TransactionManager::new: epoch 0, next_tx_id 2 (1 = TxId::SYSTEM) *)

Definition set_props_node (s : store) (id : Z) (ps : props) : store :=
  fold_left (fun s kv => st_set_node_prop s id (fst kv) (snd kv)) ps s.
Definition set_props_edge (s : store) (id : Z) (ps : props) : store :=
  fold_left (fun s kv => st_set_edge_prop s id (fst kv) (snd kv)) ps s.

(** [GrafeoDB::delete_node] first deletes the node's incident edges through [delete_edge]
    (each logged as an ordinary DeleteEdge record): [edges_from(id, Outgoing)] then [edges_to(id)],
    each in the order the adjacency lists hold them (creation order for the small degrees of the
    correspondence run; a self-loop is listed twice, its second deletion is a no-op) *)
Definition incident_edges (s : store) (id : Z) : list Z :=
  map fst (filter (fun kv => e_src (snd kv) =? id) (s_edges s))
  ++ map fst (filter (fun kv => e_dst (snd kv) =? id) (s_edges s)).
Fixpoint delete_edges (s : store) (es : list Z) : store * list record :=
  match es with
  | [] => (s, [])
  | e :: r => let '(s1, b) := st_delete_edge s e in
              let '(s2, rs) := delete_edges s1 r in
              (s2, if b then DeleteEdge e :: rs else rs)
  end.
(** [store.get_node(id).is_some()] *)
Definition node_visible (s : store) (id : Z) : bool :=
  match aget Z.eqb id (s_nodes s) with
  | Some n => visible (n_created n) (n_deleted n) (s_epoch s)
  | None => false
  end.

(** effect of a graph operation on store and transaction manager, the records it appends to
    the log, and its result *)
Definition op_effect (s : store) (t : tm) (o : op) : store * tm * list record * out :=
  match o with
  | OCreateNode ls =>
      let '(s1, id) := st_create_node s ls (s_epoch s) in (s1, t, [CreateNode id ls], OutId id)
  | OCreateNodeProps ls ps =>
      let '(s1, id) := st_create_node s ls (s_epoch s) in
      (set_props_node s1 id ps, t, CreateNode id ls :: map (fun kv => SetNodeProperty id (fst kv) (snd kv)) ps, OutId id)
  | ODeleteNode id =>
      let '(s0, ers) := if node_visible s id then delete_edges s (incident_edges s id) else (s, []) in
      let '(s1, b) := st_delete_node s0 id in (s1, t, ers ++ (if b then [DeleteNode id] else []), OutBool b)
  | OSetNodeProp id k v => (st_set_node_prop s id k v, t, [SetNodeProperty id k v], OutUnit)
  | OAddLabel id l =>
      let '(s1, b) := st_add_label s id l in (s1, t, if b then [AddNodeLabel id l] else [], OutBool b)
  | ORemoveLabel id l =>
      let '(s1, b) := st_remove_label s id l in (s1, t, if b then [RemoveNodeLabel id l] else [], OutBool b)
  | OCreateEdge a b ty =>
      let '(s1, id) := st_create_edge s a b ty (s_epoch s) in (s1, t, [CreateEdge id a b ty], OutId id)
  | OCreateEdgeProps a b ty ps =>
      let '(s1, id) := st_create_edge s a b ty (s_epoch s) in
      (set_props_edge s1 id ps, t, CreateEdge id a b ty :: map (fun kv => SetEdgeProperty id (fst kv) (snd kv)) ps, OutId id)
  | ODeleteEdge id =>
      let '(s1, b) := st_delete_edge s id in (s1, t, if b then [DeleteEdge id] else [], OutBool b)
  | OSetEdgeProp id k v => (st_set_edge_prop s id k v, t, [SetEdgeProperty id k v], OutUnit)
  | ORemoveNodeProp id k => let '(s1, b) := st_remove_node_prop s id k in (s1, t, [], OutBool b)
  | ORemoveEdgeProp id k => let '(s1, b) := st_remove_edge_prop s id k in (s1, t, [], OutBool b)
  | OSessNode ls ps =>
      (* no transaction: stamped with the transaction manager's current epoch *)
      let '(s1, id) := st_create_node s ls (tm_epoch t) in (set_props_node s1 id ps, t, [], OutId id)
  | OSessTxNode ls =>
      (* begin_tx takes a tx id; the node is stamped with the start epoch; commit advances the epoch *)
      let '(s1, id) := st_create_node s ls (tm_epoch t) in (s1, mkTm (tm_epoch t + 1) (tm_next t + 1), [], OutId id)
  | OCheckpoint | ORotate | OSync => (s, t, [], OutUnit)
  end.

Record dbstate := mkDb { db_store : store; db_tm : tm; db_w : wstate }.

(** [last_assigned_tx_id().unwrap_or_else(|| begin())] *)
Definition last_or_begin (t : tm) : Z * tm :=
  if 1 <? tm_next t then (tm_next t - 1, t) else (tm_next t, mkTm (tm_epoch t) (tm_next t + 1)).

Section Db.
  Variable crc : bytes -> Z.
  Variable enc : record -> bytes.
  Variable dec : bytes -> option record.

  Definition wlog_all (cfg : wcfg) (w : wstate) (rs : list record) : wstate := fold_left (wlog crc enc cfg) rs w.

  Definition db_step (cfg : wcfg) (st : dbstate) (o : op) : dbstate * out :=
    match o with
    | OCheckpoint =>
        (* wal_checkpoint(): TxCommit(tx) (since commit 14ec16a); checkpoint(tx, store epoch); sync *)
        let '(tx, t1) := last_or_begin (db_tm st) in
        let w1 := wlog crc enc cfg (db_w st) (TxCommit tx) in
        (mkDb (db_store st) t1 (wsync (wcheckpoint crc enc cfg w1 tx (s_epoch (db_store st)))), OutUnit)
    | ORotate => (mkDb (db_store st) (db_tm st) (wrotate (db_w st)), OutUnit)
    | OSync => (mkDb (db_store st) (db_tm st) (wsync (db_w st)), OutUnit)
    | _ =>
        let '(s1, t1, rs, res) := op_effect (db_store st) (db_tm st) o in
        (mkDb s1 t1 (wlog_all cfg (db_w st) rs), res)
    end.

  (** [close()]: TxCommit(tx); checkpoint(tx, store epoch); sync *)
  Definition db_close (cfg : wcfg) (st : dbstate) : dbstate :=
    let '(tx, t1) := last_or_begin (db_tm st) in
    let w1 := wlog crc enc cfg (db_w st) (TxCommit tx) in
    mkDb (db_store st) t1 (wsync (wcheckpoint crc enc cfg w1 tx (s_epoch (db_store st)))).

  (** [GrafeoDB::open] on a directory: recover, replay into a fresh store, fresh transaction
      manager, open the log for append *)
  Definition db_open (d : disk) : rres dbstate :=
    match recover crc dec d with
    | RErr => RErr
    | ROk rs => ROk (mkDb (apply_all empty_store rs) tm0 (wopen crc d))
    end.
  (** a fresh directory: [wopen] of the empty directory (one empty log file number 0) *)
  Definition db_fresh : dbstate := mkDb empty_store tm0 (mkW (mkDisk [(0, empty_file)] MetaAbsent false) 0 0 None).

  (** * Histories: sessions of operations, each ended by a clean close or by a crash *)
  Inductive sess_end :=
  | EClose                           (* close(), then the directory is opened again *)
  | ECrash (cuts : list (Z * Z)).    (* no close(): the listed files are cut to the given lengths *)
  Definition session := (list op * sess_end)%type.

  Fixpoint run_ops (cfg : wcfg) (st : dbstate) (os : list op) : dbstate * list out :=
    match os with
    | [] => (st, [])
    | o :: r => let '(st1, x) := db_step cfg st o in
                let '(st2, xs) := run_ops cfg st1 r in (st2, x :: xs)
    end.

  (** the directory as the next [open] finds it *)
  Definition end_disk (cfg : wcfg) (st : dbstate) (e : sess_end) : disk :=
    match e with
    | EClose => wdrop (db_w (db_close cfg st))
    | ECrash cuts => cut_disk cuts (wdrop (db_w st))
    end.

  (** observations of one session: results of the operations, store before the end, store after reopen *)
  Record sobs := mkObs { so_outs : list out; so_before : store; so_disk : disk; so_after : rres store }.

  Fixpoint run_sessions (cfg : wcfg) (st : dbstate) (ss : list session) : list sobs * rres dbstate :=
    match ss with
    | [] => ([], ROk st)
    | (os, e) :: r =>
        let '(st1, outs) := run_ops cfg st os in
        let d := end_disk cfg st1 e in
        match db_open d with
        | RErr => ([mkObs outs (db_store st1) d RErr], RErr)
        | ROk st2 =>
            let '(obs, fin) := run_sessions cfg st2 r in
            (mkObs outs (db_store st1) d (ROk (db_store st2)) :: obs, fin)
        end
    end.

  (** * The code before the repairs 14ec16a (wal_checkpoint wrote no commit marker) and 3ca6f5b
      (a torn tail was appended to): kept for the [_pre_refuted] theorems *)
  Definition db_step_pre (cfg : wcfg) (st : dbstate) (o : op) : dbstate * out :=
    match o with
    | OCheckpoint =>
        let '(tx, t1) := last_or_begin (db_tm st) in
        (mkDb (db_store st) t1 (wsync (wcheckpoint crc enc cfg (db_w st) tx (s_epoch (db_store st)))), OutUnit)
    | _ => db_step cfg st o
    end.
  Definition db_open_pre (d : disk) : rres dbstate :=
    match recover crc dec d with
    | RErr => RErr
    | ROk rs => ROk (mkDb (apply_all empty_store rs) tm0 (wopen_pre d))
    end.
  Fixpoint run_ops_pre (cfg : wcfg) (st : dbstate) (os : list op) : dbstate * list out :=
    match os with
    | [] => (st, [])
    | o :: r => let '(st1, x) := db_step_pre cfg st o in
                let '(st2, xs) := run_ops_pre cfg st1 r in (st2, x :: xs)
    end.
  Fixpoint run_sessions_pre (cfg : wcfg) (st : dbstate) (ss : list session) : list sobs * rres dbstate :=
    match ss with
    | [] => ([], ROk st)
    | (os, e) :: r =>
        let '(st1, outs) := run_ops_pre cfg st os in
        let d := end_disk cfg st1 e in
        match db_open_pre d with
        | RErr => ([mkObs outs (db_store st1) d RErr], RErr)
        | ROk st2 =>
            let '(obs, fin) := run_sessions_pre cfg st2 r in
            (mkObs outs (db_store st1) d (ROk (db_store st2)) :: obs, fin)
        end
    end.
End Db.
