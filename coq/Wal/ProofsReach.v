(** C07 — every store built through the API ([run_store]: any sequence of operations, logged or
    not, through the database or through sessions) is well formed, and its epochs have the
    shape the copy theorems need: outside finding class C07-K1 it is [epoch_clean]. *)
From GV Require Import Wal.Frame Wal.Disk Wal.Recover Wal.Db Wal.Snap Wal.Classes Wal.Spec
     Wal.ProofsFrame Wal.ProofsRecover Wal.ProofsDb Wal.ProofsSnap.
From Coq Require Import Lia ZArith List Bool.
Import ListNotations.
Open Scope Z_scope.

(** * association lists *)
Lemma aset_keys_in {V} k (v : V) l x : In x (map fst (aset Z.eqb k v l)) -> x = k \/ In x (map fst l).
Proof.
  induction l as [|[k' v'] l IH]; cbn; [intros [H|[]]; auto|].
  destruct (k' =? k) eqn:E; cbn; [intros [H|H]; auto|]. intros [H|H]; [auto|]. destruct (IH H); auto.
Qed.
Lemma aset_nodup {V} k (v : V) l : NoDup (map fst l) -> NoDup (map fst (aset Z.eqb k v l)).
Proof.
  induction l as [|[k' v'] l IH]; cbn; intros H; [constructor; [intros []|constructor]|].
  inversion H as [|? ? Hin Hl]; subst. destruct (k' =? k) eqn:E; cbn; constructor; auto.
  intros C. apply aset_keys_in in C as [C|C]; [apply Z.eqb_neq in E; congruence|contradiction].
Qed.
Lemma asets_keys_in {V} k (v : V) l x : In x (map fst (aset str_eqb k v l)) -> x = k \/ In x (map fst l).
Proof.
  induction l as [|[k' v'] l IH]; cbn; [intros [H|[]]; auto|].
  destruct (str_eqb k' k) eqn:E; cbn; [intros [H|H]; auto|]. intros [H|H]; [auto|]. destruct (IH H); auto.
Qed.
Lemma asets_nodup {V} k (v : V) l : NoDup (map fst l) -> NoDup (map fst (aset str_eqb k v l)).
Proof.
  induction l as [|[k' v'] l IH]; cbn; intros H; [constructor; [intros []|constructor]|].
  inversion H as [|? ? Hin Hl]; subst. destruct (str_eqb k' k) eqn:E; cbn; constructor; auto.
  intros C. apply asets_keys_in in C as [C|C]; [subst; rewrite str_eqb_refl in E; discriminate|contradiction].
Qed.
Lemma adel_keys_in {K V} (eqb : K -> K -> bool) k (l : list (K * V)) x : In x (map fst (adel eqb k l)) -> In x (map fst l).
Proof.
  induction l as [|[k' v'] l IH]; cbn; [auto|]. destruct (eqb k' k); cbn; [auto|]. intros [H|H]; auto.
Qed.
Lemma adel_nodup {K V} (eqb : K -> K -> bool) k (l : list (K * V)) : NoDup (map fst l) -> NoDup (map fst (adel eqb k l)).
Proof.
  induction l as [|[k' v'] l IH]; cbn; intros H; [constructor|].
  inversion H as [|? ? Hin Hl]; subst. destruct (eqb k' k); cbn; [exact Hl|]. constructor; auto.
  intros C. apply Hin. eapply adel_keys_in, C.
Qed.
Lemma Forall_aset {K V} (eqb : K -> K -> bool) (Q : V -> Prop) k v (l : list (K * V)) :
  Forall (fun kv => Q (snd kv)) l -> Q v -> Forall (fun kv => Q (snd kv)) (aset eqb k v l).
Proof.
  induction l as [|[k' v'] l IH]; cbn; intros H Hv; [constructor; [exact Hv|constructor]|].
  inversion H; subst. destruct (eqb k' k); constructor; auto.
Qed.
Lemma Forall_adel {K V} (eqb : K -> K -> bool) (Q : V -> Prop) k (l : list (K * V)) :
  Forall (fun kv => Q (snd kv)) l -> Forall (fun kv => Q (snd kv)) (adel eqb k l).
Proof.
  induction l as [|[k' v'] l IH]; cbn; intros H; [constructor|].
  inversion H; subst. destruct (eqb k' k); [assumption|constructor; auto].
Qed.
Lemma Forall_aget {K V} (eqb : K -> K -> bool) (Q : V -> Prop) k (l : list (K * V)) v :
  Forall (fun kv => Q (snd kv)) l -> aget eqb k l = Some v -> Q v.
Proof.
  induction l as [|[k' v'] l IH]; cbn; intros H E; [discriminate|].
  inversion H; subst. destruct (eqb k' k); [injection E as <-; assumption|auto].
Qed.

(** * the invariant *)
Definition node_ok (n : nrec) : Prop := NoDup (n_labels n) /\ forall d, n_deleted n = Some d -> d = 0.
Definition edge_ok (e : erec) : Prop := forall d, e_deleted e = Some d -> d = 0.
Definition reach (s : store) : Prop :=
  NoDup (map fst (s_nodes s)) /\ NoDup (map fst (s_edges s))
  /\ Forall (fun kv => node_ok (snd kv)) (s_nodes s) /\ Forall (fun kv => edge_ok (snd kv)) (s_edges s)
  /\ Forall (fun kv => props_ok (snd kv)) (s_nprops s) /\ Forall (fun kv => props_ok (snd kv)) (s_eprops s)
  /\ s_epoch s = 0.

Lemma props_of_ok id m : Forall (fun kv : Z * props => props_ok (snd kv)) m -> props_ok (props_of id m).
Proof.
  intros H. unfold props_of. destruct (aget Z.eqb id m) as [p|] eqn:E; [|constructor].
  exact (Forall_aget Z.eqb props_ok id m p H E).
Qed.

Lemma reach_wf s : reach s -> store_wf s.
Proof.
  intros (A & B & C & D & E & F & G). repeat split; try assumption.
  - intros kv Hin. rewrite Forall_forall in C. apply (C kv Hin).
  - intros id. apply props_of_ok, E.
  - intros id. apply props_of_ok, F.
Qed.

Lemma reach_clean s : reach s -> k07_1 s = false -> epoch_clean s = true.
Proof.
  intros (A & B & C & D & E & F & G) K. unfold k07_1 in K. apply orb_false_elim in K as [K1 K2].
  unfold epoch_clean. rewrite G in *. apply andb_true_intro. split; [apply andb_true_intro; split|].
  - reflexivity.
  - apply forallb_forall. intros [id n] Hin.
    rewrite Forall_forall in C. destruct (C _ Hin) as [_ Hd]. cbn [snd] in Hd.
    unfold epoch_ok. destruct (n_deleted n) as [d|] eqn:Ed; [rewrite (Hd d eq_refl); reflexivity|].
    apply Z.leb_le. destruct (Z.le_gt_cases (n_created n) 0) as [L|L]; [exact L|exfalso].
    assert (T : existsb (fun sn : Z * nrec => match n_deleted (snd sn) with None => 0 <? n_created (snd sn) | Some _ => false end) (s_nodes s) = true).
    { apply existsb_exists. exists (id, n). split; [exact Hin|]. cbn [snd]. rewrite Ed. apply Z.ltb_lt. lia. }
    rewrite T in K1. discriminate.
  - apply forallb_forall. intros [id n] Hin.
    rewrite Forall_forall in D. pose proof (D _ Hin) as Hd. cbn [snd] in Hd. unfold edge_ok in Hd.
    unfold epoch_ok. destruct (e_deleted n) as [d|] eqn:Ed; [rewrite (Hd d eq_refl); reflexivity|].
    apply Z.leb_le. destruct (Z.le_gt_cases (e_created n) 0) as [L|L]; [exact L|exfalso].
    assert (T : existsb (fun sx : Z * erec => match e_deleted (snd sx) with None => 0 <? e_created (snd sx) | Some _ => false end) (s_edges s) = true).
    { apply existsb_exists. exists (id, n). split; [exact Hin|]. cbn [snd]. rewrite Ed. apply Z.ltb_lt. lia. }
    rewrite T in K2. discriminate.
Qed.

Lemma reach_empty : reach empty_store.
Proof. repeat split; constructor. Qed.

(** * preservation, function by function *)
Lemma node_ok_new ep ls : node_ok (mkN ep None (dedup ls)).
Proof. split; [apply nodup_dedup|discriminate]. Qed.

Lemma reach_create_node s ls ep : reach s -> reach (fst (st_create_node s ls ep)).
Proof.
  intros (A & B & C & D & E & F & G). unfold st_create_node. cbn [fst]. unfold reach. cbn [s_nodes s_edges s_nprops s_eprops s_epoch].
  repeat split; try assumption; [apply aset_nodup, A|apply (Forall_aset Z.eqb node_ok); [exact C|apply node_ok_new]].
Qed.
Lemma reach_create_edge s a b ty ep : reach s -> reach (fst (st_create_edge s a b ty ep)).
Proof.
  intros (A & B & C & D & E & F & G). unfold st_create_edge. cbn [fst]. unfold reach. cbn [s_nodes s_edges s_nprops s_eprops s_epoch].
  repeat split; try assumption; [apply aset_nodup, B|apply (Forall_aset Z.eqb edge_ok); [exact D|discriminate]].
Qed.
Lemma reach_set_node_prop s id k v : reach s -> reach (st_set_node_prop s id k v).
Proof.
  intros (A & B & C & D & E & F & G). unfold st_set_node_prop, reach. cbn [s_nodes s_edges s_nprops s_eprops s_epoch].
  repeat split; try assumption. unfold set_prop. apply (Forall_aset Z.eqb props_ok); [exact E|].
  apply asets_nodup, props_of_ok, E.
Qed.
Lemma reach_set_edge_prop s id k v : reach s -> reach (st_set_edge_prop s id k v).
Proof.
  intros (A & B & C & D & E & F & G). unfold st_set_edge_prop, reach. cbn [s_nodes s_edges s_nprops s_eprops s_epoch].
  repeat split; try assumption. unfold set_prop. apply (Forall_aset Z.eqb props_ok); [exact F|].
  apply asets_nodup, props_of_ok, F.
Qed.
Lemma reach_set_props_node ps : forall s id, reach s -> reach (set_props_node s id ps).
Proof. unfold set_props_node. induction ps as [|kv ps IH]; intros s id H; [exact H|]. cbn [fold_left]. apply IH, reach_set_node_prop, H. Qed.
Lemma reach_set_props_edge ps : forall s id, reach s -> reach (set_props_edge s id ps).
Proof. unfold set_props_edge. induction ps as [|kv ps IH]; intros s id H; [exact H|]. cbn [fold_left]. apply IH, reach_set_edge_prop, H. Qed.

Lemma reach_delete_node s id : reach s -> reach (fst (st_delete_node s id)).
Proof.
  intros R. pose proof R as (A & B & C & D & E & F & G). unfold st_delete_node.
  destruct (aget Z.eqb id (s_nodes s)) as [n|] eqn:Eg; [|exact R]. destruct (visible _ _ _); [|exact R].
  cbn [fst]. unfold reach. cbn [s_nodes s_edges s_nprops s_eprops s_epoch].
  repeat split; try assumption; [apply aset_nodup, A| |apply Forall_adel, E].
  apply (Forall_aset Z.eqb node_ok); [exact C|]. split; [constructor|]. cbn [n_deleted].
  destruct (Forall_aget Z.eqb node_ok id _ n C Eg) as [_ Hd].
  destruct (n_deleted n) as [d0|]; intros d Hd'; [apply Hd; exact Hd'|injection Hd' as <-; exact G].
Qed.
Lemma reach_delete_edge s id : reach s -> reach (fst (st_delete_edge s id)).
Proof.
  intros R. pose proof R as (A & B & C & D & E & F & G). unfold st_delete_edge.
  destruct (aget Z.eqb id (s_edges s)) as [n|] eqn:Eg; [|exact R]. destruct (visible _ _ _); [|exact R].
  cbn [fst]. unfold reach. cbn [s_nodes s_edges s_nprops s_eprops s_epoch].
  repeat split; try assumption; [apply aset_nodup, B| |apply Forall_adel, F].
  apply (Forall_aset Z.eqb edge_ok); [exact D|]. unfold edge_ok. cbn [e_deleted].
  pose proof (Forall_aget Z.eqb edge_ok id _ n D Eg) as Hd. unfold edge_ok in Hd.
  destruct (e_deleted n) as [d0|]; intros d Hd'; [apply Hd; exact Hd'|injection Hd' as <-; exact G].
Qed.
Lemma nodup_snoc {A} (l : list A) x : NoDup l -> ~ In x l -> NoDup (l ++ [x]).
Proof.
  induction 1 as [|y l Hy Hl IH]; intros Hx; cbn; [constructor; [intros []|constructor]|].
  constructor; [|apply IH; intros C; apply Hx; right; exact C].
  intros C. apply in_app_or in C as [C|[C|[]]]; [contradiction|]. apply Hx. left. symmetry. exact C.
Qed.
Lemma reach_add_label s id l : reach s -> reach (fst (st_add_label s id l)).
Proof.
  intros R. pose proof R as (A & B & C & D & E & F & G). unfold st_add_label.
  destruct (aget Z.eqb id (s_nodes s)) as [n|] eqn:Eg; [|exact R]. destruct (visible _ _ _); [|exact R].
  destruct (existsb (str_eqb l) (n_labels n)) eqn:Ex; [exact R|].
  cbn [fst]. unfold reach. cbn [s_nodes s_edges s_nprops s_eprops s_epoch].
  repeat split; try assumption; [apply aset_nodup, A|].
  apply (Forall_aset Z.eqb node_ok); [exact C|].
  destruct (Forall_aget Z.eqb node_ok id _ n C Eg) as [Hl Hd]. split; [|exact Hd]. cbn [n_labels].
  apply nodup_snoc; [exact Hl|]. intros Hin. apply existsb_str in Hin. congruence.
Qed.
Lemma reach_remove_label s id l : reach s -> reach (fst (st_remove_label s id l)).
Proof.
  intros R. pose proof R as (A & B & C & D & E & F & G). unfold st_remove_label.
  destruct (aget Z.eqb id (s_nodes s)) as [n|] eqn:Eg; [|exact R]. destruct (visible _ _ _); [|exact R].
  destruct (existsb (str_eqb l) (n_labels n)) eqn:Ex; [|exact R].
  cbn [fst]. unfold reach. cbn [s_nodes s_edges s_nprops s_eprops s_epoch].
  repeat split; try assumption; [apply aset_nodup, A|].
  apply (Forall_aset Z.eqb node_ok); [exact C|].
  destruct (Forall_aget Z.eqb node_ok id _ n C Eg) as [Hl Hd]. split; [|exact Hd]. cbn [n_labels].
  apply NoDup_filter, Hl.
Qed.
Lemma reach_remove_node_prop s id k : reach s -> reach (fst (st_remove_node_prop s id k)).
Proof.
  intros R. pose proof R as (A & B & C & D & E & F & G). unfold st_remove_node_prop.
  destruct (aget str_eqb k (props_of id (s_nprops s))); [|exact R].
  cbn [fst]. unfold reach. cbn [s_nodes s_edges s_nprops s_eprops s_epoch].
  repeat split; try assumption. apply (Forall_aset Z.eqb props_ok); [exact E|]. apply adel_nodup, props_of_ok, E.
Qed.
Lemma reach_remove_edge_prop s id k : reach s -> reach (fst (st_remove_edge_prop s id k)).
Proof.
  intros R. pose proof R as (A & B & C & D & E & F & G). unfold st_remove_edge_prop.
  destruct (aget str_eqb k (props_of id (s_eprops s))); [|exact R].
  cbn [fst]. unfold reach. cbn [s_nodes s_edges s_nprops s_eprops s_epoch].
  repeat split; try assumption. apply (Forall_aset Z.eqb props_ok); [exact F|]. apply adel_nodup, props_of_ok, F.
Qed.

Lemma reach_delete_edges es : forall s, reach s -> reach (fst (delete_edges s es)).
Proof.
  induction es as [|e r IH]; intros s R; [exact R|]. cbn [delete_edges].
  pose proof (reach_delete_edge s e R) as R1. destruct (st_delete_edge s e) as [s1 b]. cbn [fst] in R1.
  specialize (IH s1 R1). destruct (delete_edges s1 r) as [s2 rs]. exact IH.
Qed.

Lemma reach_op s t o : reach s -> reach (fst (fst (fst (op_effect s t o)))).
Proof.
  intros R. destruct o; cbn [op_effect].
  - pose proof (reach_create_node s labels (s_epoch s) R) as H. destruct (st_create_node s labels (s_epoch s)). exact H.
  - pose proof (reach_create_node s labels (s_epoch s) R) as H. destruct (st_create_node s labels (s_epoch s)) as [s1 id]. cbn [fst] in *. apply reach_set_props_node, H.
  - assert (R0 : reach (fst (if node_visible s id then delete_edges s (incident_edges s id) else (s, [])))).
    { destruct (node_visible s id); [apply reach_delete_edges, R|exact R]. }
    destruct (if node_visible s id then delete_edges s (incident_edges s id) else (s, [])) as [s0 ers]. cbn [fst] in R0.
    pose proof (reach_delete_node s0 id R0) as H. destruct (st_delete_node s0 id). exact H.
  - apply reach_set_node_prop, R.
  - pose proof (reach_add_label s id l R) as H. destruct (st_add_label s id l). exact H.
  - pose proof (reach_remove_label s id l R) as H. destruct (st_remove_label s id l). exact H.
  - pose proof (reach_create_edge s src dst ty (s_epoch s) R) as H. destruct (st_create_edge s src dst ty (s_epoch s)). exact H.
  - pose proof (reach_create_edge s src dst ty (s_epoch s) R) as H. destruct (st_create_edge s src dst ty (s_epoch s)) as [s1 id]. cbn [fst] in *. apply reach_set_props_edge, H.
  - pose proof (reach_delete_edge s id R) as H. destruct (st_delete_edge s id). exact H.
  - apply reach_set_edge_prop, R.
  - pose proof (reach_remove_node_prop s id k R) as H. destruct (st_remove_node_prop s id k). exact H.
  - pose proof (reach_remove_edge_prop s id k R) as H. destruct (st_remove_edge_prop s id k). exact H.
  - pose proof (reach_create_node s labels (tm_epoch t) R) as H. destruct (st_create_node s labels (tm_epoch t)) as [s1 id]. cbn [fst] in *. apply reach_set_props_node, H.
  - pose proof (reach_create_node s labels (tm_epoch t) R) as H. destruct (st_create_node s labels (tm_epoch t)). exact H.
  - exact R.
  - exact R.
  - exact R.
Qed.

Lemma run_store_reach os : reach (fst (run_store os)).
Proof.
  unfold run_store.
  assert (G : forall st, reach (fst st) -> reach (fst (fold_left (fun st o => match op_effect (fst st) (snd st) o with (s1, t1, _, _) => (s1, t1) end) os st))).
  { induction os as [|o r IH]; intros st H; [exact H|]. cbn [fold_left]. apply IH.
    pose proof (reach_op (fst st) (snd st) o H) as H'. destruct (op_effect (fst st) (snd st) o) as [[[s1 t1] rs] res]. exact H'. }
  apply G, reach_empty.
Qed.

(** every store built through the API is well formed, and outside class C07-K1 epoch-clean *)
Lemma api_store_wf os : store_wf (fst (run_store os)).
Proof. apply reach_wf, run_store_reach. Qed.
Lemma api_store_clean os : k07_1 (fst (run_store os)) = false -> epoch_clean (fst (run_store os)) = true.
Proof. apply reach_clean, run_store_reach. Qed.
