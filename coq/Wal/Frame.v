(** C05/C06 — WAL record framing: model of the byte format written by [WalManager::log]
    (grafeo-adapters/src/storage/wal/log.rs l.184-212) and read back by
    [WalRecovery::read_record] (recovery.rs l.245-277).  Definitions only.

    A byte string is a [list Z] (values 0..255).  The checksum function and the payload
    decoder are Section variables: after [End Frame] every definition takes them as explicit
    arguments, and every theorem about them carries its premises explicitly. *)
From GV Require Export Base.Bits.
Open Scope Z_scope.

Definition bytes := list Z.

Definition lenZ {A} (l : list A) : Z := Z.of_nat (length l).

(** [u32::to_le_bytes] / [u32::from_le_bytes] *)
Definition le32 (z : Z) : bytes := le_bytes 4 z.
Definition u32_of (bs : bytes) : Z := of_le_bytes bs.

Definition two32 : Z := 2 ^ 32.

(** why a file stops being read *)
Inductive status :=
| Eof          (* fewer than 4 bytes left where a length field is expected: [Ok(None)] *)
| ShortBody    (* [read_exact(&mut data)] failed *)
| ShortCrc     (* [read_exact(&mut checksum_buf)] failed *)
| BadCrc       (* stored checksum <> crc32(data) *)
| BadPayload.  (* bincode could not decode the payload *)

Definition status_eqb (a b : status) : bool :=
  match a, b with
  | Eof, Eof | ShortBody, ShortBody | ShortCrc, ShortCrc | BadCrc, BadCrc | BadPayload, BadPayload => true
  | _, _ => false
  end.

Section Frame.
  Variable crc : bytes -> Z.          (* crc32fast::hash *)
  Variable R : Type.                  (* decoded record *)
  Variable dec : bytes -> option R.   (* bincode::serde::decode_from_slice(..).0 *)

  (** [log()]: length prefix (u32 LE), payload, checksum (u32 LE) *)
  Definition frame (p : bytes) : bytes := le32 (lenZ p) ++ p ++ le32 (crc p).

  Inductive rd := RdEof | RdErr (s : status) | RdOk (r : R) (rest : bytes).

  (** one call of [read_record] on the unread rest of a file *)
  Definition read_record (bs : bytes) : rd :=
    if (length bs <? 4)%nat then RdEof
    else
      let len := u32_of (firstn 4 bs) in
      let bs1 := skipn 4 bs in
      if lenZ bs1 <? len then RdErr ShortBody
      else
        let n := Z.to_nat len in
        let data := firstn n bs1 in
        let bs2 := skipn n bs1 in
        if (length bs2 <? 4)%nat then RdErr ShortCrc
        else if negb (u32_of (firstn 4 bs2) =? crc data) then RdErr BadCrc
        else match dec data with
             | None => RdErr BadPayload
             | Some r => RdOk r (skipn 4 bs2)
             end.

  (** the [loop { match self.read_record(..) }] of [recover_internal] for one file:
      records until the first EOF/error, and why it stopped *)
  Fixpoint parse_fuel (fuel : nat) (bs : bytes) : list R * status :=
    match fuel with
    | O => ([], Eof)
    | S f =>
        match read_record bs with
        | RdEof => ([], Eof)
        | RdErr s => ([], s)
        | RdOk r rest => let (rs, s) := parse_fuel f rest in (r :: rs, s)
        end
    end.
  Definition parse (bs : bytes) : list R * status := parse_fuel (S (length bs)) bs.

  (** number of bytes covered by the intact leading frames of a file *)
  Fixpoint parsed_len_fuel (fuel : nat) (bs : bytes) : nat :=
    match fuel with
    | O => O
    | S f =>
        match read_record bs with
        | RdOk _ rest => ((length bs - length rest) + parsed_len_fuel f rest)%nat
        | _ => O
        end
    end.
  Definition parsed_len (bs : bytes) : nat := parsed_len_fuel (S (length bs)) bs.

  (** a file on which the writer can go on appending: it consists of whole intact frames *)
  Definition clean_file (bs : bytes) : bool := (parsed_len bs =? length bs)%nat.
End Frame.

Arguments RdEof {R}.
Arguments RdErr {R} _.
Arguments RdOk {R} _ _.

(** how many leading frames of [concat (map frame ps)] lie wholly inside the first [n] bytes *)
Fixpoint frames_within (n : nat) (ps : list bytes) : nat :=
  match ps with
  | [] => O
  | p :: r => let l := (length p + 8)%nat in
              if (l <=? n)%nat then S (frames_within (n - l) r) else O
  end.

(** status of the parse of the first [n] bytes of [concat (map frame ps)] *)
Fixpoint trunc_status (n : nat) (ps : list bytes) : status :=
  match ps with
  | [] => Eof
  | p :: r => let l := (length p + 8)%nat in
              if (l <=? n)%nat then trunc_status (n - l) r
              else if (n <? 4)%nat then Eof
              else if (n <? 4 + length p)%nat then ShortBody
              else ShortCrc
  end.

(** flipping bit [b] (0..7) of byte [i] *)
Fixpoint flip_bit (bs : bytes) (i : nat) (b : Z) : bytes :=
  match bs, i with
  | [], _ => []
  | x :: r, O => Z.lxor x (2 ^ b) :: r
  | x :: r, S j => x :: flip_bit r j b
  end.
