(** C05/C06/C07 — decidable classes of the open findings (the [K] predicates).  Each is a
    boolean function of the operation history / the crash image; the same functions classify
    the failing inputs of a run and appear in the theorems of Props_C05..C07.  Definitions only. *)
From GV Require Export Wal.Snap.
Open Scope Z_scope.

Definition nilb {A} (l : list A) : bool := match l with [] => true | _ => false end.

Definition is_cp_op (o : op) : bool := match o with OCheckpoint => true | _ => false end.
Definition is_rm_op (o : op) : bool := match o with ORemoveNodeProp _ _ | ORemoveEdgeProp _ _ => true | _ => false end.
Definition is_sess_op (o : op) : bool := match o with OSessNode _ _ | OSessTxNode _ => true | _ => false end.
Definition out_true (x : out) : bool := match x with OutBool true => true | _ => false end.
Definition logs_something (s : store) (t : tm) (o : op) : bool :=
  match op_effect s t o with (_, _, rs, _) => negb (nilb rs) end.

(** events of one session that make the next reopen differ from the state at close *)
Record kflags := mkK {
  k_cp : bool;     (* C05-K1 (repaired by 14ec16a, no longer a class): explicit checkpoint while the log holds uncommitted data records *)
  k_rm : bool;     (* C05-K2: a remove_*_property call that removed something *)
  k_sess : bool;   (* C05-K3: a mutation through a session / query *)
  k_rot : bool     (* C05-K4: the log was rotated (explicitly or because a file reached max_log_size) *)
}.
Definition k0 : kflags := mkK false false false false.
Definition kclean (k : kflags) : bool := negb (k_rm k || k_sess k || k_rot k).

Section Classes.
  Variable crc : bytes -> Z.
  Variable enc : record -> bytes.
  Variable dec : bytes -> option record.

  (** [dirty]: the log holds data records that no commit marker covers yet *)
  Fixpoint scan (cfg : wcfg) (st : dbstate) (dirty : bool) (os : list op) (acc : kflags) : kflags * dbstate :=
    match os with
    | [] => (acc, st)
    | o :: r =>
        let '(st1, res) := db_step crc enc cfg st o in
        let acc1 := mkK (k_cp acc || (is_cp_op o && dirty))
                        (k_rm acc || (is_rm_op o && out_true res))
                        (k_sess acc || is_sess_op o)
                        (k_rot acc || negb (w_seq (db_w st1) =? w_seq (db_w st))) in
        let dirty1 := if is_cp_op o then false else dirty || logs_something (db_store st) (db_tm st) o in
        scan cfg st1 dirty1 r acc1
    end.

  Definition sess_flags (cfg : wcfg) (st : dbstate) (os : list op) : kflags * dbstate :=
    let dirty0 := existsb is_data (leftover crc dec (w_disk (db_w st))) in
    let '(fl, st1) := scan cfg st dirty0 os k0 in
    (mkK (k_cp fl) (k_rm fl) (k_sess fl)
         (k_rot fl || negb (w_seq (db_w (db_close crc enc cfg st1)) =? w_seq (db_w st1))), st1).

  (** flags of every session of a history, in order *)
  Fixpoint hist_flags (cfg : wcfg) (st : dbstate) (ss : list session) : list kflags :=
    match ss with
    | [] => []
    | (os, e) :: r =>
        let '(fl, st1) := sess_flags cfg st os in
        match db_open crc dec (end_disk crc enc cfg st1 e) with
        | RErr => [fl]
        | ROk st2 => fl :: hist_flags cfg st2 r
        end
    end.
  Definition last_flags (cfg : wcfg) (ss : list session) : kflags :=
    last (hist_flags cfg (db_fresh) ss) k0.

  Definition k05_1 cfg ss := k_cp (last_flags cfg ss).
  Definition k05_2 cfg ss := k_rm (last_flags cfg ss).
  Definition k05_3 cfg ss := k_sess (last_flags cfg ss).
  Definition k05_4 cfg ss := k_rot (last_flags cfg ss).

  (** * The records a history appends to the log (the premise of the C05 theorems asks the
      codec to carry exactly these) *)
  Definition step_logs (st : dbstate) (o : op) : list record :=
    match o with
    | OCheckpoint => let tx := fst (last_or_begin (db_tm st)) in [TxCommit tx; Checkpoint tx]
    | ORotate | OSync => []
    | _ => match op_effect (db_store st) (db_tm st) o with (_, _, rs, _) => rs end
    end.
  Fixpoint ops_logs (cfg : wcfg) (st : dbstate) (os : list op) : list record :=
    match os with
    | [] => []
    | o :: r => step_logs st o ++ ops_logs cfg (fst (db_step crc enc cfg st o)) r
    end.
  Definition close_logs (st : dbstate) : list record :=
    let tx := fst (last_or_begin (db_tm st)) in [TxCommit tx; Checkpoint tx].
  Fixpoint hist_logs (cfg : wcfg) (st : dbstate) (ss : list session) : list record :=
    match ss with
    | [] => []
    | (os, e) :: r =>
        let st1 := fst (run_ops crc enc cfg st os) in
        ops_logs cfg st os
        ++ (match e with EClose => close_logs st1 | ECrash _ => [] end)
        ++ match db_open crc dec (end_disk crc enc cfg st1 e) with
           | ROk st2 => hist_logs cfg st2 r
           | RErr => []
           end
    end.

  Definition no_crash (ss : list session) : bool :=
    forallb (fun se => match snd se with EClose => true | ECrash _ => false end) ss.

  (** * C06 *)
  (** the directory reduced to what is guaranteed durable *)
  Definition synced_disk (d : disk) : disk :=
    set_files d (map (fun sf => (fst sf, cut_file (Z.to_nat (f_synced (snd sf))) (snd sf))) (d_files d)).
  (** C06-K1: fsynced data records that no intact commit marker covers (only [close] writes one) *)
  Definition k06_1 (d : disk) : bool := existsb is_data (leftover crc dec (synced_disk d)).
  (** C06-K2: the file the writer will append to does not consist of whole intact frames *)
  Definition k06_2 (d' : disk) : bool :=
    negb (clean_file crc record dec (f_bytes (active (wopen_pre d')))).
  (** C06-K3: a file in recovery range lost records while a later file still contributes some *)
  Fixpoint k3_files (minseq : Z) (orig img : list (Z * file)) : bool :=
    match orig, img with
    | (s, f) :: ro, (_, f') :: ri =>
        if s <? minseq then k3_files minseq ro ri
        else (negb (list_eqb record_eqb (file_records crc dec f) (file_records crc dec f'))
              && existsb (fun sg => negb (nilb (file_records crc dec (snd sg)))) ri)
             || k3_files minseq ro ri
    | _, _ => false
    end.
  Definition k06_3 (d d' : disk) : bool := k3_files (min_seq (d_meta d')) (d_files d) (d_files d').
  (** C06-K5: intact data records without a commit marker stay in the log after recovery
      dropped them; the next [close] commits them *)
  Definition k06_5 (d' : disk) : bool := existsb is_data (leftover crc dec d').
End Classes.

(** * C07 *)
(** C07-K1: a live entity stamped with an epoch later than the store's own *)
Definition k07_1 (s : store) : bool :=
  existsb (fun sn => match n_deleted (snd sn) with None => s_epoch s <? n_created (snd sn) | Some _ => false end) (s_nodes s)
  || existsb (fun sx => match e_deleted (snd sx) with None => s_epoch s <? e_created (snd sx) | Some _ => false end) (s_edges s).
(** C07-K2: bytes behind the decoded snapshot *)
Definition k07_2 (bs : bytes) (consumed : nat) : bool := (consumed <? length bs)%nat.
(** C07-K3: the snapshot names the largest id (the id counter computation [id + 1] overflows) *)
Definition k07_3 (sn : snapshot) : bool := names_max_id sn.
(** C07-K4: the bytes contain the marker of a 64-bit length (253): the only way to announce a
    length the process cannot allocate.  (Memory exhaustion is not modelled: the model decoder
    rejects such bytes, the implementation's decoder allocates first and is aborted.) *)
Definition k07_4 (bs : bytes) : bool := existsb (Z.eqb 253) bs.
