(** C05/C06/C07 — the witnesses of the [_refuted] theorems: concrete histories, crash images
    and byte strings on which the model (instantiated with CRC-32 and the bincode record and
    snapshot codecs) violates the property.  Every witness is also in the corpus of
    harness/src/bin/c05.rs and is replayed against the implementation on every run. *)
From GV Require Import Wal.Spec.
From Coq Require Import Lia ZArith List Bool.
Import ListNotations.
Open Scope Z_scope.

Definition sA : str := [65].
Definition sB : str := [66].
Definition sC : str := [67].
Definition sK : str := [107].
(** bincode of [Value::Int64(1)]: variant 2, zig-zag 2 *)
Definition vOne : value := [2; 2].

(** * C05 *)
Definition w05_1 : list session := [([OCreateNode [sA]; OCheckpoint; OCreateNode [sB]], EClose)].
Definition w05_2 : list session := [([OCreateNodeProps [sA] [(sK, vOne)]; ORemoveNodeProp 0 sK], EClose)].
Definition w05_3 : list session := [([OCreateNode [sA]; OSessNode [sB] []], EClose)].
Definition w05_3tx : list session := [([OCreateNode [sA]; OSessTxNode [sB]], EClose)].
Definition w05_4 : list session := [([OCreateNode [sA]], EClose); ([ORotate; OCreateNode [sB]], EClose)].

Lemma w05_1_l : no_crash w05_1 = true /\ real_flags (engine_cfg MSync) w05_1 = [mkK true false false false]
                /\ last_cycle_differs (engine_cfg MSync) w05_1.
Proof. split; [reflexivity|]. split; [vm_compute; reflexivity|]. eexists. eexists. vm_compute. repeat split. Qed.
Lemma w05_2_l : no_crash w05_2 = true /\ real_flags (engine_cfg MSync) w05_2 = [mkK false true false false]
                /\ last_cycle_differs (engine_cfg MSync) w05_2.
Proof. split; [reflexivity|]. split; [vm_compute; reflexivity|]. eexists. eexists. vm_compute. repeat split. Qed.
Lemma w05_3_l : no_crash w05_3 = true /\ real_flags (engine_cfg MSync) w05_3 = [mkK false false true false]
                /\ last_cycle_differs (engine_cfg MSync) w05_3.
Proof. split; [reflexivity|]. split; [vm_compute; reflexivity|]. eexists. eexists. vm_compute. repeat split. Qed.
Lemma w05_3tx_l : no_crash w05_3tx = true /\ real_flags (engine_cfg MSync) w05_3tx = [mkK false false true false]
                /\ last_cycle_differs (engine_cfg MSync) w05_3tx.
Proof. split; [reflexivity|]. split; [vm_compute; reflexivity|]. eexists. eexists. vm_compute. repeat split. Qed.
Lemma w05_4_l : no_crash w05_4 = true /\ real_flags (engine_cfg MSync) w05_4 = [k0; mkK false false false true]
                /\ last_cycle_differs (engine_cfg MSync) w05_4.
Proof. split; [reflexivity|]. split; [vm_compute; reflexivity|]. eexists. eexists. vm_compute. repeat split. Qed.

(** * C06 *)
(** K1: everything was fsynced, nothing is cut, and the node is gone all the same *)
Definition w06_1 : list op := [OCreateNode [sA]; OSetNodeProp 0 sK vOne; OSync].
Lemma w06_1_l :
  let st1 := fst (real_ops (engine_cfg MSync) db_fresh w06_1) in
  let d := wdrop (db_w st1) in
  all_synced d /\ k06_1 crc32 dec_record_slice d = true
  /\ exists st2, real_open d = ROk st2 /\ differ (db_store st2) (db_store st1).
Proof.
  cbv zeta. split; [vm_compute; repeat constructor|]. split; [vm_compute; reflexivity|].
  eexists. vm_compute. split; reflexivity.
Qed.

(** K2: a crash tears the last record; the database is reopened, written to and closed
    cleanly; the write is unreadable for ever *)
Definition w06_2 : list session :=
  [([OCreateNode [sA]], EClose); ([OCreateNode [sB]; OCreateNode [sC]], ECrash [(0, 50)]); ([OCreateNode [sC]], EClose)].
Lemma w06_2_l :
  ends_with_close w06_2
  /\ (exists o, nth_error (fst (real_sessions (engine_cfg MNoSync) w06_2)) 1 = Some o
                /\ k06_2 crc32 dec_record_slice (so_disk o) = true /\ k06_5 crc32 dec_record_slice (so_disk o) = true)
  /\ last_cycle_differs (engine_cfg MNoSync) w06_2.
Proof.
  split; [exact I|]. split.
  - eexists. vm_compute. repeat split.
  - eexists. eexists. vm_compute. repeat split.
Qed.

(** K5: the crash loses nothing, recovery drops the two uncommitted records but leaves them in
    the log; the next clean close commits them *)
Definition w06_5 : list session :=
  [([OCreateNode [sA]], EClose); ([OCreateNode [sB]; OCreateNode [sC]], ECrash []); ([OCreateNode [sC]], EClose)].
Lemma w06_5_l :
  ends_with_close w06_5
  /\ (exists o, nth_error (fst (real_sessions (engine_cfg MNoSync) w06_5)) 1 = Some o
                /\ k06_2 crc32 dec_record_slice (so_disk o) = false /\ k06_5 crc32 dec_record_slice (so_disk o) = true)
  /\ last_cycle_differs (engine_cfg MNoSync) w06_5.
Proof.
  split; [exact I|]. split.
  - eexists. vm_compute. repeat split.
  - eexists. eexists. vm_compute. repeat split.
Qed.

(** K3: two log files; the first loses the tail of its last record, the second is intact *)
Definition w06_3_log : list record := [CreateNode 0 [sA]; CreateNode 1 [sB]; CreateNode 2 [sC]; TxCommit 2].
Definition w06_3_ops : list wop :=
  [WLog (CreateNode 0 [sA]); WLog (CreateNode 1 [sB]); WRotate; WLog (CreateNode 2 [sC]); WLog (TxCommit 2)].
Definition w06_3_disk : disk := wdrop (wrun crc32 enc_record (engine_cfg MNoSync) (wopen empty_disk) w06_3_ops).
Definition w06_3_img : disk := cut_disk [(0, 23)] w06_3_disk.

Lemma sm_firstn_cases (L : list record) (P : list record -> Prop) :
  (forall k, (k <= length L)%nat -> P (snd (sm_run ([], []) (firstn k L)))) ->
  forall k, P (snd (sm_run ([], []) (firstn k L))).
Proof.
  intros H k. destruct (Nat.le_gt_cases k (length L)) as [Hk|Hk]; [apply H, Hk|].
  rewrite firstn_all2 by lia. rewrite <- (firstn_all L). apply H. lia.
Qed.

Lemma w06_3_l :
  d_files w06_3_disk = [(0, mkFile (real_frames [CreateNode 0 [sA]; CreateNode 1 [sB]]) 26 0);
                        (1, mkFile (real_frames [CreateNode 2 [sC]; TxCommit 2]) 24 0)]
  /\ crash w06_3_disk w06_3_img
  /\ k06_3 crc32 dec_record_slice w06_3_disk w06_3_img = true
  /\ real_recover w06_3_img = ROk [CreateNode 0 [sA]; CreateNode 2 [sC]; TxCommit 2]
  /\ forall k, snd (sm_run ([], []) (firstn k w06_3_log)) <> [CreateNode 0 [sA]; CreateNode 2 [sC]; TxCommit 2].
Proof.
  split; [vm_compute; reflexivity|]. split.
  - split; [|reflexivity]. vm_compute.
    apply cf_keep; [exists 23%nat; split; [lia|reflexivity]|].
    apply cf_keep; [exists 24%nat; split; [lia|reflexivity]|]. constructor.
  - split; [vm_compute; reflexivity|]. split; [vm_compute; reflexivity|].
    apply (sm_firstn_cases w06_3_log (fun c => c <> _)). intros k Hk.
    do 5 (destruct k as [|k]; [vm_compute; discriminate|]). cbn in Hk. lia.
Qed.

(** * C07 *)
(** K1: a node created by a session after the first commit is stamped with an epoch the store's
    own counter never reaches; export, save and to_memory do not see it *)
Definition w07_1 : list op := [OCreateNode [sA]; OSessTxNode [sB]; OSessNode [sC] []].
Lemma w07_1_l :
  let s := fst (run_store w07_1) in
  k07_1 s = true /\ differ (to_memory s) s
  /\ exists c, import dec_snapshot (export enc_snapshot s) = IOk c /\ differ c s.
Proof. cbv zeta. split; [vm_compute; reflexivity|]. split; [vm_compute; reflexivity|]. eexists. vm_compute. split; reflexivity. Qed.

(** K2: a valid (empty) snapshot followed by a byte that belongs to nothing *)
Definition w07_2 : bytes := [1; 0; 0; 255].
Lemma w07_2_l :
  (exists sn n, dec_snapshot w07_2 = Some (sn, n) /\ (n < length w07_2)%nat /\ k07_2 w07_2 n = true)
  /\ exists c, import dec_snapshot w07_2 = IOk c.
Proof. split; [do 2 eexists; vm_compute; repeat split; lia|]. eexists. vm_compute. reflexivity. Qed.

(** K3: a snapshot whose single node carries the identifier u64::MAX *)
Definition w07_3 : bytes := enc_snapshot (mkSnap 1 [(2 ^ 64 - 1, [sA], [])] []).
Lemma w07_3_l : import dec_snapshot w07_3 = IPanic /\ exists sn n, dec_snapshot w07_3 = Some (sn, n) /\ k07_3 sn = true.
Proof. split; [vm_compute; reflexivity|]. do 2 eexists. vm_compute. split; reflexivity. Qed.
