(** C05/C06/C07 — the witnesses of the [_refuted] theorems: concrete histories, crash images
    and byte strings on which the model (instantiated with CRC-32 and the bincode record and
    snapshot codecs) violates the property.  Every witness is also in the corpus of
    harness/src/bin/c05.rs and is replayed against the implementation on every run. *)
From GV Require Import Wal.Spec.
From Coq Require Import Lia ZArith List Bool.
Import ListNotations.
Open Scope Z_scope.

(** * Reflection of the boolean forms *)
Lemma differ_b_sound a b : differ_b a b = true -> differ a b.
Proof. unfold differ_b, differ. intros H. apply negb_true_iff in H. exact H. Qed.
Lemma last_cycle_differs_sound cfg ss : last_cycle_differs_b cfg ss = true -> last_cycle_differs cfg ss.
Proof.
  unfold last_cycle_differs_b, last_cycle_differs.
  destruct (last_obs _) as [o|]; [|discriminate]. destruct (so_after o) as [s2|] eqn:E; [|discriminate].
  intros H. exists o, s2. split; [reflexivity|]. split; [exact E|]. apply differ_b_sound, H.
Qed.
Lemma last_cycle_differs_pre_sound cfg ss : last_cycle_differs_pre_b cfg ss = true -> last_cycle_differs_pre cfg ss.
Proof.
  unfold last_cycle_differs_pre_b, last_cycle_differs_pre.
  destruct (last_obs _) as [o|]; [|discriminate]. destruct (so_after o) as [s2|] eqn:E; [|discriminate].
  intros H. exists o, s2. split; [reflexivity|]. split; [exact E|]. apply differ_b_sound, H.
Qed.
Lemma all_synced_sound d : all_synced_b d = true -> all_synced d.
Proof.
  unfold all_synced_b, all_synced. intros H. apply Forall_forall. intros x Hx.
  rewrite forallb_forall in H. apply Z.eqb_eq, H, Hx.
Qed.

Definition sA : str := [65].
Definition sB : str := [66].
Definition sC : str := [67].
Definition sK : str := [107].
Definition sPerson : str := [80; 101; 114; 115; 111; 110].
Definition sL2 : str := [76; 50].
(** bincode of [Value::Int64(1)]: variant 2, zig-zag 2 *)
Definition vOne : value := [2; 2].

(** * C05 *)
Definition w05_1 : list session := [([OCreateNode [sA]; OCheckpoint; OCreateNode [sB]], EClose)].
Definition w05_2 : list session := [([OCreateNodeProps [sA] [(sK, vOne)]; ORemoveNodeProp 0 sK], EClose)].
Definition w05_3 : list session := [([OCreateNode [sA]; OSessNode [sB] []], EClose)].
Definition w05_3tx : list session := [([OCreateNode [sA]; OSessTxNode [sB]], EClose)].
Definition w05_4 : list session := [([OCreateNode [sA]], EClose); ([ORotate; OCreateNode [sB]], EClose)].

Ltac witness05 :=
  split; [reflexivity|]; split; [vm_compute; reflexivity|]; apply last_cycle_differs_sound; vm_compute; reflexivity.

(** K1, repaired by 14ec16a: under the code before it the cycle differs, under the current code
    the same history is clean and its cycle is exact *)
Lemma w05_1_pre_l : no_crash w05_1 = true /\ last_cycle_differs_pre (engine_cfg MSync) w05_1.
Proof. split; [reflexivity|]. apply last_cycle_differs_pre_sound. vm_compute. reflexivity. Qed.
Lemma w05_1_now_l : forallb kclean (real_flags (engine_cfg MSync) w05_1) = true /\ last_cycle_exact_b (engine_cfg MSync) w05_1 = true.
Proof. split; vm_compute; reflexivity. Qed.
Lemma w05_2_l : no_crash w05_2 = true /\ real_flags (engine_cfg MSync) w05_2 = [mkK false true false false]
                /\ last_cycle_differs (engine_cfg MSync) w05_2.
Proof. witness05. Qed.
Lemma w05_3_l : no_crash w05_3 = true /\ real_flags (engine_cfg MSync) w05_3 = [mkK false false true false]
                /\ last_cycle_differs (engine_cfg MSync) w05_3.
Proof. witness05. Qed.
Lemma w05_3tx_l : no_crash w05_3tx = true /\ real_flags (engine_cfg MSync) w05_3tx = [mkK false false true false]
                /\ last_cycle_differs (engine_cfg MSync) w05_3tx.
Proof. witness05. Qed.
Lemma w05_4_l : no_crash w05_4 = true /\ real_flags (engine_cfg MSync) w05_4 = [k0; mkK false false false true]
                /\ last_cycle_differs (engine_cfg MSync) w05_4.
Proof. witness05. Qed.

(** * C06 *)
(** K1: everything was fsynced, nothing is cut, and the node is gone all the same *)
Definition w06_1 : list op := [OCreateNode [sA]; OSetNodeProp 0 sK vOne; OSync].
Definition w06_1_disk : disk := wdrop (db_w (fst (real_ops (engine_cfg MSync) db_fresh w06_1))).
Definition reopened_differs_b (d : disk) (s1 : store) : bool :=
  match real_open d with ROk st2 => differ_b (db_store st2) s1 | RErr => false end.
Lemma reopened_differs_sound d s1 :
  reopened_differs_b d s1 = true -> exists st2, real_open d = ROk st2 /\ differ (db_store st2) s1.
Proof. unfold reopened_differs_b. destruct (real_open d) as [st2|]; [|discriminate]. intros H. exists st2. split; [reflexivity|apply differ_b_sound, H]. Qed.
Lemma w06_1_l :
  all_synced w06_1_disk /\ k06_1 crc32 dec_record_slice w06_1_disk = true
  /\ exists st2, real_open w06_1_disk = ROk st2
                 /\ differ (db_store st2) (db_store (fst (real_ops (engine_cfg MSync) db_fresh w06_1))).
Proof.
  split; [apply all_synced_sound; vm_compute; reflexivity|]. split; [vm_compute; reflexivity|].
  apply reopened_differs_sound. vm_compute. reflexivity.
Qed.

(** K2: a crash tears the last record; the database is reopened, written to and closed
    cleanly; the write is unreadable for ever *)
Definition w06_2 : list session :=
  [([OCreateNode [sA]], EClose); ([OCreateNode [sB]; OCreateNode [sPerson]], ECrash [(0, 55)]); ([OCreateNode [sL2]], EClose)].
(** the crash image the second session leaves *)
Definition image_flags (cfg : wcfg) (ss : list session) (k : nat) : option (bool * bool) :=
  match nth_error (fst (real_sessions cfg ss)) k with
  | Some o => Some (k06_2 crc32 dec_record_slice (so_disk o), k06_5 crc32 dec_record_slice (so_disk o))
  | None => None
  end.
Lemma image_flags_sound cfg ss k a b :
  image_flags cfg ss k = Some (a, b) ->
  exists o, nth_error (fst (real_sessions cfg ss)) k = Some o
            /\ k06_2 crc32 dec_record_slice (so_disk o) = a /\ k06_5 crc32 dec_record_slice (so_disk o) = b.
Proof. unfold image_flags. destruct (nth_error _ k) as [o|]; [|discriminate]. intros H. injection H as <- <-. eauto. Qed.

(** K2, repaired by 3ca6f5b.  The witness for the code before it: the torn record is the ONLY
    uncommitted one (so class K5 is not involved), the write after the recovery is lost all the
    same.  Under the current code the torn tail is cut off and the same history ends exact. *)
Definition w06_2p : list session :=
  [([OCreateNode [sA]], EClose); ([OCreateNode [sB]], ECrash [(0, 40)]); ([OCreateNode [sL2]], EClose)].
Lemma w06_2_pre_l :
  ends_with_close w06_2p
  /\ (exists o, nth_error (fst (real_sessions_pre (engine_cfg MNoSync) w06_2p)) 1 = Some o
                /\ k06_2 crc32 dec_record_slice (so_disk o) = true /\ k06_5 crc32 dec_record_slice (so_disk o) = false)
  /\ last_cycle_differs_pre (engine_cfg MNoSync) w06_2p.
Proof.
  split; [exact I|]. split.
  - assert (H : match nth_error (fst (real_sessions_pre (engine_cfg MNoSync) w06_2p)) 1 with
                | Some o => (k06_2 crc32 dec_record_slice (so_disk o), k06_5 crc32 dec_record_slice (so_disk o))
                | None => (false, true) end = (true, false)) by (vm_compute; reflexivity).
    destruct (nth_error _ 1) as [o|]; [|discriminate]. injection H as H1 H2. exists o. auto.
  - apply last_cycle_differs_pre_sound. vm_compute. reflexivity.
Qed.
Lemma w06_2_now_l : last_cycle_exact_b (engine_cfg MNoSync) w06_2p = true.
Proof. vm_compute. reflexivity. Qed.

(** the witness used before the repair (torn tail behind an intact uncommitted record): differs
    under the old code, exact under the current one *)
Lemma w06_2_old_l : last_cycle_differs_pre (engine_cfg MNoSync) w06_2 /\ last_cycle_exact_b (engine_cfg MNoSync) w06_2 = true.
Proof. split; [apply last_cycle_differs_pre_sound; vm_compute; reflexivity|vm_compute; reflexivity]. Qed.

(** K5: the crash loses nothing, recovery drops the two uncommitted records but leaves them in
    the log; the next clean close commits them *)
Definition w06_5 : list session :=
  [([OCreateNode [sA]], EClose); ([OCreateNode [sB]; OCreateNode [sPerson]], ECrash []); ([OCreateNode [sL2]], EClose)].
Lemma w06_5_l :
  ends_with_close w06_5
  /\ (exists o, nth_error (fst (real_sessions (engine_cfg MNoSync) w06_5)) 1 = Some o
                /\ k06_2 crc32 dec_record_slice (so_disk o) = false /\ k06_5 crc32 dec_record_slice (so_disk o) = true)
  /\ last_cycle_differs (engine_cfg MNoSync) w06_5.
Proof.
  split; [exact I|]. split.
  - apply image_flags_sound. vm_compute. reflexivity.
  - apply last_cycle_differs_sound. vm_compute. reflexivity.
Qed.

(** K3: two log files; the first loses the tail of its last record, the second is intact *)
Definition w06_3_log : list record := [CreateNode 0 [sA]; CreateNode 1 [sB]; CreateNode 2 [sC]; TxCommit 2].
Definition w06_3_ops : list wop :=
  [WLog (CreateNode 0 [sA]); WLog (CreateNode 1 [sB]); WRotate; WLog (CreateNode 2 [sC]); WLog (TxCommit 2)].
Definition w06_3_disk : disk := wdrop (wrun crc32 enc_record (engine_cfg MNoSync) (wopen crc32 empty_disk) w06_3_ops).
Definition w06_3_img : disk := cut_disk [(0, 23)] w06_3_disk.
Definition w06_3_got : list record := [CreateNode 0 [sA]; CreateNode 2 [sC]; TxCommit 2].

Lemma sm_firstn_cases (L : list record) (P : list record -> Prop) :
  (forall k, (k <= length L)%nat -> P (snd (sm_run ([], []) (firstn k L)))) ->
  forall k, P (snd (sm_run ([], []) (firstn k L))).
Proof.
  intros H k. destruct (Nat.le_gt_cases k (length L)) as [Hk|Hk]; [apply H, Hk|].
  rewrite firstn_all2 by lia. rewrite <- (firstn_all L). apply H. lia.
Qed.

Lemma w06_3_files :
  d_files w06_3_disk = [(0, mkFile (real_frames [CreateNode 0 [sA]; CreateNode 1 [sB]]) 26 0);
                        (1, mkFile (real_frames [CreateNode 2 [sC]; TxCommit 2]) 23 0)]
  /\ d_files w06_3_img = [(0, mkFile (firstn 23 (real_frames [CreateNode 0 [sA]; CreateNode 1 [sB]])) 23 0);
                          (1, mkFile (real_frames [CreateNode 2 [sC]; TxCommit 2]) 23 0)]
  /\ d_meta w06_3_img = d_meta w06_3_disk.
Proof. split; [vm_compute; reflexivity|]. split; vm_compute; reflexivity. Qed.

Lemma w06_3_l :
  crash w06_3_disk w06_3_img
  /\ k06_3 crc32 dec_record_slice w06_3_disk w06_3_img = true
  /\ real_recover w06_3_img = ROk w06_3_got
  /\ forall k, snd (sm_run ([], []) (firstn k w06_3_log)) <> w06_3_got.
Proof.
  destruct w06_3_files as (F1 & F2 & F3).
  split.
  - split; [|exact F3]. rewrite F1, F2.
    apply cf_keep; [exists 23%nat; split; [cbn; lia|reflexivity]|].
    apply cf_keep; [exists 23%nat; split; [cbn; lia|vm_compute; reflexivity]|]. constructor.
  - split; [vm_compute; reflexivity|]. split; [vm_compute; reflexivity|].
    apply (sm_firstn_cases w06_3_log (fun c => c <> _)). intros k Hk.
    do 5 (destruct k as [|k]; [vm_compute; discriminate|]). cbn in Hk. lia.
Qed.

(** * C07 *)
(** K1: a node created by a session after the first commit is stamped with an epoch the store's
    own counter never reaches; export, save and to_memory do not see it *)
Definition w07_1 : list op := [OCreateNode [sA]; OSessTxNode [sB]; OSessNode [sC] []].
Definition imported_differs_b (s : store) : bool :=
  match import dec_snapshot (export enc_snapshot s) with IOk c => differ_b c s | _ => false end.
Lemma imported_differs_sound s :
  imported_differs_b s = true -> exists c, import dec_snapshot (export enc_snapshot s) = IOk c /\ differ c s.
Proof. unfold imported_differs_b. destruct (import _ _) as [c| |]; try discriminate. intros H. exists c. split; [reflexivity|apply differ_b_sound, H]. Qed.
Lemma w07_1_l :
  k07_1 (fst (run_store w07_1)) = true /\ differ (to_memory (fst (run_store w07_1))) (fst (run_store w07_1))
  /\ exists c, import dec_snapshot (export enc_snapshot (fst (run_store w07_1))) = IOk c /\ differ c (fst (run_store w07_1)).
Proof.
  split; [vm_compute; reflexivity|]. split; [apply differ_b_sound; vm_compute; reflexivity|].
  apply imported_differs_sound. vm_compute. reflexivity.
Qed.

(** K2 (repaired by 0d0a061): a valid (empty) snapshot followed by a byte that belongs to nothing *)
Definition w07_2 : bytes := [1; 0; 0; 255].
Lemma w07_2_pre_l :
  dec_snapshot w07_2 = Some (mkSnap 1 [] [], 3%nat) /\ k07_2 w07_2 3 = true
  /\ import_pre dec_snapshot w07_2 = IOk empty_store.
Proof. split; [vm_compute; reflexivity|]. split; vm_compute; reflexivity. Qed.
Lemma w07_2_now_l : import dec_snapshot w07_2 = IErr.
Proof. vm_compute. reflexivity. Qed.

(** K3 (repaired by 1b18953): a snapshot whose single node carries the identifier u64::MAX *)
Definition w07_3_snap : snapshot := mkSnap 1 [(2 ^ 64 - 1, [sA], [])] [].
Definition w07_3 : bytes := enc_snapshot w07_3_snap.
Lemma w07_3_pre_l : import_pre dec_snapshot w07_3 = IPanic /\ dec_snapshot w07_3 = Some (w07_3_snap, length w07_3) /\ k07_3 w07_3_snap = true.
Proof. split; [vm_compute; reflexivity|]. split; vm_compute; reflexivity. Qed.
Lemma w07_3_now_l : import dec_snapshot w07_3 = IOk (build w07_3_snap) /\ s_nn (build w07_3_snap) = 2 ^ 64 - 1.
Proof. split; vm_compute; reflexivity. Qed.
