(** C05/C06/C07 — the concrete byte codecs of the persistence layer, on top of the shared
    bincode model [Value/Bincode.v] (owned by C16, imported unchanged):

    - [enc_record]/[dec_record_slice]: [bincode::serde::{encode_to_vec, decode_from_slice}]
      of [WalRecord] (record.rs: 11 variants in declaration order, struct variants = fields in
      order, NodeId/EdgeId/TxId = u64 newtypes, String = length + UTF-8 bytes, Vec = length +
      elements, [Value] through [enc_value]/[dec_value]);
    - [enc_snapshot]/[dec_snapshot]: the private [Snapshot] struct of database.rs
      (version : u8, nodes, edges; properties as Vec<(String, Value)>);
    - [enc_cpmeta]/[dec_cpmeta]: [CheckpointMetadata] (four u64);
    - [crc32]: the IEEE CRC-32 ([crc32fast::hash]), bit by bit.

    In the WAL theories a property value is its canonical bincode byte string ([Disk.value]);
    a decoder therefore returns the re-encoding of the value it decoded (bincode accepts
    non-minimal integer forms, the canonical bytes are what the store observably holds).
    Definitions only; everything runs under vm_compute. *)
From GV Require Import Value.Bincode.
From GV Require Export Wal.Snap.
Open Scope Z_scope.

(** * CRC-32 (reflected polynomial 0xEDB88320, init and final xor 0xFFFFFFFF) *)
Definition crc_poly : Z := 3988292384.
Definition crc_step (c : Z) : Z := if Z.odd c then Z.lxor (Z.shiftr c 1) crc_poly else Z.shiftr c 1.
Definition crc_byte (c b : Z) : Z :=
  let c0 := Z.lxor c b in
  crc_step (crc_step (crc_step (crc_step (crc_step (crc_step (crc_step (crc_step c0))))))).
Definition crc32 (bs : list Z) : Z := (Z.lxor (fold_left crc_byte bs 4294967295) 4294967295) mod 4294967296.

(** * Values as canonical byte strings *)
Definition dec_val (bs : list Z) : option (list Z * list Z) :=
  do (v, r) <- dec_value bs; Some (enc_value v, r).
(** the byte string is the bincode form of a well-formed [Value] *)
Definition val_wf (v : list Z) : Prop := exists x : Value.Model.value, wf x /\ v = enc_value x.

(** * [WalRecord] *)
Definition enc_record (r : record) : list Z :=
  match r with
  | CreateNode id ls => enc_u32 0 ++ enc_u64 id ++ enc_seq enc_str ls
  | DeleteNode id => enc_u32 1 ++ enc_u64 id
  | CreateEdge id s d t => enc_u32 2 ++ enc_u64 id ++ enc_u64 s ++ enc_u64 d ++ enc_str t
  | DeleteEdge id => enc_u32 3 ++ enc_u64 id
  | SetNodeProperty id k v => enc_u32 4 ++ enc_u64 id ++ enc_str k ++ v
  | SetEdgeProperty id k v => enc_u32 5 ++ enc_u64 id ++ enc_str k ++ v
  | AddNodeLabel id l => enc_u32 6 ++ enc_u64 id ++ enc_str l
  | RemoveNodeLabel id l => enc_u32 7 ++ enc_u64 id ++ enc_str l
  | TxCommit t => enc_u32 8 ++ enc_u64 t
  | TxAbort t => enc_u32 9 ++ enc_u64 t
  | Checkpoint t => enc_u32 10 ++ enc_u64 t
  end.

(** the record and the unread rest *)
Definition dec_record (bs : list Z) : option (record * list Z) :=
  do (tag, r0) <- dec_u32 bs;
  if tag =? 0 then do (id, r1) <- dec_u64 r0; do (ls, r2) <- dec_seq dec_str (length r1) r1; Some (CreateNode id ls, r2)
  else if tag =? 1 then do (id, r1) <- dec_u64 r0; Some (DeleteNode id, r1)
  else if tag =? 2 then
    do (id, r1) <- dec_u64 r0; do (s, r2) <- dec_u64 r1; do (d, r3) <- dec_u64 r2; do (t, r4) <- dec_str r3;
    Some (CreateEdge id s d t, r4)
  else if tag =? 3 then do (id, r1) <- dec_u64 r0; Some (DeleteEdge id, r1)
  else if tag =? 4 then
    do (id, r1) <- dec_u64 r0; do (k, r2) <- dec_str r1; do (v, r3) <- dec_val r2; Some (SetNodeProperty id k v, r3)
  else if tag =? 5 then
    do (id, r1) <- dec_u64 r0; do (k, r2) <- dec_str r1; do (v, r3) <- dec_val r2; Some (SetEdgeProperty id k v, r3)
  else if tag =? 6 then do (id, r1) <- dec_u64 r0; do (l, r2) <- dec_str r1; Some (AddNodeLabel id l, r2)
  else if tag =? 7 then do (id, r1) <- dec_u64 r0; do (l, r2) <- dec_str r1; Some (RemoveNodeLabel id l, r2)
  else if tag =? 8 then do (t, r1) <- dec_u64 r0; Some (TxCommit t, r1)
  else if tag =? 9 then do (t, r1) <- dec_u64 r0; Some (TxAbort t, r1)
  else if tag =? 10 then do (t, r1) <- dec_u64 r0; Some (Checkpoint t, r1)
  else None.
(** [decode_from_slice(..).0]: bytes behind the record are ignored *)
Definition dec_record_slice (bs : list Z) : option record :=
  match dec_record bs with Some (r, _) => Some r | None => None end.

(** a record the codec carries faithfully: ids are u64, strings are UTF-8, values are
    well-formed ([Vec] lengths below 2^64 hold for every list that exists) *)
Definition str_wf (s : str) : Prop := utf8_valid s = true /\ zlen s < two64.
Definition rec_wf (r : record) : Prop :=
  match r with
  | CreateNode id ls => in_u64 id /\ Forall str_wf ls /\ zlen ls < two64
  | DeleteNode id | DeleteEdge id => in_u64 id
  | CreateEdge id s d t => in_u64 id /\ in_u64 s /\ in_u64 d /\ str_wf t
  | SetNodeProperty id k v | SetEdgeProperty id k v => in_u64 id /\ str_wf k /\ val_wf v
  | AddNodeLabel id l | RemoveNodeLabel id l => in_u64 id /\ str_wf l
  | TxCommit t | TxAbort t | Checkpoint t => in_u64 t
  end.

(** * [Snapshot] *)
Definition enc_prop (kv : str * value) : list Z := enc_str (fst kv) ++ snd kv.
Definition dec_prop (bs : list Z) : option ((str * value) * list Z) :=
  do (k, r1) <- dec_str bs; do (v, r2) <- dec_val r1; Some ((k, v), r2).
Definition enc_snode (n : dnode) : list Z :=
  let '(id, ls, ps) := n in enc_u64 id ++ enc_seq enc_str ls ++ enc_seq enc_prop ps.
Definition dec_snode (bs : list Z) : option (dnode * list Z) :=
  do (id, r1) <- dec_u64 bs; do (ls, r2) <- dec_seq dec_str (length r1) r1;
  do (ps, r3) <- dec_seq dec_prop (length r2) r2; Some ((id, ls, ps), r3).
Definition enc_sedge (e : dedge) : list Z :=
  let '(id, s, d, t, ps) := e in enc_u64 id ++ enc_u64 s ++ enc_u64 d ++ enc_str t ++ enc_seq enc_prop ps.
Definition dec_sedge (bs : list Z) : option (dedge * list Z) :=
  do (id, r1) <- dec_u64 bs; do (s, r2) <- dec_u64 r1; do (d, r3) <- dec_u64 r2; do (t, r4) <- dec_str r3;
  do (ps, r5) <- dec_seq dec_prop (length r4) r4; Some ((id, s, d, t, ps), r5).
Definition enc_snapshot (sn : snapshot) : list Z :=
  enc_u8 (sn_version sn) ++ enc_seq enc_snode (sn_nodes sn) ++ enc_seq enc_sedge (sn_edges sn).
Definition dec_snapshot_rest (bs : list Z) : option (snapshot * list Z) :=
  do (ver, r1) <- dec_u8 bs; do (ns, r2) <- dec_seq dec_snode (length r1) r1;
  do (es, r3) <- dec_seq dec_sedge (length r2) r2; Some (mkSnap ver ns es, r3).
(** [decode_from_slice]: the snapshot and the number of bytes read *)
Definition dec_snapshot (bs : list Z) : option (snapshot * nat) :=
  match dec_snapshot_rest bs with Some (sn, r) => Some (sn, (length bs - length r)%nat) | None => None end.

Definition prop_wf (kv : str * value) : Prop := str_wf (fst kv) /\ val_wf (snd kv).
Definition snode_wf (n : dnode) : Prop :=
  let '(id, ls, ps) := n in in_u64 id /\ Forall str_wf ls /\ zlen ls < two64 /\ Forall prop_wf ps /\ zlen ps < two64.
Definition sedge_wf (e : dedge) : Prop :=
  let '(id, s, d, t, ps) := e in in_u64 id /\ in_u64 s /\ in_u64 d /\ str_wf t /\ Forall prop_wf ps /\ zlen ps < two64.
Definition snap_wf (sn : snapshot) : Prop :=
  0 <= sn_version sn < 256 /\ Forall snode_wf (sn_nodes sn) /\ zlen (sn_nodes sn) < two64
  /\ Forall sedge_wf (sn_edges sn) /\ zlen (sn_edges sn) < two64.

(** * [CheckpointMetadata]: epoch, log_sequence, timestamp_ms, tx_id *)
Definition enc_cpmeta (m : cpmeta) (timestamp : Z) : list Z :=
  enc_u64 (m_epoch m) ++ enc_u64 (m_seq m) ++ enc_u64 timestamp ++ enc_u64 (m_tx m).
Definition dec_cpmeta (bs : list Z) : option cpmeta :=
  do (e, r1) <- dec_u64 bs; do (s, r2) <- dec_u64 r1; do (_, r3) <- dec_u64 r2; do (t, _) <- dec_u64 r3;
  Some (mkMeta e s t).
(** the file checkpoint.meta as recovery sees it *)
Definition metafile_of (o : option (list Z)) : metafile :=
  match o with
  | None => MetaAbsent
  | Some bs => match dec_cpmeta bs with Some m => MetaOk m | None => MetaBad end
  end.
