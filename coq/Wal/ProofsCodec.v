(** C05/C06/C07 — the concrete codecs of Wal/Codec.v satisfy the premises the WAL and snapshot
    theorems carry: CRC-32 is a 32-bit value; a well-formed record decodes to itself (whatever
    follows it); a well-formed snapshot decodes to itself and its length.  Built on the
    round-trip lemmas of Value/ProofsBincode.v. *)
From GV Require Import Value.Bincode Value.ProofsBincode.
From GV Require Import Wal.Frame Wal.Disk Wal.Recover Wal.Db Wal.Snap Wal.Codec.
From Coq Require Import Lia ZArith List Bool.
Import ListNotations.
Open Scope Z_scope.

Lemma crc32_range p : 0 <= crc32 p < two32.
Proof. unfold crc32. change two32 with 4294967296. apply Z.mod_pos_bound. lia. Qed.

(** * elements *)
Lemma u64_rt u rest : in_u64 u -> dec_u64 (enc_u64 u ++ rest) = Some (u, rest).
Proof. apply varint_roundtrip_l. Qed.

Lemma str_rt s rest : str_wf s -> dec_str (enc_str s ++ rest) = Some (s, rest).
Proof. intros [H1 H2]. apply str_roundtrip_l; assumption. Qed.

Lemma val_rt v rest : val_wf v -> dec_val (v ++ rest) = Some (v, rest).
Proof. intros (x & Hx & ->). unfold dec_val. rewrite bincode_roundtrip_l by exact Hx. reflexivity. Qed.

Lemma enc_str_nonempty s : (1 <= length (enc_str s))%nat.
Proof. unfold enc_str, enc_blob, enc_usize. rewrite app_length. pose proof (enc_varint_nonempty (zlen s)). lia. Qed.

Lemma strs_rt ls rest :
  Forall str_wf ls -> zlen ls < two64 ->
  dec_seq dec_str (length (enc_seq enc_str ls ++ rest)) (enc_seq enc_str ls ++ rest) = Some (ls, rest).
Proof.
  intros HF Hl. apply seq_roundtrip_l; [|
    unfold enc_seq; rewrite !app_length; eapply Nat.le_trans; [exact (len_le_flat_map enc_str ls enc_str_nonempty)|lia] | exact Hl].
  eapply Forall_impl; [|exact HF]. intros s Hs r. apply str_rt, Hs.
Qed.

Lemma tag_rt t body : 0 <= t <= 10 -> dec_u32 (enc_u32 t ++ body) = Some (t, body).
Proof. intros Ht. unfold dec_u32, enc_u32. apply varint32_roundtrip_l. change (2 ^ 32) with 4294967296. lia. Qed.

(** * records *)
Lemma dec_enc_record r rest : rec_wf r -> dec_record (enc_record r ++ rest) = Some (r, rest).
Proof.
  intros W. unfold dec_record.
  destruct r; cbn [enc_record rec_wf] in *; rewrite <- ?app_assoc; rewrite tag_rt by lia; cbn [obind Z.eqb Pos.eqb].
  - destruct W as (W1 & W2 & W3). rewrite u64_rt by exact W1. cbn [obind]. rewrite strs_rt by assumption. reflexivity.
  - rewrite u64_rt by exact W. reflexivity.
  - destruct W as (W1 & W2 & W3 & W4). rewrite !u64_rt by assumption. cbn [obind].
    rewrite u64_rt by assumption. cbn [obind]. rewrite u64_rt by assumption. cbn [obind]. rewrite str_rt by exact W4. reflexivity.
  - rewrite u64_rt by exact W. reflexivity.
  - destruct W as (W1 & W2 & W3). rewrite u64_rt by exact W1. cbn [obind]. rewrite str_rt by exact W2. cbn [obind].
    rewrite val_rt by exact W3. reflexivity.
  - destruct W as (W1 & W2 & W3). rewrite u64_rt by exact W1. cbn [obind]. rewrite str_rt by exact W2. cbn [obind].
    rewrite val_rt by exact W3. reflexivity.
  - destruct W as (W1 & W2). rewrite u64_rt by exact W1. cbn [obind]. rewrite str_rt by exact W2. reflexivity.
  - destruct W as (W1 & W2). rewrite u64_rt by exact W1. cbn [obind]. rewrite str_rt by exact W2. reflexivity.
  - rewrite u64_rt by exact W. reflexivity.
  - rewrite u64_rt by exact W. reflexivity.
  - rewrite u64_rt by exact W. reflexivity.
Qed.

Lemma dec_enc_record_slice r : rec_wf r -> dec_record_slice (enc_record r) = Some r.
Proof.
  intros W. unfold dec_record_slice. pose proof (dec_enc_record r [] W) as H. rewrite app_nil_r in H. rewrite H. reflexivity.
Qed.

(** a well-formed record shorter than 4 GiB is carried by the codec *)
Lemma rec_wf_ok r : rec_wf r -> lenZ (enc_record r) < two32 -> rec_ids_below r -> rec_ok enc_record dec_record_slice r.
Proof. intros W L B. split; [apply dec_enc_record_slice, W|split; [exact L|exact B]]. Qed.

(** * snapshots *)
Lemma prop_rt kv rest : prop_wf kv -> dec_prop (enc_prop kv ++ rest) = Some (kv, rest).
Proof.
  destruct kv as [k v]. intros [W1 W2]. unfold dec_prop, enc_prop. cbn [fst snd] in *.
  rewrite <- app_assoc, str_rt by exact W1. cbn [obind]. rewrite val_rt by exact W2. reflexivity.
Qed.
Lemma enc_prop_nonempty kv : (1 <= length (enc_prop kv))%nat.
Proof. unfold enc_prop. rewrite app_length. pose proof (enc_str_nonempty (fst kv)). lia. Qed.
Lemma props_rt ps rest :
  Forall prop_wf ps -> zlen ps < two64 ->
  dec_seq dec_prop (length (enc_seq enc_prop ps ++ rest)) (enc_seq enc_prop ps ++ rest) = Some (ps, rest).
Proof.
  intros HF Hl. apply seq_roundtrip_l; [|
    unfold enc_seq; rewrite !app_length; eapply Nat.le_trans; [exact (len_le_flat_map enc_prop ps enc_prop_nonempty)|lia] | exact Hl].
  eapply Forall_impl; [|exact HF]. intros s Hs r. apply prop_rt, Hs.
Qed.

Lemma snode_rt n rest : snode_wf n -> dec_snode (enc_snode n ++ rest) = Some (n, rest).
Proof.
  destruct n as [[id ls] ps]. intros (W1 & W2 & W3 & W4 & W5). unfold dec_snode, enc_snode.
  rewrite <- !app_assoc, u64_rt by exact W1. cbn [obind]. rewrite strs_rt by assumption. cbn [obind].
  rewrite props_rt by assumption. reflexivity.
Qed.
Lemma sedge_rt e rest : sedge_wf e -> dec_sedge (enc_sedge e ++ rest) = Some (e, rest).
Proof.
  destruct e as [[[[id s] d] t] ps]. intros (W1 & W2 & W3 & W4 & W5 & W6). unfold dec_sedge, enc_sedge.
  rewrite <- !app_assoc, u64_rt by exact W1. cbn [obind]. rewrite u64_rt by exact W2. cbn [obind].
  rewrite u64_rt by exact W3. cbn [obind]. rewrite str_rt by exact W4. cbn [obind]. rewrite props_rt by assumption. reflexivity.
Qed.
Lemma enc_u64_nonempty u : (1 <= length (enc_u64 u))%nat.
Proof. apply enc_varint_nonempty. Qed.
Lemma enc_snode_nonempty n : (1 <= length (enc_snode n))%nat.
Proof. destruct n as [[id ls] ps]. unfold enc_snode. rewrite app_length. pose proof (enc_u64_nonempty id). lia. Qed.
Lemma enc_sedge_nonempty e : (1 <= length (enc_sedge e))%nat.
Proof. destruct e as [[[[id s] d] t] ps]. unfold enc_sedge. rewrite app_length. pose proof (enc_u64_nonempty id). lia. Qed.

Lemma dec_enc_snapshot_rest sn rest : snap_wf sn -> dec_snapshot_rest (enc_snapshot sn ++ rest) = Some (sn, rest).
Proof.
  destruct sn as [ver ns es]. intros (W1 & W2 & W3 & W4 & W5). cbn [sn_version sn_nodes sn_edges] in *.
  unfold dec_snapshot_rest, enc_snapshot. cbn [sn_version sn_nodes sn_edges enc_u8 app dec_u8 obind].
  rewrite <- app_assoc.
  rewrite (seq_roundtrip_l _ enc_snode dec_snode ns); [| | |exact W3].
  - cbn [obind]. rewrite (seq_roundtrip_l _ enc_sedge dec_sedge es); [reflexivity| | |exact W5].
    + eapply Forall_impl; [|exact W4]. intros e He r. apply sedge_rt, He.
    + unfold enc_seq. rewrite !app_length. eapply Nat.le_trans; [exact (len_le_flat_map enc_sedge es enc_sedge_nonempty)|lia].
  - eapply Forall_impl; [|exact W2]. intros n Hn r. apply snode_rt, Hn.
  - unfold enc_seq. rewrite !app_length. eapply Nat.le_trans; [exact (len_le_flat_map enc_snode ns enc_snode_nonempty)|lia].
Qed.

(** a well-formed snapshot is carried by the codec *)
Lemma snap_wf_carried sn : snap_wf sn -> snap_carried enc_snapshot dec_snapshot sn.
Proof.
  intros W rest. unfold dec_snapshot. rewrite dec_enc_snapshot_rest by exact W.
  f_equal. f_equal. rewrite app_length. lia.
Qed.
