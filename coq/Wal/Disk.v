(** C05/C06 — the WAL directory and its writer: model of [WalManager]
    (grafeo-adapters/src/storage/wal/log.rs).  Definitions only.

    A directory is a list of log files ordered by sequence number, the checkpoint metadata
    file and the presence of the metadata temp file.  Every log file carries, beside its
    bytes, how many of them have left the process ([f_flushed]: [BufWriter] handed them to
    the OS) and how many are durable ([f_synced]: covered by an [fsync]).
    A crash keeps, of every file, some prefix that contains at least the synced bytes. *)
From GV Require Export Wal.Frame.
Open Scope Z_scope.

(** * Records ([WalRecord], record.rs).  Strings are UTF-8 byte lists; a property value is
    represented by a canonical byte string (the harness uses the bincode bytes of [Value],
    which are bit-exact for floats and NaN payloads). *)
Definition str := list Z.
Definition value := list Z.

Inductive record :=
| CreateNode (id : Z) (labels : list str)
| DeleteNode (id : Z)
| CreateEdge (id src dst : Z) (ty : str)
| DeleteEdge (id : Z)
| SetNodeProperty (id : Z) (key : str) (v : value)
| SetEdgeProperty (id : Z) (key : str) (v : value)
| AddNodeLabel (id : Z) (label : str)
| RemoveNodeLabel (id : Z) (label : str)
| TxCommit (tx : Z)
| TxAbort (tx : Z)
| Checkpoint (tx : Z).

Definition str_eqb : str -> str -> bool := list_eqb Z.eqb.

Definition record_eqb (a b : record) : bool :=
  match a, b with
  | CreateNode i l, CreateNode j m => (i =? j) && list_eqb str_eqb l m
  | DeleteNode i, DeleteNode j => i =? j
  | CreateEdge i s d t, CreateEdge j s' d' t' => (i =? j) && (s =? s') && (d =? d') && str_eqb t t'
  | DeleteEdge i, DeleteEdge j => i =? j
  | SetNodeProperty i k v, SetNodeProperty j k' v' => (i =? j) && str_eqb k k' && str_eqb v v'
  | SetEdgeProperty i k v, SetEdgeProperty j k' v' => (i =? j) && str_eqb k k' && str_eqb v v'
  | AddNodeLabel i l, AddNodeLabel j m => (i =? j) && str_eqb l m
  | RemoveNodeLabel i l, RemoveNodeLabel j m => (i =? j) && str_eqb l m
  | TxCommit t, TxCommit u => t =? u
  | TxAbort t, TxAbort u => t =? u
  | Checkpoint t, Checkpoint u => t =? u
  | _, _ => false
  end.

(** a record that changes the graph (everything but the three transaction-control records) *)
Definition is_data (r : record) : bool :=
  match r with TxCommit _ | TxAbort _ | Checkpoint _ => false | _ => true end.
Definition is_commit (r : record) : bool := match r with TxCommit _ => true | _ => false end.
(** [TxAbort] and [Checkpoint] clear the pending records during recovery *)
Definition is_clear (r : record) : bool := match r with TxAbort _ | Checkpoint _ => true | _ => false end.

(** * Files and directories *)
Record file := mkFile { f_bytes : bytes; f_flushed : Z; f_synced : Z }.
Definition empty_file : file := mkFile [] 0 0.

(** [CheckpointMetadata] (the timestamp is not modelled) *)
Record cpmeta := mkMeta { m_epoch : Z; m_seq : Z; m_tx : Z }.
(** the file checkpoint.meta: absent, decodable, or present but not decodable *)
Inductive metafile := MetaAbsent | MetaOk (m : cpmeta) | MetaBad.

Record disk := mkDisk {
  d_files : list (Z * file);   (* wal_<seq>.log, ascending sequence numbers *)
  d_meta : metafile;           (* checkpoint.meta *)
  d_tmp : bool                 (* checkpoint.meta.tmp present *)
}.
Definition empty_disk : disk := mkDisk [] MetaAbsent false.

Fixpoint get_file (seq : Z) (l : list (Z * file)) : option file :=
  match l with
  | [] => None
  | (s, f) :: r => if s =? seq then Some f else get_file seq r
  end.
(** replace the file [seq], or add it behind the others (new files always get the largest number) *)
Fixpoint put_file (seq : Z) (f : file) (l : list (Z * file)) : list (Z * file) :=
  match l with
  | [] => [(seq, f)]
  | (s, g) :: r => if s =? seq then (s, f) :: r else (s, g) :: put_file seq f r
  end.
Definition file_or_empty (seq : Z) (l : list (Z * file)) : file :=
  match get_file seq l with Some f => f | None => empty_file end.
Definition max_seq (l : list (Z * file)) : Z := fold_right (fun sf m => Z.max (fst sf) m) 0 l.

(** * Configuration ([WalConfig], [DurabilityMode]) *)
Inductive dmode :=
| MSync                                         (* fsync on every TxCommit record *)
| MBatch (max_records : Z) (delay_elapsed : bool)
    (* fsync when records_since_sync >= max_records or the delay has elapsed; the clock is an
       input: [delay_elapsed] says whether [elapsed >= max_delay_ms] holds at every [log] call
       (the correspondence run uses max_delay_ms = 0, always true, and 10^9, never true) *)
| MAdaptive                                     (* flush only; a background thread calls sync() *)
| MNoSync.                                      (* flush only *)
Record wcfg := mkCfg { c_mode : dmode; c_max : Z (* max_log_size *) }.

(** * Writer state ([WalManager] fields that matter) *)
Record wstate := mkW {
  w_disk : disk;
  w_seq : Z;              (* current_sequence *)
  w_since : Z;            (* records_since_sync *)
  w_cp : option Z         (* checkpoint_epoch *)
}.

Definition set_files (d : disk) (l : list (Z * file)) : disk := mkDisk l (d_meta d) (d_tmp d).
Definition active (w : wstate) : file := file_or_empty (w_seq w) (d_files (w_disk w)).
Definition set_active (w : wstate) (f : file) : wstate :=
  mkW (set_files (w_disk w) (put_file (w_seq w) f (d_files (w_disk w)))) (w_seq w) (w_since w) (w_cp w).

(** [BufWriter<File>::write_all(chunk)] with the default capacity of 8192 bytes: a chunk that
    does not fit behind the buffered bytes flushes them first; a chunk at least as large as
    the buffer goes straight to the file *)
Definition bufcap : Z := 8192.
Definition bufw_write (f : file) (chunk : bytes) : file :=
  let buffered := lenZ (f_bytes f) - f_flushed f in
  let fl1 := if bufcap <? buffered + lenZ chunk then lenZ (f_bytes f) else f_flushed f in
  let nb := f_bytes f ++ chunk in
  let fl2 := if (bufcap <=? lenZ chunk) then lenZ nb else fl1 in
  mkFile nb fl2 (f_synced f).
Definition file_flush (f : file) : file := mkFile (f_bytes f) (lenZ (f_bytes f)) (f_synced f).
(** [writer.flush(); writer.get_ref().sync_all()] *)
Definition file_sync (f : file) : file := mkFile (f_bytes f) (lenZ (f_bytes f)) (lenZ (f_bytes f)).

Section Writer.
  Variable crc : bytes -> Z.
  Variable enc : record -> bytes.     (* bincode::serde::encode_to_vec(record, standard()) *)

  (** [rotate()]: the old [BufWriter] is dropped (flushed, not fsynced), a new empty file with
      the next sequence number becomes the active one *)
  Definition wrotate (w : wstate) : wstate :=
    let w1 := set_active w (file_flush (active w)) in
    let ns := w_seq w + 1 in
    let fs := d_files (w_disk w1) in
    let fs' := match get_file ns fs with Some _ => fs | None => put_file ns empty_file fs end in
    mkW (set_files (w_disk w1) fs') ns (w_since w1) (w_cp w1).

  (** [sync()] *)
  Definition wsync (w : wstate) : wstate :=
    let w1 := set_active w (file_sync (active w)) in
    mkW (w_disk w1) (w_seq w1) 0 (w_cp w1).

  (** [log(record)] *)
  Definition wlog (cfg : wcfg) (w : wstate) (r : record) : wstate :=
    let data := enc r in
    let f1 := bufw_write (active w) (le32 (lenZ data)) in
    let f2 := bufw_write f1 data in
    let f3 := bufw_write f2 (le32 (crc data)) in
    let since := w_since w + 1 in
    let needs_rotation := c_max cfg <=? lenZ (f_bytes f3) in
    let '(f4, since') :=
      match c_mode cfg with
      | MSync => if is_commit r then (file_sync f3, 0) else (f3, since)
      | MBatch maxr elapsed => if (maxr <=? since) || elapsed then (file_sync f3, 0) else (f3, since)
      | MAdaptive => (file_flush f3, since)
      | MNoSync => (file_flush f3, since)
      end in
    let w1 := set_active w f4 in
    let w2 := mkW (w_disk w1) (w_seq w1) since' (w_cp w1) in
    if needs_rotation then wrotate w2 else w2.

  (** [truncate_old_logs()]: deletes [seq] when [seq + 2 < current_sequence] and the
      checkpoint *epoch* is larger than the file *sequence number* (sic) *)
  Definition wtruncate (w : wstate) : wstate :=
    match w_cp w with
    | None => w
    | Some ep =>
        let keep := filter (fun sf => negb ((fst sf + 2 <? w_seq w) && (fst sf <? ep))) (d_files (w_disk w)) in
        mkW (set_files (w_disk w) keep) (w_seq w) (w_since w) (w_cp w)
    end.

  (** [checkpoint(tx, epoch)] in its five steps; a crash can happen between any two *)
  Definition cp_log (cfg : wcfg) (w : wstate) (tx : Z) : wstate := wsync (wlog cfg w (Checkpoint tx)).
  Definition cp_tmp (w : wstate) : wstate :=
    mkW (mkDisk (d_files (w_disk w)) (d_meta (w_disk w)) true) (w_seq w) (w_since w) (w_cp w).
  Definition cp_rename (w : wstate) (tx epoch : Z) : wstate :=
    mkW (mkDisk (d_files (w_disk w)) (MetaOk (mkMeta epoch (w_seq w) tx)) false) (w_seq w) (w_since w) (Some epoch).
  Definition wcheckpoint (cfg : wcfg) (w : wstate) (tx epoch : Z) : wstate :=
    wtruncate (cp_rename (cp_tmp (cp_log cfg w tx)) tx epoch).
  (** the directory as it is after each step of a checkpoint *)
  Definition checkpoint_stages (cfg : wcfg) (w : wstate) (tx epoch : Z) : list disk :=
    let w0 := wlog cfg w (Checkpoint tx) in
    let w1 := wsync w0 in
    let w2 := cp_tmp w1 in
    let w3 := cp_rename w2 tx epoch in
    [w_disk w0; w_disk w1; w_disk w2; w_disk w3; w_disk (wtruncate w3)].

  (** dropping the manager: the active [BufWriter] is flushed, nothing is fsynced *)
  Definition wdrop (w : wstate) : disk := w_disk (set_active w (file_flush (active w))).

  (** [intact_prefix_len]: length of the longest prefix of a file that consists of whole
      records — length field, payload, matching checksum (the payload is not decoded) *)
  Fixpoint intact_len_fuel (fuel : nat) (bs : bytes) : nat :=
    match fuel with
    | O => O
    | S f =>
        if (length bs <? 4)%nat then O
        else
          let len := u32_of (firstn 4 bs) in
          let bs1 := skipn 4 bs in
          if lenZ bs1 <? len + 4 then O
          else
            let n := Z.to_nat len in
            let data := firstn n bs1 in
            let bs2 := skipn n bs1 in
            if u32_of (firstn 4 bs2) =? crc data then (8 + n + intact_len_fuel f (skipn 4 bs2))%nat else O
    end.
  Definition intact_len (bs : bytes) : nat := intact_len_fuel (S (length bs)) bs.
  (** [ensure_active_log] on an existing file: a torn tail is cut off ([set_len], [sync_all])
      before anything is appended *)
  Definition cut_torn (f : file) : file :=
    let n := intact_len (f_bytes f) in
    if (n <? length (f_bytes f))%nat then mkFile (firstn n (f_bytes f)) (Z.of_nat n) (Z.of_nat n) else f.

  (** [WalManager::with_config(dir)]: current sequence = largest existing one (0 if none),
      the active file is opened for append (created empty if absent; cut back to its last
      intact record if it ends in a torn one) *)
  Definition wopen (d : disk) : wstate :=
    let s := max_seq (d_files d) in
    let fs := match get_file s (d_files d) with
              | Some f => put_file s (cut_torn f) (d_files d)
              | None => put_file s empty_file (d_files d)
              end in
    mkW (set_files d fs) s 0 None.
  (** before commit 3ca6f5b: the file was opened for append as it was *)
  Definition wopen_pre (d : disk) : wstate :=
    let s := max_seq (d_files d) in
    let fs := match get_file s (d_files d) with Some _ => d_files d | None => put_file s empty_file (d_files d) end in
    mkW (set_files d fs) s 0 None.

  (** * Writer operations *)
  Inductive wop :=
  | WLog (r : record)
  | WSync
  | WRotate
  | WCheckpoint (tx epoch : Z)
  | WReopen.            (* drop the manager and open the directory again *)

  Definition wstep (cfg : wcfg) (w : wstate) (o : wop) : wstate :=
    match o with
    | WLog r => wlog cfg w r
    | WSync => wsync w
    | WRotate => wrotate w
    | WCheckpoint tx ep => wcheckpoint cfg w tx ep
    | WReopen => wopen (wdrop w)
    end.
  Definition wrun (cfg : wcfg) (w : wstate) (os : list wop) : wstate := fold_left (wstep cfg) os w.
End Writer.

(** * Crash images.  Of every file a prefix survives that contains at least its synced bytes;
    a file of which nothing was ever fsynced may vanish altogether (its directory entry was
    not durable either: a freshly rotated file).  The metadata file is replaced by an atomic
    rename, so it is either the old or the new one: the instants in between are the
    [checkpoint_stages]. *)
Definition cut_of (f f' : file) : Prop :=
  exists n : nat, (f_synced f <= Z.of_nat n) /\ f_bytes f' = firstn n (f_bytes f).
Inductive crash_files : list (Z * file) -> list (Z * file) -> Prop :=
| cf_nil : crash_files [] []
| cf_keep s f f' l l' : cut_of f f' -> crash_files l l' -> crash_files ((s, f) :: l) ((s, f') :: l')
| cf_drop s f l l' : f_synced f = 0 -> crash_files l l' -> crash_files ((s, f) :: l) l'.
Definition crash (d d' : disk) : Prop := crash_files (d_files d) (d_files d') /\ d_meta d' = d_meta d.

(** cutting file [seq] to its first [n] bytes (what the harness does to a copy of the directory) *)
Definition cut_file (n : nat) (f : file) : file :=
  mkFile (firstn n (f_bytes f)) (Z.min (f_flushed f) (Z.of_nat n)) (Z.min (f_synced f) (Z.of_nat n)).
Fixpoint cut_files (cuts : list (Z * Z)) (l : list (Z * file)) : list (Z * file) :=
  match l with
  | [] => []
  | (s, f) :: r =>
      let f' := match find (fun c => fst c =? s) cuts with
                | Some c => cut_file (Z.to_nat (snd c)) f
                | None => f
                end in
      (s, f') :: cut_files cuts r
  end.
Definition cut_disk (cuts : list (Z * Z)) (d : disk) : disk := set_files d (cut_files cuts (d_files d)).
