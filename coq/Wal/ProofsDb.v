(** C05 — proofs about the persistence glue (Wal/Db.v): a clean close/reopen cycle reproduces
    the store exactly, for every history outside the finding classes of Wal/Classes.v. *)
From GV Require Import Wal.Frame Wal.Disk Wal.Recover Wal.Db Wal.Snap Wal.Classes Wal.Spec Wal.ProofsFrame Wal.ProofsRecover.
From Coq Require Import Lia ZArith List Bool.
Import ListNotations.
Open Scope Z_scope.

(** * Replay ignores the transaction-control records *)
Lemma apply_all_app s a b : apply_all s (a ++ b) = apply_all (apply_all s a) b.
Proof. unfold apply_all. apply fold_left_app. Qed.
Lemma apply_all_datas rs : forall s, apply_all s rs = apply_all s (datas rs).
Proof.
  induction rs as [|x rs IH]; intros s; [reflexivity|].
  unfold datas. cbn [filter]. destruct (is_data x) eqn:D.
  - cbn [apply_all fold_left]. apply IH.
  - cbn [apply_all fold_left]. destruct x; try discriminate; apply IH.
Qed.

(** * Effects of API calls are the replay of the records they log *)
Lemma set_props_node_apply id ps : forall s,
  apply_all s (map (fun kv => SetNodeProperty id (fst kv) (snd kv)) ps) = set_props_node s id ps.
Proof. induction ps as [|kv ps IH]; intros s; [reflexivity|]. cbn. apply IH. Qed.
Lemma set_props_edge_apply id ps : forall s,
  apply_all s (map (fun kv => SetEdgeProperty id (fst kv) (snd kv)) ps) = set_props_edge s id ps.
Proof. induction ps as [|kv ps IH]; intros s; [reflexivity|]. cbn. apply IH. Qed.

Lemma data_setnode id ps : forallb is_data (map (fun kv => SetNodeProperty id (fst kv) (snd kv)) ps) = true.
Proof. induction ps; [reflexivity|]. cbn. assumption. Qed.
Lemma data_setedge id ps : forallb is_data (map (fun kv => SetEdgeProperty id (fst kv) (snd kv)) ps) = true.
Proof. induction ps; [reflexivity|]. cbn. assumption. Qed.

Lemma sat_succ_below id : id < id_max -> sat_succ id = id + 1.
Proof. intros H. unfold sat_succ. replace (id =? id_max) with false by (symmetry; apply Z.eqb_neq; lia). reflexivity. Qed.
Lemma create_node_is_with_id s ls :
  s_nn s < id_max -> fst (st_create_node s ls (s_epoch s)) = st_create_node_with_id s (s_nn s) ls.
Proof. intros H. unfold st_create_node, st_create_node_with_id. cbn [fst]. rewrite Z.leb_refl, (sat_succ_below _ H). reflexivity. Qed.
Lemma create_edge_is_with_id s a b ty :
  s_ne s < id_max -> fst (st_create_edge s a b ty (s_epoch s)) = st_create_edge_with_id s (s_ne s) a b ty.
Proof. intros H. unfold st_create_edge, st_create_edge_with_id. cbn [fst]. rewrite Z.leb_refl, (sat_succ_below _ H). reflexivity. Qed.

Lemma st_delete_node_false s id : snd (st_delete_node s id) = false -> fst (st_delete_node s id) = s.
Proof. unfold st_delete_node. destruct (aget _ _ _); [destruct (visible _ _ _)|]; cbn; intros; congruence. Qed.
Lemma st_delete_edge_false s id : snd (st_delete_edge s id) = false -> fst (st_delete_edge s id) = s.
Proof. unfold st_delete_edge. destruct (aget _ _ _); [destruct (visible _ _ _)|]; cbn; intros; congruence. Qed.
Lemma st_add_label_false s id l : snd (st_add_label s id l) = false -> fst (st_add_label s id l) = s.
Proof. unfold st_add_label. destruct (aget _ _ _); [destruct (visible _ _ _); [destruct (existsb _ _)|]|]; cbn; intros; congruence. Qed.
Lemma st_remove_label_false s id l : snd (st_remove_label s id l) = false -> fst (st_remove_label s id l) = s.
Proof. unfold st_remove_label. destruct (aget _ _ _); [destruct (visible _ _ _); [destruct (existsb _ _)|]|]; cbn; intros; congruence. Qed.
Lemma st_remove_node_prop_false s id k : snd (st_remove_node_prop s id k) = false -> fst (st_remove_node_prop s id k) = s.
Proof. unfold st_remove_node_prop. destruct (aget _ _ _); cbn; intros; congruence. Qed.
Lemma st_remove_edge_prop_false s id k : snd (st_remove_edge_prop s id k) = false -> fst (st_remove_edge_prop s id k) = s.
Proof. unfold st_remove_edge_prop. destruct (aget _ _ _); cbn; intros; congruence. Qed.

(** the cascade of [delete_node]: the store after it is the replay of the records it logs *)
Lemma delete_edges_apply es : forall s,
  fst (delete_edges s es) = apply_all s (snd (delete_edges s es)) /\ forallb is_data (snd (delete_edges s es)) = true.
Proof.
  induction es as [|e r IH]; intros s; [split; reflexivity|].
  cbn [delete_edges]. destruct (st_delete_edge s e) as [s1 b] eqn:D. specialize (IH s1).
  destruct (delete_edges s1 r) as [s2 rs]. cbn [fst snd] in *. destruct IH as [IH1 IH2]. destruct b.
  - split; [|exact IH2]. cbn [apply_all fold_left apply_record]. rewrite D. exact IH1.
  - split; [|exact IH2]. pose proof (st_delete_edge_false s e) as F. rewrite D in F. cbn [fst snd] in F.
    rewrite <- (F eq_refl). exact IH1.
Qed.

(** an operation that is neither a session mutation nor a property removal that removed
    something changes the store exactly as the replay of the records it logs, logs only data
    records, and leaves the transaction manager alone *)
Lemma op_effect_apply s t o s1 t1 rs res :
  op_effect s t o = (s1, t1, rs, res) ->
  is_sess_op o = false -> (is_rm_op o && out_true res) = false -> Forall rec_ids_below rs ->
  s1 = apply_all s rs /\ forallb is_data rs = true /\ t1 = t.
Proof.
  intros E Hs Hr HB. destruct o; cbn [is_sess_op] in Hs; try discriminate; cbn [op_effect] in E.
  - (* create_node *) unfold st_create_node in E. injection E as <- <- <- <-.
    inversion HB as [|? ? HB1 _]; subst. cbn in HB1.
    repeat split. cbn [apply_all fold_left apply_record].
    rewrite <- create_node_is_with_id by exact HB1. reflexivity.
  - (* create_node_with_props *) unfold st_create_node in E. injection E as <- <- <- <-.
    inversion HB as [|? ? HB1 _]; subst. cbn in HB1.
    repeat split.
    + cbn [apply_all fold_left apply_record]. fold (apply_all (st_create_node_with_id s (s_nn s) labels)
        (map (fun kv => SetNodeProperty (s_nn s) (fst kv) (snd kv)) ps)).
      rewrite set_props_node_apply, <- create_node_is_with_id by exact HB1. reflexivity.
    + cbn [forallb is_data andb]. apply data_setnode.
  - (* delete_node *)
    assert (C : exists s0 ers, (if node_visible s id then delete_edges s (incident_edges s id) else (s, [])) = (s0, ers)
                               /\ s0 = apply_all s ers /\ forallb is_data ers = true).
    { destruct (node_visible s id).
      - destruct (delete_edges_apply (incident_edges s id) s) as [A B].
        destruct (delete_edges s (incident_edges s id)) as [s0 ers]. exists s0, ers. auto.
      - exists s, []. auto. }
    destruct C as (s0 & ers & EC & A0 & B0). rewrite EC in E.
    destruct (st_delete_node s0 id) as [s' b] eqn:D. injection E as <- <- <- <-.
    destruct b; repeat split.
    + rewrite apply_all_app, <- A0. cbn. now rewrite D.
    + rewrite forallb_app, B0. reflexivity.
    + rewrite app_nil_r. pose proof (st_delete_node_false s0 id) as F. rewrite D in F. cbn [fst snd] in F. rewrite (F eq_refl). exact A0.
    + rewrite app_nil_r. exact B0.
  - (* set_node_property *) injection E as <- <- <- <-. repeat split.
  - (* add label *) destruct (st_add_label s id l) as [s' b] eqn:D. injection E as <- <- <- <-.
    destruct b; repeat split. + cbn. now rewrite D.
    + cbn. pose proof (st_add_label_false s id l) as F. rewrite D in F. apply F. reflexivity.
  - (* remove label *) destruct (st_remove_label s id l) as [s' b] eqn:D. injection E as <- <- <- <-.
    destruct b; repeat split. + cbn. now rewrite D.
    + cbn. pose proof (st_remove_label_false s id l) as F. rewrite D in F. apply F. reflexivity.
  - (* create_edge *) unfold st_create_edge in E. injection E as <- <- <- <-.
    inversion HB as [|? ? HB1 _]; subst. cbn in HB1.
    repeat split. cbn [apply_all fold_left apply_record]. rewrite <- create_edge_is_with_id by exact HB1. reflexivity.
  - (* create_edge_with_props *) unfold st_create_edge in E. injection E as <- <- <- <-.
    inversion HB as [|? ? HB1 _]; subst. cbn in HB1.
    repeat split.
    + cbn [apply_all fold_left apply_record]. fold (apply_all (st_create_edge_with_id s (s_ne s) src dst ty)
        (map (fun kv => SetEdgeProperty (s_ne s) (fst kv) (snd kv)) ps)).
      rewrite set_props_edge_apply, <- create_edge_is_with_id by exact HB1. reflexivity.
    + cbn [forallb is_data andb]. apply data_setedge.
  - (* delete_edge *) destruct (st_delete_edge s id) as [s' b] eqn:D. injection E as <- <- <- <-.
    destruct b; repeat split. + cbn. now rewrite D.
    + cbn. pose proof (st_delete_edge_false s id) as F. rewrite D in F. apply F. reflexivity.
  - (* set_edge_property *) injection E as <- <- <- <-. repeat split.
  - (* remove_node_property *) destruct (st_remove_node_prop s id k) as [s' b] eqn:D. injection E as <- <- <- <-.
    cbn in Hr. destruct b; [discriminate|]. repeat split. cbn. pose proof (st_remove_node_prop_false s id k) as F. rewrite D in F. apply F. reflexivity.
  - (* remove_edge_property *) destruct (st_remove_edge_prop s id k) as [s' b] eqn:D. injection E as <- <- <- <-.
    cbn in Hr. destruct b; [discriminate|]. repeat split. cbn. pose proof (st_remove_edge_prop_false s id k) as F. rewrite D in F. apply F. reflexivity.
  - injection E as <- <- <- <-. repeat split.
  - injection E as <- <- <- <-. repeat split.
  - injection E as <- <- <- <-. repeat split.
Qed.

(** * The writer on a directory that holds the single file number 0 *)
Lemma bufw_bytes f c : f_bytes (bufw_write f c) = f_bytes f ++ c.
Proof. reflexivity. Qed.
Lemma put_single s f g : put_file s g [(s, f)] = [(s, g)].
Proof. cbn. rewrite Z.eqb_refl. reflexivity. Qed.
Lemma get_single s f : get_file s [(s, f)] = Some f.
Proof. cbn. rewrite Z.eqb_refl. reflexivity. Qed.

Section DbProofs.
  Variable crc : bytes -> Z.
  Variable enc : record -> bytes.
  Variable dec : bytes -> option record.
  Hypothesis crc_range : forall p, 0 <= crc p < two32.
  Notation ok := (rec_ok enc dec).
  Notation step_logs := (step_logs).
  Notation ops_logs := (ops_logs crc enc).
  Notation close_logs := (close_logs).
  Notation hist_logs := (hist_logs crc enc dec).

  Notation frames := (frames crc enc).
  Notation wlog := (wlog crc enc).
  Notation wlog_all := (wlog_all crc enc).
  Notation wcheckpoint := (wcheckpoint crc enc).
  Notation db_step := (db_step crc enc).
  Notation db_close := (db_close crc enc).
  Notation db_open := (db_open crc dec).
  Notation run_ops := (run_ops crc enc).
  Notation end_disk := (end_disk crc enc).
  Notation run_sessions := (run_sessions crc enc dec).
  Notation scan := (scan crc enc).
  Notation sess_flags := (sess_flags crc enc dec).
  Notation hist_flags := (hist_flags crc enc dec).

  Lemma frames_snoc log r :
    frames (log ++ [r]) = frames log ++ le32 (lenZ (enc r)) ++ enc r ++ le32 (crc (enc r)).
  Proof.
    unfold ProofsRecover.frames. rewrite !map_app, concat_app. cbn [map concat]. rewrite app_nil_r.
    unfold frame. reflexivity.
  Qed.

  (** the directory consists of file 0, which holds exactly the frames of [log] *)
  Definition single (w : wstate) (log : list record) : Prop :=
    exists f, d_files (w_disk w) = [(0, f)] /\ f_bytes f = frames log /\ w_seq w = 0.
  Definition meta0 (m : metafile) : Prop := m = MetaAbsent \/ exists c, m = MetaOk c /\ m_seq c = 0.

  Lemma active_single w (log : list record) f : d_files (w_disk w) = [(0, f)] -> w_seq w = 0 -> active w = f.
  Proof. intros H1 H2. unfold active, file_or_empty. rewrite H1, H2, get_single. reflexivity. Qed.

  Lemma set_active_single w f g :
    d_files (w_disk w) = [(0, f)] -> w_seq w = 0 ->
    d_files (w_disk (set_active w g)) = [(0, g)] /\ w_seq (set_active w g) = 0
    /\ d_meta (w_disk (set_active w g)) = d_meta (w_disk w).
  Proof. intros H1 H2. unfold set_active. cbn. rewrite H1, H2, put_single. auto. Qed.

  Lemma wrotate_seq w : w_seq (wrotate w) = w_seq w + 1.
  Proof. reflexivity. Qed.

  (** [log]: either the sequence number moves on (rotation) or the record's frame is appended *)
  Lemma wlog_single cfg w log r :
    single w log -> w_seq (wlog cfg w r) = 0 ->
    single (wlog cfg w r) (log ++ [r]) /\ d_meta (w_disk (wlog cfg w r)) = d_meta (w_disk w).
  Proof.
    intros (f & Hf & Hb & Hs) Hseq. unfold Disk.wlog in *.
    rewrite (active_single w log f Hf Hs) in *.
    set (f3 := bufw_write (bufw_write (bufw_write f (le32 (lenZ (enc r)))) (enc r)) (le32 (crc (enc r)))) in *.
    assert (B3 : f_bytes f3 = frames (log ++ [r])).
    { unfold f3. rewrite !bufw_bytes, Hb, frames_snoc, <- !app_assoc. reflexivity. }
    set (pr := match c_mode cfg with
               | MSync => if is_commit r then (file_sync f3, 0) else (f3, w_since w + 1)
               | MBatch maxr elapsed => if (maxr <=? w_since w + 1) || elapsed then (file_sync f3, 0) else (f3, w_since w + 1)
               | MAdaptive => (file_flush f3, w_since w + 1)
               | MNoSync => (file_flush f3, w_since w + 1)
               end) in *.
    assert (B4 : f_bytes (fst pr) = frames (log ++ [r])).
    { unfold pr. destruct (c_mode cfg); [destruct (is_commit r)|destruct (_ || _)| |]; exact B3. }
    destruct pr as [f4 since'] eqn:Epr. cbn [fst] in B4.
    destruct (set_active_single w f f4 Hf Hs) as (A1 & A2 & A3).
    destruct (c_max cfg <=? lenZ (f_bytes f3)).
    - rewrite wrotate_seq in Hseq. cbn [w_seq] in Hseq. rewrite A2 in Hseq. discriminate.
    - split; [|exact A3]. exists f4. cbn [w_disk w_seq]. auto.
  Qed.

  Lemma wlog_seq_mono cfg w r : w_seq w <= w_seq (wlog cfg w r).
  Proof.
    unfold Disk.wlog.
    destruct (match c_mode cfg with MSync => _ | MBatch a b => _ | MAdaptive => _ | MNoSync => _ end) as [f4 since'].
    destruct (c_max cfg <=? _); [rewrite wrotate_seq|]; cbn; lia.
  Qed.
  Lemma wlog_all_seq_mono cfg rs : forall w, w_seq w <= w_seq (wlog_all cfg w rs).
  Proof.
    induction rs as [|r rs IH]; intros w; cbn; [lia|].
    specialize (IH (wlog cfg w r)). pose proof (wlog_seq_mono cfg w r). unfold Db.wlog_all in IH. lia.
  Qed.

  Lemma wlog_all_single cfg rs : forall w log,
    single w log -> w_seq (wlog_all cfg w rs) = 0 ->
    single (wlog_all cfg w rs) (log ++ rs)
    /\ d_meta (w_disk (wlog_all cfg w rs)) = d_meta (w_disk w).
  Proof.
    induction rs as [|r rs IH]; intros w log Hs Hseq.
    - cbn. rewrite app_nil_r. auto.
    - cbn [Db.wlog_all fold_left] in *. fold (wlog_all cfg (wlog cfg w r) rs) in *.
      assert (H0 : w_seq (wlog cfg w r) = 0).
      { pose proof (wlog_all_seq_mono cfg rs (wlog cfg w r)). pose proof (wlog_seq_mono cfg w r).
        destruct Hs as (f & _ & _ & Hs). lia. }
      destruct (wlog_single cfg w log r Hs H0) as [S1 M1].
      destruct (IH (wlog cfg w r) (log ++ [r]) S1 Hseq) as [S2 M2].
      rewrite <- app_assoc in S2. cbn [app] in S2. split; [exact S2|]. rewrite M2. exact M1.
  Qed.

  Lemma wsync_single w log : single w log -> single (wsync w) log /\ d_meta (w_disk (wsync w)) = d_meta (w_disk w).
  Proof.
    intros (f & Hf & Hb & Hs). unfold wsync.
    destruct (set_active_single w f (file_sync f) Hf Hs) as (A1 & A2 & A3).
    rewrite (active_single w log f Hf Hs). split; [|exact A3].
    exists (file_sync f). cbn [w_disk w_seq]. auto.
  Qed.

  Lemma wcheckpoint_single cfg w log tx ep :
    single w log -> w_seq (wcheckpoint cfg w tx ep) = 0 ->
    single (wcheckpoint cfg w tx ep) (log ++ [Checkpoint tx])
    /\ meta0 (d_meta (w_disk (wcheckpoint cfg w tx ep))).
  Proof.
    intros Hs Hseq. unfold Disk.wcheckpoint, wtruncate, cp_rename, cp_tmp, cp_log in *.
    cbn [w_cp w_seq w_disk w_since d_files d_meta] in *.
    assert (H0 : w_seq (wlog cfg w (Checkpoint tx)) = 0) by exact Hseq.
    destruct (wlog_single cfg w log (Checkpoint tx) Hs H0) as [S1 _].
    destruct (wsync_single _ _ S1) as [(f & Hf & Hb & Hq) _].
    split.
    - exists f. cbn [w_disk w_seq d_files set_files]. rewrite Hf. cbn [filter fst].
      change (w_seq (wsync (wlog cfg w (Checkpoint tx)))) with (w_seq (wlog cfg w (Checkpoint tx))).
      rewrite H0. cbn. auto.
    - right. eexists. split; [reflexivity|]. cbn [m_seq]. exact H0.
  Qed.

  Lemma wopen_single d f log :
    Forall ok log ->
    d_files d = [(0, f)] -> f_bytes f = frames log -> single (wopen crc d) log /\ w_disk (wopen crc d) = d.
  Proof.
    intros Hok Hf Hb. unfold wopen. rewrite Hf. cbn [max_seq fold_right fst]. rewrite Z.max_id, get_single.
    rewrite (cut_torn_frames crc enc dec crc_range f log Hok Hb), put_single.
    split; [exists f; cbn; auto|]. destruct d; cbn in *. subst. reflexivity.
  Qed.

  Lemma wdrop_single w log :
    single w log -> exists f, d_files (wdrop w) = [(0, f)] /\ f_bytes f = frames log /\ d_meta (wdrop w) = d_meta (w_disk w).
  Proof.
    intros (f & Hf & Hb & Hs). unfold wdrop.
    destruct (set_active_single w f (file_flush (active w)) Hf Hs) as (A1 & A2 & A3).
    exists (file_flush (active w)). rewrite (active_single w log f Hf Hs) in *. auto.
  Qed.

  (** recovery of such a directory runs the machine over [log] *)
  Lemma recover_single d f log :
    Forall ok log -> d_files d = [(0, f)] -> f_bytes f = frames log -> meta0 (d_meta d) ->
    recover crc dec d = ROk (snd (sm_run ([], []) log))
    /\ leftover crc dec d = fst (sm_run ([], []) log).
  Proof.
    intros Hok Hf Hb Hm.
    assert (Hms : min_seq (d_meta d) = 0) by (destruct Hm as [->|(c & -> & Hc)]; [reflexivity|exact Hc]).
    assert (Hnb : d_meta d <> MetaBad) by (destruct Hm as [->|(c & -> & _)]; discriminate).
    assert (Hr : disk_records crc dec 0 [(0, f)] = log).
    { cbn [Recover.disk_records]. rewrite (file_records_frames crc enc dec crc_range f log Hok Hb).
      cbn. apply app_nil_r. }
    split.
    - rewrite recover_spec by exact Hnb. rewrite Hms, Hf, Hr. reflexivity.
    - unfold leftover. rewrite replay_concat, Hms, Hf, Hr. reflexivity.
  Qed.

  (** * The invariant of a clean history *)
  Definition pend (log : list record) : list record := fst (sm_run ([], []) log).
  Definition Inv (st : dbstate) (log : list record) : Prop :=
    single (db_w st) log /\ meta0 (d_meta (w_disk (db_w st)))
    /\ db_store st = apply_all empty_store (datas (snd (sm_run ([], []) log)) ++ pend log)
    /\ Forall ok log.

  Lemma sm_run_data_records rs : forall p c, forallb is_data rs = true -> sm_run (p, c) rs = (p ++ rs, c).
  Proof.
    induction rs as [|x rs IH]; intros p c H.
    - cbn. now rewrite app_nil_r.
    - cbn [forallb] in H. apply andb_prop in H as [Hx Hr]. cbn [sm_run fold_left].
      rewrite (sm_step_data p c x Hx). fold (sm_run (p ++ [x], c) rs). rewrite (IH _ _ Hr), <- app_assoc. reflexivity.
  Qed.

  Lemma inv_log_data st log rs st' :
    Inv st log -> forallb is_data rs = true -> Forall ok rs ->
    single (db_w st') (log ++ rs) -> meta0 (d_meta (w_disk (db_w st'))) ->
    db_store st' = apply_all (db_store st) rs ->
    Inv st' (log ++ rs) /\ (rs = [] -> pend (log ++ rs) = pend log).
  Proof.
    intros (S & M & E & OK) Hd Hok S' M' E'. unfold Inv, pend in *.
    rewrite sm_run_app. destruct (sm_run ([], []) log) as [p c] eqn:R.
    rewrite (sm_run_data_records rs p c Hd). cbn [fst snd] in *. repeat split; try assumption.
    - rewrite E', E, <- apply_all_app, <- app_assoc. reflexivity.
    - apply Forall_app. split; assumption.
    - intros ->. apply app_nil_r.
  Qed.

  Definition is_wal_op (o : op) : bool := match o with OCheckpoint | ORotate | OSync => true | _ => false end.
  Lemma db_step_generic cfg st o :
    is_wal_op o = false ->
    db_step cfg st o =
      (let '(s1, t1, rs, res) := op_effect (db_store st) (db_tm st) o in
       (mkDb s1 t1 (wlog_all cfg (db_w st) rs), res)).
  Proof. destruct o; cbn; intros; try discriminate; reflexivity. Qed.

  Lemma wsync_seq w : w_seq (wsync w) = w_seq w.
  Proof. reflexivity. Qed.
  Lemma wcheckpoint_seq cfg w tx ep : w_seq (wcheckpoint cfg w tx ep) = w_seq (wlog cfg w (Checkpoint tx)).
  Proof. reflexivity. Qed.

  Lemma single_seq w log : single w log -> w_seq w = 0.
  Proof. intros (f & _ & _ & H). exact H. Qed.

  Lemma kclean_false k : kclean k = true -> k_rm k = false /\ k_sess k = false /\ k_rot k = false.
  Proof. unfold kclean. destruct (k_rm k), (k_sess k), (k_rot k); cbn; intros; try discriminate; auto. Qed.

  (** one operation *)
  Lemma db_step_inv cfg st log o st1 res dirty :
    Inv st log -> (dirty = false -> pend log = []) ->
    db_step cfg st o = (st1, res) ->
    (is_rm_op o && out_true res) = false -> is_sess_op o = false ->
    (w_seq (db_w st1) =? w_seq (db_w st)) = true ->
    Forall ok (step_logs st o) ->
    exists log1, Inv st1 log1
      /\ ((if is_cp_op o then false else dirty || logs_something (db_store st) (db_tm st) o) = false -> pend log1 = []).
  Proof.
    intros I Hdirty E Hrm Hse Hseq Hok. apply Z.eqb_eq in Hseq.
    pose proof I as (S & M & ES & OK). pose proof (single_seq _ _ S) as S0. rewrite S0 in Hseq.
    destruct (is_wal_op o) eqn:W.
    - destruct o; try discriminate W; cbn [Db.db_step] in E.
      + (* checkpoint: the commit marker first, so whatever was pending is published *)
        cbn [Classes.step_logs] in Hok.
        destruct (last_or_begin (db_tm st)) as [tx t1]. injection E as <- <-. cbn [db_w db_store fst] in *.
        rewrite wsync_seq in Hseq.
        set (w1 := wlog cfg (db_w st) (TxCommit tx)) in *.
        assert (H1 : w_seq w1 = 0).
        { pose proof (wlog_seq_mono cfg (db_w st) (TxCommit tx)). fold w1 in H.
          pose proof (wlog_seq_mono cfg w1 (Checkpoint tx)). rewrite wcheckpoint_seq in Hseq. lia. }
        destruct (wlog_single cfg (db_w st) log (TxCommit tx) S H1) as [S0' _]. fold w1 in S0'.
        destruct (wcheckpoint_single cfg w1 _ tx _ S0' Hseq) as [S1 M1].
        destruct (wsync_single _ _ S1) as [S2 M2].
        exists ((log ++ [TxCommit tx]) ++ [Checkpoint tx]).
        assert (Pd : forallb is_data (pend log) = true) by (apply sm_run_pending_data; reflexivity).
        assert (SM : sm_run ([], []) ((log ++ [TxCommit tx]) ++ [Checkpoint tx])
                     = ([], (snd (sm_run ([], []) log) ++ pend log ++ [TxCommit tx]) ++ [Checkpoint tx])).
        { unfold pend. rewrite !sm_run_snoc. destruct (sm_run ([], []) log) as [p c]. reflexivity. }
        split; [|intros _; unfold pend; rewrite SM; reflexivity].
        unfold Inv. cbn [db_w db_store]. split; [exact S2|]. split; [rewrite M2; exact M1|]. split.
        * assert (PN : pend ((log ++ [TxCommit tx]) ++ [Checkpoint tx]) = []) by (unfold pend; rewrite SM; reflexivity).
          rewrite PN, SM. cbn [fst snd]. rewrite ES, !datas_app, (datas_all _ Pd). cbn. rewrite !app_nil_r. reflexivity.
        * rewrite <- app_assoc. apply Forall_app. split; assumption.
      + (* rotate *) injection E as <- <-. cbn [db_w] in Hseq. rewrite wrotate_seq in Hseq. lia.
      + (* sync *) injection E as <- <-. cbn [db_w db_store] in *.
        destruct (wsync_single _ _ S) as [S1 M1]. exists log. unfold Inv. cbn [db_w db_store].
        repeat split; try assumption.
        all: try (rewrite M1; exact M).
        all: cbn; rewrite ?orb_false_r; exact Hdirty.
    - rewrite (db_step_generic cfg st o W) in E.
      destruct (op_effect (db_store st) (db_tm st) o) as [[[s1 t1] rs] res'] eqn:OE.
      injection E as <- <-. cbn [db_w db_store] in *.
      assert (Hok0 : Forall ok rs).
      { assert (SL : step_logs st o = rs) by (destruct o; try discriminate W; cbn [Classes.step_logs]; rewrite OE; reflexivity).
        rewrite <- SL. exact Hok. }
      assert (HB : Forall rec_ids_below rs) by (eapply Forall_impl; [|exact Hok0]; intros r (_ & _ & B); exact B).
      destruct (op_effect_apply _ _ _ _ _ _ _ OE Hse Hrm HB) as (A1 & A2 & A3).
      destruct (wlog_all_single cfg rs (db_w st) log S Hseq) as [S1 M1].
      assert (M1' : meta0 (d_meta (w_disk (wlog_all cfg (db_w st) rs)))) by (rewrite M1; exact M).
      assert (Hok' : Forall ok rs).
      { assert (SL : step_logs st o = rs) by (destruct o; try discriminate W; cbn [Classes.step_logs]; rewrite OE; reflexivity).
        rewrite <- SL. exact Hok. }
      destruct (inv_log_data st log rs (mkDb s1 t1 (wlog_all cfg (db_w st) rs)) I A2 Hok' S1 M1' A1) as [I1 P1].
      exists (log ++ rs). split; [exact I1|].
      assert (Cp : is_cp_op o = false) by (destruct o; try reflexivity; discriminate W).
      rewrite Cp. unfold logs_something. rewrite OE. intros Hd. apply orb_false_elim in Hd as [Hd1 Hd2].
      destruct rs; [|discriminate]. rewrite (P1 eq_refl). apply Hdirty, Hd1.
  Qed.

  Lemma scan_state cfg os : forall st dirty acc, snd (scan cfg st dirty os acc) = fst (run_ops cfg st os).
  Proof.
    induction os as [|o r IH]; intros st dirty acc; [reflexivity|].
    cbn [Classes.scan Db.run_ops]. destruct (db_step cfg st o) as [st1 res].
    rewrite IH. destruct (run_ops cfg st1 r). reflexivity.
  Qed.

  Lemma scan_inv cfg os : forall st dirty acc log,
    Inv st log -> (dirty = false -> pend log = []) ->
    kclean (fst (scan cfg st dirty os acc)) = true ->
    Forall ok (ops_logs cfg st os) ->
    kclean acc = true /\ exists log1, Inv (snd (scan cfg st dirty os acc)) log1.
  Proof.
    induction os as [|o r IH]; intros st dirty acc log I Hd Hk Hok.
    - cbn in *. eauto.
    - cbn [Classes.scan Classes.ops_logs] in *. apply Forall_app in Hok as [Hok1 Hok2].
      destruct (db_step cfg st o) as [st1 res] eqn:E. cbn [fst] in Hok2.
      set (acc1 := mkK _ _ _ _) in *. set (dirty1 := if is_cp_op o then false else _) in *.
      (* the flags only grow: first learn that this step raised none *)
      assert (Hmono : forall st' d' a', kclean (fst (scan cfg st' d' r a')) = true -> kclean a' = true).
      { clear. induction r as [|o' r' IH']; intros st' d' a' H; [exact H|].
        cbn [Classes.scan] in H. destruct (db_step cfg st' o') as [st'' res'']. apply IH' in H.
        apply kclean_false in H as (H2 & H3 & H4). cbn [k_cp k_rm k_sess k_rot] in *.
        apply orb_false_elim in H2 as [H2 _], H3 as [H3 _], H4 as [H4 _].
        unfold kclean. rewrite H2, H3, H4. reflexivity. }
      pose proof (Hmono _ _ _ Hk) as Hk1.
      apply kclean_false in Hk1 as (H2 & H3 & H4). unfold acc1 in *. cbn [k_cp k_rm k_sess k_rot] in *.
      apply orb_false_elim in H2 as [A2 B2], H3 as [A3 B3], H4 as [A4 B4].
      apply negb_false_iff in B4.
      destruct (db_step_inv cfg st log o st1 res dirty I Hd E B2 B3 B4 Hok1) as (log1 & I1 & P1).
      destruct (IH st1 dirty1 (mkK (k_cp acc || is_cp_op o && dirty) (k_rm acc || is_rm_op o && out_true res)
                                   (k_sess acc || is_sess_op o) (k_rot acc || negb (w_seq (db_w st1) =? w_seq (db_w st))))
                   log1 I1 P1 Hk Hok2) as [_ R].
      split; [|exact R]. unfold kclean. rewrite A2, A3, A4. reflexivity.
  Qed.

  Lemma wlog_cp_seq_mono cfg w tx ep : w_seq w <= w_seq (wcheckpoint cfg w tx ep).
  Proof. rewrite wcheckpoint_seq. apply wlog_seq_mono. Qed.

  (** close, then open again *)
  Lemma close_reopen_inv cfg st log :
    Inv st log -> w_seq (db_w (db_close cfg st)) = w_seq (db_w st) ->
    Forall ok (close_logs st) ->
    exists st2 log2, db_open (end_disk cfg st EClose) = ROk st2
      /\ db_store st2 = db_store st /\ Inv st2 log2 /\ pend log2 = [].
  Proof.
    intros (S & M & ES & OK) Hseq Hok. pose proof (single_seq _ _ S) as S0.
    unfold Db.end_disk. unfold Db.db_close in *. unfold Classes.close_logs in Hok.
    destruct (last_or_begin (db_tm st)) as [tx t1]. cbn [db_w db_store fst] in *.
    assert (OK2 : Forall ok ((log ++ [TxCommit tx]) ++ [Checkpoint tx])).
    { rewrite <- app_assoc. apply Forall_app. split; [exact OK|exact Hok]. }
    rewrite wsync_seq, S0 in Hseq.
    set (w1 := wlog cfg (db_w st) (TxCommit tx)) in *.
    assert (H1 : w_seq w1 = 0).
    { pose proof (wlog_cp_seq_mono cfg w1 tx (s_epoch (db_store st))).
      pose proof (wlog_seq_mono cfg (db_w st) (TxCommit tx)). fold w1 in H0. lia. }
    destruct (wlog_single cfg (db_w st) log (TxCommit tx) S H1) as [S1 _]. fold w1 in S1.
    destruct (wcheckpoint_single cfg w1 _ tx _ S1 Hseq) as [S2 M2].
    destruct (wsync_single _ _ S2) as [S3 M3].
    destruct (wdrop_single _ _ S3) as (f & Hf & Hb & Hm).
    set (d := wdrop (wsync (wcheckpoint cfg w1 tx (s_epoch (db_store st))))) in *.
    set (log2 := (log ++ [TxCommit tx]) ++ [Checkpoint tx]) in *.
    assert (Md : meta0 (d_meta d)) by (rewrite Hm, M3; exact M2).
    destruct (recover_single d f log2 OK2 Hf Hb Md) as [R L].
    assert (SM : sm_run ([], []) log2 = ([], (snd (sm_run ([], []) log) ++ pend log ++ [TxCommit tx]) ++ [Checkpoint tx])).
    { unfold log2, pend. rewrite !sm_run_snoc. destruct (sm_run ([], []) log) as [p c]. reflexivity. }
    unfold Db.db_open. rewrite R. eexists. exists log2. split; [reflexivity|].
    destruct (wopen_single d f log2 OK2 Hf Hb) as [So Wd].
    assert (Pd : forallb is_data (pend log) = true) by (apply sm_run_pending_data; reflexivity).
    assert (ST : apply_all empty_store (snd (sm_run ([], []) log2)) = db_store st).
    { rewrite SM. cbn [snd]. rewrite apply_all_datas, !datas_app, (datas_all _ Pd). cbn. rewrite !app_nil_r. symmetry. exact ES. }
    cbn [db_store]. split; [exact ST|]. split.
    - unfold Inv. cbn [db_w db_store]. rewrite Wd. repeat split; try assumption.
      unfold pend. rewrite SM. cbn [fst snd]. rewrite app_nil_r, <- apply_all_datas.
      reflexivity.
    - unfold pend. rewrite SM. reflexivity.
  Qed.

  (** T clean_cycle, from any state that satisfies the invariant *)
  Lemma clean_cycle_gen cfg ss : forall st log,
    Inv st log -> pend log = [] ->
    no_crash ss = true -> forallb kclean (hist_flags cfg st ss) = true ->
    Forall ok (hist_logs cfg st ss) ->
    Forall cycle_exact (fst (run_sessions cfg st ss)).
  Proof.
    induction ss as [|[os e] r IH]; intros st log I P Hc Hk Hok; [constructor|].
    cbn [no_crash forallb snd] in Hc. apply andb_prop in Hc as [He Hc]. destruct e; [|discriminate].
    cbn [Classes.hist_flags Db.run_sessions Classes.hist_logs] in *.
    unfold Classes.sess_flags in Hk.
    pose proof I as (S & M & ES & OK).
    destruct S as (f & Hf & Hb & Hs0).
    destruct (recover_single (w_disk (db_w st)) f log OK Hf Hb M) as [_ L]. rewrite L in Hk.
    fold (pend log) in Hk. rewrite P in Hk. cbn [existsb] in Hk.
    pose proof (scan_state cfg os st false k0) as SS.
    destruct (scan cfg st false os k0) as [fl st1] eqn:SC. cbn [snd] in SS.
    destruct (run_ops cfg st os) as [st1' outs] eqn:RO. cbn [fst] in SS, Hok. subst st1'.
    apply Forall_app in Hok as [Hok1 Hok2]. apply Forall_app in Hok2 as [Hok2 Hok3].
    assert (Kall : kclean fl = true /\ w_seq (db_w (db_close cfg st1)) = w_seq (db_w st1)).
    { destruct (db_open (end_disk cfg st1 EClose)); cbn [forallb] in Hk; apply andb_prop in Hk as [Hk1 _];
        apply kclean_false in Hk1 as (K2 & K3 & K4); cbn [k_cp k_rm k_sess k_rot] in *;
        apply orb_false_elim in K4 as [K4 K5]; apply negb_false_iff, Z.eqb_eq in K5;
        (split; [unfold kclean; rewrite K2, K3, K4; reflexivity|exact K5]). }
    destruct Kall as [Kfl K5].
    destruct (scan_inv cfg os st false k0 log I (fun _ => P)) as [_ (log1 & I1)]; [rewrite SC; exact Kfl|exact Hok1|].
    rewrite SC in I1. cbn [snd] in I1.
    destruct (close_reopen_inv cfg st1 log1 I1 K5 Hok2) as (st2 & log2 & DO & ST & I2 & P2).
    rewrite DO in *. cbn [forallb] in Hk. apply andb_prop in Hk as [_ Hk2].
    destruct (run_sessions cfg st2 r) as [obs fin] eqn:RS. cbn [fst].
    constructor.
    - unfold cycle_exact. cbn. rewrite ST. reflexivity.
    - specialize (IH st2 log2 I2 P2 Hc Hk2 Hok3). rewrite RS in IH. exact IH.
  Qed.

  Lemma inv_fresh : Inv (db_fresh) [] /\ pend [] = [].
  Proof.
    split; [|reflexivity]. unfold Inv, db_fresh. cbn [db_w db_store]. repeat split.
    - exists empty_file. repeat split.
    - left. reflexivity.
    - constructor.
  Qed.

  (** T clean_cycle *)
  Lemma clean_cycle_l cfg ss :
    no_crash ss = true -> forallb kclean (hist_flags cfg db_fresh ss) = true ->
    Forall ok (hist_logs cfg db_fresh ss) ->
    Forall cycle_exact (fst (run_sessions cfg db_fresh ss)).
  Proof. intros. destruct inv_fresh as [I P]. eapply clean_cycle_gen; eassumption. Qed.
End DbProofs.

(** * Identifiers handed out after a reopen never collide with existing ones *)
Lemma aset_keys {V} (P : Z -> Prop) k (v : V) l :
  Forall (fun kv => P (fst kv)) l -> P k -> Forall (fun kv => P (fst kv)) (aset Z.eqb k v l).
Proof.
  intros H Hk. induction l as [|[k' v'] l IH]; cbn.
  - constructor; [exact Hk|constructor].
  - inversion H; subst. destruct (k' =? k) eqn:E; constructor; auto.
Qed.
Lemma aget_some_key {V} (P : Z -> Prop) k (v : V) l :
  Forall (fun kv => P (fst kv)) l -> aget Z.eqb k l = Some v -> P k.
Proof.
  induction l as [|[k' v'] l IH]; cbn; intros H E; [discriminate|].
  inversion H; subst. destruct (k' =? k) eqn:Q; [apply Z.eqb_eq in Q; subst; assumption|auto].
Qed.
Lemma Forall_keys_weaken {V} (P Q : Z -> Prop) (l : list (Z * V)) :
  (forall k, P k -> Q k) -> Forall (fun kv => P (fst kv)) l -> Forall (fun kv => Q (fst kv)) l.
Proof. intros H F. eapply Forall_impl; [|exact F]. intros a. apply H. Qed.

Lemma apply_record_fresh s r : rec_ids_below r -> ids_fresh s -> ids_fresh (apply_record s r).
Proof.
  intros HB [Hn He]. destruct r; cbn [apply_record]; try (split; assumption).
  - (* CreateNode *) cbn in HB. unfold st_create_node_with_id, ids_fresh. rewrite (sat_succ_below _ HB). cbn [s_nodes s_nn s_edges s_ne]. split; [|exact He].
    destruct (s_nn s <=? id) eqn:E.
    + apply Z.leb_le in E. apply (aset_keys (fun k => k < id + 1)); [|lia].
      apply (Forall_keys_weaken (fun k => k < s_nn s) (fun k => k < id + 1)); [intros; lia|exact Hn].
    + apply Z.leb_gt in E. apply (aset_keys (fun k => k < s_nn s)); [exact Hn|lia].
  - (* DeleteNode *) unfold st_delete_node. destruct (aget Z.eqb id (s_nodes s)) as [n|] eqn:G; [|split; assumption].
    destruct (visible _ _ _); [|split; assumption]. cbn [fst]. unfold ids_fresh. cbn [s_nodes s_nn s_edges s_ne].
    split; [|exact He]. apply (aset_keys (fun k => k < s_nn s)); [exact Hn|].
    exact (aget_some_key (fun k => k < s_nn s) id n _ Hn G).
  - (* CreateEdge *) cbn in HB. unfold st_create_edge_with_id, ids_fresh. rewrite (sat_succ_below _ HB). cbn [s_nodes s_nn s_edges s_ne]. split; [exact Hn|].
    destruct (s_ne s <=? id) eqn:E.
    + apply Z.leb_le in E. apply (aset_keys (fun k => k < id + 1)); [|lia].
      apply (Forall_keys_weaken (fun k => k < s_ne s) (fun k => k < id + 1)); [intros; lia|exact He].
    + apply Z.leb_gt in E. apply (aset_keys (fun k => k < s_ne s)); [exact He|lia].
  - (* DeleteEdge *) unfold st_delete_edge. destruct (aget Z.eqb id (s_edges s)) as [n|] eqn:G; [|split; assumption].
    destruct (visible _ _ _); [|split; assumption]. cbn [fst]. unfold ids_fresh. cbn [s_nodes s_nn s_edges s_ne].
    split; [exact Hn|]. apply (aset_keys (fun k => k < s_ne s)); [exact He|].
    exact (aget_some_key (fun k => k < s_ne s) id n _ He G).
  - (* AddNodeLabel *) unfold st_add_label. destruct (aget Z.eqb id (s_nodes s)) as [n|] eqn:G; [|split; assumption].
    destruct (visible _ _ _); [|split; assumption]. destruct (existsb _ _); [split; assumption|].
    cbn [fst]. unfold ids_fresh. cbn [s_nodes s_nn s_edges s_ne].
    split; [|exact He]. apply (aset_keys (fun k => k < s_nn s)); [exact Hn|].
    exact (aget_some_key (fun k => k < s_nn s) id n _ Hn G).
  - (* RemoveNodeLabel *) unfold st_remove_label. destruct (aget Z.eqb id (s_nodes s)) as [n|] eqn:G; [|split; assumption].
    destruct (visible _ _ _); [|split; assumption]. destruct (existsb _ _); [|split; assumption].
    cbn [fst]. unfold ids_fresh. cbn [s_nodes s_nn s_edges s_ne].
    split; [|exact He]. apply (aset_keys (fun k => k < s_nn s)); [exact Hn|].
    exact (aget_some_key (fun k => k < s_nn s) id n _ Hn G).
Qed.

Lemma apply_all_fresh rs : forall s, Forall rec_ids_below rs -> ids_fresh s -> ids_fresh (apply_all s rs).
Proof.
  induction rs as [|r rs IH]; intros s HB H; [exact H|]. inversion HB; subst. cbn. apply IH; [assumption|].
  apply apply_record_fresh; assumption.
Qed.

Lemma empty_fresh : ids_fresh empty_store.
Proof. split; constructor. Qed.

(** whatever directory is opened (any bytes, any metadata): if the open succeeds and no recovered
    record creates the identifier u64::MAX, the id counters of the new store lie above every id
    the replay created *)
Lemma reopen_ids_fresh_l crc dec d rs st :
  recover crc dec d = ROk rs -> Forall rec_ids_below rs -> db_open crc dec d = ROk st -> ids_fresh (db_store st).
Proof.
  unfold db_open. intros R HB. rewrite R. intros H. injection H as <-.
  cbn [db_store]. apply apply_all_fresh; [exact HB|apply empty_fresh].
Qed.

Lemma aget_above {V} (l : list (Z * V)) k : Forall (fun kv => fst kv < k) l -> aget Z.eqb k l = None.
Proof.
  induction l as [|[k' v] l IH]; cbn; intros H; [reflexivity|]. inversion H; subst. cbn in *.
  destruct (k' =? k) eqn:E; [apply Z.eqb_eq in E; lia|auto].
Qed.
(** the next node / edge identifier names nothing that exists *)
Lemma reopen_new_ids_l crc dec d rs st :
  recover crc dec d = ROk rs -> Forall rec_ids_below rs -> db_open crc dec d = ROk st ->
  aget Z.eqb (snd (st_create_node (db_store st) [] 0)) (s_nodes (db_store st)) = None
  /\ aget Z.eqb (snd (st_create_edge (db_store st) 0 0 [] 0)) (s_edges (db_store st)) = None.
Proof. intros R HB H. destruct (reopen_ids_fresh_l _ _ _ _ _ R HB H) as [A B]. split; cbn; apply aget_above; assumption. Qed.
