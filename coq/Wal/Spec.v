(** C05/C06/C07 — vocabulary of the property statements (Props/Props_C05..C07.v): what it
    means for a close/reopen cycle to be exact, for identifiers to be fresh, for two stores to
    be observably different, and the instantiation of the theories with the concrete codecs of
    Wal/Codec.v.  Definitions only. *)
From GV Require Export Wal.Cmp.
Open Scope Z_scope.

(** a close/reopen cycle (or crash/reopen) whose reopened store is exactly the store before it *)
Definition cycle_exact (o : sobs) : Prop := so_after o = ROk (so_before o).

(** every existing identifier lies below the counter the next identifier is taken from *)
Definition ids_fresh (s : store) : Prop :=
  Forall (fun kv => fst kv < s_nn s) (s_nodes s) /\ Forall (fun kv => fst kv < s_ne s) (s_edges s).

(** two stores that a graph dump (all nodes and edges with labels, endpoints, types and
    property values, everything created and not deleted) tells apart *)
Definition differ (a b : store) : Prop := dump_eqb (dump a latest) (dump b latest) = false.

(** the theories instantiated with CRC-32 and the bincode record codec *)
Definition real_sessions (cfg : wcfg) (ss : list session) : list sobs * rres dbstate :=
  run_sessions crc32 enc_record dec_record_slice cfg db_fresh ss.
Definition real_ops (cfg : wcfg) (st : dbstate) (os : list op) : dbstate * list out :=
  run_ops crc32 enc_record cfg st os.
Definition real_open (d : disk) : rres dbstate := db_open crc32 dec_record_slice d.
Definition real_recover (d : disk) : rres (list record) := recover crc32 dec_record_slice d.
(** the default configuration of the engine: 64 MiB log files *)
Definition engine_cfg (m : dmode) : wcfg := mkCfg m 67108864.

(** the file [frames] of a record list under the concrete codec *)
Definition real_frames (rs : list record) : bytes := concat (map (frame crc32) (map enc_record rs)).
(** every log file fully fsynced *)
Definition all_synced (d : disk) : Prop :=
  Forall (fun sf => f_synced (snd sf) = lenZ (f_bytes (snd sf))) (d_files d).

(** the observation of the last session of a history *)
Definition last_obs (l : list sobs) : option sobs := match rev l with x :: _ => Some x | [] => None end.
(** the last session of the history ends in a reopen that succeeds and yields an observably
    different store *)
Definition last_cycle_differs (cfg : wcfg) (ss : list session) : Prop :=
  exists o s2, last_obs (fst (real_sessions cfg ss)) = Some o /\ so_after o = ROk s2 /\ differ s2 (so_before o).
(** flags of the sessions of a history under the concrete codec *)
Definition real_flags (cfg : wcfg) (ss : list session) : list kflags :=
  hist_flags crc32 enc_record dec_record_slice cfg db_fresh ss.
Definition ends_with_close (ss : list session) : Prop :=
  match rev ss with (_, EClose) :: _ => True | _ => False end.

(** boolean forms, decided by computation *)
Definition differ_b (a b : store) : bool := negb (dump_eqb (dump a latest) (dump b latest)).
Definition last_cycle_differs_b (cfg : wcfg) (ss : list session) : bool :=
  match last_obs (fst (real_sessions cfg ss)) with
  | Some o => match so_after o with ROk s2 => differ_b s2 (so_before o) | RErr => false end
  | None => false
  end.
Definition all_synced_b (d : disk) : bool :=
  forallb (fun sf => f_synced (snd sf) =? lenZ (f_bytes (snd sf))) (d_files d).

(** * Vocabulary of the framing and recovery statements *)
(** the payloads [ps] decode to the records [rs], one by one *)
Definition decodes_all {R} (dec : bytes -> option R) (ps : list bytes) (rs : list R) : Prop :=
  Forall2 (fun p r => dec p = Some r) ps rs.
(** every payload fits the 32-bit length field *)
Definition all_short (ps : list bytes) : Prop := Forall (fun p => lenZ p < two32) ps.
(** the checksum is a 32-bit value *)
Definition crc_u32 (crc : bytes -> Z) : Prop := forall p, 0 <= crc p < two32.
(** the checksum detects every single-bit change of payload ++ stored checksum *)
Definition detects_1bit (crc : bytes -> Z) : Prop :=
  forall p i b, 0 <= b < 8 -> (i < length p + 4)%nat ->
    let q := flip_bit (p ++ le32 (crc p)) i b in
    u32_of (skipn (length p) q) <> crc (firstn (length p) q).
(** in the record sequence [rs], [r] is followed by a commit marker with no abort or
    checkpoint record in between *)
Definition commit_covered (rs : list record) (r : record) : Prop :=
  exists l1 l2 l3 t, rs = l1 ++ r :: l2 ++ TxCommit t :: l3 /\ forallb (fun x => negb (is_clear x)) l2 = true.
(** the records the commit markers of a record sequence publish *)
Definition committed (rs : list record) : list record := snd (sm_run ([], []) rs).

(** * The codec premises, restricted to what a history actually writes *)
(** the records the history [ss] appends to the log, under the concrete codec *)
Definition real_logs (cfg : wcfg) (ss : list session) : list record :=
  hist_logs crc32 enc_record dec_record_slice cfg db_fresh ss.
(** a record the bincode codec carries: well formed (u64 ids, UTF-8 strings, values that are
    the bincode form of a [Value]) and shorter than 4 GiB once encoded *)
Definition rec_fits (r : record) : Prop := rec_wf r /\ lenZ (enc_record r) < two32 /\ rec_ids_below r.

(** * The code before the repairs (for the [_pre_refuted] theorems) *)
Definition real_sessions_pre (cfg : wcfg) (ss : list session) : list sobs * rres dbstate :=
  run_sessions_pre crc32 enc_record dec_record_slice cfg db_fresh ss.
Definition last_cycle_differs_pre (cfg : wcfg) (ss : list session) : Prop :=
  exists o s2, last_obs (fst (real_sessions_pre cfg ss)) = Some o /\ so_after o = ROk s2 /\ differ s2 (so_before o).
Definition last_cycle_differs_pre_b (cfg : wcfg) (ss : list session) : bool :=
  match last_obs (fst (real_sessions_pre cfg ss)) with
  | Some o => match so_after o with ROk s2 => differ_b s2 (so_before o) | RErr => false end
  | None => false
  end.
(** the last cycle of the history is exact under the current code *)
Definition last_cycle_exact_b (cfg : wcfg) (ss : list session) : bool :=
  match last_obs (fst (real_sessions cfg ss)) with
  | Some o => match so_after o with ROk s2 => negb (differ_b s2 (so_before o)) | RErr => false end
  | None => false
  end.
