(** C05/C06/C07 — comparison of implementation observations with the model (run by the checks;
    the statements of Props_C05..C07 use the dump comparison).  The byte codecs enter as tables
    computed by the harness with the real functions (bincode for records and snapshots, crc32fast
    for checksums) and are compared with the concrete codecs of Wal/Codec.v.  No primitive
    integers here: the packed byte-string literals of the harness are in Wal/Run.v. *)
From GV Require Export Wal.Classes Wal.Codec.
Open Scope Z_scope.

(** * Codec tables *)
Record tabs := mkTabs {
  tb_enc : list (record * bytes * Z);   (* record, its bincode bytes, crc32 of those bytes *)
  tb_dec : list (bytes * record);       (* further payloads the real decoder accepts *)
  tb_crc : list (bytes * Z)             (* crc32 of further byte strings met while reading damaged files *)
}.
Definition tenc (t : tabs) (r : record) : bytes :=
  match find (fun e => record_eqb (fst (fst e)) r) (tb_enc t) with Some e => snd (fst e) | None => [] end.
Definition tcrc (t : tabs) (bs : bytes) : Z :=
  match find (fun e => zlist_eqb (snd (fst e)) bs) (tb_enc t) with
  | Some e => snd e
  | None => match find (fun e => zlist_eqb (fst e) bs) (tb_crc t) with Some e => snd e | None => -1 end
  end.
Definition tdec (t : tabs) (bs : bytes) : option record :=
  match find (fun e => zlist_eqb (fst e) bs) (tb_dec t) with
  | Some e => Some (snd e)
  | None => match find (fun e => zlist_eqb (snd (fst e)) bs) (tb_enc t) with Some e => Some (fst (fst e)) | None => None end
  end.

(** * Order-insensitive comparison of dumps (hash-map iteration order is not modelled) *)
Definition subset {A} (eqb : A -> A -> bool) (l1 l2 : list A) : bool := forallb (fun x => existsb (eqb x) l2) l1.
Definition set_eqb {A} (eqb : A -> A -> bool) (l1 l2 : list A) : bool :=
  (length l1 =? length l2)%nat && subset eqb l1 l2 && subset eqb l2 l1.
Definition prop_eqb (a b : str * value) : bool := str_eqb (fst a) (fst b) && str_eqb (snd a) (snd b).
Definition dnode_eqb (a b : dnode) : bool :=
  let '(i, l, p) := a in let '(j, m, q) := b in (i =? j) && set_eqb str_eqb l m && set_eqb prop_eqb p q.
Definition dedge_eqb (a b : dedge) : bool :=
  let '(i, s, d, t, p) := a in let '(j, s', d', t', q) := b in
  (i =? j) && (s =? s') && (d =? d') && str_eqb t t' && set_eqb prop_eqb p q.
Fixpoint forall2b {A B} (f : A -> B -> bool) (l1 : list A) (l2 : list B) : bool :=
  match l1, l2 with
  | [], [] => true
  | a :: r1, b :: r2 => f a b && forall2b f r1 r2
  | _, _ => false
  end.
Definition gdump := (list dnode * list dedge)%type.
Definition dump_eqb (a b : gdump) : bool := set_eqb dnode_eqb (fst a) (fst b) && set_eqb dedge_eqb (snd a) (snd b).

Definition recs_eqb : list record -> list record -> bool := list_eqb record_eqb.
Definition rrecs_eqb (a b : rres (list record)) : bool :=
  match a, b with ROk x, ROk y => recs_eqb x y | RErr, RErr => true | _, _ => false end.
Definition meta_eqb (a b : metafile) : bool :=
  match a, b with
  | MetaAbsent, MetaAbsent | MetaBad, MetaBad => true
  | MetaOk x, MetaOk y => (m_epoch x =? m_epoch y) && (m_seq x =? m_seq y) && (m_tx x =? m_tx y)
  | _, _ => false
  end.
Definition zz_eqb (a b : Z * Z) : bool := (fst a =? fst b) && (snd a =? snd b).
Definition files_eqb (fs : list (Z * file)) (obs : list (Z * bytes)) : bool :=
  forall2b (fun sf sb => (fst sf =? fst sb) && zlist_eqb (f_bytes (snd sf)) (snd sb)) fs obs.
Definition mkfiles (obs : list (Z * bytes)) : list (Z * file) :=
  map (fun sb => (fst sb, mkFile (snd sb) (lenZ (snd sb)) (lenZ (snd sb)))) obs.

(** * (i) writer bytes: a [WalManager] driven through [ops] from an empty directory.
    [vis]: after every operation the length of each log file as the file system reports it
    (= bytes flushed by the process); [syn]: after every operation the model's synced length
    of the active file as far as the harness can tell (Some n) ; final files, metadata, temp
    file, and what [WalRecovery::recover] returns on the final directory *)
Fixpoint chk_wal_steps (t : tabs) (cfg : wcfg) (w : wstate) (ops : list wop)
         (vis : list (list (Z * Z))) : bool * wstate :=
  match ops, vis with
  | [], [] => (true, w)
  | o :: r, v :: vr =>
      let w1 := wstep (tcrc t) (tenc t) cfg w o in
      let ok := list_eqb zz_eqb (map (fun sf => (fst sf, f_flushed (snd sf))) (d_files (w_disk w1))) v in
      let '(okr, w2) := chk_wal_steps t cfg w1 r vr in (ok && okr, w2)
  | _, _ => (false, w)
  end.
Definition chk_wal (t : tabs) (cfg : wcfg) (ops : list wop) (vis : list (list (Z * Z)))
           (final : list (Z * bytes)) (meta : metafile) (tmp : bool) (rec : rres (list record)) : bool :=
  let '(ok, w) := chk_wal_steps t cfg (wopen (tcrc t) empty_disk) ops vis in
  let d := wdrop w in
  ok && files_eqb (d_files d) final && meta_eqb (d_meta d) meta && Bool.eqb (d_tmp d) tmp
  && rrecs_eqb (recover (tcrc t) (tdec t) d) rec.
(** [syn]: after every operation, for each log file the size it had when it was last fsynced
    (0 = never), as observed by the harness, which interposes fsync in its own process *)
Fixpoint chk_wal_syn_steps (t : tabs) (cfg : wcfg) (w : wstate) (ops : list wop) (syn : list (list (Z * Z))) : bool :=
  match ops, syn with
  | [], [] => true
  | o :: r, v :: vr =>
      let w1 := wstep (tcrc t) (tenc t) cfg w o in
      list_eqb zz_eqb (map (fun sf => (fst sf, f_synced (snd sf))) (d_files (w_disk w1))) v
      && chk_wal_syn_steps t cfg w1 r vr
  | _, _ => false
  end.
Definition chk_wal_syn (t : tabs) (cfg : wcfg) (ops : list wop) (syn : list (list (Z * Z))) : bool :=
  chk_wal_syn_steps t cfg (wopen (tcrc t) empty_disk) ops syn.
(** synced lengths the model assigns to the files at the end (shown for diagnostics and
    compared where the harness can observe them) *)
Definition wal_synced (t : tabs) (cfg : wcfg) (ops : list wop) : list (Z * Z) :=
  map (fun sf => (fst sf, f_synced (snd sf))) (d_files (w_disk (wrun (tcrc t) (tenc t) cfg (wopen (tcrc t) empty_disk) ops))).
Definition chk_wal_synced (t : tabs) (cfg : wcfg) (ops : list wop) (syn : list (Z * Z)) : bool :=
  list_eqb zz_eqb (wal_synced t cfg ops) syn.

(** * (ii) recovery as a function of bytes *)
Inductive obs_open := OpenErr | OpenPanic | OpenOk (dmp : gdump) (nn ne : Z).
Definition chk_img (t : tabs) (files : list (Z * bytes)) (meta : metafile) (tmp : bool)
           (rec : rres (list record)) (opn : obs_open) : bool :=
  let d := mkDisk (mkfiles files) meta tmp in
  rrecs_eqb (recover (tcrc t) (tdec t) d) rec
  && match db_open (tcrc t) (tdec t) d, opn with
     | RErr, OpenErr => true
     | ROk st, OpenOk dmp nn ne =>
         dump_eqb (dump (db_store st) latest) dmp && (s_nn (db_store st) =? nn) && (s_ne (db_store st) =? ne)
     | _, _ => false
     end.
Definition show_img (t : tabs) (files : list (Z * bytes)) (meta : metafile) :=
  recover (tcrc t) (tdec t) (mkDisk (mkfiles files) meta false).

(** * (iii) histories of a [GrafeoDB] *)
Inductive reobs := ReErr | RePanic | ReOk (cur lat : gdump).
Record sessobs := mkSO {
  o_outs : list out;
  o_cur : gdump;                   (* dump through get_node/get_edge (store epoch) before the end *)
  o_lat : gdump;                   (* dump at the latest epoch before the end *)
  o_files : list (Z * bytes);      (* the directory the next open finds *)
  o_meta : metafile;
  o_re : reobs
}.
Definition chk_sess (m : sobs) (o : sessobs) : bool :=
  list_eqb out_eqb (so_outs m) (o_outs o)
  && dump_eqb (dump (so_before m) (s_epoch (so_before m))) (o_cur o)
  && dump_eqb (dump (so_before m) latest) (o_lat o)
  && files_eqb (d_files (so_disk m)) (o_files o) && meta_eqb (d_meta (so_disk m)) (o_meta o)
  && match so_after m, o_re o with
     | RErr, ReErr => true
     | ROk s, ReOk cur lat => dump_eqb (dump s (s_epoch s)) cur && dump_eqb (dump s latest) lat
     | _, _ => false
     end.
Definition chk_db (t : tabs) (cfg : wcfg) (ss : list session) (obs : list sessobs) : bool :=
  forall2b chk_sess (fst (run_sessions (tcrc t) (tenc t) (tdec t) cfg (db_fresh) ss)) obs.
Definition show_db (t : tabs) (cfg : wcfg) (ss : list session) :=
  map (fun m => (so_outs m, dump (so_before m) latest, d_meta (so_disk m),
                 map (fun sf => (fst sf, lenZ (f_bytes (snd sf)), f_synced (snd sf))) (d_files (so_disk m)),
                 match so_after m with ROk s => Some (dump s latest) | RErr => None end))
      (fst (run_sessions (tcrc t) (tenc t) (tdec t) cfg (db_fresh) ss)).
(** synced length of every file of the directory at the end of the last session *)
Definition db_synced (t : tabs) (cfg : wcfg) (ss : list session) : list (Z * Z) :=
  match rev (fst (run_sessions (tcrc t) (tenc t) (tdec t) cfg (db_fresh) ss)) with
  | m :: _ => map (fun sf => (fst sf, f_synced (snd sf))) (d_files (so_disk m))
  | [] => []
  end.

(** classes, instantiated with the tables *)
Definition kc05_1 t := k05_1 (tcrc t) (tenc t) (tdec t).
Definition kc05_2 t := k05_2 (tcrc t) (tenc t) (tdec t).
Definition kc05_3 t := k05_3 (tcrc t) (tenc t) (tdec t).
Definition kc05_4 t := k05_4 (tcrc t) (tenc t) (tdec t).
(** the directory the last session of [ss] leaves behind, before the cuts of a crash *)
Definition pre_crash_disk (t : tabs) (cfg : wcfg) (ss : list session) : disk :=
  match rev ss with
  | [] => empty_disk
  | (os, _) :: before =>
      match snd (run_sessions (tcrc t) (tenc t) (tdec t) cfg (db_fresh) (rev before)) with
      | ROk st => wdrop (db_w (fst (run_ops (tcrc t) (tenc t) cfg st os)))
      | RErr => empty_disk
      end
  end.
Definition kc06_1 t cfg ss := k06_1 (tcrc t) (tdec t) (pre_crash_disk t cfg ss).
Definition img_disk (files : list (Z * bytes)) (meta : metafile) : disk := mkDisk (mkfiles files) meta false.
Definition kc06_2 t files meta := k06_2 (tcrc t) (tdec t) (img_disk files meta).
Definition kc06_3 t orig files meta := k06_3 (tcrc t) (tdec t) (img_disk orig meta) (img_disk files meta).
Definition kc06_5 t files meta := k06_5 (tcrc t) (tdec t) (img_disk files meta).
(** WalManager level: some file the recovery skips holds a data record *)
Definition kc05_4_wal (t : tabs) (files : list (Z * bytes)) (meta : metafile) : bool :=
  existsb (fun sf => (fst sf <? min_seq meta) && existsb is_data (file_records (tcrc t) (tdec t) (snd sf))) (mkfiles files).

(** WalManager level, by the operations: the log was rotated (explicitly or because a file reached
    max_log_size) — the class of C05-K4 as [k_rot] states it for a database; it also covers the
    case where [truncate_old_logs] has already deleted the skipped files *)
Definition kc05_4_ops (t : tabs) (cfg : wcfg) (ops : list wop) : bool :=
  0 <? w_seq (wrun (tcrc t) (tenc t) cfg (wopen (tcrc t) empty_disk) ops).

(** * (iv) snapshots *)
Definition run_store (os : list op) : store * tm :=
  fold_left (fun st o => match op_effect (fst st) (snd st) o with (s1, t1, _, _) => (s1, t1) end) os (empty_store, tm0).
Definition snap_eqb (a b : snapshot) : bool :=
  (sn_version a =? sn_version b) && set_eqb dnode_eqb (sn_nodes a) (sn_nodes b) && set_eqb dedge_eqb (sn_edges a) (sn_edges b).
Inductive cobs := CErr | CPanic | CAbort | COk (cur lat : gdump) (nn ne : Z).
Definition chk_copy (m : store) (o : cobs) : bool :=
  match o with
  | COk cur lat nn ne => dump_eqb (dump m (s_epoch m)) cur && dump_eqb (dump m latest) lat && (s_nn m =? nn) && (s_ne m =? ne)
  | _ => false
  end.
(** [src_cur]/[src_lat]: dumps of the source after all copies were taken (source unchanged);
    [sn]: the exported bytes decoded by the harness; [imp], [mem], [sav], [oim]: import of the exported
    bytes, to_memory(), save()+open(), open_in_memory() of a copy of the saved directory.  save() enumerates the source exactly as export does (hash-map
    order, not modelled), so the model saves the store rebuilt from the observed enumeration [sn],
    which [snap_eqb] ties to the model's own snapshot as a set *)
Definition chk_snap (t : tabs) (cfg : wcfg) (os : list op) (src_cur src_lat : gdump) (sn : snapshot)
           (imp mem : cobs) (sav oim : cobs) : bool :=
  let s := fst (run_store os) in
  dump_eqb (dump s (s_epoch s)) src_cur && dump_eqb (dump s latest) src_lat
  && snap_eqb (snapshot_of s) sn
  && chk_copy (build sn) imp
  && chk_copy (to_memory s) mem
  && match save_open (tcrc t) (tenc t) (tdec t) cfg (build sn), sav, oim with
     | ROk m, COk _ _ _ _, COk _ _ _ _ => chk_copy m sav && chk_copy (to_memory m) oim   (* open_in_memory = open; to_memory; close *)
     | RErr, CErr, CErr => true
     | _, _, _ => false
     end.
Definition kc07_1 (os : list op) : bool := k07_1 (fst (run_store os)).

(** import of arbitrary bytes: [d] is what the real decoder makes of them *)
Definition chk_import (d : option (snapshot * nat)) (o : cobs) : bool :=
  match import (fun _ => d) [] , o with
  | IErr, CErr => true
  | IOk m, COk _ _ _ _ => chk_copy m o
  | _, _ => false
  end.

(** the model's synced length of file [seq] just before the crash that ends the last session *)
Definition chk_pre_synced (t : tabs) (cfg : wcfg) (ss : list session) (seq n : Z) : bool :=
  match get_file seq (d_files (pre_crash_disk t cfg ss)) with
  | Some f => f_synced f =? n
  | None => false
  end.

(** * (0) the concrete codecs of Wal/Codec.v against the real functions: every table entry of a
    run (bincode bytes and CRC-32 of every record written, decoding of every payload read),
    decoding of damaged record payloads, snapshot bytes, checkpoint metadata bytes *)
Definition chk_enc (r : record) (bs : bytes) (c : Z) : bool := zlist_eqb (enc_record r) bs && (crc32 bs =? c).
Definition chk_dec (bs : bytes) (o : option record) : bool := option_eqb record_eqb (dec_record_slice bs) o.
Definition chk_tabs (t : tabs) : bool :=
  forallb (fun e => chk_enc (fst (fst e)) (snd (fst e)) (snd e) && chk_dec (snd (fst e)) (Some (fst (fst e)))) (tb_enc t)
  && forallb (fun e => chk_dec (fst e) (Some (snd e))) (tb_dec t)
  && forallb (fun e => crc32 (fst e) =? snd e) (tb_crc t).
Definition show_dec (bs : bytes) := dec_record_slice bs.

Definition props_exact_eqb : props -> props -> bool := list_eqb prop_eqb.
Definition dnode_exact_eqb (a b : dnode) : bool :=
  let '(i, l, p) := a in let '(j, m, q) := b in (i =? j) && list_eqb str_eqb l m && props_exact_eqb p q.
Definition dedge_exact_eqb (a b : dedge) : bool :=
  let '(i, s, d, t, p) := a in let '(j, s', d', t', q) := b in
  (i =? j) && (s =? s') && (d =? d') && str_eqb t t' && props_exact_eqb p q.
Definition snap_exact_eqb (a b : snapshot) : bool :=
  (sn_version a =? sn_version b) && list_eqb dnode_exact_eqb (sn_nodes a) (sn_nodes b)
  && list_eqb dedge_exact_eqb (sn_edges a) (sn_edges b).
Definition dsnap_eqb (a b : option (snapshot * nat)) : bool :=
  option_eqb (fun x y => snap_exact_eqb (fst x) (fst y) && (snd x =? snd y)%nat) a b.
(** [bs]: bytes handed to [import_snapshot]; [d]: what the real decoder makes of them; [o]: the
    observed result.  The model decodes the bytes itself. *)
(** C07-K4 as the run sees it: a 64-bit length marker in bytes the model decoder rejects *)
Definition kc07_4 (bs : bytes) : bool :=
  k07_4 bs && match dec_snapshot bs with None => true | Some _ => false end.
Definition chk_import_bytes (bs : bytes) (d : option (snapshot * nat)) (o : cobs) : bool :=
  dsnap_eqb (dec_snapshot bs) d
  && match import dec_snapshot bs, o with
     | IErr, CErr => true
     | IOk m, COk _ _ _ _ => chk_copy m o
     | _, _ => false
     end.
(** the exported bytes are the model's encoding of the enumeration the export made *)
Definition chk_export_bytes (sn : snapshot) (bs : bytes) : bool :=
  zlist_eqb (enc_snapshot sn) bs && dsnap_eqb (dec_snapshot bs) (Some (sn, length bs)).
Definition kc07_2 (bs : bytes) : bool :=
  match dec_snapshot bs with Some (_, n) => k07_2 bs n | None => false end.
Definition kc07_3 (bs : bytes) : bool :=
  match dec_snapshot bs with Some (sn, _) => k07_3 sn | None => false end.
(** checkpoint.meta: bytes on disk against what the harness decoded *)
Definition chk_meta (o : option bytes) (m : metafile) : bool := meta_eqb (metafile_of o) m.
