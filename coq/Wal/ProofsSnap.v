(** C07 — proofs about export/import/to_memory/save (Wal/Snap.v). *)
From GV Require Import Wal.Frame Wal.Disk Wal.Recover Wal.Db Wal.Snap Wal.Classes
     Wal.ProofsFrame Wal.ProofsRecover Wal.ProofsDb.
From Coq Require Import Lia ZArith List Bool.
Import ListNotations.
Open Scope Z_scope.

(** * Strings *)
Lemma str_eqb_eq a : forall b, str_eqb a b = true <-> a = b.
Proof.
  unfold str_eqb. induction a as [|x a IH]; intros [|y b]; cbn; split; intros H; try reflexivity; try discriminate.
  - apply andb_prop in H as [H1 H2]. apply Z.eqb_eq in H1. apply IH in H2. congruence.
  - injection H as -> ->. rewrite Z.eqb_refl. apply IH. reflexivity.
Qed.
Lemma str_eqb_refl a : str_eqb a a = true.
Proof. apply str_eqb_eq. reflexivity. Qed.
Lemma existsb_str x l : existsb (str_eqb x) l = true <-> In x l.
Proof.
  rewrite existsb_exists. split.
  - intros (y & Hy & E). apply str_eqb_eq in E. subst. exact Hy.
  - intros H. exists x. split; [exact H|apply str_eqb_refl].
Qed.

Lemma dedup_nodup l : NoDup l -> dedup l = l.
Proof.
  induction 1 as [|x l Hx Hl IH]; cbn; [reflexivity|].
  destruct (existsb (str_eqb x) l) eqn:E; [apply existsb_str in E; contradiction|]. now rewrite IH.
Qed.
Lemma dedup_in x l : In x (dedup l) <-> In x l.
Proof.
  induction l as [|y l IH]; cbn; [tauto|].
  destruct (existsb (str_eqb y) l) eqn:E.
  - apply existsb_str in E. rewrite IH. split; [auto|]. intros [<-|H]; auto.
  - cbn. rewrite IH. tauto.
Qed.
Lemma nodup_dedup l : NoDup (dedup l).
Proof.
  induction l as [|y l IH]; cbn; [constructor|].
  destruct (existsb (str_eqb y) l) eqn:E; [exact IH|].
  constructor; [|exact IH]. rewrite dedup_in. intros H. apply existsb_str in H. congruence.
Qed.

(** * Association lists with distinct keys *)
Section Keys.
  Context {K V : Type}.
  Variable keqb : K -> K -> bool.
  Hypothesis keqb_eq : forall a b, keqb a b = true <-> a = b.

  Lemma keqb_refl a : keqb a a = true.
  Proof. apply keqb_eq. reflexivity. Qed.

  Lemma aset_fresh k (v : V) l : ~ In k (map fst l) -> aset keqb k v l = l ++ [(k, v)].
  Proof.
    induction l as [|[k' v'] l IH]; cbn; intros H; [reflexivity|].
    destruct (keqb k' k) eqn:E; [apply keqb_eq in E; subst; tauto|]. rewrite IH by tauto. reflexivity.
  Qed.
  Lemma aget_fresh k (l : list (K * V)) : ~ In k (map fst l) -> aget keqb k l = None.
  Proof.
    induction l as [|[k' v'] l IH]; cbn; intros H; [reflexivity|].
    destruct (keqb k' k) eqn:E; [apply keqb_eq in E; subst; tauto|]. apply IH. tauto.
  Qed.
  Lemma aget_app_last k (v : V) l : ~ In k (map fst l) -> aget keqb k (l ++ [(k, v)]) = Some v.
  Proof.
    induction l as [|[k' v'] l IH]; cbn; intros H; [now rewrite keqb_refl|].
    destruct (keqb k' k) eqn:E; [apply keqb_eq in E; subst; tauto|]. apply IH. tauto.
  Qed.
  Lemma aget_app_other k k' (v : V) l : k' <> k -> aget keqb k (l ++ [(k', v)]) = aget keqb k l.
  Proof.
    intros N. induction l as [|[k2 v2] l IH]; cbn.
    - destruct (keqb k' k) eqn:E; [apply keqb_eq in E; congruence|reflexivity].
    - destruct (keqb k2 k); [reflexivity|exact IH].
  Qed.
  Lemma aset_same_keys k (v : V) l : In k (map fst l) -> map fst (aset keqb k v l) = map fst l.
  Proof.
    induction l as [|[k' v'] l IH]; cbn; intros H; [tauto|].
    destruct (keqb k' k) eqn:E; cbn; [reflexivity|]. f_equal. apply IH. destruct H as [H|H]; [|exact H].
    subst. rewrite keqb_refl in E. discriminate.
  Qed.
  Lemma aget_aset_same k (v : V) l : aget keqb k (aset keqb k v l) = Some v.
  Proof.
    induction l as [|[k' v'] l IH]; cbn; [now rewrite keqb_refl|].
    destruct (keqb k' k) eqn:E; cbn; rewrite E; [reflexivity|exact IH].
  Qed.
  Lemma aget_aset_other k k' (v : V) l : k' <> k -> aget keqb k (aset keqb k' v l) = aget keqb k l.
  Proof.
    intros N. induction l as [|[k2 v2] l IH]; cbn.
    - destruct (keqb k' k) eqn:E; [apply keqb_eq in E; congruence|reflexivity].
    - destruct (keqb k2 k') eqn:E; cbn.
      + apply keqb_eq in E. subst. destruct (keqb k' k) eqn:E2; [apply keqb_eq in E2; congruence|reflexivity].
      + destruct (keqb k2 k); [reflexivity|exact IH].
  Qed.

  (** setting the entries of a list with distinct keys one after the other rebuilds the list *)
  Lemma fold_aset_rebuild (ps : list (K * V)) : forall acc,
    NoDup (map fst (acc ++ ps)) ->
    fold_left (fun m kv => aset keqb (fst kv) (snd kv) m) ps acc = acc ++ ps.
  Proof.
    induction ps as [|[k v] ps IH]; intros acc H; cbn; [now rewrite app_nil_r|].
    rewrite aset_fresh.
    - rewrite IH; rewrite <- app_assoc; [reflexivity|exact H].
    - rewrite map_app in H. apply NoDup_remove_2 in H. intros C. apply H. apply in_or_app. left. exact C.
  Qed.
End Keys.

Definition keys_nodup {V} (l : list (str * V)) : Prop := NoDup (map fst l).

(** * Rebuilding a store from an enumeration *)
Definition dnode_ok (n : dnode) : Prop := NoDup (snd (fst n)) /\ props_ok (snd n).
Definition dedge_ok (e : dedge) : Prop := props_ok (snd e).

Definition node_entry (n : dnode) : Z * nrec := (fst (fst n), mkN 0 None (snd (fst n))).
Definition edge_entry (e : dedge) : Z * erec :=
  let '(id, src, dst, ty, _) := e in (id, mkE 0 None src dst ty).

Lemma set_props_node_fields s id ps :
  s_nodes (set_props_node s id ps) = s_nodes s /\ s_edges (set_props_node s id ps) = s_edges s
  /\ s_eprops (set_props_node s id ps) = s_eprops s /\ s_nn (set_props_node s id ps) = s_nn s
  /\ s_ne (set_props_node s id ps) = s_ne s /\ s_epoch (set_props_node s id ps) = s_epoch s.
Proof. revert s. induction ps as [|kv ps IH]; intros s; cbn; [repeat split|]. destruct (IH (st_set_node_prop s id (fst kv) (snd kv))) as (?&?&?&?&?&?). cbn in *. repeat split; assumption. Qed.
Lemma set_props_edge_fields s id ps :
  s_nodes (set_props_edge s id ps) = s_nodes s /\ s_edges (set_props_edge s id ps) = s_edges s
  /\ s_nprops (set_props_edge s id ps) = s_nprops s /\ s_nn (set_props_edge s id ps) = s_nn s
  /\ s_ne (set_props_edge s id ps) = s_ne s /\ s_epoch (set_props_edge s id ps) = s_epoch s.
Proof. revert s. induction ps as [|kv ps IH]; intros s; cbn; [repeat split|]. destruct (IH (st_set_edge_prop s id (fst kv) (snd kv))) as (?&?&?&?&?&?). cbn in *. repeat split; assumption. Qed.

(** properties of entity [id] after setting [ps] (distinct keys) on top of no properties;
    the properties of every other entity are untouched *)
Lemma fold_set_prop id ps : forall m,
  props_ok (props_of id m ++ ps) ->
  props_of id (fold_left (fun m kv => set_prop id (fst kv) (snd kv) m) ps m) = props_of id m ++ ps
  /\ forall j, j <> id -> props_of j (fold_left (fun m kv => set_prop id (fst kv) (snd kv) m) ps m) = props_of j m.
Proof.
  induction ps as [|[k v] ps IH]; intros m H; cbn [fold_left].
  - rewrite app_nil_r. auto.
  - assert (E1 : props_of id (set_prop id k v m) = props_of id m ++ [(k, v)]).
    { unfold set_prop, props_of at 1. rewrite (aget_aset_same Z.eqb Z.eqb_eq).
      apply (aset_fresh str_eqb str_eqb_eq). unfold props_ok in H. rewrite map_app in H. cbn in H.
      apply NoDup_remove_2 in H. intros C. apply H, in_or_app. left. exact C. }
    assert (E2 : forall j, j <> id -> props_of j (set_prop id k v m) = props_of j m).
    { intros j N. unfold set_prop, props_of. rewrite (aget_aset_other Z.eqb Z.eqb_eq) by congruence. reflexivity. }
    cbn [fst snd]. destruct (IH (set_prop id k v m)) as [I1 I2].
    + rewrite E1, <- app_assoc. exact H.
    + split.
      * rewrite I1, E1, <- app_assoc. reflexivity.
      * intros j N. rewrite (I2 j N). apply E2, N.
Qed.

Lemma set_props_node_nprops s id ps :
  s_nprops (set_props_node s id ps) = fold_left (fun m kv => set_prop id (fst kv) (snd kv) m) ps (s_nprops s).
Proof. unfold set_props_node. revert s. induction ps as [|kv ps IH]; intros s; cbn [fold_left]; [reflexivity|]. rewrite IH. reflexivity. Qed.
Lemma set_props_edge_eprops s id ps :
  s_eprops (set_props_edge s id ps) = fold_left (fun m kv => set_prop id (fst kv) (snd kv) m) ps (s_eprops s).
Proof. unfold set_props_edge. revert s. induction ps as [|kv ps IH]; intros s; cbn [fold_left]; [reflexivity|]. rewrite IH. reflexivity. Qed.

(** the node loop of [build] *)
Lemma build_nodes_spec ns : forall s,
  NoDup (map fst (s_nodes s) ++ map (fun n : dnode => fst (fst n)) ns) ->
  Forall dnode_ok ns ->
  (forall n, In n ns -> props_of (fst (fst n)) (s_nprops s) = []) ->
  s_epoch s = 0 ->
  let s' := fold_left build_node ns s in
  s_nodes s' = s_nodes s ++ map node_entry ns
  /\ (forall n, In n ns -> props_of (fst (fst n)) (s_nprops s') = snd n)
  /\ (forall j, ~ In j (map (fun n : dnode => fst (fst n)) ns) -> props_of j (s_nprops s') = props_of j (s_nprops s))
  /\ s_edges s' = s_edges s /\ s_eprops s' = s_eprops s /\ s_epoch s' = 0 /\ s_ne s' = s_ne s.
Proof.
  induction ns as [|[[id ls] ps] ns IH]; intros s ND OK EP E0; cbn [fold_left].
  - cbn. rewrite app_nil_r. repeat split; auto. intros n [].
  - set (s1 := build_node s (id, ls, ps)).
    inversion OK as [|? ? [Hl Hp] OK']; subst. cbn [fst snd] in Hl, Hp.
    destruct (set_props_node_fields (st_create_node_with_id s id ls) id ps) as (F1 & F2 & F3 & F4 & F5 & F6).
    assert (N1 : s_nodes s1 = s_nodes s ++ [node_entry (id, ls, ps)]).
    { unfold s1, build_node. rewrite F1. unfold st_create_node_with_id. cbn [s_nodes].
      rewrite (aset_fresh Z.eqb Z.eqb_eq).
      - unfold node_entry. cbn [fst snd]. rewrite E0, (dedup_nodup ls Hl). reflexivity.
      - cbn [map fst] in ND. intros C. apply NoDup_remove_2 in ND. apply ND, in_or_app. left. exact C. }
    assert (P0 : props_of id (s_nprops s) = []) by (apply (EP (id, ls, ps)); left; reflexivity).
    assert (PS : s_nprops s1 = fold_left (fun m kv => set_prop id (fst kv) (snd kv) m) ps (s_nprops s)).
    { unfold s1, build_node. rewrite set_props_node_nprops. reflexivity. }
    destruct (fold_set_prop id ps (s_nprops s)) as [Q1 Q2]; [rewrite P0; exact Hp|]. rewrite P0 in Q1. cbn [app] in Q1.
    assert (NDtail : ~ In id (map (fun n : dnode => fst (fst n)) ns)).
    { cbn [map fst] in ND. apply NoDup_remove_2 in ND. intros C. apply ND, in_or_app. right. exact C. }
    destruct (IH s1) as (I1 & I2 & I3 & I4 & I5 & I6 & I7).
    + rewrite N1, map_app. cbn [map fst node_entry]. rewrite <- app_assoc. exact ND.
    + exact OK'.
    + intros n Hn. rewrite PS, Q2; [apply EP; right; exact Hn|].
      intros C. apply NDtail. rewrite <- C. apply (in_map (fun n : dnode => fst (fst n))). exact Hn.
    + unfold s1, build_node. rewrite F6. exact E0.
    + repeat split.
      * rewrite I1, N1, <- app_assoc. reflexivity.
      * intros n [<-|Hn]; [|apply I2, Hn]. cbn [fst snd]. rewrite (I3 id NDtail), PS. exact Q1.
      * intros j Hj. cbn in Hj. rewrite I3 by tauto. rewrite PS. apply Q2. intros C. apply Hj. left. congruence.
      * rewrite I4. unfold s1, build_node. rewrite F2. reflexivity.
      * rewrite I5. unfold s1, build_node. rewrite F3. reflexivity.
      * exact I6.
      * rewrite I7. unfold s1, build_node. rewrite F5. reflexivity.
Qed.

Definition eid (e : dedge) : Z := fst (fst (fst (fst e))).

(** the edge loop of [build] *)
Lemma build_edges_spec es : forall s,
  NoDup (map fst (s_edges s) ++ map eid es) ->
  Forall dedge_ok es ->
  (forall e, In e es -> props_of (eid e) (s_eprops s) = []) ->
  s_epoch s = 0 ->
  let s' := fold_left build_edge es s in
  s_edges s' = s_edges s ++ map edge_entry es
  /\ (forall e, In e es -> props_of (eid e) (s_eprops s') = snd e)
  /\ (forall j, ~ In j (map eid es) -> props_of j (s_eprops s') = props_of j (s_eprops s))
  /\ s_nodes s' = s_nodes s /\ s_nprops s' = s_nprops s /\ s_epoch s' = 0 /\ s_nn s' = s_nn s.
Proof.
  induction es as [|[[[[id src] dst] ty] ps] es IH]; intros s ND OK EP E0; cbn [fold_left].
  - cbn. rewrite app_nil_r. repeat split; auto. intros n [].
  - set (e0 := (id, src, dst, ty, ps) : dedge). set (s1 := build_edge s e0).
    inversion OK as [|? ? Hp OK']; subst. unfold dedge_ok in Hp. cbn [snd] in Hp.
    destruct (set_props_edge_fields (st_create_edge_with_id s id src dst ty) id ps) as (F1 & F2 & F3 & F4 & F5 & F6).
    assert (N1 : s_edges s1 = s_edges s ++ [edge_entry e0]).
    { unfold s1, build_edge, e0. rewrite F2. unfold st_create_edge_with_id. cbn [s_edges].
      rewrite (aset_fresh Z.eqb Z.eqb_eq).
      - unfold edge_entry. rewrite E0. reflexivity.
      - cbn in ND. intros C. apply NoDup_remove_2 in ND. apply ND, in_or_app. left. exact C. }
    assert (P0 : props_of id (s_eprops s) = []) by (apply (EP e0); left; reflexivity).
    assert (PS : s_eprops s1 = fold_left (fun m kv => set_prop id (fst kv) (snd kv) m) ps (s_eprops s)).
    { unfold s1, build_edge, e0. rewrite set_props_edge_eprops. reflexivity. }
    destruct (fold_set_prop id ps (s_eprops s)) as [Q1 Q2]; [rewrite P0; exact Hp|]. rewrite P0 in Q1. cbn [app] in Q1.
    assert (NDtail : ~ In id (map eid es)).
    { cbn in ND. apply NoDup_remove_2 in ND. intros C. apply ND, in_or_app. right. exact C. }
    destruct (IH s1) as (I1 & I2 & I3 & I4 & I5 & I6 & I7).
    + rewrite N1, map_app. cbn [map fst edge_entry e0]. rewrite <- app_assoc. exact ND.
    + exact OK'.
    + intros e He. rewrite PS, Q2; [apply EP; right; exact He|].
      intros C. apply NDtail. rewrite <- C. apply (in_map eid). exact He.
    + unfold s1, build_edge, e0. rewrite F6. exact E0.
    + repeat split.
      * rewrite I1, N1, <- app_assoc. reflexivity.
      * intros e [<-|He]; [|apply I2, He]. cbn [snd]. change (eid e0) with id. rewrite (I3 id NDtail), PS. exact Q1.
      * intros j Hj. cbn in Hj. rewrite I3 by tauto. rewrite PS. apply Q2. intros C. apply Hj. left. congruence.
      * rewrite I4. unfold s1, build_edge, e0. rewrite F1. reflexivity.
      * rewrite I5. unfold s1, build_edge, e0. rewrite F3. reflexivity.
      * exact I6.
      * rewrite I7. unfold s1, build_edge, e0. rewrite F4. reflexivity.
Qed.

Definition nid (n : dnode) : Z := fst (fst n).
Definition snap_ok (sn : snapshot) : Prop :=
  NoDup (map nid (sn_nodes sn)) /\ NoDup (map eid (sn_edges sn))
  /\ Forall dnode_ok (sn_nodes sn) /\ Forall dedge_ok (sn_edges sn).

Lemma flat_map_map_id {A B} (f : A -> B) (g : B -> list A) (l : list A) :
  (forall a, In a l -> g (f a) = [a]) -> flat_map g (map f l) = l.
Proof.
  induction l as [|a l IH]; intros H; cbn; [reflexivity|].
  rewrite (H a) by (left; reflexivity). cbn. f_equal. apply IH. intros b Hb. apply H. right. exact Hb.
Qed.

(** the store rebuilt from an enumeration dumps as that enumeration, at every epoch *)
Lemma build_dump sn e : snap_ok sn -> 0 <= e -> dump (build sn) e = (sn_nodes sn, sn_edges sn).
Proof.
  intros (N1 & N2 & O1 & O2) He. unfold build.
  destruct (build_nodes_spec (sn_nodes sn) empty_store) as (A1 & A2 & A3 & A4 & A5 & A6 & A7);
    [exact N1 | exact O1 | reflexivity | reflexivity |].
  set (s1 := fold_left build_node (sn_nodes sn) empty_store) in *.
  destruct (build_edges_spec (sn_edges sn) s1) as (B1 & B2 & B3 & B4 & B5 & B6 & B7).
  - rewrite A4. exact N2.
  - exact O2.
  - intros x _. rewrite A5. reflexivity.
  - exact A6.
  - set (s2 := fold_left build_edge (sn_edges sn) s1) in *. unfold dump, dump_nodes, dump_edges.
    rewrite B4, A1, B1, A4, B5. cbn [app empty_store s_nodes s_edges]. f_equal.
    + apply flat_map_map_id. intros [[id ls] ps] Hn. unfold node_entry. cbn [fst snd n_created n_deleted n_labels].
      unfold visible. replace (0 <=? e) with true by (symmetry; apply Z.leb_le; exact He). cbn [andb].
      pose proof (A2 _ Hn) as Q. cbn [fst snd] in Q. rewrite Q. reflexivity.
    + apply flat_map_map_id. intros [[[[id src] dst] ty] ps] Hx. unfold edge_entry.
      cbn [fst snd e_created e_deleted e_src e_dst e_type].
      unfold visible. replace (0 <=? e) with true by (symmetry; apply Z.leb_le; exact He). cbn [andb].
      pose proof (B2 _ Hx) as Q. unfold eid in Q. cbn [fst snd] in Q. rewrite Q. reflexivity.
Qed.

Lemma build_epoch sn : snap_ok sn -> s_epoch (build sn) = 0.
Proof.
  intros (N1 & N2 & O1 & O2). unfold build.
  destruct (build_nodes_spec (sn_nodes sn) empty_store) as (A1 & A2 & A3 & A4 & A5 & A6 & A7);
    [exact N1 | exact O1 | reflexivity | reflexivity |].
  destruct (build_edges_spec (sn_edges sn) (fold_left build_node (sn_nodes sn) empty_store)) as (B1 & B2 & B3 & B4 & B5 & B6 & B7);
    [rewrite A4; exact N2 | exact O2 | intros x _; rewrite A5; reflexivity | exact A6 | exact B6].
Qed.

(** * Well-formed stores: distinct keys everywhere (every reachable store is) *)

Lemma dump_nodes_ids s e : NoDup (map fst (s_nodes s)) -> NoDup (map nid (dump_nodes s e)).
Proof.
  unfold dump_nodes. generalize (s_nprops s) as m. intros m.
  induction (s_nodes s) as [|[id n] l IH]; cbn [map flat_map fst]; intros H; [constructor|].
  inversion H as [|? ? Hin Hl]; subst. specialize (IH Hl).
  destruct (visible _ _ e); cbn [app map]; [|exact IH].
  constructor; [|exact IH]. unfold nid at 1. cbn [fst]. intros C. apply Hin.
  clear - C. induction l as [|[j x] l IHl]; cbn in *; [exact C|].
  destruct (visible _ _ e); cbn in *; [destruct C as [C|C]; [left; exact C|right; auto]|right; auto].
Qed.
Lemma dump_edges_ids s e : NoDup (map fst (s_edges s)) -> NoDup (map eid (dump_edges s e)).
Proof.
  unfold dump_edges. generalize (s_eprops s) as m. intros m.
  induction (s_edges s) as [|[id n] l IH]; cbn [map flat_map fst]; intros H; [constructor|].
  inversion H as [|? ? Hin Hl]; subst. specialize (IH Hl).
  destruct (visible _ _ e); cbn [app map]; [|exact IH].
  constructor; [|exact IH]. unfold eid at 1. cbn [fst]. intros C. apply Hin.
  clear - C. induction l as [|[j x] l IHl]; cbn in *; [exact C|].
  destruct (visible _ _ e); cbn in *; [destruct C as [C|C]; [left; exact C|right; auto]|right; auto].
Qed.

Lemma snapshot_ok s : store_wf s -> snap_ok (snapshot_of s).
Proof.
  intros (W1 & W2 & W3 & W4 & W5). unfold snap_ok, snapshot_of. cbn [sn_nodes sn_edges]. repeat split.
  - apply dump_nodes_ids, W1.
  - apply dump_edges_ids, W2.
  - unfold dump_nodes. apply Forall_forall. intros x Hx. apply in_flat_map in Hx as ([id n] & Hin & Hx).
    destruct (visible _ _ _); [|destruct Hx]. destruct Hx as [<-|[]]. split; cbn [fst snd].
    + exact (W3 _ Hin).
    + apply W4.
  - unfold dump_edges. apply Forall_forall. intros x Hx. apply in_flat_map in Hx as ([id n] & Hin & Hx).
    destruct (visible _ _ _); [|destruct Hx]. destruct Hx as [<-|[]]. unfold dedge_ok. cbn [snd]. apply W5.
Qed.

(** under [epoch_clean] the latest dump is the dump at the store's own epoch *)
Lemma visible_clean ep c d : ep <= latest -> epoch_ok ep c d = true -> visible c d latest = visible c d ep.
Proof.
  unfold epoch_ok, visible. intros H. destruct d as [d|]; intros E.
  - apply Z.leb_le in E. replace (latest <? d) with false by (symmetry; apply Z.ltb_ge; lia).
    replace (ep <? d) with false by (symmetry; apply Z.ltb_ge; lia). now rewrite !andb_false_r.
  - apply Z.leb_le in E. replace (c <=? latest) with true by (symmetry; apply Z.leb_le; lia).
    replace (c <=? ep) with true by (symmetry; apply Z.leb_le; lia). reflexivity.
Qed.
Lemma flat_map_ext_in' {A B} (f g : A -> list B) l : (forall a, In a l -> f a = g a) -> flat_map f l = flat_map g l.
Proof. induction l as [|a l IH]; intros H; cbn; [reflexivity|]. rewrite (H a) by (left; reflexivity). f_equal. apply IH. intros b Hb. apply H. right. exact Hb. Qed.

Lemma dump_clean s : epoch_clean s = true -> dump s latest = dump s (s_epoch s).
Proof.
  unfold epoch_clean. intros H. apply andb_prop in H as [H H3]. apply andb_prop in H as [H1 H2].
  apply Z.leb_le in H1. unfold dump, dump_nodes, dump_edges. f_equal.
  - rewrite forallb_forall in H2. apply flat_map_ext_in'. intros [id n] Hin.
    specialize (H2 _ Hin). cbn in H2. rewrite (visible_clean _ _ _ H1 H2). reflexivity.
  - rewrite forallb_forall in H3. apply flat_map_ext_in'. intros [id n] Hin.
    specialize (H3 _ Hin). cbn in H3. rewrite (visible_clean _ _ _ H1 H3). reflexivity.
Qed.

Lemma latest_nonneg : 0 <= latest.
Proof. unfold latest. lia. Qed.

(** T import_export (store level): the copy dumps exactly as the source *)
Lemma copy_dump_l s :
  store_wf s -> epoch_clean s = true ->
  dump (build (snapshot_of s)) latest = dump s latest
  /\ dump (build (snapshot_of s)) (s_epoch (build (snapshot_of s))) = dump s latest.
Proof.
  intros W C. pose proof (snapshot_ok s W) as OK.
  rewrite (build_dump _ latest OK latest_nonneg), (build_epoch _ OK), (build_dump _ 0 OK (Z.le_refl 0)).
  rewrite (dump_clean s C). split; reflexivity.
Qed.

Section SnapProofs.
  Variable enc_snap : snapshot -> bytes.
  Variable dec_snap : bytes -> option (snapshot * nat).
  Notation carried := (snap_carried enc_snap dec_snap).

  Lemma import_export_l s :
    carried (snapshot_of s) ->
    store_wf s -> epoch_clean s = true ->
    exists c, import dec_snap (export enc_snap s) = IOk c /\ dump c latest = dump s latest
              /\ dump c (s_epoch c) = dump s latest.
  Proof.
    intros dec_enc_snap W C. unfold import, export. pose proof (dec_enc_snap []) as HD. rewrite app_nil_r in HD. rewrite HD.
    rewrite Nat.ltb_irrefl. cbn [sn_version snapshot_of]. rewrite Z.eqb_refl. eexists. split; [reflexivity|].
    apply copy_dump_l; assumption.
  Qed.

  (** export is a function of what a dump at the store's epoch shows *)
  Lemma export_same_dump_l s1 s2 :
    dump s1 (s_epoch s1) = dump s2 (s_epoch s2) -> export enc_snap s1 = export enc_snap s2.
  Proof.
    unfold export, snapshot_of, dump. intros H. injection H as H1 H2. rewrite H1, H2. reflexivity.
  Qed.
  (** exporting the import of an export gives the same bytes *)
  Lemma export_import_export_l s c :
    carried (snapshot_of s) ->
    store_wf s -> import dec_snap (export enc_snap s) = IOk c -> export enc_snap c = export enc_snap s.
  Proof.
    intros dec_enc_snap W. unfold import, export at 1. pose proof (dec_enc_snap []) as HD. rewrite app_nil_r in HD. rewrite HD.
    rewrite Nat.ltb_irrefl. cbn [sn_version snapshot_of]. rewrite Z.eqb_refl.
    intros H. injection H as <-. pose proof (snapshot_ok s W) as OK.
    unfold export. f_equal. unfold snapshot_of at 1. rewrite (build_epoch _ OK).
    pose proof (build_dump _ 0 OK (Z.le_refl 0)) as D. unfold dump in D. injection D as D1 D2.
    rewrite D1, D2. reflexivity.
  Qed.

  (** T import_total: for every byte string the result is an error or the complete store of a
      snapshot that the bytes are exactly the encoding of — never a panic, never a partial store,
      never with bytes left over *)
  Lemma import_total_l bs :
    match import dec_snap bs with
    | IErr => dec_snap bs = None
              \/ exists sn n, dec_snap bs = Some (sn, n) /\ ((n < length bs)%nat \/ sn_version sn <> 1)
    | IPanic => False
    | IOk c => exists sn n, dec_snap bs = Some (sn, n) /\ (length bs <= n)%nat /\ sn_version sn = 1 /\ c = build sn
    end.
  Proof.
    unfold import. destruct (dec_snap bs) as [[sn n]|]; [|left; reflexivity].
    destruct (n <? length bs)%nat eqn:T.
    - apply Nat.ltb_lt in T. right. exists sn, n. auto.
    - apply Nat.ltb_ge in T. destruct (sn_version sn =? 1) eqn:V.
      + apply Z.eqb_eq in V. exists sn, n. auto.
      + apply Z.eqb_neq in V. right. exists sn, n. auto.
  Qed.

  (** bytes behind a valid snapshot are an error (C07-K2 repaired) *)
  Lemma trailing_rejected_l sn junk :
    carried sn -> junk <> [] -> import dec_snap (enc_snap sn ++ junk) = IErr.
  Proof.
    intros dec_enc_snap Hj. unfold import. rewrite dec_enc_snap.
    replace (length (enc_snap sn) <? length (enc_snap sn ++ junk))%nat with true; [reflexivity|].
    symmetry. apply Nat.ltb_lt. rewrite app_length. destruct junk; [congruence|cbn; lia].
  Qed.

  (** * the code before the repairs *)
  (** C07-K2 (pre): whatever followed a valid snapshot was ignored *)
  Lemma trailing_accepted_pre_l sn junk :
    carried sn -> import_pre dec_snap (enc_snap sn ++ junk) = import_pre dec_snap (enc_snap sn).
  Proof.
    intros dec_enc_snap. unfold import_pre. rewrite dec_enc_snap. pose proof (dec_enc_snap []) as H. rewrite app_nil_r in H. rewrite H. reflexivity.
  Qed.
  Lemma trailing_class_l sn junk : junk <> [] -> k07_2 (enc_snap sn ++ junk) (length (enc_snap sn)) = true.
  Proof. intros H. unfold k07_2. apply Nat.ltb_lt. rewrite app_length. destruct junk; [congruence|cbn; lia]. Qed.

  (** C07-K3 (pre): a snapshot that names the largest id made import panic *)
  Lemma import_max_id_pre_l sn : carried sn -> sn_version sn = 1 -> k07_3 sn = true -> import_pre dec_snap (enc_snap sn) = IPanic.
  Proof.
    intros dec_enc_snap V K. unfold import_pre. rewrite <- (app_nil_r (enc_snap sn)), dec_enc_snap, V. cbn. unfold k07_3 in K. rewrite K. reflexivity.
  Qed.
End SnapProofs.

(** [to_memory] *)
Lemma to_memory_l s : store_wf s -> epoch_clean s = true -> dump (to_memory s) latest = dump s latest.
Proof. intros W C. apply copy_dump_l; assumption. Qed.

(** * save + open *)
Lemma apply_node_records s n : apply_all s (node_records n) = build_node s n.
Proof. destruct n as [[id ls] ps]. unfold node_records, build_node. cbn [apply_all fold_left apply_record].
  fold (apply_all (st_create_node_with_id s id ls) (map (fun kv => SetNodeProperty id (fst kv) (snd kv)) ps)).
  apply set_props_node_apply. Qed.
Lemma apply_edge_records s e : apply_all s (edge_records e) = build_edge s e.
Proof. destruct e as [[[[id src] dst] ty] ps]. unfold edge_records, build_edge. cbn [apply_all fold_left apply_record].
  fold (apply_all (st_create_edge_with_id s id src dst ty) (map (fun kv => SetEdgeProperty id (fst kv) (snd kv)) ps)).
  apply set_props_edge_apply. Qed.
Lemma apply_flat_nodes ns : forall s, apply_all s (flat_map node_records ns) = fold_left build_node ns s.
Proof. induction ns as [|n ns IH]; intros s; [reflexivity|]. cbn [flat_map fold_left]. rewrite apply_all_app, apply_node_records. apply IH. Qed.
Lemma apply_flat_edges es : forall s, apply_all s (flat_map edge_records es) = fold_left build_edge es s.
Proof. induction es as [|n es IH]; intros s; [reflexivity|]. cbn [flat_map fold_left]. rewrite apply_all_app, apply_edge_records. apply IH. Qed.
Lemma save_records_build s : apply_all empty_store (save_records s) = build (snapshot_of s).
Proof. unfold save_records, build. rewrite apply_all_app, apply_flat_nodes, apply_flat_edges. reflexivity. Qed.

Lemma data_node_records n : forallb is_data (node_records n) = true.
Proof. destruct n as [[id ls] ps]. cbn. apply data_setnode. Qed.
Lemma data_edge_records e : forallb is_data (edge_records e) = true.
Proof. destruct e as [[[[id src] dst] ty] ps]. cbn. apply data_setedge. Qed.
Lemma data_save_records s : forallb is_data (save_records s) = true.
Proof.
  unfold save_records. rewrite forallb_app. apply andb_true_intro. split.
  - induction (sn_nodes (snapshot_of s)) as [|n l IH]; [reflexivity|]. cbn [flat_map]. rewrite forallb_app, data_node_records, IH. reflexivity.
  - induction (sn_edges (snapshot_of s)) as [|n l IH]; [reflexivity|]. cbn [flat_map]. rewrite forallb_app, data_edge_records, IH. reflexivity.
Qed.

Section SaveProofs.
  Variable crc : bytes -> Z.
  Variable enc : record -> bytes.
  Variable dec : bytes -> option record.
  Hypothesis crc_range : forall p, 0 <= crc p < two32.
  Notation ok := (rec_ok enc dec).

  (** the state [save] leaves just before it closes the target *)
  Definition save_state (cfg : wcfg) (s : store) : dbstate :=
    mkDb (build (snapshot_of s)) (db_tm db_fresh) (wlog_all crc enc cfg (db_w db_fresh) (save_records s)).

  (** T save_open: unless the target's log rotates while it is written, opening the saved
      directory yields exactly the store [to_memory] builds *)
  Lemma save_open_l cfg s :
    w_seq (db_w (db_close crc enc cfg (save_state cfg s))) = 0 ->
    Forall ok (save_records s ++ close_logs (save_state cfg s)) ->
    save_open crc enc dec cfg s = ROk (to_memory s).
  Proof.
    intros Hseq Hok. apply Forall_app in Hok as [Hok1 Hok2]. unfold save_open, save_disk. fold (save_state cfg s).
    destruct (inv_fresh crc enc dec) as [I0 _].
    assert (H1 : w_seq (db_w (save_state cfg s)) = 0).
    { unfold db_close in Hseq. destruct (last_or_begin _) as [tx t1]. cbn [db_w] in Hseq.
      rewrite wsync_seq in Hseq.
      pose proof (wlog_cp_seq_mono crc enc cfg (wlog crc enc cfg (db_w (save_state cfg s)) (TxCommit tx)) tx (s_epoch (db_store (save_state cfg s)))).
      pose proof (wlog_seq_mono crc enc cfg (db_w (save_state cfg s)) (TxCommit tx)).
      pose proof (wlog_all_seq_mono crc enc cfg (save_records s) (db_w db_fresh)).
      unfold save_state in *. cbn [db_w] in *. change (w_seq (db_w db_fresh)) with 0 in *. lia. }
    destruct I0 as (S0 & M0 & E0 & OK0).
    destruct (wlog_all_single crc enc cfg (save_records s) (db_w db_fresh) [] S0 H1) as [S1 M1].
    assert (I1 : Inv crc enc dec (save_state cfg s) ([] ++ save_records s)).
    { apply (inv_log_data crc enc dec db_fresh [] (save_records s) (save_state cfg s)).
      - repeat split; assumption.
      - apply data_save_records.
      - exact Hok1.
      - exact S1.
      - unfold save_state. cbn [db_w]. rewrite M1. exact M0.
      - unfold save_state. cbn [db_store]. symmetry. apply save_records_build. }
    assert (Hs : w_seq (db_w (db_close crc enc cfg (save_state cfg s))) = w_seq (db_w (save_state cfg s))) by (rewrite Hseq, H1; reflexivity).
    destruct (close_reopen_inv crc enc dec crc_range cfg _ _ I1 Hs Hok2) as (st2 & log2 & DO & ST & _).
    unfold end_disk in DO. rewrite DO, ST. reflexivity.
  Qed.
End SaveProofs.
