(** C05/C06 — proofs about recovery (Wal/Recover.v): the commit-marker machine, totality,
    "committed only", crash images of the last file. *)
From GV Require Import Wal.Frame Wal.Disk Wal.Recover Wal.ProofsFrame.
From Coq Require Import Lia ZArith List Bool.
Import ListNotations.
Open Scope Z_scope.

(** * The commit-marker machine *)
Lemma sm_run_app st a b : sm_run st (a ++ b) = sm_run (sm_run st a) b.
Proof. unfold sm_run. apply fold_left_app. Qed.
Lemma sm_run_snoc st a x : sm_run st (a ++ [x]) = sm_step (sm_run st a) x.
Proof. rewrite sm_run_app. reflexivity. Qed.

(** the committed list only grows *)
Lemma sm_step_grows st x : exists t, snd (sm_step st x) = snd st ++ t.
Proof.
  destruct st as [p c]. destruct x; cbn; try (exists []; now rewrite app_nil_r); eauto.
Qed.
Lemma sm_run_grows rs : forall st, exists t, snd (sm_run st rs) = snd st ++ t.
Proof.
  induction rs as [|x rs IH]; intros st; cbn.
  - exists []. now rewrite app_nil_r.
  - destruct (IH (sm_step st x)) as [t Ht]. destruct (sm_step_grows st x) as [u Hu].
    exists (u ++ t). unfold sm_run in Ht. rewrite Ht, Hu, app_assoc. reflexivity.
Qed.
(** what a prefix of the record sequence commits is a prefix of what the whole sequence commits *)
Lemma sm_prefix a b st : exists t, snd (sm_run st (a ++ b)) = snd (sm_run st a) ++ t.
Proof. rewrite sm_run_app. apply sm_run_grows. Qed.

(** pending records are data records *)
Lemma sm_step_pending_data st x :
  forallb is_data (fst st) = true -> forallb is_data (fst (sm_step st x)) = true.
Proof.
  destruct st as [p c]. intros H. destruct x; cbn in *; try reflexivity;
    rewrite forallb_app, H; reflexivity.
Qed.
Lemma sm_run_pending_data rs : forall st,
  forallb is_data (fst st) = true -> forallb is_data (fst (sm_run st rs)) = true.
Proof. induction rs as [|x rs IH]; intros st H; cbn; [exact H|]. apply IH, sm_step_pending_data, H. Qed.

Definition datas (rs : list record) : list record := filter is_data rs.
Lemma datas_app a b : datas (a ++ b) = datas a ++ datas b.
Proof. apply filter_app. Qed.
Lemma datas_all p : forallb is_data p = true -> datas p = p.
Proof.
  unfold datas. induction p as [|x p IH]; cbn [filter forallb]; intros H; [reflexivity|].
  apply andb_prop in H as [Hx Hp]. rewrite Hx, (IH Hp). reflexivity.
Qed.

(** [lossless]: no clearing marker ([TxAbort]/[Checkpoint]) meets pending records *)
Fixpoint lossless (st : smstate) (rs : list record) : bool :=
  match rs with
  | [] => true
  | x :: r => (if is_clear x then match fst st with [] => true | _ => false end else true)
              && lossless (sm_step st x) r
  end.

(** conservation of data records under [lossless] *)
Lemma sm_conserve rs : forall st,
  forallb is_data (fst st) = true -> lossless st rs = true ->
  datas (snd (sm_run st rs)) ++ fst (sm_run st rs) = datas (snd st) ++ fst st ++ datas rs.
Proof.
  induction rs as [|x rs IH]; intros [p c] Hp Hl.
  - cbn. now rewrite app_nil_r.
  - cbn [lossless] in Hl. apply andb_prop in Hl as [H1 H2].
    cbn [sm_run fold_left]. change (fold_left sm_step rs (sm_step (p, c) x)) with (sm_run (sm_step (p, c) x) rs).
    rewrite IH; [| apply sm_step_pending_data; exact Hp | exact H2].
    cbn [fst snd] in *. unfold datas at 4. cbn [filter].
    destruct x; cbn [sm_step fst snd is_data is_clear] in *; fold (datas rs).
    1-8: rewrite <- !app_assoc; reflexivity.
    + rewrite !datas_app, (datas_all p Hp). cbn. rewrite <- !app_assoc. reflexivity.
    + destruct p; [|discriminate]. reflexivity.
    + destruct p; [|discriminate]. rewrite datas_app. cbn. rewrite <- !app_assoc. reflexivity.
Qed.

(** T recover_committed_only (machine level): a data record is returned only if it was
    followed by a [TxCommit] with no [TxAbort]/[Checkpoint] in between *)
Definition covered (rs : list record) (r : record) : Prop :=
  exists l1 l2 l3 t, rs = l1 ++ r :: l2 ++ TxCommit t :: l3 /\ forallb (fun x => negb (is_clear x)) l2 = true.
Definition waiting (rs : list record) (r : record) : Prop :=
  exists l1 l2, rs = l1 ++ r :: l2 /\ forallb (fun x => negb (is_clear x)) l2 = true.

Lemma covered_snoc rs r x : covered rs r -> covered (rs ++ [x]) r.
Proof.
  intros (l1 & l2 & l3 & t & E & H). exists l1, l2, (l3 ++ [x]), t. split; [|exact H].
  rewrite E, <- !app_assoc. cbn. rewrite <- app_assoc. reflexivity.
Qed.

Lemma sm_step_data p c x : is_data x = true -> sm_step (p, c) x = (p ++ [x], c).
Proof. destruct x; cbn; intros H; try reflexivity; discriminate. Qed.

Lemma sm_committed_only rs :
  (forall r, In r (snd (sm_run ([], []) rs)) -> is_data r = true -> covered rs r)
  /\ (forall r, In r (fst (sm_run ([], []) rs)) -> waiting rs r).
Proof.
  induction rs as [|x rs [IHc IHp]] using rev_ind.
  - unfold sm_run. cbn [fold_left fst snd]. split; intros r Hin; destruct Hin.
  - rewrite sm_run_snoc. destruct (sm_run ([], []) rs) as [p c] eqn:E. cbn [fst snd] in *.
    destruct (is_data x) eqn:Dx.
    + rewrite (sm_step_data p c x Dx). cbn [fst snd]. split.
      * intros r Hin Hd. apply covered_snoc, IHc; assumption.
      * intros r Hin. apply in_app_or in Hin as [Hin|[<-|[]]].
        -- destruct (IHp r Hin) as (l1 & l2 & E1 & H1). exists l1, (l2 ++ [x]). split.
           ++ rewrite E1, <- app_assoc. reflexivity.
           ++ rewrite forallb_app, H1. cbn. destruct x; try discriminate; reflexivity.
        -- exists rs, []. split; reflexivity.
    + destruct x; try discriminate; cbn [sm_step fst snd].
      * (* TxCommit *) split; [|intros r Hin; destruct Hin].
        intros r Hin Hd. apply in_app_or in Hin as [Hin|Hin]; [apply covered_snoc, IHc; assumption|].
        apply in_app_or in Hin as [Hin|[<-|[]]]; [|discriminate].
        destruct (IHp r Hin) as (l1 & l2 & E1 & H1). exists l1, l2, [], tx. split; [|exact H1].
        rewrite E1, <- app_assoc. reflexivity.
      * (* TxAbort *) split; [|intros r Hin; destruct Hin]. intros r Hin Hd. apply covered_snoc, IHc; assumption.
      * (* Checkpoint *) split; [|intros r Hin; destruct Hin].
        intros r Hin Hd. apply in_app_or in Hin as [Hin|[<-|[]]]; [|discriminate].
        apply covered_snoc, IHc; assumption.
Qed.

Section RecoverProofs.
  Variable crc : bytes -> Z.
  Variable enc : record -> bytes.
  Variable dec : bytes -> option record.

  Notation recover := (recover crc dec).
  Notation replay_files := (replay_files crc dec).
  Notation disk_records := (disk_records crc dec).
  Notation file_records := (file_records crc dec).

  (** the state is carried across files: recovery runs the machine over the concatenation *)
  Lemma replay_concat minseq fs : forall st,
    replay_files minseq fs st = sm_run st (disk_records minseq fs).
  Proof.
    induction fs as [|[s f] fs IH]; intros st; cbn [Recover.replay_files Recover.disk_records]; [reflexivity|].
    destruct (s <? minseq); [apply IH|]. rewrite IH, sm_run_app. reflexivity.
  Qed.

  Lemma recover_spec d :
    d_meta d <> MetaBad ->
    recover d = ROk (snd (sm_run ([], []) (disk_records (min_seq (d_meta d)) (d_files d)))).
  Proof.
    intros H. unfold Recover.recover.
    destruct (d_meta d); rewrite ?replay_concat; try reflexivity. exfalso; apply H; reflexivity.
  Qed.

  (** T recover_total: on every directory whose metadata file is absent or decodable — any
      bytes in any log file — recovery returns [Ok] *)
  Lemma recover_total_l d : d_meta d <> MetaBad -> exists rs, recover d = ROk rs.
  Proof. intros H. rewrite recover_spec by exact H. eauto. Qed.

  (** T recover_committed_only *)
  Lemma recover_committed_only_l d rs r :
    recover d = ROk rs -> In r rs -> is_data r = true ->
    covered (disk_records (min_seq (d_meta d)) (d_files d)) r.
  Proof.
    intros H Hin Hd. destruct (d_meta d) eqn:E.
    - rewrite recover_spec in H by (rewrite E; discriminate). injection H as <-.
      rewrite E in Hin. apply (proj1 (sm_committed_only _)); assumption.
    - rewrite recover_spec in H by (rewrite E; discriminate). injection H as <-.
      rewrite E in Hin. apply (proj1 (sm_committed_only _)); assumption.
    - unfold Recover.recover in H. rewrite E in H. discriminate.
  Qed.

  (** the temp file plays no role *)
  Lemma recover_ignores_tmp fs m t1 t2 : recover (mkDisk fs m t1) = recover (mkDisk fs m t2).
  Proof. reflexivity. Qed.

  (** * Files written by the writer: whole frames of encoded records *)
  Hypothesis crc_range : forall p, 0 <= crc p < two32.
  Notation ok := (rec_ok enc dec).

  Definition frames (rs : list record) : bytes := concat (map (frame crc) (map enc rs)).

  Lemma decodes_enc rs : Forall ok rs -> decodes record dec (map enc rs) rs.
  Proof. induction 1 as [|r rs [H _] _ IH]; constructor; auto. Qed.
  Lemma short_enc rs : Forall ok rs -> short (map enc rs).
  Proof. induction 1 as [|r rs [_ [H _]] _ IH]; constructor; auto. Qed.

  Lemma parse_frames_enc rs : Forall ok rs -> parse crc record dec (frames rs) = (rs, Eof).
  Proof. intros H. apply parse_frames_l; auto using decodes_enc, short_enc. Qed.

  Lemma file_records_frames f rs : Forall ok rs -> f_bytes f = frames rs -> file_records f = rs.
  Proof. intros Hok H. unfold Recover.file_records. rewrite H, parse_frames_enc by exact Hok. reflexivity. Qed.

  Lemma file_records_cut f rs n :
    Forall ok rs -> f_bytes f = frames rs ->
    file_records (cut_file n f) = firstn (frames_within n (map enc rs)) rs.
  Proof.
    intros Hok H. unfold Recover.file_records, cut_file. cbn [f_bytes]. rewrite H. unfold frames.
    rewrite (parse_truncated_l crc record dec crc_range (map enc rs) rs n); auto using decodes_enc, short_enc.
  Qed.

  (** * [intact_prefix_len] on files of whole frames: nothing is cut *)
  Lemma intact_step p rest f :
    lenZ p < two32 ->
    intact_len_fuel crc (S f) (frame crc p ++ rest) = (8 + length p + intact_len_fuel crc f rest)%nat.
  Proof.
    intros Hl. unfold frame. rewrite <- !app_assoc. cbn [intact_len_fuel].
    assert (E1 : (length (le32 (lenZ p) ++ p ++ le32 (crc p) ++ rest) <? 4)%nat = false).
    { apply Nat.ltb_ge. rewrite app_length, le32_length. lia. }
    rewrite E1, firstn4_le32, skipn4_le32.
    rewrite (u32_le32 (lenZ p)) by (pose proof (lenZ_nonneg p); lia).
    assert (E2 : (lenZ (p ++ le32 (crc p) ++ rest) <? lenZ p + 4) = false).
    { apply Z.ltb_ge. rewrite !lenZ_app. assert (L4 : lenZ (le32 (crc p)) = 4) by (unfold lenZ; rewrite le32_length; reflexivity).
      rewrite L4. pose proof (lenZ_nonneg rest). lia. }
    rewrite E2. assert (EN : Z.to_nat (lenZ p) = length p) by (unfold lenZ; apply Nat2Z.id).
    rewrite !EN, firstn_app_exact, skipn_app_exact, firstn4_le32, skipn4_le32.
    rewrite u32_le32 by apply crc_range. rewrite Z.eqb_refl. reflexivity.
  Qed.
  Lemma intact_frames_fuel ps : forall fuel,
    short ps -> (length (concat (map (frame crc) ps)) < fuel)%nat ->
    intact_len_fuel crc fuel (concat (map (frame crc) ps)) = length (concat (map (frame crc) ps)).
  Proof.
    induction ps as [|p ps IH]; intros fuel Hs Hf.
    - destruct fuel; reflexivity.
    - inversion Hs as [|? ? Hp Hs']; subst. cbn [map concat] in *. rewrite app_length, frame_length in *.
      destruct fuel as [|fuel]; [lia|]. rewrite (intact_step p _ fuel Hp), IH by (assumption || lia). lia.
  Qed.
  Lemma cut_torn_frames f rs : Forall ok rs -> f_bytes f = frames rs -> cut_torn crc f = f.
  Proof.
    intros Hok Hb. unfold cut_torn, intact_len. rewrite Hb. unfold frames.
    rewrite intact_frames_fuel by (auto using short_enc).
    rewrite Nat.ltb_irrefl. reflexivity.
  Qed.

  Lemma disk_records_app minseq a b : disk_records minseq (a ++ b) = disk_records minseq a ++ disk_records minseq b.
  Proof.
    induction a as [|[s f] a IH]; cbn [app Recover.disk_records]; [reflexivity|]. destruct (s <? minseq); rewrite IH; [reflexivity|].
    now rewrite app_assoc.
  Qed.

  (** T crash_prefix_tail: only the last file is cut.  The image is read as the records of
      the earlier files followed by exactly the records of the last file whose frames lie
      wholly inside the cut, and what it commits is a prefix of what the uncut directory commits *)
  Lemma crash_prefix_tail_l fs0 s f rs_f n meta tmp :
    meta <> MetaBad -> Forall ok rs_f -> f_bytes f = frames rs_f ->
    let k := frames_within n (map enc rs_f) in
    let before := disk_records (min_seq meta) fs0 in
    let keep (l : list record) := if s <? min_seq meta then [] else l in
    recover (mkDisk (fs0 ++ [(s, cut_file n f)]) meta tmp) = ROk (snd (sm_run ([], []) (before ++ keep (firstn k rs_f))))
    /\ recover (mkDisk (fs0 ++ [(s, f)]) meta tmp) = ROk (snd (sm_run ([], []) (before ++ keep rs_f)))
    /\ exists tail, snd (sm_run ([], []) (before ++ keep rs_f))
                    = snd (sm_run ([], []) (before ++ keep (firstn k rs_f))) ++ tail.
  Proof.
    intros Hm Hok Hf k before keep.
    repeat split.
    - rewrite recover_spec by exact Hm. cbn [d_meta d_files]. rewrite disk_records_app. cbn [Recover.disk_records].
      unfold keep. destruct (s <? min_seq meta); [reflexivity|].
      rewrite (file_records_cut f rs_f n Hok Hf), app_nil_r. reflexivity.
    - rewrite recover_spec by exact Hm. cbn [d_meta d_files]. rewrite disk_records_app. cbn [Recover.disk_records].
      unfold keep. destruct (s <? min_seq meta); [reflexivity|].
      rewrite (file_records_frames f rs_f Hok Hf), app_nil_r. reflexivity.
    - unfold keep. destruct (s <? min_seq meta).
      + exists []. rewrite !app_nil_r. reflexivity.
      + replace (before ++ rs_f) with ((before ++ firstn k rs_f) ++ skipn k rs_f)
          by (rewrite <- app_assoc, firstn_skipn; reflexivity).
        apply sm_prefix.
  Qed.

  (** everything the fsynced part of the last file commits survives every such crash *)
  Lemma synced_commits_survive_l fs0 s f rs_f n meta tmp :
    meta <> MetaBad -> Forall ok rs_f -> f_bytes f = frames rs_f -> (Z.to_nat (f_synced f) <= n)%nat ->
    s <? min_seq meta = false ->
    let ks := frames_within (Z.to_nat (f_synced f)) (map enc rs_f) in
    let before := disk_records (min_seq meta) fs0 in
    exists rs tail,
      recover (mkDisk (fs0 ++ [(s, cut_file n f)]) meta tmp) = ROk rs
      /\ rs = snd (sm_run ([], []) (before ++ firstn ks rs_f)) ++ tail.
  Proof.
    intros Hm Hok Hf Hn Hs ks before.
    destruct (crash_prefix_tail_l fs0 s f rs_f n meta tmp Hm Hok Hf) as (H1 & _ & _).
    rewrite Hs in H1. eexists.
    set (k := frames_within n (map enc rs_f)) in *.
    assert (Hk : (ks <= k)%nat) by (apply frames_within_mono; exact Hn).
    assert (E : firstn k rs_f = firstn ks rs_f ++ skipn ks (firstn k rs_f)).
    { rewrite <- (firstn_skipn ks (firstn k rs_f)) at 1. rewrite firstn_firstn.
      replace (Nat.min ks k) with ks by lia. reflexivity. }
    destruct (sm_prefix (before ++ firstn ks rs_f) (skipn ks (firstn k rs_f)) ([], [])) as [tail Ht].
    exists tail. split; [exact H1|]. fold before. fold k. rewrite E, app_assoc. exact Ht.
  Qed.
End RecoverProofs.
