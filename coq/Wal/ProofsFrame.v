(** C06 — proofs about the record framing (Wal/Frame.v). *)
From GV Require Import Wal.Frame.
From Coq Require Import Lia ZArith List Bool.
Import ListNotations.
Open Scope Z_scope.

Lemma le32_length z : length (le32 z) = 4%nat.
Proof. reflexivity. Qed.

Lemma two32_val : two32 = 4294967296.
Proof. reflexivity. Qed.

Lemma u32_le32 z : 0 <= z < two32 -> u32_of (le32 z) = z.
Proof.
  rewrite two32_val. intros H. unfold u32_of, le32. cbn [le_bytes of_le_bytes].
  Z.div_mod_to_equations. lia.
Qed.

Lemma firstn_app_exact {A} (a b : list A) : firstn (length a) (a ++ b) = a.
Proof. induction a as [|x a IH]; cbn; [destruct b; reflexivity | now rewrite IH]. Qed.
Lemma skipn_app_exact {A} (a b : list A) : skipn (length a) (a ++ b) = b.
Proof. induction a as [|x a IH]; cbn; [reflexivity | exact IH]. Qed.
Lemma firstn4_le32 z rest : firstn 4 (le32 z ++ rest) = le32 z.
Proof. exact (firstn_app_exact (le32 z) rest). Qed.
Lemma skipn4_le32 z rest : skipn 4 (le32 z ++ rest) = rest.
Proof. exact (skipn_app_exact (le32 z) rest). Qed.

Lemma lenZ_app {A} (a b : list A) : lenZ (a ++ b) = lenZ a + lenZ b.
Proof. unfold lenZ. rewrite app_length. lia. Qed.
Lemma lenZ_nonneg {A} (a : list A) : 0 <= lenZ a.
Proof. unfold lenZ. lia. Qed.

Lemma flip_bit_length bs i b : length (flip_bit bs i b) = length bs.
Proof. revert i. induction bs as [|x r IH]; intros [|j]; cbn; auto. Qed.

Section FrameProofs.
  Variable crc : bytes -> Z.
  Variable R : Type.
  Variable dec : bytes -> option R.
  Hypothesis crc_range : forall p, 0 <= crc p < two32.

  Notation frame := (frame crc).
  Notation read_record := (read_record crc R dec).
  Notation parse_fuel := (parse_fuel crc R dec).
  Notation parse := (parse crc R dec).

  Lemma frame_length p : length (frame p) = (length p + 8)%nat.
  Proof. unfold Frame.frame. rewrite !app_length, !le32_length. lia. Qed.

  (** what [read_record] does with a length field, a body of that length and four more bytes *)
  Lemma read_record_raw p cb rest :
    lenZ p < two32 -> length cb = 4%nat ->
    read_record (le32 (lenZ p) ++ p ++ cb ++ rest) =
      if negb (u32_of cb =? crc p) then RdErr BadCrc
      else match dec p with None => RdErr BadPayload | Some r => RdOk r rest end.
  Proof.
    intros Hl Hc. unfold Frame.read_record. cbv zeta.
    assert (E1 : (length (le32 (lenZ p) ++ p ++ cb ++ rest) <? 4)%nat = false).
    { apply Nat.ltb_ge. rewrite app_length, le32_length. lia. }
    rewrite E1, firstn4_le32, skipn4_le32.
    rewrite (u32_le32 (lenZ p)) by (pose proof (lenZ_nonneg p); lia).
    assert (E2 : (lenZ (p ++ cb ++ rest) <? lenZ p) = false).
    { apply Z.ltb_ge. rewrite lenZ_app. pose proof (lenZ_nonneg (cb ++ rest)). lia. }
    rewrite E2. assert (EN : Z.to_nat (lenZ p) = length p) by (unfold lenZ; apply Nat2Z.id).
    rewrite !EN, firstn_app_exact, skipn_app_exact.
    assert (E3 : (length (cb ++ rest) <? 4)%nat = false).
    { apply Nat.ltb_ge. rewrite app_length. lia. }
    rewrite E3.
    assert (F : firstn 4 (cb ++ rest) = cb) by (rewrite <- Hc; apply firstn_app_exact).
    assert (S : skipn 4 (cb ++ rest) = rest) by (rewrite <- Hc; apply skipn_app_exact).
    rewrite F, S. reflexivity.
  Qed.

  Lemma read_record_frame p r rest :
    lenZ p < two32 -> dec p = Some r -> read_record (frame p ++ rest) = RdOk r rest.
  Proof.
    intros Hl Hd. unfold Frame.frame. rewrite <- !app_assoc.
    rewrite read_record_raw by (auto using le32_length).
    rewrite u32_le32 by apply crc_range. rewrite Z.eqb_refl, Hd. reflexivity.
  Qed.

  (** a successful read consumes at least 8 bytes *)
  Opaque skipn.
  Lemma read_record_shrinks bs r rest :
    read_record bs = RdOk r rest -> (length rest + 8 <= length bs)%nat.
  Proof.
    unfold Frame.read_record.
    destruct (length bs <? 4)%nat eqn:E1; [discriminate|].
    destruct (lenZ (skipn 4 bs) <? u32_of (firstn 4 bs)) eqn:E2; [discriminate|].
    set (n := Z.to_nat (u32_of (firstn 4 bs))).
    destruct (length (skipn n (skipn 4 bs)) <? 4)%nat eqn:E3; [discriminate|].
    destruct (negb _); [discriminate|].
    destruct (dec _); [|discriminate].
    intros H. injection H as _ <-.
    apply Nat.ltb_ge in E1, E3. rewrite !skipn_length in *. lia.
  Qed.
  Transparent skipn.

  Lemma parse_fuel_enough f1 : forall f2 bs,
    (length bs < f1)%nat -> (length bs < f2)%nat -> parse_fuel f1 bs = parse_fuel f2 bs.
  Proof.
    induction f1 as [|f1 IH]; intros f2 bs H1 H2; [lia|].
    destruct f2 as [|f2]; [lia|]. cbn [Frame.parse_fuel].
    destruct (read_record bs) as [| s | r rest] eqn:E; try reflexivity.
    apply read_record_shrinks in E. rewrite (IH f2 rest) by lia. reflexivity.
  Qed.

  Lemma parse_step bs :
    parse bs = match read_record bs with
               | RdEof => ([], Eof)
               | RdErr s => ([], s)
               | RdOk r rest => let (rs, s) := parse rest in (r :: rs, s)
               end.
  Proof.
    unfold Frame.parse at 1. cbn [Frame.parse_fuel].
    destruct (read_record bs) as [| s | r rest] eqn:E; try reflexivity.
    apply read_record_shrinks in E. unfold Frame.parse.
    rewrite (parse_fuel_enough (length bs) (S (length rest)) rest) by lia. reflexivity.
  Qed.

  Lemma parse_frame_app p r rest :
    lenZ p < two32 -> dec p = Some r ->
    parse (frame p ++ rest) = let (rs, s) := parse rest in (r :: rs, s).
  Proof. intros Hl Hd. rewrite parse_step, (read_record_frame p r rest Hl Hd). reflexivity. Qed.

  Lemma parse_nil : parse [] = ([], Eof).
  Proof. reflexivity. Qed.

  Definition decodes (ps : list bytes) (rs : list R) : Prop := Forall2 (fun p r => dec p = Some r) ps rs.
  Definition short (ps : list bytes) : Prop := Forall (fun p => lenZ p < two32) ps.

  Lemma parse_frames_app ps rs rest :
    decodes ps rs -> short ps ->
    parse (concat (map frame ps) ++ rest) = let (rs', s) := parse rest in (rs ++ rs', s).
  Proof.
    intros Hd. revert rest. induction Hd as [|p r ps rs Hp Hd IH]; intros rest Hs.
    - change (concat (map frame []) ++ rest) with rest. destruct (parse rest); reflexivity.
    - inversion Hs as [|? ? Hp' Hs']; subst. cbn [map concat]. rewrite <- app_assoc.
      rewrite (parse_frame_app p r _ Hp' Hp). rewrite IH by assumption.
      destruct (parse rest). reflexivity.
  Qed.

  (** T parse_frames *)
  Lemma parse_frames_l ps rs :
    decodes ps rs -> short ps -> parse (concat (map frame ps)) = (rs, Eof).
  Proof.
    intros Hd Hs. rewrite <- (app_nil_r (concat _)). rewrite (parse_frames_app ps rs [] Hd Hs).
    rewrite parse_nil, app_nil_r. reflexivity.
  Qed.

  (** a strict prefix of one frame never yields a record *)
  Lemma read_record_torn p n :
    lenZ p < two32 -> (n < length p + 8)%nat ->
    read_record (firstn n (frame p)) =
      if (n <? 4)%nat then RdEof
      else if (n <? 4 + length p)%nat then RdErr ShortBody else RdErr ShortCrc.
  Proof.
    intros Hl Hn. unfold Frame.read_record.
    assert (Lf : length (firstn n (frame p)) = n).
    { rewrite firstn_length, frame_length. lia. }
    rewrite Lf. destruct (n <? 4)%nat eqn:E1; [reflexivity|]. apply Nat.ltb_ge in E1.
    assert (F4 : firstn 4 (firstn n (frame p)) = le32 (lenZ p)).
    { rewrite firstn_firstn. replace (Nat.min 4 n) with 4%nat by lia. apply firstn4_le32. }
    rewrite F4, u32_le32 by (pose proof (lenZ_nonneg p); lia).
    assert (S4 : skipn 4 (firstn n (frame p)) = firstn (n - 4) (p ++ le32 (crc p))).
    { unfold Frame.frame. rewrite firstn_app, le32_length.
      rewrite (firstn_all2 (le32 (lenZ p))) by (rewrite le32_length; lia).
      apply skipn4_le32. }
    rewrite S4.
    assert (L1 : length (firstn (n - 4) (p ++ le32 (crc p))) = (n - 4)%nat).
    { rewrite firstn_length, app_length, le32_length. lia. }
    unfold lenZ at 1. rewrite L1.
    destruct (n <? 4 + length p)%nat eqn:E2.
    - apply Nat.ltb_lt in E2.
      assert (E : (Z.of_nat (n - 4) <? lenZ p) = true) by (apply Z.ltb_lt; unfold lenZ; lia).
      rewrite E. reflexivity.
    - apply Nat.ltb_ge in E2.
      assert (E : (Z.of_nat (n - 4) <? lenZ p) = false) by (apply Z.ltb_ge; unfold lenZ; lia).
      rewrite E. unfold lenZ. rewrite Nat2Z.id.
      assert (L2 : length (skipn (length p) (firstn (n - 4) (p ++ le32 (crc p)))) = (n - 4 - length p)%nat).
      { rewrite skipn_length, L1. reflexivity. }
      rewrite L2.
      assert (E3 : (n - 4 - length p <? 4)%nat = true) by (apply Nat.ltb_lt; lia).
      rewrite E3. reflexivity.
  Qed.

  (** T parse_truncated: for every byte length [n] *)
  Lemma parse_truncated_l ps : forall rs n,
    decodes ps rs -> short ps ->
    parse (firstn n (concat (map frame ps))) = (firstn (frames_within n ps) rs, trunc_status n ps).
  Proof.
    induction ps as [|p ps IH]; intros rs n Hd Hs.
    - inversion Hd; subst. cbn. rewrite firstn_nil. destruct (frames_within n []); reflexivity.
    - inversion Hd as [|? r ? rs' Hp Hd']; subst. inversion Hs as [|? ? Hp' Hs']; subst.
      cbn [map concat frames_within trunc_status].
      rewrite firstn_app, frame_length.
      destruct (length p + 8 <=? n)%nat eqn:E.
      + apply Nat.leb_le in E.
        rewrite (firstn_all2 (frame p)) by (rewrite frame_length; lia).
        rewrite (parse_frame_app p r _ Hp' Hp).
        rewrite (IH rs' (n - (length p + 8))%nat) by assumption. reflexivity.
      + apply Nat.leb_gt in E.
        replace (n - (length p + 8))%nat with 0%nat by lia. rewrite firstn_O, app_nil_r.
        rewrite parse_step, read_record_torn by (assumption || lia).
        destruct (n <? 4)%nat; [reflexivity|]. destruct (n <? 4 + length p)%nat; reflexivity.
  Qed.

  Lemma frames_within_le n ps : (frames_within n ps <= length ps)%nat.
  Proof. revert n. induction ps as [|p ps IH]; intros n; cbn; [lia|]. destruct (_ <=? _)%nat; [specialize (IH (n - (length p + 8))%nat)|]; lia. Qed.

  Lemma frames_within_mono ps : forall n m, (n <= m)%nat -> (frames_within n ps <= frames_within m ps)%nat.
  Proof.
    induction ps as [|p ps IH]; intros n m H; cbn; [lia|].
    destruct (length p + 8 <=? n)%nat eqn:E1; destruct (length p + 8 <=? m)%nat eqn:E2; try lia.
    - apply le_n_S, IH. lia.
    - apply Nat.leb_le in E1. apply Nat.leb_gt in E2. lia.
  Qed.

  (** T bad_crc_never_applied *)
  Lemma bad_crc_l ps rs p cb rest :
    decodes ps rs -> short ps -> lenZ p < two32 -> length cb = 4%nat -> u32_of cb <> crc p ->
    parse (concat (map frame ps) ++ le32 (lenZ p) ++ p ++ cb ++ rest) = (rs, BadCrc).
  Proof.
    intros Hd Hs Hl Hc Hne. rewrite (parse_frames_app ps rs _ Hd Hs).
    rewrite parse_step, read_record_raw by assumption.
    assert (E : (u32_of cb =? crc p) = false) by (apply Z.eqb_neq; exact Hne).
    rewrite E. cbn. rewrite app_nil_r. reflexivity.
  Qed.

  (** the premise that stands for CRC-32's detection of single-bit errors *)
  Definition crc_detects_1bit : Prop :=
    forall p i b, 0 <= b < 8 -> (i < length p + 4)%nat ->
      let q := flip_bit (p ++ le32 (crc p)) i b in
      u32_of (skipn (length p) q) <> crc (firstn (length p) q).

  (** every single-bit flip inside the body or the checksum field of a record ends the parse before it *)
  Lemma bitflip_l ps rs p rest i b :
    crc_detects_1bit ->
    decodes ps rs -> short ps -> lenZ p < two32 -> 0 <= b < 8 -> (i < length p + 4)%nat ->
    parse (concat (map frame ps) ++ le32 (lenZ p) ++ flip_bit (p ++ le32 (crc p)) i b ++ rest) = (rs, BadCrc).
  Proof.
    intros H1 Hd Hs Hl Hb Hi.
    set (q := flip_bit (p ++ le32 (crc p)) i b).
    assert (Lq : length q = (length p + 4)%nat).
    { unfold q. rewrite flip_bit_length, app_length, le32_length. reflexivity. }
    set (p' := firstn (length p) q). set (cb := skipn (length p) q).
    assert (Eq : q = p' ++ cb) by (unfold p', cb; symmetry; apply firstn_skipn).
    assert (Lp : length p' = length p) by (unfold p'; rewrite firstn_length; lia).
    assert (Lc : length cb = 4%nat) by (unfold cb; rewrite skipn_length; lia).
    rewrite Eq, <- app_assoc.
    replace (lenZ p) with (lenZ p') by (unfold lenZ; now rewrite Lp).
    apply bad_crc_l; try assumption.
    - unfold lenZ in *. rewrite Lp. exact Hl.
    - unfold cb, p'. apply H1; assumption.
  Qed.

  (** a file that consists of whole frames is [clean_file] and appending frames to it is safe *)
  Lemma parsed_len_fuel_enough f1 : forall f2 bs,
    (length bs < f1)%nat -> (length bs < f2)%nat ->
    parsed_len_fuel crc R dec f1 bs = parsed_len_fuel crc R dec f2 bs.
  Proof.
    induction f1 as [|f1 IH]; intros f2 bs H1 H2; [lia|].
    destruct f2 as [|f2]; [lia|]. cbn [Frame.parsed_len_fuel].
    destruct (read_record bs) as [| s | r rest] eqn:E; try reflexivity.
    apply read_record_shrinks in E. rewrite (IH f2 rest) by lia. reflexivity.
  Qed.
  Lemma parsed_len_frames ps rs :
    decodes ps rs -> short ps ->
    parsed_len crc R dec (concat (map frame ps)) = length (concat (map frame ps)).
  Proof.
    intros Hd. induction Hd as [|p r ps rs Hp Hd IH]; intros Hs; [reflexivity|].
    inversion Hs as [|? ? Hp' Hs']; subst. cbn [map concat].
    unfold parsed_len. cbn [Frame.parsed_len_fuel]. rewrite (read_record_frame p r _ Hp' Hp).
    rewrite app_length.
    rewrite (parsed_len_fuel_enough _ (S (length (concat (map frame ps))))) by (rewrite ?app_length, ?frame_length; lia).
    fold (parsed_len crc R dec (concat (map frame ps))). rewrite IH by assumption. lia.
  Qed.
End FrameProofs.
