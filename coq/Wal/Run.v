(** C05/C06/C07 — what the generated case files import: the comparison functions of Wal/Cmp.v
    plus the unpacking of byte-string literals. *)
From GV Require Export Wal.Cmp.
From Coq Require Export Uint63.
Open Scope Z_scope.

(** byte strings arrive packed, seven bytes per 63-bit literal (little endian): a plain
    [list Z] literal costs the elaborator ~0.6 ms per byte *)
Definition pk_byte (x : int) (j : int) : Z := Uint63.to_Z (Uint63.land (Uint63.lsr x (8 * j)) 255).
Definition pk_word (n : nat) (x : int) : list Z :=
  firstn n [pk_byte x 0; pk_byte x 1; pk_byte x 2; pk_byte x 3; pk_byte x 4; pk_byte x 5; pk_byte x 6]%uint63.
Fixpoint pk_go (len : nat) (l : list int) : list Z :=
  match l with
  | [] => []
  | x :: r => pk_word len x ++ pk_go (len - 7) r
  end.
Definition pk (len : Z) (l : list int) : list Z := pk_go (Z.to_nat len) l.
Arguments pk len%Z l%uint63.

