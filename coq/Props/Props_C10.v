(** C10 — indexes, pruning, caching and execution strategy change speed, not answers: the property
    theorems (statements only; proofs in Query/ProofsPhys.v, ProofsPhysR.v, ProofsPhysC.v).
    Pinned by props/C10.statements. *)
From Coq Require Export ZArith List Bool String Permutation.
From GV Require Export Query.PatSpec Query.RunPat.
From GV Require Export Query.ProofsPhys Query.ProofsPhysR Query.ProofsPhysC Query.ProofsEnd.
Open Scope Z_scope.

Theorem physical_off_is_logical : forall st p, run opts_off st p = sem_ops st p.
Proof. exact run_off_sem_ops. Qed.
Print Assumptions physical_off_is_logical.

Theorem logical_ignores_indexes : forall st st' p,
  nodes st = nodes st' -> edges st = edges st' -> sem_ops st p = sem_ops st' p.
Proof. exact sem_ops_graph_only. Qed.
Print Assumptions logical_ignores_indexes.

Theorem zone_prune_sound : forall st e cs r,
  zone_ok st -> lits_ok e = true -> zone_check st e = Some false ->
  (forall x c, List.In x (expr_props e) -> row_look cs r x = Some c -> reads_node st c) ->
  passes_row st cs r e = false.
Proof. exact ProofsPhys.zone_prune_sound. Qed.
Print Assumptions zone_prune_sound.

Theorem index_path : forall st x label e t,
  store_ok st -> vals_ok st -> lits_ok e = true ->
  (forall c, List.In c (collect_eq x e) -> num_mix st (fst c) (snd c) = false) ->
  try_index st (idx_of st) e (LScan x label) = Some t ->
  t = filter_tbl (fun r => passes_row st (x :: nil) r e) (mkT (x :: nil) (scan_rows st label)).
Proof. exact index_path_eq. Qed.
Print Assumptions index_path.

Theorem index_path_pre : forall st x label e t,
  store_ok st -> vals_ok st -> lits_ok e = true -> only_eq_conds x e = true ->
  (forall c, List.In c (collect_eq x e) -> num_mix st (fst c) (snd c) = false) ->
  try_index_pre st (idx_of st) e (LScan x label) = Some t ->
  t = filter_tbl (fun r => passes_row st (x :: nil) r e) (mkT (x :: nil) (scan_rows st label)).
Proof. exact index_path_pre_eq. Qed.
Print Assumptions index_path_pre.

Theorem range_path : forall st z x label e t,
  store_ok st -> vals_ok st -> zone_ok st -> lits_ok e = true ->
  (forall k vs, range_applies (LFilter e (LScan x label)) = Some (k, vs) ->
     forall v, List.In v vs -> num_mix st k v = false /\ is_bool v = false) ->
  try_range st z e (LScan x label) = Some t ->
  t = filter_tbl (fun r => passes_row st (x :: nil) r e) (mkT (x :: nil) (scan_rows st label)).
Proof. exact range_path_eq. Qed.
Print Assumptions range_path.

Theorem factorized_flat : forall st b steps t a rs,
  rows_wf b -> steps <> nil -> steps_path (cols b) None steps ->
  flat_steps st b steps = Ok t -> fact_chain st b steps = Ok (a, rs) ->
  (a = List.length steps \/ rows b = nil) ->
  rs = rows t /\ chain_cols b steps = cols t.
Proof. exact fact_chain_flat. Qed.
Print Assumptions factorized_flat.

Theorem physical_paths_preserve_answers : forall o st p t,
  store_ok st -> vals_ok st -> zone_ok st -> filters_in_chain p = true -> plan_hygiene p ->
  plan_lits_ok p = true -> k_c10_any st p = false ->
  chain_only (plan_chain p) = true -> chain_tos_ok (plan_chain p) = true -> aggs_args_ok p ->
  sem_ops st p = Ok t -> run o st p = Ok t.
Proof. exact run_eq_sem_ops_l. Qed.
Print Assumptions physical_paths_preserve_answers.

Theorem paths_irrelevant : forall o o' st st' p t,
  nodes st = nodes st' -> edges st = edges st' -> phys_ok st p -> phys_ok st' p ->
  sem_ops st p = Ok t -> run o st p = Ok t /\ run o' st' p = Ok t.
Proof. exact paths_irrelevant_l. Qed.
Print Assumptions paths_irrelevant.

Theorem engine_plain_answer : forall o st q,
  store_ok st -> single_hops (q_pat q) = true -> single_labels (q_pat q) = true -> pat_fresh (q_pat q) = true ->
  no_type_case st (q_pat q) = true -> directed (q_pat q) = true ->
  plain_core q = true -> q_order q = nil ->
  phys_ok st (cypher_plan_of q) ->
  exists t, run o st (cypher_plan_of q) = Ok t /\ Ok (out_rows t) = answer st q.
Proof. exact engine_plain_answer_l. Qed.
Print Assumptions engine_plain_answer.

Theorem cache_transparent : forall (text : Type) (text_eqb : text -> text -> bool),
  (forall a b : text, text_eqb a b = true <-> a = b) ->
  forall (stats : Type) (compile : text -> stats -> option lop) (stats_of : store -> stats) (o : opts),
  compile_stable text stats compile o ->
  forall (h : list (event text)) (c : cache text) (st : store),
  cache_sound text text_eqb stats compile c ->
  fst (fst (replay text text_eqb stats compile stats_of o c st h)) = replay_fresh text stats compile stats_of o st h.
Proof. exact cache_transparent_l. Qed.
Print Assumptions cache_transparent.

Theorem zone_edge_pre_refuted : exists st e cs r,
  zone_check st e = Some false /\ passes_row st cs r e = true /\
  k_zone_edge w_zone_edge_st w_zone_edge_p = true /\
  run (opts_engine true) w_zone_edge_st w_zone_edge_p = sem_ops w_zone_edge_st w_zone_edge_p.
Proof. exact zone_edge_pre_refuted_l. Qed.
Print Assumptions zone_edge_pre_refuted.

Theorem zone_ne_pre_refuted : exists c v v',
  col_might_match_pre c ONe v = false /\ List.In v' (zhist c) /\ cmp_result ONe v' v = Some (VBool true) /\
  col_might_match c ONe v = true /\ run (opts_engine true) w_zone_ne_st w_zone_ne_p = sem_ops w_zone_ne_st w_zone_ne_p.
Proof. exact zone_ne_pre_refuted_l. Qed.
Print Assumptions zone_ne_pre_refuted.

Theorem index_residual_pre_refuted : exists st x label e t,
  try_index_pre st (idx_of st) e (LScan x label) = Some t /\
  t <> filter_tbl (fun r => passes_row st (x :: nil) r e) (mkT (x :: nil) (scan_rows st label)) /\
  k_index_residual w_index_residual_st w_index_residual_p = true.
Proof. exact index_residual_pre_refuted_l. Qed.
Print Assumptions index_residual_pre_refuted.

Theorem index_num_refuted : exists st p, k_index_num st p = true /\ run (opts_engine true) st p <> sem_ops st p.
Proof. exact index_num_refuted_l. Qed.
Print Assumptions index_num_refuted.

Theorem range_num_refuted : exists st p, k_range_num st p = true /\ run (opts_engine true) st p <> sem_ops st p.
Proof. exact range_num_refuted_l. Qed.
Print Assumptions range_num_refuted.

Theorem fact_missing_level_refuted : exists st p, k_fact_missing_level st p = true /\ run (opts_engine true) st p <> sem_ops st p.
Proof. exact fact_missing_level_refuted_l. Qed.
Print Assumptions fact_missing_level_refuted.

Theorem fact_type_case_pre_refuted : exists st n d ty,
  neighbors st false n d ty <> neighbors st true n d ty /\
  k_fact_type_case w_fact_type_case_st w_fact_type_case_p = true /\
  run (opts_engine true) w_fact_type_case_st w_fact_type_case_p = sem_ops w_fact_type_case_st w_fact_type_case_p.
Proof. exact fact_type_case_pre_refuted_l. Qed.
Print Assumptions fact_type_case_pre_refuted.

Theorem fact_not_path_refuted : exists st p, k_fact_not_path p = true /\ run (opts_engine true) st p <> sem_ops st p.
Proof. exact fact_not_path_refuted_l. Qed.
Print Assumptions fact_not_path_refuted.

Theorem fact_agg_distinct_pre_refuted : exists a inputs n,
  simple_count_pre a <> None /\ simple_count a = None /\ agg_value a inputs n <> Ok (VInt (Z.of_nat n)) /\
  k_fact_agg_distinct w_fact_agg_distinct_p = true /\
  run (opts_engine true) w_fact_agg_distinct_st w_fact_agg_distinct_p = sem_ops w_fact_agg_distinct_st w_fact_agg_distinct_p.
Proof. exact fact_agg_distinct_pre_refuted_l. Qed.
Print Assumptions fact_agg_distinct_pre_refuted.

(** non-vacuity: a store with a property index and a zone map, a two-hop plan with an equality
    filter on the scan — the index path and the factorized chain are both taken, every hypothesis of
    the main theorem holds, and rows come out *)
Import ListNotations.
Local Open Scope string_scope.
Definition nv_st : store := mkStore
  [mkNode 0 ["A"] [("x", VInt 1)]; mkNode 1 ["A"] [("x", VInt 1)]; mkNode 2 ["B"] [("x", VInt 2)]]
  [mkEdge 0 0 1 "R" []; mkEdge 1 1 2 "R" []; mkEdge 2 1 2 "S" []]
  ["x"] [("x", mkZcol [VInt 1; VInt 1; VInt 2] false)].
Definition nv_p : lop :=
  LReturn [(EVar "a", None); (EVar "c", None)] false
    (LExpand "b" "c" (Some "s") Out None 1 (Some 1%nat)
       (LExpand "a" "b" (Some "r") Out (Some "R") 1 (Some 1%nat)
          (LFilter (ECmp OEq (EProp "a" "x") (ELit (VInt 1))) (LScan "a" (Some "A"))))).
Example nv_phys_ok : phys_ok nv_st nv_p.
Proof.
  unfold phys_ok. repeat split; try reflexivity.
  - cbn. repeat constructor; cbn; intuition discriminate.
  - cbn. repeat constructor; cbn; intuition discriminate.
  - intros n k v Hn Hkv. cbn in Hn. destruct Hn as [<-|[<-|[<-|[]]]]; cbn in Hkv; destruct Hkv as [Hkv|[]]; inversion Hkv; reflexivity.
  - cbn in H. destruct (String.eqb k "x"); [|discriminate H]. inversion H; subst. repeat constructor.
  - intros n v Hn Hl. cbn in H. destruct (String.eqb k "x") eqn:E; [|discriminate H]. inversion H; subst. apply String.eqb_eq in E. subst k.
    cbn in Hn. destruct Hn as [<-|[<-|[<-|[]]]]; cbn in Hl; inversion Hl; subst; cbn; auto.
  - cbn. repeat constructor; cbn; intuition discriminate.
  - intros e i H. cbn in H. repeat (destruct H as [H|H]; [try discriminate H|]); try contradiction.
    inversion H; subst. cbn. intuition discriminate.
  - intros gb aggs i H. cbn in H. repeat (destruct H as [H|H]; [discriminate H|]). contradiction.
Qed.
Example nv_paths_taken :
  index_applies nv_st (LFilter (ECmp OEq (EProp "a" "x") (ELit (VInt 1))) (LScan "a" (Some "A"))) <> None /\
  fact_chains nv_p <> [] /\
  run (opts_engine true) nv_st nv_p = Ok (mkT ["a"; "c"] [[CNode 0; CNode 2]; [CNode 0; CNode 2]]).
Proof. vm_compute. repeat split; discriminate. Qed.

(** ... and the hypotheses of the composed theorem hold for a two-hop core query with WHERE on that store *)
Definition nv_q : query :=
  mkQ (mkPat (mkNP "a" ["A"]) [mkHop Out (Some "R") (Some "r") HOne (mkNP "b" []); mkHop Out None (Some "s") HOne (mkNP "c" [])])
      (Some (ECmp OEq (EProp "a" "x") (ELit (VInt 1)))) (RPlain [EVar "a"; EProp "c" "x"] false) [] None None.
Example nv_engine_answer :
  phys_ok nv_st (cypher_plan_of nv_q) /\ plain_core nv_q = true /\ pat_fresh (q_pat nv_q) = true /\
  answer nv_st nv_q = Ok [[VInt 0; VInt 2]; [VInt 0; VInt 2]].
Proof.
  split; [|vm_compute; repeat split].
  unfold phys_ok. repeat split; try reflexivity.
  - cbn. repeat constructor; cbn; intuition discriminate.
  - cbn. repeat constructor; cbn; intuition discriminate.
  - intros n k v Hn Hkv. cbn in Hn. destruct Hn as [<-|[<-|[<-|[]]]]; cbn in Hkv; destruct Hkv as [Hkv|[]]; inversion Hkv; reflexivity.
  - cbn in H. destruct (String.eqb k "x"); [|discriminate H]. inversion H; subst. repeat constructor.
  - intros n v Hn Hl. cbn in H. destruct (String.eqb k "x") eqn:E; [|discriminate H]. inversion H; subst. apply String.eqb_eq in E. subst k.
    cbn in Hn. destruct Hn as [<-|[<-|[<-|[]]]]; cbn in Hl; inversion Hl; subst; cbn; auto.
  - cbn. repeat constructor; cbn; intuition discriminate.
  - intros e i H. cbn in H. repeat (destruct H as [H|H]; [try discriminate H|]); try contradiction.
    inversion H; subst. cbn. intuition discriminate.
  - intros gb aggs i H. cbn in H. repeat (destruct H as [H|H]; [discriminate H|]). contradiction.
Qed.
