(** C08 — read queries return the answer the graph-pattern semantics defines: the property
    theorems (statements only; proofs in Query/ProofsPattern.v, Query/ProofsVle.v).
    Pinned by props/C08.statements. *)
From Coq Require Export ZArith List Bool String Permutation.
From GV Require Export Query.ChainSpec Query.RunPat.
From GV Require Export Query.ProofsVle Query.ProofsPattern.
Open Scope Z_scope.

Theorem chain_operational : forall st p, single_hops p = true -> pat_fresh p = true ->
  exists t, sem_ops st (chain_plan p) = Ok t /\ tbl_envs t = obindings st p.
Proof. exact chain_obindings. Qed.
Print Assumptions chain_operational.

Theorem chain_bindings_directed : forall st p,
  store_ok st -> single_hops p = true -> single_labels p = true -> pat_fresh p = true ->
  no_type_case st p = true -> directed p = true ->
  exists t, sem_ops st (chain_plan p) = Ok t /\ tbl_envs t = bindings st p.
Proof. exact chain_bindings_directed_l. Qed.
Print Assumptions chain_bindings_directed.

Theorem chain_bindings : forall st p,
  store_ok st -> single_hops p = true -> single_labels p = true -> pat_fresh p = true ->
  no_type_case st p = true -> no_both_selfloop st p = true ->
  exists t, sem_ops st (chain_plan p) = Ok t /\ Permutation (tbl_envs t) (bindings st p).
Proof. exact chain_bindings_l. Qed.
Print Assumptions chain_bindings.

Theorem var_length_walks : forall st ci d ty mn mx s,
  Permutation (vle_from st ci d ty mn mx s)
              (flat_map (fun k => nwalks st ci d ty k s) (seq mn (S mx - mn))).
Proof. exact vle_from_walks. Qed.
Print Assumptions var_length_walks.

Theorem filter_stack : forall t p1 p2,
  rows (filter_tbl p2 (filter_tbl p1 t)) = filter (fun r => p1 r && p2 r) (rows t).
Proof. exact filter_stack_l. Qed.
Print Assumptions filter_stack.

Theorem filter_stack_pre_refuted : exists (rows : list row) (p1 p2 : row -> bool),
  chunk_pre_rows (filter_chunk_pre p2 (filter_chunk_pre p1 (mkChunkPre rows None)))
  <> filter (fun r => p1 r && p2 r) rows.
Proof. exact filter_stack_pre_refuted_l. Qed.
Print Assumptions filter_stack_pre_refuted.

Theorem type_case_refuted : exists st q,
  k2_type_case st q = true /\ plan_rows st (gql_plan_of q) <> answer st q /\ plan_rows st (cypher_plan_of q) <> answer st q.
Proof. exact type_case_refuted_l. Qed.
Print Assumptions type_case_refuted.

Theorem both_selfloop_refuted : exists st q,
  k3_both_selfloop st q = true /\ plan_rows st (gql_plan_of q) <> answer st q /\ plan_rows st (cypher_plan_of q) <> answer st q.
Proof. exact both_selfloop_refuted_l. Qed.
Print Assumptions both_selfloop_refuted.

Theorem unbounded_refuted : exists st q,
  k1_unbounded q = true /\ plan_rows st (cypher_plan_of q) <> answer st q /\ plan_rows st w_k1_gql_plan <> answer st q.
Proof. exact unbounded_refuted_l. Qed.
Print Assumptions unbounded_refuted.

Theorem zero_hops_refuted : exists st q,
  k4_zero_hops q = true /\ plan_rows st (gql_plan_of q) <> answer st q /\ plan_rows st (cypher_plan_of q) <> answer st q.
Proof. exact zero_hops_refuted_l. Qed.
Print Assumptions zero_hops_refuted.

Theorem return_distinct_refuted : exists st q,
  k5_return_distinct q = true /\ plan_rows st (gql_plan_of q) <> answer st q /\ plan_rows st (cypher_plan_of q) <> answer st q.
Proof. exact return_distinct_refuted_l. Qed.
Print Assumptions return_distinct_refuted.

Theorem gql_limit_before_order_refuted : exists st q,
  k6_gql_limit_first LGql q = true /\ plan_rows st (gql_plan_of q) <> answer st q.
Proof. exact gql_limit_before_order_refuted_l. Qed.
Print Assumptions gql_limit_before_order_refuted.

Theorem multi_label_refuted : exists st q,
  k7_multi_label q = true /\ plan_rows st (gql_plan_of q) <> answer st q /\ plan_rows st (cypher_plan_of q) <> answer st q.
Proof. exact multi_label_refuted_l. Qed.
Print Assumptions multi_label_refuted.

Theorem cypher_order_above_return_refuted : exists st q,
  k9_cypher_order_cols LCypher q = true /\ plan_rows st (cypher_plan_of q) <> answer st q /\ plan_rows st (gql_plan_of q) = answer st q.
Proof. exact cypher_order_above_return_refuted_l. Qed.
Print Assumptions cypher_order_above_return_refuted.

Theorem edge_prop_after_sort_refuted : exists st q,
  k10_edge_prop_materialised q = true /\ plan_rows st (gql_plan_of q) <> answer st q.
Proof. exact edge_prop_after_sort_refuted_l. Qed.
Print Assumptions edge_prop_after_sort_refuted.

Theorem cypher_count_refuted : exists st q,
  k12_cypher_count LCypher q = true /\ plan_rows st w_k12_cypher_plan <> answer st q /\ plan_rows st (gql_plan_of q) = answer st q.
Proof. exact cypher_count_refuted_l. Qed.
Print Assumptions cypher_count_refuted.

Theorem typed_result_refuted : exists st q,
  k13_typed_result st q = true /\ plan_rows st (gql_plan_of q) <> answer st q /\ plan_rows st (cypher_plan_of q) <> answer st q.
Proof. exact typed_result_refuted_l. Qed.
Print Assumptions typed_result_refuted.
