(** C08 — read queries return the answer the graph-pattern semantics defines: the property
    theorems (statements only; proofs in Query/ProofsPattern.v, Query/ProofsVle.v).
    Pinned by props/C08.statements. *)
From Coq Require Export ZArith List Bool String Permutation.
From GV Require Export Query.ChainSpec Query.RunPat.
From GV Require Export Query.ProofsVle Query.ProofsPattern Query.ProofsChainVar Query.ProofsOrderBy.
Open Scope Z_scope.

Theorem chain_operational : forall st p, single_hops p = true -> pat_fresh p = true ->
  exists t, sem_ops st (chain_plan p) = Ok t /\ tbl_envs t = obindings st p.
Proof. exact chain_obindings. Qed.
Print Assumptions chain_operational.

Theorem chain_bindings_directed : forall st p,
  store_ok st -> single_hops p = true -> single_labels p = true -> pat_fresh p = true ->
  no_type_case st p = true -> directed p = true ->
  exists t, sem_ops st (chain_plan p) = Ok t /\ tbl_envs t = bindings st p.
Proof. exact chain_bindings_directed_l. Qed.
Print Assumptions chain_bindings_directed.

Theorem chain_bindings : forall st p,
  store_ok st -> single_hops p = true -> single_labels p = true -> pat_fresh p = true ->
  no_type_case st p = true -> no_both_selfloop st p = true ->
  exists t, sem_ops st (chain_plan p) = Ok t /\ Permutation (tbl_envs t) (bindings st p).
Proof. exact chain_bindings_l. Qed.
Print Assumptions chain_bindings.

Theorem plain_answer_directed : forall st q,
  store_ok st -> single_hops (q_pat q) = true -> single_labels (q_pat q) = true -> pat_fresh (q_pat q) = true ->
  no_type_case st (q_pat q) = true -> directed (q_pat q) = true ->
  plain_core q = true -> q_order q = nil ->
  plan_rows st (cypher_plan_of q) = answer st q.
Proof. exact plain_answer_directed_l. Qed.
Print Assumptions plain_answer_directed.

Theorem plain_answer_bag : forall st q,
  store_ok st -> single_hops (q_pat q) = true -> single_labels (q_pat q) = true -> pat_fresh (q_pat q) = true ->
  no_type_case st (q_pat q) = true -> no_both_selfloop st (q_pat q) = true ->
  plain_core q = true -> q_order q = nil -> q_skip q = None -> q_limit q = None ->
  exists rs rs', plan_rows st (cypher_plan_of q) = Ok rs /\ answer st q = Ok rs' /\ Permutation rs rs'.
Proof. exact plain_answer_bag_l. Qed.
Print Assumptions plain_answer_bag.

Theorem gql_limit_answer : forall st q,
  store_ok st -> single_hops (q_pat q) = true -> single_labels (q_pat q) = true -> pat_fresh (q_pat q) = true ->
  no_type_case st (q_pat q) = true -> directed (q_pat q) = true ->
  plain_core q = true -> q_order q = nil ->
  match q_ret q with RPlain items _ => props_on_nodes (q_pat q) items | _ => true end = true ->
  plan_rows st (gql_plan_of q) = answer st q.
Proof. exact gql_limit_answer_l. Qed.
Print Assumptions gql_limit_answer.

Theorem order_by_answer : forall st q,
  store_ok st -> single_hops (q_pat q) = true -> single_labels (q_pat q) = true -> pat_fresh (q_pat q) = true ->
  no_type_case st (q_pat q) = true -> directed (q_pat q) = true ->
  plain_core q = true -> order_core q = true -> q_order q <> nil ->
  match q_ret q with RPlain items _ => props_on_nodes (q_pat q) items | _ => true end = true ->
  keys_fresh (chain_cols_pat (q_pat q)) (map fst (sort_keys (q_order q))) ->
  plan_rows st (gql_plan_of q) = answer st q.
Proof. exact gql_order_answer_l. Qed.
Print Assumptions order_by_answer.

Theorem aggregate_answer : forall st q keys aggs,
  store_ok st -> single_hops (q_pat q) = true -> single_labels (q_pat q) = true -> pat_fresh (q_pat q) = true ->
  no_type_case st (q_pat q) = true -> directed (q_pat q) = true ->
  q_ret q = RAgg keys aggs -> agg_core_q q = true -> q_order q = nil -> q_skip q = None -> q_limit q = None ->
  keys_fresh (chain_cols_pat (q_pat q)) (agg_exprs keys aggs) ->
  (forall en, List.In en (body_envs st q) -> forallb group_key_ok (map (item_val st en) keys) = true) ->
  match plan_rows st (gql_plan_of q), answer st q with
  | Ok rows, Ok rs => rows = typed_answer keys aggs rs
  | Err, Err => True
  | _, _ => False
  end.
Proof. exact agg_answer_l. Qed.
Print Assumptions aggregate_answer.

Theorem gql_same_plan : forall q items d, q_ret q = RPlain items d -> q_order q = nil -> q_skip q = None -> q_limit q = None -> gql_plan_of q = cypher_plan_of q.
Proof. exact gql_plan_plain. Qed.
Print Assumptions gql_same_plan.

Theorem chain_operational_any : forall st p, pat_fresh p = true ->
  exists t, sem_ops st (chain_plan p) = Ok t /\ wfc t /\
            cols t = np_var (p_start p) :: flat_map (fun h => edge_col (h_evar h) :: np_var (h_to h) :: nil) (p_hops p) /\
            tbl_envs t = obindings_g st p.
Proof. exact chain_obindings_g. Qed.
Print Assumptions chain_operational_any.

Theorem chain_bindings_var : forall st p,
  store_ok st -> edges_live st -> single_labels p = true -> pat_fresh p = true ->
  no_type_case st p = true -> no_both_selfloop st p = true ->
  bounded_hops p = true -> var_hops_anonymous p = true ->
  exists t, sem_ops st (chain_plan p) = Ok t /\ Permutation (tbl_envs t) (bindings st p).
Proof. exact chain_bindings_var_l. Qed.
Print Assumptions chain_bindings_var.

Theorem plain_answer_var : forall st q,
  store_ok st -> edges_live st -> single_labels (q_pat q) = true -> pat_fresh (q_pat q) = true ->
  no_type_case st (q_pat q) = true -> no_both_selfloop st (q_pat q) = true ->
  bounded_hops (q_pat q) = true -> var_hops_anonymous (q_pat q) = true ->
  plain_core q = true -> q_order q = nil -> q_skip q = None -> q_limit q = None ->
  exists rs rs', plan_rows st (cypher_plan_of q) = Ok rs /\ answer st q = Ok rs' /\ Permutation rs rs'.
Proof. exact plain_answer_var_l. Qed.
Print Assumptions plain_answer_var.

Theorem var_length_walks : forall st ci d ty mn mx s,
  Permutation (vle_from st ci d ty mn mx s)
              (flat_map (fun k => nwalks st ci d ty k s) (seq mn (S mx - mn))).
Proof. exact vle_from_walks. Qed.
Print Assumptions var_length_walks.

Theorem filter_stack : forall t p1 p2,
  rows (filter_tbl p2 (filter_tbl p1 t)) = filter (fun r => p1 r && p2 r) (rows t).
Proof. exact filter_stack_l. Qed.
Print Assumptions filter_stack.

Theorem filter_stack_pre_refuted : exists (rows : list row) (p1 p2 : row -> bool),
  chunk_pre_rows (filter_chunk_pre p2 (filter_chunk_pre p1 (mkChunkPre rows None)))
  <> filter (fun r => p1 r && p2 r) rows.
Proof. exact filter_stack_pre_refuted_l. Qed.
Print Assumptions filter_stack_pre_refuted.

Theorem type_case_refuted : exists st q,
  k2_type_case st q = true /\ plan_rows st (gql_plan_of q) <> answer st q /\ plan_rows st (cypher_plan_of q) <> answer st q.
Proof. exact type_case_refuted_l. Qed.
Print Assumptions type_case_refuted.

Theorem both_selfloop_refuted : exists st q,
  k3_both_selfloop st q = true /\ plan_rows st (gql_plan_of q) <> answer st q /\ plan_rows st (cypher_plan_of q) <> answer st q.
Proof. exact both_selfloop_refuted_l. Qed.
Print Assumptions both_selfloop_refuted.

Theorem unbounded_refuted : exists st q,
  k1_unbounded q = true /\ plan_rows st (cypher_plan_of q) <> answer st q /\ plan_rows st w_k1_gql_plan <> answer st q.
Proof. exact unbounded_refuted_l. Qed.
Print Assumptions unbounded_refuted.

Theorem zero_hops_refuted : exists st q,
  k4_zero_hops q = true /\ plan_rows st (gql_plan_of q) <> answer st q /\ plan_rows st (cypher_plan_of q) <> answer st q.
Proof. exact zero_hops_refuted_l. Qed.
Print Assumptions zero_hops_refuted.

Theorem return_distinct_pre_refuted : exists st q,
  k5_return_distinct q = true /\ plan_rows st (clear_distinct (gql_plan_of q)) <> answer st q /\
  plan_rows st (gql_plan_of q) = answer st q /\ plan_rows st (cypher_plan_of q) = answer st q.
Proof. exact return_distinct_pre_refuted_l. Qed.
Print Assumptions return_distinct_pre_refuted.

Theorem gql_limit_before_order_pre_refuted : exists st q,
  k6_gql_limit_first_pre LGql q = true /\ plan_rows st (gql_plan_pre_of q) <> answer st q /\ plan_rows st (gql_plan_of q) = answer st q.
Proof. exact gql_limit_before_order_pre_refuted_l. Qed.
Print Assumptions gql_limit_before_order_pre_refuted.

Theorem gql_limit_before_distinct_pre_refuted : exists st q,
  k6_gql_limit_first LGql q = true /\ plan_rows st (gql_plan_pre_distinct_of q) <> answer st q /\
  plan_rows st (gql_plan_of q) = answer st q /\ plan_rows st (cypher_plan_of q) = answer st q.
Proof. exact gql_limit_before_distinct_pre_refuted_l. Qed.
Print Assumptions gql_limit_before_distinct_pre_refuted.

Theorem gremlin_dedup_refuted : exists st q,
  k14_gremlin_dedup LGremlin q = true /\ plan_rows st w_k14_gremlin_plan <> answer st q /\ plan_rows st (gql_plan_of q) = answer st q.
Proof. exact gremlin_dedup_refuted_l. Qed.
Print Assumptions gremlin_dedup_refuted.

Theorem multi_label_refuted : exists st q,
  k7_multi_label q = true /\ plan_rows st (gql_plan_of q) <> answer st q /\ plan_rows st (cypher_plan_of q) <> answer st q.
Proof. exact multi_label_refuted_l. Qed.
Print Assumptions multi_label_refuted.

Theorem cypher_order_above_return_refuted : exists st q,
  k9_cypher_order_cols LCypher q = true /\ plan_rows st (cypher_plan_of q) <> answer st q /\ plan_rows st (gql_plan_of q) = answer st q.
Proof. exact cypher_order_above_return_refuted_l. Qed.
Print Assumptions cypher_order_above_return_refuted.

Theorem edge_prop_after_sort_refuted : exists st q,
  k10_edge_prop_materialised q = true /\ plan_rows st (gql_plan_of q) <> answer st q.
Proof. exact edge_prop_after_sort_refuted_l. Qed.
Print Assumptions edge_prop_after_sort_refuted.

Theorem cypher_count_pre_refuted : exists st q,
  k12_cypher_count LCypher q = true /\ plan_rows st (cypher_plan_pre_of q) <> answer st q /\
  plan_rows st (cypher_plan_of q) = answer st q /\ plan_rows st (gql_plan_of q) = answer st q.
Proof. exact cypher_count_pre_refuted_l. Qed.
Print Assumptions cypher_count_pre_refuted.

Theorem typed_result_pre_refuted : exists st q rs,
  k13_typed_result st q = true /\ answer st q = Ok rs /\
  map (map cell_val) (typed_rows_pre (agg_coltype_pre (mkAgg AMin (Some (EProp "a" "x")) false None) :: nil) (map (map CVal) rs)) <> rs /\
  plan_rows st (gql_plan_of q) = answer st q /\ plan_rows st (cypher_plan_of q) = answer st q.
Proof. exact typed_result_pre_refuted_l. Qed.
Print Assumptions typed_result_pre_refuted.

(** non-vacuity: the hypotheses of the positive theorems are met by a graph with parallel edges and
    a two-hop query with WHERE, SKIP and LIMIT that returns rows *)
Import ListNotations.
Local Open Scope string_scope.
Definition nv_st : store := st_of
  [nd 0 ["A"] [("u", VInt 100); ("x", VInt 1)]; nd 1 ["A"; "B"] [("u", VInt 101); ("x", VFlt 3 2)]; nd 2 ["B"] [("u", VInt 102)]]
  [ed 0 0 1 "R" [("eu", VInt 500); ("w", VInt 1)]; ed 1 0 1 "R" [("eu", VInt 501); ("w", VInt 2)]; ed 2 1 2 "S" [("eu", VInt 502)];
   ed 3 2 2 "S" [("eu", VInt 503)]].
Definition nv_q : query :=
  mkQ (mkPat (mkNP "a" ["A"]) [hop1 Out (Some "R") (Some "r") "b"; mkHop Out (Some "S") None HOne (mkNP "c" ["B"])])
      (Some (ECmp OGt (EProp "r" "w") (ELit (VInt 0)))) (RPlain [EVar "a"; EProp "r" "w"; EProp "c" "u"] false) [] (Some 1%nat) (Some 5%nat).
Example nv_store_ok : store_ok nv_st.
Proof. split; cbn; repeat constructor; cbn; intuition discriminate. Qed.
Example nv_hyps :
  single_hops (q_pat nv_q) = true /\ single_labels (q_pat nv_q) = true /\ pat_fresh (q_pat nv_q) = true /\
  no_type_case nv_st (q_pat nv_q) = true /\ directed (q_pat nv_q) = true /\ no_both_selfloop nv_st (q_pat nv_q) = true /\
  plain_core nv_q = true /\ q_order nv_q = [].
Proof. vm_compute. repeat split. Qed.
Example nv_rows : answer nv_st nv_q = Ok [[VInt 0; VInt 2; VInt 102]] /\ List.length (bindings nv_st (q_pat nv_q)) = 2%nat.
Proof. vm_compute. split; reflexivity. Qed.

Definition nv_var_q : query :=
  mkQ (mkPat (mkNP "a" []) [mkHop Out None None (HVar 1 (Some 2%nat)) (mkNP "b" ["B"])])
      None (RPlain [EVar "a"; EProp "b" "u"] false) [] None None.
Example nv_var_hyps :
  edges_live nv_st /\ bounded_hops (q_pat nv_var_q) = true /\ var_hops_anonymous (q_pat nv_var_q) = true /\
  pat_fresh (q_pat nv_var_q) = true /\ plain_core nv_var_q = true /\
  List.length (bindings nv_st (q_pat nv_var_q)) = 8%nat.
Proof.
  split; [|vm_compute; repeat split].
  intros e He. cbn in He. repeat (destruct He as [<-|He]; [split; reflexivity|]). destruct He.
Qed.

Definition nv_ord_q : query :=
  mkQ (mkPat (mkNP "a" ["A"]) [hop1 Out (Some "R") (Some "r") "b"])
      None (RPlain [EVar "a"; EProp "b" "u"; EVar "r"] false) [OEnv (EProp "a" "u") true; OEnv (EProp "r" "eu") true; OEnv (EVar "b") false] (Some 1%nat) (Some 1%nat).
Example nv_ord_hyps :
  plain_core nv_ord_q = true /\ order_core nv_ord_q = true /\ q_order nv_ord_q <> [] /\
  props_on_nodes (q_pat nv_ord_q) [EVar "a"; EProp "b" "u"; EVar "r"] = true /\
  keys_fresh (chain_cols_pat (q_pat nv_ord_q)) (map fst (sort_keys (q_order nv_ord_q))) /\
  answer nv_st nv_ord_q = Ok [[VInt 0; VInt 101; VInt 0]].
Proof.
  split; [reflexivity|]. split; [reflexivity|]. split; [discriminate|]. split; [reflexivity|]. split; [|vm_compute; reflexivity].
  split.
  - intros x k H. cbn in H. destruct H as [H|[H|[H|[]]]]; inversion H; subst; cbn; intuition discriminate.
  - intros x k x' k' H H'. cbn in H, H'.
    destruct H as [H|[H|[H|[]]]]; inversion H; subst; destruct H' as [H'|[H'|[H'|[]]]]; inversion H'; subst; intros E; try discriminate E; auto.
Qed.

Definition nv_agg_q : query :=
  mkQ (mkPat (mkNP "a" []) [hop1 Out None (Some "r") "b"])
      None (RAgg [EProp "b" "u"] [mkAgg ACountNN (Some (EVar "a")) false None; mkAgg ASum (Some (EProp "r" "eu")) false None; mkAgg ACollect (Some (EProp "a" "u")) true None]) [] None None.
Example nv_agg :
  agg_core_q nv_agg_q = true /\
  answer nv_st nv_agg_q = Ok [[VInt 101; VInt 2; VInt 1001; VList [VInt 100]]; [VInt 102; VInt 2; VInt 1005; VList [VInt 101; VInt 102]]] /\
  typed_answer [EProp "b" "u"] [mkAgg ACountNN (Some (EVar "a")) false None; mkAgg ASum (Some (EProp "r" "eu")) false None; mkAgg ACollect (Some (EProp "a" "u")) true None]
    [[VInt 101; VInt 2; VInt 1001; VList [VInt 100]]; [VInt 102; VInt 2; VInt 1005; VList [VInt 101; VInt 102]]]
  = [[VInt 101; VInt 2; VInt 1001; VList [VInt 100]]; [VInt 102; VInt 2; VInt 1005; VList [VInt 101; VInt 102]]].
Proof. vm_compute. repeat split. Qed.
