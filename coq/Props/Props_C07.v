(** C07 — snapshot export/import, save and in-memory copy preserve the whole graph: the
    property theorems (statements only; proofs are in Wal/Proofs*.v).  Pinned by props/C07.statements. *)
From GV Require Export Wal.Spec.
From GV Require Import Wal.ProofsFrame Wal.ProofsRecover Wal.ProofsDb Wal.ProofsSnap Wal.ProofsCodec Wal.ProofsCrash Wal.ProofsReach Wal.ProofsReal Wal.ProofsWitness.
Open Scope Z_scope.

(** import of an export: for every store whose live entities are all visible at the store's
    own epoch, the copy dumps exactly as the source (ids, labels, types, endpoints, every
    property value byte for byte), at the latest epoch and at its own — for any snapshot codec
    that carries the snapshot of this store *)
Theorem import_export : forall enc_snap dec_snap s,
  snap_carried enc_snap dec_snap (snapshot_of s) ->
  store_wf s -> epoch_clean s = true ->
  exists c, import dec_snap (export enc_snap s) = IOk c /\ dump c latest = dump s latest
            /\ dump c (s_epoch c) = dump s latest.
Proof. exact import_export_l. Qed.
Print Assumptions import_export.

(** the bincode snapshot codec carries every well-formed snapshot *)
Theorem snapshot_codec_roundtrip : forall sn, snap_wf sn -> snap_carried enc_snapshot dec_snapshot sn.
Proof. exact snap_wf_carried. Qed.
Print Assumptions snapshot_codec_roundtrip.

Theorem import_export_real : forall s,
  snap_wf (snapshot_of s) -> store_wf s -> epoch_clean s = true ->
  exists c, import dec_snapshot (export enc_snapshot s) = IOk c /\ dump c latest = dump s latest
            /\ dump c (s_epoch c) = dump s latest.
Proof. exact import_export_real_l. Qed.
Print Assumptions import_export_real.

(** every store built through the API (any sequence of operations, through the database or
    through sessions) is well formed; outside class C07-K1 import of its export and to_memory
    dump exactly as the source *)
Theorem api_store_wellformed : forall os, store_wf (fst (run_store os)).
Proof. exact api_store_wf. Qed.
Print Assumptions api_store_wellformed.

Theorem api_store_copies : forall os,
  let s := fst (run_store os) in
  k07_1 s = false -> snap_wf (snapshot_of s) ->
  (exists c, import dec_snapshot (export enc_snapshot s) = IOk c /\ dump c latest = dump s latest
             /\ dump c (s_epoch c) = dump s latest)
  /\ dump (to_memory s) latest = dump s latest.
Proof. exact api_store_copies_l. Qed.
Print Assumptions api_store_copies.

(** export is a function of what a dump at the store's epoch shows (deterministic; the source
    is an argument, not a state: it cannot change) *)
Theorem export_deterministic : forall enc_snap s1 s2,
  dump s1 (s_epoch s1) = dump s2 (s_epoch s2) -> export enc_snap s1 = export enc_snap s2.
Proof. exact export_same_dump_l. Qed.
Print Assumptions export_deterministic.

(** exporting the import of an export gives the same bytes *)
Theorem export_import_export : forall enc_snap dec_snap s c,
  snap_carried enc_snap dec_snap (snapshot_of s) -> store_wf s ->
  import dec_snap (export enc_snap s) = IOk c -> export enc_snap c = export enc_snap s.
Proof. exact export_import_export_l. Qed.
Print Assumptions export_import_export.

(** to_memory *)
Theorem to_memory_copy : forall s, store_wf s -> epoch_clean s = true -> dump (to_memory s) latest = dump s latest.
Proof. exact to_memory_l. Qed.
Print Assumptions to_memory_copy.

(** save + open: unless the target's log rotates while it is written (a store above 64 MiB of
    records), opening the saved directory yields exactly the store to_memory builds *)
Theorem save_open_copy : forall crc enc dec, crc_u32 crc -> forall cfg s,
  w_seq (db_w (db_close crc enc cfg (mkDb (build (snapshot_of s)) (db_tm db_fresh) (wlog_all crc enc cfg (db_w db_fresh) (save_records s))))) = 0 ->
  Forall (rec_ok enc dec) (save_records s ++ close_logs (mkDb (build (snapshot_of s)) (db_tm db_fresh) (wlog_all crc enc cfg (db_w db_fresh) (save_records s)))) ->
  save_open crc enc dec cfg s = ROk (to_memory s).
Proof. exact save_open_l. Qed.
Print Assumptions save_open_copy.

(** for every byte string: an error, or the complete store of a snapshot of which the bytes are
    exactly the encoding — never a panic, never a partially filled database, never bytes left over *)
Theorem import_total : forall (dec_snap : bytes -> option (snapshot * nat)) bs,
  match import dec_snap bs with
  | IErr => dec_snap bs = None
            \/ exists sn n, dec_snap bs = Some (sn, n) /\ ((n < length bs)%nat \/ sn_version sn <> 1)
  | IPanic => False
  | IOk c => exists sn n, dec_snap bs = Some (sn, n) /\ (length bs <= n)%nat /\ sn_version sn = 1 /\ c = build sn
  end.
Proof. exact import_total_l. Qed.
Print Assumptions import_total.

(** bytes behind a valid snapshot are rejected (for every carried snapshot and every junk) *)
Theorem trailing_bytes_rejected : forall enc_snap dec_snap sn junk,
  snap_carried enc_snap dec_snap sn -> junk <> [] -> import dec_snap (enc_snap sn ++ junk) = IErr.
Proof. exact trailing_rejected_l. Qed.
Print Assumptions trailing_bytes_rejected.

(** C07-K1: entities stamped with an epoch later than the store's own are not copied *)
Theorem later_epoch_entities_not_copied_refuted : exists os,
  let s := fst (run_store os) in
  k07_1 s = true /\ differ (to_memory s) s
  /\ exists c, import dec_snapshot (export enc_snapshot s) = IOk c /\ differ c s.
Proof. exists w07_1. exact w07_1_l. Qed.
Print Assumptions later_epoch_entities_not_copied_refuted.

(** C07-K2 (repaired by 0d0a061): the code before it accepted bytes behind a valid snapshot; the
    same bytes are an error now *)
Theorem trailing_bytes_accepted_pre_refuted : exists bs sn n c,
  dec_snapshot bs = Some (sn, n) /\ k07_2 bs n = true /\ import_pre dec_snapshot bs = IOk c
  /\ import dec_snapshot bs = IErr.
Proof. exists w07_2, (mkSnap 1 [] []), 3%nat, empty_store. destruct w07_2_pre_l as (A & B & C). split; [exact A|]. split; [exact B|]. split; [exact C|exact w07_2_now_l]. Qed.
Print Assumptions trailing_bytes_accepted_pre_refuted.

(** C07-K3 (repaired by 1b18953): the code before it panicked on a snapshot naming the identifier
    u64::MAX; it is imported now (the id counter saturates) *)
Theorem max_id_import_panics_pre_refuted : exists bs sn,
  import_pre dec_snapshot bs = IPanic /\ dec_snapshot bs = Some (sn, length bs) /\ k07_3 sn = true
  /\ import dec_snapshot bs = IOk (build sn).
Proof. exists w07_3, w07_3_snap. destruct w07_3_pre_l as (A & B & C). split; [exact A|]. split; [exact B|]. split; [exact C|exact (proj1 w07_3_now_l)]. Qed.
Print Assumptions max_id_import_panics_pre_refuted.

(** non-vacuity: a store with deleted entities, properties and labels satisfies the premises *)
Example copy_premises_hold :
  let s := fst (run_store [OCreateNodeProps [sA; sB] [(sK, vOne)]; OCreateNode [sC]; OCreateEdgeProps 0 1 sK [(sK, vOne)]; ODeleteNode 1; OCreateNode []]) in
  k07_1 s = false
  /\ zlist_eqb (enc_snapshot (snapshot_of s)) (enc_snapshot (snapshot_of s)) = true
  /\ dsnap_eqb (dec_snapshot (enc_snapshot (snapshot_of s))) (Some (snapshot_of s, length (enc_snapshot (snapshot_of s)))) = true.
Proof. cbv zeta. repeat split; vm_compute; reflexivity. Qed.
