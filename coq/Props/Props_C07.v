(** C07 — snapshot export/import, save and in-memory copy preserve the whole graph: the
    property theorems (statements only; proofs are in Wal/Proofs*.v).  Pinned by props/C07.statements. *)
From GV Require Export Wal.Spec.
From GV Require Import Wal.ProofsFrame Wal.ProofsRecover Wal.ProofsDb Wal.ProofsSnap Wal.ProofsWitness.
Open Scope Z_scope.

(** for every byte string: an error, the overflow panic of class K3, or the complete store of
    the decoded snapshot — never a partially filled database *)
Theorem import_total : forall (dec_snap : bytes -> option (snapshot * nat)) bs,
  match import dec_snap bs with
  | IErr => dec_snap bs = None \/ exists sn n, dec_snap bs = Some (sn, n) /\ sn_version sn <> 1
  | IPanic => exists sn n, dec_snap bs = Some (sn, n) /\ k07_3 sn = true
  | IOk c => exists sn n, dec_snap bs = Some (sn, n) /\ sn_version sn = 1 /\ k07_3 sn = false /\ c = build sn
  end.
Proof. exact import_total_l. Qed.
Print Assumptions import_total.

(** C07-K1: entities stamped with an epoch later than the store's own are not copied *)
Theorem later_epoch_entities_not_copied_refuted : exists os,
  let s := fst (run_store os) in
  k07_1 s = true /\ differ (to_memory s) s
  /\ exists c, import dec_snapshot (export enc_snapshot s) = IOk c /\ differ c s.
Proof. exists w07_1. exact w07_1_l. Qed.
Print Assumptions later_epoch_entities_not_copied_refuted.

(** C07-K2: bytes behind a valid snapshot are accepted *)
Theorem trailing_bytes_accepted_refuted : exists bs sn n c,
  dec_snapshot bs = Some (sn, n) /\ k07_2 bs n = true /\ import dec_snapshot bs = IOk c.
Proof. exists w07_2, (mkSnap 1 [] []), 3%nat, empty_store. exact w07_2_l. Qed.
Print Assumptions trailing_bytes_accepted_refuted.

(** C07-K3: a snapshot that names the identifier u64::MAX makes import panic *)
Theorem max_id_import_panics_refuted : exists bs sn,
  import dec_snapshot bs = IPanic /\ dec_snapshot bs = Some (sn, length bs) /\ k07_3 sn = true.
Proof. exists w07_3, w07_3_snap. exact w07_3_l. Qed.
Print Assumptions max_id_import_panics_refuted.
