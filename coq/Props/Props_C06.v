(** C06 — a crash at any point loses at most the unsynced tail and never corrupts: the
    property theorems (statements only; proofs are in Wal/Proofs*.v).  Pinned by props/C06.statements. *)
From GV Require Export Wal.Spec.
From GV Require Import Wal.ProofsFrame Wal.ProofsRecover Wal.ProofsDb Wal.ProofsSnap Wal.ProofsCodec Wal.ProofsCrash Wal.ProofsReal Wal.ProofsWitness.
Open Scope Z_scope.

(** a file of whole frames is read back completely *)
Theorem parse_frames : forall crc R (dec : bytes -> option R), crc_u32 crc ->
  forall ps rs, decodes_all dec ps rs -> all_short ps ->
  parse crc R dec (concat (map (frame crc) ps)) = (rs, Eof).
Proof. exact parse_frames_l. Qed.
Print Assumptions parse_frames.

(** for every byte length n: of the first n bytes of a file exactly the records whose frames
    lie wholly inside are returned — a torn record never is *)
Theorem parse_truncated : forall crc R (dec : bytes -> option R), crc_u32 crc ->
  forall ps rs n, decodes_all dec ps rs -> all_short ps ->
  parse crc R dec (firstn n (concat (map (frame crc) ps))) = (firstn (frames_within n ps) rs, trunc_status n ps).
Proof. exact parse_truncated_l. Qed.
Print Assumptions parse_truncated.

(** a record whose stored checksum differs from the checksum of its body ends the reading of
    its file before it, whatever follows *)
Theorem bad_crc_never_applied : forall crc R (dec : bytes -> option R), crc_u32 crc ->
  forall ps rs p cb rest, decodes_all dec ps rs -> all_short ps -> lenZ p < two32 -> length cb = 4%nat -> u32_of cb <> crc p ->
  parse crc R dec (concat (map (frame crc) ps) ++ le32 (lenZ p) ++ p ++ cb ++ rest) = (rs, BadCrc).
Proof. exact bad_crc_l. Qed.
Print Assumptions bad_crc_never_applied.

(** under the premise that the checksum detects single-bit errors (true of CRC-32; compared with
    crc32fast on every run), every single-bit flip inside a body or a checksum field is detected *)
Theorem bitflip_detected : forall crc R (dec : bytes -> option R), crc_u32 crc ->
  forall ps rs p rest i b, detects_1bit crc ->
  decodes_all dec ps rs -> all_short ps -> lenZ p < two32 -> 0 <= b < 8 -> (i < length p + 4)%nat ->
  parse crc R dec (concat (map (frame crc) ps) ++ le32 (lenZ p) ++ flip_bit (p ++ le32 (crc p)) i b ++ rest) = (rs, BadCrc).
Proof. exact bitflip_l. Qed.
Print Assumptions bitflip_detected.

(** the next open succeeds: on every directory whose checkpoint.meta is absent or decodable —
    any bytes in any log file — recovery returns a record list *)
Theorem recover_total : forall crc dec d, d_meta d <> MetaBad -> exists rs, recover crc dec d = ROk rs.
Proof. exact recover_total_l. Qed.
Print Assumptions recover_total.

(** only records that an intact commit marker covers are ever returned *)
Theorem recover_committed_only : forall crc dec d rs r,
  recover crc dec d = ROk rs -> In r rs -> is_data r = true ->
  commit_covered (disk_records crc dec (min_seq (d_meta d)) (d_files d)) r.
Proof. exact recover_committed_only_l. Qed.
Print Assumptions recover_committed_only.

(** a left-over checkpoint.meta.tmp plays no role *)
Theorem recover_ignores_tmp : forall crc dec fs m t1 t2, recover crc dec (mkDisk fs m t1) = recover crc dec (mkDisk fs m t2).
Proof. exact recover_ignores_tmp. Qed.
Print Assumptions recover_ignores_tmp.

(** a crash that cuts only the last file: the image is read as the records of the earlier
    files followed by exactly the records of the last file whose frames lie wholly inside the
    cut, and what it commits is a prefix of what the uncut directory commits *)
Theorem crash_prefix_tail : forall crc enc dec, crc_u32 crc -> forall fs0 s f rs_f n meta tmp,
  meta <> MetaBad -> Forall (rec_ok enc dec) rs_f -> f_bytes f = concat (map (frame crc) (map enc rs_f)) ->
  let k := frames_within n (map enc rs_f) in
  let before := disk_records crc dec (min_seq meta) fs0 in
  let keep (l : list record) := if s <? min_seq meta then [] else l in
  recover crc dec (mkDisk (fs0 ++ [(s, cut_file n f)]) meta tmp) = ROk (committed (before ++ keep (firstn k rs_f)))
  /\ recover crc dec (mkDisk (fs0 ++ [(s, f)]) meta tmp) = ROk (committed (before ++ keep rs_f))
  /\ exists tail, committed (before ++ keep rs_f) = committed (before ++ keep (firstn k rs_f)) ++ tail.
Proof. exact crash_prefix_tail_l. Qed.
Print Assumptions crash_prefix_tail.

(** everything the fsynced part of the last file commits survives every such crash *)
Theorem synced_commits_survive : forall crc enc dec, crc_u32 crc -> forall fs0 s f rs_f n meta tmp,
  meta <> MetaBad -> Forall (rec_ok enc dec) rs_f -> f_bytes f = concat (map (frame crc) (map enc rs_f)) ->
  (Z.to_nat (f_synced f) <= n)%nat -> s <? min_seq meta = false ->
  let ks := frames_within (Z.to_nat (f_synced f)) (map enc rs_f) in
  let before := disk_records crc dec (min_seq meta) fs0 in
  exists rs tail,
    recover crc dec (mkDisk (fs0 ++ [(s, cut_file n f)]) meta tmp) = ROk rs
    /\ rs = committed (before ++ firstn ks rs_f) ++ tail.
Proof. exact synced_commits_survive_l. Qed.
Print Assumptions synced_commits_survive.

(** a database whose log is one file (no rotation), after any clean history: whatever the next
    session does short of an explicit checkpoint — logged or unlogged calls, syncs — EVERY crash image of the
    directory (each file keeps a prefix that contains its fsynced bytes; a file of which nothing
    was ever fsynced may vanish) opens, and yields exactly the store of the last close: a prefix
    of the issued operations (the empty prefix of the session) that contains everything the
    last successful close wrote *)
Theorem crash_recovers_last_close : forall crc enc dec, crc_u32 crc -> forall cfg ss st os d',
  no_crash ss = true -> forallb kclean (hist_flags crc enc dec cfg db_fresh ss) = true ->
  snd (run_sessions crc enc dec cfg db_fresh ss) = ROk st ->
  Forall (rec_ok enc dec) (hist_logs crc enc dec cfg db_fresh ss ++ ops_logs crc enc cfg st os) ->
  forallb (fun o => negb (is_cp_op o)) os = true ->
  w_seq (db_w (fst (run_ops crc enc cfg st os))) = w_seq (db_w st) ->
  crash (wdrop (db_w (fst (run_ops crc enc cfg st os)))) d' ->
  exists st2, db_open crc dec d' = ROk st2 /\ db_store st2 = db_store st.
Proof. exact crash_recovers_last_close_l. Qed.
Print Assumptions crash_recovers_last_close.

(** ... and with an explicit checkpoint in the session (clean operations [os1], wal_checkpoint(),
    then anything but another checkpoint): every crash image opens to the store as it was at the
    checkpoint — everything written before the last successful checkpoint is kept *)
Theorem crash_recovers_last_checkpoint : forall crc enc dec, crc_u32 crc -> forall cfg ss st os1 os2 d',
  no_crash ss = true -> forallb kclean (hist_flags crc enc dec cfg db_fresh ss) = true ->
  snd (run_sessions crc enc dec cfg db_fresh ss) = ROk st ->
  let sta := fst (run_ops crc enc cfg st os1) in
  let st1 := fst (db_step crc enc cfg sta OCheckpoint) in
  kclean (fst (scan crc enc cfg st false os1 k0)) = true ->
  Forall (rec_ok enc dec) (hist_logs crc enc dec cfg db_fresh ss ++ ops_logs crc enc cfg st os1 ++ step_logs sta OCheckpoint
                           ++ ops_logs crc enc cfg st1 os2) ->
  forallb (fun o => negb (is_cp_op o)) os2 = true ->
  w_seq (db_w (fst (run_ops crc enc cfg st1 os2))) = w_seq (db_w st) ->
  crash (wdrop (db_w (fst (run_ops crc enc cfg st1 os2)))) d' ->
  exists st2, db_open crc dec d' = ROk st2 /\ db_store st2 = db_store st1.
Proof. exact crash_recovers_last_checkpoint_l. Qed.
Print Assumptions crash_recovers_last_checkpoint.

Theorem crash_recovers_last_close_real : forall cfg ss st os d',
  no_crash ss = true -> forallb kclean (real_flags cfg ss) = true ->
  snd (real_sessions cfg ss) = ROk st ->
  Forall rec_fits (real_logs cfg ss ++ ops_logs crc32 enc_record cfg st os) ->
  forallb (fun o => negb (is_cp_op o)) os = true ->
  w_seq (db_w (fst (real_ops cfg st os))) = w_seq (db_w st) ->
  crash (wdrop (db_w (fst (real_ops cfg st os)))) d' ->
  exists st2, real_open d' = ROk st2 /\ db_store st2 = db_store st.
Proof. exact crash_recovers_last_close_real_l. Qed.
Print Assumptions crash_recovers_last_close_real.

(** CRC-32 is a 32-bit value (the premise [crc_u32] of the theorems above, for the real checksum) *)
Theorem crc32_is_u32 : crc_u32 crc32.
Proof. exact crc32_range. Qed.
Print Assumptions crc32_is_u32.

(** C06-K1: all bytes fsynced, nothing cut, and the reopened database lacks the session *)
Theorem synced_but_uncommitted_lost_refuted : exists cfg os,
  let st1 := fst (real_ops cfg db_fresh os) in
  let d := wdrop (db_w st1) in
  all_synced d /\ k06_1 crc32 dec_record_slice d = true
  /\ exists st2, real_open d = ROk st2 /\ differ (db_store st2) (db_store st1).
Proof. exists (engine_cfg MSync), w06_1. exact w06_1_l. Qed.
Print Assumptions synced_but_uncommitted_lost_refuted.

(** C06-K2 (repaired by 3ca6f5b): under the code before it the writer appended behind a torn
    tail and a later session that was closed cleanly was lost all the same (the torn record is
    the only uncommitted one: class K5 is not involved); under the current code the torn tail is
    cut off when the log is opened and the same history ends with an exact cycle *)
Theorem writes_after_torn_tail_lost_pre_refuted : exists cfg ss,
  ends_with_close ss
  /\ (exists o, nth_error (fst (real_sessions_pre cfg ss)) 1 = Some o
                /\ k06_2 crc32 dec_record_slice (so_disk o) = true /\ k06_5 crc32 dec_record_slice (so_disk o) = false)
  /\ last_cycle_differs_pre cfg ss
  /\ last_cycle_exact_b cfg ss = true.
Proof. exists (engine_cfg MNoSync), w06_2p. destruct w06_2_pre_l as (A & B & C). split; [exact A|]. split; [exact B|]. split; [exact C|exact w06_2_now_l]. Qed.
Print Assumptions writes_after_torn_tail_lost_pre_refuted.

(** C06-K5: intact but uncommitted records that recovery dropped are committed by the next close *)
Theorem dropped_records_resurface_refuted : exists cfg ss,
  ends_with_close ss
  /\ (exists o, nth_error (fst (real_sessions cfg ss)) 1 = Some o
                /\ k06_2 crc32 dec_record_slice (so_disk o) = false /\ k06_5 crc32 dec_record_slice (so_disk o) = true)
  /\ last_cycle_differs cfg ss.
Proof. exists (engine_cfg MNoSync), w06_5. exact w06_5_l. Qed.
Print Assumptions dropped_records_resurface_refuted.

(** C06-K3: a damaged record in a non-final file is skipped over and the later file still
    applies: what is recovered is not what any prefix of the logged records commits *)
Theorem non_final_damage_not_prefix_refuted : exists d img log got,
  crash d img /\ k06_3 crc32 dec_record_slice d img = true
  /\ real_recover d = ROk (committed log)
  /\ real_recover img = ROk got /\ forall k, committed (firstn k log) <> got.
Proof.
  exists w06_3_disk, w06_3_img, w06_3_log, w06_3_got.
  destruct w06_3_l as (A & B & C & D). split; [exact A|]. split; [exact B|]. split; [vm_compute; reflexivity|]. split; [exact C|exact D].
Qed.
Print Assumptions non_final_damage_not_prefix_refuted.

(** non-vacuity: payloads that decode, a checksum in range *)
Example frames_exist : crc_u32 (fun _ => 7) /\ decodes_all dec_record_slice [enc_record (TxCommit 2)] [TxCommit 2]
                       /\ all_short [enc_record (TxCommit 2)].
Proof. split; [intros p; unfold two32; lia|]. split; repeat constructor. Qed.

(** non-vacuity of the crash premise: the torn image of witness K2's middle session is a crash
    image of the directory the session left *)
Example crash_image_exists :
  let st1 := fst (real_ops (engine_cfg MNoSync) db_fresh [OCreateNode [sA]; OCreateNode [sB]]) in
  crash (wdrop (db_w st1)) (cut_disk [(0, 20)] (wdrop (db_w st1))).
Proof.
  cbv zeta. change 20 with (Z.of_nat 20). eapply crash_cut_single; [vm_compute; reflexivity|vm_compute; discriminate].
Qed.
