(** C11 — query results obey the algebra of predicates, limits and aggregates: the property
    theorems (statements only; proofs in Query/Proofs*.v).  Pinned by props/C11.statements.

    [fa] is the uninterpreted float arithmetic, [envf] the map from a row to the evaluation
    environment; the chunk list [cs] (the chunking of the input and its selection vectors) is
    universally quantified everywhere. *)
From Coq Require Export Permutation Sorted.
From GV Require Export Query.Expr Query.Stream Query.StreamAgg Query.StreamSort.
From GV Require Import Query.ProofsExpr Query.ProofsStream Query.ProofsPlan Query.ProofsAgg Query.ProofsSort.
Open Scope Z_scope.

(** ** predicates *)
Theorem partition3 : forall fa en p, bpred p = true ->
  exactly_one3 (passes fa p en) (passes fa (EUn Not p) en) (passes fa (EUn IsNull p) en) = true.
Proof. exact partition3_l. Qed.
Print Assumptions partition3.

Theorem partition3_any : forall fa en p,
  exactly_one3 (passes fa p en) (passes fa (EUn Not p) en) (passes fa (EUn IsNull p) en) = true
  \/ (exists v, eval fa en p = Some v /\ as_bool v = None /\ v <> VNull
                /\ passes fa p en = false /\ passes fa (EUn Not p) en = false
                /\ passes fa (EUn IsNull p) en = false).
Proof. exact partition3_any_l. Qed.
Print Assumptions partition3_any.

Theorem partition3_nonbool_refuted :
  exists en p, forall fa, passes fa p en = false /\ passes fa (EUn Not p) en = false
                          /\ passes fa (EUn IsNull p) en = false.
Proof. exact partition3_nonbool_refuted_l. Qed.
Print Assumptions partition3_nonbool_refuted.

Theorem partition3_stream : forall fa envf p cs, bpred p = true ->
  Permutation (rows_of cs)
    (rows_of (drain_filter fa envf p cs) ++ rows_of (drain_filter fa envf (EUn Not p) cs)
     ++ rows_of (drain_filter fa envf (EUn IsNull p) cs)).
Proof. exact partition3_stream_l. Qed.
Print Assumptions partition3_stream.

Theorem connectives_not_kleene : forall fa en l r,
  (eval fa en l = None -> eval fa en (EBin And l r) = None)
  /\ (eval fa en r = None -> eval fa en (EBin Or l r) = None).
Proof. intros; split; [apply and_unknown_l|apply or_unknown_r]. Qed.
Print Assumptions connectives_not_kleene.

Theorem checked_arithmetic_in_range : forall fa op a b v,
  eval_binop fa op (VInt a) (VInt b) = Some (VInt v) ->
  match op with Add | Sub | Mul | Div => in_i64 v | _ => True end.
Proof. exact arith_in_range. Qed.
Print Assumptions checked_arithmetic_in_range.

Theorem arithmetic_pre_refuted : exists op a b, in_i64 a /\ in_i64 b /\ arith_pre Checked op a b = Panic
  /\ eval_binop fa_none op (VInt a) (VInt b) = None.
Proof. exact arith_pre_refuted_l. Qed.
Print Assumptions arithmetic_pre_refuted.

(** ** Filter *)
(** the operator as it is now (df57ccb): for EVERY input, selection vectors included *)
Theorem filter_spec : forall fa envf p cs,
  rows_of (drain_filter fa envf p cs) = filter (row_passes fa envf p) (rows_of cs).
Proof. exact filter_spec_l. Qed.
Print Assumptions filter_spec.

Theorem stacked_filter : forall fa envf p1 p2 cs,
  rows_of (drain_filter fa envf p2 (drain_filter fa envf p1 cs))
  = filter (row_passes fa envf p2) (filter (row_passes fa envf p1) (rows_of cs)).
Proof. exact stacked_filter_l. Qed.
Print Assumptions stacked_filter.

Theorem filter_preserves_shape : forall fa envf p cs,
  (Forall chunk_wf cs -> Forall chunk_wf (drain_filter fa envf p cs))
  /\ (Forall small_chunk cs -> Forall small_chunk (drain_filter fa envf p cs)).
Proof. intros; split; [apply filter_out_wf|apply filter_out_small]. Qed.
Print Assumptions filter_preserves_shape.

(** the operator before df57ccb (finding C11-K1, fixed) *)
Theorem filter_pre_spec_phys : forall fa envf p cs,
  rows_of (drain_filter_pre fa envf p cs) = filter (row_passes fa envf p) (phys_rows cs).
Proof. exact filter_pre_spec_phys_l. Qed.
Print Assumptions filter_pre_spec_phys.

Theorem filter_pre_refuted : exists fa p cs, Forall chunk_wf cs /\
  rows_of (drain_filter_pre fa row_env p cs) <> filter (row_passes fa row_env p) (rows_of cs).
Proof. exact filter_pre_refuted_l. Qed.
Print Assumptions filter_pre_refuted.

Theorem stacked_filter_pre_refuted : exists fa p1 p2 rows,
  rows_of (drain_filter_pre fa row_env p2 (drain_filter_pre fa row_env p1 (scan_chunks rows)))
  <> filter (row_passes fa row_env p2) (filter (row_passes fa row_env p1) rows).
Proof. exact stacked_filter_pre_refuted_l. Qed.
Print Assumptions stacked_filter_pre_refuted.

(** ** Limit / Skip *)
Theorem limit_spec : forall n cs, Forall chunk_wf cs ->
  rows_of (drain_limit n cs) = firstn (Z.to_nat n) (rows_of cs).
Proof. exact limit_spec_l. Qed.
Print Assumptions limit_spec.

Theorem skip_spec : forall s cs, Forall chunk_wf cs ->
  rows_of (drain_skip s cs) = skipn (Z.to_nat s) (rows_of cs).
Proof. exact skip_spec_l. Qed.
Print Assumptions skip_spec.

Theorem limit_skip_spec : forall s n cs, Forall chunk_wf cs ->
  rows_of (drain_limit n (drain_skip s cs)) = firstn (Z.to_nat n) (skipn (Z.to_nat s) (rows_of cs)).
Proof. exact skip_limit_spec_l. Qed.
Print Assumptions limit_skip_spec.

Theorem limitskip_fused_spec : forall s n cs, Forall chunk_wf cs -> 0 <= s ->
  rows_of (drain_limitskip s n cs) = firstn (Z.to_nat n) (skipn (Z.to_nat s) (rows_of cs)).
Proof. exact limitskip_spec_l. Qed.
Print Assumptions limitskip_fused_spec.

(** ** Distinct *)
(** the operator as it is now (24f6dab): every chunk list *)
Theorem distinct_spec : forall cs, rows_of (drain_distinct cs) = dedup_from [] (rows_of cs).
Proof. exact distinct_fix_spec_l. Qed.
Print Assumptions distinct_spec.

Theorem distinct_each_once : forall cs,
  let out := rows_of (drain_distinct cs) in
  NoDup (map row_key out)
  /\ (forall r, In r (rows_of cs) -> In (row_key r) (map row_key out))
  /\ (forall r, In r out -> In r (rows_of cs)).
Proof. exact distinct_each_once_l. Qed.
Print Assumptions distinct_each_once.

(** the operator before 24f6dab (finding C11-K5, fixed) *)
Theorem distinct_pre_spec : forall cs, Forall small_chunk cs ->
  rows_of (drain_distinct_pre cs) = dedup_from [] (rows_of cs).
Proof. exact distinct_spec_l. Qed.
Print Assumptions distinct_pre_spec.

Theorem distinct_pre_overflow_refuted : exists cs, Forall chunk_wf cs /\
  rows_of (drain_distinct_pre cs) <> dedup_from [] (rows_of cs).
Proof. exact distinct_overflow_refuted_l. Qed.
Print Assumptions distinct_pre_overflow_refuted.

Theorem row_key_faithful : forall r1 r2, forallb key_scalar r1 = true -> forallb key_scalar r2 = true ->
  row_key r1 = row_key r2 -> r1 = r2.
Proof. exact row_key_inj. Qed.
Print Assumptions row_key_faithful.

Theorem row_key_float_refuted : exists r1 r2, r1 <> r2 /\ row_key r1 = row_key r2.
Proof. exact row_key_collision_refuted_l. Qed.
Print Assumptions row_key_float_refuted.

(** ** Union and aggregates *)
Theorem union_all : forall inputs, rows_of (drain_union inputs) = flat_map rows_of inputs.
Proof. exact union_spec_l. Qed.
Print Assumptions union_all.

Theorem count_star : forall cs,
  rows_of (drain_simple_agg [AggCountStar] cs) = [[VInt (Z.of_nat (length (rows_of cs)))]].
Proof. exact count_star_l. Qed.
Print Assumptions count_star.

Theorem count_column : forall c cs,
  rows_of (drain_simple_agg [AggCount c] cs)
  = [[VInt (Z.of_nat (length (filter (nonnull_at c) (rows_of cs))))]].
Proof. exact count_col_l. Qed.
Print Assumptions count_column.

Theorem hash_agg_batches : forall gcols aggs cs,
  rows_of (drain_hash_agg gcols aggs cs) = map group_row (hash_groups gcols aggs (rows_of cs)).
Proof. exact hash_agg_drain_l. Qed.
Print Assumptions hash_agg_batches.

Theorem agg_count_groups : forall gcols rows,
  let gs := hash_groups gcols [AggCountStar] rows in
  let keys := map (group_key gcols) rows in
  NoDup (map fst gs) /\ (forall k, In k (map fst gs) <-> In k keys)
  /\ (forall k st, In (k, st) gs -> st = [count_key keys k]).
Proof. exact agg_count_groups_l'. Qed.
Print Assumptions agg_count_groups.

Theorem group_key_float_refuted : exists r, group_row (group_key [0%nat] r, [1]) <> r ++ [VInt 1].
Proof. exact group_key_float_refuted_l. Qed.
Print Assumptions group_key_float_refuted.

Theorem group_key_scalar : forall v, key_scalar v = true -> keypart_value (key_of v) = v.
Proof. exact group_key_scalar_l. Qed.
Print Assumptions group_key_scalar.

(** ** clause wiring of the front ends *)
(** as it is now (ce12a2a, 36a1196): every front end sorts, then skips, then limits *)
Theorem window_all_languages : forall l ord s n rows, window_query l ord s n rows = window_spec ord s n rows.
Proof. exact window_fix_l. Qed.
Print Assumptions window_all_languages.

Theorem count_all_languages : forall l s n rows, Forall (fun r => nonnull_at 0 r = true) rows ->
  count_query l s n rows = count_spec s n rows.
Proof. exact count_fix_l. Qed.
Print Assumptions count_all_languages.

Theorem with_distinct : forall rows, with_distinct_query rows = dedup_from [] rows.
Proof. exact with_distinct_l. Qed.
Print Assumptions with_distinct.

Theorem return_distinct : forall rows, return_distinct_query rows = dedup_from [] rows.
Proof. exact return_distinct_fix_l. Qed.
Print Assumptions return_distinct.

(** before ce12a2a (finding C11-K2, fixed) and before 36a1196 (finding C11-K3, fixed) *)
Theorem gql_window_pre_unordered : forall s n rows, window_query_pre Gql false s n rows = window_spec false s n rows.
Proof. exact gql_window_unordered_l. Qed.
Print Assumptions gql_window_pre_unordered.

Theorem gql_window_pre_refuted : exists ord s n rows, window_query_pre Gql ord s n rows <> window_spec ord s n rows.
Proof. exact gql_window_refuted_l. Qed.
Print Assumptions gql_window_pre_refuted.

Theorem gql_count_pre_refuted : exists s n rows, Forall (fun r => nonnull_at 0 r = true) rows /\
  count_query_pre Gql s n rows <> count_spec s n rows.
Proof. exact gql_count_refuted_l. Qed.
Print Assumptions gql_count_pre_refuted.

Theorem return_distinct_pre_refuted : exists rows, return_distinct_query_pre rows <> dedup_from [] rows.
Proof. exact return_distinct_refuted_l. Qed.
Print Assumptions return_distinct_pre_refuted.

Theorem where_without_range_path : forall fa tab p rows, range_pred p = None ->
  rows_of (where_chunks fa tab p rows) = filter (row_passes fa (tab_env tab) p) rows.
Proof. exact where_no_range_l. Qed.
Print Assumptions where_without_range_path.

Theorem range_path_refuted : exists tab rows p, bpred p = true /\
  rows_of (where_chunks fa_none tab p rows) <> filter (row_passes fa_none (tab_env tab) p) rows.
Proof. exact range_path_refuted_l. Qed.
Print Assumptions range_path_refuted.

(** ** clauses stacked on one input *)
Theorem clauses_in_order : forall fa envf p s n cs,
  rows_of (drain_limit n (drain_skip s (drain_distinct (drain_filter fa envf p cs))))
  = firstn (Z.to_nat n) (skipn (Z.to_nat s) (dedup_from [] (filter (row_passes fa envf p) (rows_of cs)))).
Proof. exact clauses_in_order_l. Qed.
Print Assumptions clauses_in_order.

(** ** Sort *)
Theorem sort_comparator_antisym : forall keys a b, rows_cmp keys b a = - rows_cmp keys a b.
Proof. exact rows_cmp_antisym. Qed.
Print Assumptions sort_comparator_antisym.

Theorem sort_spec : forall keys cs,
  let rows := rows_of cs in
  let out := rows_of (drain_sort keys cs) in
  Permutation out rows
  /\ ((forall a b c, In a rows -> In b rows -> In c rows ->
         rows_cmp keys a b <= 0 -> rows_cmp keys b c <= 0 -> rows_cmp keys a c <= 0) ->
      StronglySorted (fun a b => rows_cmp keys a b <= 0) out
      /\ forall x, In x rows -> filter (ties (rows_cmp keys) x) out = filter (ties (rows_cmp keys) x) rows).
Proof. exact sort_spec_l. Qed.
Print Assumptions sort_spec.

(** on key columns of Int64 values, NULLs and missing values nothing is assumed *)
Theorem sort_spec_int_keys : forall keys cs, int_keyed keys (rows_of cs) = true ->
  let rows := rows_of cs in
  let out := rows_of (drain_sort keys cs) in
  Permutation out rows
  /\ StronglySorted (fun a b => rows_cmp keys a b <= 0) out
  /\ forall x, In x rows -> filter (ties (rows_cmp keys) x) out = filter (ties (rows_cmp keys) x) rows.
Proof. exact sort_spec_int_keys_l. Qed.
Print Assumptions sort_spec_int_keys.

Theorem sort_batches : forall keys cs,
  rows_of (drain_sort keys cs) = sort_by (rows_cmp keys) (rows_of cs)
  /\ Forall small_chunk (drain_sort keys cs).
Proof. exact drain_sort_l. Qed.
Print Assumptions sort_batches.

Theorem sorted_window : forall keys s n cs,
  rows_of (drain_limit n (drain_skip s (drain_sort keys cs)))
  = firstn (Z.to_nat n) (skipn (Z.to_nat s) (sort_by (rows_cmp keys) (rows_of cs))).
Proof. exact sorted_window_l. Qed.
Print Assumptions sorted_window.

Theorem sort_consistency_decidable : forall cmp rows, cmp_consistent cmp rows = true ->
  forall a b c, In a rows -> In b rows -> In c rows -> cmp a b <= 0 -> cmp b c <= 0 -> cmp a c <= 0.
Proof. exact cmp_consistent_trans. Qed.
Print Assumptions sort_consistency_decidable.

(** ** aggregates beyond COUNT *)
Theorem group_fold : forall m gcols aggs rows,
  let gs := hash_groups2 m gcols aggs rows in
  NoDup (map fst gs) /\ (forall k, In k (map fst gs) <-> In k (map (group_key gcols) rows))
  /\ (forall k sts, In (k, sts) gs -> sts = fold_aggs m aggs (filter (keyeqb gcols k) rows)).
Proof. exact hash_groups2_spec_l. Qed.
Print Assumptions group_fold.

Theorem count_star_general : forall m cs,
  simple_agg2 m [FCountStar] [TInt] cs = Ok [[VInt (Z.of_nat (length (rows_of cs)))]].
Proof. exact count_star2_l. Qed.
Print Assumptions count_star_general.

Theorem sum_spec : forall m c cs,
  let vs := col_vals c (rows_of cs) in
  forallb sum_dom vs = true -> partial_ok (- two63) (two63 - 1) 0 (ints_of_vals vs) = true ->
  simple_agg2 m [FSum c] [TInt] cs = Ok [[VInt (zsum (ints_of_vals vs))]].
Proof. exact sum_spec_l. Qed.
Print Assumptions sum_spec.

(** before a66b89b (finding C11-K10, fixed): [*sum += v] *)
Theorem sum_overflow_pre_refuted : exists l,
  sum_fold_pre Checked l = Panic /\ sum_fold_pre Wrapping l = Ok (- two63) /\ zsum l = two63.
Proof. exact sum_overflow_pre_refuted_l. Qed.
Print Assumptions sum_overflow_pre_refuted.

Theorem aggregates_never_panic : forall m vs st, st_panic st = false -> st_panic (fold_left (agg_step m) vs st) = false.
Proof. exact fold_step_no_panic. Qed.
Print Assumptions aggregates_never_panic.

Theorem avg_spec : forall m c cs,
  let vs := col_vals c (rows_of cs) in
  let l := ints_of_vals vs in
  forallb sum_dom vs = true -> forallb (fun i => Z.abs i <=? two53) l = true ->
  partial_ok (- two53) two53 0 l = true ->
  simple_agg2 m [FAvg c] [TFloat] cs
  = Ok [[match l with [] => VNull | _ => VFloat (f_of_ratio (zsum l) (Z.of_nat (length l))) end]].
Proof. exact avg_spec_l. Qed.
Print Assumptions avg_spec.

Theorem min_spec : forall m c cs,
  let vs := col_vals c (rows_of cs) in
  all_ints vs = true ->
  simple_agg2 m [FMin c] [TInt] cs
  = Ok [[match zmin_list (ints_of_vals vs) with Some z => VInt z | None => VNull end]].
Proof. exact min_spec_l. Qed.
Print Assumptions min_spec.

Theorem max_spec : forall m c cs,
  let vs := col_vals c (rows_of cs) in
  all_ints vs = true ->
  simple_agg2 m [FMax c] [TInt] cs
  = Ok [[match zmax_list (ints_of_vals vs) with Some z => VInt z | None => VNull end]].
Proof. exact max_spec_l. Qed.
Print Assumptions max_spec.

Theorem min_max_meaning : forall l z,
  (zmin_list l = Some z -> In z l /\ forall x, In x l -> z <= x)
  /\ (zmax_list l = Some z -> In z l /\ forall x, In x l -> x <= z).
Proof. intros; split; [apply zmin_list_spec|apply zmax_list_spec]. Qed.
Print Assumptions min_max_meaning.

Theorem collect_spec : forall m c cs,
  simple_agg2 m [FCollect c] [TAny] cs = Ok [[VList (col_vals c (rows_of cs))]].
Proof. exact collect_spec_l. Qed.
Print Assumptions collect_spec.

Theorem first_last_spec : forall m c cs,
  let vs := col_vals c (rows_of cs) in
  simple_agg2 m [FFirst c; FLast c] [TAny; TAny] cs
  = Ok [[match vs with [] => VNull | v :: _ => v end; match vs with [] => VNull | _ => last vs VNull end]].
Proof. exact first_last_spec_l. Qed.
Print Assumptions first_last_spec.

Theorem typed_result_faithful : forall t v, type_okb t v = true -> push_typed t v = v.
Proof. exact push_typed_ok. Qed.
Print Assumptions typed_result_faithful.

(** as it is now (41c4655): SUM / MIN / MAX / COLLECT / FIRST / LAST results keep their type *)
Theorem aggregate_result_types : forall f v,
  match f with FCountStar | FCount _ | FAvg _ => True | _ => push_typed (planner_type f) v = v end.
Proof. exact planner_type_fix_ok. Qed.
Print Assumptions aggregate_result_types.

(** before 41c4655 (finding C11-K9, fixed) *)
Theorem min_string_typed_pre_refuted : exists cs v,
  simple_agg2 Checked [FMin 0%nat] [TAny] cs = Ok [[v]] /\ v <> VInt 0
  /\ simple_agg2 Checked [FMin 0%nat] [planner_type_pre (FMin 0%nat)] cs = Ok [[VInt 0]].
Proof. exact min_string_typed_refuted_l. Qed.
Print Assumptions min_string_typed_pre_refuted.

(** as it is now (dfd360c): every group row is key ++ typed results *)
Theorem hash_agg_rows : forall m gcols aggs tys cs,
  hash_agg2 m gcols aggs tys cs
  = let gs := hash_groups2 m gcols aggs (rows_of cs) in
    if existsb (fun g => existsb st_panic (snd g)) gs then Panic else Ok (map (group_row2 tys) gs).
Proof. exact hash_agg2_fix_l. Qed.
Print Assumptions hash_agg_rows.

(** before dfd360c (finding C11-K11, fixed) *)
Theorem typed_vector_second_null_pre_refuted : exists cs,
  hash_agg2_pre Checked [0%nat] [FAvg 1%nat] [TFloat] cs = Ok [[VInt 1; VNull]; [VInt 2; VFloat 0]]
  /\ hash_agg2 Checked [0%nat] [FAvg 1%nat] [TFloat] cs = Ok [[VInt 1; VNull]; [VInt 2; VNull]].
Proof. exact typed_vector_second_null_refuted_l. Qed.
Print Assumptions typed_vector_second_null_pre_refuted.

(** non-vacuity: the hypotheses are met by non-trivial inputs *)
Example nv_bpred : bpred (EBin And (EBin Lt (EBin Add (EVar 0) (ELit (VInt 1))) (ELit (VInt 5))) (EUn Not (EVar 1))) = true
                   /\ bpred (EBin InList (EVar 0) (EList [ELit (VInt 1)])) = true.
Proof. split; reflexivity. Qed.
Example nv_partition_unknown :
  passes fa_none (EUn IsNull (EBin Gt (EBin Add (EVar 0) (ELit (VInt 1))) (ELit (VInt 0)))) [Some (VInt (two63 - 1))] = true.
Proof. reflexivity. Qed.
Example nv_wf : Forall chunk_wf [mkChunk [[VInt 1]; [VInt 2]; [VInt 3]] (Some [0; 2]); mkChunk [] None; mkChunk [[VInt 4]] None].
Proof. repeat constructor; cbn; lia. Qed.
Example nv_small : Forall small_chunk [mkChunk (int_rows 2048) None; mkChunk [[VInt 1]; [VInt 1]] (Some [1])].
Proof. repeat constructor; cbn; lia. Qed.
Example nv_sel_free : sel_free (scan_chunks (int_rows 5)) = true.
Proof. reflexivity. Qed.
Example nv_scalar : forallb key_scalar [VNull; VBool true; VInt (-1); VStr [97]] = true.
Proof. reflexivity. Qed.
Example nv_sum : let cs := [mkChunk [[VInt 3]; [VNull]; [VStr [97]]; [VInt (-5)]] (Some [0; 1; 2; 3])] in
  forallb sum_dom (col_vals 0 (rows_of cs)) = true
  /\ partial_ok (- two63) (two63 - 1) 0 (ints_of_vals (col_vals 0 (rows_of cs))) = true
  /\ simple_agg2 Checked [FSum 0%nat] [TInt] cs = Ok [[VInt (-2)]].
Proof. repeat split. Qed.
Example nv_avg : simple_agg2 Checked [FAvg 0%nat] [TFloat] [mkChunk [[VInt 1]; [VInt 2]] None] = Ok [[VFloat 4609434218613702656]].
Proof. reflexivity. Qed.
Example nv_sort_transitive :
  cmp_consistent (rows_cmp [mkSKey 0 Desc NullsLast; mkSKey 1 Asc NullsFirst])
    [[VInt 2; VStr [98]]; [VNull; VStr [97]]; [VInt 1; VNull]; [VInt 2; VStr [97]]] = true.
Proof. reflexivity. Qed.
Example nv_sort_not_transitive_on_mixed_types :
  cmp_consistent (rows_cmp [mkSKey 0 Asc NullsLast]) [[VInt 1]; [VStr [97]]; [VInt 0]] = false.
Proof. reflexivity. Qed.
Example nv_int_keyed : int_keyed [mkSKey 0 Desc NullsLast; mkSKey 2 Asc NullsFirst] [[VInt 2; VStr [98]]; [VNull; VStr [97]; VInt 1]] = true.
Proof. reflexivity. Qed.
