(** C02 — commit and rollback are all-or-nothing: the property theorems (statements only; proofs are in
    Mvcc/Proofs*.v).  Pinned by props/C02.statements.

    [atomic_ok ops outs ds] is the specification (Mvcc/Spec.v): for every isolated transaction of the
    history that is enclosed by two dumps (full observable state through every access path), rollback /
    dropping the session leaves the dump unchanged and commit makes it the dump of (old state + the
    transaction's writes).  [c02_k c] = "finding class c explains a failure" (Mvcc/Run.v). *)
From GV Require Export Mvcc.Model Mvcc.Canon Mvcc.Spec Mvcc.Run.
From GV Require Export Mvcc.ProofsVis Mvcc.ProofsInv Mvcc.ProofsThm Mvcc.ProofsSpec Mvcc.ProofsExpand Mvcc.ProofsRefuted Mvcc.ProofsAtomic.
From Coq Require Export ZArith List Bool.
Export ListNotations.
Open Scope Z_scope.

(** *** rollback removes every version the transaction created, for every reader, for ever *)
Theorem rollback_versions : forall ops s t,
  sess (final ops) s = Some t ->
  let st' := fst (step (final ops) (Rollback s)) in
  snd (step (final ops) (Rollback s)) = OUnit
  /\ tm_state st' t = Some Aborted
  /\ (forall n v, In v (n_chain st' n) \/ In v (e_chain st' n) -> v_by v <> t)
  /\ (forall n e' t', (forall v, In v (n_chain (final ops) n) -> v_by v = t) -> get_node_versioned st' n e' t' = None)
  /\ (forall x e' t', (forall v, In v (e_chain (final ops) x) -> v_by v = t) -> get_edge_versioned st' x e' t' = None).
Proof. exact rollback_versions_l. Qed.
Print Assumptions rollback_versions.

Theorem no_aborted_versions : forall ops n v,
  In v (n_chain (final ops) n) \/ In v (e_chain (final ops) n) ->
  tm_state (final ops) (v_by v) <> Some Aborted.
Proof. exact no_aborted_versions_l. Qed.
Print Assumptions no_aborted_versions.

(** *** triples: rollback leaves the committed set alone, commit applies the whole buffer in order, and
    nothing else ever touches the committed set or another transaction's buffer *)
Theorem rdf_atomic : forall st s t, sess st s = Some t ->
  (let st' := fst (step st (Rollback s)) in rdf st' = rdf st /\ rdf_buf st' t = [])
  /\ (let st' := fst (step st (Commit s)) in
      rdf st' = fold_left apply_pend (rdf_buf st t) (rdf st) /\ rdf_buf st' t = []).
Proof. intros st s t H. split; [apply rdf_rollback_drops_buffer_l|apply rdf_commit_applies_buffer_l]; exact H. Qed.
Print Assumptions rdf_atomic.

Theorem rdf_frame : forall st o, rdf_neutral o = true ->
  rdf (fst (step st o)) = rdf st /\ rdf_buf (fst (step st o)) = rdf_buf st.
Proof. exact rdf_frame_l. Qed.
Print Assumptions rdf_frame.

(** *** commit: every creation of the transaction is visible to everybody who begins afterwards *)
Theorem commit_visible_later : forall ops s t,
  sess (final ops) s = Some t ->
  let st' := fst (step (final ops) (Commit s)) in
  snd (step (final ops) (Commit s)) = OUnit
  /\ forall n v, (In v (n_chain st' n) \/ In v (e_chain st' n)) -> v_by v = t -> v_deleted v = None ->
       forall e' t', tm_epoch st' <= e' -> v_visible_to v e' t' = true.
Proof. exact commit_visible_later_l. Qed.
Print Assumptions commit_visible_later.

(** *** the transaction state machine; a session's commit cannot fail (so "a commit that reports an
    error" is not reachable through sessions: nothing fills the write sets the manager validates) *)
Theorem tx_state_machine : forall ops o t,
  (tm_state (final ops) t = Some Committed \/ tm_state (final ops) t = Some Aborted) ->
  tm_state (fst (step (final ops) o)) t = tm_state (final ops) t.
Proof. intros ops o t. apply final_states_absorb_l. apply inv_final. Qed.
Print Assumptions tx_state_machine.

Theorem second_end_is_error : forall st s, sess st s = None ->
  step st (Commit s) = (st, OErr) /\ step st (Rollback s) = (st, OErr).
Proof. exact second_end_is_error_l. Qed.
Print Assumptions second_end_is_error.

Theorem end_closes_session : forall st s,
  sess (fst (step st (Commit s))) s = None /\ sess (fst (step st (Rollback s))) s = None.
Proof. exact end_closes_session_l. Qed.
Print Assumptions end_closes_session.

(** along every history the outcome of every Begin / Commit / Rollback / drop is the one the specification's
    state machine prescribes: Begin succeeds iff the session has no open transaction, Commit and Rollback
    succeed iff it has one ([ctl_fails] lists the positions where the recorded outputs say otherwise; the check
    evaluates it on the implementation's outputs) *)
Theorem tx_control_follows_spec : forall ops, ctl_fails ops (mrun ops) = [].
Proof. exact tx_control_follows_spec_l. Qed.
Print Assumptions tx_control_follows_spec.

Theorem commit_never_fails : forall ops s t, sess (final ops) s = Some t ->
  snd (step (final ops) (Commit s)) = OUnit
  /\ tm_state (fst (step (final ops) (Commit s))) t = Some Committed
  /\ tm_epoch (fst (step (final ops) (Commit s))) = tm_epoch (final ops) + 1.
Proof.
  intros ops s t H. destruct (commit_ok_l (final ops) s t (inv_final ops) H) as [H1 [H2 [H3 _]]]. auto.
Qed.
Print Assumptions commit_never_fails.

(** latent (no history of sessions reaches it, by [commit_never_fails]): IF the manager refused the commit of a
    session's transaction, the refusal would come after the triple buffer has been applied
    ([rdf_store.commit_tx] runs before [tx_manager.commit]), the session would have left the transaction and
    every node / edge version and in-place write of the transaction would stay *)
Theorem failed_commit_would_leak : forall st s t, sess st s = Some t -> tm_state st t <> Some Active ->
  let st' := fst (step st (Commit s)) in
  snd (step st (Commit s)) = OErr
  /\ rdf st' = fold_left apply_pend (rdf_buf st t) (rdf st)
  /\ sess st' s = None
  /\ n_chain st' = n_chain st /\ e_chain st' = e_chain st /\ n_props st' = n_props st
  /\ n_labels st' = n_labels st /\ l_index st' = l_index st /\ tm_state st' = tm_state st.
Proof. exact failed_commit_would_leak_l. Qed.
Print Assumptions failed_commit_would_leak.

(** *** atomic_outside_K: transactions made only of node creations without labels and properties, triple
    operations and reads ([frag]), other sessions only reading meanwhile.
    Rollback: every read of every session through every access path returns what it returned before the
    begin.  Commit: the buffer is applied in order, every created node is visible to everybody who begins
    afterwards (through the store-epoch paths too when the transaction began at epoch 0), nothing else changes. *)
Theorem atomic_rollback_outside_K : forall ops0 s seg,
  sess (final ops0) s = None -> forallb (frag s) seg = true ->
  forall s' k, read (fst (run_from (final ops0) (Begin s :: seg ++ [Rollback s]))) s' k = read (final ops0) s' k.
Proof. exact atomic_rollback_outside_K_l. Qed.
Print Assumptions atomic_rollback_outside_K.

Theorem atomic_commit_outside_K : forall ops0 s seg,
  let st0 := final ops0 in
  sess st0 s = None -> forallb (frag s) seg = true ->
  let st1 := fst (run_from st0 (Begin s :: seg ++ [Commit s])) in
  rdf st1 = fold_left apply_pend (seg_pend seg) (rdf st0)
  /\ (forall n, n_next st0 <= n < n_next st1 ->
        n_labels st1 n = [] /\
        (forall e' t', tm_epoch st1 <= e' -> c_visible_to (n_chain st1 n) e' t' = true) /\
        (tm_epoch st0 = 0 -> c_visible_at (n_chain st1 n) (st_epoch st1) = true))
  /\ tm_epoch st1 = tm_epoch st0 + 1
  /\ (forall n, n < n_next st0 -> n_chain st1 n = n_chain st0 n /\ n_labels st1 n = n_labels st0 n)
  /\ (forall n, n_props st1 n = n_props st0 n) /\ (forall l, l_index st1 l = l_index st0 l)
  /\ e_next st1 = e_next st0 /\ (forall x, e_chain st1 x = e_chain st0 x /\ e_rec st1 x = e_rec st0 x)
  /\ (forall n, fwd st1 n = fwd st0 n /\ fwd_del st1 n = fwd_del st0 n /\ bwd st1 n = bwd st0 n /\ bwd_del st1 n = bwd_del st0 n)
  /\ (forall s', sess st1 s' = sess st0 s').
Proof. exact atomic_commit_outside_K_l. Qed.
Print Assumptions atomic_commit_outside_K.

(** *** HEAD violates the property: one witness per class (replayed on the implementation by every run) *)
Theorem rollback_inplace_refuted : exists ops ds, c02_k 1 ops (mrun ops) ds = true /\ atomic_ok ops (mrun ops) ds = false.
Proof. exists (fst w2_k1), (snd w2_k1). exact rollback_inplace_refuted_l. Qed.
Print Assumptions rollback_inplace_refuted.
Theorem rollback_creation_refuted : exists ops ds, c02_k 2 ops (mrun ops) ds = true /\ atomic_ok ops (mrun ops) ds = false.
Proof. exists (fst w2_k2), (snd w2_k2). exact rollback_creation_refuted_l. Qed.
Print Assumptions rollback_creation_refuted.
(** C02-K4 (no Drop for Session) is repaired by 3eb02b5: on the pre-repair model ([step_pre]) a session dropped with
    an open transaction leaves its writes, on the current model the dump after the drop equals the dump before
    the begin *)
Theorem drop_pre_refuted : exists ops ds,
  atomic_ok ops (mrun_pre ops) ds = false /\ atomic_ok ops (mrun ops) ds = true /\ c02_checked ops (mrun ops) ds = 1.
Proof.
  exists (fst w2_k4_plain), (snd w2_k4_plain). destruct drop_pre_refuted_l as [H1 [H2 [H3 _]]]. auto.
Qed.
Print Assumptions drop_pre_refuted.
(** dropping a session with an open transaction IS rolling that transaction back: same state as [Rollback],
    the transaction is Aborted, none of its versions exists for any reader, its triple buffer is discarded;
    dropping a session without transaction does nothing *)
Theorem drop_rolls_back : forall ops s t, sess (final ops) s = Some t ->
  let st' := fst (step (final ops) (DropSession s)) in
  st' = fst (step (final ops) (Rollback s))
  /\ snd (step (final ops) (DropSession s)) = OUnit
  /\ tm_state st' t = Some Aborted
  /\ (forall n v, In v (n_chain st' n) \/ In v (e_chain st' n) -> v_by v <> t)
  /\ rdf st' = rdf (final ops) /\ rdf_buf st' t = [] /\ sess st' s = None.
Proof. exact drop_rolls_back_l. Qed.
Print Assumptions drop_rolls_back.
Theorem drop_idle : forall st s, sess st s = None -> step st (DropSession s) = (st, OUnit).
Proof. exact drop_idle_l. Qed.
Print Assumptions drop_idle.
Theorem commit_epoch_refuted : exists ops ds, c02_k 5 ops (mrun ops) ds = true /\ atomic_ok ops (mrun ops) ds = false.
Proof. exists (fst w2_k5), (snd w2_k5). exact commit_epoch_refuted_l. Qed.
Print Assumptions commit_epoch_refuted.

(** *** non-vacuity: transactions of creations without labels / properties and triple operations, rolled
    back and committed, observed by another session, pass the specification *)
Example nv_atomic :
  atomic_ok (fst w2_clean_rollback) (mrun (fst w2_clean_rollback)) (snd w2_clean_rollback) = true
  /\ c02_checked (fst w2_clean_rollback) (mrun (fst w2_clean_rollback)) (snd w2_clean_rollback) = 1
  /\ atomic_ok (fst w2_clean_commit) (mrun (fst w2_clean_commit)) (snd w2_clean_commit) = true
  /\ c02_checked (fst w2_clean_commit) (mrun (fst w2_clean_commit)) (snd w2_clean_commit) = 1.
Proof. exact atomic_examples_l. Qed.
Example nv_open_tx : exists ops s t, sess (final ops) s = Some t.
Proof. exists [Begin 0], 0, 2. reflexivity. Qed.
(** the fragment of [atomic_*_outside_K] contains transactions with mutations of different kinds, observed by others *)
Example nv_frag :
  forallb (frag 0) [CreateNode 0 [] []; InsertTriple 0 (1, 1, 1); Read 1 AllScan; DeleteTriple 0 (0, 0, 0); Read 9 (TripleQ (None, None, None))] = true
  /\ sess (final [CreateNode 9 [0] [(1, Some 2)]; InsertTriple 9 (0, 0, 0)]) 0 = None.
Proof. split; reflexivity. Qed.
