(** C12 — no query text can crash or hang the embedding process: the property theorems
    (statements only; proofs are in Lex/Proofs*.v).  Pinned by props/C12.statements.

    The theorems cover four cores — lexer cursors, lexer termination, filter arithmetic and index
    arithmetic, transcribed parser loops / recursion depth.  Grammars, translators, binder, planner
    and execution are searched by the check, not proved. *)
From GV Require Export Lex.Cursor Lex.Check Lex.Lexers Lex.Values Lex.Arith Lex.Progress.
From GV Require Import Lex.ProofsCursor Lex.ProofsValues Lex.ProofsArith Lex.ProofsProgress.
Open Scope Z_scope.

(** * 1. lexer cursors *)
Theorem cursor_on_boundary_gql : forall s, exists ts, lex_gql s = Done ts /\ spans_on_boundaries s ts.
Proof. exact (byte_lexer_safe gql_next eq_refl). Qed.
Print Assumptions cursor_on_boundary_gql.

Theorem cursor_on_boundary_cypher : forall s, exists ts, lex_cypher s = Done ts /\ spans_on_boundaries s ts.
Proof. exact (byte_lexer_safe cypher_next eq_refl). Qed.
Print Assumptions cursor_on_boundary_cypher.

Theorem cursor_on_boundary_sparql : forall s, exists ts, lex_sparql s = Done ts /\ spans_on_boundaries s ts.
Proof. exact (byte_lexer_safe sparql_next eq_refl). Qed.
Print Assumptions cursor_on_boundary_sparql.

Theorem gremlin_lexer_total : forall s, exists ts, lex_gremlin s = Done ts.
Proof. exact (iter_lexer_safe gremlin_next eq_refl). Qed.
Print Assumptions gremlin_lexer_total.

Theorem gql_cursor_pre_refuted : exists s, lex_gql_pre s = Crash.
Proof. exists [(233, 1)]. reflexivity. Qed.
Print Assumptions gql_cursor_pre_refuted.

Theorem graphql_cursor_pre_refuted : exists s, lex_graphql_pre s = Crash.
Proof. exists [(34, 0); (34, 0); (34, 0); (233, 1); (34, 0); (34, 0); (34, 0)]. reflexivity. Qed.
Print Assumptions graphql_cursor_pre_refuted.

Theorem graphql_cursor_pre_ascii : forall s, Forall (fun c => width (cp c) = 1) s -> exists ts, lex_graphql_pre s = Done ts.
Proof. exact (iter_lexer_ascii_safe graphql_next_pre eq_refl). Qed.
Print Assumptions graphql_cursor_pre_ascii.

(** the block-string values: [dedent_block_string] slices at a byte count (finding C12-K7) *)
Theorem graphql_dedent_pre_refuted : exists s, (exists ts, lex_graphql_pre s = Done ts) /\ lex_graphql_full_pre s = Crash.
Proof.
  exists [(34, 0); (34, 0); (34, 0); (10, 4); (160, 4); (120, 1); (10, 4); (32, 4); (121, 1); (34, 0); (34, 0); (34, 0)].
  split; [eexists|]; vm_compute; reflexivity.
Qed.
Print Assumptions graphql_dedent_pre_refuted.

(** [dedent_block_string] can only crash on white space that is wider than one byte ... *)
Theorem dedent_pre_crash_needs_wide_whitespace : forall v,
  (forall c, In c v -> is_wsf c = true -> width (cp c) = 1) -> exists r, dedent_pre v = Done r.
Proof. exact dedent_total_l. Qed.
Print Assumptions dedent_pre_crash_needs_wide_whitespace.

(** ... and on ASCII documents the values of all block strings are computed without a crash and
    without running out of fuel (token starts are character counts, hence not negative) *)
Theorem graphql_block_values_pre_ascii : forall s ts, Forall (fun c => width (cp c) = 1) s ->
  Forall (fun t : Z * Z * Z => 0 <= snd (fst t)) ts -> exists vs, block_values_pre s ts = Done vs.
Proof. exact block_values_ascii_l. Qed.
Print Assumptions graphql_block_values_pre_ascii.

Theorem graphql_full_pre_ascii : forall s, Forall (fun c => width (cp c) = 1) s -> exists r, lex_graphql_full_pre s = Done r.
Proof. exact graphql_full_ascii_l. Qed.
Print Assumptions graphql_full_pre_ascii.

(** the lexer as it is now (after 9a1aff1: look-ahead on a clone of the character iterator, checked slicing in
    dedent) is total on EVERY text, the computation of the block-string values included *)
Theorem graphql_lexer_total : forall s, exists ts, lex_graphql s = Done ts.
Proof. exact (iter_lexer_safe graphql_next eq_refl). Qed.
Print Assumptions graphql_lexer_total.

Theorem graphql_full_total : forall s, exists r, lex_graphql_full s = Done r.
Proof. exact graphql_full_total_l. Qed.
Print Assumptions graphql_full_total.

(** * 2. lexer termination: fuel = number of characters + 1 suffices for every lexer, every text *)
Theorem lex_terminates : forall s,
  lex_gql s <> NoFuel /\ lex_cypher s <> NoFuel /\ lex_sparql s <> NoFuel /\
  lex_gremlin s <> NoFuel /\ lex_graphql s <> NoFuel /\ lex_graphql_pre s <> NoFuel.
Proof.
  intro s. repeat split;
    [exact (lexer_terminates Byte gql_next eq_refl s) | exact (lexer_terminates Byte cypher_next eq_refl s)
    | exact (lexer_terminates Byte sparql_next eq_refl s) | exact (lexer_terminates Iter gremlin_next eq_refl s)
    | exact (lexer_terminates Iter graphql_next eq_refl s) | exact (lexer_terminates Iter graphql_next_pre eq_refl s)].
Qed.
Print Assumptions lex_terminates.

(** * 3. expression arithmetic *)
Theorem eval_arith_never_panics : forall op a b, arith op a b <> APanic.
Proof. exact arith_never_panics_l. Qed.
Print Assumptions eval_arith_never_panics.

Theorem eval_never_panics : forall e, eval e <> APanic.
Proof. exact eval_never_panics_l. Qed.
Print Assumptions eval_never_panics.

Theorem arith_repair_exact : forall op a b,
  arith op a b = match arith_pre Checked op a b with APanic => AVal None | r => r end.
Proof. exact arith_repair_exact_l. Qed.
Print Assumptions arith_repair_exact.

Theorem arith_value_in_range : forall op a b v, in_i64 a -> in_i64 b -> arith op a b = AVal (Some v) ->
  v = math op a b /\ in_i64 v.
Proof. exact arith_value_l. Qed.
Print Assumptions arith_value_in_range.

Theorem arith_pre_refuted :
  arith_pre Checked OAdd i64_max 1 = APanic /\
  (forall m, arith_pre m ODiv 7 0 = APanic) /\
  (forall m, arith_pre m ODiv i64_min (-1) = APanic) /\
  (forall m, arith_pre m OMod i64_min (-1) = APanic) /\
  neg_pre Checked i64_min = APanic.
Proof. exact arith_pre_refuted_l. Qed.
Print Assumptions arith_pre_refuted.

Theorem index_never_panics : forall m len i, 0 <= len < two63 -> in_i64 i ->
  list_index m len i <> Panic /\ str_index m len len i <> Panic.
Proof. intros m len i H1 H2. split; [apply list_index_never_panics_l|apply str_index_never_panics_l]; assumption. Qed.
Print Assumptions index_never_panics.

Theorem index_in_bounds : forall m len i k, 0 <= len < two63 -> in_i64 i ->
  list_index m len i = Ok (Some k) ->
  0 <= k < len /\ (0 <= i -> k = i) /\ (i < 0 -> k = len + i).
Proof. exact list_index_in_bounds_l. Qed.
Print Assumptions index_in_bounds.

Theorem slice_in_bounds : forall len st en, 0 <= len ->
  0 <= fst (slice_range len st en) <= snd (slice_range len st en) /\ snd (slice_range len st en) <= len.
Proof. exact slice_range_in_bounds_l. Qed.
Print Assumptions slice_in_bounds.

(** the integer SUM aggregate adds with the plain operator (finding C12-K8) *)
Theorem sum_overflow_pre_refuted : exists vs, Forall in_i64 vs /\ sum_int_pre Checked 0 vs = Panic.
Proof.
  exists [i64_max; 1]. split; [|reflexivity].
  repeat constructor; unfold in_i64, i64_max, two63; lia.
Qed.
Print Assumptions sum_overflow_pre_refuted.

Theorem sum_pre_checked_panics_iff : forall vs acc, sum_int_pre Checked acc vs = Panic <-> ~ prefixes_fit acc vs.
Proof. exact sum_int_checked_panics_iff_l. Qed.
Print Assumptions sum_pre_checked_panics_iff.

Theorem sum_pre_exact_when_prefixes_fit : forall m vs acc, prefixes_fit acc vs -> sum_int_pre m acc vs = Ok (acc + zsum vs).
Proof. exact sum_int_exact_l. Qed.
Print Assumptions sum_pre_exact_when_prefixes_fit.

Theorem sum_pre_wrapping_never_panics : forall vs acc, sum_int_pre Wrapping acc vs <> Panic.
Proof. exact sum_int_wrapping_total_l. Qed.
Print Assumptions sum_pre_wrapping_never_panics.

(** the aggregate as it is now (after a66b89b): an integer total exactly when every partial sum fits, a float
    otherwise; it agrees with the old code wherever that did not panic *)
Theorem sum_repair_exact : forall vs acc,
  sum_int acc vs = match sum_int_pre Checked acc vs with Ok t => Some t | Panic => None end.
Proof. exact sum_repair_exact_l. Qed.
Print Assumptions sum_repair_exact.

Theorem sum_exact_when_prefixes_fit : forall vs acc, prefixes_fit acc vs -> sum_int acc vs = Some (acc + zsum vs).
Proof. exact sum_int_exact_cur_l. Qed.
Print Assumptions sum_exact_when_prefixes_fit.

Theorem sum_float_iff : forall vs acc, sum_int acc vs = None <-> ~ prefixes_fit acc vs.
Proof. exact sum_int_float_iff_l. Qed.
Print Assumptions sum_float_iff.

(** * 4. parser loops and recursion depth *)
Theorem loops_progress : forall n l more ts, (1 <= n)%nat -> loop_ok n l = true ->
  Forall (fun k => 1 <= k < Z.of_nat n) ts ->
  run_loop (S (List.length ts)) l more ts <> LNoFuel.
Proof. intros n l more ts Hn Hok Hts. apply (loops_progress_l n l more Hn Hok); [assumption|apply Nat.lt_succ_diag_r]. Qed.
Print Assumptions loops_progress.

Theorem parser_loop_tables_pass :
  forallb (loop_ok Gql.N) Gql.loops = true /\
  forallb (loop_ok Cypher.N) Cypher.loops = true /\
  forallb (loop_ok Gremlin.N) Gremlin.loops = true /\
  forallb (loop_ok Graphql.N) Graphql.loops = true /\
  forallb (loop_ok Sparql.N) Sparql.other_loops = true /\
  forallb (loop_ok Sparql.N) Sparql.group_loops = true.
Proof. repeat split; try apply tables_ok_l. Qed.
Print Assumptions parser_loop_tables_pass.

Theorem sparql_group_loop_pre_refuted : forall l, In l Sparql.group_loops_pre ->
  loop_ok Sparql.N l = false /\ forall fuel more, run_loop fuel l more [Sparql.OTHER] = LNoFuel.
Proof.
  intros l [<-|[<-|[]]]; (split; [apply sparql_group_not_ok_l|intros; apply sparql_group_stalls_l]).
Qed.
Print Assumptions sparql_group_loop_pre_refuted.

Theorem sparql_group_loop_pre_progress_without_stall : forall l, In l Sparql.group_loops_pre ->
  forall more ts, Forall (fun k => 1 <= k < Sparql.OTHER) ts ->
  run_loop (S (List.length ts)) l more ts <> LNoFuel.
Proof.
  intros l [<-|[<-|[]]] more ts Hts; apply sparql_group_progress_l; try assumption; apply Nat.lt_succ_diag_r.
Qed.
Print Assumptions sparql_group_loop_pre_progress_without_stall.

Theorem depth_unbounded_pre_refuted : forall n, rec_depth (nested n) = Some n /\ List.length (nested n) = (2 * n + 1)%nat.
Proof.
  intro n. split; [apply rec_depth_nested_l|].
  unfold nested. rewrite !app_length, !repeat_length. cbn [List.length]. lia.
Qed.
Print Assumptions depth_unbounded_pre_refuted.

Theorem depth_limit_bounds : forall L fuel ts m r, descend fuel (Some L) 0 ts = Some (m, r) -> (m <= L)%nat.
Proof. intros L fuel ts m r H. eapply depth_limited_l; [eassumption|apply Nat.le_0_l]. Qed.
Print Assumptions depth_limit_bounds.

Theorem depth_bounded_128 : forall fuel ts m r,
  descend fuel (Some MAX_NESTING_DEPTH) 0 ts = Some (m, r) -> (m <= 128)%nat.
Proof. intros fuel ts m r H. eapply depth_limited_l; [eassumption|apply Nat.le_0_l]. Qed.
Print Assumptions depth_bounded_128.

Theorem deep_nest_rejected : rec_depth_cur (nested 128) = Some 128%nat /\ rec_depth_cur (nested 129) = None /\
  rec_depth_cur (nested 2000) = None.
Proof. vm_compute. repeat split. Qed.
Print Assumptions deep_nest_rejected.

(** non-vacuity *)
Example nv_src : exists s, Forall (fun c => width (cp c) = 1) s /\ s <> [].
Proof. exists [(123, 0); (97, 1); (125, 0)]. split; [repeat constructor|discriminate]. Qed.
Example nv_boundary : spans_on_boundaries [(233, 1); (97, 1)] [(1, 0, 2); (1, 2, 3)].
Proof.
  repeat constructor; cbn [fst snd].
  all: try (exists [], [(233, 1); (97, 1)]; split; reflexivity).
  all: try (exists [(233, 1)], [(97, 1)]; split; reflexivity).
  all: try (exists [(233, 1); (97, 1)], []; split; reflexivity).
  all: try (cbn; lia).
Qed.
Example nv_block_value :
  let s := [(34, 0); (34, 0); (34, 0); (97, 1); (10, 4); (32, 4); (32, 4); (98, 1); (10, 4); (32, 4); (99, 1); (34, 0); (34, 0); (34, 0)] in
  Forall (fun c => width (cp c) = 1) s /\ lex_graphql_full s = Done ([(11, 0, 14); (0, 14, 14)], [[97; 10; 32; 98; 10; 99]]).
Proof. split; [repeat constructor|vm_compute; reflexivity]. Qed.
Example nv_i64 : in_i64 i64_min /\ in_i64 i64_max /\ 0 <= 3 < two63.
Proof. unfold in_i64, i64_min, i64_max, two63. lia. Qed.
Example nv_arith : arith OAdd i64_max 1 = AVal None /\ arith ODiv 7 2 = AVal (Some 3) /\ arith OMod (-7) 2 = AVal (Some (-1)).
Proof. repeat split. Qed.
Example nv_sum : prefixes_fit 0 [i64_max; i64_min; 5] /\ sum_int 0 [i64_max; i64_min; 5] = Some 4 /\ sum_int 0 [i64_max; 1] = None.
Proof. split; [|split; reflexivity]. cbn [prefixes_fit]. unfold in_i64, i64_max, i64_min, two63. lia. Qed.
Example nv_loop : exists l, In l Gql.loops /\ loop_ok Gql.N l = true /\
  run_loop 4 l (fun _ => Some 1%nat) [Gql.COMMA; Gql.OTHER; Gql.COMMA; Gql.OTHER] = LExit [].
Proof. exists (nth 7 Gql.loops (wh String.EmptyString [])). split; [cbn; tauto|split; reflexivity]. Qed.
Example nv_stall_tokens : Forall (fun k => 1 <= k < Sparql.OTHER) [Sparql.LBRACE; Sparql.TSTART; Sparql.KW; Sparql.RBRACE].
Proof. repeat constructor; unfold Sparql.OTHER, Sparql.LBRACE, Sparql.TSTART, Sparql.KW, Sparql.RBRACE; lia. Qed.
