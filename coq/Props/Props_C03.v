(** C03 — first committer wins: the property theorems (statements only; proofs are in
    Tm/SpecProofs.v, Tm/Refine.v, Tm/Proofs.v).  Pinned by props/C03.statements.

    Vocabulary (Tm/Model.v, Tm/Spec.v): [outs ops] = the model's answers to the operation list
    [ops] from the initial manager; [answer pre o] = its answer to [o] after the history [pre];
    [hist_of ops] = the history of the run (per transaction: level, start = number of commits
    before its begin, write set, read set, reads with the version seen, how it ended),
    reconstructed from the operations and answers only. *)
From GV Require Export Tm.Model Tm.Spec Tm.Run.
From GV Require Import Tm.AL Tm.SpecProofs Tm.Refine Tm.Proofs Tm.RunProofs.
Import ListNotations.
Open Scope Z_scope.

Theorem fcw_safety : forall ops t1 t2 r1 r2 c1 c2,
  t1 <> t2 -> committed_at (hist_of ops) t1 r1 c1 -> committed_at (hist_of ops) t2 r2 c2 ->
  overlap r1 r2 c1 c2 -> disjoint (h_ws r1) (h_ws r2).
Proof. exact fcw_safety_l. Qed.
Print Assumptions fcw_safety.

Theorem gc_keeps_needed : forall ops t r c a ra,
  committed_at (hist_of ops) t r c -> lookup a (hist_of ops) = Some ra -> is_act ra = true ->
  h_start ra < c ->
  exists i, lookup t (txs (st_after ops)) = Some i /\ t_state i = Committed /\ t_ws i = h_ws r /\
            lookup t (committed (st_after ops)) = Some c.
Proof. exact gc_keeps_needed_l. Qed.
Print Assumptions gc_keeps_needed.

Theorem commit_epochs : forall ops,
  commit_outs ops (outs ops) = zseq 1 (length (commit_outs ops (outs ops))) /\
  epoch (st_after ops) = Z.of_nat (length (commit_outs ops (outs ops))).
Proof. exact commit_epochs_l. Qed.
Print Assumptions commit_epochs.

Theorem start_epochs : forall pre i,
  exists t info, answer pre (Begin i) = OkTx t /\
    lookup t (txs (st_after (pre ++ [Begin i]))) = Some info /\
    t_state info = Active /\ t_iso info = i /\
    t_start info = Z.of_nat (length (commit_outs pre (outs pre))).
Proof. exact start_epochs_l. Qed.
Print Assumptions start_epochs.

Theorem no_spurious_refusal : forall pre t,
  answer pre (Commit t) = Err WriteConflict ->
  exists r t' r' c', lookup t (hist_of pre) = Some r /\ is_act r = true /\ t' <> t /\
     committed_at (hist_of pre) t' r' c' /\ h_start r < c' /\
     exists e, In e (h_ws r) /\ In e (h_ws r').
Proof. exact no_spurious_refusal_l. Qed.
Print Assumptions no_spurious_refusal.

Theorem no_spurious_refusal_pre_refuted :
  exists ops, ww_justified [] (combine ops (outs_pre ops)) = false /\
              nonoverlap_ok [] (combine ops (outs_pre ops)) = false.
Proof. exact no_spurious_refusal_pre_refuted_l. Qed.
Print Assumptions no_spurious_refusal_pre_refuted.

Theorem gc_transparent : forall ops1 ops2,
  remove_gc ops1 = remove_gc ops2 ->
  nongc_outs ops1 (outs ops1) = nongc_outs ops2 (outs ops2) /\ hist_of ops1 = hist_of ops2.
Proof. exact gc_transparent_l2. Qed.
Print Assumptions gc_transparent.

Theorem gc_transparent_removal : forall ops, nongc_outs ops (outs ops) = outs (remove_gc ops).
Proof. exact gc_transparent_l. Qed.
Print Assumptions gc_transparent_removal.

Theorem gc_transparent_pre_refuted :
  exists ops, nongc_outs ops (outs_pre ops) <> outs_pre (remove_gc ops).
Proof. exact gc_transparent_pre_refuted_l. Qed.
Print Assumptions gc_transparent_pre_refuted.

Theorem model_refines_spec : forall ops,
  nongc_outs ops (outs ops) = snd (spec_run [] (remove_gc ops)) /\
  hist_of ops = fst (spec_run [] (remove_gc ops)).
Proof. exact model_refines_spec_l. Qed.
Print Assumptions model_refines_spec.

Theorem tx_state_machine : forall pre o t r r',
  lookup t (hist_of pre) = Some r -> lookup t (hist_of (pre ++ [o])) = Some r' ->
  h_iso r' = h_iso r /\ h_start r' = h_start r /\
  (h_end r' = h_end r \/
   (h_end r = HActive /\
    (h_end r' = HAborted \/
     exists c, h_end r' = HCommitted c /\ o = Commit t /\ answer pre o = OkEpoch c))).
Proof. exact active_transitions_l. Qed.
Print Assumptions tx_state_machine.

Theorem finished_is_final : forall pre o t r,
  lookup t (hist_of pre) = Some r -> is_act r = false -> lookup t (hist_of (pre ++ [o])) = Some r.
Proof. exact finished_is_final_l. Qed.
Print Assumptions finished_is_final.

Theorem not_active_refused : forall pre o t,
  target o = Some t -> active_in (hist_of pre) t = false ->
  step (st_after pre) o = (st_after pre, Err InvalidState).
Proof. exact not_active_refused_l. Qed.
Print Assumptions not_active_refused.

Theorem oracle_c03_sound : forall ops,
  fcw_okb (hist_of ops) = true /\ ww_justified [] (combine ops (outs ops)) = true /\
  stale_refused [] (combine ops (outs ops)) = true /\ epochs_ok [] (combine ops (outs ops)) = true /\
  conforms [] (combine ops (outs ops)) = true.
Proof. exact oracle_c03_sound_l. Qed.
Print Assumptions oracle_c03_sound.

(** session level (finding C03-K2): nothing on the query path registers writes, so the manager
    accepts both commits of a lost update issued through two sessions *)
Theorem session_lost_update_refuted :
  exists sops ks, chk_session sops ks = true /\ oracle_sess_c03 sops ks = false /\ k_sess_c03 sops ks = true.
Proof. exact session_lost_update_refuted_l. Qed.
Print Assumptions session_lost_update_refuted.

(** non-vacuity: the hypotheses are met by real runs *)
Definition ex_two_writers : list op :=
  [Begin SnapshotIsolation; Begin SnapshotIsolation; Begin ReadCommitted;
   Write 2 (ENode 7); Write 3 (ENode 7); Write 4 (EEdge 7); Write 3 (EEdge 1);
   Commit 2; Gc; Commit 3; Commit 4; Gc; Commit 2; Abort 9].
Example nv_run :
  outs ex_two_writers =
    [OkTx 2; OkTx 3; OkTx 4; OkUnit; OkUnit; OkUnit; OkUnit; OkEpoch 1; OkCount 0;
     Err WriteConflict; OkEpoch 2; OkCount 0; Err InvalidState; Err InvalidState].
Proof. vm_compute. reflexivity. Qed.
(** two overlapping committed transactions (2 and 4) — the premises of [fcw_safety] hold *)
Example nv_fcw : exists r1 r2,
  committed_at (hist_of ex_two_writers) 2 r1 1 /\ committed_at (hist_of ex_two_writers) 4 r2 2 /\
  overlap r1 r2 1 2 /\ h_ws r1 = [ENode 7] /\ h_ws r2 = [EEdge 7].
Proof. eexists. eexists. vm_compute. repeat split; reflexivity. Qed.
(** a refusal that [no_spurious_refusal] explains, and a non-active target for [not_active_refused] *)
Example nv_refusal :
  answer (firstn 9 ex_two_writers) (Commit 3) = Err WriteConflict /\
  active_in (hist_of ex_two_writers) 2 = false /\ active_in (hist_of ex_two_writers) 99 = false.
Proof. vm_compute. repeat split; reflexivity. Qed.
(** garbage collection really removes — but not while transaction 3 (still Active after its
    refused commit, start epoch 0) pins the committed writers it may conflict with *)
Example nv_gc :
  keys (txs (st_after (ex_two_writers ++ [Gc]))) = [4; 3; 2] /\
  snd (step (st_after ex_two_writers) Gc) = OkCount 0 /\
  keys (txs (st_after (ex_two_writers ++ [Abort 3; Gc]))) = [] /\
  snd (step (st_after (ex_two_writers ++ [Abort 3])) Gc) = OkCount 3.
Proof. vm_compute. repeat split; reflexivity. Qed.
(** the pre-repair witness is accepted by the current code *)
Example nv_pre_witness_now : outs w_spurious = [OkTx 2; OkUnit; OkEpoch 1; OkTx 3; OkUnit; OkEpoch 2].
Proof. vm_compute. reflexivity. Qed.
