(** C17 — parallel, push-based and spilling execution equal simple sequential execution: the
    property theorems (statements only; proofs are in Par/Proofs*.v).  Pinned by props/C17.statements.

    The model is that of the code after the repairs 2824ade (stable k-way merges), e7fe7cd (MIN/MAX compare
    integers with floats), 6cf03c8 (sort emits bounded chunks), b341ff4 (push_through keeps the last output),
    5457c98 (partition cleanup deletes files), 3d7a126 (chunk size >= 1), b5cd4ea (hash kind tags),
    c37ad07 (input selection vectors), e002bb7 (LimitingSink truncates); the [_pre] definitions transcribe
    the code before, with a [_pre_refuted] theorem each.

    Conventions: [cmp] is a row comparison ([Lt] = sorts first), [leb cmp a b] is "a may come before b";
    [P] is the domain on which [cmp] is antisymmetric and transitive (for the code's comparators: rows
    whose key columns exist and hold NULL or values of one kind per column — [cmp_rows_m_preorder] /
    [cmp_rows_s_preorder]); [isort cmp] is the stable sort ([slice::sort_by]). *)
From Coq Require Export List Permutation Sorted ZArith Bool.
From GV Require Export Par.Rows Par.Merge Par.Morsel Par.Accum Par.Push Par.ExtSort Par.Sched.
From GV Require Import Par.Proofs Par.ProofsAccum Par.ProofsMorsel Par.ProofsPush Par.ProofsChain Par.ProofsSel Par.ProofsSched Par.ProofsExt
     Par.ProofsCmp Par.ProofsC17 Par.ProofsDistinct Par.ProofsAgg Par.ProofsStable.
Export ListNotations.

(** ** 1. k-way merge of sorted runs (merge_sorted_runs, merge_sorted_chunks, ExternalSort::k_way_merge) *)

(** = the sequential stable sort of the concatenated runs, for ALL sorted runs *)
Theorem kway_merge_stable : forall (A : Type) (cmp : A -> A -> comparison) (P : A -> Prop),
  (forall a b, P a -> P b -> cmp b a = CompOpp (cmp a b)) ->
  (forall a b c, P a -> P b -> P c -> leb cmp a b = true -> leb cmp b c = true -> leb cmp a c = true) ->
  forall runs, Forall P (concat runs) -> Forall (fun r => sortedb cmp r = true) runs ->
  merge_sorted_runs cmp runs = isort cmp (concat runs).
Proof. intros A cmp P Ha Ht. exact (merge_sorted_runs_stable_l cmp P Ha Ht). Qed.
Print Assumptions kway_merge_stable.

Theorem kway_merge_spec : forall (A : Type) (cmp : A -> A -> comparison) (P : A -> Prop),
  (forall a b, P a -> P b -> cmp b a = CompOpp (cmp a b)) ->
  (forall a b c, P a -> P b -> P c -> leb cmp a b = true -> leb cmp b c = true -> leb cmp a c = true) ->
  forall runs, Forall P (concat runs) -> Forall (fun r => sortedb cmp r = true) runs ->
  StronglySorted (fun a b => leb cmp a b = true) (merge_sorted_runs cmp runs)
  /\ Permutation (merge_sorted_runs cmp runs) (concat runs).
Proof. intros A cmp P Ha Ht. exact (merge_sorted_runs_spec_new_l cmp P Ha Ht). Qed.
Print Assumptions kway_merge_spec.

Theorem kway_merge_single : forall (A : Type) (cmp : A -> A -> comparison) (r : list A),
  merge_sorted_runs cmp (r :: nil) = r /\ merge_sorted_runs cmp nil = nil.
Proof. intros. split; reflexivity. Qed.
Print Assumptions kway_merge_single.

(** the generic heap merge (any comparison of the heap entries): every run comes out in its own order *)
Theorem kway_merge_run_order : forall (A : Type) (cmp : A -> A -> comparison) (P : A -> Prop),
  (forall a b, P a -> P b -> leb cmp a b = true \/ leb cmp b a = true) ->
  (forall a b c, P a -> P b -> P c -> leb cmp a b = true -> leb cmp b c = true -> leb cmp a c = true) ->
  forall runs i, Forall P (concat runs) -> Forall (fun r => sortedb cmp r = true) runs ->
  map fst (filter (fun e => Nat.eqb (snd e) i) (kmerge_tagged cmp runs)) = nth i runs nil.
Proof. exact kway_merge_run_order_l. Qed.
Print Assumptions kway_merge_run_order.

(** before 2824ade (C17-K1): equal to the stable sort only without ties across runs ... *)
Theorem kway_merge_pre_stable : forall (A : Type) (cmp : A -> A -> comparison) (P : A -> Prop),
  (forall a b, P a -> P b -> leb cmp a b = true \/ leb cmp b a = true) ->
  (forall a b c, P a -> P b -> P c -> leb cmp a b = true -> leb cmp b c = true -> leb cmp a c = true) ->
  forall runs, Forall P (concat runs) -> Forall (fun r => sortedb cmp r = true) runs ->
  k_cross_ties cmp runs = false ->
  merge_sorted_runs_pre cmp runs = isort cmp (concat runs).
Proof. exact kway_merge_stable_l. Qed.
Print Assumptions kway_merge_pre_stable.

(** ... and with equal keys in different runs sorted, but not the stable sort *)
Theorem kway_merge_pre_refuted : exists runs : list (list (Z * Z)),
    let cmp := fun a b : Z * Z => Z.compare (fst a) (fst b) in
    Forall (fun r => sortedb cmp r = true) runs /\
    sortedb cmp (merge_sorted_runs_pre cmp runs) = true /\
    merge_sorted_runs_pre cmp runs <> isort cmp (concat runs) /\
    merge_sorted_runs cmp runs = isort cmp (concat runs).
Proof. exact kway_merge_pre_refuted_l. Qed.
Print Assumptions kway_merge_pre_refuted.

(** the code's comparators are antisymmetric, total and transitive on typed rows *)
Theorem cmp_rows_m_preorder : forall keys kinds,
  (forall a b, typed_row keys kinds a = true -> typed_row keys kinds b = true ->
     cmp_rows_m keys b a = CompOpp (cmp_rows_m keys a b))
  /\ (forall a b, typed_row keys kinds a = true -> typed_row keys kinds b = true ->
     leb (cmp_rows_m keys) a b = true \/ leb (cmp_rows_m keys) b a = true)
  /\ (forall a b c, typed_row keys kinds a = true -> typed_row keys kinds b = true -> typed_row keys kinds c = true ->
     leb (cmp_rows_m keys) a b = true -> leb (cmp_rows_m keys) b c = true -> leb (cmp_rows_m keys) a c = true).
Proof. intros keys kinds. split; [exact (cmp_rows_m_antisym_l keys kinds)|split; [exact (cmp_rows_m_total_l keys kinds)|exact (cmp_rows_m_trans_l keys kinds)]]. Qed.
Print Assumptions cmp_rows_m_preorder.

Theorem cmp_rows_s_preorder : forall keys kinds,
  (forall a b, typed_row keys kinds a = true -> typed_row keys kinds b = true ->
     cmp_rows_s keys b a = CompOpp (cmp_rows_s keys a b))
  /\ (forall a b c, typed_row keys kinds a = true -> typed_row keys kinds b = true -> typed_row keys kinds c = true ->
     leb (cmp_rows_s keys) a b = true -> leb (cmp_rows_s keys) b c = true -> leb (cmp_rows_s keys) a c = true)
  /\ (forall a b, typed_row keys kinds a = true -> typed_row keys kinds b = true ->
     cmp_rows_s keys a b = cmp_rows_m keys a b).
Proof.
  intros keys kinds. split; [exact (cmp_rows_s_antisym_l keys kinds)|split; [exact (cmp_rows_s_trans_l keys kinds)|exact (cmp_rows_s_m keys kinds)]].
Qed.
Print Assumptions cmp_rows_s_preorder.

(** across value kinds the comparators answer Equal and are not transitive (why [typed_row] is needed) *)
Theorem cmp_mixed_not_transitive : let keys := [{| k_col := 0; k_asc := true; k_nf := false |}] in
  let a := [VInt 2] in let b := [VStr 0] in let c := [VInt 1] in
  leb (cmp_rows_m keys) a b = true /\ leb (cmp_rows_m keys) b c = true /\ leb (cmp_rows_m keys) a c = false.
Proof. exact cmp_mixed_not_transitive_l. Qed.
Print Assumptions cmp_mixed_not_transitive.

(** rows_to_chunks / chunks_to_rows *)
Theorem chunks_rows_inverse : forall (X : Type) (rows : list X) (csize : nat),
  ((0 < csize)%nat -> exists cs, rows_to_chunks rows csize = Some cs /\ chunks_to_rows cs = rows
                           /\ Forall (fun c => c <> [] /\ (length c <= csize)%nat) cs)
  /\ (csize = 0%nat -> rows <> [] -> rows_to_chunks rows csize = None)
  /\ rows_to_chunks (@nil X) csize = Some [].
Proof. intros X rows csize. exact (chunks_rows_inverse_l rows csize). Qed.
Print Assumptions chunks_rows_inverse.

(** ** 2. morsels *)

Theorem morsels_partition : forall total size src, (0 < total)%Z -> (0 < size)%Z -> (total + size < 2 ^ 64)%Z ->
  exists ms, generate_morsels total size src = Some ms
    /\ chain size ms 0%Z total
    /\ ms <> nil
    /\ map m_id ms = map Z.of_nat (seq 0 (length ms))
    /\ Forall (fun m => m_src m = src) ms.
Proof. exact morsels_partition_l. Qed.
Print Assumptions morsels_partition.

Theorem morsels_degenerate : forall total size src,
  generate_morsels 0%Z size src = Some nil /\ generate_morsels total 0%Z src = Some nil
  /\ ((0 < total)%Z -> (0 < size)%Z -> (2 ^ 64 <= total + size)%Z -> generate_morsels total size src = None).
Proof. exact morsels_degenerate_l. Qed.
Print Assumptions morsels_degenerate.

Theorem morsels_cover_rows : forall (A : Type) (xs : list A) size src,
  (0 < size)%Z -> (Z.of_nat (length xs) + size < 2 ^ 64)%Z ->
  exists ms, generate_morsels (Z.of_nat (length xs)) size src = Some ms /\ concat (map (slice xs) ms) = xs.
Proof. intros A xs size src. exact (morsels_cover_rows_l xs size src). Qed.
Print Assumptions morsels_cover_rows.

(** ** 3. partial aggregates ([uniformb]: the non-null values are of one comparability class; integers and
    floats are one class since e7fe7cd) *)

Theorem accum_homomorphism : forall xs ys, uniformb (xs ++ ys) = true ->
  fold_add (xs ++ ys) acc0 = merge (fold_add xs acc0) (fold_add ys acc0).
Proof. exact accum_homomorphism_l. Qed.
Print Assumptions accum_homomorphism.

(** any partition into morsels and any merge tree *)
Theorem accum_merge_tree : forall t, uniformb (flatten t) = true -> eval t = fold_add (flatten t) acc0.
Proof. exact accum_merge_tree_l. Qed.
Print Assumptions accum_merge_tree.

(** C17-K12 (what is left of C17-K2): a column mixing numbers with strings *)
Theorem accum_homomorphism_refuted : exists xs ys,
  finalize_min (fold_add (xs ++ ys) acc0) <> finalize_min (merge (fold_add xs acc0) (fold_add ys acc0)).
Proof. exact accum_refuted_l. Qed.
Print Assumptions accum_homomorphism_refuted.

(** before e7fe7cd (C17-K2) a numeric column mixing integers and floats was enough *)
Theorem accum_pre_refuted : exists xs ys,
  uniformb (xs ++ ys) = true /\ min_fold_pre (xs ++ ys) <> min_merge_pre (min_fold_pre xs) (min_fold_pre ys).
Proof. exact accum_pre_refuted_l. Qed.
Print Assumptions accum_pre_refuted.

(** merging in either order (worker completion order); values of one kind *)
Theorem accum_merge_comm : forall xs ys, uniformb_kind (xs ++ ys) = true ->
  (forall v, In v (xs ++ ys) -> kind v <> 1%nat) ->
  let a := fold_add xs acc0 in let b := fold_add ys acc0 in
  a_count (merge a b) = a_count (merge b a) /\ a_sum (merge a b) = a_sum (merge b a)
  /\ a_min (merge a b) = a_min (merge b a) /\ a_max (merge a b) = a_max (merge b a).
Proof. exact accum_merge_comm_b. Qed.
Print Assumptions accum_merge_comm.

(** GROUP BY: grouping every hash partition separately (the spilling aggregate) = grouping everything *)
Theorem group_by_partitioned : forall (K : Type) (keq : K -> K -> bool) (aggs : list aggexpr) (pf : K -> nat),
  (forall a b, keq a b = true -> pf a = pf b) ->
  forall n, (forall k, (pf k < n)%nat) -> forall rows : list (K * row * row),
  Permutation (concat (map (fun p => group_by keq aggs (filter (fun x => Nat.eqb (pf (fst (fst x))) p) rows)) (seq 0 n)))
              (group_by keq aggs rows).
Proof. exact (@group_by_partitioned_l). Qed.
Print Assumptions group_by_partitioned.

(** ** 4. push operators and operator chains = list specification (= the pull twins' specification) *)

Theorem push_equals_pull : forall (R K : Type) (keq : K -> K -> bool) (k : @opk R K) (cs : list (list R)),
  concat (run1 keq k cs) = spec keq k (concat cs).
Proof. intros R K keq. exact (push_equals_pull_l keq). Qed.
Print Assumptions push_equals_pull.

(** chains of ANY length and shape (filters, projections, DISTINCTs, sorts, LIMITs anywhere) run by
    Pipeline::execute's push_through / finalize_all with early stop, ANY chunking of the input *)
Theorem pipeline_chain_correct : forall (R K : Type) (keq : K -> K -> bool) (ks : list (@opk R K)) (cs : list (list R)),
  concat (run_chain keq ks cs) = chain_spec keq ks (concat cs).
Proof. intros R K keq. exact (chain_correct_l keq). Qed.
Print Assumptions pipeline_chain_correct.

(** Pipeline::execute over a table, with the chunk size the operators' hints give: ends, and returns the specification *)
Theorem pipeline_run_correct : forall (R K : Type) (keq : K -> K -> bool) (ks : list (@opk R K)) (rows : list R),
  exists out, pipeline_run keq ks rows = PRows out /\ concat out = chain_spec keq ks rows.
Proof. intros R K keq. exact (pipeline_correct_l keq). Qed.
Print Assumptions pipeline_run_correct.

(** stopping at the first "stop" answer and pushing every chunk regardless give the same chunks *)
Theorem stop_loses_nothing : forall (R K : Type) (keq : K -> K -> bool) (ks : list (@opk R K)) (cs : list (list R)),
  run_chain keq ks cs
  = snd (push_all keq ks (init_chain ks) cs) ++ finalize_all keq ks (fst (push_all keq ks (init_chain ks) cs)).
Proof. intros R K keq. exact (run_chain_total keq). Qed.
Print Assumptions stop_loses_nothing.

(** before b341ff4 (C17-K5): an inner LIMIT lost its last chunk *)
Theorem pipeline_chain_pre_refuted : exists (ks : list (@opk nat unit)) (rows : list nat),
    let keq := fun _ _ : unit => true in
    k_inner_limit_hit ks (length rows) = true /\
    exists out, pipeline_run_pre keq ks rows = PRows out /\ concat out <> chain_spec keq ks rows.
Proof. exact pipeline_chain_refuted_l. Qed.
Print Assumptions pipeline_chain_pre_refuted.

(** before 3d7a126 (C17-K7): LIMIT 0 behind another operator: chunk size hint 0, the run never ended *)
Theorem pipeline_limit0_pre_diverges : forall (R K : Type) (keq : K -> K -> bool) (p : R -> bool) (r0 : R) (rows : list R),
  pipeline_run_pre keq [OFilter p; OLimit 0] (r0 :: rows) = PDiverge.
Proof. intros R K keq. exact (pipeline_limit0_diverges_l keq). Qed.
Print Assumptions pipeline_limit0_pre_diverges.

(** before c37ad07 (C17-K9): input chunks with a selection vector were handled like the flat chunk of the
    selected rows only when the selection was a prefix 0..n-1 ... *)
Theorem push_sel_pre_prefix : forall (R K : Type) (keq : K -> K -> bool) (k : @opk R K) (s : @opst R K) (phys : list R) (sel : list nat),
  sel_is_prefix sel = true -> (length sel <= length phys)%nat ->
  push_sel_pre keq k s phys sel = push_sel keq k s phys sel.
Proof. intros R K keq. exact (push_sel_pre_prefix_l keq). Qed.
Print Assumptions push_sel_pre_prefix.

(** ... rows 0..9 with rows 5..9 selected through FILTER true: nothing came out *)
Theorem push_sel_pre_refuted : exists (phys : list nat) (sel : list nat),
  k_sel_not_prefix [sel] = true /\
  let k := @OFilter nat unit (fun _ => true) in
  concat (snd (fst (push_sel_pre (fun _ _ : unit => true) k st0 phys sel))) <> spec (fun _ _ : unit => true) k (sel_rows phys sel).
Proof. exact push_sel_refuted_l. Qed.
Print Assumptions push_sel_pre_refuted.

(** ** 5. schedules: any assignment of morsels to any number of workers, any order *)

Theorem schedule_perm : forall (Y : Type) (f : nat -> list Y) (nm : nat) (sch : schedule),
  valid_schedule nm sch ->
  Permutation (concat (map (fun w => concat (map f w)) sch)) (concat (map f (seq 0 nm))).
Proof. intros Y. exact (@schedule_perm_l Y). Qed.
Print Assumptions schedule_perm.

(** ANY chain: every worker computes the sequential chain on the rows of the morsels it took, whatever the chunk size *)
Theorem worker_run_spec : forall (R K : Type) (keq : K -> K -> bool) (ks : list (@opk R K))
  csize (rows : list R) ms mine, (0 < csize)%nat ->
  concat (worker_run keq ks csize rows ms mine)
  = chain_spec keq ks (concat (map (fun i => slice rows (nth i ms dummy_morsel)) mine)).
Proof. intros R K keq. exact (worker_run_spec_l keq). Qed.
Print Assumptions worker_run_spec.

Theorem schedule_independent : forall (R K : Type) (keq : K -> K -> bool) (ks : list (@opk R K)),
  forallb stateless_op ks = true ->
  forall csize (rows : list R) ms sch, (0 < csize)%nat ->
  concat (map (slice rows) ms) = rows ->
  valid_schedule (length ms) sch ->
  Permutation (concat (parallel_run keq ks csize rows ms sch)) (chain_spec keq ks rows).
Proof. intros R K keq. exact (schedule_independent_l keq). Qed.
Print Assumptions schedule_independent.

Theorem sequential_run_spec : forall (R K : Type) (keq : K -> K -> bool) (ks : list (@opk R K)),
  forallb stateless_op ks = true ->
  forall csize (rows : list R) ms, (0 < csize)%nat -> concat (map (slice rows) ms) = rows ->
  concat (sequential_run keq ks csize rows ms) = chain_spec keq ks rows.
Proof. intros R K keq. exact (sequential_run_spec_l keq). Qed.
Print Assumptions sequential_run_spec.

(** per-worker DISTINCT + the distinct merge = the sequential DISTINCT (as a set), any schedule *)
Theorem schedule_distinct : forall (R : Type) (req : R -> R -> bool),
  (forall a b, req a b = true <-> a = b) ->
  forall csize (rows : list R) ms sch, (0 < csize)%nat ->
  concat (map (slice rows) ms) = rows -> valid_schedule (length ms) sch ->
  Permutation (dedup req (fun r => r) [] (concat (parallel_run req [ODistinct (fun r : R => r)] csize rows ms sch)))
              (dedup req (fun r => r) [] rows).
Proof. exact (@schedule_distinct_l). Qed.
Print Assumptions schedule_distinct.

(** per-worker sort + k-way merge of the workers' sorted chunks: the stable sort of what the workers
    produced, hence a sorted permutation of the input *)
Theorem schedule_sort : forall (R K : Type) (keq : K -> K -> bool) (cmp : R -> R -> comparison) (P : R -> Prop),
  (forall a b, P a -> P b -> cmp b a = CompOpp (cmp a b)) ->
  (forall a b c, P a -> P b -> P c -> leb cmp a b = true -> leb cmp b c = true -> leb cmp a c = true) ->
  forall csize (rows : list R) ms sch, (0 < csize)%nat -> Forall P rows ->
  concat (map (slice rows) ms) = rows -> valid_schedule (length ms) sch ->
  let parts := parallel_run keq [@OSort R K cmp] csize rows ms sch in
  merge_sorted_runs cmp parts = isort cmp (concat parts)
  /\ StronglySorted (fun a b => leb cmp a b = true) (merge_sorted_runs cmp parts)
  /\ Permutation (merge_sorted_runs cmp parts) rows.
Proof. intros R K keq cmp P Ha Ht. exact (schedule_sort_l keq cmp P Ha Ht). Qed.
Print Assumptions schedule_sort.

(** ** 6. external sort: every memory budget gives the in-memory stable sort *)

Theorem merge_all_spec : forall (A : Type) (cmp : A -> A -> comparison) (P : A -> Prop),
  (forall a b, P a -> P b -> cmp b a = CompOpp (cmp a b)) ->
  (forall a b c, P a -> P b -> P c -> leb cmp a b = true -> leb cmp b c = true -> leb cmp a c = true) ->
  forall runs mem, Forall P (concat runs ++ mem) -> Forall (fun r => sortedb cmp r = true) runs ->
  merge_all cmp runs mem = isort cmp (concat runs ++ mem).
Proof. intros A cmp P Ha Ht. exact (merge_all_stable_l cmp P Ha Ht). Qed.
Print Assumptions merge_all_spec.

(** every way of cutting the input into sorted runs + an in-memory rest *)
Theorem external_sort_spec : forall (A : Type) (cmp : A -> A -> comparison) (P : A -> Prop),
  (forall a b, P a -> P b -> cmp b a = CompOpp (cmp a b)) ->
  (forall a b c, P a -> P b -> P c -> leb cmp a b = true -> leb cmp b c = true -> leb cmp a c = true) ->
  forall pieces mem, Forall P (concat pieces ++ mem) ->
  merge_all cmp (map (isort cmp) pieces) mem = isort cmp (concat pieces ++ mem).
Proof. intros A cmp P Ha Ht. exact (external_sort_stable_l cmp P Ha Ht). Qed.
Print Assumptions external_sort_spec.

(** SpillableSortPushOperator: any chunking, any spill threshold = the in-memory sort *)
Theorem spill_sort_spec : forall (A : Type) (cmp : A -> A -> comparison) (P : A -> Prop),
  (forall a b, P a -> P b -> cmp b a = CompOpp (cmp a b)) ->
  (forall a b c, P a -> P b -> P c -> leb cmp a b = true -> leb cmp b c = true -> leb cmp a c = true) ->
  forall threshold cs, Forall P (concat cs) ->
  spill_sort cmp threshold cs = isort cmp (concat cs).
Proof. intros A cmp P Ha Ht. exact (spill_sort_stable_l cmp P Ha Ht). Qed.
Print Assumptions spill_sort_spec.

(** before 2824ade (C17-K1) for the external sort *)
Theorem external_sort_pre_refuted : exists (threshold : nat) (cs : list (list (Z * Z))),
  let cmp := fun a b : Z * Z => Z.compare (fst a) (fst b) in
  spill_sort_pre cmp threshold cs <> isort cmp (concat cs)
  /\ sortedb cmp (spill_sort_pre cmp threshold cs) = true
  /\ k_cross_ties cmp (spill_runs cmp threshold cs) = true.
Proof. exact external_sort_refuted_l. Qed.
Print Assumptions external_sort_pre_refuted.

(** ** 6b. DISTINCT: partial distinct sets of the workers, merged *)

Theorem distinct_merge_parts : forall (A : Type) (req : A -> A -> bool),
  (forall a b, req a b = true <-> a = b) ->
  forall (parts : list (list A)) (seen : list A),
  dedup req (fun r => r) seen (concat (map (dedup req (fun r => r) []) parts))
  = dedup req (fun r => r) seen (concat parts).
Proof. exact (@distinct_merge_parts). Qed.
Print Assumptions distinct_merge_parts.

Theorem distinct_schedule_independent : forall (A : Type) (req : A -> A -> bool),
  (forall a b, req a b = true <-> a = b) ->
  forall (parts : list (list A)) (rows : list A), Permutation (concat parts) rows ->
  Permutation (dedup req (fun r => r) [] (concat (map (dedup req (fun r => r) []) parts)))
              (dedup req (fun r => r) [] rows).
Proof. exact (@distinct_schedule_independent_l). Qed.
Print Assumptions distinct_schedule_independent.

(** merge_distinct_results (64-bit row hashes) = DISTINCT by row equality when the hash is injective on the run *)
Theorem merge_distinct_spec : forall (A : Type) (req : A -> A -> bool),
  (forall a b, req a b = true <-> a = b) ->
  forall (results : list (list (list (Z * A)))),
  (forall x y, In x (concat (concat results)) -> In y (concat (concat results)) -> (fst x = fst y <-> snd x = snd y)) ->
  merge_distinct_results results
  = rows_to_chunks (dedup req (fun r => r) [] (map snd (concat (concat results)))) 2048.
Proof. exact (@merge_distinct_spec_l). Qed.
Print Assumptions merge_distinct_spec.

(** ** 7. hash partitions and spill files *)

Theorem partition_union : forall (Key V : Type) (hash : Key -> Z) (n : nat) (rows : list (Key * V)),
  (0 < n)%nat ->
  Permutation (concat (partition_rows hash n rows)) rows
  /\ (forall k1 k2, hash k1 = hash k2 -> part_of hash n k1 = part_of hash n k2)
  /\ (forall k, (part_of hash n k < n)%nat).
Proof. exact partition_union_l. Qed.
Print Assumptions partition_union.

Theorem spill_files_sort : forall s i, In i (f_sort s) -> ~ In i (g_disk (f_mgr (fstep s FSortDrop))).
Proof. exact spill_files_sort_l. Qed.
Print Assumptions spill_files_sort.

Theorem spill_files_drain : forall s i, In i (f_part s) -> ~ In i (g_disk (f_mgr (fstep s FPartDrain))).
Proof. exact spill_files_drain_l. Qed.
Print Assumptions spill_files_drain.

Theorem spill_files_partition : forall s i, In i (f_part s) -> ~ In i (g_disk (f_mgr (fstep s FPartCleanup))).
Proof. exact spill_files_partition_l. Qed.
Print Assumptions spill_files_partition.

Theorem spill_files_manager : forall ops, g_disk (f_mgr (frun (ops ++ [FMgrCleanup]))) = [].
Proof. exact spill_files_manager_l. Qed.
Print Assumptions spill_files_manager.

(** whatever happened before: once the partitioned state and the external sort are cleaned up or dropped
    no spill file is left, without waiting for the manager *)
Theorem spill_files_all_removed : forall ops, g_disk (f_mgr (frun (ops ++ [FPartCleanup; FSortDrop]))) = [].
Proof. exact spill_files_all_removed_l. Qed.
Print Assumptions spill_files_all_removed.

(** before 5457c98 (C17-K6): PartitionedState::cleanup / drop left the files of spilled partitions on disk *)
Theorem spill_files_pre_refuted : exists ops,
  k_part_cleanup_leaves fstate0 ops = true /\ f_sort (frun_pre ops) = [] /\ f_part (frun_pre ops) = []
  /\ disk_count (frun_pre ops) = 1%nat.
Proof. exact spill_files_pre_refuted_l. Qed.
Print Assumptions spill_files_pre_refuted.

(** ** non-vacuity of the hypotheses *)

Example typed_rows_exist :
  let keys := [{| k_col := 0; k_asc := true; k_nf := false |}; {| k_col := 2; k_asc := false; k_nf := true |}] in
  let kinds := [2; 2; 4]%nat in
  typed_row keys kinds [VInt 3; VInt 0; VStr 7] = true /\ typed_row keys kinds [VNull; VInt 1; VNull] = true
  /\ cmp_rows_m keys [VInt 3; VInt 0; VStr 7] [VNull; VInt 1; VNull] = Lt.
Proof. cbn. auto. Qed.

Example sorted_runs_exist :
  let cmp := fun a b : Z * Z => Z.compare (fst a) (fst b) in
  let runs := [[(1, 0); (3, 1)]; [(2, 2); (4, 3)]]%Z in
  Forall (fun r => sortedb cmp r = true) runs /\ k_cross_ties cmp runs = false
  /\ merge_sorted_runs cmp runs = [(1, 0); (2, 2); (3, 1); (4, 3)]%Z.
Proof. cbn. repeat split; repeat constructor. Qed.

Example uniform_column_exists : uniformb [VInt 3; VNull; VInt 1] = true /\ uniformb [VInt 1; VFlt 0] = true /\ uniformb [VInt 1; VStr 0] = false.
Proof. cbn. auto. Qed.

Example valid_schedule_exists : valid_schedule 3 [[2]; []; [0; 1]]%nat.
Proof.
  unfold valid_schedule. cbn. change (Permutation (2 :: [0; 1]) ([0; 1] ++ 2 :: []))%nat.
  apply Permutation_cons_app. cbn. apply Permutation_refl.
Qed.

Example stateless_chain_exists :
  forallb stateless_op [@OFilter nat unit (fun n => Nat.leb 2 n); OProject (fun n => (n + 1)%nat)] = true
  /\ chain_spec (fun _ _ : unit => true) [@OFilter nat unit (fun n => Nat.leb 2 n); OProject (fun n => (n + 1)%nat)] [1; 2; 3]%nat = [3; 4]%nat.
Proof. cbn. auto. Qed.

Example chain_without_inner_limit_exists :
  no_inner_limit [@OSort nat unit Nat.compare; OFilter (fun n => Nat.leb 2 n); OLimit 2] = true
  /\ concat (run_chain (fun _ _ : unit => true) [@OSort nat unit Nat.compare; OFilter (fun n => Nat.leb 2 n); OLimit 2] [[5; 1]; []; [3; 2]]%nat) = [2; 3]%nat.
Proof. cbn. auto. Qed.

Example morsels_exist : exists ms, generate_morsels 2049 1024 0 = Some ms /\ length ms = 3%nat.
Proof. eexists. split; [vm_compute; reflexivity|reflexivity]. Qed.
