(** C17 — parallel, push-based and spilling execution equal simple sequential execution: the
    property theorems (statements only; proofs are in Par/Proofs*.v).  Pinned by props/C17.statements. *)
From Coq Require Export List Permutation Sorted ZArith Bool.
From GV Require Export Par.Rows Par.Merge Par.Morsel Par.Accum Par.Push Par.ExtSort Par.Sched.
From GV Require Import Par.Proofs.

Theorem kway_merge_spec : forall (A : Type) (cmp : A -> A -> comparison) (P : A -> Prop),
  (forall a b, P a -> P b -> leb cmp a b = true \/ leb cmp b a = true) ->
  (forall a b c, P a -> P b -> P c -> leb cmp a b = true -> leb cmp b c = true -> leb cmp a c = true) ->
  forall runs, Forall P (concat runs) -> Forall (fun r => sortedb cmp r = true) runs ->
  StronglySorted (fun a b => leb cmp a b = true) (merge_sorted_runs cmp runs)
  /\ Permutation (merge_sorted_runs cmp runs) (concat runs).
Proof. exact kway_merge_spec_l. Qed.
Print Assumptions kway_merge_spec.
