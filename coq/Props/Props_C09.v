(** C09 — the optimizer never changes a query's answer: the property theorems (statements only;
    proofs are in Query/ProofsOpt*.v).  Pinned by props/C09.statements.

    Vocabulary (Query/Plan.v, Query/Opt.v, Query/RunOpt.v):
      [sem G p]            rows of plan [p] on graph [G] (a list: bag + order)
      [sem_e G p]          the same computed with the engine's selection vectors ([sem_e_pre]: before df57ccb)
      [pfd], [ppd]         transcriptions of push_filters_down / push_projections_down
      [reorder_chk b a]    [a] is a plan reorder_joins may return for [b]
      [optimize fp jr pp R p]  the pass under the three switches, [R] = what reorder_joins returns
                           under the statistics at hand
      [k_push], [k_reorder]    the finding classes (decidable), [uniform] = all Union inputs have
                           the same columns, [no_conds] = no join carries a condition (every front end),
      [bag_eqv]            equality of bags of rows up to the order of columns. *)
From GV Require Export Query.Plan Query.Opt Query.RunOpt.
From GV Require Import Query.ProofsOptBase Query.ProofsOptPush Query.ProofsOptBag Query.ProofsOptJoin
  Query.ProofsOptTop.
From Coq Require Export List Permutation.
Import ListNotations.

(** filter push-down before 7426671 (finding C09-K1, repaired): the code pushed a predicate into a join side on the word of a variable collector
    that does not know the columns of a chained NodeScan's input, of a LeftJoin, of a Union ... *)
Theorem push_filters_pre_refuted : exists G p,
  uniform p = true /\ no_conds p = true /\ k_push_pre p = true /\ ~ Permutation (sem G (pfd_pre p)) (sem G p).
Proof. exact push_scope_refuted_l. Qed.
Print Assumptions push_filters_pre_refuted.

(** ... never looks at the join type ... *)
Theorem push_filters_left_join_pre_refuted : exists G p,
  uniform p = true /\ k_push_pre p = true /\ ~ Permutation (sem G (pfd_pre p)) (sem G p).
Proof. exact push_left_join_refuted_l. Qed.
Print Assumptions push_filters_left_join_pre_refuted.

(** ... and passes Return unconditionally. *)
Theorem push_filters_return_alias_pre_refuted : exists G p,
  uniform p = true /\ k_push_pre p = true /\ ~ Permutation (sem G (pfd_pre p)) (sem G p).
Proof. exact push_return_alias_refuted_l. Qed.
Print Assumptions push_filters_return_alias_pre_refuted.

(** outside that class the pass keeps the very list of rows (bag, and order under Sort/Limit) *)
Theorem push_filters_sound : forall G p,
  uniform p = true -> k_push p = false -> sem G (pfd p) = sem G p.
Proof. intros G p U K. apply pfd_sound; [exact U|]. unfold k_push in K. now apply Bool.negb_false_iff in K. Qed.
Print Assumptions push_filters_sound.

Theorem push_filters_sound_bag : forall G p,
  uniform p = true -> k_push p = false -> Permutation (sem G (pfd p)) (sem G p).
Proof. intros G p U K. rewrite (pfd_sound G p U); [apply Permutation_refl|]. unfold k_push in K. now apply Bool.negb_false_iff in K. Qed.
Print Assumptions push_filters_sound_bag.

(** the code before 7426671 outside its (larger) class *)
Theorem push_filters_pre_sound : forall G p,
  uniform p = true -> k_push_pre p = false -> sem G (pfd_pre p) = sem G p.
Proof. intros G p U K. apply pfd_pre_sound; [exact U|]. unfold k_push_pre in K. now apply Bool.negb_false_iff in K. Qed.
Print Assumptions push_filters_pre_sound.

(** the single commutation behind every push *)
Theorem push_one_filter_sound : forall G e op,
  uniform op = true -> try_push_ok e op = true ->
  sem G (try_push e op) = filter (passes G e) (sem G op).
Proof. exact try_push_sound. Qed.
Print Assumptions push_one_filter_sound.

(** projection push-down rebuilds its argument *)
Theorem push_projections_identity : forall p, ppd p = p.
Proof. exact ppd_id. Qed.
Print Assumptions push_projections_identity.

Theorem push_projections_sound : forall G p, sem G (ppd p) = sem G p.
Proof. intros G p. rewrite ppd_id. reflexivity. Qed.
Print Assumptions push_projections_sound.

(** join reordering *)
Theorem join_normal_form : forall G p q,
  jt_wf p = true -> jt_wf q = true -> jnf_eqb p q = true -> bag_eqv (sem G p) (sem G q).
Proof. exact join_normal_form_wf. Qed.
Print Assumptions join_normal_form.

Theorem join_normal_form_same : forall G p q,
  jt_wf p = true -> jt_wf q = true -> jnf p = jnf q -> sem G p = sem G q.
Proof. exact join_normal_form_eq. Qed.
Print Assumptions join_normal_form_same.

Theorem join_tree_is_filtered_product : forall G p,
  inner_only p = true -> NoDup (schema p) -> filters_scoped p = true -> uniform p = true ->
  sem G p = filter (jt_pred G p) (jt_base G p).
Proof. exact jt_canonical. Qed.
Print Assumptions join_tree_is_filtered_product.

(** what the pass may return includes answer-changing plans: it forgets the filters of the tree ... *)
Theorem join_reorder_drops_filter_pre_refuted : exists G b a,
  uniform b = true /\ reorder_chk_pre b a = true /\ k_reorder b a = true /\
  List.length (sem G b) <> List.length (sem G a).
Proof. exact reorder_drops_filter_refuted_l. Qed.
Print Assumptions join_reorder_drops_filter_pre_refuted.

(** ... and writes a condition the way the query had it, which the planner drops on a swapped join *)
Theorem join_reorder_swaps_condition_pre_refuted : exists G b a,
  uniform b = true /\ reorder_chk_pre b a = true /\ k_reorder b a = true /\
  List.length (sem G b) <> List.length (sem G a).
Proof. exact reorder_swaps_condition_refuted_l. Qed.
Print Assumptions join_reorder_swaps_condition_pre_refuted.

Theorem join_reorder_sound : forall G b a, k_reorder b a = false -> bag_eqv (sem G b) (sem G a).
Proof. intros G b a K. apply reorder_sound. unfold k_reorder in K. now apply Bool.negb_false_iff in K. Qed.
Print Assumptions join_reorder_sound.

Theorem join_reorder_noop_without_conditions : forall b a,
  no_conds b = true -> reorder_chk b a = true -> a = b.
Proof. exact reorder_noop. Qed.
Print Assumptions join_reorder_noop_without_conditions.

(** DISTINCT and aggregation above a reordered tree only see the bag (so [k_reorder] does not
    contain them; LIMIT/SKIP it does) *)
Theorem distinct_respects_bags : forall l1 l2 ks1 ks2,
  NoDup ks1 -> NoDup ks2 ->
  (forall r, In r l1 -> keys r = ks1) -> (forall r, In r l2 -> keys r = ks2) ->
  bag_eqv l1 l2 -> bag_eqv (dedup nil l1) (dedup nil l2).
Proof. exact bag_eqv_dedup. Qed.
Print Assumptions distinct_respects_bags.

Theorem aggregate_respects_bags : forall G groups aggs l1 l2,
  bag_eqv l1 l2 -> Permutation (agg_rows G groups aggs l1) (agg_rows G groups aggs l2).
Proof. exact agg_rows_bag. Qed.
Print Assumptions aggregate_respects_bags.

(** the pass as a whole *)
Theorem switch_subsets : forall G fp jr pp (R : plan -> plan) p,
  uniform p = true ->
  (fp = true -> k_push p = false) ->
  (jr = true -> k_reorder (after_fp fp p) (R (after_fp fp p)) = false) ->
  bag_eqv (sem G (optimize fp jr pp R p)) (sem G p).
Proof. exact switch_subsets_l. Qed.
Print Assumptions switch_subsets.

Theorem stats_irrelevant : forall G fp jr pp (R1 R2 : plan -> plan) p,
  uniform p = true ->
  (fp = true -> k_push p = false) ->
  (jr = true -> k_reorder (after_fp fp p) (R1 (after_fp fp p)) = false) ->
  (jr = true -> k_reorder (after_fp fp p) (R2 (after_fp fp p)) = false) ->
  bag_eqv (sem G (optimize fp jr pp R1 p)) (sem G (optimize fp jr pp R2 p)).
Proof. exact stats_irrelevant_l. Qed.
Print Assumptions stats_irrelevant.

Theorem switch_subsets_frontend : forall G fp jr pp (R : plan -> plan) p,
  uniform p = true -> no_conds p = true ->
  (fp = true -> k_push p = false) ->
  reorder_chk (after_fp fp p) (R (after_fp fp p)) = true ->
  sem G (optimize fp jr pp R p) = sem G p.
Proof. exact switch_subsets_frontend_l. Qed.
Print Assumptions switch_subsets_frontend.

(** the executor's selection vectors: since df57ccb stacked filters compose, the engine's filter
    semantics is the list semantics for every plan ... *)
Theorem engine_filters_agree : forall G p, sem_e G p = sem G p.
Proof. exact sem_e_sem. Qed.
Print Assumptions engine_filters_agree.

Theorem push_filters_sound_engine : forall G p,
  uniform p = true -> k_push p = false -> sem_e G (pfd p) = sem_e G p.
Proof. exact pfd_sound_engine. Qed.
Print Assumptions push_filters_sound_engine.

(** ... before it (finding C09-K3, repaired) only without stacks, and push-down builds stacks *)
Theorem engine_filters_pre_agree_without_stacks : forall G p, no_stack p = true -> sem_e_pre G p = sem G p.
Proof. exact sem_e_pre_no_stack. Qed.
Print Assumptions engine_filters_pre_agree_without_stacks.

Theorem push_filters_engine_stack_pre_refuted : exists G p,
  uniform p = true /\ k_push_pre p = false /\ no_stack p = true /\ no_stack (pfd_pre p) = false /\
  sem G (pfd_pre p) = sem G p /\ List.length (sem_e_pre G (pfd_pre p)) <> List.length (sem_e_pre G p).
Proof. exact engine_stack_pre_refuted_l. Qed.
Print Assumptions push_filters_engine_stack_pre_refuted.

Theorem engine_filters_pre_refuted : exists G p, List.length (sem_e_pre G p) <> List.length (sem G p).
Proof. exact engine_stack_pre_refuted_plain_l. Qed.
Print Assumptions engine_filters_pre_refuted.

Theorem push_filters_sound_engine_pre : forall G p,
  uniform p = true -> k_push p = false -> no_stack p = true -> no_stack (pfd p) = true ->
  sem_e_pre G (pfd p) = sem_e_pre G p.
Proof. exact pfd_sound_engine_pre. Qed.
Print Assumptions push_filters_sound_engine_pre.

(** since 7426671 (repair of C09-K1) what is left of the class ... *)


(** ... is empty on every plan the Binder accepts ([wscoped]: expressions mention only
    columns of their input) whose predicates do not spell a column name the planner invents *)
Theorem push_filters_sound_scoped : forall G p,
  uniform p = true -> wscoped p = true -> names_ok p = true -> sem G (pfd p) = sem G p.
Proof. exact pfd_scoped. Qed.
Print Assumptions push_filters_sound_scoped.

Theorem push_filters_repaired_witness : exists G p,
  uniform p = true /\ no_conds p = true /\ k_push_pre p = true /\ ~ Permutation (sem G (pfd_pre p)) (sem G p) /\
  k_push p = false /\ sem G (pfd p) = sem G p.
Proof. exact pfd_witness_frontend. Qed.
Print Assumptions push_filters_repaired_witness.

(** non-vacuity: the hypotheses hold on plans the passes really change *)
From Coq Require Import String ZArith.
Open Scope string_scope.
Example nv_push : let p := PFilter (EBin OGt (EProp "a" "v") (ELit (VInt 0%Z)))
                             (PJoin JCross [] (PScan "a" (Some "A")) (PScan "b" (Some "B"))) in
  uniform p = true /\ k_push p = false /\ no_conds p = true /\ plan_eqb (pfd p) p = false
  /\ no_stack p = true /\ no_stack (pfd p) = true.
Proof. vm_compute. repeat split. Qed.

Example nv_reorder :
  let b := PJoin JInner [(EVar "y", EVar "z")]
             (PJoin JInner [(EVar "x", EVar "y")] (PScan "x" (Some "A")) (PScan "y" (Some "A"))) (PScan "z" (Some "A")) in
  let a := PJoin JInner [(EVar "x", EVar "y")] (PScan "x" (Some "A"))
             (PJoin JInner [(EVar "y", EVar "z")] (PScan "y" (Some "A")) (PScan "z" (Some "A"))) in
  reorder_fires b = true /\ reorder_chk b a = true /\ k_reorder b a = false /\ plan_eqb b a = false
  /\ jt_wf b = true /\ jt_wf a = true /\ jnf_eqb b a = true.
Proof. vm_compute. repeat split. Qed.

Example nv_jnf_permuted_leaves :
  let p := PJoin JCross [] (PFilter (EBin OGt (EProp "x" "v") (ELit (VInt 0%Z))) (PScan "x" (Some "A"))) (PScan "y" (Some "B")) in
  let q := PFilter (EBin OGt (EProp "x" "v") (ELit (VInt 0%Z))) (PJoin JCross [] (PScan "y" (Some "B")) (PScan "x" (Some "A"))) in
  jt_wf p = true /\ jt_wf q = true /\ jnf_eqb p q = true /\ plan_eqb p q = false.
Proof. vm_compute. repeat split. Qed.

Example nv_stack : let p := PFilter (EBin OEq (EProp "a" "v") (ELit (VInt 1%Z)))
    (PJoin JCross [] (PScan "c" (Some "C"))
       (PFilter (EHasLabel "b" "B") (PExpand "a" "b" None DOut (Some "R") hop1 (PScan "a" (Some "A"))))) in
  uniform p = true /\ k_push p = false /\ no_stack p = true /\ no_stack (pfd p) = false.
Proof. vm_compute. repeat split. Qed.

(** a variable-length expand: the predicate on the source is pushed below it, the walks of length 1..2 stay *)
Example nv_varlen :
  let G := mkGraph [mkNode 0 ["A"] [("v", VInt 1%Z)]; mkNode 1 ["A"] [("v", VInt 2%Z)]; mkNode 2 ["B"] []]
                   [mkEdge 0 0%Z 1%Z "R" []; mkEdge 1 1%Z 2%Z "R" []; mkEdge 2 1%Z 0%Z "R" []] in
  let p := PFilter (EBin OEq (EProp "a" "v") (ELit (VInt 1%Z)))
             (PExpand "a" "b" (Some "r") DOut (Some "R") (mkHops 1 (Some 2%nat) (Some "p")) (PScan "a" (Some "A"))) in
  uniform p = true /\ k_push p = false /\ plan_eqb (pfd p) p = false /\ sem G (pfd p) = sem G p
  /\ List.length (sem G p) = 3%nat.
Proof. vm_compute. repeat split. Qed.

(** DISTINCT and count above a reordered join tree are outside [k_reorder] *)
Example nv_reorder_distinct :
  let b := PJoin JInner [(EVar "y", EVar "z")]
             (PJoin JInner [(EVar "x", EVar "y")] (PScan "x" (Some "A")) (PScan "y" (Some "A"))) (PScan "z" (Some "A")) in
  let a := PJoin JInner [(EVar "x", EVar "y")] (PScan "x" (Some "A"))
             (PJoin JInner [(EVar "y", EVar "z")] (PScan "y" (Some "A")) (PScan "z" (Some "A"))) in
  k_reorder (PAgg [] [(ACountStar, Some "c")] (PDistinct b)) (PAgg [] [(ACountStar, Some "c")] (PDistinct a)) = false
  /\ k_reorder (PLimit 1 b) (PLimit 1 a) = true.
Proof. vm_compute. repeat split. Qed.

(** the hypotheses of the scoped theorem hold on the K1 witness and on a plan the patched pass changes *)
Example nv_scoped :
  let p1 := PReturn [(EProp "a" "v", None); (EProp "b" "v", None); (EProp "c" "v", None)] false
    (PFilter (EBin OEq (EProp "a" "v") (EProp "c" "v"))
       (PJoin JCross [] (PScanIn "b" (Some "B") (PScan "a" (Some "A"))) (PScan "c" (Some "C")))) in
  let p2 := PFilter (EBin OGt (EProp "a" "v") (ELit (VInt 0%Z)))
       (PJoin JCross [] (PScanIn "b" (Some "B") (PScan "a" (Some "A"))) (PScan "c" (Some "C"))) in
  uniform p1 = true /\ wscoped p1 = true /\ names_ok p1 = true /\ k_push_pre p1 = true /\ k_push p1 = false /\
  uniform p2 = true /\ wscoped p2 = true /\ names_ok p2 = true /\ plan_eqb (pfd p2) p2 = false.
Proof. vm_compute. repeat split. Qed.
