(** C05 — a persistent database reopens to exactly the state it was closed with: the property
    theorems (statements only; proofs are in Wal/Proofs*.v).  Pinned by props/C05.statements. *)
From GV Require Export Wal.Spec.
From GV Require Import Wal.ProofsFrame Wal.ProofsRecover Wal.ProofsDb Wal.ProofsSnap Wal.ProofsCodec Wal.ProofsCrash Wal.ProofsReal Wal.ProofsWitness.
Open Scope Z_scope.

(** close + reopen reproduces the store exactly, for any number of cycles, for every history
    of API calls outside the three open finding classes (explicit checkpoints may be taken at
    any point) — for any checksum with 32-bit values and any record codec that carries the
    records this history logs *)
Theorem clean_cycle : forall crc enc dec, crc_u32 crc -> forall cfg ss,
  no_crash ss = true -> forallb kclean (hist_flags crc enc dec cfg db_fresh ss) = true ->
  Forall (rec_ok enc dec) (hist_logs crc enc dec cfg db_fresh ss) ->
  Forall cycle_exact (fst (run_sessions crc enc dec cfg db_fresh ss)).
Proof. exact clean_cycle_l. Qed.
Print Assumptions clean_cycle.

(** the bincode record codec carries every well-formed record, whatever follows it in the buffer *)
Theorem record_codec_roundtrip : forall r rest, rec_wf r -> dec_record (enc_record r ++ rest) = Some (r, rest).
Proof. exact dec_enc_record. Qed.
Print Assumptions record_codec_roundtrip.

(** the same with CRC-32 and the bincode codec: no premise about the codec is left, only that
    the logged records are well formed and shorter than 4 GiB *)
Theorem clean_cycle_real : forall cfg ss,
  no_crash ss = true -> forallb kclean (real_flags cfg ss) = true -> Forall rec_fits (real_logs cfg ss) ->
  Forall cycle_exact (fst (real_sessions cfg ss)).
Proof. exact clean_cycle_real_l. Qed.
Print Assumptions clean_cycle_real.

(** whatever directory is opened (any bytes in any file): if the open succeeds and no recovered
    record creates the identifier u64::MAX (the id counters saturate there), every identifier
    the replay created lies below the counters new identifiers are taken from *)
Theorem reopen_ids_fresh : forall crc dec d rs st,
  recover crc dec d = ROk rs -> Forall rec_ids_below rs -> db_open crc dec d = ROk st -> ids_fresh (db_store st).
Proof. exact reopen_ids_fresh_l. Qed.
Print Assumptions reopen_ids_fresh.

Theorem reopen_new_ids : forall crc dec d rs st,
  recover crc dec d = ROk rs -> Forall rec_ids_below rs -> db_open crc dec d = ROk st ->
  aget Z.eqb (snd (st_create_node (db_store st) [] 0)) (s_nodes (db_store st)) = None
  /\ aget Z.eqb (snd (st_create_edge (db_store st) 0 0 [] 0)) (s_edges (db_store st)) = None.
Proof. exact reopen_new_ids_l. Qed.
Print Assumptions reopen_new_ids.

(** C05-K1 (repaired by 14ec16a): under the code before it an explicit checkpoint while the log
    held records no commit marker covered lost them; the same history is clean now and its cycle exact *)
Theorem checkpoint_drops_pending_pre_refuted : exists cfg ss,
  no_crash ss = true /\ last_cycle_differs_pre cfg ss
  /\ forallb kclean (real_flags cfg ss) = true /\ last_cycle_exact_b cfg ss = true.
Proof. exists (engine_cfg MSync), w05_1. destruct w05_1_pre_l as [A B]. destruct w05_1_now_l as [C D]. auto. Qed.
Print Assumptions checkpoint_drops_pending_pre_refuted.

(** C05-K2: remove_node_property / remove_edge_property write no log record *)
Theorem property_removal_not_logged_refuted : exists cfg ss,
  no_crash ss = true /\ real_flags cfg ss = [mkK false true false false] /\ last_cycle_differs cfg ss.
Proof. exists (engine_cfg MSync), w05_2. exact w05_2_l. Qed.
Print Assumptions property_removal_not_logged_refuted.

(** C05-K3: mutations through a session (auto-commit or inside a transaction) write no log record *)
Theorem session_mutation_not_logged_refuted : exists cfg ss1 ss2,
  no_crash ss1 = true /\ real_flags cfg ss1 = [mkK false false true false] /\ last_cycle_differs cfg ss1
  /\ no_crash ss2 = true /\ real_flags cfg ss2 = [mkK false false true false] /\ last_cycle_differs cfg ss2
  /\ ss1 <> ss2.
Proof.
  exists (engine_cfg MSync), w05_3, w05_3tx.
  destruct w05_3_l as (A & B & C). destruct w05_3tx_l as (D & E & F). repeat split; try assumption. discriminate.
Qed.
Print Assumptions session_mutation_not_logged_refuted.

(** C05-K4: after a rotation the checkpoint written by close makes recovery skip the older files *)
Theorem rotation_loses_older_files_refuted : exists cfg ss,
  no_crash ss = true /\ real_flags cfg ss = [k0; mkK false false false true] /\ last_cycle_differs cfg ss.
Proof. exists (engine_cfg MSync), w05_4. exact w05_4_l. Qed.
Print Assumptions rotation_loses_older_files_refuted.

(** non-vacuity: a three-session history with every logged operation kind is clean, and all
    the records it logs are carried by the codec *)
Example clean_history_exists :
  let ss := [([OCreateNodeProps [sA; sB] [(sK, vOne)]; OCreateNode [sB]; OCreateEdge 0 1 sK; OAddLabel 1 sC], EClose);
             ([OCheckpoint; ODeleteNode 0; ORemoveLabel 1 sB; OSetEdgeProp 0 sK vOne; OSync], EClose);
             ([ODeleteEdge 0; OCreateNode [sA]], EClose)] in
  no_crash ss = true /\ forallb kclean (real_flags (engine_cfg MSync) ss) = true
  /\ forallb (fun r => option_eqb record_eqb (dec_record_slice (enc_record r)) (Some r) && (lenZ (enc_record r) <? two32))
             (real_logs (engine_cfg MSync) ss) = true
  /\ existsb is_commit (real_logs (engine_cfg MSync) [([OCreateNode [sA]; OCheckpoint], EClose)]) = true.
Proof. cbv zeta. split; [reflexivity|]. split; [vm_compute; reflexivity|]. split; vm_compute; reflexivity. Qed.
