(** C14 — every access path to the property graph tells the same story: the property theorems
    (statements only; proofs are in Lpg/Proofs*.v).  Pinned by props/C14.statements.

    Every theorem quantifies over the configuration [b] (backward adjacency on/off) and over ALL
    operation sequences [ops]; [run (init b) ops] is the state they lead to. *)
From Coq Require Export ZArith List Bool Permutation.
Export ListNotations.
From GV Require Export Lpg.Model Lpg.Classes.
From GV Require Import Lpg.ProofsBase Lpg.ProofsInv Lpg.ProofsLabel Lpg.ProofsIndex Lpg.ProofsCount
  Lpg.ProofsAdj Lpg.ProofsDangling Lpg.ProofsZone Lpg.ProofsConj.
Open Scope Z_scope.

(** label_index <-> node_labels, and only live nodes *)
Theorem label_mirror : forall b ops n l, let s := run (init b) ops in
  In n (nodes_by_label s l) <-> (node_live s n = true /\ In l (node_label_names s n)).
Proof. intros b ops n l. apply label_mirror_inv. apply LabInv_run. Qed.
Print Assumptions label_mirror.

(** nodes_by_label = the live nodes whose get_node() carries the label, once each *)
Theorem nodes_by_label_spec : forall b ops l, let s := run (init b) ops in
  NoDup (nodes_by_label s l) /\
  (forall n, In n (nodes_by_label s l) <->
             In n (node_ids s) /\ exists ls ps, get_node s n = Some (ls, ps) /\ In l ls).
Proof. intros b ops l. apply nodes_by_label_spec_inv; [apply BaseInv_run|apply LabInv_run]. Qed.
Print Assumptions nodes_by_label_spec.

(** neighbour lists and degrees = the live edge set, through chunk filling, delta compaction,
    hot->cold compression (C15 codecs) and tombstones; incoming through the backward lists or
    the scan fallback *)
Theorem adj_spec : forall b ops n, hist_wf ops -> let s := run (init b) ops in
  Permutation (edges_from s n Outgoing) (out_entries (live_edges s) n) /\
  out_degree s n = Z.of_nat (length (out_entries (live_edges s) n)) /\
  Permutation (neighbors s n Outgoing) (map fst (out_entries (live_edges s) n)) /\
  Permutation (edges_to s n) (in_entries (live_edges s) n) /\
  in_degree s n = Z.of_nat (length (in_entries (live_edges s) n)) /\
  (b = true ->
     Permutation (edges_from s n Incoming) (in_entries (live_edges s) n) /\
     Permutation (edges_from s n Both) (out_entries (live_edges s) n ++ in_entries (live_edges s) n) /\
     Permutation (neighbors s n Incoming) (map fst (in_entries (live_edges s) n))).
Proof.
  intros b ops n H. cbv zeta. destruct (AdjInv_run b ops H) as [B A].
  pose proof (adj_spec_inv (run (init b) ops) n B A) as R. rewrite (cfg_run b ops) in R. exact R.
Qed.
Print Assumptions adj_spec.

(** lookup through a property index = scan (outside K3: float NaN / signed zero in the query
    value, and K6: a property written to an id that is not a live node) *)
Theorem index_ok : forall b ops key q,
  hist_sets_dead (init b) ops = false -> has_float_special q = false ->
  let s := run (init b) ops in
  NoDup (find_by_prop s key q) /\ (forall n, In n (find_by_prop s key q) <-> In n (scan_by_prop s key q)).
Proof. intros b ops key q H Hq. destruct (PI_run b ops H) as (B & P & I). apply index_ok_inv; assumption. Qed.
Print Assumptions index_ok.

(** find_nodes_by_properties (conjunction of equalities, evaluated through the property indexes where
    there are any, starting from the most selective indexed condition) = the scan of the conjunction *)
Theorem conj_index_ok : forall b ops conds,
  hist_sets_dead (init b) ops = false -> (forall c, In c conds -> has_float_special (snd c) = false) ->
  let s := run (init b) ops in forall n, In n (find_by_props s conds) <-> In n (scan_by_props s conds).
Proof. exact find_by_props_ok_l. Qed.
Print Assumptions conj_index_ok.

(** the behaviour before the repair ebcbf15 (delete_node left the node in the index) *)
Theorem index_ok_pre_refuted : exists ops key q n,
  hist_sets_dead (init true) ops = false /\ has_float_special q = false /\
  In n (find_by_prop (run_pre (init true) ops) key q) /\ ~ In n (scan_by_prop (run_pre (init true) ops) key q).
Proof.
  exists [CreateNode [0]; SetNodeProp 0 1 (VInt 5); CreateIndex 1; DeleteNode 0], 1, (VInt 5), 0.
  vm_compute. repeat split; auto; intros [].
Qed.
Print Assumptions index_ok_pre_refuted.

(** K3: the index compares floats by bit pattern, the scan by IEEE equality *)
Theorem index_float_refuted : exists ops key q n,
  hist_sets_dead (init true) ops = false /\
  In n (find_by_prop (run (init true) ops) key q) /\ ~ In n (scan_by_prop (run (init true) ops) key q).
Proof.
  exists [CreateNode []; SetNodeProp 0 1 (VFloat 9221120237041090560); CreateIndex 1], 1, (VFloat 9221120237041090560), 0.
  vm_compute. repeat split; auto; intros [].
Qed.
Print Assumptions index_float_refuted.

(** K6: a property written to a deleted node enters the index *)
Theorem index_dead_refuted : exists ops key q n,
  has_float_special q = false /\
  In n (find_by_prop (run (init true) ops) key q) /\ ~ In n (scan_by_prop (run (init true) ops) key q).
Proof.
  exists [CreateIndex 0; CreateNode []; DeleteNode 0; SetNodeProp 0 0 (VInt 1)], 0, (VInt 1), 0.
  vm_compute. repeat split; auto; intros [].
Qed.
Print Assumptions index_dead_refuted.

(** min/max pruning never claims "no match" when a match exists -- for node and edge columns, all
    six operators, every value type, nulls, overwrites, removals (outside K4: a strict comparison
    on a column where an Int64 of magnitude >= 2^53 meets a Float64) *)
Theorem might_match_sound : forall b ops (node : bool) key o q,
  let s := run (init b) ops in
  let p := if node then nprops s else eprops s in
  ps_round_class p key o q = false ->
  ps_might_match p key o q = false -> forall n x, ps_get p n key = Some x -> sat o x q = false.
Proof. exact might_match_sound_l. Qed.
Print Assumptions might_match_sound.

(** the behaviour before the repair 1879631 (<> was pruned when min == max == v) was sound only
    outside K5 as well: <> on a column holding, or bounded by, a value of another type or a NaN.
    For <> with a Float64 query value the floats of the history and the query value must be 64-bit
    patterns (the model keeps bit patterns as unbounded integers). *)
Theorem might_match_pre_sound : forall b ops (node : bool) key o q,
  let s := run (init b) ops in
  let p := if node then nprops s else eprops s in
  (o = OpNe -> is_float q = true -> hist_vals_wf ops /\ value_wf q) ->
  ps_zone_class p key o q = false ->
  ps_might_match_pre p key o q = false -> forall n x, ps_get p n key = Some x -> sat o x q = false.
Proof. exact might_match_pre_sound_full. Qed.
Print Assumptions might_match_pre_sound.

(** find_nodes_in_range (pruned through the zone map, even when it is marked dirty) = the scan *)
Theorem range_sound : forall b ops key lo hi li hi_i,
  let s := run (init b) ops in
  ps_range_class (nprops s) key lo hi li hi_i = false ->
  find_in_range s key lo hi li hi_i = scan_in_range s key lo hi li hi_i.
Proof. exact range_sound_l. Qed.
Print Assumptions range_sound.

(** K4: Float 2^53 is the minimum, Int 2^53 compares Equal to it and is stored, query < Int 2^53+1 *)
Theorem zone_round_refuted : exists ops key q n x,
  let s := run (init true) ops in
  ps_get (nprops s) n key = Some x /\ sat OpLt x q = true /\ node_might_match s key OpLt q = false /\
  In n (scan_in_range s key None (Some q) false false) /\ find_in_range s key None (Some q) false false = [].
Proof.
  exists [CreateNode []; CreateNode []; SetNodeProp 0 1 (VFloat 4845873199050653696); SetNodeProp 1 1 (VInt 9007199254740992)],
         1, (VInt 9007199254740993), 1, (VInt 9007199254740992).
  vm_compute. repeat split; auto.
Qed.
Print Assumptions zone_round_refuted.

(** K5 (repaired by 1879631): the column holds Int 1 and a NaN; before the repair <> 1 was pruned
    although NaN <> 1; the current code does not prune *)
Theorem zone_ne_pre_refuted : exists ops key q n x,
  let s := run (init true) ops in
  ps_get (nprops s) n key = Some x /\ sat OpNe x q = true /\ ps_might_match_pre (nprops s) key OpNe q = false /\
  node_might_match s key OpNe q = true.
Proof.
  exists [CreateNode []; CreateNode []; SetNodeProp 0 1 (VInt 1); SetNodeProp 1 1 (VFloat 9221120237041090560)],
         1, (VInt 1), 1, (VFloat 9221120237041090560).
  vm_compute. repeat split; auto.
Qed.
Print Assumptions zone_ne_pre_refuted.

(** counts = enumerations *)
Theorem count_enum : forall b ops, let s := run (init b) ops in
  node_count s = Z.of_nat (length (node_ids s)) /\ node_count s = Z.of_nat (length (all_nodes s)) /\
  edge_count s = Z.of_nat (length (all_edges s)).
Proof. intros b ops. apply count_enum_inv. apply BaseInv_run. Qed.
Print Assumptions count_enum.

(** statistics after a refresh = what compute_statistics yields on the current graph (outside K7:
    a label was added/removed while the statistics were considered fresh) ... *)
Theorem stats_fresh : forall b ops, hist_label_unflagged (init b) ops = false ->
  let s := run (init b) (ops ++ [RefreshStats]) in
  stats_cur s = compute_stats s /\ s_nodes (stats_cur s) = node_count s /\ s_edges (stats_cur s) = edge_count s.
Proof. intros b ops H. cbv zeta. rewrite (stats_after_refresh b ops H). repeat split. Qed.
Print Assumptions stats_fresh.

(** ... and what it yields for a label is the cardinality of the label lookup *)
Theorem stats_labels_actual : forall b ops l, let s := run (init b) ops in
  zget (s_labels (compute_stats s)) l =
  let c := Z.of_nat (length (nodes_by_label s l)) in if 0 <? c then Some c else None.
Proof. intros b ops l. apply stats_labels_spec. apply LabInv_run. Qed.
Print Assumptions stats_labels_actual.

(** K7 *)
Theorem stats_label_refuted : exists ops,
  let s := run (init true) (ops ++ [RefreshStats]) in stats_cur s <> compute_stats s.
Proof. exists [CreateNode [0]; RefreshStats; AddLabel 0 1]. vm_compute. discriminate. Qed.
Print Assumptions stats_label_refuted.

(** deleted entities appear nowhere: outside K2 no live edge has an endpoint that is not a live
    node, hence every listed neighbour is live and validate() is clean *)
Theorem no_dangling_ok : forall b ops, hist_dangles (init b) ops = false ->
  let s := run (init b) ops in
  no_dangling s = true /\
  (forall n d e, In (d, e) (out_entries (live_edges s) n) \/ In (d, e) (in_entries (live_edges s) n) -> node_live s d = true).
Proof.
  intros b ops H. cbv zeta. destruct (NoDang_run b ops H) as [B N]. split.
  - apply no_dangling_of_inv; assumption.
  - intros n d e. apply entries_live; assumption.
Qed.
Print Assumptions no_dangling_ok.

(** K2: GrafeoDB::delete_node / LpgStore::delete_node do not detach *)
Theorem dangling_refuted : exists ops n d,
  let s := run (init true) ops in
  In d (neighbors s n Outgoing) /\ node_live s d = false /\ validate s <> [].
Proof.
  exists [CreateNode []; CreateNode []; CreateEdge 0 1 0; DeleteNode 1], 0, 1.
  vm_compute. repeat split; auto; discriminate.
Qed.
Print Assumptions dangling_refuted.

(** non-vacuity of the zone-map premises: a mixed Int/Float column below 2^53 is outside both classes
    and pruning does happen on it *)
Example zone_scope_nonempty :
  let ops := [CreateNode []; CreateNode []; CreateNode []; SetNodeProp 0 1 (VFloat 4612811918334230528);
              SetNodeProp 1 1 (VInt 2); SetNodeProp 2 1 (VInt 3); SetEdgeProp 0 1 (VInt 4)] in
  let s := run (init true) ops in
  ps_round_class (nprops s) 1 OpLt (VInt 2) = false /\ node_might_match s 1 OpLt (VInt 2) = false /\
  ps_round_class (nprops s) 1 OpGe (VFloat 4612811918334230528) = false /\ node_might_match s 1 OpGe (VFloat 4612811918334230528) = true /\
  ps_zone_class (eprops s) 1 OpNe (VInt 4) = false /\ ps_might_match_pre (eprops s) 1 OpNe (VInt 4) = false /\ edge_might_match s 1 OpGt (VInt 4) = false /\
  ps_range_class (nprops s) 1 (Some (VInt 3)) None false true = false /\ find_in_range s 1 (Some (VInt 3)) None false true = [].
Proof. vm_compute. repeat split. Qed.

(** ... and of the premise about <> with a Float64 query value: an all-Float64 column of one value *)
Example zone_scope_float_ne :
  let ops := [CreateNode []; CreateNode []; SetNodeProp 0 1 (VFloat 4607182418800017408); SetNodeProp 1 1 (VFloat 4607182418800017408)] in
  let s := run (init true) ops in
  hist_vals_wf ops /\ value_wf (VFloat 4607182418800017408) /\
  ps_zone_class (nprops s) 1 OpNe (VFloat 4607182418800017408) = false /\
  ps_might_match_pre (nprops s) 1 OpNe (VFloat 4607182418800017408) = false.
Proof.
  cbv zeta. split; [repeat constructor; unfold in_u64, two64; lia|]. split; [unfold value_wf, in_u64, two64; lia|]. vm_compute. split; reflexivity.
Qed.

(** non-vacuity of the hypotheses: histories inside the scope of the theorems that exercise
    deletes, labels, edges, properties, indexes and compaction *)
Example scope_nonempty :
  let ops := [CreateNode [0; 1]; CreateNode [1]; CreateEdge 0 1 0; CreateEdge 0 0 1; SetNodeProp 0 2 (VInt 7);
              CreateIndex 2; Compact; DeleteEdge 0; FreezeAll; DeleteNodeEdges 1; DeleteNode 1; RefreshStats; AddLabel 0 3] in
  hist_wf ops /\ hist_sets_dead (init true) ops = false /\ hist_dangles (init true) ops = false
  /\ hist_label_unflagged (init true) (firstn 12 ops) = false
  /\ find_by_prop (run (init true) ops) 2 (VInt 7) = [0] /\ edges_from (run (init true) ops) 0 Outgoing = [(0, 1)].
Proof.
  cbv zeta. split; [split; [repeat constructor; unfold in_u64, two64; lia|unfold two64; cbn; lia]|]. vm_compute. repeat split.
Qed.
