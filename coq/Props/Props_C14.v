(** C14 — every access path to the property graph tells the same story: the property theorems
    (statements only; proofs are in Lpg/Proofs*.v).  Pinned by props/C14.statements.

    Every theorem quantifies over the configuration [b] (backward adjacency on/off) and over ALL
    operation sequences [ops]; [run (init b) ops] is the state they lead to.  The model is the code
    as it is after the repairs ebcbf15 (K1), 1879631 (K5), 109e5bf (K2, GrafeoDB level), c82f983 (K3),
    c5e300e (K4), 2e121d0 (K7); each repaired behaviour is kept as a [_pre] definition with a
    [_pre_refuted] theorem.  Open: K6 ([hist_sets_dead]) and K8 ([hist_dangles], store level). *)
From Coq Require Export ZArith List Bool Permutation.
Export ListNotations.
From GV Require Export Lpg.Model Lpg.Classes.
From GV Require Import Lpg.ProofsBase Lpg.ProofsInv Lpg.ProofsLabel Lpg.ProofsIndex Lpg.ProofsCount
  Lpg.ProofsAdj Lpg.ProofsDangling Lpg.ProofsZone Lpg.ProofsConj Lpg.ProofsDb.
Open Scope Z_scope.

(** label_index <-> node_labels, and only live nodes *)
Theorem label_mirror : forall b ops n l, let s := run (init b) ops in
  In n (nodes_by_label s l) <-> (node_live s n = true /\ In l (node_label_names s n)).
Proof. intros b ops n l. apply label_mirror_inv. apply LabInv_run. Qed.
Print Assumptions label_mirror.

(** nodes_by_label = the live nodes whose get_node() carries the label, once each *)
Theorem nodes_by_label_spec : forall b ops l, let s := run (init b) ops in
  NoDup (nodes_by_label s l) /\
  (forall n, In n (nodes_by_label s l) <->
             In n (node_ids s) /\ exists ls ps, get_node s n = Some (ls, ps) /\ In l ls).
Proof. intros b ops l. apply nodes_by_label_spec_inv; [apply BaseInv_run|apply LabInv_run]. Qed.
Print Assumptions nodes_by_label_spec.

(** neighbour lists and degrees = the live edge set, through chunk filling, delta compaction,
    hot->cold compression (C15 codecs) and tombstones; incoming through the backward lists or
    the scan fallback *)
Theorem adj_spec : forall b ops n, hist_wf ops -> let s := run (init b) ops in
  Permutation (edges_from s n Outgoing) (out_entries (live_edges s) n) /\
  out_degree s n = Z.of_nat (length (out_entries (live_edges s) n)) /\
  Permutation (neighbors s n Outgoing) (map fst (out_entries (live_edges s) n)) /\
  Permutation (edges_to s n) (in_entries (live_edges s) n) /\
  in_degree s n = Z.of_nat (length (in_entries (live_edges s) n)) /\
  (b = true ->
     Permutation (edges_from s n Incoming) (in_entries (live_edges s) n) /\
     Permutation (edges_from s n Both) (out_entries (live_edges s) n ++ in_entries (live_edges s) n) /\
     Permutation (neighbors s n Incoming) (map fst (in_entries (live_edges s) n))).
Proof.
  intros b ops n H. cbv zeta. destruct (AdjInv_run b ops H) as [B A].
  pose proof (adj_spec_inv (run (init b) ops) n B A) as R. rewrite (cfg_run b ops) in R. exact R.
Qed.
Print Assumptions adj_spec.

(** lookup through a property index = scan, for every query value (c82f983: values with a float
    NaN / zero are scanned) -- outside K6: a property written to an id that is not a live node *)
Theorem index_ok : forall b ops key q,
  hist_sets_dead (init b) ops = false ->
  let s := run (init b) ops in
  NoDup (find_by_prop s key q) /\ (forall n, In n (find_by_prop s key q) <-> In n (scan_by_prop s key q)).
Proof. intros b ops key q H. destruct (PI_run b ops H) as (B & P & I). apply index_ok_inv; assumption. Qed.
Print Assumptions index_ok.

(** find_nodes_by_properties (conjunction of equalities, evaluated through the property indexes where
    there are any, starting from the most selective indexed condition) = the scan of the conjunction *)
Theorem conj_index_ok : forall b ops conds,
  hist_sets_dead (init b) ops = false ->
  let s := run (init b) ops in forall n, In n (find_by_props s conds) <-> In n (scan_by_props s conds).
Proof. exact find_by_props_ok_l. Qed.
Print Assumptions conj_index_ok.

(** K1: the behaviour before the repair ebcbf15 (delete_node left the node in the index) *)
Theorem index_ok_pre_refuted : exists ops key q n,
  hist_sets_dead (init true) ops = false /\ has_float_special q = false /\
  In n (find_by_prop (run_pre (init true) ops) key q) /\ ~ In n (scan_by_prop (run_pre (init true) ops) key q).
Proof.
  exists [CreateNode [0]; SetNodeProp 0 1 (VInt 5); CreateIndex 1; DeleteNode 0], 1, (VInt 5), 0.
  vm_compute. repeat split; auto; intros [].
Qed.
Print Assumptions index_ok_pre_refuted.

(** K3: before c82f983 the lookup went through the index whenever there was one; the index compares
    floats by bit pattern, the scan by IEEE equality; the current lookup agrees with the scan *)
Theorem index_float_pre_refuted : exists ops key q n,
  let s := run (init true) ops in
  hist_sets_dead (init true) ops = false /\
  In n (find_by_prop_pre s key q) /\ ~ In n (scan_by_prop s key q) /\ ~ In n (find_by_prop s key q).
Proof.
  exists [CreateNode []; SetNodeProp 0 1 (VFloat 9221120237041090560); CreateIndex 1], 1, (VFloat 9221120237041090560), 0.
  vm_compute. repeat split; auto; intros [].
Qed.
Print Assumptions index_float_pre_refuted.

(** K6 (open): a property written to a deleted node enters the index *)
Theorem index_dead_refuted : exists ops key q n,
  has_float_special q = false /\
  In n (find_by_prop (run (init true) ops) key q) /\ ~ In n (scan_by_prop (run (init true) ops) key q).
Proof.
  exists [CreateIndex 0; CreateNode []; DeleteNode 0; SetNodeProp 0 0 (VInt 1)], 0, (VInt 1), 0.
  vm_compute. repeat split; auto; intros [].
Qed.
Print Assumptions index_dead_refuted.

(** min/max pruning never claims "no match" when a match exists -- for node and edge columns, all
    six operators, every value type (Int64 and Float64 mixed at any magnitude: c5e300e compares them
    exactly), nulls, overwrites, removals; no exception *)
Theorem might_match_sound : forall b ops (node : bool) key o q,
  let s := run (init b) ops in
  let p := if node then nprops s else eprops s in
  ps_might_match p key o q = false -> forall n x, ps_get p n key = Some x -> sat o x q = false.
Proof. exact might_match_sound_l. Qed.
Print Assumptions might_match_sound.

(** find_nodes_in_range (pruned through the zone map, even when it is marked dirty) = the scan *)
Theorem range_sound : forall b ops key lo hi li hi_i,
  let s := run (init b) ops in
  find_in_range s key lo hi li hi_i = scan_in_range s key lo hi li hi_i.
Proof. exact range_sound_l. Qed.
Print Assumptions range_sound.

(** K4: before c5e300e the zone map compared an Int64 with a Float64 through [i64 as f64].  A column
    that received Float 2^53 and then Int 2^53 keeps Float 2^53 as its minimum (under either
    comparison); the old predicates then prune [< Int 2^53+1] although Int 2^53 is stored; the
    current ones do not *)
Theorem zone_round_pre_refuted : exists v1 x q,
  let z := zone_insert_g cmp_zone_pre (zone_insert_g cmp_zone_pre zone_new v1) x in
  let c := {| c_vals := [(0, v1); (1, x)]; c_zone := z; c_dirty := false |} in
  z = zone_insert (zone_insert zone_new v1) x /\ sat OpLt x q = true /\
  col_might_match_pre_k4 c OpLt q = false /\ zone_range_g cmp_zone_pre z None (Some q) false false = false /\
  col_might_match c OpLt q = true /\ zone_range z None (Some q) false false = true.
Proof.
  exists (VFloat 4845873199050653696), (VInt 9007199254740992), (VInt 9007199254740993). vm_compute. repeat split.
Qed.
Print Assumptions zone_round_pre_refuted.

(** K5: before 1879631 [<>] was pruned when min == max == v; a column holding Int 1 and a NaN
    pruned [<> 1] although NaN <> 1 is stored; the current predicate never prunes [<>] *)
Theorem zone_ne_pre_refuted : exists v1 x q,
  let z := zone_insert_g cmp_zone_pre (zone_insert_g cmp_zone_pre zone_new v1) x in
  let c := {| c_vals := [(0, v1); (1, x)]; c_zone := z; c_dirty := false |} in
  z = zone_insert (zone_insert zone_new v1) x /\ sat OpNe x q = true /\
  col_might_match_pre_k5 c OpNe q = false /\ col_might_match c OpNe q = true.
Proof.
  exists (VInt 1), (VFloat 9221120237041090560), (VInt 1). vm_compute. repeat split.
Qed.
Print Assumptions zone_ne_pre_refuted.

(** counts = enumerations *)
Theorem count_enum : forall b ops, let s := run (init b) ops in
  node_count s = Z.of_nat (length (node_ids s)) /\ node_count s = Z.of_nat (length (all_nodes s)) /\
  edge_count s = Z.of_nat (length (all_edges s)).
Proof. intros b ops. apply count_enum_inv. apply BaseInv_run. Qed.
Print Assumptions count_enum.

(** statistics after a refresh = what compute_statistics yields on the current graph, after any
    history (2e121d0: label changes mark the statistics for recomputation too) ... *)
Theorem stats_fresh : forall b ops,
  let s := run (init b) (ops ++ [RefreshStats]) in
  stats_cur s = compute_stats s /\ s_nodes (stats_cur s) = node_count s /\ s_edges (stats_cur s) = edge_count s.
Proof. intros b ops. cbv zeta. rewrite (stats_after_refresh b ops). repeat split. Qed.
Print Assumptions stats_fresh.

(** ... and what it yields for a label is the cardinality of the label lookup *)
Theorem stats_labels_actual : forall b ops l, let s := run (init b) ops in
  zget (s_labels (compute_stats s)) l =
  let c := Z.of_nat (length (nodes_by_label s l)) in if 0 <? c then Some c else None.
Proof. intros b ops l. apply stats_labels_spec. apply LabInv_run. Qed.
Print Assumptions stats_labels_actual.

(** K7: before 2e121d0 add_label / remove_label left needs_stats_recompute alone *)
Theorem stats_label_pre_refuted : exists ops,
  let s := run_pre_k7 (init true) (ops ++ [RefreshStats]) in stats_cur s <> compute_stats s.
Proof. exists [CreateNode [0]; RefreshStats; AddLabel 0 1]. vm_compute. discriminate. Qed.
Print Assumptions stats_label_pre_refuted.

(** deleted entities appear nowhere: outside K8 no live edge has an endpoint that is not a live
    node, hence every listed neighbour is live and validate() is clean *)
Theorem no_dangling_ok : forall b ops, hist_dangles (init b) ops = false ->
  let s := run (init b) ops in
  no_dangling s = true /\
  (forall n d e, In (d, e) (out_entries (live_edges s) n) \/ In (d, e) (in_entries (live_edges s) n) -> node_live s d = true).
Proof.
  intros b ops H. cbv zeta. destruct (NoDang_run b ops H) as [B N]. split.
  - apply no_dangling_of_inv; assumption.
  - intros n d e. apply entries_live; assumption.
Qed.
Print Assumptions no_dangling_ok.

(** GrafeoDB::delete_node detaches (109e5bf): in a GrafeoDB-level history ([DbDeleteNode] = the
    wrapper; [Basic o] = a store-level operation) only a store-level operation of the class K8 can
    leave a dangling edge -- the wrapper's delete_node never does.  [dexpand] is the store-level
    history the GrafeoDB-level one amounts to ([drun s ds = run s (dexpand s ds)]); it must be
    well-formed (u64 ids, fewer than 2^64 operations) *)
Theorem db_delete_node_detaches : forall b ds,
  hist_wf (dexpand (init b) ds) -> dhist_dangles (init b) ds = false ->
  let s := drun (init b) ds in
  no_dangling s = true /\
  (forall n d e, In (d, e) (out_entries (live_edges s) n) \/ In (d, e) (in_entries (live_edges s) n) -> node_live s d = true).
Proof. exact db_no_dangling_l. Qed.
Print Assumptions db_delete_node_detaches.

Theorem db_history_is_store_history : forall s ds, drun s ds = run s (dexpand s ds).
Proof. intros s ds. apply drun_expand. Qed.
Print Assumptions db_history_is_store_history.

(** K8 (open; the store-level part of the former K2): LpgStore::delete_node does not detach *)
Theorem dangling_refuted : exists ops n d,
  let s := run (init true) ops in
  In d (neighbors s n Outgoing) /\ node_live s d = false /\ validate s <> [].
Proof.
  exists [CreateNode []; CreateNode []; CreateEdge 0 1 0; DeleteNode 1], 0, 1.
  vm_compute. repeat split; auto; discriminate.
Qed.
Print Assumptions dangling_refuted.

(** K2 (repaired at the GrafeoDB level): the same history through GrafeoDB::delete_node is clean *)
Example db_delete_clean :
  let s := drun (init true) [Basic (CreateNode []); Basic (CreateNode []); Basic (CreateEdge 0 1 0); DbDeleteNode 1] in
  neighbors s 0 Outgoing = [] /\ validate s = [] /\ edge_count s = 0.
Proof. vm_compute. repeat split. Qed.

(** non-vacuity: mixed Int/Float columns (also beyond 2^53) are pruned, and correctly *)
Example zone_scope_nonempty :
  let ops := [CreateNode []; CreateNode []; CreateNode []; SetNodeProp 0 1 (VFloat 4845873199050653696);
              SetNodeProp 1 1 (VInt 9007199254740993); SetNodeProp 2 1 (VInt 3); SetEdgeProp 0 1 (VInt 4)] in
  let s := run (init true) ops in
  node_might_match s 1 OpLt (VInt 3) = false /\ node_might_match s 1 OpLt (VInt 4) = true /\
  node_might_match s 1 OpGt (VInt 9007199254740993) = false /\ node_might_match s 1 OpGt (VFloat 4845873199050653696) = true /\
  edge_might_match s 1 OpGt (VInt 4) = false /\ edge_might_match s 1 OpNe (VInt 4) = true /\
  find_in_range s 1 (Some (VInt 9007199254740993)) None false true = [].
Proof. vm_compute. repeat split. Qed.

(** non-vacuity of the hypotheses: histories inside the scope of the theorems that exercise
    deletes, labels, edges, properties, indexes and compaction *)
Example scope_nonempty :
  let ops := [CreateNode [0; 1]; CreateNode [1]; CreateEdge 0 1 0; CreateEdge 0 0 1; SetNodeProp 0 2 (VInt 7);
              CreateIndex 2; Compact; DeleteEdge 0; FreezeAll; DeleteNodeEdges 1; DeleteNode 1; RefreshStats; AddLabel 0 3] in
  hist_wf ops /\ hist_sets_dead (init true) ops = false /\ hist_dangles (init true) ops = false
  /\ find_by_prop (run (init true) ops) 2 (VInt 7) = [0] /\ edges_from (run (init true) ops) 0 Outgoing = [(0, 1)].
Proof.
  cbv zeta. split; [split; [repeat constructor; unfold in_u64, two64; lia|unfold two64; cbn; lia]|]. vm_compute. repeat split.
Qed.

Example db_scope_nonempty :
  let ds := [Basic (CreateNode [0]); Basic (CreateNode []); Basic (CreateEdge 0 1 0); Basic (CreateEdge 1 1 1); DbDeleteNode 1; DbDeleteNode 7] in
  hist_wf (dexpand (init false) ds) /\ dhist_dangles (init false) ds = false /\ node_count (drun (init false) ds) = 1.
Proof.
  cbv zeta.
  assert (E : dexpand (init false) [Basic (CreateNode [0]); Basic (CreateNode []); Basic (CreateEdge 0 1 0); Basic (CreateEdge 1 1 1); DbDeleteNode 1; DbDeleteNode 7]
              = [CreateNode [0]; CreateNode []; CreateEdge 0 1 0; CreateEdge 1 1 1; DeleteNodeEdges 1; DeleteNode 1; DeleteNode 7])
    by (vm_compute; reflexivity).
  rewrite E. split; [split; [repeat constructor; unfold in_u64, two64; lia|unfold two64; cbn; lia]|]. vm_compute. split; reflexivity.
Qed.
