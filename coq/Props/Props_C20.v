(** C20 — concurrent use is safe: the property theorems (statements only; proofs are in
    Conc/Proofs*.v).  Pinned by props/C20.statements.

    Every theorem quantifies over the number of threads (the length of [progs]), over the
    programs and over the schedule.  Since every prefix of a schedule is a schedule, a
    statement about [run sched (init ...)] for all [sched] is a statement about every
    reachable configuration. *)
From GV Require Export Conc.Ops Conc.Run.
From GV Require Export Conc.ProofsSem Conc.ProofsIds Conc.ProofsTm Conc.ProofsBuf Conc.ProofsRdf Conc.ProofsRdfPre Conc.ProofsLock Conc.ProofsSeq Conc.ProofsAll Conc.ProofsAdj Conc.ProofsLbl.
From Coq Require Export ZArith List Bool Sorted.
Export ListNotations.
Open Scope Z_scope.

Theorem ids_unique : forall g0 progs sched,
  let c := grun sched (ginit g0 progs) in
  NoDup (created_nodes c) /\ NoDup (created_edges c) /\
  (forall n, In n (created_nodes c) -> g_next_node g0 <= n < g_next_node (sh c) /\ In n (map fst (g_nodes (sh c)))) /\
  (forall e, In e (created_edges c) -> g_next_edge g0 <= e < g_next_edge (sh c) /\ In e (map fst (g_edges (sh c)))).
Proof. exact ids_unique_l. Qed.
Print Assumptions ids_unique.

Theorem commit_epochs_unique_increasing : forall progs sched,
  let c := mrun sched (minit progs) in
  NoDup (all_commit_epochs c) /\
  (forall th, In th (pool c) -> StronglySorted Z.lt (epochs_in_order th)) /\
  (forall e, In e (all_commit_epochs c) -> 1 <= e <= m_epoch (sh c)) /\
  Z.of_nat (length (all_commit_epochs c)) = m_epoch (sh c).
Proof. exact commit_epochs_unique_increasing_l. Qed.
Print Assumptions commit_epochs_unique_increasing.

Theorem tx_ids_unique : forall progs sched,
  let c := mrun sched (minit progs) in
  NoDup (all_begun c) /\ (forall t, In t (all_begun c) -> 2 <= t < m_next (sh c)).
Proof. exact tx_ids_unique_l. Qed.
Print Assumptions tx_ids_unique.

Theorem buffer_never_over_limit : forall hard progs sched,
  0 <= hard -> safe_progs progs = true ->
  let c := brun sched (binit hard progs) in 0 <= b_alloc (sh c) <= hard.
Proof. exact buffer_never_over_limit_l. Qed.
Print Assumptions buffer_never_over_limit.

Theorem buffer_accounting : forall hard progs sched,
  let c := brun sched (binit hard progs) in
  b_alloc (sh c) = zsum owed (pool c) /\
  (finished c = true -> all_released c -> b_alloc (sh c) = 0).
Proof. intros; split; [apply buffer_accounting_l|apply buffer_accounting_quiescent_l]. Qed.
Print Assumptions buffer_accounting.

Theorem buffer_over_limit_pre_refuted :
  exists hard progs sched, 0 <= hard /\ progs = [[BAllocPre 0 6]; [BAllocPre 1 6]] /\ sched = [0; 1; 0; 1]%nat /\
    b_alloc (sh (brun sched (binit hard progs))) > hard.
Proof. exact buffer_over_limit_pre_refuted_l. Qed.
Print Assumptions buffer_over_limit_pre_refuted.

Theorem buffer_resize_over_limit_pre_refuted :
  exists hard progs sched, 0 <= hard /\ progs = [[BAlloc 0 1; BResizePre 0 6]; [BAlloc 1 1; BResizePre 1 6]] /\
    k_buf progs = true /\ b_alloc (sh (brun sched (binit hard progs))) > hard.
Proof. exact buffer_resize_over_limit_pre_refuted_l. Qed.
Print Assumptions buffer_resize_over_limit_pre_refuted.

Theorem sequential_refinement : forall g0 progs sched,
  wf_lpg g0 -> create_only progs = true ->
  let c := grun sched (ginit g0 progs) in
  finished c = true ->
  exists order : list (nat * gop),
    (forall i, (i < length progs)%nat -> map snd (filter (fun x => Nat.eqb (fst x) i) order) = nth i progs []) /\
    lpg_equiv (sh c) (fst (seq_run g0 order)) /\
    (forall i, (i < length progs)%nat -> proj i (snd (seq_run g0 order)) = nth i (outputs c) []).
Proof. exact sequential_refinement_l. Qed.
Print Assumptions sequential_refinement.

(** triple store, current code (C20-K1 repaired): the three indexes agree with the primary set in every
    reachable configuration — no hypothesis on the programs, no hypothesis on the schedule *)
Theorem rdf_index_consistent : forall q0 progs sched,
  (forall t, rdf_consistent_at q0 t = true) ->
  forall t, rdf_consistent_at (sh (qrun sched (qinit q0 progs))) t = true.
Proof. exact rdf_index_consistent_l. Qed.
Print Assumptions rdf_index_consistent.

(** triple store before the repair ([qop_pre]: four separately locked updates) *)
Theorem rdf_torn_pre_refuted :
  exists progs sched, progs = [[QInsertPre 7]; [QRemovePre 7]] /\ sched = [0; 0; 1; 1; 1; 1; 0; 0; 0]%nat /\
    k_rdf progs = true /\
    let c := qrun_pre sched (qinit_pre rdf0 progs) in
    finished c = true /\ zmem 7 (q_prim (sh c)) = false /\
    zmem 7 (q_s (sh c)) = true /\ zmem 7 (q_p (sh c)) = true /\ zmem 7 (q_o (sh c)) = true /\
    rdf_consistent_at (sh c) 7 = false.
Proof. exact rdf_torn_pre_refuted_l. Qed.
Print Assumptions rdf_torn_pre_refuted.

Theorem rdf_index_consistent_pre_outside_K : forall q0 progs sched,
  (forall t, rdf_consistent_at q0 t = true) -> k_rdf progs = false ->
  let c := qrun_pre sched (qinit_pre q0 progs) in
  finished c = true -> forall t, rdf_consistent_at (sh c) t = true.
Proof. exact rdf_index_consistent_pre_outside_K_l. Qed.
Print Assumptions rdf_index_consistent_pre_outside_K.

(** the label index agrees with the node labels after every complete run: every number of threads, every
    schedule, EVERY program (current code, C20-K2 repaired); and the result is again a well-formed
    starting graph *)
Theorem label_index_consistent : forall g0 progs sched,
  wf_lbl g0 ->
  let c := grun sched (ginit g0 progs) in
  finished c = true ->
  (forall l n, In (l, n) (g_lindex (sh c)) <-> node_live (sh c) n = true /\ In l (labels_of (sh c) n)) /\ wf_lbl (sh c).
Proof. exact label_index_consistent_l. Qed.
Print Assumptions label_index_consistent.

(** label operations before the repair of C20-K2/K7 ([gop_pre]: four separately locked steps) *)
Theorem label_torn_pre_refuted :
  exists progs sched, progs = [[PAddLabel 0 2]; [PDeleteNode 0]] /\ sched = [0; 1; 1; 1; 0; 0; 0]%nat /\
    k_label progs = true /\
    let c := grun_pre sched (ginit_pre g_one_node progs) in
    finished c = true /\ node_live (sh c) 0 = false /\ zmem 0 (by_label (sh c) 2) = true.
Proof. exact label_torn_pre_refuted_l. Qed.
Print Assumptions label_torn_pre_refuted.

Theorem label_addrem_torn_pre_refuted :
  exists progs sched, progs = [[PAddLabel 0 2]; [PRemoveLabel 0 2]] /\ sched = [0; 0; 0; 1; 1; 1; 1; 0]%nat /\
    k_label progs = true /\
    let c := grun_pre sched (ginit_pre g_one_node progs) in
    finished c = true /\ outputs c = [[(PAddLabel 0 2, OB true)]; [(PRemoveLabel 0 2, OB true)]] /\
    zmem 2 (labels_of (sh c) 0) = false /\ zmem 0 (by_label (sh c) 2) = true.
Proof. exact label_addrem_torn_pre_refuted_l. Qed.
Print Assumptions label_addrem_torn_pre_refuted.

Theorem edge_torn_refuted :
  exists progs sched, progs = [[GCreateEdge 2 0]; [GDeleteEdge 2]] /\ sched = [0; 0; 0; 1; 1; 1; 1; 0; 0]%nat /\
    k_edge_torn (g_next_edge g_three_nodes) progs = true /\
    let c := grun sched (ginit g_three_nodes progs) in
    finished c = true /\ outputs c = [[(GCreateEdge 2 0, OZ 2)]; [(GDeleteEdge 2, OB true)]] /\
    In (2, 0, 2) (adj_visible (g_fwd (sh c)) (g_fwd_del (sh c))) /\
    In (0, 2, 2) (adj_visible (g_bwd (sh c)) (g_bwd_del (sh c))) /\
    ~ In 2 (map (fun x => fst (fst x)) (live_edges (sh c))).
Proof. exact edge_torn_refuted_l. Qed.
Print Assumptions edge_torn_refuted.

(** the adjacency lists agree with the edge map after every complete run: every number of threads,
    every schedule, every program whose delete_edge calls name edges of the (well-formed) starting
    graph — the complement of the class of [edge_torn_refuted]; and the resulting graph is again a
    well-formed starting graph *)
Theorem adjacency_consistent_outside_K : forall g0 progs sched,
  wf_adj g0 -> deletes_below (g_next_edge g0) progs = true ->
  let c := grun sched (ginit g0 progs) in
  finished c = true ->
  forall s d e,
    (In (s, d, e) (adj_visible (g_fwd (sh c)) (g_fwd_del (sh c))) <-> In (e, s, d) (live_edges (sh c))) /\
    (In (d, s, e) (adj_visible (g_bwd (sh c)) (g_bwd_del (sh c))) <-> In (e, s, d) (live_edges (sh c))).
Proof. exact adjacency_consistent_outside_K_l. Qed.
Print Assumptions adjacency_consistent_outside_K.

Theorem adjacency_wf_preserved : forall g0 progs sched,
  wf_adj g0 -> deletes_below (g_next_edge g0) progs = true ->
  let c := grun sched (ginit g0 progs) in
  finished c = true -> wf_adj (sh c).
Proof. exact wf_adj_of_run. Qed.
Print Assumptions adjacency_wf_preserved.

Theorem create_guess_refuted :
  exists progs sched,
    progs = [[GCreateNode [3]; GDeleteNode 3]; [GCreateNode [2; 3]; GAddLabel 3 2]] /\
    sched = [1; 0; 0; 0; 1; 0; 1; 1; 1; 0; 0; 1; 1; 1]%nat /\
    k_id_guess 3 progs = true /\
    let c := grun sched (ginit (gsetup lpg_setup) progs) in
    finished c = true /\
    outputs c = [[(GCreateNode [3], OZ 4); (GDeleteNode 3, OB false)]; [(GCreateNode [2; 3], OZ 3); (GAddLabel 3 2, OB false)]] /\
    lobs_consistent (observe (sh c) lpg_labels) = true /\
    chk_lpg_seq lpg_setup progs lpg_labels (outputs c) (observe (sh c) lpg_labels) = false.
Proof. exact create_guess_refuted_l. Qed.
Print Assumptions create_guess_refuted.

Theorem prop_index_torn_refuted :
  exists progs sched, progs = [[PSetProp 0 1]; [PSetProp 0 2]] /\ sched = [0; 1; 0; 0; 0; 1; 1; 1]%nat /\
    k_prop progs = true /\
    let c := prun sched (pinit progs) in
    finished c = true /\ aget 0 (p_props (sh c)) = Some 2 /\ pmem (1, 0) (p_idx (sh c)) = true /\
    pidx_consistent (sh c) = false.
Proof. exact prop_index_torn_refuted_l. Qed.
Print Assumptions prop_index_torn_refuted.

Theorem wal_rotation_order_refuted :
  exists progs sched, progs = [[RLog 1]; [RLog 11; RLog 12; RLog 13]] /\
    sched = [0; 0; 0; 1; 1; 1; 1; 1; 1; 1; 1; 0; 1; 1; 1; 1]%nat /\ k_wal_rotation progs = true /\
    let c := rrun sched (rinit progs) in
    finished c = true /\ recovered (sh c) = [1; 11; 13; 12].
Proof. exact wal_rotation_order_refuted_l. Qed.
Print Assumptions wal_rotation_order_refuted.

Theorem label_delete_deadlock_pre_refuted :
  exists sched, lstuck (lrun sched (linit [gtrace_pre (PAddLabel 0 1); gtrace_pre (PDeleteNode 0)])) = true.
Proof. exact label_delete_deadlock_pre_refuted_l. Qed.
Print Assumptions label_delete_deadlock_pre_refuted.

Theorem rank_order_no_deadlock : forall progs sched,
  Forall (fun p => disciplined p = true) progs ->
  let ths := lrun sched (linit progs) in
  ldone ths = true \/ exists i, lenabled ths i = true.
Proof. exact rank_order_no_deadlock_l. Qed.
Print Assumptions rank_order_no_deadlock.

(** the domain is the finite table [op_table] of transcribed operations *)
Theorem ops_respect_rank : forallb (fun e => disciplined (snd e)) op_table = true.
Proof. exact ops_respect_rank_l. Qed.
Print Assumptions ops_respect_rank.

Theorem rank_violators_refuted : forallb (fun e => negb (disciplined (snd e))) rank_violators = true.
Proof. exact rank_violators_refuted_l. Qed.
Print Assumptions rank_violators_refuted.

Theorem table_no_deadlock : forall (progs : list (list (list lact))) sched,
  Forall (Forall (fun a => In a table_traces)) progs ->
  lstuck (lrun sched (linit (map (@concat lact) progs))) = false.
Proof. exact table_no_deadlock_l. Qed.
Print Assumptions table_no_deadlock.

Theorem wal_log_complete : forall progs sched,
  let c := wrun sched (winit progs) in
  (forall th, In th (pool c) -> subseq (logged (t_out th)) (w_log (sh c))) /\
  length (w_log (sh c)) = length (flat_map (fun th => logged (t_out th)) (pool c)).
Proof. exact wal_log_complete_l. Qed.
Print Assumptions wal_log_complete.

(** exhaustive small scope, proved by computation inside Coq ([forall_scheds] walks the whole tree of
    schedules): the domain is the finite table of operation templates / programs that the scheduler
    harness enumerates on the real code.  [lpg_lin_ok] etc. = the cross-checks hold and outputs and
    final observation are those of SOME sequential order of the operations. *)
Theorem lpg_pairs_linearizable : forall a b sched,
  In a lpg_templates -> In b lpg_templates -> k_edge_torn 2 [[a]; [b]] = false ->
  let c := grun sched (ginit (gsetup lpg_setup) [[a]; [b]]) in
  finished c = true -> lpg_lin_ok [[a]; [b]] c = true.
Proof. exact lpg_pairs_linearizable_l. Qed.
Print Assumptions lpg_pairs_linearizable.

Theorem rdf_pairs_linearizable : forall a b sched,
  In a rdf_templates -> In b rdf_templates ->
  let c := qrun sched (qinit (rdf_of [0; 2]) [[a]; [b]]) in
  finished c = true -> rdf_lin_ok [[a]; [b]] c = true.
Proof. exact rdf_pairs_linearizable_l. Qed.
Print Assumptions rdf_pairs_linearizable.

Theorem tm_programs_linearizable : forall progs sched,
  In progs tm_programs ->
  let c := mrun sched (minit progs) in finished c = true -> tm_lin_ok progs c = true.
Proof. exact tm_programs_linearizable_l. Qed.
Print Assumptions tm_programs_linearizable.

Theorem buf_programs_linearizable : forall progs sched,
  In progs buf_programs ->
  let c := brun sched (binit 10 progs) in finished c = true -> buf_lin_ok progs c = true.
Proof. exact buf_programs_linearizable_l. Qed.
Print Assumptions buf_programs_linearizable.

(** non-vacuity: the hypotheses are met by contended programs, and complete runs exist *)
Example nv_safe_resize : safe_progs [[BAlloc 0 1; BResize 0 6]; [BAlloc 1 1; BResize 1 6]] = true /\
  b_alloc (sh (brun [0; 0; 1; 1; 0; 1; 0; 1; 0; 1]%nat (binit 10 [[BAlloc 0 1; BResize 0 6]; [BAlloc 1 1; BResize 1 6]]))) = 7.
Proof. vm_compute. split; reflexivity. Qed.
Example nv_safe_contended :
  safe_progs [[BAlloc 0 6; BRelease 0]; [BAlloc 1 6; BRelease 1]] = true /\
  let c := brun [0; 1; 1; 0; 0; 0; 1; 1; 1; 1]%nat (binit 10 [[BAlloc 0 6; BRelease 0]; [BAlloc 1 6; BRelease 1]]) in
  finished c = true /\ outputs c = [[(BAlloc 0 6, OB true); (BRelease 0, OB true)]; [(BAlloc 1 6, OB false); (BRelease 1, OB false)]]
  /\ b_alloc (sh c) = 0.
Proof. vm_compute. repeat split; reflexivity. Qed.
Example nv_rdf_outside_K :
  k_rdf [[QInsertPre 1; QInsertPre 2]; [QInsertPre 1; QRemovePre 3]; [QRemovePre 3]] = false /\
  (forall t, rdf_consistent_at (rdf_of [3]) t = true) /\
  finished (qrun_pre (round_robin 3 12) (qinit_pre (rdf_of [3]) [[QInsertPre 1; QInsertPre 2]; [QInsertPre 1; QRemovePre 3]; [QRemovePre 3]])) = true.
Proof.
  split; [vm_compute; reflexivity|]. split; [|vm_compute; reflexivity].
  intros t. unfold rdf_consistent_at, idx_ok, rdf_of. simpl. unfold zcount, zmem. simpl.
  destruct (t =? 3); reflexivity.
Qed.
Example nv_create_only :
  create_only [[GCreateNode [1; 2]; GCreateEdge 0 1]; [GCreateNode [2]; GCreateNode []]] = true /\ wf_lpg lpg0 /\
  finished (grun (round_robin 2 12) (ginit lpg0 [[GCreateNode [1; 2]; GCreateEdge 0 1]; [GCreateNode [2]; GCreateNode []]])) = true.
Proof. split; [reflexivity|]. split; [intros k H; destruct H|vm_compute; reflexivity]. Qed.
Example nv_disciplined : Forall (fun p => disciplined p = true) [gtrace (GDeleteNode 0); gtrace (GCreateNode [1]); mtrace (MCommitOp 0)]
  /\ In (gtrace (GDeleteNode 0)) table_traces.
Proof. split; [repeat constructor|vm_compute; tauto]. Qed.
Example nv_pairs : In (GAddLabel 0 2) lpg_templates /\ In (GCreateEdge 0 1) lpg_templates /\
  k_edge_torn 2 [[GAddLabel 0 2]; [GCreateEdge 0 1]] = false /\
  finished (grun (round_robin 2 6) (ginit (gsetup lpg_setup) [[GAddLabel 0 2]; [GCreateEdge 0 1]])) = true.
Proof. vm_compute. tauto. Qed.
Example nv_adj : wf_adj lpg0 /\ wf_adj g_three_nodes /\
  deletes_below (g_next_edge g_three_nodes) [[GCreateEdge 2 0; GDeleteEdge 0]; [GDeleteEdge 0; GCreateEdge 0 2]; [GDeleteEdge 1]] = true /\
  finished (grun (round_robin 3 12) (ginit g_three_nodes [[GCreateEdge 2 0; GDeleteEdge 0]; [GDeleteEdge 0; GCreateEdge 0 2]; [GDeleteEdge 1]])) = true.
Proof. split; [exact wf_adj_lpg0|]. split; [exact wf_adj_three_nodes|]. exact nv_adjacency. Qed.
Example nv_lbl : wf_lbl lpg0 /\ wf_lbl g_three_nodes /\
  finished (grun (round_robin 3 12) (ginit g_three_nodes [[GAddLabel 0 2; GDeleteNode 1]; [GDeleteNode 0; GCreateNode [1; 3]]; [GRemoveLabel 0 1; GAddLabel 3 2]])) = true.
Proof. split; [exact wf_lbl_lpg0|]. split; [exact wf_lbl_three_nodes|exact nv_label_index]. Qed.
Example nv_commits :
  let c := mrun (round_robin 2 10) (minit [[MBegin 0; MCommitOp 0]; [MBegin 0; MCommitOp 0; MCommitOp 0]]) in
  finished c = true /\ all_commit_epochs c = [1; 2].
Proof. vm_compute. split; reflexivity. Qed.
