(** C15 — every compression codec is lossless: the property theorems (statements only;
    proofs are in Codec/Proofs.v).  Pinned by props/C15.statements. *)
From GV Require Export Codec.Model Codec.Model2.
From GV Require Import Codec.Proofs Codec.Proofs2.
From Coq Require Export Permutation.
Open Scope Z_scope.

Theorem zigzag_roundtrip : forall v, in_i64 v -> zigzag_decode_bits (zigzag_encode_bits v) = v.
Proof. exact zigzag_bits_rt. Qed.
Print Assumptions zigzag_roundtrip.

Theorem zigzag_roundtrip_inv : forall u, in_u64 u -> zigzag_encode_bits (zigzag_decode_bits u) = u.
Proof. exact zigzag_bits_rt'. Qed.
Print Assumptions zigzag_roundtrip_inv.

Theorem delta_unsigned_roundtrip : forall m xs, sortedb xs = true -> Forall in_u64 xs ->
  exists d, delta_encode m xs = Ok d /\ delta_decode d = xs.
Proof. exact delta_unsigned_rt_l. Qed.
Print Assumptions delta_unsigned_roundtrip.

Theorem delta_unsigned_guard : forall xs, sortedb xs = false -> delta_encode Checked xs = Panic.
Proof. exact delta_unsigned_guard_l. Qed.
Print Assumptions delta_unsigned_guard.

Theorem delta_signed_roundtrip : forall xs, Forall in_i64 xs -> delta_decode_signed (delta_encode_signed xs) = xs.
Proof. exact delta_signed_rt_l. Qed.
Print Assumptions delta_signed_roundtrip.

Theorem delta_signed_pre_refuted : exists xs, Forall in_i64 xs /\ delta_encode_signed_pre Checked xs = Panic.
Proof. exact delta_signed_pre_refuted_l. Qed.
Print Assumptions delta_signed_pre_refuted.

Theorem delta_bytes_roundtrip : forall d,
  in_u64 (d_base d) -> Forall in_u64 (d_deltas d) -> 0 <= d_count d < 2 ^ 32 ->
  Z.of_nat (length (d_deltas d)) = (if d_count d =? 0 then 0 else d_count d - 1) ->
  delta_from_bytes (delta_to_bytes d) = Some d.
Proof. intros d H1 H2 H3 H4. apply delta_bytes_rt_l. unfold delta_wf. auto. Qed.
Print Assumptions delta_bytes_roundtrip.

Theorem bitpack_roundtrip : forall xs, Forall in_u64 xs -> unpack (pack xs) = xs.
Proof. exact unpack_pack_l. Qed.
Print Assumptions bitpack_roundtrip.

Theorem bitpack_get_agrees : forall xs i, Forall in_u64 xs -> 0 <= i ->
  bp_get (pack xs) i = nth_error xs (Z.to_nat i).
Proof. exact get_pack_l. Qed.
Print Assumptions bitpack_get_agrees.

Theorem bitpack_explicit_width : forall m xs bits,
  1 <= bits <= 64 -> Forall (fun v => 0 <= v < 2 ^ bits) xs ->
  exists p, pack_with_bits m xs bits = Ok p /\ unpack p = xs /\
            forall i, 0 <= i -> bp_get p i = nth_error xs (Z.to_nat i).
Proof. exact pack_with_bits_l. Qed.
Print Assumptions bitpack_explicit_width.

Theorem dbp_roundtrip : forall xs, sortedb xs = true -> Forall in_u64 xs ->
  dbp_decode (dbp_encode xs) = xs /\ dbp_len (dbp_encode xs) = Z.of_nat (length xs).
Proof. intros xs H1 H2. split; [apply dbp_rt_l|apply dbp_len_l]; assumption. Qed.
Print Assumptions dbp_roundtrip.

Theorem dbp_pre_refuted : exists xs, sortedb xs = true /\ Forall in_u64 xs /\ dbp_decode_pre (dbp_encode_pre xs) <> xs.
Proof. exact dbp_pre_refuted_l. Qed.
Print Assumptions dbp_pre_refuted.

Theorem rle_roundtrip : forall xs, rle_decode (rle_encode xs) = xs.
Proof. exact rle_rt_l. Qed.
Print Assumptions rle_roundtrip.

Theorem rle_get_agrees : forall xs i, 0 <= i -> rle_get (rle_encode xs) i = nth_error xs (Z.to_nat i).
Proof. exact rle_get_spec_l. Qed.
Print Assumptions rle_get_agrees.

Theorem srle_roundtrip : forall xs, srle_decode (srle_encode xs) = xs.
Proof. exact srle_rt_l. Qed.
Print Assumptions srle_roundtrip.

Theorem bitvec_get_agrees : forall bs i, 0 <= i -> bv_get (bv_from_bools bs) i = nth_error bs (Z.to_nat i).
Proof. exact bv_get_from_bools_l. Qed.
Print Assumptions bitvec_get_agrees.

Theorem bitvec_roundtrip : forall bs, bv_to_bools (bv_from_bools bs) = bs.
Proof. exact bv_to_bools_from_bools_l. Qed.
Print Assumptions bitvec_roundtrip.

Theorem dict_roundtrip : forall vs i, 0 <= i ->
  dc_get (dict_encode vs) i = match nth_error vs (Z.to_nat i) with Some (Some s) => Some s | _ => None end.
Proof. exact dict_roundtrip_l. Qed.
Print Assumptions dict_roundtrip.

Theorem bitpack_bytes_roundtrip : forall xs, Forall in_u64 xs -> Z.of_nat (length xs) < 2 ^ 32 ->
  bp_from_bytes (bp_to_bytes (pack xs)) = Ok (Some (pack xs)).
Proof.
  intros xs H1 H2. rewrite <- (app_nil_r (bp_to_bytes (pack xs))).
  apply bp_bytes_roundtrip_l; [apply pack_wf; assumption|reflexivity].
Qed.
Print Assumptions bitpack_bytes_roundtrip.

Theorem codec_roundtrip : forall c xs, Forall in_u64 xs -> Z.of_nat (length xs) < 2 ^ 32 ->
  (match c with CDbp _ => sortedb xs = true | _ => True end) ->
  decompress_as c (compress_as c xs) = Ok (Some xs).
Proof. exact codec_roundtrip_l. Qed.
Print Assumptions codec_roundtrip.

Theorem auto_codec_roundtrip : forall xs, Forall in_u64 xs -> Z.of_nat (length xs) < 2 ^ 32 ->
  decompress_as (fst (compress_integers xs)) (snd (compress_integers xs)) = Ok (Some xs).
Proof. exact auto_codec_roundtrip_l. Qed.
Print Assumptions auto_codec_roundtrip.

Theorem adj_chunk_roundtrip : forall es, Forall (fun e => in_u64 (fst e) /\ in_u64 (snd e)) es ->
  chunk_iter (chunk_compress es) = sort_by_dst es /\ Permutation (chunk_iter (chunk_compress es)) es.
Proof. exact chunk_roundtrip_l. Qed.
Print Assumptions adj_chunk_roundtrip.

Theorem column_compress_transparent : forall ms id,
  col_get (fold_left col_apply ms col_empty) id = assoc_get id (fold_left ref_apply ms []).
Proof. exact column_transparent_l. Qed.
Print Assumptions column_compress_transparent.

(** non-vacuity: the hypotheses are met by non-trivial inputs (extremes included) *)
Example nv_u64 : sortedb [0; 5; 5; two64 - 1] = true /\ Forall in_u64 [0; 5; 5; two64 - 1].
Proof. split; [reflexivity|]. repeat constructor; unfold in_u64, two64; lia. Qed.
Example nv_i64 : Forall in_i64 [- two63; two63 - 1; 0; -1].
Proof. repeat constructor; unfold in_i64, two63; lia. Qed.
Example nv_width : Forall (fun v => 0 <= v < 2 ^ 3) [7; 0; 5] /\ 1 <= 3 <= 64.
Proof. split; [repeat constructor; lia|lia]. Qed.
Example nv_roundtrip_runs :
  dbp_decode (dbp_encode [0]) = [0] /\ delta_decode_signed (delta_encode_signed [- two63; two63 - 1]) = [- two63; two63 - 1]
  /\ unpack (pack [1; two64 - 1; 0]) = [1; two64 - 1; 0].
Proof. vm_compute. repeat split. Qed.
Example nv_column : col_get (fold_left col_apply [MSet 1 (PInt 5); MSet 2 (PInt 6); MCompress (Some KInt); MSet 1 (PInt 7); MRemove 2] col_empty) 1 = Some (PInt 7)
  /\ col_comp (fold_left col_apply [MSet 1 (PInt 5); MSet 2 (PInt 6); MCompress (Some KInt)] col_empty) <> None.
Proof. vm_compute. split; [reflexivity|discriminate]. Qed.
Example nv_select : select_for_integers [1;2;3;4;5;6;7;8;9] = CDbp 1 /\ select_for_integers [5;5;5;5;5;5;5;5;5] = CRle
  /\ select_for_integers [3;1;3;1;2;0;3;1;2] = CBp 2.
Proof. vm_compute. repeat split. Qed.
