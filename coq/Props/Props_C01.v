(** C01 — transactions read a stable snapshot: the property theorems (statements only; proofs are in
    Mvcc/Proofs*.v).  Pinned by props/C01.statements.

    Reading guide.  [final ops] is the model's state after the history [ops]; [mrun ops] its canonical
    outputs; [snapshot_ok] the specification (Mvcc/Spec.v); [c01_k c] "finding class c explains a failure
    of this history" (Mvcc/Run.v).  HEAD violates the property: the [_refuted] theorems give one history
    per class; [snapshot_outside_K] says that the classes are all there is. *)
From GV Require Export Mvcc.Model Mvcc.Canon Mvcc.Spec Mvcc.Run.
From GV Require Export Mvcc.ProofsVis Mvcc.ProofsInv Mvcc.ProofsThm Mvcc.ProofsSpec Mvcc.ProofsExpand Mvcc.ProofsRefuted.
From Coq Require Export ZArith List Bool.
Export ListNotations.
Open Scope Z_scope.

(** *** vis_char: what each read path returns, in terms of (created_epoch, deleted_epoch, created_by) *)
Theorem vis_char_epoch : forall v e,
  v_visible_at v e = true <-> v_created v <= e /\ (forall d, v_deleted v = Some d -> e < d).
Proof. exact v_visible_at_iff. Qed.
Print Assumptions vis_char_epoch.

Theorem vis_char_version : forall v e t,
  v_visible_to v e t = true <->
  (v_by v = t /\ v_deleted v = None)
  \/ (v_by v <> t /\ v_created v <= e /\ (forall d, v_deleted v = Some d -> e < d)).
Proof. exact v_visible_to_iff. Qed.
Print Assumptions vis_char_version.

Theorem vis_char_scan : forall st m e t n,
  In n (scan st m e t) <->
  0 <= n < n_next st
  /\ (exists v, In v (n_chain st n) /\ vis_to_prop v e t)
  /\ match m with
     | SelLabel l => In n (l_index st l)
     | SelAny => exists v, In v (n_chain st n) /\ vis_at_prop v (st_epoch st)
     end.
Proof. exact scan_iff. Qed.
Print Assumptions vis_char_scan.

Theorem vis_char_expand : forall st a d ty e t r,
  In r (expand_row st a d ty e t) <->
  exists b x, r = (a, x, b)
    /\ In (b, x) (edges_from st a d)
    /\ (forall want, ty = Some want ->
          (exists v, In v (e_chain st x) /\ vis_at_prop v (st_epoch st)) /\ snd (e_rec st x) = want)
    /\ (exists v, In v (e_chain st x) /\ vis_to_prop v e t)
    /\ (exists v, In v (n_chain st b) /\ vis_to_prop v e t).
Proof. exact expand_row_iff. Qed.
Print Assumptions vis_char_expand.

Theorem vis_char_point : forall st n e t,
  ((exists x, get_node_versioned st n e t = Some x) <-> exists v, In v (n_chain st n) /\ vis_to_prop v e t)
  /\ ((exists r, get_edge_versioned st n e t = Some r) <-> exists v, In v (e_chain st n) /\ vis_to_prop v e t)
  /\ (In n (node_ids st) <-> 0 <= n < n_next st /\ exists v, In v (n_chain st n) /\ vis_at_prop v (st_epoch st)).
Proof. intros. split; [apply get_node_versioned_some|split; [apply get_edge_versioned_some|apply node_ids_iff]]. Qed.
Print Assumptions vis_char_point.

(** *** facts about every history *)
Theorem store_epoch_never_advances : forall ops, st_epoch (final ops) = 0.
Proof. exact store_epoch_never_advances_l. Qed.
Print Assumptions store_epoch_never_advances.

Theorem stamped_with_start_epoch : forall ops n v,
  In v (n_chain (final ops) n) \/ In v (e_chain (final ops) n) ->
  v_by v <> SYSTEM -> tm_start (final ops) (v_by v) = Some (v_created v).
Proof. exact stamped_with_start_epoch_l. Qed.
Print Assumptions stamped_with_start_epoch.

Theorem later_starters_invisible : forall ops s n,
  let st := final ops in
  let e := fst (ctx st s) in let t := snd (ctx st s) in
  ((forall v, In v (n_chain st n) -> later_starter st e t v) ->
   get_node_versioned st n e t = None /\ (forall m, ~ In n (scan st m e t)))
  /\ ((forall v, In v (e_chain st n) -> later_starter st e t v) ->
      get_edge_versioned st n e t = None /\ (forall a d ty b, ~ In (a, n, b) (expand_row st a d ty e t))).
Proof. intros ops s n. split; [apply later_starters_invisible_node_l|apply later_starters_invisible_edge_l]. Qed.
Print Assumptions later_starters_invisible.

Theorem own_writes_visible : forall st s,
  reach st ->
  let e := fst (ctx st s) in let t := snd (ctx st s) in
  (forall labels props st' id, step st (CreateNode s labels props) = (st', OId id) ->
     ctx st' s = ctx st s
     /\ (exists ps, get_node_versioned st' id e t = Some (dedupz labels, ps))
     /\ (forall l, In l labels -> In id (scan st' (SelLabel l) e t)))
  /\ (forall a b ty st' id, step st (CreateEdge s a b ty) = (st', OId id) ->
        ctx st' s = ctx st s /\ get_edge_versioned st' id e t = Some (a, b, ty)).
Proof.
  intros st s Hr e t. split; [intros labels props st' id H; exact (own_node_visible_l st s labels props st' id Hr H)
                             |intros a b ty st' id H; exact (own_edge_visible_l st s a b ty st' id H)].
Qed.
Print Assumptions own_writes_visible.

Theorem rdf_isolation : forall st s t tr, sess st s = Some t ->
  let st1 := fst (step st (InsertTriple s tr)) in
  let st2 := fst (step st (DeleteTriple s tr)) in
  rdf st1 = rdf st /\ rdf st2 = rdf st
  /\ (forall s' p, read st1 s' (TripleQ p) = read st s' (TripleQ p) /\ read st2 s' (TripleQ p) = read st s' (TripleQ p))
  /\ (forall t', t' <> t -> rdf_buf st1 t' = rdf_buf st t' /\ rdf_buf st2 t' = rdf_buf st t').
Proof. exact rdf_pending_invisible_l. Qed.
Print Assumptions rdf_isolation.

Theorem rdf_read_is_committed_set : forall st s p,
  read st s (TripleQ p) = OTriples (rdf_find (rdf st) p)
  /\ (sess st s = None -> read st s (TripleApi p) = OTriples (rdf_find (rdf st) p)).
Proof. exact rdf_read_committed_l. Qed.
Print Assumptions rdf_read_is_committed_set.

Theorem rdf_refines_spec : forall ops, rdf (final ops) = d_trip (s_comm (spec_final ops)).
Proof. exact rdf_refines_l. Qed.
Print Assumptions rdf_refines_spec.

(** *** two structural facts about every history that the Expand read kind rests on: the adjacency lists hold
    exactly the endpoints of the edge records in id order, and every edge of the specification's committed
    database and of every session's view is an edge record of the model *)
Theorem adjacency_lists_are_edge_records : forall ops a,
  fwd (final ops) a = flat_map (fwd_of (final ops) a) (range (e_next (final ops)))
  /\ bwd (final ops) a = flat_map (bwd_of (final ops) a) (range (e_next (final ops))).
Proof. intros ops a. split; [apply (a_fwd _ (adj_final ops))|apply (a_bwd _ (adj_final ops))]. Qed.
Print Assumptions adjacency_lists_are_edge_records.

Theorem spec_edges_are_edge_records : forall ops s x r,
  d_edge (view_of (spec_final ops) s) x = Some r -> 0 <= x < e_next (final ops) /\ r = e_rec (final ops) x.
Proof. intros ops s. exact (eok_view _ _ s (epaired_final ops)). Qed.
Print Assumptions spec_edges_are_edge_records.

(** *** the finding classes cover every deviation: a read (of any kind, at any point of any history) whose
    class is 0 returns the specification's answer; a history in which no class 1..6 fires satisfies the
    specification *)
Theorem read_deviation_classified : forall ops s k,
  classify_read (final ops) (spec_final ops) s k = 0 ->
  out_eqb (spec_expected (spec_final ops) s k) (canon (read (final ops) s k)) = true.
Proof. exact read_deviation_classified_l. Qed.
Print Assumptions read_deviation_classified.

Theorem snapshot_outside_K : forall ops,
  (forall c, 1 <= c <= 6 -> c01_k c ops (mrun ops) = false) -> snapshot_ok ops (mrun ops) = true.
Proof. exact snapshot_outside_K_l. Qed.
Print Assumptions snapshot_outside_K.

(** *** HEAD violates the property: one witness per class (replayed on the implementation by every run) *)
Theorem k1_refuted : exists ops, c01_k 1 ops (mrun ops) = true /\ snapshot_ok ops (mrun ops) = false.
Proof. exists w_k1_dirty. exact (proj1 k1_refuted_l). Qed.
Print Assumptions k1_refuted.
Theorem k2_refuted : exists ops, c01_k 2 ops (mrun ops) = true /\ snapshot_ok ops (mrun ops) = false.
Proof. exists w_k2. exact k2_refuted_l. Qed.
Print Assumptions k2_refuted.
Theorem k3_refuted : exists ops, c01_k 3 ops (mrun ops) = true /\ snapshot_ok ops (mrun ops) = false.
Proof. exists w_k3. exact k3_refuted_l. Qed.
Print Assumptions k3_refuted.
Theorem k4_refuted : exists ops, c01_k 4 ops (mrun ops) = true /\ snapshot_ok ops (mrun ops) = false.
Proof. exists w_k4. exact k4_refuted_l. Qed.
Print Assumptions k4_refuted.
Theorem k5_refuted : exists ops, c01_k 5 ops (mrun ops) = true /\ snapshot_ok ops (mrun ops) = false.
Proof. exists w_k5. exact k5_refuted_l. Qed.
Print Assumptions k5_refuted.
Theorem k6_refuted : exists ops, c01_k 6 ops (mrun ops) = true /\ snapshot_ok ops (mrun ops) = false.
Proof. exists w_k6. exact k6_refuted_l. Qed.
Print Assumptions k6_refuted.
(** C01-K7 (GrafeoDB::execute_cypher_with_params planned with a private transaction manager) is repaired by 752d5ee:
    the witness violates the specification on the pre-repair model ([read_pre]) and satisfies it on the current one *)
Theorem k7_pre_refuted : exists ops,
  snapshot_ok ops (mrun_pre ops) = false /\ snapshot_ok ops (mrun ops) = true.
Proof. exists w_k7. split; [exact (proj1 k7_pre_refuted_l)|exact (proj1 (proj2 k7_pre_refuted_l))]. Qed.
Print Assumptions k7_pre_refuted.
(** since the repair the call answers exactly like the label scan of a session that has no open transaction *)
Theorem cypher_params_is_label_scan : forall st s l, sess st s = None ->
  read st s (FreshLabelScan l) = read st s (LabelScan l).
Proof. intros st s l H. unfold read, ctx. rewrite H. reflexivity. Qed.
Print Assumptions cypher_params_is_label_scan.

(** *** non-vacuity *)
(** histories outside every class exist, with reads strictly inside another session's open transaction,
    a writer that creates nodes and commits / buffers triples and rolls back or commits *)
Example nv_outside_K :
  (forall c, 1 <= c <= 6 -> c01_k c w_clean_later_starter (mrun w_clean_later_starter) = false)
  /\ snapshot_ok w_clean_later_starter (mrun w_clean_later_starter) = true
  /\ (forall c, 1 <= c <= 6 -> c01_k c w_clean_rdf (mrun w_clean_rdf) = false)
  /\ (forall c, 1 <= c <= 6 -> c01_k c w_clean_expand (mrun w_clean_expand) = false).
Proof.
  destruct clean_examples_l as [H1 [H2 [H3 H4]]]. destruct clean_expand_l as [H5 _].
  split; [intros c _; unfold c01_k; rewrite H1; reflexivity|].
  split; [exact H2|]. split; intros c _; unfold c01_k; [rewrite H3|rewrite H5]; reflexivity.
Qed.
(** the clean expand history really expands: the writer sees its own edge (a self-loop twice under an undirected
    pattern), the reader's typed undirected expand returns the committed self-loop *)
Example nv_expand :
  nth 9 (mrun w_clean_expand) OErr = ORows [(0, 0, 1); (0, 2, 1); (1, 0, 0); (1, 1, 1); (1, 1, 1); (1, 2, 0)]
  /\ nth 12 (mrun w_clean_expand) OErr = ORows [(1, 1, 1); (1, 1, 1)].
Proof. exact (proj2 (proj2 clean_expand_l)). Qed.
(** expand deviations land in the classes: edge of an open transaction (1), in-place delete (3), store epoch (4) *)
Example nv_expand_classes :
  c01_fails w_expand_k1 (mrun w_expand_k1) = [(4, 1)] /\ c01_fails w_expand_k3 (mrun w_expand_k3) = [(5, 3)]
  /\ c01_fails w_expand_k4 (mrun w_expand_k4) = [(5, 4)].
Proof. exact expand_classes_l. Qed.
(** GrafeoDB::delete_node detaches the node first (109e5bf): refuted for the pre-repair transcription, holds now *)
Example nv_db_delete_node :
  snapshot_ok w_db_delete (mrun_pre w_db_delete) = false /\ snapshot_ok w_db_delete (mrun w_db_delete) = true.
Proof. split; [exact (proj1 db_delete_pre_refuted_l)|exact (proj1 (proj2 db_delete_pre_refuted_l))]. Qed.
(** a later starter: the reader's snapshot (epoch 0) precedes the writer's begin (epoch 1) *)
Example nv_later_starter :
  let st := final [CreateNode 9 [0] []; Begin 1; Begin 2; Commit 2; Begin 0; CreateNode 0 [0] []] in
  ctx st 1 = (0, 2) /\ forall v, In v (n_chain st 1) -> later_starter st 0 2 v.
Proof.
  vm_compute. split; [reflexivity|]. intros v [<-|[]]. split; [discriminate|]. split; [discriminate|].
  exists 1. split; reflexivity.
Qed.
(** [paired] holds along every history (so [read_deviation_classified] applies to every read of every history) *)
Example nv_paired : forall ops, paired (final ops) (spec_final ops).
Proof. intros. apply (paired_run ops init sinit inv_init paired_init). Qed.
