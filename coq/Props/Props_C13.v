(** C13 — SPARQL answers equal evaluation over the stored triple set: the property theorems
    (statements only; proofs are in Rdf/ProofsStore.v, ProofsAlgebra.v, ProofsEngine.v, ProofsBgp.v, ProofsBgpSpec.v).
    Pinned by props/C13.statements. *)
From GV Require Export Rdf.Spec Rdf.Run Rdf.SpecSparql.
From GV Require Import Rdf.ProofsStore Rdf.ProofsAlgebra Rdf.ProofsEngine Rdf.ProofsBgp Rdf.ProofsBgpSpec.
Open Scope Z_scope.

(** * the triple store (model of graph/rdf/store.rs) *)

Theorem idx_inv : forall c ops x,
  let s := reach c ops in
  NoDup (triples s) /\
  entry_ok t_s (triples s) (sidx s) x /\ entry_ok t_p (triples s) (pidx s) x /\
  (if c then exists m, oidx s = Some m /\ entry_ok t_o (triples s) m x else oidx s = None).
Proof. exact idx_inv_l. Qed.
Print Assumptions idx_inv.

Theorem find_spec : forall c ops p,
  NoDup (find (reach c ops) p) /\
  Permutation (find (reach c ops) p) (filter (matches p) (triples (reach c ops))).
Proof. intros c ops p. apply find_spec_inv. apply inv_reach. Qed.
Print Assumptions find_spec.

Theorem with_spec : forall c ops x,
  let s := reach c ops in
  (NoDup (with_subject s x) /\ Permutation (with_subject s x) (filter (fun t => term_eqb (t_s t) x) (triples s))) /\
  (NoDup (with_predicate s x) /\ Permutation (with_predicate s x) (filter (fun t => term_eqb (t_p t) x) (triples s))) /\
  (NoDup (with_object s x) /\ Permutation (with_object s x) (filter (fun t => term_eqb (t_o t) x) (triples s))).
Proof. intros c ops x. apply with_spec_inv. apply inv_reach. Qed.
Print Assumptions with_spec.

Theorem set_semantics : forall c ops t,
  let s := reach c ops in
  (snd (insert s t) = negb (memb t (triples s)) /\
   (memb t (triples s) = true -> fst (insert s t) = s) /\
   (forall u, In u (triples (fst (insert s t))) <-> u = t \/ In u (triples s))) /\
  (snd (remove s t) = memb t (triples s) /\
   (memb t (triples s) = false -> fst (remove s t) = s) /\
   (forall u, In u (triples (fst (remove s t))) <-> u <> t /\ In u (triples s))) /\
  clear s = Store c [] [] [] (if c then Some [] else None) (txbuf s).
Proof. exact set_semantics_l. Qed.
Print Assumptions set_semantics.

Theorem stats_spec : forall c ops,
  let s := reach c ops in
  len s = Z.of_nat (length (triples s)) /\ is_empty s = is_nil (triples s) /\
  (forall t, contains s t = true <-> In t (triples s)) /\
  get_stats s = Stats (Z.of_nat (length (triples s)))
                      (distinct_count (map t_s (triples s)))
                      (distinct_count (map t_p (triples s)))
                      (if c then distinct_count (map t_o (triples s)) else 0).
Proof. exact stats_spec_l. Qed.
Print Assumptions stats_spec.

Theorem keys_spec : forall c ops,
  let s := reach c ops in
  (NoDup (subjects s) /\ forall x, In x (subjects s) <-> In x (map t_s (triples s))) /\
  (NoDup (predicates s) /\ forall x, In x (predicates s) <-> In x (map t_p (triples s))) /\
  (NoDup (objects s) /\ forall x, In x (objects s) <-> In x (map t_o (triples s))).
Proof. exact keys_spec_l. Qed.
Print Assumptions keys_spec.

Theorem commit_is_replay : forall s tx,
  fst (commit_tx s tx) =
  run (set_txbuf s (buf_del tx (txbuf s)))
      (map op_of_pending (match buf_get tx (txbuf s) with Some l => l | None => [] end)) /\
  snd (commit_tx s tx) = Z.of_nat (length (match buf_get tx (txbuf s) with Some l => l | None => [] end)).
Proof. exact commit_is_replay_l. Qed.
Print Assumptions commit_is_replay.

Theorem content_unchanged : forall s o,
  match o with Insert _ | Remove _ | Clear | CommitTx _ => True
  | _ => let s' := fst (step s o) in
         triples s' = triples s /\ sidx s' = sidx s /\ pidx s' = pidx s /\ oidx s' = oidx s /\ cfg_obj s' = cfg_obj s
  end.
Proof. intros s o. destruct o; try exact I; apply content_unchanged_l; reflexivity. Qed.
Print Assumptions content_unchanged.

Example store_nonvacuous :
  triples (reach true [Insert (Triple (Iri [97]) (Iri [112]) (Iri [98])); Insert (Triple (Iri [97]) (Iri [112]) (Iri [98]));
                       Insert (Triple (Iri [98]) (Iri [112]) (Iri [98])); Remove (Triple (Iri [97]) (Iri [112]) (Iri [98]))])
  = [Triple (Iri [98]) (Iri [112]) (Iri [98])].
Proof. reflexivity. Qed.

(** * the algebra (Rdf/Algebra.v = SPARQL 1.1 section 18 restricted to the core) *)

Definition all_width (n : nat) (o : list sol) : Prop := Forall (fun m => length m = n) o.

Theorem join_comm : forall n o1 o2, all_width n o1 -> all_width n o2 ->
  Permutation (join o1 o2) (join o2 o1).
Proof. exact join_comm_l. Qed.
Print Assumptions join_comm.

Theorem join_assoc : forall n o1 o2 o3, all_width n o1 -> all_width n o2 -> all_width n o3 ->
  join (join o1 o2) o3 = join o1 (join o2 o3).
Proof. exact join_assoc_l. Qed.
Print Assumptions join_assoc.

Theorem bgp_as_joins : forall n g tps tps', Permutation tps tps' ->
  all_width n (eval_bgp n g tps) /\ Permutation (eval_bgp n g tps) (eval_bgp n g tps').
Proof. intros n g tps tps' H. split; [apply eval_bgp_wf|apply bgp_order_irrelevant_l; exact H]. Qed.
Print Assumptions bgp_as_joins.

Theorem bgp_split : forall n g tps1 tps2,
  eval_bgp n g (tps1 ++ tps2) = join (eval_bgp n g tps1) (eval_bgp n g tps2).
Proof. exact bgp_split_l. Qed.
Print Assumptions bgp_split.

(** [eval_bgp] computes exactly the solutions of the declarative definition (section 18.3):
    mappings whose domain is the set of variables of the pattern and which instantiate every
    triple pattern to a triple of the graph *)
Theorem bgp_spec : forall n g tps m,
  (forall v, In v (flat_map tpat_vars tps) -> (v < n)%nat) ->
  (In m (eval_bgp n g tps) <-> bgp_solution n g tps m).
Proof. exact bgp_spec_l. Qed.
Print Assumptions bgp_spec.

(** over a set of triples every solution occurs exactly once *)
Theorem bgp_once : forall n g tps,
  (forall v, In v (flat_map tpat_vars tps) -> (v < n)%nat) -> NoDup g -> NoDup (eval_bgp n g tps).
Proof. exact bgp_once_l. Qed.
Print Assumptions bgp_once.

Theorem optional_spec : forall c o1 o2,
  Permutation (left_join c o1 o2)
              (filter (holds_opt c) (join o1 o2) ++
               filter (fun m1 => forallb (fun m2 => negb (compat m1 m2 && holds_opt c (merge m1 m2))) o2) o1).
Proof. exact left_join_spec_l. Qed.
Print Assumptions optional_spec.

Theorem filter_push_rdf : forall n c o1 o2, all_width n o1 -> all_width n o2 ->
  (forall m1 v, In m1 o1 -> In v (expr_vars c) -> nth v m1 None <> None) ->
  filter (holds c) (join o1 o2) = join (filter (holds c) o1) o2.
Proof. exact filter_push_l. Qed.
Print Assumptions filter_push_rdf.

Theorem distinct_spec : forall rows : list (list (option term)),
  NoDup (distinct_by (list_eqb (option_eqb term_eqb)) rows) /\
  forall r, In r (distinct_by (list_eqb (option_eqb term_eqb)) rows) <-> In r rows.
Proof. intro rows. apply distinct_by_spec. exact sol_eqb_eq. Qed.
Print Assumptions distinct_spec.

Theorem slice_spec : forall (off lim : option nat) (l : list sol),
  slice off lim l = match lim with Some k => firstn k | None => fun x => x end
                      (match off with Some k => skipn k l | None => l end) /\
  length (slice off lim l) =
  (let rest := (length l - match off with Some k => k | None => O end)%nat in
   match lim with Some k => Nat.min k rest | None => rest end).
Proof. intros off lim l. split; [apply ProofsAlgebra.slice_spec|apply slice_length]. Qed.
Print Assumptions slice_spec.

Theorem update_algebra : forall g ts, NoDup g ->
  (NoDup (eval_update g (InsertData ts)) /\ forall t, In t (eval_update g (InsertData ts)) <-> In t g \/ In t ts) /\
  (NoDup (eval_update g (DeleteData ts)) /\ forall t, In t (eval_update g (DeleteData ts)) <-> In t g /\ ~ In t ts).
Proof.
  intros g ts H. cbn [eval_update]. split; split;
    [apply insert_data_NoDup; exact H|apply insert_data_In|apply delete_data_NoDup; exact H|apply delete_data_In].
Qed.
Print Assumptions update_algebra.

Example join_nonvacuous :
  join [[Some (Iri [97]); None]] [[None; Some (Iri [98])]; [Some (Iri [99]); None]] = [[Some (Iri [97]); Some (Iri [98])]].
Proof. reflexivity. Qed.

(** * the engine (model of sparql_translator.rs + planner_rdf.rs + operators) against the algebra *)

Theorem filter_tbl_spec : forall e t,
  all_live (t_chunks (filter_tbl e t)) = filter (ipred (t_cols t) e) (all_live (t_chunks t)).
Proof. exact filter_tbl_spec_l. Qed.
Print Assumptions filter_tbl_spec.

Theorem refilter_pre_refuted : exists e1 e2 t,
  all_live (t_chunks (Tbl (t_cols t) (flat_map (filter_chunk_pre (t_cols t) e2)
              (flat_map (filter_chunk_pre (t_cols t) e1) (t_chunks t)))))
  <> filter (ipred (t_cols t) e2) (filter (ipred (t_cols t) e1) (all_live (t_chunks t))).
Proof. exact refilter_pre_refuted_l. Qed.
Print Assumptions refilter_pre_refuted.

Theorem update_spec : forall st u,
  (let ts := match u with InsertData ts | DeleteData ts => ts end in
   negb (is_nil ts) && forallb (fun t => negb (has_blank t) && triple_eqb (conv_triple t) t) ts = true) ->
  exists st', run_update st u = Done st' /\ triples st' = eval_update (triples st) u.
Proof.
  intros st u H. destruct (update_spec_l st u H) as [st' [H1 [H2 _]]]. exists st'. split; assumption.
Qed.
Print Assumptions update_spec.

Theorem update_refuted : exists ds u st',
  run_update (store_of ds) u = Done st' /\
  ~ Permutation (triples st') (eval_update (triples (store_of ds)) u).
Proof. exact update_refuted_l. Qed.
Print Assumptions update_refuted.

(** the open classes S2, S3, S4, S5, S6, S8 are real *)
Theorem select_refuted : forall c, In c [2; 3; 4; 5; 6; 8] ->
  exists n ds q, k_class_g n ds q = c /\ select_agrees n ds q = false.
Proof. exact select_refuted_l. Qed.
Print Assumptions select_refuted.

(** repaired: DISTINCT (S1, c4f453a) and the nulls of OPTIONAL (S7, dfd360c) *)
Theorem distinct_tbl_spec : forall t t', distinct_tbl t = Done t' ->
  t_cols t' = t_cols t /\ NoDup (all_live (t_chunks t')) /\
  (forall r, In r (all_live (t_chunks t')) <-> In r (all_live (t_chunks t))).
Proof. exact distinct_tbl_spec_l. Qed.
Print Assumptions distinct_tbl_spec.

Theorem distinct_pre_refuted : exists n ds q,
  q_distinct q = true /\ select_agrees_pre n ds q = false /\ select_agrees n ds q = true.
Proof. exact distinct_pre_refuted_l. Qed.
Print Assumptions distinct_pre_refuted.

Theorem build_spec : forall rs, all_live (build rs) = rs.
Proof. exact build_spec_l. Qed.
Print Assumptions build_spec.

Theorem build_pre_refuted : exists rs, all_live (build_pre rs) <> rs.
Proof. exact build_pre_refuted_l. Qed.
Print Assumptions build_pre_refuted.

Example optional_null_witness_now_agrees :
  select_agrees 3 [Triple (Iri [97]) (Iri [112]) (Iri [98]); Triple (Iri [98]) (Iri [112]) (Iri [99]);
                   Triple (Iri [99]) (Iri [112]) (Iri [97]); Triple (Iri [98]) (Iri [110]) (lit_int [53])]
    (Query false ProjStar (POpt (PBgp [TPat (TVar 0) (TConst (Iri [112])) (TVar 1)]) (PBgp [TPat (TVar 0) (TConst (Iri [110])) (TVar 2)]) None) [] None None)
  = true.
Proof. exact optional_null_witness_l. Qed.

(** the engine evaluates a basic graph pattern to exactly the solutions of the algebra, after any
    history of the store, outside the classes S2 (a variable twice in a triple pattern), S3 (two
    stored terms with one rendering) and S4 (a constant the translator alters) *)
Theorem bgp_engine_spec : forall c ops n tps,
  let st := reach c ops in
  bgp_plain n tps -> render_injective_on (graph_terms (triples st)) ->
  exists T, plan_pat st (PBgp tps) = Done T /\ pat_cols (PBgp tps) = Some (t_cols T) /\
            Permutation (all_live (t_chunks T)) (map (sol_row (t_cols T)) (eval_bgp n (triples st) tps)).
Proof. exact bgp_engine_spec_l. Qed.
Print Assumptions bgp_engine_spec.

Theorem select_bgp_spec : forall c ops n tps,
  let st := reach c ops in
  bgp_plain n tps -> render_injective_on (graph_terms (triples st)) ->
  exists cols rows,
    run_select st (Query false ProjStar (PBgp tps) [] None None) = Done (cols, rows) /\
    pat_cols (PBgp tps) = Some cols /\
    Permutation rows
      (map (map render_rcell) (snd (eval_query n (triples st) (Query false (ProjVars cols) (PBgp tps) [] None None)))).
Proof. exact select_bgp_spec_l. Qed.
Print Assumptions select_bgp_spec.

Theorem select_vars_bgp_spec : forall c ops n tps vs cols,
  let st := reach c ops in
  bgp_plain n tps -> render_injective_on (graph_terms (triples st)) ->
  pat_cols (PBgp tps) = Some cols -> vs <> [] -> (forall v, In v vs -> In v cols) ->
  exists rows,
    run_select st (Query false (ProjVars vs) (PBgp tps) [] None None) = Done (vs, rows) /\
    Permutation rows
      (map (map render_rcell) (snd (eval_query n (triples st) (Query false (ProjVars vs) (PBgp tps) [] None None)))).
Proof. exact select_vars_bgp_spec_l. Qed.
Print Assumptions select_vars_bgp_spec.

Theorem count_bgp_spec : forall c ops n tps,
  let st := reach c ops in
  bgp_plain n tps -> render_injective_on (graph_terms (triples st)) ->
  run_select st (Query false ProjCount (PBgp tps) [] None None)
  = Done ([count_col], map (map render_rcell) (snd (eval_query n (triples st) (Query false ProjCount (PBgp tps) [] None None)))).
Proof. exact count_bgp_spec_l. Qed.
Print Assumptions count_bgp_spec.

Example bgp_hypotheses_nonvacuous :
  bgp_plain 3 [TPat (TVar 0) (TConst (Iri [112])) (TVar 1); TPat (TVar 1) (TConst (Iri [112])) (TVar 2)] /\
  render_injective_on (graph_terms (triples (reach true [Insert (Triple (Iri [97]) (Iri [112]) (Iri [98]));
                                                         Insert (Triple (Iri [98]) (Iri [112]) (lit_plain [120]))]))).
Proof.
  split.
  - split; [discriminate|]. intros tp [<-|[<-|[]]]; (split; [repeat constructor; cbn; intuition discriminate|]);
      (split; [intros c0 [<-|[]]; reflexivity|intros v [<-|[<-|[]]]; auto]).
  - intros x y Hx Hy. vm_compute in Hx, Hy. intuition subst; try reflexivity; discriminate.
Qed.
