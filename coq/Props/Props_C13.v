(** C13 — SPARQL answers equal evaluation over the stored triple set: the property theorems
    (statements only; proofs are in Rdf/ProofsStore.v, ProofsAlgebra.v, ProofsEngine.v).
    Pinned by props/C13.statements. *)
From GV Require Export Rdf.Spec Rdf.Engine.
From GV Require Import Rdf.ProofsStore.
Open Scope Z_scope.

(** * the triple store *)

Theorem idx_inv : forall c ops x,
  let s := reach c ops in
  NoDup (triples s) /\
  entry_ok t_s (triples s) (sidx s) x /\ entry_ok t_p (triples s) (pidx s) x /\
  (if c then exists m, oidx s = Some m /\ entry_ok t_o (triples s) m x else oidx s = None).
Proof. exact idx_inv_l. Qed.
Print Assumptions idx_inv.

Theorem find_spec : forall c ops p,
  NoDup (find (reach c ops) p) /\
  Permutation (find (reach c ops) p) (filter (matches p) (triples (reach c ops))).
Proof. intros c ops p. apply find_spec_inv. apply inv_reach. Qed.
Print Assumptions find_spec.

Theorem with_spec : forall c ops x,
  let s := reach c ops in
  (NoDup (with_subject s x) /\ Permutation (with_subject s x) (filter (fun t => term_eqb (t_s t) x) (triples s))) /\
  (NoDup (with_predicate s x) /\ Permutation (with_predicate s x) (filter (fun t => term_eqb (t_p t) x) (triples s))) /\
  (NoDup (with_object s x) /\ Permutation (with_object s x) (filter (fun t => term_eqb (t_o t) x) (triples s))).
Proof. intros c ops x. apply with_spec_inv. apply inv_reach. Qed.
Print Assumptions with_spec.
