(** C18 — vector search returns real, correctly scored, correctly ordered neighbours: the property
    theorems (statements only; proofs are in Vec/Proofs*.v).  Pinned by props/C18.statements.

    [X : ext V D] bundles everything external to the index logic: the metric, the distance of a
    missing node, the OrderedFloat order, the IEEE [<] of the pruning tests, multiplication by
    alpha and the two binary heaps.  [ext_ok X] asks only that the order is a total preorder and
    that the heaps keep their contents — nothing about [<], alpha or which of two equal
    distances a heap pops first. *)
From GV Require Export Vec.Hnsw Vec.Brute Vec.Kernel Vec.Quant Vec.Quant2 Vec.Inst Vec.Wrap Vec.SmallSort.
From GV Require Import Vec.Proofs Vec.ProofsKernel Vec.ProofsQuant Vec.ProofsWrap Vec.ProofsJoin Vec.ProofsJoin2 Vec.ProofsHeap Vec.ProofsQuant2.
From Coq Require Import ZArith List Bool Permutation Sorted QArith.
Import ListNotations.
Open Scope Z_scope.

Theorem search_sound : forall V D (X : ext V D) (s : state V) q k ef, ext_ok X ->
  let r := xsearch X s q k ef in
  zlen r <= Z.max 0 k /\
  NoDup (map fst r) /\
  (forall i d, In (i, d) r -> d = xdist X (nodes s) q i /\ (entry s = Some i \/ mentioned (nodes s) i)) /\
  StronglySorted (fun a b => x_leb X (snd a) (snd b) = true) r.
Proof. exact search_sound_l. Qed.
Print Assumptions search_sound.

Theorem search_live : forall V D (X : ext V D) (s : state V) q k ef, ext_ok X -> links_closed s ->
  forall i d, In (i, d) (xsearch X s q k ef) -> exists n, lookup (nodes s) i = Some n /\ d = x_dist X q (fst n).
Proof. exact search_live_l. Qed.
Print Assumptions search_live.

Theorem history_closed : forall V D (X : ext V D) c ops, links_closed (xrun X c ops).
Proof. exact history_closed_l. Qed.
Print Assumptions history_closed.

Theorem history_search_sound : forall V D (X : ext V D) c ops q k ef, ext_ok X ->
  let s := xrun X c ops in
  let r := xsearch X s q k ef in
  zlen r <= Z.max 0 k /\ NoDup (map fst r) /\
  StronglySorted (fun a b => x_leb X (snd a) (snd b) = true) r /\
  forall i d, In (i, d) r -> exists n, lookup (nodes s) i = Some n /\ d = x_dist X q (fst n).
Proof. exact history_search_sound_l. Qed.
Print Assumptions history_search_sound.

Theorem remove_purges : forall V (s s' : state V) id pick, hnsw_remove s id pick = (s', true) ->
  has (nodes s') id = false /\ ~ mentioned (nodes s') id /\ entry s' <> Some id.
Proof. exact remove_purges_l. Qed.
Print Assumptions remove_purges.

Theorem removed_never_returned : forall V D (X : ext V D) (s s' : state V) id pick q k ef, ext_ok X ->
  hnsw_remove s id pick = (s', true) -> ~ In id (map fst (xsearch X s' q k ef)).
Proof. exact removed_never_returned_l. Qed.
Print Assumptions removed_never_returned.

Theorem batch_is_map : forall V D (X : ext V D) s qs k ef,
  xbatch X s qs k ef = map (fun q => xsearch X s q k ef) qs.
Proof. exact batch_is_map_l. Qed.
Print Assumptions batch_is_map.

Theorem brute_exact : forall V D (dist : V -> V -> D) leb (xs : list (Z * V)) q k, order_ok leb ->
  let sc := scored dist xs q in
  let r := brute_force_knn dist leb xs q k in
  zlen r = Z.min (Z.max 0 k) (zlen xs) /\
  StronglySorted (fun a b => leb (snd a) (snd b) = true) r /\
  (exists rest, Permutation (r ++ rest) sc /\ forall a b, In a r -> In b rest -> leb (snd a) (snd b) = true) /\
  (forall P : Z * D -> bool,
     (forall a b, P a = true -> P b = true -> leb (snd a) (snd b) = true) ->
     exists rest', filter P sc = filter P r ++ rest').
Proof. exact brute_exact_l. Qed.
Print Assumptions brute_exact.

Theorem kernel_lanes : forall (R : Type) (zero : R) (add : R -> R -> R) (A : Type) (term : A -> A -> R),
  (forall a b c, add a (add b c) = add (add a b) c) -> (forall a b, add a b = add b a) -> (forall a, add zero a = a) ->
  forall W a b, lanes zero add term W a b = plain zero add term a b.
Proof. exact kernel_lanes_l. Qed.
Print Assumptions kernel_lanes.

(** completeness relative to layer-0 reachability from the node the layer-0 search starts at — the
    property promises k results "whenever the index holds at least k REACHABLE vectors".
    Reachability of every live node after arbitrary histories is NOT a theorem (remove() purges
    links without repairing the graph): [search_complete_refuted] — an observation reported by
    every run, not a failure of the property as stated. *)
Theorem search_complete : forall V D (X : ext V D) (s : state V) q k ef a U, ext_ok X ->
  xstart X s q = Some a -> nodes s <> [] ->
  NoDup U -> (forall x, In x U -> reach0 (nodes s) a x) ->
  Z.min (Z.max 0 k) (zlen U) <= zlen (xsearch X s q k ef).
Proof. exact search_complete_l'. Qed.
Print Assumptions search_complete.

Theorem search_complete_all : forall V D (X : ext V D) (s : state V) q k ef a, ext_ok X ->
  xstart X s q = Some a -> NoDup (keys (nodes s)) ->
  (forall x, In x (keys (nodes s)) -> reach0 (nodes s) a x) ->
  Z.min (Z.max 0 k) (zlen (nodes s)) <= zlen (xsearch X s q k ef).
Proof. exact search_complete_all_l. Qed.
Print Assumptions search_complete_all.

Theorem search_complete_refuted : exists (ops : list (op zvec)) q k ef,
  let s := xrun (zext Euclidean) (mk_config 16 32 128) ops in
  NoDup (keys (nodes s)) /\ 0 <= k <= zlen (nodes s) /\ k <= ef /\
  zlen (xsearch (zext Euclidean) s q k ef) < k.
Proof. exact search_complete_refuted_l. Qed.
Print Assumptions search_complete_refuted.

Theorem cosine_prenorm : forall na nb a b, ~ na == 0 -> ~ nb == 0 ->
  (1 - dotq (scaleq na a) (scaleq nb b) == 1 - dotq a b / (na * nb))%Q.
Proof. exact cosine_prenorm_l. Qed.
Print Assumptions cosine_prenorm.

Theorem scalar_quant_error : forall mn range v, 0 < range -> mn <= v <= mn + range ->
  let c := sq_code mn range v in
  0 <= c <= 255 /\ 0 <= 255 * (v - mn) - sq_deq255 range c < range.
Proof. exact scalar_quant_error_l. Qed.
Print Assumptions scalar_quant_error.

Theorem scalar_quant_clamp : forall mn range v, 0 < range ->
  (v <= mn -> sq_code mn range v = 0) /\ (mn + range <= v -> sq_code mn range v = 255).
Proof. exact scalar_quant_clamp_l. Qed.
Print Assumptions scalar_quant_clamp.


(** the instance that RUNS in the check (std's BinaryHeap transcribed from the Rust source, exact
    integer distances) satisfies [ext_ok]: the theorems above apply to it without premise *)
Theorem std_heap_keeps_contents : forall (E : Type) (ole : E -> E -> bool), heap_ok (bpush ole) (bpop ole).
Proof. exact std_heap_ok. Qed.
Print Assumptions std_heap_keeps_contents.

Theorem zext_ok : forall mt, ext_ok (zext mt).
Proof. exact zext_ok_l. Qed.
Print Assumptions zext_ok.

(** the SIMD-lane evaluation (8, 4 or any number of lanes + scalar remainder) of every metric *)
Theorem zdist_lanes : forall W mt a b, zdist_l W mt a b = zdist mt a b.
Proof. exact zdist_lanes_l. Qed.
Print Assumptions zdist_lanes.

Theorem cos_parts_lanes : forall W a b, cos_parts_l W a b = cos_parts a b.
Proof. exact cos_parts_lanes_l. Qed.
Print Assumptions cos_parts_lanes.

(** ---- exact search with the comparator of mod.rs ----
    distances-or-NaN ([None]); at most 20 vectors (std's insertion sort, transcribed).  Since c04d862
    the comparator is [cmp_distance] (NaN last, a total order: [lt_of]): the k smallest, sorted, ties in
    input order, for EVERY input.  Before it was partial_cmp(..).unwrap_or(Equal) ([lt_pc]), which fails
    as soon as a distance is NaN (finding C18-K2, repaired) and agrees with the repaired code otherwise. *)
Theorem brute_small_exact : forall (xs : list (Z * option Z)) k,
  let r := brute_small lt_of xs k in
  zlen r = Z.min (Z.max 0 k) (zlen xs) /\
  StronglySorted (fun a b => leb_of (snd a) (snd b) = true) r /\
  (exists rest, Permutation (r ++ rest) xs /\ forall a b, In a r -> In b rest -> leb_of (snd a) (snd b) = true) /\
  (forall P : Z * option Z -> bool,
     (forall a b, P a = true -> P b = true -> leb_of (snd a) (snd b) = true) ->
     exists rest', filter P xs = filter P r ++ rest').
Proof. exact brute_small_exact_l. Qed.
Print Assumptions brute_small_exact.

Theorem brute_nan_pre_refuted : exists (xs : list (Z * option Z)) k i d j e,
  In (i, Some d) (brute_small lt_pc xs k) /\ In (j, Some e) xs /\
  ~ In j (map fst (brute_small lt_pc xs k)) /\ e < d.
Proof. exact brute_nan_pre_refuted_l. Qed.
Print Assumptions brute_nan_pre_refuted.

Theorem brute_nan_free : forall xs k, has_nan xs = false -> brute_small lt_pc xs k = brute_small lt_of xs k.
Proof. exact brute_nan_free_l. Qed.
Print Assumptions brute_nan_free.

(** ---- QuantizedHnswIndex::search_with_ef (trained quantiser) ----
    Since dc6fd9d the candidate count is k.saturating_mul(rescore_factor): a result for every k.
    Before, k * rescore_factor panicked on overflow (finding C18-K3, repaired) and otherwise
    returned what the repaired code returns. *)
Theorem qsearch_sound : forall V D (X : ext V D) d2, ext_ok X -> forall (s : state V) q k ef mults pre,
  pre_ok pre ->
  let r := qsearch X d2 s q k ef mults true pre in
  zlen r <= Z.max 0 k /\ NoDup (map fst r) /\
  StronglySorted (fun a b => x_leb X (snd a) (snd b) = true) r /\
  forall i d, In (i, d) r -> exists n, lookup (nodes s) i = Some n /\ d = d2 q (fst n).
Proof. exact (fun V D X d2 HX => qsearch_sound_l X d2 HX). Qed.
Print Assumptions qsearch_sound.

Theorem qsearch_count : forall V D (X : ext V D) d2, ext_ok X -> forall (s : state V) q k ef mults,
  links_closed s ->
  zlen (qsearch X d2 s q k ef mults true pre_none)
  = Z.min (Z.max 0 k) (zlen (xsearch X s q (num_candidates k mults) ef)).
Proof. exact (fun V D X d2 HX => qsearch_count_l X d2 HX). Qed.
Print Assumptions qsearch_count.

Theorem num_candidates_ge : forall mults k, 0 <= k <= usize_max -> Forall (fun m => 1 <= m) mults ->
  k <= num_candidates k mults <= usize_max.
Proof. exact num_candidates_ge_l. Qed.
Print Assumptions num_candidates_ge.

Theorem qsearch_plain : forall V D (X : ext V D) d2, ext_ok X -> forall (s : state V) q k ef mults,
  qsearch X d2 s q k ef mults false pre_none = xsearch X s q k ef.
Proof. exact (fun V D X d2 HX => qsearch_plain_l X d2 HX). Qed.
Print Assumptions qsearch_plain.

Theorem pre_stages_ok : forall D (leb : D -> D -> bool) key k,
  pre_ok (D := D) pre_none /\ pre_ok (pre_rank leb key) /\ pre_ok (pre_rank_trunc leb key k).
Proof. intros; split; [apply pre_none_ok|split; [apply pre_rank_ok|apply pre_rank_trunc_ok]]. Qed.
Print Assumptions pre_stages_ok.

Theorem qsearch_overflow_pre_refuted : exists (k : Z) (mults : list Z), 0 <= k <= usize_max /\
  forall V D (X : ext V D) d2 s q ef pre, qsearch_pre X d2 s q k ef mults true pre = QPanic.
Proof. exact qsearch_overflow_pre_refuted_l. Qed.
Print Assumptions qsearch_overflow_pre_refuted.

Theorem qsearch_pre_panic_iff : forall V D (X : ext V D) d2 (s : state V) q k ef mults resc pre,
  qsearch_pre X d2 s q k ef mults resc pre = QPanic <-> resc = true /\ num_candidates_pre k mults = None.
Proof. exact (fun V D X d2 => qsearch_pre_panic_iff_l X d2). Qed.
Print Assumptions qsearch_pre_panic_iff.

Theorem qsearch_pre_agrees : forall V D (X : ext V D) d2 (s : state V) q k ef mults resc pre,
  qsearch_pre X d2 s q k ef mults resc pre <> QPanic ->
  qsearch_pre X d2 s q k ef mults resc pre = QOk (qsearch X d2 s q k ef mults resc pre).
Proof. exact (fun V D X d2 => qsearch_pre_agrees_l X d2). Qed.
Print Assumptions qsearch_pre_agrees.

(** ---- quantised distances stay within their error of the exact ones ----
    scalar: for stored vectors inside the trained range (everything scaled by 255, squares for roots)
      | asymmetric_distance(q, quantize(v)) - euclidean(q, v) | <= sqrt(sum_i (range_i/255)^2) *)
Theorem asymmetric_bound : forall l : list dim4,
  (forall mn range q v, In (mn, range, q, v) l -> 0 < range /\ mn <= v <= mn + range) ->
  0 <= err255 l <= range2 l /\
  (asym255 l + exact255 l - err255 l) * (asym255 l + exact255 l - err255 l) <= 4 * asym255 l * exact255 l.
Proof. exact asymmetric_bound_l. Qed.
Print Assumptions asymmetric_bound.

(** binary: the hamming distance of the packed sign bits is the number of differing signs *)
Theorem hamming_is_sign_disagreements : forall a b : list Z, length a = length b ->
  hamming_words (bq_quantize a) (bq_quantize b) = hamming_bits (sign_bits a) (sign_bits b).
Proof. exact hamming_is_sign_disagreements_l. Qed.
Print Assumptions hamming_is_sign_disagreements.

(** product: each code is a nearest centroid (the first among equals); the table (ADC) distance
    is the squared distance to the reconstruction *)
Theorem pq_code_nearest : forall (cents : list (list Z)) (sub : list Z), cents <> [] ->
  let c := argmin_first (map (fun x => eucl2 sub x) cents) in
  0 <= c < zlen cents /\
  (forall k, 0 <= k < zlen cents -> eucl2 sub (nthz cents c []) <= eucl2 sub (nthz cents k [])) /\
  (forall k, 0 <= k < c -> eucl2 sub (nthz cents c []) < eucl2 sub (nthz cents k [])).
Proof. exact pq_code_nearest_l. Qed.
Print Assumptions pq_code_nearest.

Theorem pq_adc_is_reconstruct : forall (cb : codebook) sd q codes,
  Forall2 (fun cents c => length (nthz cents c []) = sd) cb codes -> length q = (length cb * sd)%nat ->
  pq_dist_table (pq_table cb sd q) codes = eucl2 q (pq_reconstruct cb codes).
Proof. exact pq_adc_is_reconstruct_l. Qed.
Print Assumptions pq_adc_is_reconstruct.

(** ---- VectorScanOperator / VectorJoinOperator output ---- *)
Theorem scan_chunks_ok : forall (A : Type) (cap : nat) (l : list A), (1 <= cap)%nat ->
  concat (scan_chunks cap l) = l /\ Forall (fun ch => (1 <= length ch <= cap)%nat) (scan_chunks cap l).
Proof. exact scan_chunks_ok_l. Qed.
Print Assumptions scan_chunks_ok.

(** Since 5466afe the join is the row-by-row search for EVERY input: the chunks concatenate to
    [join_spec], every chunk has between 1 and chunk_capacity rows, the operator terminates. *)
Theorem join_is_row_by_row : forall (L R : Type) (cap : nat) (rows : list (L * list R)),
  (1 <= cap)%nat ->
  exists fuel chs, jrun fuel cap (jinit rows) false = (chs, true) /\ concat chs = join_spec rows /\
                   Forall (fun ch => (1 <= length ch <= cap)%nat) chs.
Proof. exact join_is_row_by_row_l2. Qed.
Print Assumptions join_is_row_by_row.

(** before 5466afe (finding C18-K4, repaired): a chunk that filled up exactly at the end of a left
    row's matches made next() search the same row again, for ever; outside that class the old
    loop was correct *)
Theorem join_pre_refuted : exists (cap : nat) (rows : list (Z * list Z)),
  (1 <= cap)%nat /\ k_join_boundary cap rows = true /\
  forall fuel, exists ch, jrun_pre fuel cap (jinit rows) = (repeat ch fuel, false).
Proof. exact join_refuted_l. Qed.
Print Assumptions join_pre_refuted.

Theorem join_pre_row_by_row : forall (L R : Type) (cap : nat) (rows : list (L * list R)),
  (1 <= cap)%nat -> k_join_boundary cap rows = false ->
  exists fuel chs, jrun_pre fuel cap (jinit rows) = (chs, true) /\ concat chs = join_spec rows /\
                   Forall (fun ch => (1 <= length ch <= cap)%nat) chs.
Proof. exact join_is_row_by_row_l. Qed.
Print Assumptions join_pre_row_by_row.

(** non-vacuity: an instance satisfying [ext_ok]; a history whose state satisfies the hypotheses *)
Example nv_ext_ok : ext_ok (zext_list Euclidean).
Proof. exact (zext_list_ok Euclidean). Qed.
Example nv_remove : exists s', hnsw_remove (xrun (zext Euclidean) (mk_config 16 32 128)
    [OpInsert 1 [0] 0; OpInsert 2 [1] 0; OpInsert 3 [2] 0]) 2 None = (s', true).
Proof. eexists. vm_compute. reflexivity. Qed.
Example nv_reach :
  let s := xrun (zext Euclidean) (mk_config 16 32 128) [OpInsert 1 [0] 0; OpInsert 2 [1] 0; OpInsert 3 [2] 1] in
  xstart (zext Euclidean) s [5] = Some 3 /\ NoDup (keys (nodes s)) /\
  (forall x, In x (keys (nodes s)) -> reach0 (nodes s) 3 x) /\
  map fst (xsearch (zext Euclidean) s [5] 2 1) = [3; 2].
Proof.
  vm_compute. split; [reflexivity|]. split; [repeat constructor; cbn [In]; intuition discriminate|].
  split; [|reflexivity].
  assert (R3 : reach0 [(1, ([0], [[2]])); (2, ([1], [[1; 3]])); (3, ([2], [[2]; []]))] 3 3) by constructor.
  assert (R2 : reach0 [(1, ([0], [[2]])); (2, ([1], [[1; 3]])); (3, ([2], [[2]; []]))] 3 2).
  { eapply reach0_step; [exact R3|]. vm_compute. left. reflexivity. }
  assert (R1 : reach0 [(1, ([0], [[2]])); (2, ([1], [[1; 3]])); (3, ([2], [[2]; []]))] 3 1).
  { eapply reach0_step; [exact R2|]. vm_compute. left. reflexivity. }
  intros x [<-|[<-|[<-|[]]]]; assumption.
Qed.
Example nv_quant : sq_code 10 (255 * 4) 523 = 128 /\ sq_deq255 (255 * 4) 128 = 255 * 512.
Proof. vm_compute. split; reflexivity. Qed.
Example nv_join : jrun 3 2 (jinit [(0, [10; 11]); (1, [20; 21])]) false = ([[(0, 10); (0, 11)]; [(1, 20); (1, 21)]], true)
  /\ k_join_boundary 2 [(0, [10; 11]); (1, [20; 21])] = true.
Proof. vm_compute. split; reflexivity. Qed.
Example nv_qsearch : exists r, qsearch (zext Euclidean) (zdist Euclidean)
    (xrun (zext Euclidean) (mk_config 16 32 128) [OpInsert 1 [0] 0; OpInsert 2 [1] 0; OpInsert 3 [2] 0]) [0] usize_max 50 [2] true pre_none = r
    /\ map fst r = [1; 2; 3].
Proof. eexists. vm_compute. split; reflexivity. Qed.
Example nv_nan_free : has_nan [(1, Some 3); (2, Some 1)] = false /\ brute_small lt_pc [(1, Some 3); (2, Some 1)] 1 = [(2, Some 1)].
Proof. vm_compute. split; reflexivity. Qed.
Example nv_asym : let l : list dim4 := [(10, 255 * 4, 500, 523)] in
  (forall mn range q v, In (mn, range, q, v) l -> 0 < range /\ mn <= v <= mn + range) /\ err255 l = 255 * 255 /\ asym255 l = 5610 * 5610 /\ exact255 l = (255 * 23) * (255 * 23).
Proof. vm_compute. split; [|split; [|split]; reflexivity]. intros mn range q v [H|[]]. inversion H; subst. split; [reflexivity|split; discriminate]. Qed.
Example nv_pq : pq_quantize [[[0; 0]; [4; 4]; [4; 4]]; [[1]; [-1]]] 2 [3; 5; -7] = [1; 1]
  /\ pq_dist_table (pq_table [[[0; 0]; [4; 4]; [4; 4]]; [[1]; [-1]]] 2 [3; 5; -7]) [1; 1] = 1 + 1 + 36.
Proof. vm_compute. split; reflexivity. Qed.
