(** C18 — vector search returns real, correctly scored, correctly ordered neighbours: the property
    theorems (statements only; proofs are in Vec/Proofs*.v).  Pinned by props/C18.statements.

    [X : ext V D] bundles everything external to the index logic: the metric, the distance of a
    missing node, the OrderedFloat order, the IEEE [<] of the pruning tests, multiplication by
    alpha and the two binary heaps.  [ext_ok X] asks only that the order is a total preorder and
    that the heaps keep their contents — nothing about [<], alpha or which of two equal
    distances a heap pops first. *)
From GV Require Export Vec.Hnsw Vec.Brute Vec.Kernel Vec.Quant Vec.Inst.
From GV Require Import Vec.Proofs Vec.ProofsKernel Vec.ProofsQuant.
From Coq Require Import ZArith List Bool Permutation Sorted QArith.
Import ListNotations.
Open Scope Z_scope.

Theorem search_sound : forall V D (X : ext V D) (s : state V) q k ef, ext_ok X ->
  let r := xsearch X s q k ef in
  zlen r <= Z.max 0 k /\
  NoDup (map fst r) /\
  (forall i d, In (i, d) r -> d = xdist X (nodes s) q i /\ (entry s = Some i \/ mentioned (nodes s) i)) /\
  StronglySorted (fun a b => x_leb X (snd a) (snd b) = true) r.
Proof. exact search_sound_l. Qed.
Print Assumptions search_sound.

Theorem search_live : forall V D (X : ext V D) (s : state V) q k ef, ext_ok X -> links_closed s ->
  forall i d, In (i, d) (xsearch X s q k ef) -> exists n, lookup (nodes s) i = Some n /\ d = x_dist X q (fst n).
Proof. exact search_live_l. Qed.
Print Assumptions search_live.

Theorem history_closed : forall V D (X : ext V D) c ops, links_closed (xrun X c ops).
Proof. exact history_closed_l. Qed.
Print Assumptions history_closed.

Theorem history_search_sound : forall V D (X : ext V D) c ops q k ef, ext_ok X ->
  let s := xrun X c ops in
  let r := xsearch X s q k ef in
  zlen r <= Z.max 0 k /\ NoDup (map fst r) /\
  StronglySorted (fun a b => x_leb X (snd a) (snd b) = true) r /\
  forall i d, In (i, d) r -> exists n, lookup (nodes s) i = Some n /\ d = x_dist X q (fst n).
Proof. exact history_search_sound_l. Qed.
Print Assumptions history_search_sound.

Theorem remove_purges : forall V (s s' : state V) id pick, hnsw_remove s id pick = (s', true) ->
  has (nodes s') id = false /\ ~ mentioned (nodes s') id /\ entry s' <> Some id.
Proof. exact remove_purges_l. Qed.
Print Assumptions remove_purges.

Theorem removed_never_returned : forall V D (X : ext V D) (s s' : state V) id pick q k ef, ext_ok X ->
  hnsw_remove s id pick = (s', true) -> ~ In id (map fst (xsearch X s' q k ef)).
Proof. exact removed_never_returned_l. Qed.
Print Assumptions removed_never_returned.

Theorem batch_is_map : forall V D (X : ext V D) s qs k ef,
  xbatch X s qs k ef = map (fun q => xsearch X s q k ef) qs.
Proof. exact batch_is_map_l. Qed.
Print Assumptions batch_is_map.

Theorem brute_exact : forall V D (dist : V -> V -> D) leb (xs : list (Z * V)) q k, order_ok leb ->
  let sc := scored dist xs q in
  let r := brute_force_knn dist leb xs q k in
  zlen r = Z.min (Z.max 0 k) (zlen xs) /\
  StronglySorted (fun a b => leb (snd a) (snd b) = true) r /\
  (exists rest, Permutation (r ++ rest) sc /\ forall a b, In a r -> In b rest -> leb (snd a) (snd b) = true) /\
  (forall P : Z * D -> bool,
     (forall a b, P a = true -> P b = true -> leb (snd a) (snd b) = true) ->
     exists rest', filter P sc = filter P r ++ rest').
Proof. exact brute_exact_l. Qed.
Print Assumptions brute_exact.

Theorem kernel_lanes : forall (R : Type) (zero : R) (add : R -> R -> R) (A : Type) (term : A -> A -> R),
  (forall a b c, add a (add b c) = add (add a b) c) -> (forall a b, add a b = add b a) -> (forall a, add zero a = a) ->
  forall W a b, lanes zero add term W a b = plain zero add term a b.
Proof. exact kernel_lanes_l. Qed.
Print Assumptions kernel_lanes.

(** completeness relative to layer-0 reachability from the node the layer-0 search starts at.
    Reachability of every live node after arbitrary histories is NOT a theorem: see
    [search_complete_refuted] (finding C18-K1). *)
Theorem search_complete : forall V D (X : ext V D) (s : state V) q k ef a U, ext_ok X ->
  xstart X s q = Some a -> nodes s <> [] ->
  NoDup U -> (forall x, In x U -> reach0 (nodes s) a x) ->
  Z.min (Z.max 0 k) (zlen U) <= zlen (xsearch X s q k ef).
Proof. exact search_complete_l'. Qed.
Print Assumptions search_complete.

Theorem search_complete_all : forall V D (X : ext V D) (s : state V) q k ef a, ext_ok X ->
  xstart X s q = Some a -> NoDup (keys (nodes s)) ->
  (forall x, In x (keys (nodes s)) -> reach0 (nodes s) a x) ->
  Z.min (Z.max 0 k) (zlen (nodes s)) <= zlen (xsearch X s q k ef).
Proof. exact search_complete_all_l. Qed.
Print Assumptions search_complete_all.

Theorem search_complete_refuted : exists (ops : list (op zvec)) q k ef,
  let s := xrun (zext Euclidean) (mk_config 16 32 128) ops in
  NoDup (keys (nodes s)) /\ 0 <= k <= zlen (nodes s) /\ k <= ef /\
  zlen (xsearch (zext Euclidean) s q k ef) < k.
Proof. exact search_complete_refuted_l. Qed.
Print Assumptions search_complete_refuted.

Theorem cosine_prenorm : forall na nb a b, ~ na == 0 -> ~ nb == 0 ->
  (1 - dotq (scaleq na a) (scaleq nb b) == 1 - dotq a b / (na * nb))%Q.
Proof. exact cosine_prenorm_l. Qed.
Print Assumptions cosine_prenorm.

Theorem scalar_quant_error : forall mn range v, 0 < range -> mn <= v <= mn + range ->
  let c := sq_code mn range v in
  0 <= c <= 255 /\ 0 <= 255 * (v - mn) - sq_deq255 range c < range.
Proof. exact scalar_quant_error_l. Qed.
Print Assumptions scalar_quant_error.

Theorem scalar_quant_clamp : forall mn range v, 0 < range ->
  (v <= mn -> sq_code mn range v = 0) /\ (mn + range <= v -> sq_code mn range v = 255).
Proof. exact scalar_quant_clamp_l. Qed.
Print Assumptions scalar_quant_clamp.

(** non-vacuity: an instance satisfying [ext_ok]; a history whose state satisfies the hypotheses *)
Example nv_ext_ok : ext_ok (zext_list Euclidean).
Proof. exact (zext_list_ok Euclidean). Qed.
Example nv_remove : exists s', hnsw_remove (xrun (zext Euclidean) (mk_config 16 32 128)
    [OpInsert 1 [0] 0; OpInsert 2 [1] 0; OpInsert 3 [2] 0]) 2 None = (s', true).
Proof. eexists. vm_compute. reflexivity. Qed.
Example nv_reach :
  let s := xrun (zext Euclidean) (mk_config 16 32 128) [OpInsert 1 [0] 0; OpInsert 2 [1] 0; OpInsert 3 [2] 1] in
  xstart (zext Euclidean) s [5] = Some 3 /\ NoDup (keys (nodes s)) /\
  (forall x, In x (keys (nodes s)) -> reach0 (nodes s) 3 x) /\
  map fst (xsearch (zext Euclidean) s [5] 2 1) = [3; 2].
Proof.
  vm_compute. split; [reflexivity|]. split; [repeat constructor; cbn [In]; intuition discriminate|].
  split; [|reflexivity].
  assert (R3 : reach0 [(1, ([0], [[2]])); (2, ([1], [[1; 3]])); (3, ([2], [[2]; []]))] 3 3) by constructor.
  assert (R2 : reach0 [(1, ([0], [[2]])); (2, ([1], [[1; 3]])); (3, ([2], [[2]; []]))] 3 2).
  { eapply reach0_step; [exact R3|]. vm_compute. left. reflexivity. }
  assert (R1 : reach0 [(1, ([0], [[2]])); (2, ([1], [[1; 3]])); (3, ([2], [[2]; []]))] 3 1).
  { eapply reach0_step; [exact R2|]. vm_compute. left. reflexivity. }
  intros x [<-|[<-|[<-|[]]]]; assumption.
Qed.
Example nv_quant : sq_code 10 (255 * 4) 523 = 128 /\ sq_deq255 (255 * 4) 128 = 255 * 512.
Proof. vm_compute. split; reflexivity. Qed.
