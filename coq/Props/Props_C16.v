(** C16 — values compare, hash, order and serialise consistently: the property theorems
    (statements only; proofs are in Value/Proofs*.v).  Pinned by props/C16.statements.

    [wf v] ([wfb v = true]) is what every Rust [Value] satisfies: UTF-8 strings, strictly
    key-sorted maps, machine ranges, lengths < 2^64.  Floats are bit patterns. *)
From GV Require Export Value.Laws Value.RowKey.
From GV Require Import Value.ProofsIeee Value.ProofsValue Value.ProofsOrd Value.ProofsLaws Value.ProofsBincode Value.ProofsSpill.
Open Scope Z_scope.

(** * HashableValue *)
Theorem heq_equiv :
  (forall a, wf a -> heq a a = true) /\
  (forall a b, wf a -> wf b -> heq a b = heq b a) /\
  (forall a b c, wf a -> wf b -> wf c -> heq a b = true -> heq b c = true -> heq a c = true).
Proof. exact heq_equiv_l. Qed.
Print Assumptions heq_equiv.

Theorem heq_distinguishes : forall a b, wf a -> wf b -> (heq a b = true <-> a = b).
Proof. intros a b Ha Hb. apply heq_spec_l; assumption. Qed.
Print Assumptions heq_distinguishes.

Theorem heq_hash : forall a b, wf a -> wf b -> heq a b = true -> hfeed a = hfeed b.
Proof. exact heq_hash_l. Qed.
Print Assumptions heq_hash.

Theorem hfeed_injective : forall a b, hfeed a = hfeed b -> a = b.
Proof. exact hfeed_injective_l. Qed.
Print Assumptions hfeed_injective.

Theorem hfeed_prefix_free : forall a b r1 r2, hfeed a ++ r1 = hfeed b ++ r2 -> a = b /\ r1 = r2.
Proof. exact hfeed_inj_app_l. Qed.
Print Assumptions hfeed_prefix_free.

Theorem index_distinct_group_sound : forall a b, wf a -> wf b -> (heq a b = true <-> hfeed a = hfeed b).
Proof. exact heq_iff_feed_l. Qed.
Print Assumptions index_distinct_group_sound.

Theorem derived_eq_not_reflexive : exists a, wf a /\ veq a a = false /\ heq a a = true.
Proof. exact veq_not_reflexive_l. Qed.
Print Assumptions derived_eq_not_reflexive.

(** * OrderableValue: refuted at HEAD, proved outside K *)
Theorem ocmp_not_transitive_refuted :
  exists x y z, owfb x = true /\ owfb y = true /\ owfb z = true /\
    oeq x y = true /\ oeq y z = true /\ oeq x z = false /\
    ocmp x y = Eq /\ ocmp y z = Eq /\ ocmp x z = Gt /\ k_trans x y z = true.
Proof. exact ocmp_not_transitive_refuted_l. Qed.
Print Assumptions ocmp_not_transitive_refuted.

Theorem oeq_hash_inconsistent_refuted :
  (exists x y, oeq x y = true /\ ofeed x <> ofeed y /\ x = OInt 1 /\ y = OFloat 4607182418800017408) /\
  (exists x y, oeq x y = true /\ ofeed x <> ofeed y /\ x = OFloat 0 /\ y = OFloat (2 ^ 63)) /\
  (exists x y, oeq x y = true /\ ofeed x <> ofeed y /\ x = OFloat 9221120237041090560 /\ y = OFloat 9221120237041090561).
Proof. exact oeq_hash_inconsistent_refuted_l. Qed.
Print Assumptions oeq_hash_inconsistent_refuted.

Theorem ocmp_total_order_outside_K :
  (forall x, ocmp x x = Eq /\ oeq x x = true) /\
  (forall x y, ocmp y x = CompOpp (ocmp x y)) /\
  (forall x y, owfb x = true -> owfb y = true -> (oeq x y = true <-> ocmp x y = Eq)) /\
  (forall x y, owfb x = true -> owfb y = true -> ocmp x y = Lt \/ oeq x y = true \/ ocmp y x = Lt) /\
  (forall x y z, owfb x = true -> owfb y = true -> owfb z = true ->
     ocmp x y = Lt -> ocmp y z = Lt -> ocmp x z = Lt) /\
  (forall x y z, owfb x = true -> owfb y = true -> owfb z = true -> k_mid x y z = false ->
     ocmp x y <> Gt -> ocmp y z <> Gt -> ocmp x z <> Gt) /\
  (forall x y z, owfb x = true -> owfb y = true -> owfb z = true -> k_mid x y z = false ->
     oeq x y = true -> oeq y z = true -> oeq x z = true) /\
  (forall x y, owfb x = true -> owfb y = true -> k_hash x y = false -> oeq x y = true -> ofeed x = ofeed y).
Proof.
  split; [intros x; split; [apply ocmp_refl_l|apply oeq_refl_l]|].
  split; [exact ocmp_antisym_l|]. split; [exact oeq_iff_cmp_l|]. split; [exact ocmp_total_l|].
  split; [exact ocmp_lt_trans_l|]. split; [exact ocmp_le_trans_sharp_l|]. split; [exact oeq_trans_sharp_l|].
  exact ohash_outside_K_l.
Qed.
Print Assumptions ocmp_total_order_outside_K.

(** the classes are exact: on well-formed orderables the law checkers that the check evaluates
    beside the implementation (all six orders of a triple; both directions of a pair) hold
    precisely outside K1 = [k_trans] (the closure of [k_mid] under reordering) and K2 = [k_hash] *)
Theorem k_trans_exact : forall x y z, owfb x = true -> owfb y = true -> owfb z = true ->
  olaw_trans_all x y z = negb (k_trans x y z).
Proof. exact k_trans_exact_l. Qed.
Print Assumptions k_trans_exact.

Theorem k_hash_exact : forall x y, owfb x = true -> owfb y = true ->
  olaw_hash x y = negb (k_hash x y && oeq x y).
Proof. exact k_hash_exact_l. Qed.
Print Assumptions k_hash_exact.

Theorem k_mixed3_covers_k_trans : forall x y z, k_mixed3 x y z = false -> k_trans x y z = false.
Proof. exact k_mixed3_trans. Qed.
Print Assumptions k_mixed3_covers_k_trans.

Theorem k_hash_tight : forall x y, k_hash x y = true -> oeq x y = true -> ofeed x <> ofeed y.
Proof. exact k_hash_tight_l. Qed.
Print Assumptions k_hash_tight.

Theorem k_trans_tight : forall i j f, collide i j f = true -> in_i64 i -> in_i64 j ->
  oeq (OInt i) (OFloat f) = true /\ oeq (OFloat f) (OInt j) = true /\ oeq (OInt i) (OInt j) = false.
Proof. exact k_trans_tight_l. Qed.
Print Assumptions k_trans_tight.

Theorem int_to_float_monotone : forall i j, in_i64 i -> in_i64 j -> i <= j ->
  f64_key (f64_of_i64 i) <= f64_key (f64_of_i64 j).
Proof. exact f64_of_i64_mono. Qed.
Print Assumptions int_to_float_monotone.

(** * bincode (WAL records, snapshots) *)
Theorem bincode_roundtrip : forall v rest, wf v -> dec_value (enc_value v ++ rest) = Some (v, rest).
Proof. exact bincode_roundtrip_l. Qed.
Print Assumptions bincode_roundtrip.

Theorem bincode_roundtrip_fuel : forall v fuel rest, wf v -> (vsize v <= fuel)%nat ->
  dec_value_fuel fuel (enc_value v ++ rest) = Some (v, rest).
Proof. exact bincode_roundtrip_fuel_l. Qed.
Print Assumptions bincode_roundtrip_fuel.

Theorem bincode_decode_from_slice : forall v, wf v -> decode_from_slice (enc_value v) = Some (v, zlen (enc_value v)).
Proof. exact decode_from_slice_roundtrip_l. Qed.
Print Assumptions bincode_decode_from_slice.

Theorem bincode_injective : forall a b r1 r2, wf a -> wf b -> enc_value a ++ r1 = enc_value b ++ r2 -> a = b /\ r1 = r2.
Proof. exact bincode_injective_l. Qed.
Print Assumptions bincode_injective.

Theorem bincode_varint_roundtrip : forall u rest, in_u64 u -> dec_varint (enc_varint u ++ rest) = Some (u, rest).
Proof. exact varint_roundtrip_l. Qed.
Print Assumptions bincode_varint_roundtrip.

Theorem bincode_i64_roundtrip : forall i rest, in_i64 i -> dec_i64 (enc_i64 i ++ rest) = Some (i, rest).
Proof. exact i64_roundtrip_l. Qed.
Print Assumptions bincode_i64_roundtrip.

Theorem bincode_str_roundtrip : forall s rest, utf8_valid s = true -> zlen s < two64 ->
  dec_str (enc_str s ++ rest) = Some (s, rest).
Proof. exact str_roundtrip_l. Qed.
Print Assumptions bincode_str_roundtrip.

(** * spill serializer *)
Theorem spill_roundtrip : forall v rest, wf v -> sp_dec (sp_enc v ++ rest) = Some (v, rest).
Proof. exact spill_roundtrip_l. Qed.
Print Assumptions spill_roundtrip.

Theorem spill_size : forall v, sp_size v = zlen (sp_enc v).
Proof. exact spill_size_l. Qed.
Print Assumptions spill_size.

Theorem spill_row_roundtrip : forall row rest e, Forall wf row -> zlen row < two64 -> (e = 0 \/ e = zlen row) ->
  sp_dec_row e (sp_enc_row row ++ rest) = Some (row, rest).
Proof. exact spill_row_roundtrip_l. Qed.
Print Assumptions spill_row_roundtrip.

Theorem spill_injective : forall a b r1 r2, wf a -> wf b -> sp_enc a ++ r1 = sp_enc b ++ r2 -> a = b /\ r1 = r2.
Proof. exact spill_injective_l. Qed.
Print Assumptions spill_injective.

(** * DISTINCT / GROUP BY row keys: lossy at HEAD, exact outside K *)
Theorem rowkey_merges_refuted :
  exists a b, wf a /\ wf b /\ a <> b /\ heq a b = false /\ k_rowkey a b = true
              /\ forall dbg, keypart_of dbg a = keypart_of dbg b.
Proof. exact rowkey_merges_refuted_l. Qed.
Print Assumptions rowkey_merges_refuted.

Theorem rowkey_injective_outside_K : forall dbg a b, wf a -> wf b ->
  k_rowkey a b = false -> keypart_of dbg a = keypart_of dbg b -> a = b.
Proof. exact rowkey_injective_outside_K_l. Qed.
Print Assumptions rowkey_injective_outside_K.

Theorem groupkey_changed_refuted : exists v, wf v /\ k_groupkey v = true /\ forall dbg, group_key_out dbg v <> v.
Proof. exact groupkey_changed_refuted_l. Qed.
Print Assumptions groupkey_changed_refuted.

Theorem groupkey_preserved_outside_K : forall dbg v, k_groupkey v = false -> group_key_out dbg v = v.
Proof. exact groupkey_preserved_outside_K_l. Qed.
Print Assumptions groupkey_preserved_outside_K.

(** * non-vacuity: the hypotheses are met by non-trivial inputs, K does not swallow everything *)
Definition nv_value : value :=
  VMap [([97], VList [VInt (- two63); VFloat 9221120237041090561; VStr [195; 169]; VNull]);
        ([97; 98], VMap [([], VVec [2143289344; 0]); ([107], VBytes [0; 255]); ([108], VTs (two63 - 1))]);
        ([98], VBool true)].
Example nv_wf : wf nv_value /\ vsize nv_value = 17%nat.
Proof. vm_compute. auto. Qed.
Example nv_roundtrips :
  dec_value (enc_value nv_value ++ [1; 2]) = Some (nv_value, [1; 2]) /\
  sp_dec (sp_enc nv_value ++ [1; 2]) = Some (nv_value, [1; 2]) /\ heq nv_value nv_value = true.
Proof. vm_compute. auto. Qed.
Example nv_outside_K :
  k_trans (OInt 9007199254740993) (OFloat 4845873199050653698) (OInt 9007199254740992) = false /\
  k_trans (OInt 3) (OFloat 4613937818241073152) (OStr [97]) = false /\
  k_hash (OFloat 4607182418800017408) (OFloat 4607182418800017408) = false /\
  k_hash (OStr [97]) (OStr [97]) = false /\
  owfb (OInt 9007199254740993) = true /\ owfb (OFloat 4845873199050653698) = true /\
  k_rowkey (VInt 1) (VFloat 4607182418800017408) = false /\ k_groupkey (VStr [97]) = false.
Proof. vm_compute. repeat split. Qed.
Example nv_mixed_comparison_outside_K :
  ocmp (OInt 9007199254740993) (OFloat 4845873199050653698) = Lt /\
  ocmp (OFloat 4845873199050653698) (OInt 9007199254740999) = Lt /\
  ocmp (OInt 9007199254740993) (OInt 9007199254740999) = Lt.
Proof. vm_compute. repeat split. Qed.
