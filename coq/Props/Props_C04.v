(** C04 — Serializable transactions admit only serializable outcomes: the property theorems
    (statements only; proofs are in Tm/SpecProofs.v, Tm/Refine.v, Tm/Proofs.v, Tm/DataProofs.v).
    Pinned by props/C04.statements.

    The data layer is abstract (Tm/Spec.v, Tm/Data.v): a committed transaction installs, at its
    commit epoch, a new version of every entity in its write set; a read returns the version
    current at the reader's start ([ver_at G e (h_start r)]) or the reader's own write. *)
From GV Require Export Tm.Model Tm.Spec Tm.Data Tm.Run.
From GV Require Import Tm.AL Tm.SpecProofs Tm.Refine Tm.Proofs Tm.DataProofs Tm.RunProofs.
Import ListNotations.
Open Scope Z_scope.

Theorem ssi_refuses_stale_reader : forall pre t r t' r' c' e,
  lookup t (hist_of pre) = Some r -> is_act r = true -> h_iso r = Serializable ->
  In e (h_rs r) -> t' <> t -> committed_at (hist_of pre) t' r' c' -> h_start r < c' -> In e (h_ws r') ->
  answer pre (Commit t) =
    if ww_conf (hist_of pre) t r then Err WriteConflict else Err SerializationFailure.
Proof. exact ssi_refuses_stale_reader_l. Qed.
Print Assumptions ssi_refuses_stale_reader.

Theorem ser_view : forall ops t r c e v,
  lookup t (hist_of ops) = Some r -> h_iso r = Serializable -> h_end r = HCommitted c ->
  In (e, Ver v) (h_reads r) ->
  v = ver_at (hist_of ops) e (h_start r) /\ v = serial_read (hist_of ops) r e.
Proof. exact ser_view_l. Qed.
Print Assumptions ser_view.

Theorem ser_deps_forward : forall ops p1 p2,
  all_serializable (hist_of ops) -> In p1 (hist_of ops) -> In p2 (hist_of ops) ->
  dep_edge p1 p2 = true -> cepoch (snd p1) < cepoch (snd p2).
Proof. exact ser_deps_forward_l. Qed.
Print Assumptions ser_deps_forward.

Theorem ser_acyclic : forall ops a l,
  all_serializable (hist_of ops) -> l <> [] -> is_path (deps (hist_of ops)) a l -> last l a <> a.
Proof. exact ser_acyclic_l. Qed.
Print Assumptions ser_acyclic.

Theorem ser_final : forall (V : Type) (init : entity -> V) (prog : Z -> entity -> (entity -> V) -> V) ops,
  all_serializable (hist_of ops) -> reads_determine_writes V prog (hist_of ops) ->
  forall n e, (n <= Z.to_nat (ncommitted (hist_of ops)))%nat ->
    mv_db V init prog (hist_of ops) n e = ser_db V init prog (hist_of ops) n e.
Proof. exact ser_final_l. Qed.
Print Assumptions ser_final.

Theorem read_only_refused_refuted :
  exists pre t r, lookup t (hist_of pre) = Some r /\ is_act r = true /\ h_ws r = [] /\
                  answer pre (Commit t) = Err SerializationFailure /\
                  k_ro_refused (hist_of pre) t r = true.
Proof. exact read_only_refused_refuted_l. Qed.
Print Assumptions read_only_refused_refuted.

Theorem read_only_refused_only_in_K : forall pre t r,
  lookup t (hist_of pre) = Some r -> is_act r = true -> h_ws r = [] ->
  if k_ro_refused (hist_of pre) t r
  then answer pre (Commit t) = Err SerializationFailure
  else answer pre (Commit t) = OkEpoch (ncommitted (hist_of pre) + 1).
Proof. exact read_only_refused_only_in_K_l. Qed.
Print Assumptions read_only_refused_only_in_K.

Theorem read_only_consistent : forall ops t r e v,
  lookup t (hist_of ops) = Some r -> h_iso r <> ReadCommitted -> h_ws r = [] ->
  In (e, v) (h_reads r) -> v = Ver (ver_at (hist_of ops) e (h_start r)).
Proof. exact read_only_consistent_l. Qed.
Print Assumptions read_only_consistent.

Theorem snapshot_reads : forall ops t r e x,
  lookup t (hist_of ops) = Some r -> h_iso r <> ReadCommitted ->
  In (e, Ver x) (h_reads r) -> x = ver_at (hist_of ops) e (h_start r).
Proof. exact snapshot_reads_l. Qed.
Print Assumptions snapshot_reads.

Theorem non_overlapping_never_refused : forall pre t r,
  lookup t (hist_of pre) = Some r -> is_act r = true ->
  (forall t' r' c', t' <> t -> committed_at (hist_of pre) t' r' c' -> c' <= h_start r) ->
  answer pre (Commit t) = OkEpoch (ncommitted (hist_of pre) + 1).
Proof. exact non_overlapping_never_refused_l. Qed.
Print Assumptions non_overlapping_never_refused.

Theorem non_overlapping_pre_refuted :
  exists ops, ww_justified [] (combine ops (outs_pre ops)) = false /\
              nonoverlap_ok [] (combine ops (outs_pre ops)) = false.
Proof. exact no_spurious_refusal_pre_refuted_l. Qed.
Print Assumptions non_overlapping_pre_refuted.

Theorem oracle_c04_sound : forall ops,
  sf_justified [] (combine ops (outs ops)) = true /\ stale_refused [] (combine ops (outs ops)) = true /\
  nonoverlap_ok [] (combine ops (outs ops)) = true /\
  (all_serializable (hist_of ops) ->
   deps_forwardb (hist_of ops) = true /\ acyclicb (hist_of ops) = true /\ view_okb (hist_of ops) = true).
Proof. exact oracle_c04_sound_l. Qed.
Print Assumptions oracle_c04_sound.

(** session level (finding C04-K2): reads and writes of a session are never registered, so the
    write skew through two Serializable sessions commits twice *)
Theorem session_write_skew_refuted :
  exists sops ks, chk_session sops ks = true /\ oracle_sess_c04 sops ks = false /\ k_sess_c04 sops ks = true.
Proof. exact session_write_skew_refuted_l. Qed.
Print Assumptions session_write_skew_refuted.

(** why the theorems are restricted to Serializable transactions, as the property is: with one
    SnapshotIsolation transaction in the history the classic write skew commits and the
    dependency graph has a cycle (not a defect) *)
Definition ex_mixed : list op :=
  [Begin SnapshotIsolation; Begin Serializable;
   Read 2 (ENode 0); Read 2 (ENode 1); Read 3 (ENode 0); Read 3 (ENode 1);
   Write 2 (ENode 0); Write 3 (ENode 1); Commit 3; Commit 2].
Example mixed_levels_counterexample :
  outs ex_mixed = [OkTx 2; OkTx 3; OkUnit; OkUnit; OkUnit; OkUnit; OkUnit; OkUnit; OkEpoch 1; OkEpoch 2]
  /\ deps_forwardb (hist_of ex_mixed) = false /\ acyclicb (hist_of ex_mixed) = false
  /\ In (2, 3) (deps (hist_of ex_mixed)) /\ In (3, 2) (deps (hist_of ex_mixed)).
Proof. vm_compute. repeat split; auto. Qed.

(** non-vacuity *)
(** the same write skew with both transactions Serializable: the second committer is refused *)
Definition ex_skew : list op :=
  [Begin Serializable; Begin Serializable;
   Read 2 (ENode 0); Read 2 (ENode 1); Read 3 (ENode 0); Read 3 (ENode 1);
   Write 2 (ENode 0); Write 3 (ENode 1); Commit 3; Commit 2].
Example nv_skew_refused :
  outs ex_skew = [OkTx 2; OkTx 3; OkUnit; OkUnit; OkUnit; OkUnit; OkUnit; OkUnit; OkEpoch 1;
                  Err SerializationFailure]
  /\ all_serializableb (hist_of ex_skew) = true.
Proof. vm_compute. split; reflexivity. Qed.
(** an all-Serializable run with three commits, real wr and rw dependencies and a version read
    from an earlier committer: the premises of ser_view / ser_deps_forward / ser_final hold *)
Definition ex_ser : list op :=
  [Begin Serializable; Write 2 (ENode 0); Commit 2;
   Begin Serializable; Begin Serializable; Read 3 (ENode 0); Read 3 (ENode 2); Write 3 (ENode 1); Read 4 (ENode 2);
   Commit 3; Gc; Write 4 (ENode 2); Read 4 (ENode 0); Commit 4].
Example nv_ser :
  all_serializableb (hist_of ex_ser) = true /\ ncommitted (hist_of ex_ser) = 3 /\
  deps (hist_of ex_ser) = [(3, 4); (2, 4); (2, 3)] /\
  (exists r, lookup 3 (hist_of ex_ser) = Some r /\ h_reads r = [(ENode 2, Ver 0); (ENode 0, Ver 1)] /\ h_end r = HCommitted 2).
Proof. vm_compute. repeat split; try reflexivity. eexists. repeat split; reflexivity. Qed.
(** a value-level program: every transaction writes 1 + the sum of what it read *)
Definition ex_prog (t : Z) (e : entity) (view : entity -> Z) : Z :=
  match lookup t (hist_of ex_ser) with
  | Some r => 1 + fold_right (fun x acc => view x + acc) 0 (h_rs r)
  | None => 0
  end.
Example nv_ser_all : all_serializable (hist_of ex_ser).
Proof. apply all_serializableb_sound. vm_compute. reflexivity. Qed.
Example nv_ser_rdw : reads_determine_writes Z ex_prog (hist_of ex_ser).
Proof.
  intros t r L e v1 v2 H. unfold ex_prog. rewrite L. f_equal.
  induction (h_rs r) as [|x l IH]; [reflexivity|]. cbn [fold_right].
  rewrite (H x) by (left; reflexivity). rewrite IH; [reflexivity|]. intros y Hy. apply H. right. assumption.
Qed.
Example nv_ser_final_values :
  map (mv_db Z (fun _ => 0) ex_prog (hist_of ex_ser) 3) [ENode 0; ENode 1; ENode 2] = [1; 2; 2] /\
  map (ser_db Z (fun _ => 0) ex_prog (hist_of ex_ser) 3) [ENode 0; ENode 1; ENode 2] = [1; 2; 2].
Proof. vm_compute. split; reflexivity. Qed.
(** the read-only witness of the open finding is a real run, and outside K nothing is refused *)
Example nv_ro :
  outs (w_ro_refused ++ [Commit 2]) = [OkTx 2; OkTx 3; OkUnit; OkUnit; OkEpoch 1; Err SerializationFailure]
  /\ outs [Begin Serializable; Begin SnapshotIsolation; Read 2 (ENode 42); Write 3 (ENode 41); Commit 3; Commit 2]
     = [OkTx 2; OkTx 3; OkUnit; OkUnit; OkEpoch 1; OkEpoch 2].
Proof. vm_compute. split; reflexivity. Qed.
