(** C19 — graph algorithms compute what their definitions say: the property theorems
    (statements only; proofs are in Algo/Proofs*.v).  Pinned by props/C19.statements.

    Two kinds of theorem (DESIGN §8 C19):
    (1) certificate checkers are sound for ALL graphs: [c = true -> specification];
        the check runs the real algorithms and feeds their outputs to these checkers;
    (2) model algorithms (closure/BFS reachability, Kahn, Bellman-Ford as transcribed) meet them. *)
From Coq Require Export ZArith List Bool Permutation.
From GV Require Export Algo.Spec Algo.Cert Algo.Run.
From GV Require Import Algo.ProofsBase Algo.ProofsPath Algo.ProofsMsf Algo.ProofsFlow.
Open Scope Z_scope.

(** ** shortest paths *)
Theorem sssp_cert_sound : forall g s d paths, sssp_cert g s d paths = true -> sssp_spec g s (lookup d).
Proof. exact sssp_cert_sound_l. Qed.
Print Assumptions sssp_cert_sound.

Theorem sssp_cert_no_neg_cycle : forall g s d paths, sssp_cert g s d paths = true -> ~ neg_cycle_from g s.
Proof. exact sssp_cert_no_neg_cycle_l. Qed.
Print Assumptions sssp_cert_no_neg_cycle.

Theorem sssp_agree : forall g s d1 p1 d2 p2, sssp_cert g s d1 p1 = true -> sssp_cert g s d2 p2 = true ->
  forall v, In v (nodes g) -> lookup d1 v = lookup d2 v.
Proof. exact sssp_agree_l. Qed.
Print Assumptions sssp_agree.

Theorem pred_cert_sound : forall g s d paths pred, sssp_cert g s d paths = true -> pred_cert g s d pred = true ->
  forall v x, lookup d v = Some x -> v <> s ->
  exists u du e, lookup pred v = Some u /\ is_dist g s u du /\ In e (edges g) /\ esrc e = u /\ edst e = v /\ du + ew e = x.
Proof. exact pred_cert_sound_l. Qed.
Print Assumptions pred_cert_sound.

Theorem pair_cert_sound : forall g s t d paths ans, In t (nodes g) -> pair_cert g s t d paths ans = true ->
  match ans with
  | None => ~ reachable g s t
  | Some (x, l) => is_dist g s t x /\ real_path g l s t x
  end.
Proof. exact pair_cert_sound_l. Qed.
Print Assumptions pair_cert_sound.

Theorem bf_cert_sound : forall g s d paths flag wit, bf_cert g s d paths flag wit = true ->
  if flag then neg_cycle_from g s else sssp_spec g s (lookup d) /\ ~ neg_cycle_from g s.
Proof. exact bf_cert_sound_l. Qed.
Print Assumptions bf_cert_sound.

Theorem neg_cycle_no_dist : forall g s, neg_cycle_from g s -> exists u, reachable g s u /\ forall x, ~ is_dist g s u x.
Proof. exact neg_cycle_no_dist_l. Qed.
Print Assumptions neg_cycle_no_dist.

Theorem apsp_cert_sound : forall g rows flag cyc, apsp_cert g rows flag cyc = true ->
  if flag then neg_cycle g
  else (forall s, In s (nodes g) -> exists d ps, In (s, d, ps) rows /\ sssp_spec g s (lookup d)) /\ ~ neg_cycle g.
Proof. exact apsp_cert_sound_l. Qed.
Print Assumptions apsp_cert_sound.

(** ** traversals *)
Theorem reach_cert_sound : forall g s l, reach_cert g s l = true -> NoDup l /\ forall v, In v l <-> reachable g s v.
Proof. exact reach_cert_sound_l. Qed.
Print Assumptions reach_cert_sound.

Theorem layers_cert_sound : forall g s layers d paths, layers_cert g s layers d paths = true ->
  forall k ly, nth_error layers k = Some ly -> forall v, In v ly <-> (In v (nodes g) /\ is_dist g s v (Z.of_nat k)).
Proof. exact layers_cert_sound_l. Qed.
Print Assumptions layers_cert_sound.

Theorem perm_cert_sound : forall g l, perm_cert g l = true -> Permutation l (nodes g).
Proof. exact perm_cert_sound_l. Qed.
Print Assumptions perm_cert_sound.

(** ** components *)
Theorem wcc_cert_sound : forall g lab, wcc_cert g lab = true ->
  (forall u, In u (nodes g) -> lookup lab u <> None) /\
  forall u v, In u (nodes g) -> In v (nodes g) -> (lookup lab u = lookup lab v <-> uconn (edges g) u v).
Proof. exact wcc_cert_sound_l. Qed.
Print Assumptions wcc_cert_sound.

Theorem scc_cert_sound : forall g lab, scc_cert g lab = true ->
  (forall u, In u (nodes g) -> lookup lab u <> None) /\
  forall u v, In u (nodes g) -> In v (nodes g) -> (lookup lab u = lookup lab v <-> reachable g u v /\ reachable g v u).
Proof. exact scc_cert_sound_l. Qed.
Print Assumptions scc_cert_sound.

(** ** topological order *)
Theorem topo_cert_sound : forall g ans, topo_cert g ans = true ->
  match ans with Some l => topo_order g l | None => cyclic g end.
Proof. exact topo_cert_sound_l. Qed.
Print Assumptions topo_cert_sound.

Theorem topo_order_acyclic : forall g l, wf g -> topo_order g l -> ~ cyclic g.
Proof. exact topo_order_acyclic_l. Qed.
Print Assumptions topo_order_acyclic.

(** ** spanning forests *)
Theorem cycle_property_gives_minimum : forall g T, sub_forest g T ->
  (forall f, In f (edges g) -> ~ In f T -> forall T1 e T2, T = T1 ++ e :: T2 ->
     ~ uconn (T1 ++ T2) (esrc f) (edst f) -> ew e <= ew f) ->
  msf_spec g T.
Proof. exact cycle_prop_min_l. Qed.
Print Assumptions cycle_property_gives_minimum.

Theorem msf_cert_sound : forall g T, msf_cert g T = true -> msf_spec g T.
Proof. exact msf_cert_sound_l. Qed.
Print Assumptions msf_cert_sound.

Theorem msf_weight_unique : forall g T1 T2, msf_spec g T1 -> msf_spec g T2 -> wsum T1 = wsum T2.
Proof. exact msf_weight_unique_l. Qed.
Print Assumptions msf_weight_unique.

Theorem prim_cert_sound : forall g start T, prim_cert g start T = true ->
  exists g', (forall v, In v (nodes g') <-> In v (nodes g) /\ uconn (edges g) start v)
          /\ (forall e, In e (edges g') <-> In e (edges g) /\ uconn (edges g) start (esrc e) /\ uconn (edges g) start (edst e))
          /\ msf_spec g' T.
Proof. exact prim_cert_sound_l. Qed.
Print Assumptions prim_cert_sound.

(** ** flows *)
Theorem weak_duality : forall g s t f S, NoDup (nodes g) -> In s (nodes g) ->
  feasible g s t f -> is_cut s t S -> flow_value g s f <= cut_cap g S.
Proof. exact weak_duality_l. Qed.
Print Assumptions weak_duality.

Theorem flow_cert_sound : forall g s t fl val, flow_cert g s t fl val = true -> maxflow_spec g s t val.
Proof. exact flow_cert_sound_l. Qed.
Print Assumptions flow_cert_sound.
