(** C19 — graph algorithms compute what their definitions say: the property theorems
    (statements only; proofs are in Algo/Proofs*.v).  Pinned by props/C19.statements.

    Two kinds of theorem (DESIGN §8 C19):
    (1) certificate checkers are sound for ALL graphs: [c = true -> specification];
        the check runs the real algorithms and feeds their outputs to these checkers;
    (2) model algorithms (closure/BFS reachability, Bellman-Ford, Dijkstra, Kruskal, PageRank as
        transcribed) meet them;
    (3) executable specifications of the structure algorithms (triangles, k-core, bridges,
        articulation points) and of "PageRank is a distribution" are sound: the check evaluates
        them in Coq on the implementation's outputs. *)
From Coq Require Export ZArith List Bool Permutation QArith Qabs.
From GV Require Export Algo.Spec Algo.Cert Algo.CertStruct Algo.Model Algo.ModelPr Algo.Run.
From GV Require Import Algo.ProofsBase Algo.ProofsPath Algo.ProofsMsf Algo.ProofsFlow Algo.ProofsModel Algo.ProofsDijkstra
  Algo.ProofsStruct Algo.ProofsPr Algo.ProofsPrModel Algo.ProofsKruskal Algo.ProofsBf Algo.ProofsDijT.
Import ListNotations.
Open Scope Z_scope.

(** ** shortest paths *)
Theorem sssp_cert_sound : forall g s d paths, sssp_cert g s d paths = true -> sssp_spec g s (lookup d).
Proof. exact sssp_cert_sound_l. Qed.
Print Assumptions sssp_cert_sound.

Theorem sssp_cert_no_neg_cycle : forall g s d paths, sssp_cert g s d paths = true -> ~ neg_cycle_from g s.
Proof. exact sssp_cert_no_neg_cycle_l. Qed.
Print Assumptions sssp_cert_no_neg_cycle.

Theorem sssp_agree : forall g s d1 p1 d2 p2, sssp_cert g s d1 p1 = true -> sssp_cert g s d2 p2 = true ->
  forall v, In v (nodes g) -> lookup d1 v = lookup d2 v.
Proof. exact sssp_agree_l. Qed.
Print Assumptions sssp_agree.

Theorem pred_cert_sound : forall g s d paths pred, sssp_cert g s d paths = true -> pred_cert g s d pred = true ->
  forall v x, lookup d v = Some x -> v <> s ->
  exists u du e, lookup pred v = Some u /\ is_dist g s u du /\ In e (edges g) /\ esrc e = u /\ edst e = v /\ du + ew e = x.
Proof. exact pred_cert_sound_l. Qed.
Print Assumptions pred_cert_sound.

Theorem pair_cert_sound : forall g s t d paths ans, In t (nodes g) -> pair_cert g s t d paths ans = true ->
  match ans with
  | None => ~ reachable g s t
  | Some (x, l) => is_dist g s t x /\ real_path g l s t x
  end.
Proof. exact pair_cert_sound_l. Qed.
Print Assumptions pair_cert_sound.

Theorem bf_cert_sound : forall g s d paths flag wit, bf_cert g s d paths flag wit = true ->
  if flag then neg_cycle_from g s else sssp_spec g s (lookup d) /\ ~ neg_cycle_from g s.
Proof. exact bf_cert_sound_l. Qed.
Print Assumptions bf_cert_sound.

Theorem neg_cycle_no_dist : forall g s, neg_cycle_from g s -> exists u, reachable g s u /\ forall x, ~ is_dist g s u x.
Proof. exact neg_cycle_no_dist_l. Qed.
Print Assumptions neg_cycle_no_dist.

Theorem apsp_cert_sound : forall g rows flag cyc, apsp_cert g rows flag cyc = true ->
  if flag then neg_cycle g
  else (forall s, In s (nodes g) -> exists d ps, In (s, d, ps) rows /\ sssp_spec g s (lookup d)) /\ ~ neg_cycle g.
Proof. exact apsp_cert_sound_l. Qed.
Print Assumptions apsp_cert_sound.

(** ** traversals *)
Theorem reach_cert_sound : forall g s l, reach_cert g s l = true -> NoDup l /\ forall v, In v l <-> reachable g s v.
Proof. exact reach_cert_sound_l. Qed.
Print Assumptions reach_cert_sound.

Theorem layers_cert_sound : forall g s layers d paths, layers_cert g s layers d paths = true ->
  forall k ly, nth_error layers k = Some ly -> forall v, In v ly <-> (In v (nodes g) /\ is_dist g s v (Z.of_nat k)).
Proof. exact layers_cert_sound_l. Qed.
Print Assumptions layers_cert_sound.

Theorem perm_cert_sound : forall g l, perm_cert g l = true -> Permutation l (nodes g).
Proof. exact perm_cert_sound_l. Qed.
Print Assumptions perm_cert_sound.

(** ** components *)
Theorem wcc_cert_sound : forall g lab, wcc_cert g lab = true ->
  (forall u, In u (nodes g) -> lookup lab u <> None) /\
  forall u v, In u (nodes g) -> In v (nodes g) -> (lookup lab u = lookup lab v <-> uconn (edges g) u v).
Proof. exact wcc_cert_sound_l. Qed.
Print Assumptions wcc_cert_sound.

Theorem scc_cert_sound : forall g lab, scc_cert g lab = true ->
  (forall u, In u (nodes g) -> lookup lab u <> None) /\
  forall u v, In u (nodes g) -> In v (nodes g) -> (lookup lab u = lookup lab v <-> reachable g u v /\ reachable g v u).
Proof. exact scc_cert_sound_l. Qed.
Print Assumptions scc_cert_sound.

(** ** topological order *)
Theorem topo_cert_sound : forall g ans, topo_cert g ans = true ->
  match ans with Some l => topo_order g l | None => cyclic g end.
Proof. exact topo_cert_sound_l. Qed.
Print Assumptions topo_cert_sound.

Theorem topo_order_acyclic : forall g l, wf g -> topo_order g l -> ~ cyclic g.
Proof. exact topo_order_acyclic_l. Qed.
Print Assumptions topo_order_acyclic.

(** ** spanning forests *)
Theorem cycle_property_gives_minimum : forall g T, sub_forest g T ->
  (forall f, In f (edges g) -> ~ In f T -> forall T1 e T2, T = T1 ++ e :: T2 ->
     ~ uconn (T1 ++ T2) (esrc f) (edst f) -> ew e <= ew f) ->
  msf_spec g T.
Proof. exact cycle_prop_min_l. Qed.
Print Assumptions cycle_property_gives_minimum.

Theorem msf_cert_sound : forall g T, msf_cert g T = true -> msf_spec g T.
Proof. exact msf_cert_sound_l. Qed.
Print Assumptions msf_cert_sound.

Theorem msf_weight_unique : forall g T1 T2, msf_spec g T1 -> msf_spec g T2 -> wsum T1 = wsum T2.
Proof. exact msf_weight_unique_l. Qed.
Print Assumptions msf_weight_unique.

Theorem prim_cert_sound : forall g start T, prim_cert g start T = true ->
  exists g', (forall v, In v (nodes g') <-> In v (nodes g) /\ uconn (edges g) start v)
          /\ (forall e, In e (edges g') <-> In e (edges g) /\ uconn (edges g) start (esrc e) /\ uconn (edges g) start (edst e))
          /\ msf_spec g' T.
Proof. exact prim_cert_sound_l. Qed.
Print Assumptions prim_cert_sound.

(** ** flows *)
Theorem weak_duality : forall g s t f S, NoDup (nodes g) -> In s (nodes g) ->
  feasible g s t f -> is_cut s t S -> flow_value g s f <= cut_cap g S.
Proof. exact weak_duality_l. Qed.
Print Assumptions weak_duality.

Theorem flow_cert_sound : forall g s t fl val, flow_cert g s t fl val = true -> maxflow_spec g s t val.
Proof. exact flow_cert_sound_l. Qed.
Print Assumptions flow_cert_sound.

(** ** structure algorithms: executable specifications evaluated on the implementation's outputs *)
(** a count is determined by the predicate it counts (so the specifications below fix the numbers) *)
Theorem counts_unique : forall (A : Type) (P : A -> Prop) c1 c2, counts P c1 -> counts P c2 -> c1 = c2.
Proof. exact ProofsStruct.counts_unique. Qed.
Print Assumptions counts_unique.

Theorem tri_cert_sound : forall g tc total, tri_cert g tc total = true ->
  (forall v, In v (nodes g) -> exists c, lookup tc v = Some c /\ tri_count_spec g v c) /\ tri_total_spec g total.
Proof. exact tri_cert_sound_l. Qed.
Print Assumptions tri_cert_sound.

(** the local clustering coefficient returned (a binary64 bit pattern [x]) is within relative error 2^-53
    of triangles / (k choose 2) *)
Theorem lcc_cert_sound : forall g lc, lcc_cert g lc = true ->
  forall v, In v (nodes g) -> exists x q q0, lookup lc v = Some x /\ f64_val x = Some q /\ lcc_spec g v q0 /\
    (Qabs (q - q0) <= q0 * (1 # 9007199254740992))%Q.
Proof. exact lcc_cert_sound_l. Qed.
Print Assumptions lcc_cert_sound.

Theorem kcore_cert_sound : forall g c maxc, kcore_cert g c maxc = true ->
  (forall v, In v (nodes g) -> exists k, lookup c v = Some k /\ core_spec g v k /\ k <= maxc) /\
  (nodes g <> nil -> exists v, In v (nodes g) /\ lookup c v = Some maxc).
Proof. exact kcore_cert_sound_l. Qed.
Print Assumptions kcore_cert_sound.

Theorem kcore_list_cert_sound : forall g c k l, kcore_list_cert g c k l = true ->
  NoDup l /\ forall v, In v l <-> In v (nodes g) /\ exists x, lookup c v = Some x /\ k <= x.
Proof. exact kcore_list_cert_sound_l. Qed.
Print Assumptions kcore_list_cert_sound.

Theorem bridges_cert_sound : forall g l, bridges_cert g l = true -> bridges_spec g l.
Proof. exact bridges_cert_sound_l. Qed.
Print Assumptions bridges_cert_sound.

Theorem artic_cert_sound : forall g l, artic_cert g l = true -> artic_spec g l.
Proof. exact artic_cert_sound_l. Qed.
Print Assumptions artic_cert_sound.

(** ** PageRank *)
(** accepted scores (binary64 bit patterns) are finite, non-negative and their exact sum is within 10^-9 of 1 *)
Theorem pr_cert_sound : forall g pr, pr_cert g pr = true ->
  NoDup (map fst pr) /\ (forall v, In v (map fst pr) <-> In v (nodes g)) /\
  exists qs, Forall2 (fun b q => f64_val b = Some q) (map snd pr) qs /\
             (forall x, In x qs -> (0 <= x)%Q) /\
             (nodes g <> nil -> approx_distribution (1 # 1000000000) qs).
Proof. exact pr_cert_sound_l. Qed.
Print Assumptions pr_cert_sound.

(** PageRank as transcribed, over exact rationals: for every graph with a node, every damping factor in
    [0,1], every tolerance and every iteration bound the scores are a probability distribution *)
Theorem pagerank_model_distribution : forall g d tol k, wf g -> nodes g <> nil -> (0 <= d <= 1)%Q ->
  map fst (pagerank_model g d tol k) = nodes g /\ distribution (map snd (pagerank_model g d tol k)).
Proof. intros g d tol k Hwf Hne Hd. apply (pagerank_model_distribution_l g d tol Hwf Hne Hd k). Qed.
Print Assumptions pagerank_model_distribution.

(** ** model algorithms *)
(** closure/BFS reachability with |nodes| rounds visits exactly the reachable set *)
Theorem reach_model_correct : forall g s, wf g -> In s (nodes g) -> forall v, In v (reach_model g s) <-> reachable g s v.
Proof. exact reach_model_correct_l. Qed.
Print Assumptions reach_model_correct.

(** the traversal checker is also complete: it accepts every duplicate-free list of exactly the reachable nodes *)
Theorem reach_cert_complete : forall g s l, wfb g = true -> In s (nodes g) ->
  (NoDup l /\ forall v, In v l <-> reachable g s v) -> nodupb l = true -> reach_cert g s l = true.
Proof. exact reach_cert_complete_l. Qed.
Print Assumptions reach_cert_complete.

Theorem short_walk : forall g s v, wf g -> In s (nodes g) -> reachable g s v ->
  exists p, walk g s p v /\ (length p <= length (nodes g) - 1)%nat.
Proof. exact short_walk_l. Qed.
Print Assumptions short_walk.

(** Bellman-Ford as transcribed (n-1 rounds, early exit, negative-cycle pass): when it does not flag a
    negative cycle its distances are the shortest-path distances and no negative cycle can be reached;
    when it flags one, one can be reached (and then some reachable node has no distance:
    [neg_cycle_no_dist]) *)
Theorem bf_model_sound : forall g s d p flag, wf g -> In s (nodes g) -> bf_model g s = (d, p, flag) ->
  if flag then neg_cycle_from g s else sssp_spec g s (lookup d) /\ ~ neg_cycle_from g s.
Proof. exact bf_model_full_l. Qed.
Print Assumptions bf_model_sound.

(** Dijkstra as transcribed (heap with lazy deletion, re-insertion on strict improvement): whenever the
    loop ends (heap empty within the fuel) the distances are the shortest-path distances -- for any
    weights, whatever entry of minimal distance is popped *)
Theorem dijkstra_model_sound : forall g s fuel st, In s (nodes g) -> dijkstra_model g s fuel = Some st ->
  sssp_spec g s (lookup (dd st)) /\ ~ neg_cycle_from g s.
Proof. intros g s fuel st. apply (dijkstra_model_sound_l g s fuel st). Qed.
Print Assumptions dijkstra_model_sound.

(** ... and with non-negative weights the loop does end within [dij_fuel g] pops (every node is expanded at
    most once, every expansion pushes at most out-degree entries): Dijkstra returns the shortest-path distances *)
Theorem dijkstra_model_total : forall g s, wf g -> In s (nodes g) -> (forall e, In e (edges g) -> 0 <= ew e) ->
  exists st, dijkstra_model g s (dij_fuel g) = Some st /\ sssp_spec g s (lookup (dd st)) /\ ~ neg_cycle_from g s.
Proof. exact dijkstra_model_total_l. Qed.
Print Assumptions dijkstra_model_total.

(** Kruskal as transcribed from the current code (stable sort by weight, union-find question answered by
    connectivity over the chosen edges, early exit after |V|-1 edges) returns a minimum spanning forest
    of every well-formed graph *)
Theorem kruskal_model_msf : forall g, wf g -> msf_spec g (kruskal_model g).
Proof. exact kruskal_model_msf_l. Qed.
Print Assumptions kruskal_model_msf.

(** Kruskal before repair f6a1e05 (first edge per node pair only) did not return a minimum forest: finding C19-K1, fixed *)
Theorem kruskal_pre_refuted : exists g, wf g /\ k_parallel_diffw g = true /\ ~ msf_spec g (kruskal_pre g).
Proof. exact kruskal_pre_refuted_l. Qed.
Print Assumptions kruskal_pre_refuted.

(** ** non-vacuity: the checkers accept non-trivial instances, the hypotheses are satisfiable *)
(** zero-weight cycle 1<->2, parallel edges 0->1, unreachable node 3, self-loop *)
Definition ex_g : graph := mkG [0; 1; 2; 3] [mkE 0 1 0 4; mkE 0 1 1 2; mkE 1 2 2 0; mkE 2 1 3 0; mkE 2 2 4 1; mkE 3 0 5 1].
Example nv_sssp : sssp_cert ex_g 0 [(0, 0); (1, 2); (2, 2)] [[0]; [0; 1]; [0; 1; 2]] = true
                  /\ pred_cert ex_g 0 [(0, 0); (1, 2); (2, 2)] [(1, 0); (2, 1)] = true
                  /\ pair_cert ex_g 0 2 [(0, 0); (1, 2); (2, 2)] [[0]; [0; 1]; [0; 1; 2]] (Some (2, [0; 1; 2])) = true
                  /\ pair_cert ex_g 0 3 [(0, 0); (1, 2); (2, 2)] [[0]; [0; 1]; [0; 1; 2]] None = true.
Proof. vm_compute. repeat split. Qed.
(** a negative edge without negative cycle; and a reachable negative cycle *)
Definition ex_neg : graph := mkG [0; 1; 2] [mkE 0 1 0 2; mkE 1 2 1 (-3); mkE 2 0 2 2; mkE 0 2 3 4].
Definition ex_negcyc : graph := mkG [0; 1; 2] [mkE 0 1 0 1; mkE 1 2 1 (-3); mkE 2 1 2 1].
Example nv_bf : bf_model ex_neg 0 = ([(2, -1); (1, 2); (0, 0)], [(2, 1); (1, 0)], false)
                /\ bf_cert ex_neg 0 [(0, 0); (1, 2); (2, -1)] [[0]; [0; 1]; [0; 1; 2]] false ([], []) = true
                /\ snd (bf_model ex_negcyc 0) = true
                /\ bf_cert ex_negcyc 0 [] [] true ([0; 1], [1; 2; 1]) = true.
Proof. vm_compute. repeat split. Qed.
Example nv_dijkstra : option_map dd (dijkstra_model ex_g 0 (dij_fuel ex_g)) = Some [(2, 2); (1, 2); (1, 4); (0, 0)]
                      /\ chk_dijkstra ex_g 0 [(0, 0); (1, 2); (2, 2)] = true.
Proof. vm_compute. repeat split. Qed.
Example nv_components : wcc_cert ex_g [(0, 7); (1, 7); (2, 7); (3, 7)] = true
                        /\ scc_cert ex_g [(0, 2); (1, 0); (2, 0); (3, 3)] = true
                        /\ topo_cert ex_g None = true
                        /\ topo_cert (mkG [0; 1; 2] [mkE 0 1 0 1; mkE 0 2 1 1; mkE 2 1 2 1]) (Some [0; 2; 1]) = true
                        /\ reach_cert ex_g 0 [0; 1; 2] = true.
Proof. vm_compute. repeat split. Qed.
(** a minimum spanning forest with a tie and a parallel pair; the heavier parallel edge is rejected *)
Example nv_msf : msf_cert ex_g [mkE 0 1 1 2; mkE 1 2 2 0; mkE 3 0 5 1] = true
                 /\ msf_cert ex_g [mkE 0 1 0 4; mkE 1 2 2 0; mkE 3 0 5 1] = false
                 /\ sub_forest ex_g [mkE 0 1 1 2; mkE 2 1 3 0; mkE 3 0 5 1].
Proof.
  split; [vm_compute; reflexivity|]. split; [vm_compute; reflexivity|].
  apply (msf_cert_sound_l ex_g). vm_compute. reflexivity.
Qed.
(** a maximum flow of value 3 with its saturated cut; a non-maximum flow is rejected *)
Definition ex_net : graph := mkG [0; 1; 2; 3] [mkE 0 1 0 2; mkE 0 2 1 2; mkE 1 3 2 1; mkE 2 3 3 2; mkE 1 2 4 1; mkE 1 2 5 1].
Example nv_flow : flow_cert ex_net 0 3 [(0, 1, 2); (0, 2, 1); (1, 3, 1); (1, 2, 1); (2, 3, 2)] 3 = true
                  /\ flow_cert ex_net 0 3 [(0, 1, 1); (1, 3, 1)] 1 = false.
Proof. vm_compute. repeat split. Qed.
(** structure: K4 (0..3) with a doubled edge 2-3, a self-loop at 0 and a pendant node 4 hanging off 3 *)
Definition ex_s : graph := mkG [0; 1; 2; 3; 4]
  [mkE 0 1 0 1; mkE 0 2 1 1; mkE 0 3 2 1; mkE 1 2 3 1; mkE 1 3 4 1; mkE 2 3 5 1; mkE 3 2 6 1; mkE 0 0 7 1; mkE 3 4 8 1].
Example nv_struct : tri_cert ex_s [(0, 3); (1, 3); (2, 3); (3, 3); (4, 0)] 4 = true
                    /\ tri_cert ex_s [(0, 6); (1, 3); (2, 3); (3, 3); (4, 0)] 4 = false
                    /\ kcore_cert ex_s [(0, 4); (1, 3); (2, 3); (3, 3); (4, 1)] 4 = false
                    /\ kcore_cert ex_s [(0, 3); (1, 3); (2, 3); (3, 3); (4, 1)] 3 = true
                    /\ bridges_cert ex_s [(3, 4)] = true /\ bridges_cert ex_s [] = false /\ bridges_cert ex_s [(3, 4); (2, 3)] = false
                    /\ artic_cert ex_s [3] = true /\ artic_cert ex_s [] = false /\ artic_cert ex_s [3; 0] = false.
Proof. vm_compute. repeat split. Qed.
(** the answers of the code before the repairs are rejected: k-core {1,0} on a single edge (b5e4c37), a triangle
    counted at a self-loop (7e4dbc2), dfs_all listing a node twice (872b230), Prim missing the edge into its start (9e690b3) *)
Example nv_pre_outputs : kcore_cert (mkG [0; 1] [mkE 0 1 0 1]) [(0, 1); (1, 0)] 1 = false
                         /\ kcore_cert (mkG [0; 1] [mkE 0 1 0 1]) [(0, 1); (1, 1)] 1 = true
                         /\ tri_cert (mkG [0; 1] [mkE 0 0 0 1; mkE 1 0 1 1]) [(0, 1); (1, 0)] 0 = false
                         /\ tri_cert (mkG [0; 1] [mkE 0 0 0 1; mkE 1 0 1 1]) [(0, 0); (1, 0)] 0 = true
                         /\ perm_cert (mkG [0; 1] [mkE 1 0 0 1]) [0; 0; 1] = false
                         /\ perm_cert (mkG [0; 1] [mkE 1 0 0 1]) [0; 1] = true
                         /\ prim_cert (mkG [0; 1] [mkE 0 1 0 3]) 1 [] = false
                         /\ prim_cert (mkG [0; 1] [mkE 0 1 0 3]) 1 [mkE 0 1 0 3] = true.
Proof. vm_compute. repeat split. Qed.
(** PageRank: 0.5 + 0.5 is accepted, 0.5 + 0.25 is not; the model on a 2-cycle with a dangling third node *)
Example nv_pagerank : pr_cert (mkG [0; 1] []) [(0, 4602678819172646912); (1, 4602678819172646912)] = true
                      /\ pr_cert (mkG [0; 1] []) [(0, 4602678819172646912); (1, 4598175219545276416)] = false
                      /\ map snd (pagerank_model (mkG [0; 1; 2] [mkE 0 1 0 1; mkE 1 0 1 1]) (1 # 2) 0 2) = [(43 # 108)%Q; (43 # 108)%Q; (11 # 54)%Q].
Proof. vm_compute. repeat split. Qed.
Example nv_wf : wf ex_g /\ wf ex_net /\ wf ex_neg.
Proof. split; [|split]; apply wfb_wf; vm_compute; reflexivity. Qed.
