(** C08 — does the plan a front end produced equal the plan shape the theorems speak about?
    (evaluated by the check for every GQL / Cypher execution; reported in the evidence) *)
From Coq Require Import ZArith List Bool String Ascii.
From GV Require Export Query.ChainSpec Query.RunPat.
Import ListNotations.
Open Scope Z_scope.

Definition opt_eqb {A} (eqb : A -> A -> bool) (a b : option A) : bool :=
  match a, b with Some x, Some y => eqb x y | None, None => true | _, _ => false end.
Definition cmpop_eqb (a b : cmpop) : bool :=
  match a, b with OEq, OEq | ONe, ONe | OLt, OLt | OLe, OLe | OGt, OGt | OGe, OGe => true | _, _ => false end.
Fixpoint lexpr_eqb (a b : lexpr) : bool :=
  match a, b with
  | ELit v, ELit w => val_eqb v w
  | EVar x, EVar y => String.eqb x y
  | EProp x k, EProp y l => String.eqb x y && String.eqb k l
  | ECmp o a1 a2, ECmp p b1 b2 => cmpop_eqb o p && lexpr_eqb a1 b1 && lexpr_eqb a2 b2
  | EAnd a1 a2, EAnd b1 b2 | EOr a1 a2, EOr b1 b2 => lexpr_eqb a1 b1 && lexpr_eqb a2 b2
  | ENot a1, ENot b1 | EIsNull a1, EIsNull b1 | EIsNotNull a1, EIsNotNull b1 => lexpr_eqb a1 b1
  | EHasLabel x l, EHasLabel y m | ELabelIn l x, ELabelIn m y => String.eqb x y && String.eqb l m
  | _, _ => false
  end.
Fixpoint list_eqb {A} (eqb : A -> A -> bool) (a b : list A) : bool :=
  match a, b with
  | [], [] => true
  | x :: xs, y :: ys => eqb x y && list_eqb eqb xs ys
  | _, _ => false
  end.
Definition dir_eqb (a b : dir) : bool := match a, b with Out, Out | In, In | Both, Both => true | _, _ => false end.
Definition aggfn_eqb (a b : aggfn) : bool :=
  match a, b with
  | ACount, ACount | ACountNN, ACountNN | ASum, ASum | AAvg, AAvg | AMin, AMin | AMax, AMax | ACollect, ACollect => true
  | _, _ => false end.
Definition agg_eqb (a b : aggx) : bool :=
  aggfn_eqb (ag_fn a) (ag_fn b) && opt_eqb lexpr_eqb (ag_arg a) (ag_arg b) && Bool.eqb (ag_distinct a) (ag_distinct b)
  && opt_eqb String.eqb (ag_alias a) (ag_alias b).
Definition item_eqb (a b : lexpr * option string) : bool := lexpr_eqb (fst a) (fst b) && opt_eqb String.eqb (snd a) (snd b).
Fixpoint lop_eqb (a b : lop) : bool :=
  match a, b with
  | LScan x l, LScan y m => String.eqb x y && opt_eqb String.eqb l m
  | LExpand f t e d ty mn mx i, LExpand f' t' e' d' ty' mn' mx' i' =>
      String.eqb f f' && String.eqb t t' && opt_eqb String.eqb e e' && dir_eqb d d' && opt_eqb String.eqb ty ty'
      && Nat.eqb mn mn' && opt_eqb Nat.eqb mx mx' && lop_eqb i i'
  | LFilter p i, LFilter p' i' => lexpr_eqb p p' && lop_eqb i i'
  | LReturn its d i, LReturn its' d' i' => list_eqb item_eqb its its' && Bool.eqb d d' && lop_eqb i i'
  | LProject its i, LProject its' i' => list_eqb item_eqb its its' && lop_eqb i i'
  | LSort ks i, LSort ks' i' => list_eqb (fun a b => lexpr_eqb (fst a) (fst b) && Bool.eqb (snd a) (snd b)) ks ks' && lop_eqb i i'
  | LSkip n i, LSkip n' i' | LLimit n i, LLimit n' i' => Nat.eqb n n' && lop_eqb i i'
  | LDistinct i, LDistinct i' => lop_eqb i i'
  | LAggregate g a i, LAggregate g' a' i' => list_eqb lexpr_eqb g g' && list_eqb agg_eqb a a' && lop_eqb i i'
  | _, _ => false
  end.
(** the dumped plan of a GQL / Cypher execution is the plan [gql_plan_of] / [cypher_plan_of] *)
Definition plan_shape_ok (l : lang) (q : query) (p : lop) : bool :=
  match l with
  | LGql => lop_eqb (gql_plan_of q) p
  | LCypher => lop_eqb (cypher_plan_of q) p
  | _ => false
  end.
