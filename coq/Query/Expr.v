(** C11 (shared by C08–C10) — Layer 1: values and filter expressions.

    Transcription of [ExpressionPredicate::eval_expr] and its helpers
    (crates/grafeo-core/src/execution/operators/filter.rs) AS WRITTEN at HEAD (after 8edf585):
    - a sub-expression that yields no value ([None]) makes every binary operator yield [None]
      ([?] on both operands, left first): the connectives are NOT Kleene ([NULL AND false] is
      unknown, [NULL OR true] is unknown);
    - [=]/[<>] always yield a boolean once both operands have a value ([values_equal], with
      [Null = Null] true and [Null <> 5] true);
    - integer arithmetic is checked: overflow, division by zero and [MIN / -1] yield [None];
    - a row passes a filter iff the predicate evaluates to [Some (VBool true)].
    Definitions only (no proofs here).

    Values: a self-contained small type.  Floats are binary64 BIT PATTERNS ([0 <= bits < 2^64]);
    comparison, the epsilon-equality [(a - b).abs() < f64::EPSILON] and [i64 as f64] are defined
    exactly on bit patterns; float ARITHMETIC is not interpreted: [eval] takes the operation table
    [fa] as a parameter and every theorem holds for all [fa].  Strings are UTF-8 byte lists
    (Rust compares [str] bytewise). *)
From GV Require Export Base.Bits.
Open Scope Z_scope.

Inductive value :=
| VNull
| VBool (b : bool)
| VInt (z : Z)
| VFloat (bits : Z)
| VStr (s : list Z)
| VList (l : list value).

Fixpoint value_eqb (a b : value) : bool :=
  match a, b with
  | VNull, VNull => true
  | VBool x, VBool y => Bool.eqb x y
  | VInt x, VInt y => x =? y
  | VFloat x, VFloat y => x =? y
  | VStr x, VStr y => zlist_eqb x y
  | VList x, VList y =>
      (fix go (x y : list value) : bool :=
         match x, y with
         | [], [] => true
         | a :: x', b :: y' => value_eqb a b && go x' y'
         | _, _ => false
         end) x y
  | _, _ => false
  end.

(** * binary64 bit patterns *)
Definition f_sign (b : Z) : bool := 2 ^ 63 <=? b.
Definition f_exp (b : Z) : Z := (b / 2 ^ 52) mod 2 ^ 11.
Definition f_man (b : Z) : Z := b mod 2 ^ 52.
Definition f_is_nan (b : Z) : bool := (f_exp b =? 2047) && negb (f_man b =? 0).
Definition f_is_inf (b : Z) : bool := (f_exp b =? 2047) && (f_man b =? 0).
(** magnitude of a finite value in units of 2^-1074 *)
Definition f_mag (b : Z) : Z :=
  if f_exp b =? 0 then f_man b else (2 ^ 52 + f_man b) * 2 ^ (f_exp b - 1).
(** signed value in units of 2^-1074; [None] for NaN and the infinities *)
Definition f_fin (b : Z) : option Z :=
  if f_exp b =? 2047 then None else Some (if f_sign b then - f_mag b else f_mag b).
(** order key: [None] for NaN; the infinities are beyond every finite value (< 2^2098) *)
Definition f_key (b : Z) : option Z :=
  if f_is_nan b then None
  else if f_is_inf b then Some (if f_sign b then - 2 ^ 2098 else 2 ^ 2098)
  else f_fin b.
(** IEEE [a < b] *)
Definition f_lt (a b : Z) : bool :=
  match f_key a, f_key b with Some x, Some y => x <? y | _, _ => false end.
(** [(a - b).abs() < f64::EPSILON]: exact.  NaN or an infinity on either side gives false
    ([inf - inf] is NaN, [inf - x] is inf); for finite operands the exact difference [d]
    (units 2^-1074, EPSILON = 2^1022 units) rounds to something below EPSILON iff it lies below
    the midpoint between EPSILON and its predecessor, 2^1022 - 2^968 (the tie rounds to even =
    EPSILON). *)
Definition f_eq_eps (a b : Z) : bool :=
  match f_fin a, f_fin b with
  | Some x, Some y => Z.abs (x - y) <? 2 ^ 1022 - 2 ^ 968
  | _, _ => false
  end.
Definition f_is_zero (b : Z) : bool := b mod 2 ^ 63 =? 0.
Definition f_neg (b : Z) : Z := if f_sign b then b - 2 ^ 63 else b + 2 ^ 63.
(** [z as f64] for an i64: round to nearest, ties to even *)
Definition f_of_int (z : Z) : Z :=
  let s := if z <? 0 then 2 ^ 63 else 0 in
  let a := Z.abs z in
  if a =? 0 then 0
  else
    let k := Z.log2 a in
    if k <=? 52 then s + (k + 1023) * 2 ^ 52 + (a * 2 ^ (52 - k) - 2 ^ 52)
    else
      let sh := k - 52 in
      let q := a / 2 ^ sh in
      let r := a mod 2 ^ sh in
      let half := 2 ^ (sh - 1) in
      let q' := if (half <? r) || ((r =? half) && Z.odd q) then q + 1 else q in
      if q' =? 2 ^ 53 then s + (k + 1 + 1023) * 2 ^ 52
      else s + (k + 1023) * 2 ^ 52 + (q' - 2 ^ 52).

(** * strings as byte lists *)
Fixpoint bytes_cmp (a b : list Z) : Z :=
  match a, b with
  | [], [] => 0
  | [], _ :: _ => -1
  | _ :: _, [] => 1
  | x :: a', y :: b' => if x <? y then -1 else if y <? x then 1 else bytes_cmp a' b'
  end.
Fixpoint starts_with (s p : list Z) : bool :=
  match p, s with
  | [], _ => true
  | _ :: _, [] => false
  | y :: p', x :: s' => (x =? y) && starts_with s' p'
  end.
Definition ends_with (s p : list Z) : bool := starts_with (rev s) (rev p).
Fixpoint contains (s p : list Z) : bool :=
  starts_with s p || match s with [] => false | _ :: s' => contains s' p end.

(** * expressions *)
Inductive binop :=
| Eq | Ne | Lt | Le | Gt | Ge | And | Or | Xor
| Add | Sub | Mul | Div | Mod
| StartsWith | EndsWith | Contains | InList.
Inductive unop := Not | IsNull | IsNotNull | Neg.

(** [EVar i] stands for both [FilterExpression::Variable] (value of column [i] of the row) and
    [FilterExpression::Property] (property number [i] of the row's node): each is a lookup that
    may yield no value. *)
Inductive expr :=
| ELit (v : value)
| EVar (i : nat)
| EBin (op : binop) (l r : expr)
| EUn (op : unop) (e : expr)
| EList (es : list expr).

(** an environment: one optional value per variable/property; a stored NULL is [Some VNull],
    a missing property (or column) is [None] *)
Definition env := list (option value).

Definition as_bool (v : value) : option bool := match v with VBool b => Some b | _ => None end.
Definition as_str (v : value) : option (list Z) := match v with VStr s => Some s | _ => None end.

Definition values_equal (l r : value) : bool :=
  match l, r with
  | VNull, VNull => true
  | VBool a, VBool b => Bool.eqb a b
  | VInt a, VInt b => a =? b
  | VFloat a, VFloat b => f_eq_eps a b
  | VStr a, VStr b => zlist_eqb a b
  | VInt a, VFloat b => f_eq_eps (f_of_int a) b
  | VFloat b, VInt a => f_eq_eps (f_of_int a) b
  | _, _ => false
  end.

Definition cmp_f (a b : Z) : Z := if f_lt a b then -1 else if f_lt b a then 1 else 0.

Definition compare_values (l r : value) : option Z :=
  match l, r with
  | VInt a, VInt b => Some (if a <? b then -1 else if b <? a then 1 else 0)
  | VFloat a, VFloat b => Some (cmp_f a b)
  | VStr a, VStr b => Some (bytes_cmp a b)
  | VInt a, VFloat b => Some (cmp_f (f_of_int a) b)
  | VFloat a, VInt b => Some (cmp_f a (f_of_int b))
  | _, _ => None
  end.

Definition chk_i64 (r : Z) : option value := if in_i64b r then Some (VInt r) else None.
(** [i64::checked_div] / [checked_rem]: zero divisor and [MIN / -1] have no result *)
Definition checked_div (a b : Z) : option value :=
  if b =? 0 then None else chk_i64 (Z.quot a b).
Definition checked_rem (a b : Z) : option value :=
  if b =? 0 then None else if (a =? - two63) && (b =? -1) then None else Some (VInt (Z.rem a b)).

(** the integer arithmetic of [eval_arithmetic] BEFORE the repair 8edf585 ([a + b], [a / b] ...
    on i64): a panic where the checked operations now yield no value *)
Definition arith_pre (m : mode) (op : binop) (a b : Z) : res (option value) :=
  match op with
  | Add => rmap (fun r => Some (VInt r)) (add_i64 m a b)
  | Sub => rmap (fun r => Some (VInt r)) (sub_i64 m a b)
  | Mul => match m with
           | Checked => if in_i64b (a * b) then Ok (Some (VInt (a * b))) else Panic
           | Wrapping => Ok (Some (VInt (sint64 (a * b))))
           end
  | Div => if b =? 0 then Panic else if (a =? - two63) && (b =? -1) then Panic else Ok (Some (VInt (Z.quot a b)))
  | _ => Ok None
  end.

Section Eval.
  (** uninterpreted float arithmetic: [fa op a b] for [op] in Add/Sub/Mul/Div/Mod on bit patterns *)
  Variable fa : binop -> Z -> Z -> Z.

  Definition eval_arithmetic (op : binop) (int_op : Z -> Z -> option value) (l r : value) : option value :=
    match l, r with
    | VInt a, VInt b => int_op a b
    | VFloat a, VFloat b => Some (VFloat (fa op a b))
    | VInt a, VFloat b => Some (VFloat (fa op (f_of_int a) b))
    | VFloat a, VInt b => Some (VFloat (fa op a (f_of_int b)))
    | _, _ => None
    end.

  Definition eval_modulo (l r : value) : option value :=
    match l, r with
    | VInt a, VInt b => if b =? 0 then None else checked_rem a b
    | VFloat a, VFloat b => if f_is_zero b then None else Some (VFloat (fa Mod a b))
    | VInt a, VFloat b => if f_is_zero b then None else Some (VFloat (fa Mod (f_of_int a) b))
    | VFloat a, VInt b => if b =? 0 then None else Some (VFloat (fa Mod a (f_of_int b)))
    | _, _ => None
    end.

  Definition bool2 (f : bool -> bool -> bool) (l r : value) : option value :=
    match as_bool l with
    | None => None
    | Some a => match as_bool r with None => None | Some b => Some (VBool (f a b)) end
    end.
  Definition str2 (f : list Z -> list Z -> bool) (l r : value) : option value :=
    match as_str l with
    | None => None
    | Some a => match as_str r with None => None | Some b => Some (VBool (f a b)) end
    end.
  Definition cmp2 (f : Z -> bool) (l r : value) : option value :=
    option_map (fun c => VBool (f c)) (compare_values l r).

  (** [eval_binary_op] ([InList] is handled by [eval], as in the code, and yields [None] here) *)
  Definition eval_binop (op : binop) (l r : value) : option value :=
    match op with
    | And => bool2 andb l r
    | Or => bool2 orb l r
    | Xor => bool2 xorb l r
    | Eq => Some (VBool (values_equal l r))
    | Ne => Some (VBool (negb (values_equal l r)))
    | Lt => cmp2 (fun c => c <? 0) l r
    | Le => cmp2 (fun c => c <=? 0) l r
    | Gt => cmp2 (fun c => 0 <? c) l r
    | Ge => cmp2 (fun c => 0 <=? c) l r
    | Add => eval_arithmetic Add (fun a b => chk_i64 (a + b)) l r
    | Sub => eval_arithmetic Sub (fun a b => chk_i64 (a - b)) l r
    | Mul => eval_arithmetic Mul (fun a b => chk_i64 (a * b)) l r
    | Div => eval_arithmetic Div checked_div l r
    | Mod => eval_modulo l r
    | StartsWith => str2 starts_with l r
    | EndsWith => str2 ends_with l r
    | Contains => str2 contains l r
    | InList => None
    end.

  Definition is_null (o : option value) : bool :=
    match o with None => true | Some VNull => true | _ => false end.

  Definition eval_unop (op : unop) (o : option value) : option value :=
    match op with
    | Not => match o with Some v => option_map (fun b => VBool (negb b)) (as_bool v) | None => None end
    | IsNull => Some (VBool (is_null o))
    | IsNotNull => Some (VBool (negb (is_null o)))
    | Neg => match o with
             | Some (VInt i) => chk_i64 (- i)
             | Some (VFloat f) => Some (VFloat (f_neg f))
             | _ => None
             end
    end.

  Fixpoint eval (en : env) (e : expr) : option value :=
    match e with
    | ELit v => Some v
    | EVar i => match nth_error en i with Some o => o | None => None end
    | EBin op l r =>
        match eval en l with
        | None => None
        | Some lv =>
            match eval en r with
            | None => None
            | Some rv =>
                match op with
                | InList => match rv with
                        | VList items => Some (VBool (existsb (values_equal lv) items))
                        | _ => None
                        end
                | _ => eval_binop op lv rv
                end
            end
        end
    | EUn op a => eval_unop op (eval en a)
    | EList es =>
        Some (VList ((fix go (es : list expr) : list value :=
                        match es with
                        | [] => []
                        | a :: r => match eval en a with Some v => v :: go r | None => go r end
                        end) es))
    end.

  (** [Predicate::evaluate]: the row passes iff the value is exactly [Bool(true)] *)
  Definition passes (p : expr) (en : env) : bool :=
    match eval en p with Some (VBool true) => true | _ => false end.
End Eval.

(** predicates whose top-level operator yields a boolean or no value: comparisons,
    connectives, NOT, IS [NOT] NULL, IN, string operators, boolean/NULL literals *)
Definition bool_binop (op : binop) : bool :=
  match op with
  | Add | Sub | Mul | Div | Mod => false
  | _ => true
  end.
Definition bpred (e : expr) : bool :=
  match e with
  | ELit (VBool _) | ELit VNull => true
  | EBin op _ _ => bool_binop op
  | EUn Not _ | EUn IsNull _ | EUn IsNotNull _ => true
  | _ => false
  end.

Definition exactly_one3 (a b c : bool) : bool :=
  match a, b, c with
  | true, false, false | false, true, false | false, false, true => true
  | _, _, _ => false
  end.

(** float arithmetic used when the model is run: none (the generators never put float
    arithmetic into a predicate; a case that did would show up as a correspondence mismatch) *)
Definition fa_none (op : binop) (a b : Z) : Z := 0.
