(** C11 — Layer 2, continued: the aggregate functions beyond COUNT (aggregate.rs) and the typed
    output vectors they are written into (vector.rs [push_value]).  Definitions only.

    Transcribed from [AggregateState::{new, update, finalize}], [compare_values] and
    [value_to_f64] of crates/grafeo-core/src/execution/operators/aggregate.rs, and the call sites
    in [SimpleAggregateOperator::next] / [HashAggregateOperator::aggregate] (a missing column and a
    NULL are skipped for every function except COUNT-star).

    Domain of the model (everything else drives the state to [SOut], whose result compares
    unequal to every implementation output, so an out-of-domain input shows up as a
    correspondence mismatch instead of being silently mis-modelled):
    - SUM / AVG: Int64, Bool, list and non-numeric-looking String inputs (the latter three are
      ignored by the code: [value_to_f64] yields nothing); a Float64 or a String that Rust's
      [f64::from_str] might accept switches the code to floating-point summation, which is not
      interpreted here;
    - AVG accumulates in f64: exact as long as every partial sum stays within 2^53 in magnitude
      (else [SOut]); the final division is the correctly rounded quotient of two integers
      ([f_of_ratio], defined on bit patterns);
    - MIN / MAX: as written, with [compare_values] on Int64, Float64 (bit patterns), Bool, String
      (bytewise unless BOTH look numeric — then [SOut]), Int64 against Float64; a pair the code
      cannot compare leaves the current extremum in place (so the result over a column of mixed
      types depends on the row order — modelled as written).
    - DISTINCT aggregates, STDEV and percentiles are not modelled. *)
From GV Require Export Query.Stream.
Open Scope Z_scope.

(** * typed output vectors: [ValueVector::push_value] followed by [get_value] *)
Inductive ltype := TAny | TInt | TFloat | TBool | TStr.
Definition push_typed (t : ltype) (v : value) : value :=
  match v with
  | VNull => VNull
  | _ =>
      match t, v with
      | TAny, _ => v
      | TInt, VInt _ => v
      | TInt, _ => VInt 0
      | TFloat, VFloat _ => v
      | TFloat, _ => VFloat 0
      | TBool, VBool _ => v
      | TBool, _ => VBool false
      | TStr, VStr _ => v
      | TStr, _ => VStr []
      end
  end.

(** the value has the type the vector was created with (NULL fits every vector) *)
Definition type_okb (t : ltype) (v : value) : bool :=
  match t, v with
  | _, VNull | TAny, _ | TInt, VInt _ | TFloat, VFloat _ | TBool, VBool _ | TStr, VStr _ => true
  | _, _ => false
  end.

(** * exact quotient of two integers as a binary64 bit pattern (round to nearest, ties to even);
      [n > 0]; the result is in the normal range for the operands that occur (|s|, n <= 2^62) *)
Definition f_of_ratio (s n : Z) : Z :=
  if s =? 0 then 0
  else
    let sg := if s <? 0 then 2 ^ 63 else 0 in
    let a := Z.abs s in
    let e0 := Z.log2 a - Z.log2 n in
    (* e = floor (log2 (a / n)) *)
    let ge (e : Z) := if 0 <=? e then n * 2 ^ e <=? a else n <=? a * 2 ^ (- e) in
    let e := if ge e0 then e0 else e0 - 1 in
    let sh := 52 - e in
    let num := if 0 <=? sh then a * 2 ^ sh else a in
    let den := if 0 <=? sh then n else n * 2 ^ (- sh) in
    let q := num / den in
    let r := num mod den in
    let q' := if (den <? 2 * r) || ((2 * r =? den) && Z.odd q) then q + 1 else q in
    if q' =? 2 ^ 53 then sg + (e + 1 + 1023) * 2 ^ 52
    else sg + (e + 1023) * 2 ^ 52 + (q' - 2 ^ 52).

(** * [compare_values] of aggregate.rs *)
(** a String that [str::parse::<f64>] might accept (over-approximation: first byte is a digit,
    a sign, a dot, or i/I/n/N as in "inf", "NaN") *)
Definition numeric_like (s : list Z) : bool :=
  match s with
  | [] => false
  | c :: _ => ((48 <=? c) && (c <=? 57)) || (c =? 43) || (c =? 45) || (c =? 46)
              || (c =? 105) || (c =? 73) || (c =? 110) || (c =? 78)
  end.
(** [f64::partial_cmp] on bit patterns *)
Definition f_pcmp (a b : Z) : option Z :=
  match f_key a, f_key b with
  | Some x, Some y => Some (cmp_z x y)
  | _, _ => None
  end.
Inductive acmp_res := ACmp (o : option Z) | AOut.
Definition agg_cmp (a b : value) : acmp_res :=
  match a, b with
  | VInt x, VInt y => ACmp (Some (cmp_z x y))
  | VFloat x, VFloat y => ACmp (f_pcmp x y)
  | VStr x, VStr y => if numeric_like x && numeric_like y then AOut else ACmp (Some (bytes_cmp x y))
  | VBool x, VBool y => ACmp (Some (cmp_z (if x then 1 else 0) (if y then 1 else 0)))
  | VInt x, VFloat y => ACmp (f_pcmp (f_of_int x) y)
  | VFloat x, VInt y => ACmp (f_pcmp x (f_of_int y))
  | VStr s, VInt _ | VStr s, VFloat _ | VInt _, VStr s | VFloat _, VStr s =>
      if numeric_like s then AOut else ACmp None
  | _, _ => ACmp None
  end.

(** * aggregate functions and their states *)
Inductive aggf :=
| FCountStar | FCount (c : nat) | FSum (c : nat) | FAvg (c : nat) | FMin (c : nat) | FMax (c : nat)
| FFirst (c : nat) | FLast (c : nat) | FCollect (c : nat).
Inductive astate :=
| SCount (n : Z)
| SSum (s : Z)
| SAvg (s n : Z)
| SMin (o : option value)
| SMax (o : option value)
| SFirst (o : option value)
| SLast (o : option value)
| SCollect (l : list value)
| SPanic     (** unused since a66b89b (before: [*sum += v] overflowed in an overflow-checked build) *)
| SOut.      (** the input left the modelled domain *)

Definition agg_col (f : aggf) : option nat :=
  match f with
  | FCountStar => None
  | FCount c | FSum c | FAvg c | FMin c | FMax c | FFirst c | FLast c | FCollect c => Some c
  end.
(** [AggregateState::new] *)
Definition agg_init (f : aggf) : astate :=
  match f with
  | FCountStar | FCount _ => SCount 0
  | FSum _ => SSum 0
  | FAvg _ => SAvg 0 0
  | FMin _ => SMin None
  | FMax _ => SMax None
  | FFirst _ => SFirst None
  | FLast _ => SLast None
  | FCollect _ => SCollect []
  end.

Definition two53 : Z := 2 ^ 53.
(** [AggregateState::update(Some(v))] for a non-NULL [v] *)
Definition agg_step (m : mode) (st : astate) (v : value) : astate :=
  match st with
  | SCount n => SCount (n + 1)
  | SSum s =>
      match v with
      (* a66b89b: [sum.checked_add(v)], and on overflow the sum continues as a FLOAT sum (not interpreted) *)
      | VInt i => if in_i64b (s + i) then SSum (s + i) else SOut
      | VFloat _ => SOut
      | VStr x => if numeric_like x then SOut else SSum s
      | _ => SSum s
      end
  | SAvg s n =>
      match v with
      | VInt i => if (Z.abs i <=? two53) && (Z.abs (s + i) <=? two53) then SAvg (s + i) (n + 1) else SOut
      | VFloat _ => SOut
      | VStr x => if numeric_like x then SOut else SAvg s n
      | _ => SAvg s n
      end
  | SMin None => SMin (Some v)
  | SMin (Some cur) =>
      match agg_cmp v cur with
      | AOut => SOut
      | ACmp (Some c) => if c <? 0 then SMin (Some v) else SMin (Some cur)
      | ACmp None => SMin (Some cur)
      end
  | SMax None => SMax (Some v)
  | SMax (Some cur) =>
      match agg_cmp v cur with
      | AOut => SOut
      | ACmp (Some c) => if 0 <? c then SMax (Some v) else SMax (Some cur)
      | ACmp None => SMax (Some cur)
      end
  | SFirst None => SFirst (Some v)
  | SFirst (Some cur) => SFirst (Some cur)
  | SLast _ => SLast (Some v)
  | SCollect l => SCollect (l ++ [v])
  | SPanic => SPanic
  | SOut => SOut
  end.

(** BEFORE a66b89b (finding C11-K10, fixed): [AggregateState::SumInt] did [*sum += v] — a panic in an
    overflow-checked build, a silent wrap-around in a release build *)
Definition sum_fold_pre (m : mode) (l : list Z) : res Z :=
  fold_left (fun acc i => rbind acc (fun s => add_i64 m s i)) l (Ok 0).

(** one row: COUNT-star always counts; every other function skips a missing column and a NULL *)
Definition agg_update2 (m : mode) (r : row) (f : aggf) (st : astate) : astate :=
  match agg_col f with
  | None => agg_step m st VNull
  | Some c => match nth_error r c with
              | None | Some VNull => st
              | Some v => agg_step m st v
              end
  end.
Definition aggs_update2 (m : mode) (aggs : list aggf) (r : row) (sts : list astate) : list astate :=
  map (fun p => agg_update2 m r (fst p) (snd p)) (combine aggs sts).
Definition aggs_init2 (aggs : list aggf) : list astate := map agg_init aggs.

Definition out_marker : value := VStr (zl [117; 110; 109; 111; 100; 101; 108; 108; 101; 100]).
(** [AggregateState::finalize] *)
Definition agg_final (st : astate) : value :=
  match st with
  | SCount n => VInt n
  | SSum s => VInt s
  | SAvg s n => if n =? 0 then VNull else VFloat (f_of_ratio s n)
  | SMin o | SMax o | SFirst o | SLast o => match o with Some v => v | None => VNull end
  | SCollect l => VList l
  | SPanic | SOut => out_marker
  end.
Definition st_panic (st : astate) : bool := match st with SPanic => true | _ => false end.

(** the result columns: every aggregate comes with the type of the output vector it is pushed into *)
Definition final_row (tys : list ltype) (sts : list astate) : row :=
  map (fun p => push_typed (fst p) (agg_final (snd p))) (combine tys sts).

(** [SimpleAggregateOperator]: one row, also for an empty input; a panic of [+=] unwinds out of
    [next()] *)
Definition fold_aggs (m : mode) (aggs : list aggf) (rows : list row) : list astate :=
  fold_left (fun sts r => aggs_update2 m aggs r sts) rows (aggs_init2 aggs).
Definition simple_agg2 (m : mode) (aggs : list aggf) (tys : list ltype) (cs : list chunk) : res (list row) :=
  let sts := fold_aggs m aggs (rows_of cs) in
  if existsb st_panic sts then Panic else Ok [final_row tys sts].

(** [HashAggregateOperator]: groups in first-occurrence order; the key is returned through
    [GroupKey::to_values] and a group-key vector of type Any *)
Definition group2 := (rowkey * list astate)%type.
Fixpoint gupdate {S : Type} (k : rowkey) (upd : S -> S) (init : S) (gs : list (rowkey * S)) : list (rowkey * S) :=
  match gs with
  | [] => [(k, upd init)]
  | (k', st) :: t => if rowkey_eqb k k' then (k', upd st) :: t else (k', st) :: gupdate k upd init t
  end.
Definition hash_groups2 (m : mode) (gcols : list nat) (aggs : list aggf) (rows : list row) : list group2 :=
  fold_left (fun gs r => gupdate (group_key gcols r) (aggs_update2 m aggs r) (aggs_init2 aggs) gs) rows [].
Definition group_row2 (tys : list ltype) (g : group2) : row :=
  map keypart_value (fst g) ++ final_row tys (snd g).

(** BEFORE dfd360c [ValueVector::set_null] allocated the validity bitmap with the length the vector had at
    the FIRST null and no push ever extended it: a later NULL pushed into a TYPED vector was not recorded
    and read back as the default value of the type (a vector of type Any stores the NULL itself).
    The aggregate results of one output chunk (2048 groups) go through one vector per column. *)
Definition default_of (t : ltype) : value :=
  match t with TAny => VNull | TInt => VInt 0 | TFloat => VFloat 0 | TBool => VBool false | TStr => VStr [] end.
Fixpoint lossy_rows (tys : list ltype) (cnt : Z) (seen : list bool) (rows : list row) : list row :=
  match rows with
  | [] => []
  | r :: t =>
      let seen0 := if cnt =? 2048 then map (fun _ => false) tys else seen in
      let cnt0 := if cnt =? 2048 then 0 else cnt in
      let cells := combine (combine tys seen0) r in
      let out := map (fun c : ltype * bool * value =>
                        match snd c with
                        | VNull => if snd (fst c) then default_of (fst (fst c)) else VNull
                        | v => v
                        end) cells in
      let seen' := map (fun c : ltype * bool * value => match snd c with VNull => true | _ => snd (fst c) end) cells in
      out :: lossy_rows tys (cnt0 + 1) seen' t
  end.
(** rows of the operator: key values (vectors of type Any) ++ aggregate results *)
Definition hash_agg2_rows (lossy : bool) (tys : list ltype) (gs : list group2) : list row :=
  let aggpart := map (fun g => final_row tys (snd g)) gs in
  let aggpart := if lossy then lossy_rows tys 0 (map (fun _ => false) tys) aggpart else aggpart in
  map (fun p => map keypart_value (fst (fst p)) ++ snd p) (combine gs aggpart).
Definition hash_agg2_v (lossy : bool) (m : mode) (gcols : list nat) (aggs : list aggf) (tys : list ltype)
           (cs : list chunk) : res (list row) :=
  let gs := hash_groups2 m gcols aggs (rows_of cs) in
  if existsb (fun g => existsb st_panic (snd g)) gs then Panic else Ok (hash_agg2_rows lossy tys gs).
(** before dfd360c (finding C11-K11, fixed: only the first NULL of a typed vector was recorded) / the code as it is NOW *)
Definition hash_agg2_pre := hash_agg2_v true.
Definition hash_agg2 := hash_agg2_v false.

(** the types the planner ([plan_aggregate]) gave the result vectors BEFORE 41c4655 (finding C11-K9, fixed) *)
Definition planner_type_pre (f : aggf) : ltype :=
  match f with
  | FCountStar | FCount _ | FSum _ | FMin _ | FMax _ => TInt
  | FAvg _ => TFloat
  | FFirst _ | FLast _ | FCollect _ => TAny
  end.

(** ... and gives them NOW (41c4655): SUM, MIN and MAX results go into a vector of type Any, like COLLECT *)
Definition planner_type (f : aggf) : ltype :=
  match f with
  | FCountStar | FCount _ => TInt
  | FAvg _ => TFloat
  | _ => TAny
  end.

(** * specification vocabulary *)
(** values a SUM / AVG column may hold inside the model's domain *)
Definition sum_dom (v : value) : bool :=
  match v with VFloat _ => false | VStr s => negb (numeric_like s) | _ => true end.
(** the rows of group [k] *)
Definition keyeqb (gcols : list nat) (k : rowkey) (r : row) : bool := rowkey_eqb (group_key gcols r) k.
Definition col_vals (c : nat) (rows : list row) : list value :=
  flat_map (fun r => match nth_error r c with None | Some VNull => [] | Some v => [v] end) rows.
Definition val_int (v : value) : option Z := match v with VInt i => Some i | _ => None end.
Definition all_ints (vs : list value) : bool := forallb (fun v => match v with VInt _ => true | _ => false end) vs.
Definition ints_of_vals (vs : list value) : list Z := flat_map (fun v => match v with VInt i => [i] | _ => [] end) vs.
Definition zsum (l : list Z) : Z := fold_left Z.add l 0.
(** every partial sum (from the left) stays inside [lo, hi] *)
Fixpoint partial_ok (lo hi : Z) (acc : Z) (l : list Z) : bool :=
  match l with
  | [] => true
  | x :: t => (lo <=? acc + x) && (acc + x <=? hi) && partial_ok lo hi (acc + x) t
  end.
Definition zmin_list (l : list Z) : option Z :=
  match l with [] => None | x :: t => Some (fold_left Z.min t x) end.
Definition zmax_list (l : list Z) : option Z :=
  match l with [] => None | x :: t => Some (fold_left Z.max t x) end.
