(** C11 — proofs about the clause wiring (end of Stream.v) and the refutation witnesses. *)
From GV Require Import Query.Expr Query.Stream Query.ProofsExpr Query.ProofsStream.
Open Scope Z_scope.

(** * batches *)
Lemma blocks_st_rows n : (0 < n)%nat -> forall fuel rows, (length rows < fuel)%nat ->
  rows_of (blocks_st fuel n rows) = rows.
Proof.
  intros Hn. induction fuel as [|f IH]; intros rows Hf; [lia|].
  cbn [blocks_st]. destruct rows as [|r t]; [reflexivity|].
  rewrite rows_of_cons, lrows_plain, IH.
  - apply firstn_skipn.
  - rewrite skipn_length. cbn [length] in *. lia.
Qed.
Lemma blocks_st_small n : (n <= 2048)%nat -> forall fuel rows, Forall small_chunk (blocks_st fuel n rows).
Proof.
  intros Hn. induction fuel as [|f IH]; intros rows; [constructor|].
  cbn [blocks_st]. destruct rows as [|r t]; [constructor|]. constructor; [|apply IH].
  split; [exact I|]. unfold row_count. cbn [c_sel c_rows]. rewrite firstn_length. lia.
Qed.
Lemma blocks_st_sel_free n : forall fuel rows, sel_free (blocks_st fuel n rows) = true.
Proof.
  induction fuel as [|f IH]; intros rows; [reflexivity|].
  cbn [blocks_st]. destruct rows as [|r t]; [reflexivity|]. cbn [sel_free forallb c_sel]. apply IH.
Qed.

Lemma scan_rows rows : rows_of (scan_chunks rows) = rows.
Proof. unfold scan_chunks. apply blocks_st_rows; lia. Qed.
Lemma scan_small rows : Forall small_chunk (scan_chunks rows).
Proof. unfold scan_chunks. apply blocks_st_small. lia. Qed.
Lemma scan_wf rows : Forall chunk_wf (scan_chunks rows).
Proof. eapply Forall_impl; [|apply scan_small]. intros c [H _]. exact H. Qed.
Lemma scan_sel_free rows : sel_free (scan_chunks rows) = true.
Proof. apply blocks_st_sel_free. Qed.

(** * SKIP / LIMIT windows *)
Lemma opt_skip_wf s cs : Forall chunk_wf cs -> Forall chunk_wf (opt_skip s cs).
Proof. destruct s; [apply skip_out_wf|auto]. Qed.
Lemma opt_skip_limit_rows s n cs : Forall chunk_wf cs ->
  rows_of (opt_limit n (opt_skip s cs))
  = (fun r => match n with Some k => firstn (Z.to_nat k) r | None => r end)
      (match s with Some k => skipn (Z.to_nat k) (rows_of cs) | None => rows_of cs end).
Proof.
  intros W. destruct n as [n|]; cbn [opt_limit].
  - rewrite limit_spec_l by (apply opt_skip_wf, W). destruct s; cbn [opt_skip]; [now rewrite skip_spec_l|reflexivity].
  - destruct s; cbn [opt_skip]; [now rewrite skip_spec_l|reflexivity].
Qed.

Lemma cypher_window_l ord s n rows : window_query_pre Cypher ord s n rows = window_spec ord s n rows.
Proof. unfold window_query_pre, window_spec. rewrite opt_skip_limit_rows by apply scan_wf. now rewrite scan_rows. Qed.

Lemma gql_window_unordered_l s n rows : window_query_pre Gql false s n rows = window_spec false s n rows.
Proof. unfold window_query_pre, window_spec, sort_if. rewrite opt_skip_limit_rows by apply scan_wf. now rewrite scan_rows. Qed.
Lemma gql_window_whole_l ord rows : window_query_pre Gql ord None None rows = window_spec ord None None rows.
Proof. unfold window_query_pre, window_spec. cbn [opt_skip opt_limit]. now rewrite scan_rows. Qed.

Lemma gql_window_refuted_l : exists ord s n rows,
  window_query_pre Gql ord s n rows <> window_spec ord s n rows.
Proof. exists true, None, (Some 1), [[VInt 3]; [VInt 1]; [VInt 2]]. vm_compute. discriminate. Qed.

(** * count *)
Lemma count_rows_nonnull rows : Forall (fun r => nonnull_at 0 r = true) rows ->
  length (filter (nonnull_at 0) rows) = length rows.
Proof. induction 1 as [|r t H _ IH]; [reflexivity|]. cbn [filter]. rewrite H. cbn [length]. now rewrite IH. Qed.

Lemma cypher_count_l s n rows : Forall (fun r => nonnull_at 0 r = true) rows ->
  count_query_pre Cypher s n rows = count_spec s n rows.
Proof.
  intros H. unfold count_query_pre, count_spec, window_spec, sort_if.
  assert (W : Forall chunk_wf (drain_simple_agg [AggCount 0%nat] (scan_chunks rows))).
  { unfold drain_simple_agg, fuel_of. cbn [drain_st simple_agg_next]. repeat constructor. }
  rewrite opt_skip_limit_rows by exact W. now rewrite count_col_l, scan_rows, count_rows_nonnull.
Qed.
Lemma gql_count_whole_l rows : Forall (fun r => nonnull_at 0 r = true) rows ->
  count_query_pre Gql None None rows = count_spec None None rows.
Proof.
  intros H. unfold count_query_pre, count_spec, window_spec, sort_if. cbn [opt_skip opt_limit].
  now rewrite count_col_l, scan_rows, count_rows_nonnull.
Qed.
Lemma gql_count_refuted_l : exists s n rows, Forall (fun r => nonnull_at 0 r = true) rows /\
  count_query_pre Gql s n rows <> count_spec s n rows.
Proof.
  exists None, (Some 1), [[VInt 0]; [VInt 1]; [VInt 2]]. split; [repeat constructor|].
  vm_compute. discriminate.
Qed.

(** * DISTINCT *)
Lemma with_distinct_l rows : with_distinct_query rows = dedup_from [] rows.
Proof. unfold with_distinct_query. rewrite distinct_fix_spec_l. now rewrite scan_rows. Qed.
Lemma return_distinct_ignored_l rows : return_distinct_query_pre rows = rows.
Proof. apply scan_rows. Qed.
Lemma return_distinct_refuted_l : exists rows, return_distinct_query_pre rows <> dedup_from [] rows.
Proof. exists [[VInt 1]; [VInt 1]]. vm_compute. discriminate. Qed.

(** * the wiring as it is now (ce12a2a, 36a1196) meets the specification in every language *)
Lemma window_fix_l l ord s n rows : window_query l ord s n rows = window_spec ord s n rows.
Proof. apply cypher_window_l. Qed.
Lemma count_fix_l l s n rows : Forall (fun r => nonnull_at 0 r = true) rows ->
  count_query l s n rows = count_spec s n rows.
Proof. apply cypher_count_l. Qed.
Lemma return_distinct_fix_l rows : return_distinct_query rows = dedup_from [] rows.
Proof. apply with_distinct_l. Qed.

(** * refutation witnesses for the operators *)
(** the Filter before df57ccb (C11-K1) *)
Lemma filter_pre_refuted_l : exists fa p cs, Forall chunk_wf cs /\
  rows_of (drain_filter_pre fa row_env p cs) <> filter (row_passes fa row_env p) (rows_of cs).
Proof.
  exists fa_none, (cmp_col0 Eq 2), [mkChunk [[VInt 1]; [VInt 2]] (Some [0])].
  split; [repeat constructor; cbn; lia|]. vm_compute. discriminate.
Qed.

(** two stacked filters (a pattern property map under a WHERE, a WHERE after WITH ... WHERE) *)
Lemma stacked_filter_pre_refuted_l : exists fa p1 p2 rows,
  rows_of (drain_filter_pre fa row_env p2 (drain_filter_pre fa row_env p1 (scan_chunks rows)))
  <> filter (row_passes fa row_env p2) (filter (row_passes fa row_env p1) rows).
Proof.
  exists fa_none, (cmp_col0 Eq 1), (cmp_col0 Ge 0), [[VInt 1]; [VInt 2]]. vm_compute. discriminate.
Qed.
(** ... and the same witnesses on the operator as it is now *)
Lemma filter_witness_now_l :
  rows_of (drain_filter fa_none row_env (cmp_col0 Eq 2) [mkChunk [[VInt 1]; [VInt 2]] (Some [0])]) = []
  /\ rows_of (drain_filter fa_none row_env (cmp_col0 Ge 0)
                (drain_filter fa_none row_env (cmp_col0 Eq 1) (scan_chunks [[VInt 1]; [VInt 2]]))) = [[VInt 1]].
Proof. split; reflexivity. Qed.
Lemma stacked_filter_l fa envf p1 p2 cs :
  rows_of (drain_filter fa envf p2 (drain_filter fa envf p1 cs))
  = filter (row_passes fa envf p2) (filter (row_passes fa envf p1) (rows_of cs)).
Proof. now rewrite !filter_spec_l. Qed.

Lemma distinct_overflow_refuted_l : exists cs, Forall chunk_wf cs /\
  rows_of (drain_distinct_pre cs) <> dedup_from [] (rows_of cs).
Proof.
  exists [mkChunk (int_rows 2049) None]. split; [repeat constructor|].
  intros H. apply (f_equal (@length row)) in H. vm_compute in H. discriminate H.
Qed.

Lemma row_key_collision_refuted_l : exists r1 r2, r1 <> r2 /\ row_key r1 = row_key r2.
Proof. exists [VInt 4607182418800017408], [VFloat 4607182418800017408]. split; [discriminate|reflexivity]. Qed.
Lemma row_key_collision_list_refuted_l : exists r1 r2, r1 <> r2 /\ row_key r1 = row_key r2.
Proof.
  exists [VList [VInt 1]], [VStr (dbg_value (VList [VInt 1]))]. split; [discriminate|reflexivity].
Qed.

(** a Float64 group key is returned as the Int64 of its bit pattern *)
Lemma group_key_float_refuted_l : exists r, group_row (group_key [0%nat] r, [1]) <> r ++ [VInt 1].
Proof. exists [VFloat 4607182418800017408]. vm_compute. discriminate. Qed.
Lemma group_key_scalar_l v : key_scalar v = true -> keypart_value (key_of v) = v.
Proof. destruct v; cbn; try discriminate; reflexivity. Qed.

(** * the three-way split of a stream *)
From Coq Require Import Permutation.
Lemma partition3_stream_l fa envf p cs : bpred p = true ->
  Permutation (rows_of cs)
    (rows_of (drain_filter fa envf p cs) ++ rows_of (drain_filter fa envf (EUn Not p) cs)
     ++ rows_of (drain_filter fa envf (EUn IsNull p) cs)).
Proof.
  intros B. rewrite !filter_spec_l. apply filter3_perm.
  intros r. unfold row_passes. now apply partition3_l.
Qed.

(** the range-scan path of [plan_filter] is not the filter (Int64 property against a Float64 bound) *)
Lemma range_path_refuted_l : exists tab rows p, bpred p = true /\
  rows_of (where_chunks fa_none tab p rows) <> filter (row_passes fa_none (tab_env tab) p) rows.
Proof.
  exists [[Some (VInt 5)]], [[VInt 0]], (EBin Gt (EVar 0) (ELit (VFloat 4609434218613702656))).
  split; [reflexivity|]. vm_compute. discriminate.
Qed.
Lemma where_no_range_l fa tab p rows : range_pred p = None ->
  rows_of (where_chunks fa tab p rows) = filter (row_passes fa (tab_env tab) p) rows.
Proof.
  intros H. unfold where_chunks. rewrite H. rewrite filter_spec_l. now rewrite scan_rows.
Qed.

(** * clauses in order: WHERE, DISTINCT, SKIP, LIMIT stacked on one input *)
Lemma clauses_in_order_l fa envf p s n cs :
  rows_of (drain_limit n (drain_skip s (drain_distinct (drain_filter fa envf p cs))))
  = firstn (Z.to_nat n) (skipn (Z.to_nat s) (dedup_from [] (filter (row_passes fa envf p) (rows_of cs)))).
Proof.
  rewrite skip_limit_spec_l by apply distinct_out_wf_l.
  now rewrite distinct_fix_spec_l, filter_spec_l.
Qed.
