(** C09 — the logical plan algebra that the optimizer rewrites (model; no proofs here).

    The core of [grafeo_engine::query::plan::{LogicalOperator, LogicalExpression}] with the
    semantics the *engine* gives it (planner.rs [plan_*] + the physical operators), transcribed
    from the code that exists:

      - rows are association lists  column name -> value  (first match wins; the planner's
        [HashMap] of column names lets the *last* duplicate win — the two agree when column names
        are distinct, which the harness guarantees for the cases whose rows it compares),
      - [sem G p : list row] is compositional and deterministic (scan order = order of [g_nodes],
        nested loops left-outer / right-inner), so "bag, ordered below Sort" is a plain list here;
        comparisons with the engine are made modulo permutation except under ORDER BY,
      - [PReturn] with [distinct] removes duplicate projected rows ([Planner::plan_return] puts a
        [DistinctOperator] on the projection since 36a1196; before, the flag was ignored),
      - a join condition is *used* only when it is  Variable = Variable  with the left variable a
        column of the left input and the right one a column of the right input; every other
        condition is silently dropped ([plan_join]: [filter_map(.. expression_to_column ..ok()?)]),
      - [NodeScan] with an [input] is the nested loop  input x scan  ([plan_node_scan]).

    Everything the optimizer does not look into (aggregation, sort, distinct, left join) only has to
    be a function of the sub-plans' rows for the C09 theorems; it is modelled as far as the check
    compares it with the engine (the check says which plans that is). *)
From Coq Require Import ZArith List Bool String Permutation.
Import ListNotations.
Open Scope Z_scope.

Definition var := string.

Inductive val :=
| VNull
| VBool (b : bool)
| VInt (z : Z)
| VStr (s : string)
| VNode (id : Z)
| VEdge (id : Z).

Definition val_eqb (a b : val) : bool :=
  match a, b with
  | VNull, VNull => true
  | VBool x, VBool y => Bool.eqb x y
  | VInt x, VInt y => x =? y
  | VStr x, VStr y => String.eqb x y
  | VNode x, VNode y => x =? y
  | VEdge x, VEdge y => x =? y
  | _, _ => false
  end.

Definition row := list (var * val).

Fixpoint lookup (x : var) (r : row) : option val :=
  match r with
  | [] => None
  | (k, v) :: r' => if String.eqb k x then Some v else lookup x r'
  end.

Definition keys (r : row) : list var := map fst r.

Fixpoint mem (x : var) (l : list var) : bool :=
  match l with
  | [] => false
  | y :: l' => String.eqb y x || mem x l'
  end.

(** ** Graphs *)
Record node := mkNode { n_id : Z; n_labels : list string; n_props : list (string * val) }.
Record edge := mkEdge { e_id : Z; e_src : Z; e_dst : Z; e_type : string; e_props : list (string * val) }.
Record graph := mkGraph { g_nodes : list node; g_edges : list edge }.

Definition find_node (G : graph) (id : Z) : option node := find (fun n => n_id n =? id) (g_nodes G).
Definition find_edge (G : graph) (id : Z) : option edge := find (fun e => e_id e =? id) (g_edges G).

Definition has_label (n : node) (l : string) : bool := mem l (n_labels n).

Definition scan_nodes (G : graph) (l : option string) : list Z :=
  map n_id (filter (fun n => match l with None => true | Some l => has_label n l end) (g_nodes G)).

(** ** Expressions *)
Inductive binop := OEq | ONe | OLt | OLe | OGt | OGe | OAnd | OOr | OAdd | OSub | OMul.
Inductive unop := UNot | UIsNull | UIsNotNull | UNeg.

Inductive expr :=
| ELit (v : val)
| EVar (x : var)
| EProp (x : var) (p : string)
| EBin (o : binop) (a b : expr)
| EUn (o : unop) (a : expr)
| EHasLabel (x : var) (l : string)    (* FunctionCall "hasLabel" [Variable x; Literal (String l)] *)
| EOpaque (tag : string) (vars : list var).
   (* any other expression (function call, CASE, list, ...): what the rewrites can see of it — the
      variables it mentions — and a tag that tells two such expressions apart; its value is not modelled *)

Definition binop_eqb (a b : binop) : bool :=
  match a, b with
  | OEq, OEq | ONe, ONe | OLt, OLt | OLe, OLe | OGt, OGt | OGe, OGe
  | OAnd, OAnd | OOr, OOr | OAdd, OAdd | OSub, OSub | OMul, OMul => true
  | _, _ => false
  end.
Definition unop_eqb (a b : unop) : bool :=
  match a, b with
  | UNot, UNot | UIsNull, UIsNull | UIsNotNull, UIsNotNull | UNeg, UNeg => true
  | _, _ => false
  end.

Fixpoint strs_eqb (a b : list string) : bool :=
  match a, b with
  | [], [] => true
  | x :: a', y :: b' => String.eqb x y && strs_eqb a' b'
  | _, _ => false
  end.

Fixpoint expr_eqb (a b : expr) : bool :=
  match a, b with
  | ELit x, ELit y => val_eqb x y
  | EVar x, EVar y => String.eqb x y
  | EProp x p, EProp y q => String.eqb x y && String.eqb p q
  | EBin o a1 a2, EBin o' b1 b2 => binop_eqb o o' && expr_eqb a1 b1 && expr_eqb a2 b2
  | EUn o a1, EUn o' b1 => unop_eqb o o' && expr_eqb a1 b1
  | EHasLabel x l, EHasLabel y m => String.eqb x y && String.eqb l m
  | EOpaque t vs, EOpaque t' vs' => String.eqb t t' && strs_eqb vs vs'
  | _, _ => false
  end.

(** [ExpressionPredicate::eval_expr]: [None] is "no value" (unknown column, missing property, type
    mismatch, overflow); a node/edge column read as a *value* is its id ([ValueVector::get_value]). *)
Definition as_bool (v : val) : option bool := match v with VBool b => Some b | _ => None end.

Definition values_equal (a b : val) : bool :=
  match a, b with
  | VNull, VNull => true
  | VBool x, VBool y => Bool.eqb x y
  | VInt x, VInt y => x =? y
  | VStr x, VStr y => String.eqb x y
  | _, _ => false
  end.

(* byte-wise comparison of strings, as [str::cmp] *)
Fixpoint str_cmp (a b : string) : comparison :=
  match a, b with
  | EmptyString, EmptyString => Eq
  | EmptyString, _ => Lt
  | _, EmptyString => Gt
  | String c a', String d b' =>
      match N.compare (Ascii.N_of_ascii c) (Ascii.N_of_ascii d) with
      | Eq => str_cmp a' b'
      | o => o
      end
  end.

Definition compare_values (a b : val) : option comparison :=
  match a, b with
  | VInt x, VInt y => Some (x ?= y)
  | VStr x, VStr y => Some (str_cmp x y)
  | _, _ => None
  end.

Definition in_i64 (z : Z) : bool := (-9223372036854775808 <=? z) && (z <=? 9223372036854775807).
Definition chk_int (z : Z) : option val := if in_i64 z then Some (VInt z) else None.

Definition eval_binop (o : binop) (a b : val) : option val :=
  match o with
  | OAnd => match as_bool a, as_bool b with Some x, Some y => Some (VBool (x && y)) | _, _ => None end
  | OOr => match as_bool a, as_bool b with Some x, Some y => Some (VBool (x || y)) | _, _ => None end
  | OEq => Some (VBool (values_equal a b))
  | ONe => Some (VBool (negb (values_equal a b)))
  | OLt => option_map (fun c => VBool (match c with Lt => true | _ => false end)) (compare_values a b)
  | OLe => option_map (fun c => VBool (match c with Gt => false | _ => true end)) (compare_values a b)
  | OGt => option_map (fun c => VBool (match c with Gt => true | _ => false end)) (compare_values a b)
  | OGe => option_map (fun c => VBool (match c with Lt => false | _ => true end)) (compare_values a b)
  | OAdd => match a, b with VInt x, VInt y => chk_int (x + y) | _, _ => None end
  | OSub => match a, b with VInt x, VInt y => chk_int (x - y) | _, _ => None end
  | OMul => match a, b with VInt x, VInt y => chk_int (x * y) | _, _ => None end
  end.

Definition eval_unop (o : unop) (a : option val) : option val :=
  match o with
  | UNot => match a with Some v => option_map (fun b => VBool (negb b)) (as_bool v) | None => None end
  | UIsNull => Some (VBool (match a with None | Some VNull => true | _ => false end))
  | UIsNotNull => Some (VBool (match a with None | Some VNull => false | _ => true end))
  | UNeg => match a with Some (VInt x) => chk_int (- x) | _ => None end
  end.

Definition as_value (v : val) : val :=
  match v with VNode id | VEdge id => VInt id | _ => v end.

Definition entity_prop (G : graph) (v : val) (p : string) : option val :=
  match v with
  | VNode id => match find_node G id with Some n => lookup p (n_props n) | None => None end
  | VEdge id => match find_edge G id with Some e => lookup p (e_props e) | None => None end
  | _ => None
  end.

Fixpoint eval (G : graph) (e : expr) (r : row) : option val :=
  match e with
  | ELit v => Some v
  | EVar x => option_map as_value (lookup x r)
  | EProp x p => match lookup x r with Some v => entity_prop G v p | None => None end
  | EBin o a b =>
      match eval G a r, eval G b r with
      | Some x, Some y => eval_binop o x y
      | _, _ => None
      end
  | EUn o a => eval_unop o (eval G a r)
  | EHasLabel x l =>
      match lookup x r with
      | Some (VNode id) => match find_node G id with Some n => Some (VBool (has_label n l)) | None => None end
      | _ => None
      end
  | EOpaque _ _ => None
  end.

(** [Predicate::evaluate]: a row passes iff the value is [Bool(true)]. *)
Definition passes (G : graph) (e : expr) (r : row) : bool :=
  match eval G e r with Some (VBool true) => true | _ => false end.

(** ** Plans *)
Inductive dir := DOut | DIn | DBoth.
(** [JoinType]: only these three are modelled ([JLeft] because the optimizer treats it like the
    others; Right/Full/Semi/Anti make a case "unmodelled"). *)
Inductive jkind := JInner | JCross | JLeft.
Inductive aggfn := ACountStar | ACountNonNull (e : expr).

Definition item := (expr * option var)%type.

(** [ExpandOp]'s hop range and path alias.  Single hop ([hop1]: min = 1, max = Some 1) is planned as
    [ExpandOperator]; anything else as [VariableLengthExpandOperator] with max = "min + 10" when the
    query gives none ([Planner::plan_expand]). *)
Record hops := mkHops { h_min : nat; h_max : option nat; h_path : option var }.
Definition hop1 : hops := mkHops 1 (Some 1%nat) None.
Definition is_single (h : hops) : bool :=
  Nat.eqb (h_min h) 1 && (match h_max h with Some 1%nat => true | _ => false end).

Inductive plan :=
| PEmpty
| PScan (x : var) (label : option string)                       (* NodeScan, input = None *)
| PScanIn (x : var) (label : option string) (inp : plan)        (* NodeScan, input = Some *)
| PExpand (from to : var) (ev : option var) (d : dir) (ty : option string) (h : hops) (inp : plan)
| PFilter (pred : expr) (inp : plan)
| PProject (items : list item) (inp : plan)
| PReturn (items : list item) (distinct : bool) (inp : plan)
| PJoin (k : jkind) (conds : list (expr * expr)) (l r : plan)
| PLeftJoin (l r : plan)                                        (* LeftJoinOp, condition = None *)
| PAgg (groups : list expr) (aggs : list (aggfn * option var)) (inp : plan)   (* having = None *)
| PSort (keys : list (expr * bool)) (inp : plan)                (* bool: descending *)
| PSkip (n : nat) (inp : plan)
| PLimit (n : nat) (inp : plan)
| PDistinct (inp : plan)
| PUnion (a b : plan).

(** [expression_to_string] (planner.rs): the name of an unaliased output column. *)
Definition expr_name (e : expr) : var :=
  match e with
  | EVar x => x
  | EProp x p => (x ++ "." ++ p)%string
  | ELit _ => "lit"%string
  | EHasLabel _ _ => "hasLabel(...)"%string
  | _ => "expr"%string
  end.

Definition item_name (it : item) : var :=
  match snd it with Some a => a | None => expr_name (fst it) end.

Definition agg_name (a : aggfn * option var) : var :=
  match snd a with
  | Some x => x
  | None => match fst a with ACountStar => "count(...)"%string | ACountNonNull _ => "countnonnull(...)"%string end
  end.

(** the columns an Expand appends: edge (when named), target, path length (when the pattern has a
    path alias [p], as the hidden column [_path_length_p]) *)
Definition plen_name (p : var) : var := ("_path_length_" ++ p)%string.
Definition xnames (t : var) (ev : option var) (h : hops) : list var :=
  (match ev with Some e => [e] | None => [] end) ++ [t]
  ++ (match h_path h with Some p => [plen_name p] | None => [] end).

(** the column names the planner computes for an operator *)
Fixpoint schema (p : plan) : list var :=
  match p with
  | PEmpty => []
  | PScan x _ => [x]
  | PScanIn x _ inp => schema inp ++ [x]
  | PExpand _ t ev _ _ h inp => schema inp ++ xnames t ev h
  | PFilter _ inp => schema inp
  | PProject items _ => map item_name items
  | PReturn items _ _ => map item_name items
  | PJoin _ _ l r => schema l ++ schema r
  | PLeftJoin l r => schema l ++ schema r
  | PAgg groups aggs _ => map expr_name groups ++ map agg_name aggs
  | PSort _ inp => schema inp
  | PSkip _ inp => schema inp
  | PLimit _ inp => schema inp
  | PDistinct inp => schema inp
  | PUnion a _ => schema a
  end.

(** *** Operators on row lists *)
Definition edge_matches (ty : option string) (e : edge) : bool :=
  match ty with None => true | Some t => String.eqb (e_type e) t end.

(** the (edge, neighbour) pairs of a node: outgoing list, then incoming list *)
Definition neighbours (G : graph) (s : Z) (d : dir) (ty : option string) : list (Z * Z) :=
  let outs := map (fun e => (e_id e, e_dst e))
                  (filter (fun e => (e_src e =? s) && edge_matches ty e) (g_edges G)) in
  let ins := map (fun e => (e_id e, e_src e))
                 (filter (fun e => (e_dst e =? s) && edge_matches ty e) (g_edges G)) in
  match d with DOut => outs | DIn => ins | DBoth => outs ++ ins end.

(** [VariableLengthExpandOperator::process_input_row]: breadth first from the source, every walk
    (edges and nodes may repeat) of depth 1 .. max, reported when min <= depth; the queue is FIFO, so
    the output is level by level, within a level in the order of the parents.  Reported: the *last*
    edge of the walk, its end node, the depth. *)
Fixpoint vl_levels (G : graph) (d : dir) (ty : option string) (fuel depth mn mx : nat) (cur : list (Z * Z))
  : list (Z * Z * nat) :=
  match fuel with
  | O => []
  | S fuel' =>
      (if Nat.leb mn depth && Nat.leb depth mx then map (fun et => (fst et, snd et, depth)) cur else [])
      ++ (if Nat.ltb depth mx
          then vl_levels G d ty fuel' (S depth) mn mx (flat_map (fun et => neighbours G (snd et) d ty) cur)
          else [])
  end.

Definition hop_max (h : hops) : nat :=
  Nat.max (match h_max h with Some m => m | None => h_min h + 10 end) (h_min h).

(** (edge, end node, depth) of everything one source node expands to *)
Definition reach_from (G : graph) (s : Z) (d : dir) (ty : option string) (h : hops) : list (Z * Z * nat) :=
  if is_single h then map (fun et => (fst et, snd et, 1%nat)) (neighbours G s d ty)
  else vl_levels G d ty (hop_max h) 1 (h_min h) (hop_max h) (neighbours G s d ty).

Definition xcols (t : var) (ev : option var) (h : hops) (x : Z * Z * nat) : row :=
  (match ev with Some e => [(e, VEdge (fst (fst x)))] | None => [] end) ++ [(t, VNode (snd (fst x)))]
  ++ (match h_path h with Some p => [(plen_name p, VInt (Z.of_nat (snd x)))] | None => [] end).

Definition expand_row (G : graph) (f t : var) (ev : option var) (d : dir) (ty : option string) (h : hops) (r : row)
  : list row :=
  match lookup f r with
  | Some (VNode s) => map (fun x => r ++ xcols t ev h x) (reach_from G s d ty h)
  | _ => []
  end.

(** a projected cell: node/edge columns are passed through as such ([ProjectExpr::Column]); any
    other expression is evaluated, "no value" becomes NULL *)
Definition proj_cell (G : graph) (e : expr) (r : row) : val :=
  match e with
  | EVar x => match lookup x r with Some v => v | None => VNull end
  | _ => match eval G e r with Some v => v | None => VNull end
  end.

Definition project_row (G : graph) (items : list item) (r : row) : row :=
  map (fun it => (item_name it, proj_cell G (fst it) r)) items.

(** [plan_join]: is the condition turned into a pair of key columns? *)
Definition cond_used (ls rs : list var) (c : expr * expr) : bool :=
  match c with
  | (EVar x, EVar y) => mem x ls && mem y rs
  | _ => false
  end.

Definition key_eq (a b : option val) : bool :=
  match a, b with
  | Some x, Some y => val_eqb x y && negb (val_eqb x VNull)
  | _, _ => false
  end.

Definition cond_holds (ls rs : list var) (a b : row) (c : expr * expr) : bool :=
  match c with
  | (EVar x, EVar y) => if mem x ls && mem y rs then key_eq (lookup x a) (lookup y b) else true
  | _ => true
  end.

Definition null_row (cols : list var) : row := map (fun c => (c, VNull)) cols.

Definition join_rows (k : jkind) (ls rs : list var) (conds : list (expr * expr)) (L R : list row) : list row :=
  flat_map (fun a =>
    let ms := filter (fun b => forallb (cond_holds ls rs a b) conds) R in
    match k, ms with
    | JLeft, [] => [a ++ null_row rs]
    | _, _ => map (fun b => a ++ b) ms
    end) L.

(** [plan_left_join]: keys = the columns the two sides share *)
Definition shared_eq (ls rs : list var) (a b : row) : bool :=
  forallb (fun c => if mem c ls then key_eq (lookup c a) (lookup c b) else true) rs.

Definition left_join_rows (ls rs : list var) (L R : list row) : list row :=
  flat_map (fun a =>
    match filter (shared_eq ls rs a) R with
    | [] => [a ++ null_row rs]
    | ms => map (fun b => a ++ b) ms
    end) L.

Fixpoint row_eqb (a b : row) : bool :=
  match a, b with
  | [], [] => true
  | (k, v) :: a', (k', v') :: b' => String.eqb k k' && val_eqb v v' && row_eqb a' b'
  | _, _ => false
  end.

Fixpoint dedup (seen rs : list row) : list row :=
  match rs with
  | [] => []
  | r :: rs' => if existsb (row_eqb r) seen then dedup seen rs' else r :: dedup (r :: seen) rs'
  end.

(** aggregation: one row per distinct key (first-occurrence order), counts per group;
    no GROUP BY => exactly one row *)
Definition agg_value (G : graph) (a : aggfn) (rs : list row) : val :=
  match a with
  | ACountStar => VInt (Z.of_nat (List.length rs))
  | ACountNonNull e =>
      VInt (Z.of_nat (List.length (filter (fun r => match proj_cell G e r with VNull => false | _ => true end) rs)))
  end.

Definition group_key (G : graph) (groups : list expr) (r : row) : row :=
  map (fun e => (expr_name e, as_value (proj_cell G e r))) groups.

Definition agg_rows (G : graph) (groups : list expr) (aggs : list (aggfn * option var)) (rs : list row) : list row :=
  match groups with
  | [] => [map (fun a => (agg_name a, agg_value G (fst a) rs)) aggs]
  | _ =>
      map (fun k => k ++ map (fun a => (agg_name a,
                                        agg_value G (fst a) (filter (fun r => row_eqb (group_key G groups r) k) rs))) aggs)
          (dedup [] (map (group_key G groups) rs))
  end.

(** sorting: stable insertion sort; NULLs last in either direction ([NullOrder::NullsLast]) *)
Definition key_le (desc : bool) (a b : val) : bool :=   (* a may stay in front of b *)
  match a, b with
  | VNull, VNull => true
  | VNull, _ => false
  | _, VNull => true
  | _, _ =>
      match compare_values (as_value a) (as_value b) with
      | Some Lt => negb desc
      | Some Gt => desc
      | _ => true
      end
  end.
Definition key_eq_sort (a b : val) : bool := key_le false a b && key_le false b a.

Fixpoint rows_le (G : graph) (ks : list (expr * bool)) (a b : row) : bool :=
  match ks with
  | [] => true
  | (e, desc) :: ks' =>
      let x := proj_cell G e a in let y := proj_cell G e b in
      if key_eq_sort x y then rows_le G ks' a b else key_le desc x y
  end.

Fixpoint insert_sorted (le : row -> row -> bool) (r : row) (l : list row) : list row :=
  match l with
  | [] => [r]
  | x :: l' => if le x r then x :: insert_sorted le r l' else r :: l
  end.
Definition sort_rows (le : row -> row -> bool) (l : list row) : list row :=
  fold_left (fun acc r => insert_sorted le r acc) l [].

(** RETURN [DISTINCT] *)
Definition return_rows (distinct : bool) (rs : list row) : list row := if distinct then dedup [] rs else rs.

(** ** The semantics *)
Fixpoint sem (G : graph) (p : plan) : list row :=
  match p with
  | PEmpty => []
  | PScan x l => map (fun n => [(x, VNode n)]) (scan_nodes G l)
  | PScanIn x l inp => flat_map (fun r => map (fun n => r ++ [(x, VNode n)]) (scan_nodes G l)) (sem G inp)
  | PExpand f t ev d ty h inp => flat_map (expand_row G f t ev d ty h) (sem G inp)
  | PFilter e inp => filter (passes G e) (sem G inp)
  | PProject items inp => map (project_row G items) (sem G inp)
  | PReturn items d inp => return_rows d (map (project_row G items) (sem G inp))
  | PJoin k conds l r => join_rows k (schema l) (schema r) conds (sem G l) (sem G r)
  | PLeftJoin l r => left_join_rows (schema l) (schema r) (sem G l) (sem G r)
  | PAgg groups aggs inp => agg_rows G groups aggs (sem G inp)
  | PSort ks inp => sort_rows (rows_le G ks) (sem G inp)
  | PSkip n inp => skipn n (sem G inp)
  | PLimit n inp => firstn n (sem G inp)
  | PDistinct inp => dedup [] (sem G inp)
  | PUnion a b => sem G a ++ sem G b
  end.

(** ** The engine as it is: selection vectors under stacked filters
    [FilterOperator::next] (grafeo-core execution/operators/filter.rs) does not copy rows: it
    evaluates its predicate on the rows of the chunk it gets that are still *selected* and narrows
    the chunk's selection vector ([SelectionVector::filter] on the existing selection, df57ccb); a
    chunk whose selection becomes empty is dropped.  [semq] returns (visible rows, physical rows of
    the chunk) for results that fit one 2048-row chunk; every other operator flattens.  [sem_e] is
    what the check compares the engine's rows with; it is [sem] for every plan
    ([sem_e_sem], ProofsOptTop). *)
Fixpoint semq (G : graph) (p : plan) : list row * list row :=
  let same (l : list row) := (l, l) in
  match p with
  | PEmpty => same []
  | PScan x l => same (map (fun n => [(x, VNode n)]) (scan_nodes G l))
  | PScanIn x l inp =>
      same (flat_map (fun r => map (fun n => r ++ [(x, VNode n)]) (scan_nodes G l)) (fst (semq G inp)))
  | PExpand f t ev d ty h inp => same (flat_map (expand_row G f t ev d ty h) (fst (semq G inp)))
  | PFilter e inp =>
      let '(vis, ph) := semq G inp in
      match filter (passes G e) vis with
      | [] => ([], [])
      | vis' => (vis', ph)
      end
  | PProject items inp => same (map (project_row G items) (fst (semq G inp)))
  | PReturn items d inp => same (return_rows d (map (project_row G items) (fst (semq G inp))))
  | PJoin k conds l r => same (join_rows k (schema l) (schema r) conds (fst (semq G l)) (fst (semq G r)))
  | PLeftJoin l r => same (left_join_rows (schema l) (schema r) (fst (semq G l)) (fst (semq G r)))
  | PAgg groups aggs inp => same (agg_rows G groups aggs (fst (semq G inp)))
  | PSort ks inp => same (sort_rows (rows_le G ks) (fst (semq G inp)))
  | PSkip n inp => same (skipn n (fst (semq G inp)))
  | PLimit n inp => same (firstn n (fst (semq G inp)))
  | PDistinct inp => same (dedup [] (fst (semq G inp)))
  | PUnion a b => same (fst (semq G a) ++ fst (semq G b))
  end.

Definition sem_e (G : graph) (p : plan) : list row := fst (semq G p).

(** *** before df57ccb (finding C09-K3 = C11-K1, repaired)
    [FilterOperator::next] evaluated its predicate on *every* physical row of the chunk
    ([total_row_count]) and *replaced* the selection vector.  So with a Filter directly on a Filter
    the inner predicate only decided whether the chunk survived.  [sem_e_pre] is [sem] wherever no
    Filter sits directly on a Filter ([no_stack]); push-down creates and removes such stacks. *)
Fixpoint semq_pre (G : graph) (p : plan) : list row * list row :=
  let same (l : list row) := (l, l) in
  match p with
  | PEmpty => same []
  | PScan x l => same (map (fun n => [(x, VNode n)]) (scan_nodes G l))
  | PScanIn x l inp =>
      same (flat_map (fun r => map (fun n => r ++ [(x, VNode n)]) (scan_nodes G l)) (fst (semq_pre G inp)))
  | PExpand f t ev d ty h inp => same (flat_map (expand_row G f t ev d ty h) (fst (semq_pre G inp)))
  | PFilter e inp =>
      let '(vis, ph) := semq_pre G inp in
      match vis with
      | [] => ([], [])
      | _ => (filter (passes G e) ph, ph)
      end
  | PProject items inp => same (map (project_row G items) (fst (semq_pre G inp)))
  | PReturn items d inp => same (return_rows d (map (project_row G items) (fst (semq_pre G inp))))
  | PJoin k conds l r => same (join_rows k (schema l) (schema r) conds (fst (semq_pre G l)) (fst (semq_pre G r)))
  | PLeftJoin l r => same (left_join_rows (schema l) (schema r) (fst (semq_pre G l)) (fst (semq_pre G r)))
  | PAgg groups aggs inp => same (agg_rows G groups aggs (fst (semq_pre G inp)))
  | PSort ks inp => same (sort_rows (rows_le G ks) (fst (semq_pre G inp)))
  | PSkip n inp => same (skipn n (fst (semq_pre G inp)))
  | PLimit n inp => same (firstn n (fst (semq_pre G inp)))
  | PDistinct inp => same (dedup [] (fst (semq_pre G inp)))
  | PUnion a b => same (fst (semq_pre G a) ++ fst (semq_pre G b))
  end.

Definition sem_e_pre (G : graph) (p : plan) : list row := fst (semq_pre G p).

Definition is_filter (p : plan) : bool := match p with PFilter _ _ => true | _ => false end.

(** no Filter directly on a Filter, anywhere *)
Fixpoint no_stack (p : plan) : bool :=
  match p with
  | PFilter _ inp => negb (is_filter inp) && no_stack inp
  | PScanIn _ _ i | PExpand _ _ _ _ _ _ i | PProject _ i | PReturn _ _ i | PAgg _ _ i
  | PSort _ i | PSkip _ i | PLimit _ i | PDistinct i => no_stack i
  | PJoin _ _ l r | PLeftJoin l r | PUnion l r => no_stack l && no_stack r
  | PEmpty | PScan _ _ => true
  end.

(** the (outer, inner) predicate pairs of directly stacked filters *)
Fixpoint stack_sig (p : plan) : list (expr * expr) :=
  match p with
  | PFilter e inp => (match inp with PFilter q _ => [(e, q)] | _ => [] end) ++ stack_sig inp
  | PScanIn _ _ i | PExpand _ _ _ _ _ _ i | PProject _ i | PReturn _ _ i | PAgg _ _ i
  | PSort _ i | PSkip _ i | PLimit _ i | PDistinct i => stack_sig i
  | PJoin _ _ l r | PLeftJoin l r | PUnion l r => stack_sig l ++ stack_sig r
  | PEmpty | PScan _ _ => []
  end.

(** ** Bags of rows up to the order of columns *)
(** two rows are the same binding when every column reads the same in both *)
Definition row_equiv (a b : row) : Prop := forall x, lookup x a = lookup x b.

(** an observation of a row that only depends on what its columns read *)
Definition respects {T : Type} (f : row -> T) : Prop := forall a b, row_equiv a b -> f a = f b.

(** bag equality up to column order: no observation can tell the two bags apart *)
Definition bag_eqv (l1 l2 : list row) : Prop :=
  forall (T : Type) (f : row -> T), respects f -> Permutation (map f l1) (map f l2).

(** the product of row lists (what a join without usable condition computes) *)
Definition cross (A B : list row) : list row := flat_map (fun a => map (fun b => a ++ b) B) A.

Fixpoint cross_all (Ls : list (list row)) : list row :=
  match Ls with
  | [] => [[]]
  | A :: Ls' => cross A (cross_all Ls')
  end.

(** ** Structural equality of plans (used to compare dumps of the implementation's plans) *)
Definition ostr_eqb (a b : option string) : bool :=
  match a, b with
  | None, None => true
  | Some x, Some y => String.eqb x y
  | _, _ => false
  end.
Definition dir_eqb (a b : dir) : bool :=
  match a, b with DOut, DOut | DIn, DIn | DBoth, DBoth => true | _, _ => false end.
Definition onat_eqb (a b : option nat) : bool :=
  match a, b with None, None => true | Some x, Some y => Nat.eqb x y | _, _ => false end.
Definition hops_eqb (a b : hops) : bool :=
  Nat.eqb (h_min a) (h_min b) && onat_eqb (h_max a) (h_max b) && ostr_eqb (h_path a) (h_path b).
Definition jkind_eqb (a b : jkind) : bool :=
  match a, b with JInner, JInner | JCross, JCross | JLeft, JLeft => true | _, _ => false end.
Definition item_eqb (a b : item) : bool := expr_eqb (fst a) (fst b) && ostr_eqb (snd a) (snd b).
Definition aggfn_eqb (a b : aggfn) : bool :=
  match a, b with
  | ACountStar, ACountStar => true
  | ACountNonNull x, ACountNonNull y => expr_eqb x y
  | _, _ => false
  end.

Fixpoint list_eqb {A} (eqb : A -> A -> bool) (a b : list A) : bool :=
  match a, b with
  | [], [] => true
  | x :: a', y :: b' => eqb x y && list_eqb eqb a' b'
  | _, _ => false
  end.

Definition cond_eqb (a b : expr * expr) : bool := expr_eqb (fst a) (fst b) && expr_eqb (snd a) (snd b).
Definition skey_eqb (a b : expr * bool) : bool := expr_eqb (fst a) (fst b) && Bool.eqb (snd a) (snd b).
Definition agg_eqb (a b : aggfn * option var) : bool := aggfn_eqb (fst a) (fst b) && ostr_eqb (snd a) (snd b).

Fixpoint plan_eqb (a b : plan) : bool :=
  match a, b with
  | PEmpty, PEmpty => true
  | PScan x l, PScan y m => String.eqb x y && ostr_eqb l m
  | PScanIn x l i, PScanIn y m j => String.eqb x y && ostr_eqb l m && plan_eqb i j
  | PExpand f t ev d ty h i, PExpand f' t' ev' d' ty' h' j =>
      String.eqb f f' && String.eqb t t' && ostr_eqb ev ev' && dir_eqb d d' && ostr_eqb ty ty' && hops_eqb h h'
      && plan_eqb i j
  | PFilter e i, PFilter e' j => expr_eqb e e' && plan_eqb i j
  | PProject its i, PProject its' j => list_eqb item_eqb its its' && plan_eqb i j
  | PReturn its d i, PReturn its' d' j => list_eqb item_eqb its its' && Bool.eqb d d' && plan_eqb i j
  | PJoin k cs l r, PJoin k' cs' l' r' =>
      jkind_eqb k k' && list_eqb cond_eqb cs cs' && plan_eqb l l' && plan_eqb r r'
  | PLeftJoin l r, PLeftJoin l' r' => plan_eqb l l' && plan_eqb r r'
  | PAgg gs ags i, PAgg gs' ags' j => list_eqb expr_eqb gs gs' && list_eqb agg_eqb ags ags' && plan_eqb i j
  | PSort ks i, PSort ks' j => list_eqb skey_eqb ks ks' && plan_eqb i j
  | PSkip n i, PSkip m j => Nat.eqb n m && plan_eqb i j
  | PLimit n i, PLimit m j => Nat.eqb n m && plan_eqb i j
  | PDistinct i, PDistinct j => plan_eqb i j
  | PUnion a1 a2, PUnion b1 b2 => plan_eqb a1 b1 && plan_eqb a2 b2
  | _, _ => false
  end.
