(** C11 — proofs about Layer 1 (Expr.v): the three-way split of a predicate. *)
From GV Require Import Query.Expr.
Open Scope Z_scope.

Section P.
  Variable fa : binop -> Z -> Z -> Z.

  Definition boolish (o : option value) : Prop :=
    match o with None | Some VNull | Some (VBool _) => True | _ => False end.

  Lemma bool2_boolish f l r : boolish (bool2 f l r).
  Proof. unfold bool2. destruct (as_bool l); [destruct (as_bool r)|]; exact I. Qed.
  Lemma str2_boolish f l r : boolish (str2 f l r).
  Proof. unfold str2. destruct (as_str l); [destruct (as_str r)|]; exact I. Qed.
  Lemma cmp2_boolish f l r : boolish (cmp2 f l r).
  Proof. unfold cmp2. destruct (compare_values l r); exact I. Qed.

  Lemma eval_binop_boolish op l r : bool_binop op = true -> boolish (eval_binop fa op l r).
  Proof.
    destruct op; cbn [bool_binop eval_binop]; intros H; try discriminate H;
      auto using bool2_boolish, str2_boolish, cmp2_boolish; exact I.
  Qed.

  Lemma bpred_boolish en p : bpred p = true -> boolish (eval fa en p).
  Proof.
    destruct p as [v|i|op l r|op a|es]; cbn [bpred]; intros H; try discriminate H.
    - destruct v; try discriminate H; exact I.
    - cbn [eval]. destruct (eval fa en l) as [lv|]; [|exact I].
      destruct (eval fa en r) as [rv|]; [|exact I].
      destruct op; try (apply eval_binop_boolish; exact H).
      destruct rv; exact I.
    - cbn [eval]. destruct op; try discriminate H; cbn [eval_unop].
      + destruct (eval fa en a) as [v|]; [|exact I]. destruct (as_bool v); exact I.
      + exact I.
      + exact I.
  Qed.

  (** for every expression, at most one of [p], [NOT p], [(p) IS NULL] passes, and none passes
      exactly when [p] has a value that is neither a boolean nor NULL *)
  Lemma partition3_any_l en p :
    exactly_one3 (passes fa p en) (passes fa (EUn Not p) en) (passes fa (EUn IsNull p) en) = true
    \/ (exists v, eval fa en p = Some v /\ as_bool v = None /\ v <> VNull
                  /\ passes fa p en = false /\ passes fa (EUn Not p) en = false
                  /\ passes fa (EUn IsNull p) en = false).
  Proof.
    unfold passes. cbn [eval eval_unop].
    destruct (eval fa en p) as [v|] eqn:E; [|left; reflexivity].
    destruct v as [|b|z|f|s|l]; try (left; destruct b; reflexivity); try (left; reflexivity);
      right; eexists; repeat split; try reflexivity; discriminate.
  Qed.

  Lemma partition3_l en p : bpred p = true ->
    exactly_one3 (passes fa p en) (passes fa (EUn Not p) en) (passes fa (EUn IsNull p) en) = true.
  Proof.
    intros H. pose proof (bpred_boolish en p H) as B.
    destruct (partition3_any_l en p) as [E|[v [E [Hb [Hn _]]]]]; [exact E|].
    rewrite E in B. destruct v; try contradiction; try discriminate Hb; try congruence.
  Qed.

  (** the connectives are not Kleene: an operand without value makes AND / OR unknown *)
  Lemma and_unknown_l en l r : eval fa en l = None -> eval fa en (EBin And l r) = None.
  Proof. intros H. cbn [eval]. rewrite H. reflexivity. Qed.
  Lemma or_unknown_r en l r : eval fa en r = None -> eval fa en (EBin Or l r) = None.
  Proof. intros H. cbn [eval]. rewrite H. destruct (eval fa en l); reflexivity. Qed.
End P.

Lemma partition3_nonbool_refuted_l :
  exists en p, forall fa, passes fa p en = false /\ passes fa (EUn Not p) en = false
                          /\ passes fa (EUn IsNull p) en = false.
Proof. exists [Some (VInt 5)], (EVar 0). intros fa. repeat split. Qed.

(** checked integer arithmetic never leaves the i64 range and never panics: it has a value in
    range or no value *)
Lemma arith_in_range fa op a b v :
  eval_binop fa op (VInt a) (VInt b) = Some (VInt v) ->
  match op with Add | Sub | Mul | Div => in_i64 v | _ => True end.
Proof.
  destruct op; try exact (fun _ => I); cbn [eval_binop eval_arithmetic]; unfold checked_div, chk_i64.
  all: repeat match goal with |- context [if ?c then _ else _] => destruct c eqn:? end; intros H; try discriminate H;
    injection H as <-; unfold in_i64b in *; unfold in_i64; lia.
Qed.

Lemma arith_pre_refuted_l : exists op a b, in_i64 a /\ in_i64 b /\ arith_pre Checked op a b = Panic
  /\ eval_binop fa_none op (VInt a) (VInt b) = None.
Proof. exists Add, (two63 - 1), 1. repeat split; unfold in_i64, two63; try lia. Qed.
Lemma arith_div0_pre_refuted_l : forall m a, arith_pre m Div a 0 = Panic /\ eval_binop fa_none Div (VInt a) (VInt 0) = None.
Proof. intros m a. split; reflexivity. Qed.
