(** C11 (shared by C08–C10) — Layer 2: chunk streams and the pull operators.

    Transcription of crates/grafeo-core/src/execution/{chunk,selection}.rs and
    operators/{filter,limit,distinct,union,aggregate}.rs AS WRITTEN at HEAD (the code as it is
    now, committed repairs included; a [_pre] definition transcribes the code before a repair).
    Definitions only.

    A chunk is a list of physical rows plus an optional selection vector (indices of the
    logical rows).  A child operator is represented by the list of chunks it still has to
    yield (this is exactly the mock operator of the harness, and — because a pull operator
    talks to its child only through [next()] — also any other child: compose by feeding the
    chunk list drained from the child).  Every operator is a function
        [next : state -> remaining child chunks -> option (chunk * state * remaining chunks)]
    copied from [Operator::next]; its inner [loop { ... continue }] is the structural recursion
    on the remaining chunks.  [drain] calls [next] until the first [None] (= [Executor::execute])
    and [rows_of] concatenates the logical rows ([collect_chunk] uses [selected_indices]).

    Modelling assumptions (validated by the correspondence run, listed in the evidence):
    the output schema handed to Limit/Skip/LimitSkip/Distinct has as many columns as the
    input chunks and the generic type (the planner passes [LogicalType::Any] for every column),
    so copying a row through [get_value]/[push_value] is the identity on the values modelled
    here; chunks carry no zone-map hints (a mock child never attaches any). *)
From GV Require Export Query.Expr.
Open Scope Z_scope.

Definition row := list value.
Record chunk := mkChunk { c_rows : list row; c_sel : option (list Z) }.

(** [DataChunk::selected_indices] mapped to rows *)
Definition sel_rows (rows : list row) (s : list Z) : list row :=
  flat_map (fun i => match nth_error rows (Z.to_nat i) with Some r => [r] | None => [] end) s.
Definition lrows (c : chunk) : list row :=
  match c_sel c with None => c_rows c | Some s => sel_rows (c_rows c) s end.
(** [DataChunk::row_count] *)
Definition row_count (c : chunk) : Z :=
  match c_sel c with None => Z.of_nat (length (c_rows c)) | Some s => Z.of_nat (length s) end.
(** selection indices point at existing rows *)
Definition chunk_wf (c : chunk) : Prop :=
  match c_sel c with
  | None => True
  | Some s => Forall (fun i => 0 <= i < Z.of_nat (length (c_rows c))) s
  end.
Definition chunk_wfb (c : chunk) : bool :=
  match c_sel c with
  | None => true
  | Some s => forallb (fun i => (0 <=? i) && (i <? Z.of_nat (length (c_rows c)))) s
  end.
Definition rows_of (cs : list chunk) : list row := flat_map lrows cs.
Definition phys_rows (cs : list chunk) : list row := flat_map c_rows cs.
Definition sel_free (cs : list chunk) : bool :=
  forallb (fun c => match c_sel c with None => true | Some _ => false end) cs.

(** [Executor::execute]: call [next] until it answers [None] *)
Fixpoint drain_st {St : Type} (next : St -> list chunk -> option (chunk * St * list chunk))
         (fuel : nat) (s : St) (cs : list chunk) : list chunk :=
  match fuel with
  | O => []
  | S f =>
      match next s cs with
      | None => []
      | Some (c, s', rest) => c :: drain_st next f s' rest
      end
  end.
(** enough calls for every operator below: each call consumes a chunk or emits stored rows *)
Definition fuel_of (cs : list chunk) : nat :=
  S (S (length cs + length (rows_of cs))).

(** * Filter (filter.rs, [FilterOperator::next]) *)
(** [SelectionVector::from_predicate(count, f)] over the PHYSICAL rows [0..count) *)
Fixpoint sel_from_pred (f : row -> bool) (i : Z) (rows : list row) : list Z :=
  match rows with
  | [] => []
  | r :: t => if f r then i :: sel_from_pred f (i + 1) t else sel_from_pred f (i + 1) t
  end.

Section Filter.
  Variable fa : binop -> Z -> Z -> Z.
  (** how a row is turned into the evaluation environment: [row_env] for expressions over
      columns; a node-table lookup for property access (see [tab_env]) *)
  Variable envf : row -> env.
  Definition row_passes (p : expr) (r : row) : bool := passes fa p (envf r).

  (** [SelectionVector::filter(f)] of the chunk's existing selection: the selected indices on
      which [f] holds, in order (an index that points at no row yields no value for any column;
      chunks are well-formed — [chunk_wf] — wherever the engine builds them, and such an index
      contributes no logical row in [lrows] either) *)
  Definition sel_filter (f : row -> bool) (rows : list row) (s : list Z) : list Z :=
    filter (fun i => match nth_error rows (Z.to_nat i) with Some r => f r | None => false end) s.

  (** as written NOW (after df57ccb): rows that an operator below has already deselected stay
      deselected — [match chunk.selection() { Some(existing) => existing.filter(..),
      None => SelectionVector::from_predicate(total_row_count, ..) }]; a chunk on which nothing
      passes is skipped ([continue]) *)
  Definition filter_sel (p : expr) (c : chunk) : list Z :=
    match c_sel c with
    | None => sel_from_pred (row_passes p) 0 (c_rows c)
    | Some s => sel_filter (row_passes p) (c_rows c) s
    end.
  Fixpoint filter_next (p : expr) (_ : unit) (cs : list chunk) : option (chunk * unit * list chunk) :=
    match cs with
    | [] => None
    | c :: rest =>
        match filter_sel p c with
        | [] => filter_next p tt rest
        | sel => Some (mkChunk (c_rows c) (Some sel), tt, rest)
        end
    end.
  Definition drain_filter (p : expr) (cs : list chunk) : list chunk :=
    drain_st (filter_next p) (fuel_of cs) tt cs.

  (** BEFORE df57ccb (finding C11-K1): the predicate was evaluated on every physical row
      ([total_row_count]) and the chunk's selection was REPLACED ([set_selection]); an incoming
      selection was not consulted *)
  Fixpoint filter_next_pre (p : expr) (_ : unit) (cs : list chunk) : option (chunk * unit * list chunk) :=
    match cs with
    | [] => None
    | c :: rest =>
        match sel_from_pred (row_passes p) 0 (c_rows c) with
        | [] => filter_next_pre p tt rest
        | sel => Some (mkChunk (c_rows c) (Some sel), tt, rest)
        end
    end.
  Definition drain_filter_pre (p : expr) (cs : list chunk) : list chunk :=
    drain_st (filter_next_pre p) (fuel_of cs) tt cs.

  (** names used while the repair was only proposed *)
  Definition filter_next_fixed := filter_next.
  Definition drain_filter_fixed := drain_filter.
End Filter.

Definition row_env (r : row) : env := map Some r.
(** engine level: a row is [[VInt id]] (the node column) and properties come from the table *)
Definition tab_env (tab : list env) (r : row) : env :=
  match r with
  | VInt id :: _ => nth (Z.to_nat id) tab []
  | _ => []
  end.

(** * Limit / Skip / LimitSkip (limit.rs) *)
(** state: rows returned so far *)
Fixpoint limit_loop (remaining returned : Z) (cs : list chunk) : option (chunk * Z * list chunk) :=
  match cs with
  | [] => None
  | c :: rest =>
      let rc := row_count c in
      if rc =? 0 then limit_loop remaining returned rest
      else if rc <=? remaining then Some (c, returned + rc, rest)
      else
        let out := firstn (Z.to_nat remaining) (lrows c) in
        Some (mkChunk out None, returned + Z.of_nat (length out), rest)
  end.
Definition limit_next (limit : Z) (returned : Z) (cs : list chunk) : option (chunk * Z * list chunk) :=
  if limit <=? returned then None else limit_loop (limit - returned) returned cs.
Definition drain_limit (limit : Z) (cs : list chunk) : list chunk :=
  drain_st (limit_next limit) (fuel_of cs) 0 cs.

(** state: rows skipped so far.  [while self.skipped < self.skip { ... continue }] then pass-through *)
Fixpoint skip_next (skip : Z) (skipped : Z) (cs : list chunk) : option (chunk * Z * list chunk) :=
  match cs with
  | [] => None
  | c :: rest =>
      if skipped <? skip then
        let rc := row_count c in
        let to_skip := Z.min (skip - skipped) rc in
        if rc <=? to_skip then skip_next skip (skipped + rc) rest
        else Some (mkChunk (skipn (Z.to_nat to_skip) (lrows c)) None, skip, rest)
      else Some (c, skipped, rest)
  end.
Definition drain_skip (skip : Z) (cs : list chunk) : list chunk :=
  drain_st (skip_next skip) (fuel_of cs) 0 cs.

(** state: (skipped, returned) *)
Fixpoint limitskip_loop (skip limit : Z) (skipped returned : Z) (cs : list chunk)
  : option (chunk * (Z * Z) * list chunk) :=
  match cs with
  | [] => None
  | c :: rest =>
      let rc := row_count c in
      if rc =? 0 then limitskip_loop skip limit skipped returned rest
      else
        let to_skip := Z.min (skip - skipped) rc in
        if (skipped <? skip) && (rc <=? to_skip) then
          limitskip_loop skip limit (skipped + rc) returned rest
        else
          let start := if skipped <? skip then to_skip else 0 in
          let skipped' := if skipped <? skip then skip else skipped in
          let to_return := Z.min (rc - start) (limit - returned) in
          if to_return =? 0 then None
          else Some (mkChunk (firstn (Z.to_nat to_return) (skipn (Z.to_nat start) (lrows c))) None,
                     (skipped', returned + to_return), rest)
  end.
Definition limitskip_next (skip limit : Z) (st : Z * Z) (cs : list chunk) :=
  if limit <=? snd st then None else limitskip_loop skip limit (fst st) (snd st) cs.
Definition drain_limitskip (skip limit : Z) (cs : list chunk) : list chunk :=
  drain_st (limitskip_next skip limit) (fuel_of cs) (0, 0) cs.

(** * Distinct (distinct.rs) and the group key of aggregate.rs *)
Inductive keypart := KNull | KBool (b : bool) | KInt (z : Z) | KStr (s : list Z).
Definition keypart_eqb (a b : keypart) : bool :=
  match a, b with
  | KNull, KNull => true
  | KBool x, KBool y => Bool.eqb x y
  | KInt x, KInt y => x =? y
  | KStr x, KStr y => zlist_eqb x y
  | _, _ => false
  end.

Fixpoint dec_digits (fuel : nat) (n : Z) (acc : list Z) : list Z :=
  match fuel with
  | O => acc
  | S f =>
      let acc' := (48 + n mod 10) :: acc in
      if n / 10 =? 0 then acc' else dec_digits f (n / 10) acc'
  end.
Definition dec_z (z : Z) : list Z :=
  if z <? 0 then 45 :: dec_digits 25 (- z) [] else dec_digits 25 z [].
(** [format!("{v:?}")] ([impl Debug for Value]).  Exact for Null, Bool, Int64, lists of those and
    strings of printable ASCII without double quote and backslash (no escaping is modelled);
    NOT the real text for Float64 (Rust prints the shortest decimal; the model prints the bit
    pattern) — the generators never put floats inside lists. *)
Fixpoint dbg_value (v : value) : list Z :=
  match v with
  | VNull => (zl [78; 117; 108; 108])
  | VBool true => (zl [66; 111; 111; 108; 40; 116; 114; 117; 101; 41])
  | VBool false => (zl [66; 111; 111; 108; 40; 102; 97; 108; 115; 101; 41])
  | VInt i => (zl [73; 110; 116; 54; 52; 40]) ++ dec_z i ++ [41]
  | VFloat f => (zl [70; 108; 111; 97; 116; 54; 52; 40; 35]) ++ dec_z f ++ [41]
  | VStr s => (zl [83; 116; 114; 105; 110; 103; 40]) ++ [34] ++ s ++ [34; 41]
  | VList l =>
      (zl [76; 105; 115; 116; 40; 91]) ++
      (fix go (l : list value) : list Z :=
         match l with
         | [] => []
         | [a] => dbg_value a
         | a :: r => dbg_value a ++ [44; 32] ++ go r
         end) l ++ [93; 41]
  end.

(** [RowKey::from_row] / [GroupKey::from_row]: a Float64 becomes [Int64(bits as i64)], anything
    that is not Null/Bool/Int64/Float64/String becomes the String of its Debug text *)
Definition key_of (v : value) : keypart :=
  match v with
  | VNull => KNull
  | VBool b => KBool b
  | VInt i => KInt i
  | VFloat f => KInt (sint64 f)
  | VStr s => KStr s
  | VList _ => KStr (dbg_value v)
  end.
Definition rowkey := list keypart.
Definition row_key (r : row) : rowkey := map key_of r.
Definition rowkey_eqb : rowkey -> rowkey -> bool := list_eqb keypart_eqb.
Definition seen_mem (k : rowkey) (seen : list rowkey) : bool := existsb (rowkey_eqb k) seen.

(** BEFORE 24f6dab (finding C11-K5, fixed): the rows of one input chunk; [cap] = free slots of the
    output builder (capacity 2048).  When the builder became full the operator RETURNED, abandoning
    the rest of the input chunk ([if builder.is_full() { return Ok(Some(builder.finish())) }]). *)
Fixpoint distinct_chunk_pre (cap : Z) (rows : list row) (seen : list rowkey) : list row * list rowkey :=
  match rows with
  | [] => ([], seen)
  | r :: t =>
      let k := row_key r in
      if seen_mem k seen then distinct_chunk_pre cap t seen
      else if cap <=? 1 then ([r], k :: seen)
      else let (o, s) := distinct_chunk_pre (cap - 1) t (k :: seen) in (r :: o, s)
  end.
Fixpoint distinct_next_pre (seen : list rowkey) (cs : list chunk) : option (chunk * list rowkey * list chunk) :=
  match cs with
  | [] => None
  | c :: rest =>
      let (o, s) := distinct_chunk_pre 2048 (lrows c) seen in
      match o with
      | [] => distinct_next_pre s rest
      | _ => Some (mkChunk o None, s, rest)
      end
  end.
Definition drain_distinct_pre (cs : list chunk) : list chunk :=
  drain_st distinct_next_pre (fuel_of cs) [] cs.

(** as written NOW (24f6dab): the output builder is sized by the input chunk and there is no early
    return — one output chunk per input chunk, every fresh row copied *)
Fixpoint distinct_chunk (rows : list row) (seen : list rowkey) : list row * list rowkey :=
  match rows with
  | [] => ([], seen)
  | r :: t =>
      let k := row_key r in
      if seen_mem k seen then distinct_chunk t seen
      else let (o, s) := distinct_chunk t (k :: seen) in (r :: o, s)
  end.
Fixpoint distinct_next (seen : list rowkey) (cs : list chunk) : option (chunk * list rowkey * list chunk) :=
  match cs with
  | [] => None
  | c :: rest =>
      let (o, s) := distinct_chunk (lrows c) seen in
      match o with
      | [] => distinct_next s rest
      | _ => Some (mkChunk o None, s, rest)
      end
  end.
Definition drain_distinct (cs : list chunk) : list chunk :=
  drain_st distinct_next (fuel_of cs) [] cs.

(** specification: first occurrences, w.r.t. the row key *)
Fixpoint dedup_from (seen : list rowkey) (l : list row) : list row :=
  match l with
  | [] => []
  | r :: t =>
      if seen_mem (row_key r) seen then dedup_from seen t
      else r :: dedup_from (row_key r :: seen) t
  end.
(** chunks as every engine producer emits them: at most 2048 logical rows *)
Definition small_chunk (c : chunk) : Prop := chunk_wf c /\ row_count c <= 2048.
Definition small_chunkb (c : chunk) : bool := chunk_wfb c && (row_count c <=? 2048).
(** values on which the key is faithful (no float, no compound value) *)
Definition key_scalar (v : value) : bool :=
  match v with VFloat _ | VList _ => false | _ => true end.

(** * Union (union.rs): inputs in order *)
Fixpoint union_next (inputs : list (list chunk)) : option (chunk * list (list chunk)) :=
  match inputs with
  | [] => None
  | [] :: more => union_next more
  | (c :: rest) :: more => Some (c, rest :: more)
  end.
Fixpoint drain_union_st (fuel : nat) (inputs : list (list chunk)) : list chunk :=
  match fuel with
  | O => []
  | S f =>
      match union_next inputs with
      | None => []
      | Some (c, inputs') => c :: drain_union_st f inputs'
      end
  end.
Definition drain_union (inputs : list (list chunk)) : list chunk :=
  drain_union_st (S (length (concat inputs))) inputs.

(** * Aggregates (aggregate.rs): COUNT-star and COUNT(col), without DISTINCT *)
Inductive aggfn := AggCountStar | AggCount (col : nat).
Definition agg_update (r : row) (f : aggfn) (st : Z) : Z :=
  match f with
  | AggCountStar => st + 1
  | AggCount c => match nth_error r c with
                  | None | Some VNull => st
                  | Some _ => st + 1
                  end
  end.
Definition aggs_update (aggs : list aggfn) (r : row) (sts : list Z) : list Z :=
  map (fun p => agg_update r (fst p) (snd p)) (combine aggs sts).
Definition aggs_init (aggs : list aggfn) : list Z := map (fun _ => 0) aggs.

Definition nonnull_at (c : nat) (r : row) : bool :=
  match nth_error r c with None | Some VNull => false | Some _ => true end.
Definition count_key (keys : list rowkey) (k : rowkey) : Z :=
  Z.of_nat (length (filter (rowkey_eqb k) keys)).

(** [SimpleAggregateOperator]: state = done *)
Definition simple_agg_next (aggs : list aggfn) (done : bool) (cs : list chunk)
  : option (chunk * bool * list chunk) :=
  if done then None
  else
    let sts := fold_left (fun st r => aggs_update aggs r st) (rows_of cs) (aggs_init aggs) in
    Some (mkChunk [map VInt sts] None, true, []).
Definition drain_simple_agg (aggs : list aggfn) (cs : list chunk) : list chunk :=
  drain_st (simple_agg_next aggs) (fuel_of cs) false cs.

(** [HashAggregateOperator]: groups in first-occurrence order (IndexMap) *)
Definition group := (rowkey * list Z)%type.
Fixpoint groups_update (k : rowkey) (upd : list Z -> list Z) (init : list Z) (gs : list group) : list group :=
  match gs with
  | [] => [(k, upd init)]
  | (k', st) :: t => if rowkey_eqb k k' then (k', upd st) :: t else (k', st) :: groups_update k upd init t
  end.
Definition group_key (gcols : list nat) (r : row) : rowkey :=
  map (fun c => match nth_error r c with Some v => key_of v | None => KNull end) gcols.
(** [GroupKey::to_values]: the key parts are turned back into values — a Float64 group key
    comes back as the Int64 of its bit pattern, a list as the String of its Debug text *)
Definition keypart_value (k : keypart) : value :=
  match k with KNull => VNull | KBool b => VBool b | KInt i => VInt i | KStr s => VStr s end.
Definition group_row (g : group) : row := map keypart_value (fst g) ++ map VInt (snd g).
Definition hash_groups (gcols : list nat) (aggs : list aggfn) (rows : list row) : list group :=
  fold_left (fun gs r => groups_update (group_key gcols r) (aggs_update aggs r) (aggs_init aggs) gs) rows [].
(** state: [None] = aggregation not done, [Some gs] = groups still to emit.  The branch
    "global aggregation with no data" of the code is unreachable ([aggregate()] always sets
    [results]), so an empty input yields no row whatever [gcols] is. *)
Definition hash_agg_next (gcols : list nat) (aggs : list aggfn) (st : option (list group)) (cs : list chunk)
  : option (chunk * option (list group) * list chunk) :=
  let gs := match st with None => hash_groups gcols aggs (rows_of cs) | Some gs => gs end in
  match firstn 2048 gs with
  | [] => None
  | out => Some (mkChunk (map group_row out) None, Some (skipn 2048 gs), [])
  end.
Definition drain_hash_agg (gcols : list nat) (aggs : list aggfn) (cs : list chunk) : list chunk :=
  drain_st (hash_agg_next gcols aggs) (fuel_of cs) None cs.

(** * How the front ends wire the clauses (gql_translator.rs / cypher_translator.rs / planner.rs)

    Rows of the base query are [[VInt key]]; ORDER BY is ascending on that key (the fixtures use
    distinct integer keys, so tie order and NULL/cross-type ordering of sort.rs play no role). *)
Inductive lang := Gql | Cypher.

Fixpoint blocks_st (fuel : nat) (n : nat) (rows : list row) : list chunk :=
  match fuel with
  | O => []
  | S f =>
      match rows with
      | [] => []
      | _ => mkChunk (firstn n rows) None :: blocks_st f n (skipn n rows)
      end
  end.
(** scan.rs / sort.rs / node-list operators emit batches of 2048 rows *)
Definition scan_chunks (rows : list row) : list chunk := blocks_st (S (length rows)) 2048 rows.

Definition row_int_key (r : row) : Z := match r with VInt z :: _ => z | _ => 0 end.
Fixpoint insert_row (r : row) (l : list row) : list row :=
  match l with
  | [] => [r]
  | x :: t => if row_int_key r <? row_int_key x then r :: x :: t else x :: insert_row r t
  end.
Definition sort_rows (l : list row) : list row := fold_right insert_row [] l.
Definition sort_if (ord : bool) (l : list row) : list row := if ord then sort_rows l else l.

Definition opt_skip (s : option Z) (cs : list chunk) : list chunk :=
  match s with Some k => drain_skip k cs | None => cs end.
Definition opt_limit (n : option Z) (cs : list chunk) : list chunk :=
  match n with Some k => drain_limit k cs | None => cs end.

(** [RETURN x [ORDER BY x] [SKIP s] [LIMIT n]] BEFORE ce12a2a (finding C11-K2, fixed):
    GQL  (gql_translator.rs): Skip and Limit were applied to the plan BEFORE Sort was put on top;
    Cypher (cypher_translator.rs): Sort, then Skip, then Limit. *)
Definition window_query_pre (l : lang) (ord : bool) (s n : option Z) (rows : list row) : list row :=
  match l with
  | Gql => sort_if ord (rows_of (opt_limit n (opt_skip s (scan_chunks rows))))
  | Cypher => rows_of (opt_limit n (opt_skip s (scan_chunks (sort_if ord rows))))
  end.
Definition window_spec (ord : bool) (s n : option Z) (rows : list row) : list row :=
  let r := sort_if ord rows in
  let r := match s with Some k => skipn (Z.to_nat k) r | None => r end in
  match n with Some k => firstn (Z.to_nat k) r | None => r end.

(** [RETURN count(n) [SKIP s] [LIMIT n]] before ce12a2a: GQL limited the INPUT of the aggregate, Cypher its output *)
Definition count_query_pre (l : lang) (s n : option Z) (rows : list row) : list row :=
  match l with
  | Gql => rows_of (drain_simple_agg [AggCount 0%nat] (opt_limit n (opt_skip s (scan_chunks rows))))
  | Cypher => rows_of (opt_limit n (opt_skip s (drain_simple_agg [AggCount 0%nat] (scan_chunks rows))))
  end.
Definition count_spec (s n : option Z) (rows : list row) : list row :=
  window_spec false s n [[VInt (Z.of_nat (length rows))]].

(** as written NOW (ce12a2a): the GQL translator applies SKIP and LIMIT above ORDER BY and above the
    aggregate, as the Cypher, Gremlin and GraphQL translators do — one wiring for every front end *)
Definition window_query (l : lang) (ord : bool) (s n : option Z) (rows : list row) : list row :=
  window_query_pre Cypher ord s n rows.
Definition count_query (l : lang) (s n : option Z) (rows : list row) : list row :=
  count_query_pre Cypher s n rows.

(** [RETURN DISTINCT x] BEFORE 36a1196 (finding C11-K3, fixed): [plan_return] never looked at
    [ReturnOp::distinct] — no Distinct operator was planned *)
Definition return_distinct_query_pre (rows : list row) : list row := rows_of (scan_chunks rows).
(** [WITH DISTINCT x ... RETURN x] plans a [DistinctOperator] ([plan_distinct]); NOW (36a1196)
    [plan_return] wraps the projection in one too when [ReturnOp::distinct] is set *)
Definition with_distinct_query (rows : list row) : list row := rows_of (drain_distinct (scan_chunks rows)).
Definition return_distinct_query (rows : list row) : list row := rows_of (drain_distinct (scan_chunks rows)).

(** * [Planner::plan_filter] (planner.rs): a range predicate directly over a node scan is not
      evaluated by the Filter operator but by [LpgStore::find_nodes_in_range] (store.rs), which
      compares with [compare_values_for_range]: only values of the SAME type are comparable
      (Int64 with Float64 is not), booleans are ordered, a NaN is incomparable.
      (The zone-map short cut in front of it and the property-index path are not modelled: the
      run creates no index; since 1879631 the zone map never prunes [<>] — before, it pruned
      [n.p <> v] when min = max = v although a stored NULL satisfies it: finding C11-K6, fixed.) *)
Definition cmp_z (a b : Z) : Z := if a <? b then -1 else if b <? a then 1 else 0.
Definition range_cmp (a b : value) : option Z :=
  match a, b with
  | VInt x, VInt y => Some (cmp_z x y)
  | VFloat x, VFloat y => match f_key x, f_key y with Some p, Some q => Some (cmp_z p q) | _, _ => None end
  | VStr x, VStr y => Some (bytes_cmp x y)
  | VBool x, VBool y => Some (cmp_z (if x then 1 else 0) (if y then 1 else 0))
  | _, _ => None
  end.
Definition value_in_range (v : value) (mn mx : option value) (mni mxi : bool) : bool :=
  match mn with
  | None => true
  | Some m => match range_cmp v m with
              | Some c => negb ((c <? 0) || ((c =? 0) && negb mni))
              | None => false
              end
  end
  &&
  match mx with
  | None => true
  | Some m => match range_cmp v m with
              | Some c => negb ((0 <? c) || ((c =? 0) && negb mxi))
              | None => false
              end
  end.
(** [extract_range_predicate]: property op literal, or literal op property (operator flipped) *)
Definition range_atom (p : expr) : option (nat * binop * value) :=
  match p with
  | EBin op (EVar i) (ELit v) =>
      match op with Lt | Le | Gt | Ge => Some (i, op, v) | _ => None end
  | EBin op (ELit v) (EVar i) =>
      match op with
      | Lt => Some (i, Gt, v) | Le => Some (i, Ge, v) | Gt => Some (i, Lt, v) | Ge => Some (i, Le, v)
      | _ => None
      end
  | _ => None
  end.
(** [try_plan_filter_with_range_index]: BETWEEN pattern first, then a single comparison;
    result = (property, min, max, min inclusive, max inclusive) *)
Definition range_pred (p : expr) : option (nat * option value * option value * bool * bool) :=
  match p with
  | EBin And l r =>
      match range_atom l, range_atom r with
      | Some (i, o1, v1), Some (j, o2, v2) =>
          if Nat.eqb i j then
            match o1, o2 with
            | Ge, Le => Some (i, Some v1, Some v2, true, true)
            | Ge, Lt => Some (i, Some v1, Some v2, true, false)
            | Gt, Le => Some (i, Some v1, Some v2, false, true)
            | Gt, Lt => Some (i, Some v1, Some v2, false, false)
            | Le, Ge => Some (i, Some v2, Some v1, true, true)
            | Lt, Ge => Some (i, Some v2, Some v1, true, false)
            | Le, Gt => Some (i, Some v2, Some v1, false, true)
            | Lt, Gt => Some (i, Some v2, Some v1, false, false)
            | _, _ => None
            end
          else None
      | _, _ => None
      end
  | _ =>
      match range_atom p with
      | Some (i, Lt, v) => Some (i, None, Some v, false, false)
      | Some (i, Le, v) => Some (i, None, Some v, false, true)
      | Some (i, Gt, v) => Some (i, Some v, None, false, false)
      | Some (i, Ge, v) => Some (i, Some v, None, true, false)
      | _ => None
      end
  end.
(** [MATCH (n:L) WHERE p]: the chunks that reach the operators above *)
Definition where_chunks (fa : binop -> Z -> Z -> Z) (tab : list env) (p : expr) (rows : list row) : list chunk :=
  match range_pred p with
  | Some (i, mn, mx, a, b) =>
      scan_chunks (filter (fun r => match nth_error (tab_env tab r) i with
                                    | Some (Some v) => value_in_range v mn mx a b
                                    | _ => false
                                    end) rows)
  | None => drain_filter fa (tab_env tab) p (scan_chunks rows)
  end.

(** witnesses / fixtures used by theorems and by the run *)
Definition cmp_col0 (op : binop) (z : Z) : expr := EBin op (EVar 0) (ELit (VInt z)).
Definition int_rows (n : nat) : list row := map (fun i => [VInt (Z.of_nat i)]) (seq 0 n).
