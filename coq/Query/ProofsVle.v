(** C08 — variable-length expand: the fuel-bounded queue-based breadth-first expansion [vle_from]
    (Pattern.v) enumerates, as a multiset, exactly the walks whose length lies in [mn, mx].

    [nwalks k n] has one entry (end node, last edge) per walk of exactly [k >= 1] edges from [n].
    Main result: [vle_from_walks]; the fuel [vle_fuel] is shown to be sufficient on the way
    ([bfs_emit] with [vle_sumC_init]). *)
From Coq Require Import ZArith List Bool String Ascii Lia Permutation Arith.
From GV Require Export Query.PatSpec.
Import ListNotations.
Local Open Scope nat_scope.

Fixpoint nwalks (st : store) (ci : bool) (d : dir) (ty : option string) (k : nat) (n : Z) : list (Z * Z) :=
  match k with
  | O => []
  | S k' => match k' with
            | O => neighbors st ci n d ty
            | S _ => flat_map (fun te => nwalks st ci d ty k' (fst te)) (neighbors st ci n d ty)
            end
  end.

(** * Generic list facts *)
Lemma fm_nil_fun {A B : Type} (l : list A) : flat_map (fun _ : A => @nil B) l = [].
Proof. induction l as [|a l IH]; simpl; auto. Qed.

Lemma fm_singleton {A : Type} (l : list A) : flat_map (fun x : A => [x]) l = l.
Proof. induction l as [|a l IH]; simpl; congruence. Qed.

Lemma fm_map {A B C : Type} (f : B -> list C) (g : A -> B) (l : list A) :
  flat_map f (map g l) = flat_map (fun x => f (g x)) l.
Proof. induction l as [|a l IH]; simpl; congruence. Qed.

Lemma fm_ext_perm {A B : Type} (f g : A -> list B) (l : list A) :
  (forall x, Permutation (f x) (g x)) -> Permutation (flat_map f l) (flat_map g l).
Proof.
  intros H. induction l as [|a l IH]; simpl; [apply perm_nil|].
  apply Permutation_app; auto.
Qed.

Lemma fm_app_fun {A B : Type} (f g : A -> list B) (l : list A) :
  Permutation (flat_map (fun x => f x ++ g x) l) (flat_map f l ++ flat_map g l).
Proof.
  induction l as [|a l IH]; simpl; [apply perm_nil|].
  rewrite <- !app_assoc. apply Permutation_app_head.
  eapply Permutation_trans; [apply Permutation_app_head; exact IH|].
  apply Permutation_app_swap_app.
Qed.

Lemma fm_swap {A B C : Type} (h : A -> B -> list C) (l1 : list A) (l2 : list B) :
  Permutation (flat_map (fun x => flat_map (fun y => h x y) l2) l1)
              (flat_map (fun y => flat_map (fun x => h x y) l1) l2).
Proof.
  induction l1 as [|a l1 IH]; simpl.
  - rewrite fm_nil_fun. apply perm_nil.
  - eapply Permutation_trans; [apply Permutation_app_head; exact IH|].
    apply Permutation_sym.
    apply (fm_app_fun (fun y => h a y) (fun y => flat_map (fun x => h x y) l1) l2).
Qed.

Lemma fm_if {A B : Type} (b : bool) (f : A -> list B) (l : list A) :
  flat_map (fun x => if b then f x else []) l = if b then flat_map f l else [].
Proof. destruct b; [reflexivity|apply fm_nil_fun]. Qed.

Section Vle.
  Variable st : store.
  Variable ci : bool.
  Variable d : dir.
  Variable ty : option string.
  Variable mn mx : nat.

  Local Notation nb n := (neighbors st ci n d ty).
  Local Notation nw := (nwalks st ci d ty).
  Local Notation wc := (walk_count st ci d ty).

  Definition vle_inr (k : nat) : bool := Nat.leb mn k && Nat.leb k mx.

  (** walks of [k] further edges after having arrived through [te] *)
  Definition vle_ext (k : nat) (te : Z * Z) : list (Z * Z) :=
    match k with O => [te] | S _ => nw k (fst te) end.

  Lemma nwalks_S : forall k n, nw (S k) n = flat_map (vle_ext k) (nb n).
  Proof.
    intros [|k] n.
    - simpl. symmetry. apply fm_singleton.
    - reflexivity.
  Qed.

  (** everything a queue item will ever cause to be emitted, [k] = levels still to expand *)
  Fixpoint vle_emit_all (k : nat) (n : Z) (dep : nat) (e : Z) : list (Z * Z) :=
    (if vle_inr dep then [(n, e)] else []) ++
    match k with
    | O => []
    | S k' => flat_map (fun te => vle_emit_all k' (fst te) (S dep) (snd te)) (nb n)
    end.

  Definition vle_E (it : Z * nat * Z) : list (Z * Z) :=
    vle_emit_all (mx - snd (fst it)) (fst (fst it)) (snd (fst it)) (snd it).
  (** number of items an item will ever cause to be dequeued (itself included) *)
  Definition vle_C (it : Z * nat * Z) : nat := wc (mx - snd (fst it)) (fst (fst it)).
  Definition vle_sumC (q : list (Z * nat * Z)) : nat := fold_right (fun it acc => vle_C it + acc) 0 q.
  Definition vle_kids (n : Z) (dep : nat) : list (Z * nat * Z) :=
    map (fun te => (fst te, S dep, snd te)) (nb n).

  Lemma vle_sumC_app : forall q1 q2, vle_sumC (q1 ++ q2) = vle_sumC q1 + vle_sumC q2.
  Proof. induction q1 as [|a q1 IH]; intros q2; simpl; [reflexivity|]. rewrite IH. lia. Qed.

  Lemma vle_sumC_map : forall dep (l : list (Z * Z)),
    vle_sumC (map (fun te => (fst te, dep, snd te)) l)
    = fold_right (fun te acc => wc (mx - dep) (fst te) + acc) 0 l.
  Proof. intros dep l. induction l as [|a l IH]; simpl; [reflexivity|]. rewrite IH. reflexivity. Qed.

  Lemma vle_C_inner : forall n dep e, dep < mx -> vle_C (n, dep, e) = S (vle_sumC (vle_kids n dep)).
  Proof.
    intros n dep e H. unfold vle_C, vle_kids. rewrite vle_sumC_map. simpl fst; simpl snd.
    replace (mx - dep) with (S (mx - S dep)) by lia. reflexivity.
  Qed.

  Lemma vle_C_leaf : forall n dep e, mx <= dep -> vle_C (n, dep, e) = 1.
  Proof.
    intros n dep e H. unfold vle_C. simpl fst; simpl snd.
    replace (mx - dep) with 0 by lia. reflexivity.
  Qed.

  Lemma vle_E_inner : forall n dep e, dep < mx ->
    vle_E (n, dep, e) = (if vle_inr dep then [(n, e)] else []) ++ flat_map vle_E (vle_kids n dep).
  Proof.
    intros n dep e H. unfold vle_E at 1, vle_kids. simpl fst; simpl snd.
    replace (mx - dep) with (S (mx - S dep)) by lia.
    rewrite fm_map. reflexivity.
  Qed.

  Lemma vle_E_leaf : forall n dep e, mx <= dep ->
    vle_E (n, dep, e) = (if vle_inr dep then [(n, e)] else []).
  Proof.
    intros n dep e H. unfold vle_E. simpl fst; simpl snd.
    replace (mx - dep) with 0 by lia. simpl. apply app_nil_r.
  Qed.

  Lemma bfs_cons : forall f n dep e rest,
    bfs st ci d ty mn mx (S f) ((n, dep, e) :: rest)
    = (if vle_inr dep then [(n, e)] else [])
      ++ bfs st ci d ty mn mx f (rest ++ (if Nat.ltb dep mx then vle_kids n dep else [])).
  Proof. reflexivity. Qed.

  (** the queue discipline: with enough fuel the BFS emits what its queue items stand for *)
  Lemma bfs_emit : forall fuel q, vle_sumC q < fuel ->
    Permutation (bfs st ci d ty mn mx fuel q) (flat_map vle_E q).
  Proof.
    induction fuel as [|f IH]; intros q Hq; [lia|].
    destruct q as [|[[n dep] e] rest]; [apply perm_nil|].
    rewrite bfs_cons. change (vle_sumC ((n, dep, e) :: rest)) with (vle_C (n, dep, e) + vle_sumC rest) in Hq.
    change (flat_map vle_E ((n, dep, e) :: rest)) with (vle_E (n, dep, e) ++ flat_map vle_E rest).
    destruct (Nat.ltb dep mx) eqn:Hlt.
    - apply Nat.ltb_lt in Hlt. rewrite vle_C_inner in Hq by exact Hlt.
      rewrite vle_E_inner by exact Hlt. rewrite <- app_assoc. apply Permutation_app_head.
      eapply Permutation_trans.
      + apply IH. rewrite vle_sumC_app. lia.
      + rewrite flat_map_app. apply Permutation_app_comm.
    - apply Nat.ltb_ge in Hlt. rewrite vle_C_leaf in Hq by exact Hlt.
      rewrite vle_E_leaf by exact Hlt. apply Permutation_app_head.
      rewrite app_nil_r. apply IH. lia.
  Qed.

  (** what an item stands for, by walk length *)
  Lemma vle_emit_all_walks : forall k n dep e,
    Permutation (vle_emit_all k n dep e)
                (flat_map (fun j => if vle_inr (dep + j) then vle_ext j (n, e) else []) (seq 0 (S k))).
  Proof.
    induction k as [|k IH]; intros n dep e.
    - simpl. rewrite Nat.add_0_r. apply Permutation_refl.
    - change (vle_emit_all (S k) n dep e)
        with ((if vle_inr dep then [(n, e)] else [])
              ++ flat_map (fun te => vle_emit_all k (fst te) (S dep) (snd te)) (nb n)).
      change (seq 0 (S (S k))) with (0 :: seq 1 (S k)).
      cbn [flat_map]. rewrite Nat.add_0_r. cbn [vle_ext].
      apply Permutation_app_head.
      eapply Permutation_trans.
      { apply fm_ext_perm. intros te. apply IH. }
      eapply Permutation_trans.
      { apply (fm_swap (fun (te : Z * Z) j => if vle_inr (S dep + j) then vle_ext j (fst te, snd te) else [])). }
      rewrite <- seq_shift, fm_map.
      erewrite flat_map_ext; [apply Permutation_refl|].
      intros j. cbn beta. rewrite (fm_if (vle_inr (S dep + j)) (fun te => vle_ext j (fst te, snd te))).
      replace (dep + S j) with (S dep + j) by lia.
      destruct (vle_inr (S dep + j)); [|reflexivity].
      change (vle_ext (S j) (n, e)) with (nw (S j) n). rewrite nwalks_S.
      apply flat_map_ext. intros [t e']. reflexivity.
  Qed.

  (** regrouping the range test into the index range *)
  Lemma fm_range : forall (f : nat -> list (Z * Z)) len a, a + len = S mx ->
    flat_map (fun k => if vle_inr k then f k else []) (seq a len)
    = flat_map f (seq (Nat.max a mn) (S mx - Nat.max a mn)).
  Proof.
    intros f. induction len as [|len IH]; intros a Ha.
    - replace (S mx - Nat.max a mn) with 0 by lia. reflexivity.
    - cbn [seq flat_map]. rewrite IH by lia. unfold vle_inr.
      destruct (Nat.leb mn a) eqn:H1.
      + apply Nat.leb_le in H1.
        assert (H2 : Nat.leb a mx = true) by (apply Nat.leb_le; lia). rewrite H2. cbn [andb].
        replace (Nat.max a mn) with a by lia.
        replace (Nat.max (S a) mn) with (S a) by lia.
        replace (S mx - a) with (S (S mx - S a)) by lia. reflexivity.
      + apply Nat.leb_gt in H1. cbn [andb app].
        replace (Nat.max (S a) mn) with (Nat.max a mn) by lia. reflexivity.
  Qed.

  Lemma vle_sumC_init : forall s, vle_sumC (vle_kids s 0) < vle_fuel st ci d ty mx s.
  Proof.
    intros s. unfold vle_kids, vle_fuel. rewrite vle_sumC_map.
    replace (mx - 1) with (pred mx) by lia. lia.
  Qed.

  Lemma vle_from_walks_sec : forall s,
    Permutation (vle_from st ci d ty mn mx s)
                (flat_map (fun k => nw k s) (seq mn (S mx - mn))).
  Proof.
    intros s. unfold vle_from.
    eapply Permutation_trans; [apply (bfs_emit _ (vle_kids s 0)); apply vle_sumC_init|].
    unfold vle_kids. rewrite fm_map.
    eapply Permutation_trans.
    { apply fm_ext_perm. intros te. unfold vle_E. cbn [fst snd]. apply vle_emit_all_walks. }
    eapply Permutation_trans.
    { apply (fm_swap (fun (te : Z * Z) j => if vle_inr (1 + j) then vle_ext j (fst te, snd te) else [])). }
    (* now indexed by j = length - 1 over seq 0 (S (mx - 1)) *)
    assert (Hstep : forall j,
              flat_map (fun te : Z * Z => if vle_inr (1 + j) then vle_ext j (fst te, snd te) else []) (nb s)
              = (fun k => if vle_inr k then nw k s else []) (S j)).
    { intros j. rewrite (fm_if (vle_inr (1 + j)) (fun te => vle_ext j (fst te, snd te))).
      cbn beta. change (1 + j) with (S j). destruct (vle_inr (S j)); [|reflexivity].
      rewrite nwalks_S. apply flat_map_ext. intros [t e']. reflexivity. }
    rewrite (flat_map_ext _ _ Hstep).
    rewrite <- (fm_map (fun k => if vle_inr k then nw k s else []) S), seq_shift.
    (* seq 1 (S (mx - 1)) against seq 0 (S mx) *)
    assert (H0 : flat_map (fun k => if vle_inr k then nw k s else []) (seq 1 (S (mx - 1)))
                 = flat_map (fun k => if vle_inr k then nw k s else []) (seq 0 (S mx))).
    { destruct mx as [|m] eqn:Hmx.
      - cbn [seq flat_map]. unfold vle_inr. rewrite Hmx.
        destruct (Nat.leb mn 1); destruct (Nat.leb mn 0); reflexivity.
      - replace (S m - 1) with m by lia.
        change (seq 0 (S (S m))) with (0 :: seq 1 (S m)). cbn [flat_map].
        destruct (vle_inr 0); reflexivity. }
    rewrite H0. rewrite (fm_range (fun k => nw k s) (S mx) 0) by lia.
    replace (Nat.max 0 mn) with mn by lia. apply Permutation_refl.
  Qed.
End Vle.

Theorem vle_from_walks : forall st ci d ty mn mx s,
  Permutation (vle_from st ci d ty mn mx s)
              (flat_map (fun k => nwalks st ci d ty k s) (seq mn (S mx - mn))).
Proof. intros. apply vle_from_walks_sec. Qed.

Corollary vle_from_walks_len : forall st ci d ty mn mx s,
  List.length (vle_from st ci d ty mn mx s)
  = List.length (flat_map (fun k => nwalks st ci d ty k s) (seq mn (S mx - mn))).
Proof. intros. apply Permutation_length. apply vle_from_walks. Qed.

