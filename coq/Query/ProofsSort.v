(** C11 — proofs about the Sort operator (StreamSort.v). *)
From Coq Require Import Permutation Sorted.
From GV Require Import Query.Expr Query.Stream Query.StreamSort Query.ProofsStream.
Open Scope Z_scope.

(** * the comparator is antisymmetric in sign for ALL rows *)
Lemma cmp_z_antisym x y : cmp_z y x = - cmp_z x y.
Proof.
  unfold cmp_z. destruct (Z.ltb_spec x y), (Z.ltb_spec y x); try reflexivity; lia.
Qed.
Lemma bytes_cmp_antisym : forall a b, bytes_cmp b a = - bytes_cmp a b.
Proof.
  induction a as [|x a IH]; intros [|y b]; try reflexivity.
  cbn [bytes_cmp]. destruct (Z.ltb_spec x y), (Z.ltb_spec y x); try reflexivity; try lia. apply IH.
Qed.
Lemma f_cmp_eq_antisym a b : f_cmp_eq b a = - f_cmp_eq a b.
Proof. unfold f_cmp_eq. destruct (f_key a), (f_key b); try reflexivity. apply cmp_z_antisym. Qed.
Lemma sort_cmp_values_antisym a b : sort_cmp_values b a = - sort_cmp_values a b.
Proof.
  destruct a, b; cbn [sort_cmp_values]; try reflexivity;
    auto using cmp_z_antisym, bytes_cmp_antisym, f_cmp_eq_antisym.
Qed.
Lemma cmp_with_nulls_antisym a b no : cmp_with_nulls b a no = - cmp_with_nulls a b no.
Proof.
  unfold cmp_with_nulls. destruct (is_nullish a) eqn:Ea, (is_nullish b) eqn:Eb; try reflexivity;
    try (destruct no; reflexivity).
  destruct a as [x|], b as [y|]; try reflexivity. apply sort_cmp_values_antisym.
Qed.
Lemma key_cmp_antisym k a b : key_cmp k b a = - key_cmp k a b.
Proof.
  unfold key_cmp. rewrite (cmp_with_nulls_antisym (nth_error a (sk_col k))). destruct (sk_dir k); lia.
Qed.
Lemma rows_cmp_antisym keys a b : rows_cmp keys b a = - rows_cmp keys a b.
Proof.
  induction keys as [|k t IH]; [reflexivity|]. cbn [rows_cmp]. rewrite (key_cmp_antisym k a b).
  destruct (Z.eqb_spec (key_cmp k a b) 0) as [E|E].
  - rewrite E. cbn. exact IH.
  - destruct (Z.eqb_spec (- key_cmp k a b) 0); [lia|reflexivity].
Qed.

(** * insertion sort: permutation, sortedness, stability *)
Section SortBy.
  Variable cmp : row -> row -> Z.
  Notation le a b := (cmp a b <= 0).
  Notation ties := (ties cmp).

  Lemma insert_by_perm r : forall l, Permutation (insert_by cmp r l) (r :: l).
  Proof.
    induction l as [|x t IH]; [reflexivity|]. cbn [insert_by].
    destruct (cmp r x <=? 0); [reflexivity|].
    rewrite IH. apply perm_swap.
  Qed.
  Lemma sort_by_perm : forall l, Permutation (sort_by cmp l) l.
  Proof.
    induction l as [|x t IH]; [reflexivity|]. unfold sort_by in *. cbn [fold_right].
    rewrite insert_by_perm. now constructor.
  Qed.
  Lemma sort_by_length l : length (sort_by cmp l) = length l.
  Proof. apply Permutation_length, sort_by_perm. Qed.

  (** the rows at hand, on which the comparator is a total preorder *)
  Variable D : list row.
  Hypothesis Hanti : forall a b, cmp b a = - cmp a b.
  Hypothesis Htrans : forall a b c, In a D -> In b D -> In c D -> le a b -> le b c -> le a c.

  Lemma insert_by_sorted r : In r D -> forall l, Forall (fun x => In x D) l ->
    StronglySorted (fun a b => le a b) l -> StronglySorted (fun a b => le a b) (insert_by cmp r l).
  Proof.
    intros Hr. induction l as [|x t IH]; intros HD HS.
    - cbn. constructor; constructor.
    - cbn [insert_by]. inversion HD as [|x' t' Hx Ht]; subst. inversion HS as [|x' t' HSt Hxt]; subst.
      destruct (Z.leb_spec (cmp r x) 0) as [L|L].
      + constructor; [exact HS|]. constructor; [exact L|].
        rewrite Forall_forall in Hxt, Ht |- *. intros y Hy.
        apply (Htrans r x y); auto.
      + constructor; [apply IH; assumption|].
        assert (P : Permutation (insert_by cmp r t) (r :: t)) by apply insert_by_perm.
        rewrite Forall_forall. intros y Hy. apply (Permutation_in _ P) in Hy as [<-|Hy].
        * rewrite (Hanti x r) in *. lia.
        * rewrite Forall_forall in Hxt. now apply Hxt.
  Qed.
  Lemma sort_by_sorted : forall l, Forall (fun x => In x D) l ->
    StronglySorted (fun a b => le a b) (sort_by cmp l).
  Proof.
    induction l as [|x t IH]; intros HD; [constructor|]. inversion HD as [|x' t' Hx Ht]; subst.
    unfold sort_by in *. cbn [fold_right]. apply insert_by_sorted; [exact Hx| |now apply IH].
    rewrite Forall_forall in Ht |- *. intros y Hy. apply Ht.
    apply (Permutation_in _ (sort_by_perm t)). exact Hy.
  Qed.

  (** stability: the rows that tie with [x] keep their input order *)
  Lemma insert_by_ties x r : In x D -> In r D -> forall l, Forall (fun y => In y D) l ->
    StronglySorted (fun a b => le a b) l ->
    filter (ties x) (insert_by cmp r l) = filter (ties x) (r :: l).
  Proof.
    intros Hx Hr. induction l as [|y t IH]; intros HD HS; [reflexivity|].
    cbn [insert_by]. destruct (Z.leb_spec (cmp r y) 0) as [L|L]; [reflexivity|].
    inversion HD as [|y' t' Hy Ht]; subst. inversion HS as [|y' t' HSt Hyt]; subst.
    cbn [filter]. rewrite (IH Ht HSt). cbn [filter].
    destruct (ties x r) eqn:Er; [|reflexivity].
    destruct (ties x y) eqn:Ey; [|reflexivity].
    (* x ~ r and x ~ y, but r > y: contradiction with transitivity *)
    exfalso. unfold StreamSort.ties in *. apply Z.eqb_eq in Er, Ey.
    assert (A : le r x) by (rewrite (Hanti x r); lia).
    assert (B : le x y) by lia.
    pose proof (Htrans r x y Hr Hx Hy A B). lia.
  Qed.
  Lemma sort_by_stable x : In x D -> forall l, Forall (fun y => In y D) l ->
    filter (ties x) (sort_by cmp l) = filter (ties x) l.
  Proof.
    intros Hx. induction l as [|r t IH]; intros HD; [reflexivity|]. inversion HD as [|r' t' Hr Ht]; subst.
    unfold sort_by in *. cbn [fold_right]. rewrite insert_by_ties; try assumption.
    - cbn [filter]. rewrite (IH Ht). reflexivity.
    - rewrite Forall_forall in Ht |- *. intros y Hy. apply Ht.
      apply (Permutation_in _ (sort_by_perm t)). exact Hy.
    - now apply sort_by_sorted.
  Qed.
End SortBy.

(** * the operator: emission in batches of 2048 loses nothing and keeps the order *)
Lemma sort_next_nil keys cs' : sort_next keys (Some []) cs' = None.
Proof. reflexivity. Qed.
Lemma sort_next_cons keys r rs cs' :
  sort_next keys (Some (r :: rs)) cs'
  = Some (mkChunk (firstn 2048 (r :: rs)) None, Some (skipn 2048 (r :: rs)), []).
Proof. unfold sort_next. change (firstn 2048 (r :: rs)) with (r :: firstn 2047 rs). reflexivity. Qed.

Lemma sort_emit keys : forall fuel rows cs', (length rows < fuel)%nat ->
  rows_of (drain_st (sort_next keys) fuel (Some rows) cs') = rows
  /\ Forall small_chunk (drain_st (sort_next keys) fuel (Some rows) cs').
Proof.
  induction fuel as [|f IH]; intros rows cs' Hf; [lia|].
  cbn [drain_st]. destruct rows as [|r rs]; [rewrite sort_next_nil; split; [reflexivity|constructor]|].
  rewrite sort_next_cons.
  destruct (IH (skipn 2048 (r :: rs)) []) as [A B]; [rewrite skipn_length; cbn [length] in *; lia|].
  split.
  - rewrite rows_of_cons, lrows_plain, A. apply firstn_skipn.
  - constructor; [|exact B]. split; [exact I|]. unfold row_count. cbn [c_sel c_rows].
    rewrite firstn_length. lia.
Qed.

Lemma drain_sort_l keys cs :
  rows_of (drain_sort keys cs) = sort_by (rows_cmp keys) (rows_of cs)
  /\ Forall small_chunk (drain_sort keys cs).
Proof.
  unfold drain_sort.
  assert (E : forall fuel, drain_st (sort_next keys) fuel None cs
                           = drain_st (sort_next keys) fuel (Some (sort_by (rows_cmp keys) (rows_of cs))) cs)
    by (intros [|f]; reflexivity).
  rewrite E. apply sort_emit. rewrite sort_by_length. unfold fuel_of. lia.
Qed.

Lemma small_wf cs : Forall small_chunk cs -> Forall chunk_wf cs.
Proof. intros H. eapply Forall_impl; [|exact H]. intros c [W _]. exact W. Qed.

(** ORDER BY ... SKIP s LIMIT n *)
Lemma sorted_window_l keys s n cs :
  rows_of (drain_limit n (drain_skip s (drain_sort keys cs)))
  = firstn (Z.to_nat n) (skipn (Z.to_nat s) (sort_by (rows_cmp keys) (rows_of cs))).
Proof.
  destruct (drain_sort_l keys cs) as [A B].
  rewrite skip_limit_spec_l by (apply small_wf, B). now rewrite A.
Qed.

(** the whole operator: a permutation of the input, sorted and stable whenever the comparator is
    transitive on the input rows *)
Lemma sort_spec_l keys cs :
  let rows := rows_of cs in
  let out := rows_of (drain_sort keys cs) in
  Permutation out rows
  /\ ((forall a b c, In a rows -> In b rows -> In c rows ->
         rows_cmp keys a b <= 0 -> rows_cmp keys b c <= 0 -> rows_cmp keys a c <= 0) ->
      StronglySorted (fun a b => rows_cmp keys a b <= 0) out
      /\ forall x, In x rows -> filter (ties (rows_cmp keys) x) out = filter (ties (rows_cmp keys) x) rows).
Proof.
  intros rows out. unfold out. destruct (drain_sort_l keys cs) as [A _]. rewrite A. fold rows.
  split; [apply sort_by_perm|]. intros HT.
  assert (HD : Forall (fun x => In x rows) rows) by (apply Forall_forall; auto).
  split.
  - apply (sort_by_sorted (rows_cmp keys) rows (fun a b => rows_cmp_antisym keys a b) HT rows HD).
  - intros x Hx.
    apply (sort_by_stable (rows_cmp keys) rows (fun a b => rows_cmp_antisym keys a b) HT x Hx rows HD).
Qed.

(** [cmp_consistent] decides the hypothesis *)
Lemma cmp_consistent_trans cmp rows : cmp_consistent cmp rows = true ->
  forall a b c, In a rows -> In b rows -> In c rows -> cmp a b <= 0 -> cmp b c <= 0 -> cmp a c <= 0.
Proof.
  unfold cmp_consistent. intros H a b c Ha Hb Hc L1 L2.
  rewrite forallb_forall in H. specialize (H a Ha). rewrite forallb_forall in H. specialize (H b Hb).
  apply andb_true_iff in H as [_ H]. rewrite forallb_forall in H. specialize (H c Hc).
  unfold sgn_le in H. apply orb_true_iff in H as [H|H].
  - apply negb_true_iff, andb_false_iff in H as [H|H]; apply Z.leb_gt in H; lia.
  - now apply Z.leb_le.
Qed.

(** * Int64 key columns: the comparator is a lexicographic order on integer vectors *)
Fixpoint lex_cmp (a b : list Z) : Z :=
  match a, b with
  | x :: a', y :: b' => let c := cmp_z x y in if c =? 0 then lex_cmp a' b' else c
  | _, _ => 0
  end.
Definition rk (k : skey) (r : row) : list Z :=
  let p := match nth_error r (sk_col k) with
           | Some (VInt z) => (0, z)
           | _ => (match sk_nulls k with NullsFirst => -1 | NullsLast => 1 end, 0)
           end in
  match sk_dir k with Asc => [fst p; snd p] | Desc => [- fst p; - snd p] end.
Definition rks (keys : list skey) (r : row) : list Z := flat_map (fun k => rk k r) keys.

Lemma cmp_z_cases x y : (x < y /\ cmp_z x y = -1) \/ (x = y /\ cmp_z x y = 0) \/ (y < x /\ cmp_z x y = 1).
Proof. unfold cmp_z. destruct (Z.ltb_spec x y), (Z.ltb_spec y x); lia. Qed.
Lemma cmp_z_opp x y : cmp_z (- x) (- y) = - cmp_z x y.
Proof. destruct (cmp_z_cases x y) as [[A ->]|[[A ->]|[A ->]]], (cmp_z_cases (- x) (- y)) as [[B ->]|[[B ->]|[B ->]]]; lia. Qed.

Lemma key_cmp_rk k a b : int_key_col (sk_col k) a = true -> int_key_col (sk_col k) b = true ->
  key_cmp k a b = lex_cmp (rk k a) (rk k b).
Proof.
  unfold int_key_col, key_cmp, rk, cmp_with_nulls. intros Ha Hb.
  destruct (nth_error a (sk_col k)) as [[| |x| | |]|]; try discriminate Ha;
  destruct (nth_error b (sk_col k)) as [[| |y| | |]|]; try discriminate Hb;
  cbn [is_nullish sort_cmp_values fst snd];
  destruct (sk_dir k), (sk_nulls k); cbn [lex_cmp fst snd]; try reflexivity;
  destruct (cmp_z_cases x y) as [[A E]|[[A E]|[A E]]]; rewrite ?cmp_z_opp, ?E; cbn; try reflexivity; try lia.
Qed.

Lemma lex_cmp_app2 x1 x2 y1 y2 l m :
  lex_cmp ([x1; x2] ++ l) ([y1; y2] ++ m)
  = if lex_cmp [x1; x2] [y1; y2] =? 0 then lex_cmp l m else lex_cmp [x1; x2] [y1; y2].
Proof.
  cbn [app lex_cmp].
  destruct (cmp_z_cases x1 y1) as [[A ->]|[[A ->]|[A ->]]]; cbn; try reflexivity.
  destruct (cmp_z_cases x2 y2) as [[B ->]|[[B ->]|[B ->]]]; cbn; reflexivity.
Qed.
Lemma rk_shape k r : exists x1 x2, rk k r = [x1; x2].
Proof. unfold rk. destruct (sk_dir k); eexists; eexists; reflexivity. Qed.

Lemma rows_cmp_rks keys a b :
  forallb (fun k => int_key_col (sk_col k) a) keys = true ->
  forallb (fun k => int_key_col (sk_col k) b) keys = true ->
  rows_cmp keys a b = lex_cmp (rks keys a) (rks keys b).
Proof.
  induction keys as [|k t IH]; [reflexivity|]. cbn [forallb]. intros Ha Hb.
  apply andb_true_iff in Ha as [Ha1 Ha2]. apply andb_true_iff in Hb as [Hb1 Hb2].
  cbn [rows_cmp]. unfold rks. cbn [flat_map]. fold (rks t a) (rks t b).
  destruct (rk_shape k a) as (x1 & x2 & Ea), (rk_shape k b) as (y1 & y2 & Eb).
  rewrite (key_cmp_rk k a b Ha1 Hb1), Ea, Eb, lex_cmp_app2, (IH Ha2 Hb2). reflexivity.
Qed.

Lemma lex_cmp_trans : forall a b c, length a = length b -> length b = length c ->
  lex_cmp a b <= 0 -> lex_cmp b c <= 0 -> lex_cmp a c <= 0.
Proof.
  induction a as [|x a IH]; intros [|y b] [|z c] L1 L2; cbn [length] in *; try discriminate; try (cbn; lia).
  cbn [lex_cmp].
  destruct (cmp_z_cases x y) as [[A ->]|[[A ->]|[A ->]]], (cmp_z_cases y z) as [[B ->]|[[B ->]|[B ->]]],
           (cmp_z_cases x z) as [[C ->]|[[C ->]|[C ->]]]; cbn; try lia.
  intros H1 H2. apply (IH b c); congruence.
Qed.
Lemma rks_length keys : forall a b, length (rks keys a) = length (rks keys b).
Proof.
  intros a b. unfold rks. induction keys as [|k t IH]; [reflexivity|]. cbn [flat_map].
  destruct (rk_shape k a) as (x1 & x2 & ->), (rk_shape k b) as (y1 & y2 & ->). cbn [app length]. now rewrite IH.
Qed.

Lemma int_keyed_trans keys rows : int_keyed keys rows = true ->
  forall a b c, In a rows -> In b rows -> In c rows ->
    rows_cmp keys a b <= 0 -> rows_cmp keys b c <= 0 -> rows_cmp keys a c <= 0.
Proof.
  unfold int_keyed. rewrite forallb_forall. intros H a b c Ha Hb Hc.
  rewrite (rows_cmp_rks keys a b), (rows_cmp_rks keys b c), (rows_cmp_rks keys a c) by auto.
  apply lex_cmp_trans; apply rks_length.
Qed.

Lemma sort_spec_int_keys_l keys cs : int_keyed keys (rows_of cs) = true ->
  let rows := rows_of cs in
  let out := rows_of (drain_sort keys cs) in
  Permutation out rows
  /\ StronglySorted (fun a b => rows_cmp keys a b <= 0) out
  /\ forall x, In x rows -> filter (ties (rows_cmp keys) x) out = filter (ties (rows_cmp keys) x) rows.
Proof.
  intros H rows out. destruct (sort_spec_l keys cs) as [P Q]. split; [exact P|].
  apply Q. now apply int_keyed_trans.
Qed.
