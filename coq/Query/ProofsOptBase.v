(** C09 — basic facts about rows, expression evaluation and the column discipline of [sem]. *)
From Coq Require Import ZArith List Bool String Permutation Lia.
Import ListNotations.
From GV Require Import Query.Plan Query.Opt.
Open Scope Z_scope.

(** ** membership *)
Lemma mem_In : forall x l, mem x l = true <-> In x l.
Proof.
  intros x l; induction l as [|y l IH]; cbn [mem In].
  - split; [discriminate|tauto].
  - rewrite orb_true_iff, String.eqb_eq, IH. tauto.
Qed.

Lemma mem_false_In : forall x l, mem x l = false <-> ~ In x l.
Proof.
  intros x l. rewrite <- mem_In. destruct (mem x l); split.
  - discriminate.
  - intros H; exfalso; apply H; reflexivity.
  - intros _ H; discriminate.
  - reflexivity.
Qed.

Lemma mem_app : forall x a b, mem x (a ++ b) = mem x a || mem x b.
Proof.
  intros x a b; induction a as [|y a IH]; cbn [mem app]; [reflexivity|].
  rewrite IH, orb_assoc; reflexivity.
Qed.

Lemma uses_any_false : forall vs s, uses_any vs s = false -> forall v, In v vs -> mem v s = false.
Proof.
  unfold uses_any; intros vs s H v Hv.
  destruct (mem v s) eqn:E; [|reflexivity].
  assert (existsb (fun v => mem v s) vs = true) by (apply existsb_exists; eauto). congruence.
Qed.

Lemma disjointb_true : forall a b, disjointb a b = true -> forall v, In v a -> mem v b = false.
Proof.
  unfold disjointb; intros a b H. apply uses_any_false. now apply negb_true_iff.
Qed.

Lemma list_eqb_str_eq : forall a b, list_eqb String.eqb a b = true -> a = b.
Proof.
  induction a as [|x a IH]; destruct b as [|y b]; cbn [list_eqb]; try discriminate; auto.
  rewrite andb_true_iff, String.eqb_eq. intros [-> H]. f_equal; auto.
Qed.

(** ** lookup *)
Lemma lookup_app : forall x a b,
  lookup x (a ++ b) = match lookup x a with Some v => Some v | None => lookup x b end.
Proof.
  intros x a b; induction a as [|[k v] a IH]; cbn [lookup app]; [reflexivity|].
  destruct (String.eqb k x); auto.
Qed.

Lemma lookup_not_key : forall x r, mem x (keys r) = false -> lookup x r = None.
Proof.
  intros x r; induction r as [|[k v] r IH]; cbn [lookup keys map mem fst]; [reflexivity|].
  rewrite orb_false_iff. intros [-> H]. apply IH, H.
Qed.

Lemma lookup_key : forall x r, mem x (keys r) = true -> exists v, lookup x r = Some v.
Proof.
  intros x r; induction r as [|[k v] r IH]; cbn [lookup keys map mem fst]; [discriminate|].
  destruct (String.eqb k x); cbn [orb]; eauto.
Qed.

Lemma keys_app : forall a b, keys (a ++ b) = keys a ++ keys b.
Proof. intros; unfold keys; apply map_app. Qed.

Lemma keys_null_row : forall cs, keys (null_row cs) = cs.
Proof.
  unfold keys, null_row; intros. rewrite map_map; cbn [fst]. apply map_id.
Qed.

Lemma keys_project_row : forall G items r, keys (project_row G items r) = map item_name items.
Proof.
  unfold keys, project_row; intros. rewrite map_map; cbn [fst]. reflexivity.
Qed.

Lemma keys_xcols : forall t ev h x, keys (xcols t ev h x) = xnames t ev h.
Proof.
  intros t ev h x. unfold xcols, xnames. rewrite !keys_app.
  destruct ev, (h_path h); reflexivity.
Qed.

(** ** evaluation only looks at the variables [collect_variables] reports *)
Lemma eval_ext : forall G e r1 r2,
  (forall v, In v (expr_vars e) -> lookup v r1 = lookup v r2) -> eval G e r1 = eval G e r2.
Proof.
  intros G e r1 r2; induction e as [v|x|x p|o a IHa b IHb|o a IHa|x l|tg vs]; cbn [eval expr_vars]; intros H.
  - reflexivity.
  - rewrite (H x) by (left; reflexivity). reflexivity.
  - rewrite (H x) by (left; reflexivity). reflexivity.
  - rewrite IHa, IHb; [reflexivity| |]; intros v Hv; apply H, in_or_app; tauto.
  - rewrite IHa; auto.
  - rewrite (H x) by (left; reflexivity). reflexivity.
  - reflexivity.
Qed.

Lemma passes_ext : forall G e r1 r2,
  (forall v, In v (expr_vars e) -> lookup v r1 = lookup v r2) -> passes G e r1 = passes G e r2.
Proof. intros; unfold passes; erewrite eval_ext; eauto. Qed.

(** ** the boolean equalities on values and rows decide equality *)
Lemma val_eqb_eq : forall a b, val_eqb a b = true -> a = b.
Proof.
  intros a b; destruct a, b; cbn [val_eqb]; try discriminate; intros H; try reflexivity.
  - apply Bool.eqb_prop in H. congruence.
  - apply Z.eqb_eq in H. congruence.
  - apply String.eqb_eq in H. congruence.
  - apply Z.eqb_eq in H. congruence.
  - apply Z.eqb_eq in H. congruence.
Qed.

Lemma row_eqb_eq : forall a b, row_eqb a b = true -> a = b.
Proof.
  induction a as [|[k v] a IH]; destruct b as [|[k' v'] b]; cbn [row_eqb]; try discriminate; [reflexivity|].
  intros H. apply andb_true_iff in H as [H H3]. apply andb_true_iff in H as [H1 H2].
  apply String.eqb_eq in H1. apply val_eqb_eq in H2. rewrite (IH _ H3). congruence.
Qed.

(** a filter commutes with first-occurrence duplicate removal *)
Lemma filter_dedup_gen : forall (p : row -> bool) l s1 s2,
  (forall y, p y = true -> existsb (row_eqb y) s1 = existsb (row_eqb y) s2) ->
  filter p (dedup s1 l) = dedup s2 (filter p l).
Proof.
  intros p l; induction l as [|x l IH]; intros s1 s2 H; cbn [dedup filter]; [reflexivity|].
  destruct (p x) eqn:Px.
  - cbn [dedup]. rewrite <- (H x Px). destruct (existsb (row_eqb x) s1); [apply IH, H|].
    cbn [filter]. rewrite Px. f_equal. apply IH. intros y Py. cbn [existsb]. rewrite (H y Py). reflexivity.
  - destruct (existsb (row_eqb x) s1); [apply IH, H|].
    cbn [filter]. rewrite Px. apply IH. intros y Py. cbn [existsb].
    destruct (row_eqb y x) eqn:E; [|apply H, Py].
    apply row_eqb_eq in E. subst. congruence.
Qed.

Lemma filter_dedup : forall (p : row -> bool) l, filter p (dedup [] l) = dedup [] (filter p l).
Proof. intros. apply filter_dedup_gen. reflexivity. Qed.

(** ** list facts *)
Lemma dedup_In : forall rs seen r, In r (dedup seen rs) -> In r rs.
Proof.
  induction rs as [|x rs IH]; cbn [dedup]; intros seen r H; [tauto|].
  destruct (existsb (row_eqb x) seen).
  - right; eapply IH; eauto.
  - destruct H as [->|H]; [left; reflexivity|right; eapply IH; eauto].
Qed.

Lemma insert_sorted_In : forall le r l x, In x (insert_sorted le r l) -> x = r \/ In x l.
Proof.
  intros le r l; induction l as [|y l IH]; cbn [insert_sorted]; intros x H.
  - destruct H as [<-|[]]; auto.
  - destruct (le y r).
    + destruct H as [<-|H]; [right; left; reflexivity|].
      destruct (IH _ H); [auto|right; right; assumption].
    + destruct H as [<-|H]; auto.
Qed.

Lemma sort_rows_In : forall le l x, In x (sort_rows le l) -> In x l.
Proof.
  intros le l x. unfold sort_rows.
  assert (forall acc, In x (fold_left (fun acc r => insert_sorted le r acc) l acc) -> In x acc \/ In x l) as H.
  { induction l as [|y l IH]; cbn [fold_left]; intros acc H; [auto|].
    destruct (IH _ H) as [H1|H1]; [|right; right; assumption].
    destruct (insert_sorted_In _ _ _ _ H1) as [->|H2]; [right; left; reflexivity|auto]. }
  intros H0. destruct (H _ H0) as [[]|]; assumption.
Qed.

Lemma firstn_In' : forall {A} n (l : list A) x, In x (firstn n l) -> In x l.
Proof.
  intros A n l x H. rewrite <- (firstn_skipn n l). apply in_or_app; auto.
Qed.
Lemma skipn_In' : forall {A} n (l : list A) x, In x (skipn n l) -> In x l.
Proof.
  intros A n l x H. rewrite <- (firstn_skipn n l). apply in_or_app; auto.
Qed.

(** ** every row of a plan has exactly the planner's columns *)
Lemma keys_sem : forall G p, uniform p = true -> forall r, In r (sem G p) -> keys r = schema p.
Proof.
  intros G p; induction p as
    [|x l|x l inp IH|f t ev d ty h inp IH|e inp IH|items inp IH|items dd inp IH|k cs pl IHl pr IHr
     |pl IHl pr IHr|gs ags inp IH|ks inp IH|n inp IH|n inp IH|inp IH|a IHa b IHb];
    cbn [uniform sem schema]; intros U r Hr.
  - destruct Hr.
  - apply in_map_iff in Hr as (n & <- & _). reflexivity.
  - apply in_flat_map in Hr as (r0 & H0 & Hr). apply in_map_iff in Hr as (n & <- & _).
    rewrite keys_app, (IH U _ H0). reflexivity.
  - apply in_flat_map in Hr as (r0 & H0 & Hr). unfold expand_row in Hr.
    destruct (lookup f r0) as [[| | | |s|]|]; try destruct Hr.
    apply in_map_iff in Hr as (et & <- & _). rewrite keys_app, (IH U _ H0), keys_xcols. reflexivity.
  - apply filter_In in Hr as [Hr _]. auto.
  - apply in_map_iff in Hr as (r0 & <- & _). apply keys_project_row.
  - assert (In r (map (project_row G items) (sem G inp))) as Hr'
      by (unfold return_rows in Hr; destruct dd; [eapply dedup_In; eauto|exact Hr]).
    apply in_map_iff in Hr' as (r0 & <- & _). apply keys_project_row.
  - apply andb_true_iff in U as [Ul Ur]. unfold join_rows in Hr.
    apply in_flat_map in Hr as (a & Ha & Hr).
    set (ms := filter (fun b => forallb (cond_holds (schema pl) (schema pr) a b) cs) (sem G pr)) in *.
    assert (forall b, In b ms -> keys b = schema pr) as Hms.
    { intros b Hb. apply filter_In in Hb as [Hb _]. auto. }
    assert (In r (map (fun b => a ++ b) ms) -> keys r = schema pl ++ schema pr) as Hgen.
    { intros H. apply in_map_iff in H as (b & <- & Hb). rewrite keys_app, (IHl Ul _ Ha), (Hms _ Hb). reflexivity. }
    destruct k; try (apply Hgen; exact Hr).
    destruct ms as [|m ms']; [|apply Hgen; exact Hr].
    destruct Hr as [<-|[]]. rewrite keys_app, keys_null_row, (IHl Ul _ Ha). reflexivity.
  - apply andb_true_iff in U as [Ul Ur]. unfold left_join_rows in Hr.
    apply in_flat_map in Hr as (a & Ha & Hr).
    set (ms := filter (shared_eq (schema pl) (schema pr) a) (sem G pr)) in *.
    assert (forall b, In b ms -> keys b = schema pr) as Hms.
    { intros b Hb. apply filter_In in Hb as [Hb _]. auto. }
    destruct ms as [|m ms'].
    + destruct Hr as [<-|[]]. rewrite keys_app, keys_null_row, (IHl Ul _ Ha). reflexivity.
    + apply in_map_iff in Hr as (b & <- & Hb). rewrite keys_app, (IHl Ul _ Ha), (Hms _ Hb). reflexivity.
  - unfold agg_rows in Hr. destruct gs as [|g gs].
    + destruct Hr as [<-|[]]. unfold keys. rewrite map_map; cbn [fst map app]. reflexivity.
    + apply in_map_iff in Hr as (kk & <- & Hk). apply dedup_In in Hk.
      apply in_map_iff in Hk as (r0 & <- & _).
      rewrite keys_app. unfold keys, group_key. rewrite !map_map; cbn [fst]. reflexivity.
  - apply sort_rows_In in Hr. auto.
  - apply skipn_In' in Hr. auto.
  - apply firstn_In' in Hr. auto.
  - apply dedup_In in Hr. auto.
  - apply andb_true_iff in U as [U Ub]. apply andb_true_iff in U as [E Ua].
    apply in_app_or in Hr as [Hr|Hr]; [auto|].
    rewrite (list_eqb_str_eq _ _ E). auto.
Qed.

Lemma lookup_in_schema : forall G p r v,
  uniform p = true -> In r (sem G p) -> mem v (schema p) = true -> exists x, lookup v r = Some x.
Proof.
  intros G p r v U Hr Hv. apply lookup_key. rewrite (keys_sem G p U r Hr). exact Hv.
Qed.

Lemma lookup_not_in_schema : forall G p r v,
  uniform p = true -> In r (sem G p) -> mem v (schema p) = false -> lookup v r = None.
Proof.
  intros G p r v U Hr Hv. apply lookup_not_key. rewrite (keys_sem G p U r Hr). exact Hv.
Qed.
