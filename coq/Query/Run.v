(** C11 — comparison of implementation observations with the model (run by checks/c11.py):
    [chk_*] : inputs + what the real operators / the engine returned -> bool (model == impl),
    [k_*]   : the finding classes, evaluated on the failing input. *)
From GV Require Export Query.Stream Query.StreamAgg Query.StreamSort.
Open Scope Z_scope.

(** The run compares with the transcriptions of the code AS IT IS NOW (Stream.v, StreamAgg.v,
    StreamSort.v); the [_pre] transcriptions of repaired code only serve the refutation theorems and
    the (historical) finding classes below. *)
Definition ovalue_eqb : option value -> option value -> bool := option_eqb value_eqb.
Definition row_eqb : row -> row -> bool := list_eqb value_eqb.
Definition rows_eqb : list row -> list row -> bool := list_eqb row_eqb.

(** * inputs written compactly by the harness *)
(** runs [(start, len)] of consecutive integers *)
Definition expand_runs (rs : list (Z * Z)) : list Z :=
  flat_map (fun p => map (fun i => fst p + Z.of_nat i) (seq 0 (Z.to_nat (snd p)))) rs.
Definition int_rows_of (l : list Z) : list row := map (fun z => [VInt z]) l.
(** chunks of one integer column; physical row number [i] of the whole input holds [f i];
    a chunk is (physical row count, optional selection as runs) *)
Fixpoint mk_chunks (f : Z -> row) (base : Z) (specs : list (Z * option (list (Z * Z)))) : list chunk :=
  match specs with
  | [] => []
  | (n, sel) :: t =>
      mkChunk (map (fun i => f (base + Z.of_nat i)) (seq 0 (Z.to_nat n))) (option_map expand_runs sel)
      :: mk_chunks f (base + n) t
  end.
Definition f_id (i : Z) : row := [VInt i].
Definition f_mod (m : Z) (i : Z) : row := [VInt (i mod m)].

(** * operator level *)
(** [ExpressionPredicate::eval_at] and [Predicate::evaluate] on every row *)
Definition chk_eval (e : expr) (envs : list env) (obs : list (option value)) (pass : list bool) : bool :=
  list_eqb ovalue_eqb (map (fun en => eval fa_none en e) envs) obs
  && list_eqb Bool.eqb (map (passes fa_none e) envs) pass.
Definition show_eval (e : expr) (envs : list env) := map (fun en => eval fa_none en e) envs.

Definition chk_filter (p : expr) (cs : list chunk) (obs : list row) : bool :=
  rows_eqb (rows_of (drain_filter fa_none row_env p cs)) obs.
Definition show_filter (p : expr) (cs : list chunk) := rows_of (drain_filter fa_none row_env p cs).

Inductive winkind := WLimit | WSkip | WSkipLimit | WFused.
Definition run_window (k : winkind) (s n : Z) (cs : list chunk) : list chunk :=
  match k with
  | WLimit => drain_limit n cs
  | WSkip => drain_skip s cs
  | WSkipLimit => drain_limit n (drain_skip s cs)
  | WFused => drain_limitskip s n cs
  end.
(** also the shape of the output (rows per emitted chunk) is compared *)
Definition chk_window (k : winkind) (s n : Z) (specs : list (Z * option (list (Z * Z))))
           (obs : list (Z * Z)) (obs_counts : list Z) : bool :=
  let out := run_window k s n (mk_chunks f_id 0 specs) in
  rows_eqb (rows_of out) (int_rows_of (expand_runs obs))
  && zlist_eqb (map row_count out) obs_counts.
Definition chk_window_rows (k : winkind) (s n : Z) (cs : list chunk) (obs : list row) : bool :=
  rows_eqb (rows_of (run_window k s n cs)) obs.

Definition chk_distinct (cs : list chunk) (obs : list row) : bool :=
  rows_eqb (rows_of (drain_distinct cs)) obs.
Definition chk_distinct_mod (m : Z) (specs : list (Z * option (list (Z * Z)))) (obs : list Z) : bool :=
  rows_eqb (rows_of (drain_distinct (mk_chunks (f_mod m) 0 specs))) (int_rows_of obs).
Definition show_distinct (cs : list chunk) := rows_of (drain_distinct cs).

Definition chk_union (inputs : list (list chunk)) (obs : list row) : bool :=
  rows_eqb (rows_of (drain_union inputs)) obs.

Definition chk_simple_agg (aggs : list aggfn) (cs : list chunk) (obs : list row) : bool :=
  rows_eqb (rows_of (drain_simple_agg aggs cs)) obs.
Definition chk_simple_agg_int (aggs : list aggfn) (specs : list (Z * option (list (Z * Z)))) (obs : list row) : bool :=
  rows_eqb (rows_of (drain_simple_agg aggs (mk_chunks f_id 0 specs))) obs.
Definition chk_hash_agg (gcols : list nat) (aggs : list aggfn) (cs : list chunk) (obs : list row) : bool :=
  rows_eqb (rows_of (drain_hash_agg gcols aggs cs)) obs.
Definition chk_hash_agg_mod (m : Z) (specs : list (Z * option (list (Z * Z)))) (obs : list row) : bool :=
  rows_eqb (rows_of (drain_hash_agg [0%nat] [AggCountStar] (mk_chunks (f_mod m) 0 specs))) obs.
Definition show_hash_agg (gcols : list nat) (aggs : list aggfn) (cs : list chunk) :=
  rows_of (drain_hash_agg gcols aggs cs).

(** aggregates beyond COUNT: [obs = None] stands for a panic of the operator *)
Definition ores_eqb (r : res (list row)) (obs : option (list row)) : bool :=
  match r, obs with
  | Ok rows, Some o => rows_eqb rows o
  | Panic, None => true
  | _, _ => false
  end.
Definition chk_simple_agg2 (aggs : list aggf) (tys : list ltype) (cs : list chunk) (obs : option (list row)) : bool :=
  ores_eqb (simple_agg2 Checked aggs tys cs) obs.
Definition chk_hash_agg2 (gcols : list nat) (aggs : list aggf) (tys : list ltype) (cs : list chunk)
           (obs : option (list row)) : bool :=
  ores_eqb (hash_agg2 Checked gcols aggs tys cs) obs.
Definition show_simple_agg2 (aggs : list aggf) (tys : list ltype) (cs : list chunk) := simple_agg2 Checked aggs tys cs.
Definition show_hash_agg2 (gcols : list nat) (aggs : list aggf) (tys : list ltype) (cs : list chunk) :=
  hash_agg2 Checked gcols aggs tys cs.
(** big inputs: one integer column [i mod m - off], SUM / MIN / MAX / AVG / COUNT over it *)
Definition f_modoff (m off : Z) (i : Z) : row := [VInt (i mod m - off)].
Definition chk_simple_agg2_mod (m off : Z) (aggs : list aggf) (tys : list ltype)
           (specs : list (Z * option (list (Z * Z)))) (obs : option (list row)) : bool :=
  ores_eqb (simple_agg2 Checked aggs tys (mk_chunks (f_modoff m off) 0 specs)) obs.

(** Sort: rows and the shape of the output *)
Definition chk_sort (keys : list skey) (cs : list chunk) (obs : list row) (obs_counts : list Z) : bool :=
  let out := drain_sort keys cs in
  rows_eqb (rows_of out) obs && zlist_eqb (map row_count out) obs_counts.
Definition show_sort (keys : list skey) (cs : list chunk) := rows_of (drain_sort keys cs).
(** big inputs: rows [(a * i) mod m; i] sorted on column 0 (then 1); observed = column 1 *)
Definition f_perm2 (a m g : Z) (i : Z) : row := [VInt (((a * i) mod m) / g); VInt i].
Definition chk_sort_perm (keys : list skey) (a m g : Z) (specs : list (Z * option (list (Z * Z))))
           (obs : list Z) (obs_counts : list Z) : bool :=
  let out := drain_sort keys (mk_chunks (f_perm2 a m g) 0 specs) in
  zlist_eqb (map (fun r => match r with [_; VInt i] => i | _ => -1 end) (rows_of out)) obs
  && zlist_eqb (map row_count out) obs_counts.
(** ... and the consistency of the comparator on the input (small inputs) *)
Definition sort_consistent (keys : list skey) (cs : list chunk) : bool :=
  cmp_consistent (rows_cmp keys) (rows_of cs).

(** * engine level: a node table [tab] (node number -> properties), the scan order [scan]
      (node numbers as returned by the base query) *)
Fixpoint insert_z (z : Z) (l : list Z) : list Z :=
  match l with [] => [z] | x :: t => if z <=? x then z :: x :: t else x :: insert_z z t end.
Definition sort_z (l : list Z) : list Z := fold_right insert_z [] l.
Definition ids_of (rows : list row) : list Z := map row_int_key rows.
Definition same_ids (rows : list row) (obs : list Z) : bool := zlist_eqb (sort_z (ids_of rows)) (sort_z obs).

Definition eng_filter (tab : list env) (scan : list Z) (p : expr) : list row :=
  rows_of (drain_filter fa_none (tab_env tab) p (scan_chunks (int_rows_of scan))).
(** what [MATCH (n:L) WHERE p] yields (range path included) *)
Definition eng_where (tab : list env) (scan : list Z) (p : expr) : list row :=
  rows_of (where_chunks fa_none tab p (int_rows_of scan)).
(** [Q WHERE p], [Q WHERE NOT p], [Q WHERE (p) IS NULL] (as sets of node numbers) and
    [count(n)] of the first *)
Definition chk_eng_part (tab : list env) (scan : list Z) (p : expr) (o1 o2 o3 : list Z) (cnt : Z) : bool :=
  same_ids (eng_where tab scan p) o1
  && same_ids (eng_where tab scan (EUn Not p)) o2
  && same_ids (eng_where tab scan (EUn IsNull p)) o3
  && (Z.of_nat (length (eng_where tab scan p)) =? cnt).
Definition show_eng_part (tab : list env) (scan : list Z) (p : expr) :=
  (sort_z (ids_of (eng_where tab scan p)), sort_z (ids_of (eng_where tab scan (EUn Not p))),
   sort_z (ids_of (eng_where tab scan (EUn IsNull p)))).
(** the same on the big table whose node [i] has the single property [(a * i) mod m] *)
Definition perm_keys (a m : Z) : list Z := map (fun i => (a * Z.of_nat i) mod m) (seq 0 (Z.to_nat m)).
Definition perm_tab (a m : Z) : list env := map (fun k => [Some (VInt k)]) (perm_keys a m).
Definition chk_eng_part_perm (a m : Z) (p : expr) (o1 o2 o3 : list (Z * Z)) (cnt : Z) : bool :=
  chk_eng_part (perm_tab a m) (map Z.of_nat (seq 0 (Z.to_nat m))) p (expand_runs o1) (expand_runs o2) (expand_runs o3) cnt.

(** two stacked filters: [MATCH (n:L {k: v}) WHERE p2] / [WHERE p1 WITH n WHERE p2] *)
Definition eng_stacked (tab : list env) (scan : list Z) (p1 p2 : expr) : list row :=
  rows_of (drain_filter fa_none (tab_env tab) p2 (where_chunks fa_none tab p1 (int_rows_of scan))).
Definition chk_eng_stacked (tab : list env) (scan : list Z) (p1 p2 : expr) (o : list Z) : bool :=
  same_ids (eng_stacked tab scan p1 p2) o.
Definition show_eng_stacked (tab : list env) (scan : list Z) (p1 p2 : expr) := sort_z (ids_of (eng_stacked tab scan p1 p2)).
Definition spec_stacked (tab : list env) (scan : list Z) (p1 p2 : expr) : list row :=
  filter (row_passes fa_none (tab_env tab) p2) (filter (row_passes fa_none (tab_env tab) p1) (int_rows_of scan)).

Definition chk_eng_window (l : lang) (ord : bool) (s n : option Z) (keys : list Z) (obs : list Z) : bool :=
  zlist_eqb (ids_of (window_query l ord s n (int_rows_of keys))) obs.
(** big tables: the keys are [perm a m i = (a * i) mod m] for i < m, the answer is given as runs
    when it is unordered-by-scan (not used) or as a plain list *)
Definition chk_eng_window_perm (l : lang) (ord : bool) (s n : option Z) (a m : Z) (obs : list Z) : bool :=
  zlist_eqb (ids_of (window_query l ord s n (int_rows_of (perm_keys a m)))) obs.
Definition chk_eng_count (l : lang) (s n : option Z) (nrows : Z) (obs : list row) : bool :=
  rows_eqb (count_query l s n (int_rows_of (map Z.of_nat (seq 0 (Z.to_nat nrows))))) obs.

(** DISTINCT and GROUP BY on one projected value per node, [vals] in scan order *)
Definition chk_eng_return_distinct (vals : list value) (obs : list row) : bool :=
  rows_eqb (return_distinct_query (map (fun v => [v]) vals)) obs.
Definition chk_eng_with_distinct (vals : list value) (obs : list row) : bool :=
  rows_eqb (with_distinct_query (map (fun v => [v]) vals)) obs.
Definition chk_eng_group_count (vals : list value) (obs : list row) : bool :=
  rows_eqb (rows_of (drain_hash_agg [0%nat] [AggCountStar] (scan_chunks (map (fun v => [v]) vals)))) obs.
Definition chk_eng_union (a b : list Z) (obs : list Z) : bool :=
  zlist_eqb (ids_of (rows_of (drain_union [scan_chunks (int_rows_of a); scan_chunks (int_rows_of b)]))) obs.

(** [MATCH (n:L) RETURN f(n.p)] / [RETURN n.g, f(n.p)]: [vals] = the projected (group, argument)
    values in scan order; the planner's output types *)
Definition agg_rows (vals : list (value * value)) : list row := map (fun p => [fst p; snd p]) vals.
(** before a5bb467 the Cypher translator mapped count(expr) to the count-star function (finding
    C11-K12, fixed); now, as in the GQL translator, it is CountNonNull *)
Definition lang_agg_pre (l : lang) (f : aggf) : aggf :=
  match l, f with
  | Cypher, FCount _ => FCountStar
  | _, _ => f
  end.
Definition lang_agg (l : lang) (f : aggf) : aggf := f.
Definition chk_eng_agg (l : lang) (f : aggf) (vals : list (value * value)) (obs : option (list row)) : bool :=
  ores_eqb (simple_agg2 Checked [lang_agg l f] [planner_type f] (scan_chunks (agg_rows vals))) obs.
Definition chk_eng_group_agg (l : lang) (f : aggf) (vals : list (value * value)) (obs : option (list row)) : bool :=
  ores_eqb (hash_agg2 Checked [0%nat] [lang_agg l f] [planner_type f] (scan_chunks (agg_rows vals))) obs.
Definition show_eng_agg (l : lang) (f : aggf) (vals : list (value * value)) :=
  (simple_agg2 Checked [lang_agg l f] [planner_type f] (scan_chunks (agg_rows vals)),
   hash_agg2 Checked [0%nat] [lang_agg l f] [planner_type f] (scan_chunks (agg_rows vals))).
(** the aggregate without the typed vector (what the functions compute) *)
Definition agg_untyped (f : aggf) (vals : list (value * value)) : res (list row) :=
  simple_agg2 Checked [f] [TAny] (scan_chunks (agg_rows vals)).

(** [ORDER BY k1 [DESC], k2 ...] over projected rows; observed = the last column (node number) *)
Definition chk_eng_sort (keys : list skey) (rows : list row) (s n : option Z) (obs : list Z) : bool :=
  zlist_eqb (map (fun r => match last r VNull with VInt i => i | _ => -1 end)
                 (rows_of (opt_limit n (opt_skip s (drain_sort keys (scan_chunks rows)))))) obs.
Definition show_eng_sort (keys : list skey) (rows : list row) (s n : option Z) :=
  rows_of (opt_limit n (opt_skip s (drain_sort keys (scan_chunks rows)))).

(** * finding classes *)
(** structural first-occurrence dedup: the specification of DISTINCT *)
Fixpoint dedup_struct (seen : list row) (l : list row) : list row :=
  match l with
  | [] => []
  | r :: t => if existsb (row_eqb r) seen then dedup_struct seen t else r :: dedup_struct (r :: seen) t
  end.

(** K1 (fixed by df57ccb; kept for the record, evaluated on the transcription of the OLD operator):
        a filter fed with a chunk that carries a selection vector (operator level) / two stacked
        filters (engine level), and the old answer really differed from the specification *)
Definition k_filter_sel (p : expr) (cs : list chunk) : bool :=
  negb (sel_free cs)
  && negb (rows_eqb (rows_of (drain_filter_pre fa_none row_env p cs))
                    (filter (row_passes fa_none row_env p) (rows_of cs))).
Definition eng_stacked_pre (tab : list env) (scan : list Z) (p1 p2 : expr) : list row :=
  rows_of (drain_filter_pre fa_none (tab_env tab) p2
             (match range_pred p1 with
              | Some _ => where_chunks fa_none tab p1 (int_rows_of scan)
              | None => drain_filter_pre fa_none (tab_env tab) p1 (scan_chunks (int_rows_of scan))
              end)).
Definition k_stacked (tab : list env) (scan : list Z) (p1 p2 : expr) : bool :=
  negb (zlist_eqb (sort_z (ids_of (eng_stacked_pre tab scan p1 p2))) (sort_z (ids_of (spec_stacked tab scan p1 p2)))).
(** K2: GQL, SKIP/LIMIT together with ORDER BY or an aggregate *)
Definition k_gql_window (ord : bool) (s n : option Z) (keys : list Z) : bool :=
  ord && negb (rows_eqb (window_query_pre Gql ord s n (int_rows_of keys)) (window_spec ord s n (int_rows_of keys))).
Definition k_gql_window_perm (ord : bool) (s n : option Z) (a m : Z) : bool :=
  k_gql_window ord s n (perm_keys a m).
Definition k_gql_count (s n : option Z) (nrows : Z) : bool :=
  let rows := int_rows_of (map Z.of_nat (seq 0 (Z.to_nat nrows))) in
  negb (rows_eqb (count_query_pre Gql s n rows) (count_spec s n rows)).
(** K3: RETURN DISTINCT over a result with duplicates *)
Definition k_return_distinct (vals : list value) : bool :=
  let rows := map (fun v => [v]) vals in negb (rows_eqb rows (dedup_struct [] rows)).
(** K4: two different rows with the same row key (Float64 vs Int64 bit pattern, list vs String) *)
Definition k_key_collision (rows : list row) : bool :=
  negb (rows_eqb (dedup_from [] rows) (dedup_struct [] rows)).
Definition k_key_collision_vals (vals : list value) : bool := k_key_collision (map (fun v => [v]) vals).
(** K4': a group key that does not survive [to_values] *)
Definition k_group_key (gcols : list nat) (rows : list row) : bool :=
  existsb (fun r => existsb (fun c => negb (key_scalar (nth c r VNull))) gcols) rows.
Definition k_group_key_vals (vals : list value) : bool := existsb (fun v => negb (key_scalar v)) vals.
(** K5: an input chunk of more than 2048 rows reaches Distinct *)
Definition k_distinct_overflow (cs : list chunk) : bool := existsb (fun c => 2048 <? row_count c) cs.
Definition k_distinct_overflow_mod (m : Z) (specs : list (Z * option (list (Z * Z)))) : bool :=
  k_distinct_overflow (mk_chunks (f_mod m) 0 specs).
(** K6: [prop <> literal] (either order) at the top of the predicate while the column stores a NULL *)
Definition k_zone_ne (tab : list env) (p : expr) : bool :=
  match p with
  | EBin Ne (EVar i) (ELit _) | EBin Ne (ELit _) (EVar i) =>
      existsb (fun en => match nth_error en i with Some (Some VNull) => true | _ => false end) tab
  | _ => false
  end.
(** K8: the range-scan path and the evaluator disagree (cross-type numbers, booleans, NaN) *)
Definition k_range_path (tab : list env) (scan : list Z) (p : expr) : bool :=
  match range_pred p with
  | Some _ => negb (same_ids (eng_where tab scan p) (sort_z (ids_of (eng_filter tab scan p))))
  | None => false
  end.
(** K7: GQL text [Q1 UNION ALL Q2] with a non-empty second branch *)
Definition k_gql_union (b : list Z) : bool := negb (zlist_eqb b []).
(** K9: an aggregate result whose type is not the planner's guess for the output vector *)
Definition k_agg_typed (f : aggf) (vals : list (value * value)) : bool :=
  match agg_untyped f vals with
  | Ok [[v]] => negb (type_okb (planner_type_pre f) v)
  | _ => false
  end.
(** K10: SUM over Int64 overflows *)
Definition k_sum_overflow (f : aggf) (vals : list (value * value)) : bool :=
  match f, agg_untyped f vals with
  | FSum _, Panic => true
  | _, _ => false
  end.
(** K11: a typed result column with a second NULL (the repaired vector would answer differently) *)
Definition k_second_null (gcols : list nat) (aggs : list aggf) (tys : list ltype) (cs : list chunk) : bool :=
  negb (res_eqb rows_eqb (hash_agg2_pre Checked gcols aggs tys cs) (hash_agg2 Checked gcols aggs tys cs)).
Definition k_second_null_eng (f : aggf) (vals : list (value * value)) : bool :=
  k_second_null [0%nat] [f] [planner_type f] (scan_chunks (agg_rows vals)).
(** K12: Cypher count(expr) over a column with a NULL *)
Definition k_cypher_count (f : aggf) (vals : list (value * value)) : bool :=
  match f with
  | FCount _ => existsb (fun p => match snd p with VNull => true | _ => false end) vals
  | _ => false
  end.
